#!/usr/bin/env python3
"""seedkeep.py <PID> <k> <check ids comma-separated> ["needs text"]
Confirm a seeded change produced by a sub-agent (/tmp/seed_<PID>/OUT/patch<k>.diff + demo<k>.rs):
 1. in a scratch worktree: with the patch the 81 tests pass and the demo fails; without it the demo passes;
 2. apply it to /repo, run the given checks (quick), undo it;
 3. keep it as /verif/seeded/<PID>-<k>/ {patch.diff, demo.rs, meta.json}."""
import json, os, re, shutil, subprocess, sys
V = os.path.dirname(os.path.abspath(__file__))
pid, k, ids = sys.argv[1], sys.argv[2], sys.argv[3].split(",")
needs = sys.argv[4] if len(sys.argv) > 4 else ""
src = os.environ.get("SEED_SRC", "/tmp/seed_%s/OUT") % pid if "%s" in os.environ.get("SEED_SRC", "/tmp/seed_%s/OUT") else os.environ["SEED_SRC"]
patch, demo = "%s/patch%s.diff" % (src, k), "%s/demo%s.rs" % (src, k)
wt = "/tmp/sv_work"
env = dict(os.environ, CARGO_NET_OFFLINE="true", CARGO_TARGET_DIR="/tmp/sv_target")
def sh(cmd, **kw): return subprocess.run(cmd, shell=isinstance(cmd, str), capture_output=True, text=True, env=env, **kw)
sh("git -C /repo worktree remove --force %s" % wt); shutil.rmtree(wt, ignore_errors=True)
assert sh("git -C /repo worktree add -f %s HEAD" % wt).returncode == 0
def counts(out):
    return [(int(a), int(b)) for a, b in re.findall(r"test result: \w+\. (\d+) passed; (\d+) failed", out)]
try:
    shutil.copy(demo, wt + "/tests/seeded_demo.rs")
    base = sh("cargo test --offline --no-fail-fast", cwd=wt); cb = counts(base.stdout)
    ap = sh("git apply %s" % patch, cwd=wt)
    if ap.returncode != 0:
        ap = sh("git apply --3way %s" % patch, cwd=wt)
    if ap.returncode != 0:
        print("patch does not apply:", ap.stderr); sys.exit(2)
    mut = sh("cargo test --offline --no-fail-fast", cwd=wt); cm = counts(mut.stdout)
finally:
    sh("git -C /repo worktree remove --force %s" % wt); shutil.rmtree(wt, ignore_errors=True)
def summarize(c):
    suite = [x for x in c if x[0] + x[1] == 81]
    demo_ = [x for x in c if x[0] + x[1] not in (0, 81)]
    return suite, demo_
sb, db = summarize(cb); sm, dm = summarize(cm)
ok = bool(sb and sb[0] == (81, 0) and sm and sm[0] == (81, 0) and db and db[0][1] == 0 and dm and dm[0][1] > 0)
print("unchanged: suite %s demo %s | with patch: suite %s demo %s | confirmed=%s" % (sb, db, sm, dm, ok))
if not ok:
    print(base.stdout[-1500:] if not (sb and db) else ""); print(mut.stdout[-1500:] if not (sm and dm) else "")
    sys.exit(1)
r = subprocess.run([V + "/seedrun.py", patch] + ids, capture_output=True, text=True)
print(r.stdout[-3000:])
caught = re.search(r"CAUGHT-BY: (.*)", r.stdout)
caught = [] if not caught or caught.group(1) == "none" else caught.group(1).split(",")
viol = re.findall(r"(VIOLATION property=\S+ replay=\S+.*)", r.stdout)
d = "%s/seeded/%s-%s%s" % (V, pid, os.environ.get("SEED_TAG", ""), k)
os.makedirs(d, exist_ok=True)
shutil.copy(patch, d + "/patch.diff"); shutil.copy(demo, d + "/demo.rs")
json.dump({"property": pid, "patch": "patch.diff", "demonstration": "demo.rs (drop into tests/; cargo test --offline)",
           "needs_to_manifest": needs,
           "confirmed": {"suite_unchanged": sb, "demo_unchanged": db, "suite_with_patch": sm, "demo_with_patch": dm,
                         "how": "scratch git worktree of /repo, cargo test --offline --no-fail-fast with and without the patch"},
           "checks_run": ids, "caught_by": caught, "violation_lines": viol}, open(d + "/meta.json", "w"), indent=1)
print("kept in", d, "caught by", caught)
