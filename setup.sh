#!/bin/sh
# Build the framework from files on disk only (offline): translators -> Lean library,
# property theorems, model driver -> Rust harness against /repo's current tree.
set -e
cd "$(dirname "$0")"
export CARGO_NET_OFFLINE=true
for t in translate/*.py; do
  case "$t" in */common.py|*/rustexpr.py) continue;; esac
  (cd translate && python3 "$(basename "$t")") || true
done
(cd lean && lake build Cav cavdrv)
[ -f harness/Cargo.lock ] || cp /repo/Cargo.lock harness/Cargo.lock
(cd harness && RUSTFLAGS="--cfg cavint_verif -Awarnings" cargo build --release --offline)
# the extension module for the CPython probe (C20)
(cd /repo && RUSTFLAGS="--cfg cavint_verif -Awarnings" cargo build --release --offline --lib --target-dir /verif/harness/target/cdylib)
echo setup-ok
