//! Exact integer geometry for the triangulation oracles (C03, C04, C15, C16).
//! All inputs are integer lattice points (i64, |coordinate| < 2^20), so every predicate is
//! exact in i128.  Written independently of the crate under test.

pub type P = (i64, i64);

pub fn orient(a: P, b: P, c: P) -> i128 {
    (b.0 - a.0) as i128 * (c.1 - a.1) as i128 - (b.1 - a.1) as i128 * (c.0 - a.0) as i128
}
fn sgn(x: i128) -> i32 { if x > 0 { 1 } else if x < 0 { -1 } else { 0 } }

fn on_segment(a: P, b: P, p: P) -> bool {
    orient(a, b, p) == 0 && p.0 >= a.0.min(b.0) && p.0 <= a.0.max(b.0) && p.1 >= a.1.min(b.1) && p.1 <= a.1.max(b.1)
}

/// the two closed segments share at least one point
pub fn seg_intersect(a: P, b: P, c: P, d: P) -> bool {
    let o1 = sgn(orient(a, b, c)); let o2 = sgn(orient(a, b, d));
    let o3 = sgn(orient(c, d, a)); let o4 = sgn(orient(c, d, b));
    if o1 != o2 && o3 != o4 { return true; }
    on_segment(a, b, c) || on_segment(a, b, d) || on_segment(c, d, a) || on_segment(c, d, b)
}

/// the segments cross at a single point interior to both
pub fn proper_cross(a: P, b: P, c: P, d: P) -> bool {
    let o1 = sgn(orient(a, b, c)); let o2 = sgn(orient(a, b, d));
    let o3 = sgn(orient(c, d, a)); let o4 = sgn(orient(c, d, b));
    o1 * o2 < 0 && o3 * o4 < 0
}

pub fn shoelace2(poly: &[P]) -> i128 {
    let n = poly.len();
    let mut s = 0i128;
    for i in 0..n {
        let (x1, y1) = poly[i]; let (x2, y2) = poly[(i + 1) % n];
        s += x1 as i128 * y2 as i128 - x2 as i128 * y1 as i128;
    }
    s
}

pub fn edges(poly: &[P]) -> Vec<(P, P)> { (0..poly.len()).map(|i| (poly[i], poly[(i + 1) % poly.len()])).collect() }

/// simple polygon: >= 3 distinct vertices, non-adjacent edges disjoint, adjacent edges meet only
/// in their common vertex, non-zero area
pub fn is_simple(poly: &[P]) -> bool {
    let n = poly.len();
    if n < 3 { return false; }
    for i in 0..n { for j in (i + 1)..n { if poly[i] == poly[j] { return false; } } }
    if shoelace2(poly) == 0 { return false; }
    let es = edges(poly);
    for i in 0..n {
        for j in (i + 1)..n {
            let (a, b) = es[i]; let (c, d) = es[j];
            let adjacent = j == i + 1 || (i == 0 && j == n - 1);
            if !adjacent {
                if seg_intersect(a, b, c, d) { return false; }
            } else {
                // share exactly one endpoint: the other endpoints must not lie on the neighbour edge
                let (shared, p, q) = if j == i + 1 { (b, a, d) } else { (a, b, c) };
                let _ = shared;
                if on_segment(a, b, q) || on_segment(c, d, p) { return false; }
            }
        }
    }
    true
}

/// valid polygon set: every polygon simple, boundaries pairwise disjoint
pub fn is_valid_set(polys: &[Vec<P>]) -> bool {
    for p in polys { if !is_simple(p) { return false; } }
    for i in 0..polys.len() {
        for j in (i + 1)..polys.len() {
            for (a, b) in edges(&polys[i]) { for (c, d) in edges(&polys[j]) { if seg_intersect(a, b, c, d) { return false; } } }
        }
    }
    true
}

/// some pair of edges (same or different polygons) crosses at a point interior to both
pub fn has_proper_crossing(polys: &[Vec<P>]) -> bool {
    let mut all: Vec<(P, P)> = vec![];
    for p in polys { if p.len() >= 2 { all.extend(edges(p)); } }
    for i in 0..all.len() { for j in (i + 1)..all.len() {
        if proper_cross(all[i].0, all[i].1, all[j].0, all[j].1) { return true; }
    } }
    false
}

/// exact rational number as (num, den) with den > 0
#[derive(Clone, Copy)]
struct Q(i128, i128);
fn qlt(a: Q, b: Q) -> bool { a.0 * b.1 < b.0 * a.1 }

/// does the closed segment pq meet the OPEN triangle (a,b,c)?  Clip the parameter interval
/// against the three open half-planes.
pub fn seg_meets_open_triangle(p: P, q: P, t: [P; 3]) -> bool {
    let s = sgn(orient(t[0], t[1], t[2]));
    if s == 0 { return false; }
    let mut lo = Q(0, 1); let mut hi = Q(1, 1);       // closed [0,1] to start with
    let mut lo_strict = false; let mut hi_strict = false;
    for k in 0..3 {
        let (a, b) = (t[k], t[(k + 1) % 3]);
        // f(u) = s * orient(a, b, p + u (q-p)) = f0 + u (f1 - f0), need f(u) > 0
        let f0 = s as i128 * orient(a, b, p);
        let f1 = s as i128 * orient(a, b, q);
        let d = f1 - f0;
        if d == 0 {
            if f0 <= 0 { return false; }
        } else {
            // root u* = -f0 / d
            let (num, den) = if d > 0 { (-f0, d) } else { (f0, -d) };
            let r = Q(num, den);
            if d > 0 {
                // u > r
                if qlt(lo, r) || (!qlt(r, lo) && !lo_strict) { lo = r; lo_strict = true; }
            } else {
                // u < r
                if qlt(r, hi) || (!qlt(hi, r) && !hi_strict) { hi = r; hi_strict = true; }
            }
        }
    }
    if qlt(lo, hi) { return true; }
    // equal bounds: non-empty only if both closed
    !qlt(hi, lo) && !lo_strict && !hi_strict
}

/// point (given as 3*coordinates, to admit centroids) strictly inside triangle
fn centroid3(t: [P; 3]) -> P { (t[0].0 + t[1].0 + t[2].0, t[0].1 + t[1].1 + t[2].1) }
fn strictly_inside3(c3: P, t: [P; 3]) -> bool {
    let s = sgn(orient(t[0], t[1], t[2]));
    if s == 0 { return false; }
    let t3 = |p: P| (3 * p.0, 3 * p.1);
    (0..3).all(|k| sgn(orient(t3(t[k]), t3(t[(k + 1) % 3]), c3)) == s)
}

pub fn open_triangles_intersect(t1: [P; 3], t2: [P; 3]) -> bool {
    for k in 0..3 {
        if seg_meets_open_triangle(t1[k], t1[(k + 1) % 3], t2) { return true; }
        if seg_meets_open_triangle(t2[k], t2[(k + 1) % 3], t1) { return true; }
    }
    strictly_inside3(centroid3(t1), t2) || strictly_inside3(centroid3(t2), t1)
}

/// even-odd membership of the point c3/3 (not on any boundary) by exact ray casting to +x
pub fn in_even_odd3(c3: P, polys: &[Vec<P>]) -> Option<bool> {
    let mut crossings = 0;
    for poly in polys {
        for (a, b) in edges(poly) {
            let (a3, b3) = ((3 * a.0, 3 * a.1), (3 * b.0, 3 * b.1));
            if on_segment(a3, b3, c3) { return None; }
            // half-open rule on y
            if (a3.1 > c3.1) != (b3.1 > c3.1) {
                // x of intersection > c3.x  <=>  orient sign test
                let o = orient(a3, b3, c3);
                let up = b3.1 > a3.1;
                if (up && o > 0) || (!up && o < 0) { crossings += 1; }
            }
        }
    }
    Some(crossings % 2 == 1)
}

/// |area| * 2 of the even-odd region of a VALID set: sum over polygons of (-1)^depth |A_i|
pub fn region_area2(polys: &[Vec<P>]) -> i128 {
    let mut total = 0i128;
    for (i, p) in polys.iter().enumerate() {
        // depth = number of other polygons containing a vertex of p (boundaries are disjoint)
        let v3 = (3 * p[0].0, 3 * p[0].1);
        let mut depth = 0;
        for (j, q) in polys.iter().enumerate() {
            if i != j { if let Some(true) = in_even_odd3(v3, std::slice::from_ref(q)) { depth += 1; } }
        }
        let a = shoelace2(p).abs();
        if depth % 2 == 0 { total += a } else { total -= a }
    }
    total
}

/// The tiling specification of C03; returns the first violated clause.
pub fn check_tiling(polys: &[Vec<P>], tris: &[[P; 3]]) -> Result<(), String> {
    let verts: std::collections::HashSet<P> = polys.iter().flatten().copied().collect();
    let mut area = 0i128;
    for t in tris {
        for c in t { if !verts.contains(c) { return Err(format!("corner {:?} is not an input vertex", c)); } }
        let o = orient(t[0], t[1], t[2]);
        if o == 0 { return Err(format!("degenerate triangle {:?}", t)); }
        area += o.abs();
        match in_even_odd3(centroid3(*t), polys) {
            Some(true) => {}
            _ => return Err(format!("triangle {:?} not inside the even-odd region (centroid)", t)),
        }
        for poly in polys { for (a, b) in edges(poly) {
            if seg_meets_open_triangle(a, b, *t) { return Err(format!("polygon edge {:?}-{:?} passes through triangle {:?}", a, b, t)); }
        } }
    }
    for i in 0..tris.len() { for j in (i + 1)..tris.len() {
        if open_triangles_intersect(tris[i], tris[j]) { return Err(format!("triangles {:?} and {:?} overlap", tris[i], tris[j])); }
    } }
    let want = region_area2(polys);
    if area != want { return Err(format!("area sum {}/2 != region area {}/2", area, want)); }
    Ok(())
}
