//! `pycases`: emits the argument tuples and the Rust-API answers that the CPython probe
//! (py/c20_probe.py) replays against the built extension module (C20).
use crate::d2;
use crate::d3;
use crate::util::*;

fn jf(x: f64) -> String { if x.is_nan() { "\"nan\"".into() } else if x == f64::INFINITY { "\"inf\"".into() } else if x == f64::NEG_INFINITY { "\"-inf\"".into() } else { format!("{:?}", x) } }

pub fn run(o: &Opts) -> Report {
    let mut rep = Report::new("pycases");
    rep.rule = "argument tuples drawn from the disp2d/disp3d streams (valid and malformed expression, interval and polygon texts, all configurations)".into();
    let mut r = Rng::new(o.seed ^ 0x9C20);
    let mut lines = vec![];
    let mut c2 = d2::gen_cases(&mut r, if o.thorough { 240 } else { 60 });
    c2.extend(d2::gen_root_cases(&mut r, 12));
    c2.extend(d2::gen_rs_cases(&mut r, 12));
    c2.extend(d2::api_any_cases(&mut r, if o.thorough { 400 } else { 120 }));
    for c in &c2 {
        let out = d2::run_string_api(c);
        let wire = match &out { d2::Out2::Ok(ds) => format!("ok {} {}", ds.len(), ds.iter().map(d2::dump2).collect::<Vec<_>>().join(" ")), d2::Out2::Err(m) => format!("err {}", m), d2::Out2::Panic(_) => "panic".into() };
        lines.push(format!("{{\"fn\":{},\"args\":[{},{},{},{},{},{},{},{},{},{}],\"expect\":{}}}", jstr(if c.rs { "display_cav2d_rs" } else { "display_cav2d" }),
            jstr(&c.f), jstr(&c.c), jstr(&c.iv), c.cfg.ci, c.cfg.xr, c.cfg.yr, c.cfg.ic, c.cfg.mrf, c.cfg.mi, jf(c.cfg.tol), jstr(&wire)));
        rep.cases += 1;
    }
    let c3 = d3::gen_all_cases(&mut r, if o.thorough { 60 } else { 10 }, if o.thorough { 300 } else { 80 }, o.thorough);
    for (c, _) in &c3 {
        let out = d3::run_string_api(c);
        let wire = match &out { d3::Out3::Ok(ds) => format!("ok {} {}", ds.len(), ds.iter().map(d3::dump3).collect::<Vec<_>>().join(" ")), d3::Out3::Err(m) => format!("err {}", m), d3::Out3::Panic(_) => "panic".into() };
        lines.push(format!("{{\"fn\":\"display_cav3d\",\"args\":[{},{},{},{},{},{},{},{},{},{}],\"expect\":{}}}",
            jstr(&c.f), jstr(&c.c1), jstr(&c.c2), jstr(&c.ps), c.cfg.ci, c.cfg.rr, c.cfg.xr, c.cfg.yr, c.cfg.mi, jf(c.cfg.tol), jstr(&wire)));
        rep.cases += 1;
    }
    // call histories: consecutive calls that agree in all texts and resolutions and differ only in the iteration
    // budgets and the tolerance (the probe replays the file in order, in one interpreter, on one thread): a binding
    // layer that keeps anything from one call to the next shows up against the stateless Rust answers
    {
        let mut hist3: Vec<d3::Case> = vec![];
        for (c, _) in c3.iter().filter(|(c, _)| c.kind == "smooth").take(4) {
            for (mi, tol) in [(60usize, 1e-6), (1, 1e-12), (60, 1e-6), (200, 1e-10), (0, 1e-3)] { let mut d = c.clone(); d.cfg.ci = true; d.cfg.mi = mi; d.cfg.tol = tol; hist3.push(d); }
        }
        for c in &hist3 {
            let out = d3::run_string_api(c);
            let wire = match &out { d3::Out3::Ok(ds) => format!("ok {} {}", ds.len(), ds.iter().map(d3::dump3).collect::<Vec<_>>().join(" ")), d3::Out3::Err(m) => format!("err {}", m), d3::Out3::Panic(_) => "panic".into() };
            lines.push(format!("{{\"fn\":\"display_cav3d\",\"args\":[{},{},{},{},{},{},{},{},{},{}],\"expect\":{}}}",
                jstr(&c.f), jstr(&c.c1), jstr(&c.c2), jstr(&c.ps), c.cfg.ci, c.cfg.rr, c.cfg.xr, c.cfg.yr, c.cfg.mi, jf(c.cfg.tol), jstr(&wire)));
            rep.cases += 1; rep.count("history:display_cav3d");
        }
        let mut hist2: Vec<d2::Case> = vec![];
        for c in c2.iter().filter(|c| c.kind == "smooth").take(6) {
            for (mrf, mi, tol) in [(100usize, 150usize, 1e-8), (100, 1, 1e-12), (2, 150, 1e-8), (100, 150, 1e-8), (60, 0, 1e-4)] { let mut d = c.clone(); d.cfg.ci = true; d.cfg.mrf = mrf; d.cfg.mi = mi; d.cfg.tol = tol; hist2.push(d); }
        }
        for c in &hist2 {
            let out = d2::run_string_api(c);
            let wire = match &out { d2::Out2::Ok(ds) => format!("ok {} {}", ds.len(), ds.iter().map(d2::dump2).collect::<Vec<_>>().join(" ")), d2::Out2::Err(m) => format!("err {}", m), d2::Out2::Panic(_) => "panic".into() };
            lines.push(format!("{{\"fn\":{},\"args\":[{},{},{},{},{},{},{},{},{},{}],\"expect\":{}}}", jstr(if c.rs { "display_cav2d_rs" } else { "display_cav2d" }),
                jstr(&c.f), jstr(&c.c), jstr(&c.iv), c.cfg.ci, c.cfg.xr, c.cfg.yr, c.cfg.ic, c.cfg.mrf, c.cfg.mi, jf(c.cfg.tol), jstr(&wire)));
            rep.cases += 1; rep.count("history:display_cav2d");
        }
    }
    let path = std::env::var("CAVH_PYCASES").unwrap_or_else(|_| "/verif/work/pycases.jsonl".into());
    std::fs::write(&path, lines.join("\n") + "\n").expect("cannot write pycases");
    rep.notes.push(format!("wrote {} cases to {}", lines.len(), path));
    rep.nontrivial = rep.cases;
    rep
}
