//! `cavh`: correspondence + oracle harness for the Lean models of `cavint` (DESIGN §1.3).
//! Usage: cavh <stream> [--seed N] [--tier quick|thorough] [--drv PATH] [--out FILE] [--replay TEXT]
mod util;
mod q1;
mod sym;
mod pr;
mod ev;
mod geo;
mod tri;
mod d2;
mod d3;
mod pyc;
mod q2;

use util::*;

fn main() {
    let args: Vec<String> = std::env::args().collect();
    if args.len() < 2 { eprintln!("usage: cavh <stream> [options]"); std::process::exit(2); }
    let stream = args[1].clone();
    // child mode of stream `tri`: one large polygon in its own process (a stack overflow aborts the process and
    // cannot be caught), on a thread with the 2 MiB stack of ordinary spawned / test threads
    if stream == "tribig" { tri::big_child(&args[2], args[3].parse().expect("size")); return; }
    let mut o = Opts {
        seed: std::env::var("VERIF_SEED").ok().and_then(|s| s.parse().ok()).unwrap_or(1),
        thorough: std::env::var("VERIF_TIER").map(|t| t == "thorough").unwrap_or(false),
        drv: "/verif/lean/.lake/build/bin/cavdrv".into(),
        out: String::new(),
        replay: None,
        jobs: std::thread::available_parallelism().map(|n| n.get()).unwrap_or(4),
    };
    let mut i = 2;
    while i < args.len() {
        match args[i].as_str() {
            "--seed" => { o.seed = args[i + 1].parse().unwrap_or(1); i += 1; }
            "--tier" => { o.thorough = args[i + 1] == "thorough"; i += 1; }
            "--drv" => { o.drv = args[i + 1].clone(); i += 1; }
            "--out" => { o.out = args[i + 1].clone(); i += 1; }
            "--replay" => { o.replay = Some(args[i + 1].clone()); i += 1; }
            "--jobs" => { o.jobs = args[i + 1].parse().unwrap_or(4); i += 1; }
            _ => {}
        }
        i += 1;
    }
    recording_panics();
    let rep = match stream.as_str() {
        "quad1d" => q1::run(&o),
        "parse" => pr::run_parse(&o),
        "eval" => ev::run_eval(&o),
        "lists" => ev::run_lists(&o),
        "tri" => tri::run(&o),
        "disp2d" => d2::run(&o),
        "disp3d" => d3::run(&o),
        "pycases" => pyc::run(&o),
        "quad2d" => q2::run(&o),
        _ => { eprintln!("unknown stream {}", stream); std::process::exit(2); }
    };
    let js = rep.to_json();
    if o.out.is_empty() { println!("{}", js); } else { std::fs::write(&o.out, js).expect("cannot write report"); }
}
