//! Stream `quad2d`: 2-D and triangle quadrature (C09, C10).
use crate::util::*;
use cavint::core::integrate::{gauss_kronrod_quadrature_2d, gauss_kronrod_quadrature_triangle};
use cavint::errors::IntegError;
use std::cell::RefCell;
use std::panic::{catch_unwind, AssertUnwindSafe};

/// bivariate integrands
#[derive(Clone, Debug)]
pub enum F2 {
    Poly(Vec<(u32, u32, f64)>),       // sum c x^i y^j
    Smooth(u8, f64, f64),             // sin(ax+by)+2 | exp((ax+by)/4) | cos(ax)*sin(by)+1
    SqrtKink(f64),                    // sqrt|y - k x|
    NanAbove(f64),                    // NaN for y > k
    InfAt,                            // 1/(x-y)
    Jump(f64),
}
impl F2 {
    pub fn eval(&self, x: f64, y: f64) -> f64 {
        match self {
            F2::Poly(t) => t.iter().map(|(i, j, c)| c * x.powi(*i as i32) * y.powi(*j as i32)).sum(),
            F2::Smooth(k, a, b) => match k { 0 => (a * x + b * y).sin() + 2.0, 1 => ((a * x + b * y) / 4.0).exp(), _ => (a * x).cos() * (b * y).sin() + 1.0 },
            F2::SqrtKink(k) => (y - k * x).abs().sqrt(),
            F2::NanAbove(k) => if y > *k { f64::NAN } else { 1.0 },
            F2::InfAt => 1.0 / (x - y),
            F2::Jump(k) => if x + y > *k { 1.0 } else { 0.0 },
        }
    }
    pub fn smooth(&self) -> bool { matches!(self, F2::Poly(_) | F2::Smooth(..)) }
}

/// inner bounds l(x), u(x): polynomials
#[derive(Clone, Debug)]
pub struct Bounds { pub l: Vec<f64>, pub u: Vec<f64> }
fn pe(c: &[f64], x: f64) -> f64 { c.iter().rev().fold(0.0, |a, b| a * x + b) }

#[derive(Clone, Debug)]
pub enum Case {
    Region { f: F2, a: f64, b: f64, ab: Bounds, tol: f64, mi: Option<usize> },
    Tri { f: F2, t: [[f64; 2]; 3], tol: f64, mi: Option<usize> },
}
impl Case {
    pub fn text(&self) -> String { format!("{:?}", self) }
}

pub enum Outcome { Ok(f64, f64), Conv, Nan, Panic(String) }
impl Outcome {
    pub fn wire(&self) -> String { match self { Outcome::Ok(v, e) => format!("ok {} {}", hx(*v), hx(*e)), Outcome::Conv => "err conv".into(), Outcome::Nan => "err nan".into(), Outcome::Panic(m) => format!("panic {}", m) } }
}

pub struct Logs { pub f: Vec<(f64, f64, f64)>, pub ab: Vec<(f64, f64, f64)> }

pub fn run_impl(c: &Case) -> (Outcome, Logs) {
    let flog: RefCell<Vec<(f64, f64, f64)>> = RefCell::new(vec![]);
    let ablog: RefCell<Vec<(f64, f64, f64)>> = RefCell::new(vec![]);
    let r = catch_unwind(AssertUnwindSafe(|| match c {
        Case::Region { f, a, b, ab, tol, mi } => gauss_kronrod_quadrature_2d(
            |xy: [f64; 2]| { let v = f.eval(xy[0], xy[1]); flog.borrow_mut().push((xy[0], xy[1], v)); v }, *a, *b,
            |x: f64| { let l = pe(&ab.l, x); let u = pe(&ab.u, x); ablog.borrow_mut().push((x, l, u)); [l, u] }, *tol, *mi),
        Case::Tri { f, t, tol, mi } => gauss_kronrod_quadrature_triangle(
            |xy: [f64; 2]| { let v = f.eval(xy[0], xy[1]); flog.borrow_mut().push((xy[0], xy[1], v)); v }, *t, *tol, *mi),
    }));
    let out = match r {
        Ok(Ok((v, e))) => Outcome::Ok(v, e),
        Ok(Err(IntegError::ConvergenceError)) => Outcome::Conv,
        Ok(Err(IntegError::NaNError)) => Outcome::Nan,
        Err(_) => Outcome::Panic(last_panic()),
    };
    (out, Logs { f: flog.into_inner(), ab: ablog.into_inner() })
}

fn dedup3(v: &[(f64, f64, f64)]) -> Vec<(f64, f64, f64)> {
    let mut seen = std::collections::HashSet::new();
    v.iter().filter(|t| seen.insert((cbits(t.0), cbits(t.1)))).copied().collect()
}

pub fn request(c: &Case, logs: &Logs) -> String {
    let fl = dedup3(&logs.f);
    let mut s = match c {
        Case::Region { a, b, tol, mi, .. } => {
            let mut seen = std::collections::HashSet::new();
            let abl: Vec<&(f64, f64, f64)> = logs.ab.iter().filter(|t| seen.insert(cbits(t.0))).collect();
            let mut s = format!("quad2d {} {} {} {} {} {}", hx(*a), hx(*b), hx(*tol), mi.map_or("none".into(), |n| n.to_string()), fl.len(), abl.len());
            for t in &fl { s.push_str(&format!(" {} {} {}", hx(t.0), hx(t.1), hx(t.2))); }
            for t in abl { s.push_str(&format!(" {} {} {}", hx(t.0), hx(t.1), hx(t.2))); }
            return s;
        }
        Case::Tri { t, tol, mi, .. } => format!("tri {} {} {} {} {} {} {} {} {}", hx(t[0][0]), hx(t[0][1]), hx(t[1][0]), hx(t[1][1]), hx(t[2][0]), hx(t[2][1]), hx(*tol), mi.map_or("none".into(), |n| n.to_string()), fl.len()),
    };
    for t in &fl { s.push_str(&format!(" {} {} {}", hx(t.0), hx(t.1), hx(t.2))); }
    s
}

/// hash of the call sequence as the model reconstructs it: for each inner call `x` then (x,y) pairs.
/// For the triangle the model hashes unit-square coordinates, which the harness does not see:
/// only counts are compared there.
pub fn impl_wire(c: &Case, out: &Outcome, logs: &Logs) -> String {
    match c {
        Case::Region { .. } => format!("{} inner {}", out.wire(), logs.ab.len()),
        Case::Tri { .. } => format!("{} evals {}", out.wire(), logs.f.len()),
    }
}

/// nested composite Gauss–Legendre reference
fn ref2d(f: &dyn Fn(f64, f64) -> f64, a: f64, b: f64, l: &dyn Fn(f64) -> f64, u: &dyn Fn(f64) -> f64, gl: &[(f64, f64)], panels: usize) -> (f64, f64) {
    let mut s = 0.0; let mut sa = 0.0;
    let h = (b - a) / panels as f64;
    for p in 0..panels {
        let mid = a + h * (p as f64 + 0.5);
        for &(xn, xw) in gl {
            let x = mid + xn * h / 2.0;
            let (lo, hi) = (l(x), u(x));
            let k = (hi - lo) / panels as f64;
            let mut inner = 0.0; let mut ia = 0.0;
            for q in 0..panels {
                let m2 = lo + k * (q as f64 + 0.5);
                for &(yn, yw) in gl { let v = f(x, m2 + yn * k / 2.0); inner += yw * v * k / 2.0; ia += yw * v.abs() * (k / 2.0).abs(); }
            }
            s += xw * inner * h / 2.0; sa += xw * ia * (h / 2.0).abs();
        }
    }
    (s, sa)
}

fn tri_ref(f: &dyn Fn(f64, f64) -> f64, t: [[f64; 2]; 3], gl: &[(f64, f64)]) -> (f64, f64) {
    let c = (t[1][0] * (t[2][1] - t[0][1]) + t[0][0] * (t[1][1] - t[2][1]) + t[2][0] * (t[0][1] - t[1][1])).abs();
    let g = |u0: f64, u1: f64| c * f((1.0 - u0 - u1) * t[0][0] + u0 * t[1][0] + u1 * t[2][0], (1.0 - u0 - u1) * t[0][1] + u0 * t[1][1] + u1 * t[2][1]);
    // integrate over u1 in [0,1], u0 in [0,1-u1]
    ref2d(&|u1, u0| g(u0, u1), 0.0, 1.0, &|_| 0.0, &|u1| 1.0 - u1, gl, 8)
}

fn gen_poly(r: &mut Rng, maxdeg: u32) -> F2 {
    let n = 1 + r.below(5) as usize;
    F2::Poly((0..n).map(|_| { let i = r.below(maxdeg as u64 + 1) as u32; let j = r.below((maxdeg - i) as u64 + 1) as u32; (i, j, r.dyadic(-2.0, 2.0, 3)) }).collect())
}

pub fn gen_case(r: &mut Rng) -> Case {
    let f = match r.below(20) {
        0..=8 => { let d = *r.pick(&[0u32, 1, 2, 3, 5, 8, 12, 20, 30]); gen_poly(r, d) }
        9..=12 => F2::Smooth(r.below(3) as u8, r.uniform(-2.0, 2.0), r.uniform(-2.0, 2.0)),
        13..=14 => F2::SqrtKink(r.uniform(-1.0, 1.0)),
        15 => F2::NanAbove(r.uniform(-0.5, 1.5)),
        16 => F2::InfAt,
        _ => F2::Jump(r.uniform(0.0, 1.5)),
    };
    let tol = match r.below(16) { 0 => 0.0, 1 => f64::NAN, 2 => -1.0, 3 => 1.0, _ => 10f64.powi(r.range(-10, -3) as i32) };
    let mi = Some(match r.below(10) { 0 => 0, 1 => 1, 2 => 2, _ => r.range(3, 30) as usize });
    if r.chance(0.5) {
        let pt = |r: &mut Rng| [r.dyadic(-4.0, 4.0, 2), r.dyadic(-4.0, 4.0, 2)];
        let mut t = [pt(r), pt(r), pt(r)];
        if r.chance(0.1) { t[2] = [(t[0][0] + t[1][0]) / 2.0, (t[0][1] + t[1][1]) / 2.0]; }   // degenerate
        if r.chance(0.05) { t[1] = t[0]; }
        // far from the origin: the vertices differ by a few units at offsets of 2^20..2^45 (every coordinate and
        // every coordinate difference still exact); low-degree integrands so that values stay moderate
        if r.chance(0.2) {
            let (ox, oy) = (2f64.powi(r.range(20, 45) as i32) * if r.chance(0.5) { -1.0 } else { 1.0 }, 2f64.powi(r.range(20, 45) as i32) * if r.chance(0.5) { -1.0 } else { 1.0 });
            for v in t.iter_mut() { v[0] += ox; v[1] += oy; }
            let f = if r.chance(0.6) { F2::Poly(vec![(0, 0, r.dyadic(-2.0, 2.0, 3))]) } else { F2::Poly(vec![(0, 0, r.dyadic(-2.0, 2.0, 3)), (1, 0, r.dyadic(-2.0, 2.0, 3) * 2f64.powi(-40)), (0, 1, r.dyadic(-2.0, 2.0, 3) * 2f64.powi(-40))]) };
            return Case::Tri { f, t, tol: if tol.is_finite() && tol > 0.0 { tol } else { 1e-6 }, mi };
        }
        // tiny triangles under a large constant integrand (the integral stays of order one)
        if r.chance(0.1) {
            let k = r.range(20, 40) as i32;
            for v in t.iter_mut() { v[0] *= 2f64.powi(-k); v[1] *= 2f64.powi(-k); }
            let f = F2::Poly(vec![(0, 0, r.dyadic(0.5, 2.0, 3) * 2f64.powi(2 * k))]);
            return Case::Tri { f, t, tol: if tol.is_finite() && tol > 0.0 { tol } else { 1e-6 }, mi };
        }
        Case::Tri { f, t, tol, mi }
    } else {
        let (a, b) = match r.below(10) { 0 => { let a = r.dyadic(-2.0, 2.0, 2); (a, a) } _ => (r.dyadic(-2.0, 2.0, 2), r.dyadic(-2.0, 2.0, 2)) };
        let deg = r.below(3) as usize;
        let l: Vec<f64> = (0..=deg).map(|_| r.dyadic(-1.0, 1.0, 2)).collect();
        let u: Vec<f64> = (0..=deg).map(|_| r.dyadic(-1.0, 2.0, 2)).collect();
        Case::Region { f, a, b, ab: Bounds { l, u }, tol, mi }
    }
}

fn judge(c: &Case, out: &Outcome, logs: &Logs, rep: &mut Report, gl: &[(f64, f64)]) {
    let input = c.text();
    if let Outcome::Panic(m) = out { rep.finding("oracle", &["C10"], "panic", input.clone(), m.clone()); return; }
    let (tol, mi, smooth) = match c { Case::Region { tol, mi, f, .. } | Case::Tri { tol, mi, f, .. } => (*tol, *mi, f.smooth()) };
    if let Some(n) = mi {
        let per = 31 * (1 + 2 * n);
        let bound = per * 31 * (1 + 2 * n);
        if logs.f.len() > bound { rep.finding("oracle", &["C10"], "eval-bound", input.clone(), format!("{} > {}", logs.f.len(), bound)); }
    }
    let saw_nan = logs.f.iter().any(|t| t.2.is_nan());
    let degenerate = match c { Case::Region { a, b, .. } => a == b, Case::Tri { .. } => false };
    if let Outcome::Ok(v, e) = out {
        if degenerate { if !(*v == 0.0 && *e == 0.0) { rep.finding("oracle", &["C10"], "eq-bounds", input.clone(), format!("({v:e},{e:e})")); } return; }
        if v.is_nan() { rep.finding("oracle", &["C10"], "ok-nan-value", input.clone(), String::new()); }
        if !(*e < tol) { rep.finding("oracle", &["C10"], "ok-err-not-below-tol", input.clone(), format!("e={e:e} tol={tol:e}")); }
        let scale: f64 = logs.f.iter().map(|t| t.2.abs()).fold(0.0, f64::max).max(1e-300);
        if *e < -1e-9 * scale * 16.0 || e.is_nan() { rep.finding("oracle", &["C10"], "neg-err", input.clone(), format!("e={e:e}")); }
        if saw_nan { rep.finding("oracle", &["C10"], "ok-despite-nan-sample", input.clone(), String::new()); }
    }
    // ---- C09 accuracy / symmetries on the smooth class
    if !smooth || degenerate { return; }
    let fe = match c { Case::Region { f, .. } | Case::Tri { f, .. } => f.clone() };
    match c {
        Case::Region { a, b, ab, .. } => {
            let (refv, refabs) = ref2d(&|x, y| fe.eval(x, y), *a, *b, &|x| pe(&ab.l, x), &|x| pe(&ab.u, x), gl, 6);
            let floor = 1e-10 * refabs + 1e-300;
            if let Outcome::Ok(v, _) = out {
                if tol.is_finite() && (v - refv).abs() > tol.max(0.0) + floor { rep.finding("oracle", &["C09"], "inaccurate", input.clone(), format!("v={v:e} ref={refv:e} tol={tol:e}")); }
                // reversing the outer bounds negates; reversing the inner bounds negates
                let c2 = Case::Region { f: fe.clone(), a: *b, b: *a, ab: ab.clone(), tol, mi };
                if let (Outcome::Ok(v2, e2), _) = run_impl(&c2) {
                    if (v + v2).abs() > 2.0 * tol.max(0.0) + 2.0 * floor { rep.finding("oracle", &["C09"], "outer-swap-not-negated", input.clone(), format!("{v:e} vs {v2:e}")); }
                    if e2 < -1e-12 * refabs.max(1e-300) { rep.finding("oracle", &["C10"], "neg-err", c2.text(), format!("e={e2:e}")); }
                }
                let c3 = Case::Region { f: fe.clone(), a: *a, b: *b, ab: Bounds { l: ab.u.clone(), u: ab.l.clone() }, tol, mi };
                if let (Outcome::Ok(v3, _), _) = run_impl(&c3) {
                    if (v + v3).abs() > 2.0 * tol.max(0.0) + 2.0 * floor { rep.finding("oracle", &["C09"], "inner-swap-not-negated", input.clone(), format!("{v:e} vs {v3:e}")); }
                }
            }
        }
        Case::Tri { t, .. } => {
            let (refv, refabs) = tri_ref(&|x, y| fe.eval(x, y), *t, gl);
            let floor = 1e-10 * refabs + 1e-300;
            let area2 = ((t[1][0] - t[0][0]) * (t[2][1] - t[0][1]) - (t[1][1] - t[0][1]) * (t[2][0] - t[0][0])).abs();
            if let Outcome::Ok(v, _) = out {
                if tol.is_finite() && (v - refv).abs() > tol.max(0.0) + floor { rep.finding("oracle", &["C09"], "inaccurate", input.clone(), format!("v={v:e} ref={refv:e} tol={tol:e}")); }
                // constant integrand: the integral is coef * area, and the area of a triangle with dyadic vertices is exact in i128
                if let F2::Poly(terms) = &fe {
                    // the smallest power-of-two scale that makes every coordinate an integer below 2^50
                    let sc = (0..=80).map(|k| 2f64.powi(k - 4)).find(|s| t.iter().flatten().all(|x| (x * s).fract() == 0.0 && (x * s).abs() < 1e15));
                    if let (true, Some(sc)) = (terms.len() == 1 && terms[0].0 == 0 && terms[0].1 == 0, sc) {
                        let q = |x: f64| (x * sc) as i128;
                        let cr = (q(t[1][0]) - q(t[0][0])) * (q(t[2][1]) - q(t[0][1])) - (q(t[1][1]) - q(t[0][1])) * (q(t[2][0]) - q(t[0][0]));
                        let exact = terms[0].2 * (cr.abs() as f64) / 2.0 / sc / sc;
                        rep.count("oracle:exact-area");
                        if tol.is_finite() && (v - exact).abs() > tol.max(0.0) + 1e-12 * exact.abs() { rep.finding("oracle", &["C09", "C08"], "constant-over-triangle-not-area", input.clone(), format!("v={v:e} exact={exact:e} tol={tol:e}")); }
                    }
                }
                if area2 == 0.0 && *v != 0.0 { rep.finding("oracle", &["C09"], "degenerate-triangle-nonzero", input.clone(), format!("{v:e}")); }
                // vertex permutation
                let tp = [t[1], t[2], t[0]]; let tq = [t[0], t[2], t[1]];
                for tt in [tp, tq] {
                    if let (Outcome::Ok(v2, _), _) = run_impl(&Case::Tri { f: fe.clone(), t: tt, tol, mi }) {
                        if (v - v2).abs() > 2.0 * tol.max(0.0) + 2.0 * floor { rep.finding("oracle", &["C09"], "not-permutation-invariant", input.clone(), format!("{v:e} vs {v2:e}")); }
                    }
                }
                // subdivision at the centroid
                let g = [(t[0][0] + t[1][0] + t[2][0]) / 3.0, (t[0][1] + t[1][1] + t[2][1]) / 3.0];
                let mut sum = 0.0; let mut ok = true;
                for k in 0..3 { match run_impl(&Case::Tri { f: fe.clone(), t: [t[k], t[(k + 1) % 3], g], tol, mi }).0 { Outcome::Ok(vv, _) => sum += vv, _ => ok = false } }
                // far from the origin the centroid is rounded to the coordinate grid and the three pieces no longer tile
                let far = t.iter().flatten().any(|x| x.abs() > 1048576.0);
                // (a degenerate triangle is not tiled by the three pieces: two of them cover the same ground)
                if ok && !far && area2 != 0.0 && (v - sum).abs() > 4.0 * tol.max(0.0) + 4.0 * floor { rep.finding("oracle", &["C09"], "not-additive-under-subdivision", input.clone(), format!("{v:e} vs {sum:e}")); }
            }
        }
    }
}

pub fn run(o: &Opts) -> Report {
    let mut rep = Report::new("quad2d");
    rep.rule = "seeded: bivariate polynomials of total degree 0..30 with dyadic coefficients, smooth sin/exp/cos products, kinks, jumps, NaN/inf producers; regions {a<=x<=b, l(x)<=y<=u(x)} with polynomial l,u of degree 0..2 in either orientation incl. a==b; triangles with dyadic vertices incl. degenerate and repeated vertices; tolerances 1e-10..1e-3 plus 0, NaN, negative; budgets 0..30. Non-trivial = at least one inner integration was performed; distinct by construction".into();
    let gl = gauss_legendre(16);
    let n = if o.thorough { 2500 } else { 260 };
    let mut r = Rng::new(o.seed ^ 0x2D2D);
    let mut cases: Vec<Case> = vec![
        // DESIGN E14: negative error estimate for reversed outer bounds
        Case::Region { f: F2::SqrtKink(0.37), a: 1.0, b: 0.0, ab: Bounds { l: vec![0.0], u: vec![1.0] }, tol: 1e-3, mi: Some(30) },
        Case::Tri { f: F2::Poly(vec![(0, 0, 1.0)]), t: [[0.0, 0.0], [1.0, 0.0], [0.0, 1.0]], tol: 1e-9, mi: Some(10) },
        // coincident non-finite bounds, outer and inner (seed C10-r5-2): every inner run returns (0,0), and so does the whole
        Case::Region { f: F2::Jump(0.5), a: f64::INFINITY, b: f64::INFINITY, ab: Bounds { l: vec![0.0], u: vec![1.0] }, tol: 1e-6, mi: Some(5) },
        Case::Region { f: F2::Jump(0.5), a: f64::NEG_INFINITY, b: f64::NEG_INFINITY, ab: Bounds { l: vec![0.0], u: vec![1.0] }, tol: 1e-6, mi: Some(0) },
        Case::Region { f: F2::Jump(0.5), a: 0.0, b: 1.0, ab: Bounds { l: vec![f64::INFINITY], u: vec![f64::INFINITY] }, tol: 1e-6, mi: Some(5) },
        Case::Region { f: F2::Jump(0.5), a: 1.0, b: 0.0, ab: Bounds { l: vec![f64::NEG_INFINITY], u: vec![f64::NEG_INFINITY] }, tol: 1e-6, mi: Some(3) },
        Case::Region { f: F2::Jump(0.5), a: 0.0, b: 1.0, ab: Bounds { l: vec![1e300], u: vec![1e300] }, tol: 1e-6, mi: Some(3) },
    ];
    for _ in 0..n { cases.push(gen_case(&mut r)); }
    // budget sweep: oscillatory integrands that need several outer bisections, run with the smallest budget that
    // succeeds and with its two neighbours (what happens exactly when the budget runs out is otherwise almost never met)
    {
        let with_mi = |c: &Case, mi: Option<usize>| -> Case { match c {
            Case::Region { f, a, b, ab, tol, .. } => Case::Region { f: f.clone(), a: *a, b: *b, ab: ab.clone(), tol: *tol, mi },
            Case::Tri { f, t, tol, .. } => Case::Tri { f: f.clone(), t: *t, tol: *tol, mi } } };
        let mut found = 0;
        for _ in 0..(if o.thorough { 160 } else { 24 }) {
            let w = r.uniform(4.0, 25.0) * if r.chance(0.5) { 1.0 } else { -1.0 };
            let f = F2::Smooth(*r.pick(&[0u8, 2]), w, r.uniform(-2.0, 2.0));
            let tol = 10f64.powi(r.range(-9, -4) as i32);
            let base = if r.chance(0.5) { Case::Tri { f, t: [[0.0, 0.0], [r.dyadic(1.0, 3.0, 2), 0.0], [r.dyadic(-1.0, 1.0, 2), r.dyadic(1.0, 3.0, 2)]], tol, mi: None } }
                       else { Case::Region { f, a: 0.0, b: r.dyadic(1.0, 3.0, 2), ab: Bounds { l: vec![0.0], u: vec![1.0, r.dyadic(0.0, 0.5, 2)] }, tol, mi: None } };
            let mut kmin = None;
            for k in 0..=24usize { if let (Outcome::Ok(..), _) = run_impl(&with_mi(&base, Some(k))) { kmin = Some(k); break; } }
            if let Some(k) = kmin { if k >= 1 { found += 1; for kk in [k - 1, k, k + 1] { cases.push(with_mi(&base, Some(kk))); } } }
        }
        rep.count_n("budget-sweep:integrands-needing-bisection", found);
    }
    let results: Vec<(Outcome, Logs)> = {
        let slots: Vec<std::sync::Mutex<Option<(Outcome, Logs)>>> = (0..cases.len()).map(|_| std::sync::Mutex::new(None)).collect();
        let next = std::sync::atomic::AtomicUsize::new(0);
        std::thread::scope(|sc| { for _ in 0..o.jobs.max(1) { sc.spawn(|| { recording_panics(); loop {
            let i = next.fetch_add(1, std::sync::atomic::Ordering::Relaxed); if i >= cases.len() { break; }
            *slots[i].lock().unwrap() = Some(run_impl(&cases[i])); } }); } });
        slots.into_iter().map(|m| m.into_inner().unwrap().unwrap()).collect()
    };
    let mut reqs = vec![]; let mut impls = vec![];
    for (c, (out, logs)) in cases.iter().zip(results.iter()) {
        rep.cases += 1;
        rep.count(match c { Case::Region { .. } => "kind:region", Case::Tri { .. } => "kind:triangle" });
        rep.count(&format!("status:{}", match out { Outcome::Ok(..) => "ok", Outcome::Conv => "conv", Outcome::Nan => "nan", Outcome::Panic(_) => "panic" }));
        if !logs.f.is_empty() { rep.nontrivial += 1; }
        judge(c, out, logs, &mut rep, &gl);
        if rep.samples.len() < 4 && matches!(out, Outcome::Ok(..)) && logs.f.len() > 2000 { rep.sample(format!("{} -> {} ({} evals)", c.text(), out.wire(), logs.f.len())); }
        // keep request lines bounded: very long traces are compared in the thorough tier only
        if logs.f.len() <= if o.thorough { 400000 } else { 120000 } {
            reqs.push(request(c, logs));
            impls.push((c.text(), impl_wire(c, out, logs)));
        }
    }
    let answers = run_driver_par(&o.drv, &reqs, o.jobs);
    for ((txt, imp), ans) in impls.iter().zip(answers.iter()) {
        rep.model_compared += 1;
        // the model reports "<result> outer N inner M hash H"; compare result and the inner-call count
        let toks: Vec<&str> = ans.split(' ').collect();
        let res_end = toks.iter().position(|t| *t == "outer").unwrap_or(toks.len());
        let model_res = toks[..res_end].join(" ");
        let model_inner = toks.iter().position(|t| *t == "inner").and_then(|i| toks.get(i + 1)).map(|s| s.to_string()).unwrap_or_default();
        let itoks: Vec<&str> = imp.split(' ').collect();
        let ires_end = itoks.iter().position(|t| *t == "inner" || *t == "evals").unwrap_or(itoks.len());
        let imp_res = itoks[..ires_end].join(" ");
        let mut same = imp_res == model_res;
        if itoks.get(ires_end) == Some(&"inner") { same = same && itoks.get(ires_end + 1).map(|s| s.to_string()).unwrap_or_default() == model_inner; }
        if !same { rep.finding("model", &["C09", "C10", "C08"], "quad2d-differs", txt.clone(), format!("impl: {} | model: {}", imp, ans)); }
    }
    rep
}
