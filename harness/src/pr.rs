//! Streams `parse` (C06, C17), `lists` (C18), `eval` (C05, C06): the expression compiler.
use crate::sym::*;
use crate::util::*;
use cavint::core::differentiable::AD;
use cavint::core::parsing::{compile_expression, compile_interval_list, compile_polygon_set, DefaultContext, Expr};
use cavint::errors::ParsedFuncError;
use std::panic::{catch_unwind, AssertUnwindSafe};

// ---------------------------------------------------------------------------------------
// conventional trees and their renderings (Appendix B of DESIGN.md)

#[derive(Clone, Debug, PartialEq)]
pub enum T {
    Var(usize, String),
    Num(String),
    Const(String),
    Un(String, Box<T>),
    Neg(Box<T>),
    Bin(char, Box<T>, Box<T>),
    Powi(Box<T>, i32),
}

impl T {
    pub fn sexp(&self) -> String {
        match self {
            T::Var(i, _) => format!("v{}", i),
            T::Num(s) => format!("#{:016x}", s.parse::<f64>().unwrap().to_bits()),
            T::Const(n) => format!("(c {})", n),
            T::Un(f, x) => format!("({} {})", f, x.sexp()),
            T::Neg(x) => format!("(neg {})", x.sexp()),
            T::Bin(op, l, r) => format!("({} {} {})", op, l.sexp(), r.sexp()),
            T::Powi(x, n) => format!("(powi {} {})", x.sexp(), n),
        }
    }
    pub fn depth(&self) -> usize {
        match self {
            T::Un(_, x) | T::Neg(x) | T::Powi(x, _) => 1 + x.depth(),
            T::Bin(_, l, r) => 1 + l.depth().max(r.depth()),
            _ => 1,
        }
    }
    pub fn size(&self) -> usize {
        match self {
            T::Un(_, x) | T::Neg(x) | T::Powi(x, _) => 1 + x.size(),
            T::Bin(_, l, r) => 1 + l.size() + r.size(),
            _ => 1,
        }
    }
}

pub struct Render<'a> { pub r: &'a mut Rng, pub redundant: f64, pub ws: f64 }

impl<'a> Render<'a> {
    fn sp(&mut self) -> String {
        if self.r.chance(self.ws) { (*self.r.pick(&[" ", "  ", "\t", "\n", "\u{a0}", "\u{2003}", " \r"])).to_string() } else { String::new() }
    }
    fn wrap(&mut self, s: String) -> String {
        if self.r.chance(self.redundant) { format!("({}{}{})", self.sp(), s, self.sp()) } else { s }
    }
    pub fn expr(&mut self, t: &T) -> String {
        match t {
            T::Bin(op, l, r) if *op == '+' || *op == '-' => {
                let ls = self.expr(l);
                let rs = self.mterm(r, false);
                format!("{}{}{}{}{}", ls, self.sp(), op, self.sp(), rs)
            }
            _ => self.mterm(t, true),
        }
    }
    fn mterm(&mut self, t: &T, allow_neg: bool) -> String {
        match t {
            T::Bin(op, l, r) if *op == '*' || *op == '/' => {
                let ls = self.mterm(l, allow_neg);
                let rs = self.term(r, true);
                format!("{}{}{}{}{}", ls, self.sp(), op, self.sp(), rs)
            }
            _ => self.term(t, allow_neg),
        }
    }
    fn term(&mut self, t: &T, allow_neg: bool) -> String {
        match t {
            T::Neg(u) => {
                if allow_neg {
                    // a second minus directly after the first is rejected: parenthesise it
                    let inner = if matches!(**u, T::Neg(_)) { self.atom(u) } else { self.powterm(u) };
                    format!("-{}{}", self.sp(), inner)
                } else {
                    let e = self.expr(t);
                    format!("({})", e)
                }
            }
            _ => self.powterm(t),
        }
    }
    fn powterm(&mut self, t: &T) -> String {
        match t {
            T::Bin('^', b, e) => {
                let bs = self.atom(b);
                let es = self.term(e, true);
                format!("{}{}^{}{}", bs, self.sp(), self.sp(), es)
            }
            T::Powi(b, n) => {
                let bs = self.atom(b);
                format!("{}{}**{}{}", bs, self.sp(), self.sp(), n)
            }
            _ => self.atom(t),
        }
    }
    fn atom(&mut self, t: &T) -> String {
        let s = match t {
            T::Var(_, n) => n.clone(),
            T::Num(s) => s.clone(),
            T::Const(n) => n.clone(),
            T::Un(f, x) => { let e = self.expr(x); format!("{}{}({}{}{})", f, self.sp(), self.sp(), e, self.sp()) }
            _ => { let e = self.expr(t); format!("({}{}{})", self.sp(), e, self.sp()) }
        };
        self.wrap(s)
    }
}

pub const NUMS: [&str; 14] = ["0", "1", "2", "3", "7", "10", "0.5", ".25", "1.5", "2.", "1e1", "2.5e-1", "3E2", "12.75"];

pub struct GenCfg { pub vars: Vec<String>, pub consts: Vec<String>, pub funcs: Vec<String>, pub max_depth: usize }

pub fn gen_tree(r: &mut Rng, g: &GenCfg, depth: usize) -> T {
    let leaf = depth >= g.max_depth || r.chance(0.18);
    if leaf {
        return match r.below(10) {
            0..=3 if !g.vars.is_empty() => { let i = r.below(g.vars.len() as u64) as usize; T::Var(i, g.vars[i].clone()) }
            4..=5 if !g.consts.is_empty() => T::Const(r.pick(&g.consts).clone()),
            _ => T::Num(r.pick(&NUMS).to_string()),
        };
    }
    match r.below(20) {
        0..=2 => T::Bin('+', Box::new(gen_tree(r, g, depth + 1)), Box::new(gen_tree(r, g, depth + 1))),
        3..=5 => T::Bin('-', Box::new(gen_tree(r, g, depth + 1)), Box::new(gen_tree(r, g, depth + 1))),
        6..=8 => T::Bin('*', Box::new(gen_tree(r, g, depth + 1)), Box::new(gen_tree(r, g, depth + 1))),
        9..=10 => T::Bin('/', Box::new(gen_tree(r, g, depth + 1)), Box::new(gen_tree(r, g, depth + 1))),
        11..=13 => T::Bin('^', Box::new(gen_tree(r, g, depth + 1)), Box::new(gen_tree(r, g, depth + 1))),
        14..=15 => T::Neg(Box::new(gen_tree(r, g, depth + 1))),
        16 => T::Powi(Box::new(gen_tree(r, g, depth + 1)), *r.pick(&[0, 1, 2, 3, -1, -2, 5, 17, -64, 64])),
        _ => T::Un(r.pick(&g.funcs).clone(), Box::new(gen_tree(r, g, depth + 1))),
    }
}

// ---------------------------------------------------------------------------------------
// implementation runners

#[derive(Clone, Debug, PartialEq)]
pub enum POut { Ok(String), Oob, Parsing, Residue, Other(String), Panic(String) }
impl POut {
    pub fn wire(&self) -> String {
        match self {
            POut::Ok(s) => format!("ok {}", s), POut::Oob => "err oob".into(), POut::Parsing => "err parsing".into(),
            POut::Residue => "err residue".into(), POut::Other(s) => format!("err other {}", s), POut::Panic(m) => format!("panic {}", m),
        }
    }
    pub fn class(&self) -> &'static str {
        match self { POut::Ok(_) => "ok", POut::Oob => "oob", POut::Parsing => "parsing", POut::Residue => "residue", POut::Other(_) => "other", POut::Panic(_) => "panic" }
    }
}

fn classify(e: &ParsedFuncError) -> POut {
    match e {
        ParsedFuncError::ParameterOutOfBounds(..) => POut::Oob,
        ParsedFuncError::ParsingError(_) => POut::Parsing,
        ParsedFuncError::ResidueError(_) => POut::Residue,
        other => POut::Other(format!("{:?}", other)),
    }
}

/// Parse with `T = Sym` and read back the tree by evaluating on symbolic variables.
pub fn impl_parse(arity: usize, items: &[CtxItem], src: &str) -> POut {
    let ctx = build_sym_ctx(items);
    let run = || -> POut {
        macro_rules! go { ($n:literal) => {{
            match compile_expression::<$n, Sym>(src, &ctx) {
                Ok(ex) => { let pars: [Sym; $n] = std::array::from_fn(|i| Sym::Var(i)); POut::Ok(ex.eval(&pars).sexp()) }
                Err(e) => classify(&e),
            }
        }}}
        match arity { 0 => go!(0), 1 => go!(1), 2 => go!(2), _ => go!(3) }
    };
    // deep nesting needs stack: run in a thread with a large stack
    match catch_unwind(AssertUnwindSafe(run)) { Ok(o) => o, Err(_) => POut::Panic(last_panic()) }
}

pub fn model_req(arity: usize, items: &[CtxItem], src: &str) -> String {
    format!("parse {} {} | {}", arity, ctx_wire(items), src_wire(src))
}

pub fn canon_model_answer(ans: &str) -> String {
    if let Some(rest) = ans.strip_prefix("ok ") { format!("ok {}", canon_model_sexp(rest)) } else { ans.to_string() }
}

// ---------------------------------------------------------------------------------------
// independent reference parser of the intended grammar (token level, written without
// reference to the nom structure): precedence climbing over a token list.

#[derive(Clone, Debug, PartialEq)]
enum Tok { Num(String), Name(String), Op(char), PowI, LP, RP }

fn lex_ref(s: &str) -> Option<Vec<Tok>> {
    let cs: Vec<char> = s.chars().filter(|c| !c.is_whitespace()).collect();
    let mut i = 0;
    let mut out = vec![];
    while i < cs.len() {
        let c = cs[i];
        if c.is_ascii_alphabetic() {
            // the bare words nan / inf (any case) are numbers; a longer run of letters is a name even when it
            // starts with one of them (repair bcc2eb4; before it, the prefix was read as a number)
            let mut j = i;
            while j < cs.len() && cs[j].is_ascii_alphabetic() { j += 1; }
            let word: String = cs[i..j].iter().collect();
            let lw = word.to_ascii_lowercase();
            if lw == "nan" { out.push(Tok::Num("nan".into())); i += 3; continue; }
            if lw == "inf" { out.push(Tok::Num("inf".into())); i += 3; continue; }
            out.push(Tok::Name(word));
            i = j;
        } else if c.is_ascii_digit() || c == '.' {
            let st = i;
            let mut j = i;
            let mut nd = 0;
            while j < cs.len() && cs[j].is_ascii_digit() { j += 1; nd += 1; }
            if j < cs.len() && cs[j] == '.' {
                if nd > 0 { j += 1; while j < cs.len() && cs[j].is_ascii_digit() { j += 1; } }
                else { j += 1; let k = j; while j < cs.len() && cs[j].is_ascii_digit() { j += 1; } if j == k { return None; } }
            }
            if j < cs.len() && (cs[j] == 'e' || cs[j] == 'E') {
                let mut k = j + 1;
                if k < cs.len() && (cs[k] == '+' || cs[k] == '-') { k += 1; }
                let d0 = k;
                while k < cs.len() && cs[k].is_ascii_digit() { k += 1; }
                if k == d0 { return None; }   // `cut`: a dangling exponent kills the number
                j = k;
            }
            out.push(Tok::Num(cs[st..j].iter().collect()));
            i = j;
        } else if c == '*' && i + 1 < cs.len() && cs[i + 1] == '*' {
            out.push(Tok::PowI); i += 2;
        } else if "+-*/^".contains(c) { out.push(Tok::Op(c)); i += 1; }
        else if c == '(' { out.push(Tok::LP); i += 1; }
        else if c == ')' { out.push(Tok::RP); i += 1; }
        else { return None; }
    }
    Some(out)
}

struct RefP<'a> { t: &'a [Tok], i: usize, items: &'a [CtxItem] }

impl<'a> RefP<'a> {
    fn lookup(&self, n: &str) -> Option<CtxItem> {
        let mut found = None;
        for it in self.items {
            match it {
                CtxItem::Default => {
                    if n == "pi" || n == "e" { found = Some(CtxItem::Const(n.into())); }
                    if BUILTIN_FUNCS.contains(&n) { found = Some(CtxItem::Func(n.into())); }
                }
                CtxItem::Var(m, i) if m == n => found = Some(CtxItem::Var(m.clone(), *i)),
                CtxItem::Const(m) if m == n => found = Some(CtxItem::Const(m.clone())),
                CtxItem::Func(m) if m == n => found = Some(CtxItem::Func(m.clone())),
                _ => {}
            }
        }
        found
    }
    fn peek(&self) -> Option<&Tok> { self.t.get(self.i) }
    fn expr(&mut self) -> Option<T> {
        let mut l = self.mterm(true)?;
        while let Some(Tok::Op(c)) = self.peek().cloned() {
            if c != '+' && c != '-' { break; }
            self.i += 1;
            let r = self.mterm(false)?;
            l = T::Bin(c, Box::new(l), Box::new(r));
        }
        Some(l)
    }
    fn mterm(&mut self, allow_neg: bool) -> Option<T> {
        let mut l = self.term(allow_neg)?;
        while let Some(Tok::Op(c)) = self.peek().cloned() {
            if c != '*' && c != '/' { break; }
            self.i += 1;
            let r = self.term(true)?;
            l = T::Bin(c, Box::new(l), Box::new(r));
        }
        Some(l)
    }
    fn term(&mut self, allow_neg: bool) -> Option<T> {
        let mut neg = false;
        if let Some(Tok::Op('-')) = self.peek() {
            if !allow_neg { return None; }
            neg = true;
            self.i += 1;
            if let Some(Tok::Op('-')) = self.peek() { return None; }
        }
        let mut a = self.atom()?;
        match self.peek() {
            Some(Tok::Op('^')) => {
                let save = self.i;
                self.i += 1;
                match self.term(true) {
                    Some(e) => a = T::Bin('^', Box::new(a), Box::new(e)),
                    None => { self.i = save; }   // the caller will then see a dangling '^'
                }
            }
            Some(Tok::PowI) => {
                let save = self.i;
                self.i += 1;
                // integer exponent: optional sign then a number token that is a pure digit string
                let mut sign = 1i64;
                let mut j = self.i;
                if let Some(Tok::Op(c)) = self.t.get(j) { if *c == '-' { sign = -1; j += 1; } else if *c == '+' { j += 1; } }
                let mut ok = false;
                if let Some(Tok::Num(s)) = self.t.get(j) {
                    // the i32 lexer takes only the leading digits of what follows
                    let ds: String = s.chars().take_while(|c| c.is_ascii_digit()).collect();
                    if !ds.is_empty() && ds.len() == s.len() {
                        if let Ok(v) = ds.parse::<i64>() {
                            let v = sign * v;
                            if v >= i32::MIN as i64 && v <= i32::MAX as i64 { a = T::Powi(Box::new(a), v as i32); self.i = j + 1; ok = true; }
                        }
                    }
                }
                if !ok { self.i = save; }
            }
            _ => {}
        }
        if neg { a = T::Neg(Box::new(a)); }
        Some(a)
    }
    fn atom(&mut self) -> Option<T> {
        match self.peek().cloned() {
            Some(Tok::LP) => {
                self.i += 1;
                let e = self.expr()?;
                if self.peek() != Some(&Tok::RP) { return None; }
                self.i += 1;
                Some(e)
            }
            Some(Tok::Num(s)) => { self.i += 1; Some(T::Num(s)) }
            Some(Tok::Op('+')) => {
                // `double` accepts a leading '+' directly in front of digits
                if let Some(Tok::Num(s)) = self.t.get(self.i + 1).cloned() {
                    if s != "nan" && s != "inf" { self.i += 2; return Some(T::Num(s)); }
                }
                None
            }
            Some(Tok::Name(n)) => {
                self.i += 1;
                match self.lookup(&n) {
                    Some(CtxItem::Func(f)) => {
                        if self.peek() != Some(&Tok::LP) { return None; }
                        self.i += 1;
                        let e = self.expr()?;
                        if self.peek() != Some(&Tok::RP) { return None; }
                        self.i += 1;
                        Some(T::Un(f, Box::new(e)))
                    }
                    Some(CtxItem::Const(c)) => Some(T::Const(c)),
                    Some(CtxItem::Var(v, i)) => Some(T::Var(i, v)),
                    _ => None,
                }
            }
            _ => None,
        }
    }
}

/// Reference verdict: Some(tree) iff the string is in the intended language. `None` = reject.
/// Returns Err(()) when the reference declines to judge (inputs outside its token model).
pub fn ref_parse(arity: usize, items: &[CtxItem], src: &str) -> Result<Option<T>, ()> {
    // effective context: later insertions overwrite earlier ones of the same name
    {
        let mut eff: std::collections::HashMap<String, Option<usize>> = std::collections::HashMap::new();
        for it in items {
            match it {
                CtxItem::Default => { for n in ["pi", "e"].iter().chain(BUILTIN_FUNCS.iter()) { eff.insert(n.to_string(), None); } }
                CtxItem::Var(n, i) => { eff.insert(n.clone(), Some(*i)); }
                CtxItem::Const(n) | CtxItem::Func(n) => { eff.insert(n.clone(), None); }
            }
        }
        if eff.values().any(|v| matches!(v, Some(i) if *i >= arity)) { return Ok(None); }
    }
    // the reference only models ASCII expression text and plain numbers without a second '.' etc.
    let toks = match lex_ref(src) { Some(t) => t, None => return Ok(None) };
    let mut p = RefP { t: &toks, i: 0, items };
    match p.expr() {
        Some(t) if p.i == toks.len() => Ok(Some(t)),
        _ => Ok(None),
    }
}

// ---------------------------------------------------------------------------------------
// stream `parse`

fn default_items(arity: usize) -> Vec<CtxItem> {
    let mut v = vec![CtxItem::Default];
    let names = ["x", "y", "z"];
    for i in 0..arity { v.push(CtxItem::Var(names[i].into(), i)); }
    v
}

const TOKENS: [&str; 19] = ["x", "y", "2", ".5", "1e1", "pi", "e", "sin", "f", "(", ")", "+", "-", "*", "/", "^", "**", "3", "-2"];

fn mutate(r: &mut Rng, s: &str) -> String {
    let mut cs: Vec<char> = s.chars().collect();
    let alphabet: Vec<char> = "xy2.5e()+-*/^ sinpfq,[]1×⋅÷·∗∕−".chars().collect();
    let n = 1 + r.below(2);
    for _ in 0..n {
        if cs.is_empty() { cs.push(*r.pick(&alphabet)); continue; }
        let i = r.below(cs.len() as u64) as usize;
        match r.below(4) {
            0 => { cs.remove(i); }
            1 => { cs.insert(i, *r.pick(&alphabet)); }
            2 => { cs[i] = *r.pick(&alphabet); }
            _ => { if i + 1 < cs.len() { cs.swap(i, i + 1); } }
        }
    }
    cs.into_iter().collect()
}

fn random_unicode(r: &mut Rng) -> String {
    let pool: Vec<char> = "xyπé２٣ \u{a0}\u{2003}()+-*/^.e0123456789sincoabtlnqrpE\u{0}\u{7f}\u{fffd}😀ⅷ½×⋅÷·∗∕−＋＊／＾".chars().collect();
    let n = r.below(24) as usize;
    (0..n).map(|_| *r.pick(&pool)).collect()
}

pub struct PCase { pub arity: usize, pub items: Vec<CtxItem>, pub src: String, pub expect: Option<T>, pub kind: &'static str }

pub fn run_parse(o: &Opts) -> Report {
    let mut rep = Report::new("parse");
    rep.rule = "grammar-directed conventional trees (depth<=7; numbers in decimal/exponent forms, pi, e, up to 2 variables, user names, 16 functions, unary minus, + - * / ^ **) rendered with minimal or redundant parentheses and Unicode whitespace; exhaustive token strings over a 19-token alphabet; single/double character mutations; random Unicode strings; deep nesting and long chains; contexts with variable indices on both sides of the arity. Non-trivial = distinct source string that is accepted, or rejected after consuming at least one token".into();
    let mut r = Rng::new(o.seed ^ 0x5151);
    let mut cases: Vec<PCase> = vec![];
    let g2 = GenCfg { vars: vec!["x".into(), "y".into()], consts: vec!["pi".into(), "e".into(), "k".into()], funcs: BUILTIN_FUNCS.iter().map(|s| s.to_string()).chain(["f".to_string()]).collect(), max_depth: 7 };
    let mut items2 = default_items(2);
    items2.push(CtxItem::Const("k".into()));
    items2.push(CtxItem::Func("f".into()));
    // 1. well-formed renderings
    let n_tree = if o.thorough { 20000 } else { 3000 };
    for i in 0..n_tree {
        let t = gen_tree(&mut r, &g2, if i % 3 == 0 { 4 } else { 0 });
        let (red, ws) = match i % 4 { 0 => (0.0, 0.0), 1 => (0.3, 0.0), 2 => (0.0, 0.3), _ => (0.2, 0.2) };
        let src = Render { r: &mut r, redundant: red, ws }.expr(&t);
        cases.push(PCase { arity: 2, items: items2.clone(), src, expect: Some(t), kind: "wellformed" });
    }
    // 2. exhaustive token strings
    let max_len = if o.thorough { 5 } else { 4 };
    let mut idx = vec![0usize; 0];
    for len in 1..=max_len {
        idx.clear(); idx.resize(len, 0);
        loop {
            let src: String = idx.iter().map(|&i| TOKENS[i]).collect::<Vec<_>>().join("");
            cases.push(PCase { arity: 2, items: items2.clone(), src, expect: None, kind: "tokens" });
            let mut k = len;
            loop {
                if k == 0 { break; }
                k -= 1;
                idx[k] += 1;
                if idx[k] < TOKENS.len() { break; }
                idx[k] = 0;
                if k == 0 { k = usize::MAX; break; }
            }
            if k == usize::MAX { break; }
        }
    }
    // longer token strings: seeded sample
    for _ in 0..(if o.thorough { 200000 } else { 20000 }) {
        let len = 5 + r.below(4) as usize;
        let src: String = (0..len).map(|_| *r.pick(&TOKENS)).collect::<Vec<_>>().join("");
        cases.push(PCase { arity: 2, items: items2.clone(), src, expect: None, kind: "tokens-sample" });
    }
    // 3. mutations of well-formed strings
    for _ in 0..(if o.thorough { 40000 } else { 6000 }) {
        let t = gen_tree(&mut r, &g2, 3);
        let s = Render { r: &mut r, redundant: 0.1, ws: 0.05 }.expr(&t);
        let m = mutate(&mut r, &s);
        cases.push(PCase { arity: 2, items: items2.clone(), src: m, expect: None, kind: "mutation" });
    }
    // 4. random unicode
    for _ in 0..(if o.thorough { 20000 } else { 3000 }) {
        cases.push(PCase { arity: 2, items: items2.clone(), src: random_unicode(&mut r), expect: None, kind: "unicode" });
    }
    // 5. contexts around the arity bound, shadowing, insertion order
    for _ in 0..(if o.thorough { 3000 } else { 600 }) {
        let arity = r.below(3) as usize;
        let mut items = vec![CtxItem::Default];
        let nv = r.below(4);
        // indices on both sides of the arity, now and then at the top of the usize range (i + 1 wraps there)
        for j in 0..nv { let idx = if r.chance(0.1) { *r.pick(&[usize::MAX, usize::MAX - 1, 1usize << 32, (1usize << 31) - 1, 1usize << 63]) } else { r.below(4) as usize }; items.push(CtxItem::Var(["x", "y", "z", "w"][j as usize].into(), idx)); }
        if r.chance(0.3) { items.push(CtxItem::Var("sin".into(), 0)); }
        if r.chance(0.3) { items.push(CtxItem::Const("x".into())); }
        if r.chance(0.3) { items.push(CtxItem::Func("e".into())); }
        if r.chance(0.5) { let k = r.below(items.len() as u64) as usize; let it = items.remove(k); items.push(it); if !matches!(items[0], CtxItem::Default) { let p = items.iter().position(|i| matches!(i, CtxItem::Default)).unwrap(); items.swap(0, p); } }
        let src = (*r.pick(&["x", "x+y", "sin(x)", "e(2)", "sin", "z*w", "2", "x(1)", "pi*x"])).to_string();
        cases.push(PCase { arity, items, src, expect: None, kind: "context" });
    }
    // 6. fixed corpus: the shapes named by C06 / C17 and past observations
    for s in ["a", "2^3^2", "2^-3", "-2^2", "2-3-4", "8/4/2", "8/4*2", "-x^2", "x^-y^2", "2**-2", "2**3^2", "(2**3)^2", "2^3**2", "--x", "-(-x)", "x--y", "x+-y", "x*-y", "x/-y", "x^-y",
              "", "(", ")", "()", "(x", "x)", "x+", "+x", "*x", "x*", "x**", "x**y", "x**2.5", "x** 2", "sin", "sin x", "sin()", "x(2)", "pi(2)", "2x", "x y", "x 2", "2 3", "2e", "2e+", "1e5", "1.e1", "1..2", ".", "+5", "2++5", "2-+5", "2+-5", "+-5", "-+5",
              "inf", "nan", "infinity", "INF", "NaN", "info", "nano", "x**2147483647", "x**2147483648", "x**-2147483648", "x**-2147483649", "x**+3", "x**00000000000000000003",
              "1e999999999999", "1e-999999999999", "0.000000000000000000000000000000000000000000001e45", "x^", "x^*y", "x^^y", "2^(3", "sin(x))", "((x))", "( ( x ) + ( y ) )", "é", "x\u{2003}+\u{a0}y", "x\u{200b}+y", "１", "x+٣",
              "x⋅y", "x×y", "x÷y", "x·y", "x−y", "x∗y", "x∕y", "2⋅3", "(x)⋅(y)", "sin(x)×2", "x＋y", "x＊y", "x＾2"] {
        cases.push(PCase { arity: 2, items: items2.clone(), src: s.to_string(), expect: None, kind: "corpus" });
    }
    // 6b. repaired by bcc2eb4 (known_findings.jsonl: fixed): a registered name with a case-insensitive nan/inf prefix
    // used to be shadowed by the number lexer (nom `double` accepts "inf"/"nan" before names are tried)
    {
        let mut items = default_items(2);
        items.push(CtxItem::Const("info".into()));
        cases.push(PCase { arity: 2, items, src: "info+1".to_string(), expect: Some(T::Bin('+', Box::new(T::Const("info".into())), Box::new(T::Num("1".into())))), kind: "shadowed-name" });
    }
    // names around the number words, registered as constant / variable / function, in every term position; the
    // independent recogniser decides what is well-formed, the model what tree results
    {
        let mut items = default_items(2);
        items.push(CtxItem::Const("info".into())); items.push(CtxItem::Var("nano".into(), 1)); items.push(CtxItem::Func("Infimum".into())); items.push(CtxItem::Const("nanometre".into()));
        for src in ["info", "nano", "Infimum(2)", "nanometre", "inf", "nan", "INF", "NaN", "infinity", "infx", "nanx", "2*info", "2*infx", "info^nano", "-info", "x-nano", "Infimum(info)", "Infimum(inf)", "inf+info", "nan*INF",
                    "(info)", "(nano)e3", "info(1)", "nano(1)", "Infimum", "inform", "Nano", "INFO", "2info", "info2", "info.5", "1e3info", "infinf", "nannan", "inf nan", "info nano", "in f", "i n f o",
                    "2^info", "2**3+info", "sin(info)", "sin(infx)", "info+", "+info", "*info", "nanometre/nano", "infé", "infoé"] {
            cases.push(PCase { arity: 2, items: items.clone(), src: src.to_string(), expect: None, kind: "number-words" });
            cases.push(PCase { arity: 2, items: default_items(2), src: src.to_string(), expect: None, kind: "number-words" });
        }
    }
    // 7. size: deep nesting and long chains (panic-freedom), powers up to 1e6 and beyond i32
    let mut sizes = vec![50usize, 200, 400];
    if o.thorough { sizes.push(1000); }
    for &d in &sizes {
        cases.push(PCase { arity: 2, items: items2.clone(), src: format!("{}x{}", "(".repeat(d), ")".repeat(d)), expect: None, kind: "deep" });
        cases.push(PCase { arity: 2, items: items2.clone(), src: format!("{}x{}", "sin(".repeat(d), ")".repeat(d)), expect: None, kind: "deep" });
        cases.push(PCase { arity: 2, items: items2.clone(), src: format!("{}x", "2^".repeat(d)), expect: None, kind: "deep" });
        cases.push(PCase { arity: 2, items: items2.clone(), src: format!("x{}", "+x".repeat(d * 10)), expect: None, kind: "long" });
        cases.push(PCase { arity: 2, items: items2.clone(), src: format!("x{}", "*-x".repeat(d * 5)), expect: None, kind: "long" });
        cases.push(PCase { arity: 2, items: items2.clone(), src: format!("{}x", "(".repeat(d)), expect: None, kind: "deep" });
        cases.push(PCase { arity: 2, items: items2.clone(), src: "-".repeat(d) + "x", expect: None, kind: "long" });
    }
    for n in [1000000i64, -1000000, 999999, 2147483647, -2147483648, 2147483648, 99999999999] {
        cases.push(PCase { arity: 2, items: items2.clone(), src: format!("x**{}", n), expect: None, kind: "powi" });
    }

    // run implementation (big stack for the deep cases) + reference
    let mut reqs = Vec::with_capacity(cases.len());
    let mut impl_out = Vec::with_capacity(cases.len());
    let mut seen = std::collections::HashSet::new();
    let results: Vec<POut> = {
        let cs: Vec<(usize, Vec<CtxItem>, String)> = cases.iter().map(|c| (c.arity, c.items.clone(), c.src.clone())).collect();
        std::thread::Builder::new().stack_size(256 << 20).spawn(move || {
            recording_panics();
            cs.iter().map(|c| impl_parse(c.0, &c.1, &c.2)).collect::<Vec<_>>()
        }).unwrap().join().unwrap()
    };
    for (c, out) in cases.iter().zip(results.iter()) {
        rep.cases += 1;
        rep.count(&format!("kind:{}", c.kind));
        rep.count(&format!("impl:{}", out.class()));
        if seen.insert((c.arity, c.src.clone(), ctx_wire(&c.items))) && (out.class() == "ok" || c.src.len() > 1) { rep.nontrivial += 1; }
        let input = format!("parse arity={} ctx=[{}] src={:?}", c.arity, ctx_wire(&c.items), c.src);
        if let POut::Panic(m) = out {
            rep.finding("oracle", &["C17"], "panic", input.clone(), m.clone());
        }
        // C06: every well-formed rendering compiles to its conventional tree
        if let Some(t) = &c.expect {
            match out {
                POut::Ok(s) if *s == t.sexp() => {}
                other => rep.finding("oracle", &["C06"], "wellformed-wrong-tree", input.clone(), format!("expected {} got {}", t.sexp(), other.wire())),
            }
        }
        // C17 / C06: independent recogniser of the intended grammar
        match if c.kind == "shadowed-name" { Err(()) } else { ref_parse(c.arity, &c.items, &c.src) } {
            Ok(Some(t)) => match out {
                POut::Ok(s) if *s == t.sexp() => {}
                POut::Ok(s) => rep.finding("oracle", &["C06"], "tree-differs-from-reference", input.clone(), format!("ref {} impl {}", t.sexp(), s)),
                other => rep.finding("oracle", &["C06"], "wellformed-rejected", input.clone(), other.wire()),
            },
            Ok(None) => if let POut::Ok(s) = out {
                rep.finding("oracle", &["C17"], "malformed-accepted", input.clone(), s.clone());
            },
            Err(()) => rep.count("ref:declined"),
        }
        if rep.samples.len() < 8 && c.kind == "wellformed" && c.src.len() > 20 { rep.sample(format!("{:?} -> {}", c.src, out.wire())); }
        reqs.push(model_req(c.arity, &c.items, &c.src));
        impl_out.push(out.wire());
    }
    let answers = run_driver_par(&o.drv, &reqs, o.jobs);
    for ((c, imp), ans) in cases.iter().zip(impl_out.iter()).zip(answers.iter()) {
        rep.model_compared += 1;
        let a = canon_model_answer(ans);
        if *imp != a {
            rep.finding("model", &["C06", "C17"], "parse-differs", format!("parse arity={} ctx=[{}] src={:?}", c.arity, ctx_wire(&c.items), c.src), format!("impl: {} | model: {}", imp, a));
        }
    }
    rep
}
