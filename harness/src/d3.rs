//! Stream `disp3d`: 3-D displays through the string API and the closure API
//! (C08, C14 and the 3-D part of C19).
use crate::d2::{err_class, hl, Cfg as _Cfg2};
use crate::sym::src_wire;
use crate::tri;
use crate::util::*;
use cavint::cav3d::display::{gen_display_cav, CavDisplay3D, DisplayConfig3D};
use cavint::core::differentiable::AD;
use cavint::core::parsing::{compile_expression, compile_polygon_set, DefaultContext};
use cavint::pyo3_wrappers::display_cav3d;
use std::panic::{catch_unwind, AssertUnwindSafe};

#[derive(Clone, Debug)]
pub struct Cfg { pub ci: bool, pub rr: usize, pub xr: usize, pub yr: usize, pub mi: usize, pub tol: f64 }

#[derive(Clone, Debug)]
pub struct Case { pub f: String, pub c1: String, pub c2: String, pub ps: String, pub cfg: Cfg, pub kind: &'static str,
    /// closed-form data: f = a0 + a1 x + a2 y + a3 x^2 + a4 xy + a5 y^2, c = (alpha z + k1, beta z + k2)
    pub quad: Option<([f64; 6], f64, f64)> }

impl Case {
    pub fn text(&self) -> String {
        format!("display_cav3d f={:?} c1={:?} c2={:?} polygons={:?} cfg=({},{},{},{},{},{:e})", self.f, self.c1, self.c2, self.ps, self.cfg.ci, self.cfg.rr, self.cfg.xr, self.cfg.yr, self.cfg.mi, self.cfg.tol)
    }
    pub fn request(&self) -> String {
        format!("api3d {} | {} | {} | {} | {} {} {} {} {} {}", src_wire(&self.f), src_wire(&self.c1), src_wire(&self.c2), src_wire(&self.ps),
            if self.cfg.ci { 1 } else { 0 }, self.cfg.rr, self.cfg.xr, self.cfg.yr, self.cfg.mi, hx(self.cfg.tol))
    }
}

pub fn dump3(d: &CavDisplay3D) -> String {
    let tri: Vec<f64> = d.triag.iter().flat_map(|p| [p[0], p[1]]).collect();
    let cur: Vec<String> = d.curtains.iter().map(|m| format!("{}x{}:{}", m.len(), m.first().map_or(0, |r| r.len()), hl(&m.iter().flatten().flat_map(|p| [p[0], p[1], p[2]]).collect::<Vec<_>>()))).collect();
    let top = format!("{}x{}:{}", d.top_mesh.len(), d.top_mesh.first().map_or(0, |r| r.len()), hl(&d.top_mesh.iter().flatten().flat_map(|p| [p[0], p[1], p[2]]).collect::<Vec<_>>()));
    let bot = format!("{}x{}:{}", d.bot_mesh.len(), d.bot_mesh.first().map_or(0, |r| r.len()), hl(&d.bot_mesh.iter().flatten().flat_map(|p| [p[0], p[1]]).collect::<Vec<_>>()));
    format!("[tri={} cur={} top={} bot={} integ={}]", hl(&tri), cur.join(" "), top, bot, match d.integ_value { Some((v, e)) => format!("{},{}", hx(v), hx(e)), None => "none".into() })
}

pub enum Out3 { Ok(Vec<CavDisplay3D>), Err(String), Panic(String) }

pub fn run_string_api(c: &Case) -> Out3 {
    let r = catch_unwind(AssertUnwindSafe(|| display_cav3d(c.f.clone(), c.c1.clone(), c.c2.clone(), c.ps.clone(), c.cfg.ci, c.cfg.rr, c.cfg.xr, c.cfg.yr, c.cfg.mi, c.cfg.tol)));
    match r { Ok(Ok(v)) => Out3::Ok(v), Ok(Err(e)) => Out3::Err(format!("{}", e)), Err(_) => Out3::Panic(last_panic()) }
}

pub fn run_closure_api(c: &Case) -> Option<Result<Vec<CavDisplay3D>, String>> {
    let mut fctx: DefaultContext<AD> = DefaultContext::default();
    fctx.add_var("x", 0); fctx.add_var("y", 1);
    let fe = compile_expression::<2, AD>(&c.f, &fctx).ok()?;
    let mut cctx: DefaultContext<AD> = DefaultContext::default();
    cctx.add_var("z", 0);
    let c1 = compile_expression::<1, AD>(&c.c1, &cctx).ok()?;
    let c2 = compile_expression::<1, AD>(&c.c2, &cctx).ok()?;
    let pctx: DefaultContext<f64> = DefaultContext::default();
    let ps = catch_unwind(AssertUnwindSafe(|| compile_polygon_set(&c.ps, &pctx))).ok()?.ok()?;
    let cfg = DisplayConfig3D { compute_integ: c.cfg.ci, radial_res: c.cfg.rr, x_res: c.cfg.xr, y_res: c.cfg.yr, max_int_iters: c.cfg.mi, tol: c.cfg.tol };
    let r = catch_unwind(AssertUnwindSafe(|| gen_display_cav(move |x: [AD; 2]| fe.eval(&x), move |z: AD| [c1.eval(&[z]), c2.eval(&[z])], ps, cfg)));
    match r { Ok(Ok(v)) => Some(Ok(v)), Ok(Err(e)) => Some(Err(format!("{}", e))), Err(_) => Some(Err("panic".into())) }
}

fn poly_text(polys: &[Vec<[f64; 2]>]) -> String {
    polys.iter().map(|p| format!("[{}]", p.iter().map(|v| format!("[{:?}, {:?}]", v[0], v[1])).collect::<Vec<_>>().join(", "))).collect::<Vec<_>>().join(", ")
}

fn close(a: f64, b: f64, tol: f64) -> bool { a == b || (a - b).abs() <= tol || (a.is_nan() && b.is_nan()) }

/// Dunavant degree-4 six-point rule on a triangle (weights sum to 1)
fn tri_quad(p: [[f64; 2]; 3], f: &dyn Fn(f64, f64) -> f64) -> f64 {
    let (a1, b1, w1) = (0.108103018168070, 0.445948490915965, 0.223381589678011);
    let (a2, b2, w2) = (0.816847572980459, 0.091576213509771, 0.109951743655322);
    let bary = [(a1, b1, b1, w1), (b1, a1, b1, w1), (b1, b1, a1, w1), (a2, b2, b2, w2), (b2, a2, b2, w2), (b2, b2, a2, w2)];
    let area2 = (p[1][0] - p[0][0]) * (p[2][1] - p[0][1]) - (p[1][1] - p[0][1]) * (p[2][0] - p[0][0]);
    let mut s = 0.0;
    for (l0, l1, l2, w) in bary { s += w * f(l0 * p[0][0] + l1 * p[1][0] + l2 * p[2][0], l0 * p[0][1] + l1 * p[1][1] + l2 * p[2][1]); }
    s * area2 / 2.0
}

/// integral of a polynomial of degree <= 4 over the even-odd region of a valid polygon set
fn region_integral(polys: &[Vec<[f64; 2]>], f: &dyn Fn(f64, f64) -> f64) -> f64 {
    let ip: Vec<Vec<crate::geo::P>> = polys.iter().map(|p| p.iter().map(|v| (v[0] as i64, v[1] as i64)).collect()).collect();
    let mut total = 0.0;
    for (i, p) in polys.iter().enumerate() {
        let o = p[0];
        let mut s = 0.0;
        for k in 1..p.len() - 1 { s += tri_quad([o, p[k], p[k + 1]], f); }
        let sh = crate::geo::shoelace2(&ip[i]);
        let pos = if sh < 0 { -s } else { s };
        let v3 = (3 * ip[i][0].0, 3 * ip[i][0].1);
        let mut depth = 0;
        for (j, q) in ip.iter().enumerate() { if i != j { if let Some(true) = crate::geo::in_even_odd3(v3, std::slice::from_ref(q)) { depth += 1; } } }
        if depth % 2 == 0 { total += pos } else { total -= pos }
    }
    total
}

fn judge(c: &Case, ds: &[CavDisplay3D], polys: &[Vec<[f64; 2]>], rep: &mut Report) {
    let input = c.text();
    let mut fctx: DefaultContext<AD> = DefaultContext::default(); fctx.add_var("x", 0); fctx.add_var("y", 1);
    let fe = match compile_expression::<2, AD>(&c.f, &fctx) { Ok(e) => e, Err(_) => return };
    let mut cctx: DefaultContext<AD> = DefaultContext::default(); cctx.add_var("z", 0);
    let (c1, c2) = match (compile_expression::<1, AD>(&c.c1, &cctx), compile_expression::<1, AD>(&c.c2, &cctx)) { (Ok(a), Ok(b)) => (a, b), _ => return };
    let f = |x: f64, y: f64| fe.eval(&[AD(x, 0.0), AD(y, 0.0)]).0;
    let cf = |z: f64| [c1.eval(&[AD(z, 0.0)]).0, c2.eval(&[AD(z, 0.0)]).0];
    let c0 = cf(0.0);
    let nx = (c.cfg.xr + 1).max(2); let ny = (c.cfg.yr + 1).max(2); let nr = (c.cfg.rr + 1).max(2);
    let ring = 3 * c.cfg.xr.max(1) + 1;
    for d in ds {
        // ---- C14 shapes
        for m in &d.curtains { if m.len() != ny || m.iter().any(|r| r.len() != nx) { rep.finding("oracle", &["C14"], "curtain-shape", input.clone(), format!("{}x{} vs {}x{}", m.len(), m.first().map_or(0, |r| r.len()), ny, nx)); return; } }
        if d.top_mesh.len() != nr || d.top_mesh.iter().any(|r| r.len() != ring) || d.bot_mesh.len() != nr || d.bot_mesh.iter().any(|r| r.len() != ring) {
            rep.finding("oracle", &["C14"], "mesh-shape", input.clone(), format!("{}x{} vs {}x{}", d.top_mesh.len(), d.top_mesh.first().map_or(0, |r| r.len()), nr, ring)); return;
        }
        let t = d.triag;
        let cen = [(t[0][0] + t[1][0] + t[2][0]) / 3.0, (t[0][1] + t[1][1] + t[2][1]) / 3.0];
        let sc = 1.0 + t.iter().flatten().fold(0.0f64, |m, v| m.max(v.abs()));
        let mut csc = sc + c0[0].abs() + c0[1].abs();
        for row in &d.top_mesh { for p in row { let cv = cf(p[2]); csc = csc.max(cv[0].abs()).max(cv[1].abs()).max(p[2].abs()); } }
        if !csc.is_finite() { continue; }
        let eps = 64.0 * f64::EPSILON * csc;
        // rings run from the centroid (rho = 0) to the boundary (rho = 1)
        for p in &d.top_mesh[0] { if !close(p[0], cen[0], eps) || !close(p[1], cen[1], eps) { rep.finding("oracle", &["C14"], "inner-ring-not-centroid", input.clone(), String::new()); break; } }
        // top mesh is the graph of f; bottom mesh is its image under (x,y) - c(f) + c(0)
        for (rt, rb) in d.top_mesh.iter().zip(d.bot_mesh.iter()) {
            for (p, q) in rt.iter().zip(rb.iter()) {
                let z = f(p[0], p[1]);
                if p[2].to_bits() != z.to_bits() && !z.is_nan() { rep.finding("oracle", &["C14"], "top-not-graph-of-f", input.clone(), format!("{:e} vs {:e}", p[2], z)); return; }
                let cv = cf(z);
                if !close(q[0], p[0] - cv[0] + c0[0], eps) || !close(q[1], p[1] - cv[1] + c0[1], eps) {
                    rep.finding("oracle", &["C14"], "bottom-not-image-of-top", input.clone(), format!("bot ({:e},{:e}) expected ({:e},{:e})", q[0], q[1], p[0] - cv[0] + c0[0], p[1] - cv[1] + c0[1])); return;
                }
            }
        }
        // outer rings vs curtain edges: boundary = xvs[0] ++ xvs[1][1..] ++ xvs[2][1..]
        let top_outer = &d.top_mesh[nr - 1]; let bot_outer = &d.bot_mesh[nr - 1];
        let mut off = 0usize;
        for (k, m) in d.curtains.iter().enumerate() {
            let cols = nx;
            for i in 0..cols {
                let j = if k == 0 { i } else { off + i };   // column i of curtain k on the ring
                let up = m[ny - 1][i]; let lo = m[0][i];
                let tj = top_outer[j]; let bj = bot_outer[j];
                if !close(up[0], tj[0], eps) || !close(up[1], tj[1], eps) || !close(up[2], tj[2], eps) { rep.finding("oracle", &["C14"], "curtain-top-not-on-top-ring", input.clone(), format!("curtain {} col {}: ({:e},{:e},{:e}) vs ({:e},{:e},{:e})", k, i, up[0], up[1], up[2], tj[0], tj[1], tj[2])); return; }
                if !close(lo[2], 0.0, 0.0) && tj[2].is_finite() { rep.finding("oracle", &["C14"], "curtain-bottom-height", input.clone(), format!("{:e}", lo[2])); return; }
                if !close(lo[0], bj[0], eps) || !close(lo[1], bj[1], eps) { rep.finding("oracle", &["C14"], "curtain-bottom-not-on-bottom-ring", input.clone(), format!("curtain {} col {}: ({:e},{:e}) vs ({:e},{:e})", k, i, lo[0], lo[1], bj[0], bj[1])); return; }
                // column is a translate of the c-curve
                for r in 0..ny { let p = m[r][i]; let cv = cf(p[2]); if !close(p[0] - (cv[0] - c0[0]), lo[0], eps) || !close(p[1] - (cv[1] - c0[1]), lo[1], eps) { rep.finding("oracle", &["C14"], "curtain-column-not-a-c-translate", input.clone(), String::new()); return; } }
            }
            off += if k == 0 { cols - 1 } else { cols - 1 };
        }
    }
    // ---- C08: total integral
    if c.cfg.ci {
        if let Some((a, alpha, beta)) = &c.quad {
            let fq = |x: f64, y: f64| a[0] + a[1] * x + a[2] * y + a[3] * x * x + a[4] * x * y + a[5] * y * y;
            let det = |x: f64, y: f64| 1.0 - alpha * (a[1] + 2.0 * a[3] * x + a[4] * y) - beta * (a[2] + a[4] * x + 2.0 * a[5] * y);
            // sign-definite on the region? (det is affine: check all vertices)
            let signs: Vec<bool> = polys.iter().flatten().map(|v| det(v[0], v[1]) > 0.0).collect();
            if signs.iter().all(|s| *s) || signs.iter().all(|s| !*s) {
                let sg = if signs[0] { 1.0 } else { -1.0 };
                let exact = region_integral(polys, &|x, y| fq(x, y) * det(x, y) * sg);
                let total: f64 = ds.iter().filter_map(|d| d.integ_value).map(|v| v.0).sum();
                let errs: f64 = ds.iter().filter_map(|d| d.integ_value).map(|v| v.1.abs()).sum();
                let scale: f64 = 1.0 + ds.iter().filter_map(|d| d.integ_value).map(|v| v.0.abs()).sum::<f64>();
                if !close(total, exact, errs + 1e-9 * scale) { rep.finding("oracle", &["C08"], "total-not-region-integral", input.clone(), format!("sum {:e} exact {:e} reported err {:e}", total, exact, errs)); }
                rep.count("c08:closed-form-checked");
            }
        }
    }
}

pub fn gen_all_cases(r: &mut Rng, n: usize, n_any: usize, thorough: bool) -> Vec<(Case, Vec<Vec<[f64; 2]>>)> {
    let shapes = tri::shapes();
    let mut cases: Vec<(Case, Vec<Vec<[f64; 2]>>)> = vec![];
    for i in 0..n {
        let (_, base) = &shapes[r.below(shapes.len() as u64) as usize];
        // a symmetry of the shape
        let mut polys: Vec<Vec<[f64; 2]>> = base.clone();
        if r.chance(0.5) { for p in polys.iter_mut() { for v in p.iter_mut() { v.swap(0, 1); } } }
        if r.chance(0.5) { for p in polys.iter_mut() { p.reverse(); } }
        for p in polys.iter_mut() { let k = r.below(p.len() as u64) as usize; p.rotate_left(k); }
        for j in (1..polys.len()).rev() { let k = r.below(j as u64 + 1) as usize; polys.swap(j, k); }
        // the same points with zeros written as -0.0 (all the shapes touch the axes)
        if r.chance(0.3) { for v in polys.iter_mut().flatten() { for c in v.iter_mut() { if *c == 0.0 && r.chance(0.5) { *c = -0.0; } } } }
        let cfg = Cfg { ci: r.chance(0.5), rr: *r.pick(&[0usize, 1, 2, 5, 32]), xr: *r.pick(&[0usize, 1, 2, 3, 8, 32]), yr: *r.pick(&[0usize, 1, 2, 4, 32]), mi: 60, tol: 10f64.powi(r.range(if thorough { -10 } else { -8 }, -6) as i32) };
        if i % 3 != 2 {
            let quadratic = r.chance(0.5);
            let a = [r.dyadic(0.5, 3.0, 2), r.dyadic(-1.0, 1.0, 2), r.dyadic(-1.0, 1.0, 2), if quadratic { r.dyadic(-0.5, 0.5, 3) } else { 0.0 }, if quadratic { r.dyadic(-0.5, 0.5, 3) } else { 0.0 }, if quadratic { r.dyadic(-0.5, 0.5, 3) } else { 0.0 }];
            let alpha = r.dyadic(-0.25, 0.25, 4); let beta = r.dyadic(-0.25, 0.25, 4);
            let k1 = if r.chance(0.7) { r.dyadic(-5.0, 5.0, 1) } else { 0.0 }; let k2 = if r.chance(0.7) { r.dyadic(-5.0, 5.0, 1) } else { 0.0 };
            let f = format!("{:?} + {:?}*x + {:?}*y + {:?}*x*x + {:?}*x*y + {:?}*y*y", a[0], a[1], a[2], a[3], a[4], a[5]).replace("+ -", "- ");
            let c1 = format!("{:?}*z + {:?}", alpha, k1).replace("+ -", "- "); let c2 = format!("{:?}*z + {:?}", beta, k2).replace("+ -", "- ");
            cases.push((Case { f, c1, c2, ps: poly_text(&polys), cfg, kind: "quadratic", quad: Some((a, alpha, beta)) }, polys));
        } else {
            let f = r.pick(&["sin(x) + cos(y) + 3", "exp((x + y)/10) + 1", "x*y/4 + 2", "sqrt(x*x + y*y + 1)"]).to_string();
            let c1 = r.pick(&["z/5 + 2", "sin(z)/4 - 1", "0", "0.1*z*z + 3"]).to_string();
            let c2 = r.pick(&["-z/7 + 1", "cos(z)/5", "0", "z/10 - 4"]).to_string();
            cases.push((Case { f, c1, c2, ps: poly_text(&polys), cfg, kind: "smooth", quad: None }, polys));
        }
    }
    // the C14 witness of DESIGN E3 and a few degenerate configurations
    cases.push((Case { f: "x + y + 1".into(), c1: "z + 5".into(), c2: "2*z - 3".into(), ps: "[[0,0],[1,0],[0,1]]".into(), cfg: Cfg { ci: true, rr: 2, xr: 2, yr: 2, mi: 100, tol: 1e-9 }, kind: "corpus", quad: Some(([1.0, 1.0, 1.0, 0.0, 0.0, 0.0], 1.0, 2.0)) }, vec![vec![[0.0, 0.0], [1.0, 0.0], [0.0, 1.0]]]));
    // C19: arbitrary strings, polygon texts and configurations
    {
        let fe = ["x + y + 1", "x*y", "", "(", "x +", "z", "sin", "1/0", "0/0", "nan", "ln(x)", "1/(x-y)", "x^y", "5", "x y"];
        let ce = ["z", "0", "", "x", "z +", "1/z", "ln(z)", "inf", "z**2 + 3", "sqrt(z)"];
        let pss = ["[[0,0],[1,0],[0,1]]", "[[0,0],[1,0],[1,1],[0,1]]", "", "[[0,0],[1,0]]", "[[0,0],[1,0],[0,1]", "[[0,0],[1,1],[1,0],[0,1]]", "[[0,0],[0,1],[0,2]]", "[[0,0],[1,0],[0,1]],[[0,0],[2,0],[0,2]]",
                   "[[0,0],[4,0],[4,4],[0,4]],[[1,1],[1,3],[3,3],[3,1]]", "[[0,0],[1,0],[x,1]]", "[[0,0],[nan,0],[0,1]]", "[[0,0],[inf,0],[0,1]]", "[[0,0],[1,0],[0,1]] x", "[[0,2],[0,1],[0,0]]", "[[2,0],[1,2],[1,0],[1,1],[0,0]]", "[[0,0],[1e300,0],[0,1e300]]"];
        let tols = [0.0, 1e-8, 1e-3, 1.0, f64::NAN, -1.0];
        for k in 0..4 {
            let l = format!("x{}{}", ")".repeat(k), "é".repeat(140));
            let cfg = Cfg { ci: false, rr: 1, xr: 1, yr: 1, mi: 5, tol: 1e-6 };
            cases.push((Case { f: l.clone(), c1: "z".into(), c2: "z".into(), ps: "[[0,0],[1,0],[0,1]]".into(), cfg: cfg.clone(), kind: "api-any", quad: None }, vec![]));
            cases.push((Case { f: "x".into(), c1: "z".into(), c2: l.clone().replace('x', "z"), ps: "[[0,0],[1,0],[0,1]]".into(), cfg: cfg.clone(), kind: "api-any", quad: None }, vec![]));
            cases.push((Case { f: "x".into(), c1: "z".into(), c2: "z".into(), ps: format!("[[0,0],[1,0],[0,1]]{}", l), cfg, kind: "api-any", quad: None }, vec![]));
        }
        let n = n_any;
        for _ in 0..n {
            let cfg = Cfg { ci: r.chance(0.5), rr: *r.pick(&[0usize, 1, 4]), xr: *r.pick(&[0usize, 1, 5]), yr: *r.pick(&[0usize, 1, 5]), mi: *r.pick(&[0usize, 1, 5, 30]), tol: *r.pick(&tols) };
            cases.push((Case { f: r.pick(&fe).to_string(), c1: r.pick(&ce).to_string(), c2: r.pick(&ce).to_string(), ps: r.pick(&pss).to_string(), cfg, kind: "api-any", quad: None }, vec![]));
        }
    }
    cases
}

pub fn run(o: &Opts) -> Report {
    let mut rep = Report::new("disp3d");
    rep.rule = "string API display_cav3d on valid polygon sets with holes (the structured families of stream tri under dihedral maps, reversal, start-vertex rotation, polygon permutation) written in bracket syntax; linear and quadratic f(x,y), linear c-curves with c(0) != 0 in most cases (closed form for the total), smooth non-linear f and c; resolutions 0..32; tolerances 1e-6..1e-10; every case also through the closure API (bit-identical) and the Lean model at Float. Non-trivial = displays returned; distinct by (strings, polygons, config)".into();
    let mut r = Rng::new(o.seed ^ 0x3D3D);
    let cases = gen_all_cases(&mut r, if o.thorough { 400 } else { 45 }, if o.thorough { 1500 } else { 260 }, o.thorough);
    let mut reqs = vec![]; let mut impls = vec![];
    let mut seen = std::collections::HashSet::new();
    // run the implementation (string API and closure API) for all cases in parallel
    let results: Vec<(Out3, Option<Result<Vec<CavDisplay3D>, String>>)> = {
        let nthreads = o.jobs.max(1);
        let slots: Vec<std::sync::Mutex<Option<(Out3, Option<Result<Vec<CavDisplay3D>, String>>)>>> = (0..cases.len()).map(|_| std::sync::Mutex::new(None)).collect();
        let next = std::sync::atomic::AtomicUsize::new(0);
        std::thread::scope(|sc| {
            for _ in 0..nthreads {
                sc.spawn(|| {
                    recording_panics();
                    loop {
                        let i = next.fetch_add(1, std::sync::atomic::Ordering::Relaxed);
                        if i >= cases.len() { break; }
                        let r = (run_string_api(&cases[i].0), run_closure_api(&cases[i].0));
                        *slots[i].lock().unwrap() = Some(r);
                    }
                });
            }
        });
        slots.into_iter().map(|m| m.into_inner().unwrap().unwrap()).collect()
    };
    for ((c, polys), (out, closure_out)) in cases.iter().zip(results.into_iter()) {
        rep.cases += 1;
        rep.count(&format!("kind:{}", c.kind));
        let wire = match &out {
            Out3::Ok(ds) => { if seen.insert(c.text()) { rep.nontrivial += 1; } format!("ok {} {}", ds.len(), ds.iter().map(dump3).collect::<Vec<_>>().join(" ")) }
            Out3::Err(m) => { let k = err_class(m); if k == "err overlap" || k == "err duplicate" || k == "err nopointtype" { k } else { k } }
            Out3::Panic(m) => format!("panic {}", m),
        };
        rep.count(&format!("impl:{}", wire.split(' ').take(if wire.starts_with("ok") { 1 } else { 3 }).collect::<Vec<_>>().join("-")));
        if let Out3::Panic(m) = &out { rep.finding("oracle", &["C19"], "panic", c.text(), m.clone()); }
        if let Out3::Err(m) = &out { if c.kind != "corpus" && c.kind != "api-any" && err_class(m).starts_with("err overlap") { rep.finding("oracle", &["C04", "C08"], "valid-region-rejected", c.text(), m.clone()); } }
        if let Some(cl) = closure_out {
            let cw = match &cl { Ok(ds) => format!("ok {} {}", ds.len(), ds.iter().map(dump3).collect::<Vec<_>>().join(" ")), Err(m) => if m == "panic" { "panic".into() } else { err_class(m) } };
            let sw = if wire.starts_with("panic") { "panic".to_string() } else { wire.clone() };
            if cw != sw { rep.finding("oracle", &["C19"], "string-api-differs-from-closure-api", c.text(), format!("string: {} | closure: {}", &sw[..sw.len().min(200)], &cw[..cw.len().min(200)])); }
        }
        if let Out3::Ok(ds) = &out { if c.kind != "api-any" { judge(c, ds, polys, &mut rep); } if rep.samples.len() < 4 { rep.sample(format!("{} -> {} triangles", c.text(), ds.len())); } }
        reqs.push(c.request());
        // triangulation errors carry a payload in the model's answer: compare the class only
        impls.push(wire);
    }
    // history: the same request repeated in ONE thread with a different limit / tolerance / resolution each time
    // (each call must equal the closure-level generator on its own arguments, whatever was asked before)
    {
        let base: Vec<&(Case, Vec<Vec<[f64; 2]>>)> = cases.iter().filter(|c| c.0.kind == "quadratic" || c.0.kind == "smooth").take(if o.thorough { 12 } else { 4 }).collect();
        for (c0, _) in base {
            let seq: Vec<Cfg> = vec![
                Cfg { ci: true, mi: 60, ..c0.cfg.clone() }, Cfg { ci: true, mi: 0, ..c0.cfg.clone() }, Cfg { ci: true, mi: 1, ..c0.cfg.clone() }, Cfg { ci: true, mi: 60, ..c0.cfg.clone() },
                Cfg { ci: true, mi: 60, tol: c0.cfg.tol * 1e-3, ..c0.cfg.clone() }, Cfg { ci: false, mi: 60, ..c0.cfg.clone() }, Cfg { ci: true, mi: 60, xr: c0.cfg.xr + 1, ..c0.cfg.clone() }];
            for cfg in seq {
                let c = Case { cfg, ..c0.clone() };
                let sw = match run_string_api(&c) { Out3::Ok(ds) => format!("ok {} {}", ds.len(), ds.iter().map(dump3).collect::<Vec<_>>().join(" ")), Out3::Err(m) => err_class(&m), Out3::Panic(_) => "panic".into() };
                let cw = match run_closure_api(&c) { Some(Ok(ds)) => format!("ok {} {}", ds.len(), ds.iter().map(dump3).collect::<Vec<_>>().join(" ")), Some(Err(m)) => if m == "panic" { "panic".into() } else { err_class(&m) }, None => "uncompilable".into() };
                rep.cases += 1; rep.count("kind:history");
                if sw != cw { rep.finding("oracle", &["C19"], "string-api-differs-from-closure-api", format!("(after earlier calls in the same thread) {}", c.text()), format!("string: {} | closure: {}", &sw[..sw.len().min(200)], &cw[..cw.len().min(200)])); }
            }
        }
    }
    let answers = run_driver_par(&o.drv, &reqs, o.jobs);
    for (((c, _), imp), ans) in cases.iter().zip(impls.iter()).zip(answers.iter()) {
        rep.model_compared += 1;
        let norm = |s: &str| -> String { if s.starts_with("panic") { "panic".into() } else if s.starts_with("err overlap") { "err overlap".into() } else if s.starts_with("err duplicate") { "err duplicate".into() } else if s.starts_with("err nopointtype") { "err nopointtype".into() } else { s.to_string() } };
        if norm(imp) != norm(ans) {
            if let Ok(p) = std::env::var("CAVH_DUMP") { use std::io::Write; if let Ok(mut f) = std::fs::OpenOptions::new().create(true).append(true).open(p) { let _ = writeln!(f, "{}\nIMPL {}\nMODEL {}\n", c.request(), imp, ans); } }
            rep.finding("model", &["C08", "C14", "C19"], "disp3d-differs", c.text(), format!("impl: {} | model: {}", &imp[..imp.len().min(400)], &ans[..ans.len().min(400)]));
        }
    }
    rep
}
