//! A symbolic numeric type: running `compile_expression::<I, Sym>` and `eval` on symbolic
//! variables returns the ACTUAL tree the parser built, through the public API (no hook).
use cavint::core::parsing::{ArithParsable, BasicArithmetic, ContextElement};
use std::collections::HashMap;
use std::ops::{Add, Div, Mul, Neg, Sub};
use std::rc::Rc;

#[derive(Clone, Debug, PartialEq)]
pub enum Sym {
    Var(usize),
    Lit(u64),
    Named(String),
    Un(String, Rc<Sym>),
    Bin(&'static str, Rc<Sym>, Rc<Sym>),
    Powi(Rc<Sym>, i32),
}

impl Sym {
    /// canonical S-expression (literals by bit pattern)
    pub fn sexp(&self) -> String {
        match self {
            Sym::Var(i) => format!("v{}", i),
            Sym::Lit(b) => format!("#{:016x}", b),
            Sym::Named(n) => format!("(c {})", n),
            Sym::Un(f, x) => format!("({} {})", f, x.sexp()),
            Sym::Bin(op, l, r) => format!("({} {} {})", op, l.sexp(), r.sexp()),
            Sym::Powi(x, n) => format!("(powi {} {})", x.sexp(), n),
        }
    }
}

impl From<f64> for Sym { fn from(x: f64) -> Self { Sym::Lit(x.to_bits()) } }
impl Add for Sym { type Output = Sym; fn add(self, r: Sym) -> Sym { Sym::Bin("+", Rc::new(self), Rc::new(r)) } }
impl Sub for Sym { type Output = Sym; fn sub(self, r: Sym) -> Sym { Sym::Bin("-", Rc::new(self), Rc::new(r)) } }
impl Mul for Sym { type Output = Sym; fn mul(self, r: Sym) -> Sym { Sym::Bin("*", Rc::new(self), Rc::new(r)) } }
impl Div for Sym { type Output = Sym; fn div(self, r: Sym) -> Sym { Sym::Bin("/", Rc::new(self), Rc::new(r)) } }
impl Neg for Sym { type Output = Sym; fn neg(self) -> Sym { Sym::Un("neg".into(), Rc::new(self)) } }
impl BasicArithmetic for Sym {
    fn pow(self, rhs: Self) -> Self { Sym::Bin("^", Rc::new(self), Rc::new(rhs)) }
    fn powi(self, n: i32) -> Self { Sym::Powi(Rc::new(self), n) }
}
impl ArithParsable for Sym {}

pub const BUILTIN_FUNCS: [&str; 16] = ["abs", "sin", "cos", "tan", "asin", "acos", "atan", "ln", "exp", "sqrt",
    "sinh", "cosh", "tanh", "asinh", "acosh", "atanh"];

/// A context for `Sym` (the crate's `DefaultContext` has no constructor for foreign types).
pub struct SymCtx<'a>(pub HashMap<String, ContextElement<'a, Sym>>);
impl<'a> AsRef<HashMap<String, ContextElement<'a, Sym>>> for SymCtx<'a> {
    fn as_ref(&self) -> &HashMap<String, ContextElement<'a, Sym>> { &self.0 }
}

/// Leak a closure so that it lives for 'static (the harness is a short-lived process).
pub fn leak_fn(name: String) -> &'static dyn Fn(Sym) -> Sym {
    Box::leak(Box::new(move |x: Sym| Sym::Un(name.clone(), Rc::new(x))))
}

/// What a context contains, in insertion order.
#[derive(Clone, Debug)]
pub enum CtxItem {
    Default,
    Var(String, usize),
    Const(String),
    Func(String),
}

pub fn build_sym_ctx(items: &[CtxItem]) -> SymCtx<'static> {
    let mut m: HashMap<String, ContextElement<'static, Sym>> = HashMap::new();
    for it in items {
        match it {
            CtxItem::Default => {
                m.insert("pi".into(), ContextElement::Const(Sym::Named("pi".into())));
                m.insert("e".into(), ContextElement::Const(Sym::Named("e".into())));
                for f in BUILTIN_FUNCS { m.insert(f.to_string(), ContextElement::UOp(leak_fn(f.to_string()))); }
            }
            CtxItem::Var(n, i) => { m.insert(n.clone(), ContextElement::Var(*i)); }
            CtxItem::Const(n) => { m.insert(n.clone(), ContextElement::Const(Sym::Named(n.clone()))); }
            CtxItem::Func(n) => { m.insert(n.clone(), ContextElement::UOp(leak_fn(n.clone()))); }
        }
    }
    SymCtx(m)
}

fn hexname(n: &str) -> String { n.chars().map(|c| format!("{:x}", c as u32)).collect::<Vec<_>>().join(",") }

/// wire form of a context for the model driver
pub fn ctx_wire(items: &[CtxItem]) -> String {
    items.iter().map(|it| match it {
        CtxItem::Default => "D".to_string(),
        CtxItem::Var(n, i) => format!("v:{}:{}", hexname(n), i),
        CtxItem::Const(n) => format!("c:{}", hexname(n)),
        CtxItem::Func(n) => format!("u:{}", hexname(n)),
    }).collect::<Vec<_>>().join(" ")
}

pub fn src_wire(s: &str) -> String { s.chars().map(|c| format!("{:x}", c as u32)).collect::<Vec<_>>().join(" ") }

/// Convert the model's S-expression (literals as `(lit m e)`, `inf`, `nan`) to the canonical
/// form with bit patterns, using Rust's own correctly rounded decimal parser.
pub fn canon_model_sexp(s: &str) -> String {
    let mut out = String::new();
    let b = s.as_bytes();
    let mut i = 0;
    while i < b.len() {
        if s[i..].starts_with("(lit ") {
            let j = s[i..].find(')').unwrap() + i;
            let parts: Vec<&str> = s[i + 5..j].split(' ').collect();
            let txt = format!("{}e{}", parts[0], parts[1]);
            let v: f64 = txt.parse().unwrap_or(f64::NAN);
            out.push_str(&format!("#{:016x}", v.to_bits()));
            i = j + 1;
        } else if s[i..].starts_with("inf") && (i == 0 || b[i - 1] == b' ') && (i + 3 == b.len() || b[i + 3] == b')' || b[i + 3] == b' ') {
            out.push_str(&format!("#{:016x}", f64::INFINITY.to_bits()));
            i += 3;
        } else if s[i..].starts_with("nan") && (i == 0 || b[i - 1] == b' ') && (i + 3 == b.len() || b[i + 3] == b')' || b[i + 3] == b' ') {
            out.push_str(&format!("#{:016x}", f64::NAN.to_bits()));
            i += 3;
        } else {
            out.push(b[i] as char);
            i += 1;
        }
    }
    out
}
