//! Stream `tri`: the sweep-line triangulator (C03, C04, C15, C16).
use crate::geo::*;
use crate::util::*;
use cavint::core::triangulation::{triangulate_polygon_set, PType, Pt, Triag};
use cavint::errors::TriangulationError;
use std::panic::{catch_unwind, AssertUnwindSafe};
use std::sync::atomic::{AtomicU64, Ordering};
use std::sync::Mutex;

#[derive(Clone, Debug, PartialEq)]
pub enum TOut {
    Ok(Vec<[[f64; 2]; 3]>),
    Overlap(String, [f64; 2]),
    Duplicate([f64; 2]),
    NonFinite,
    NoPolygon,
    NoPointType([f64; 2]),
    Panic(String),
}

fn pt(p: Pt) -> [f64; 2] { p.into() }
fn ptn(t: PType) -> String { format!("{:?}", t) }

impl TOut {
    pub fn wire(&self) -> String {
        match self {
            TOut::Ok(ts) => {
                let mut s = format!("ok {}", ts.len());
                for t in ts { for c in t { s.push(' '); s.push_str(&hx(c[0])); s.push(','); s.push_str(&hx(c[1])); } }
                s
            }
            TOut::Overlap(k, p) => format!("err overlap {} {},{}", k, hx(p[0]), hx(p[1])),
            TOut::Duplicate(p) => format!("err duplicate {},{}", hx(p[0]), hx(p[1])),
            TOut::NonFinite => "err nonfinite".into(),
            TOut::NoPolygon => "err nopolygon".into(),
            TOut::NoPointType(p) => format!("err nopointtype {},{}", hx(p[0]), hx(p[1])),
            TOut::Panic(m) => format!("panic {}", panic_class(m)),
        }
    }
    pub fn class(&self) -> &'static str {
        match self { TOut::Ok(_) => "ok", TOut::Overlap(..) => "overlap", TOut::Duplicate(_) => "duplicate", TOut::NonFinite => "nonfinite",
            TOut::NoPolygon => "nopolygon", TOut::NoPointType(_) => "nopointtype", TOut::Panic(_) => "panic" }
    }
}

/// message class of a panic (no line numbers)
pub fn panic_class(m: &str) -> String {
    if m.contains("already borrowed") || m.contains("already mutably borrowed") { "borrow".into() }
    else if m.contains("unreachable") { "unreachable".into() }
    else if m.contains("index out of bounds") { "index".into() }
    else { "other".into() }
}

thread_local! {
    /// ` trace=<length>,<FNV-1a hash>` of the active-edge counts recorded by the instrumented crate
    /// (`--cfg cavint_verif`) during the last `run_impl` on this thread
    static LAST_TRACE: std::cell::RefCell<String> = std::cell::RefCell::new(String::new());
}

/// the wire form compared with the model: outcome plus the internal active-edge trace
pub fn wire_t(out: &TOut) -> String {
    match out { TOut::Panic(_) => out.wire(), _ => format!("{}{}", out.wire(), LAST_TRACE.with(|t| t.borrow().clone())) }
}

pub fn run_impl(polys: &[Vec<[f64; 2]>]) -> TOut {
    let input: Vec<Vec<[f64; 2]>> = polys.to_vec();
    let r = catch_unwind(AssertUnwindSafe(|| triangulate_polygon_set(input)));
    #[cfg(cavint_verif)]
    {
        let tr: Vec<usize> = cavint::core::triangulation::VERIF_ACTIVE_TRACE.with(|t| t.borrow().clone());
        let h = tr.iter().fold(14695981039346656037u64, |h, n| (h ^ (*n as u64)).wrapping_mul(1099511628211));
        LAST_TRACE.with(|t| *t.borrow_mut() = format!(" trace={},{}", tr.len(), h));
    }
    match r {
        Ok(Ok(ts)) => TOut::Ok(ts.into_iter().map(|t: Triag| t.into()).collect()),
        Ok(Err(TriangulationError::Overlap(k, p))) => TOut::Overlap(ptn(k), pt(p)),
        Ok(Err(TriangulationError::DuplicatePoint(p))) => TOut::Duplicate(pt(p)),
        Ok(Err(TriangulationError::NonFiniteInputError)) => TOut::NonFinite,
        Ok(Err(TriangulationError::NoPolygon)) => TOut::NoPolygon,
        Ok(Err(TriangulationError::NoPointType(p))) => TOut::NoPointType(pt(p)),
        Err(_) => TOut::Panic(last_panic()),
    }
}

pub fn text(polys: &[Vec<[f64; 2]>]) -> String {
    let ps: Vec<String> = polys.iter().map(|p| format!("[{}]", p.iter().map(|v| format!("[{:?},{:?}]", v[0], v[1])).collect::<Vec<_>>().join(","))).collect();
    format!("[{}]", ps.join(","))
}

/// inverse of `text` for finite inputs
pub fn parse_text(t: &str) -> Option<Vec<Vec<[f64; 2]>>> {
    let ctx: cavint::core::parsing::DefaultContext<f64> = Default::default();
    let inner = t.trim();
    let inner = inner.strip_prefix('[')?.strip_suffix(']')?;
    if inner.is_empty() { return Some(vec![]); }
    if inner.contains("NaN") || inner.contains("inf") || inner.contains("[]") { return None; }
    cavint::core::parsing::compile_polygon_set(inner, &ctx).ok()
}

pub fn request(polys: &[Vec<[f64; 2]>]) -> String {
    let mut s = format!("sweep {}", polys.len());
    for p in polys { s.push_str(&format!(" {}", p.len())); for v in p { s.push(' '); s.push_str(&hx(v[0])); s.push(' '); s.push_str(&hx(v[1])); } }
    s
}

fn to_int(polys: &[Vec<[f64; 2]>]) -> Option<Vec<Vec<P>>> {
    let mut out = vec![];
    for p in polys {
        let mut q = vec![];
        for v in p {
            if !(v[0].is_finite() && v[1].is_finite()) || v[0].fract() != 0.0 || v[1].fract() != 0.0 || v[0].abs() > 1073741824.0 || v[1].abs() > 1073741824.0 { return None; }
            q.push((v[0] as i64, v[1] as i64));
        }
        out.push(q);
    }
    Some(out)
}

/// a structural key for known findings: independent of absolute position
pub fn judge(polys: &[Vec<[f64; 2]>], out: &TOut, rep: &Mutex<Report>, counts: &Counts) { judge_shown(polys, out, rep, counts, None) }

/// `shown`: the text of the input the implementation actually ran on, when `polys`/`out` have been mapped back
/// to the lattice by an exact axis-wise affine map
pub fn judge_shown(polys: &[Vec<[f64; 2]>], out: &TOut, rep: &Mutex<Report>, counts: &Counts, shown: Option<&str>) {
    let input = || match shown { Some(t) => format!("tri {}", t), None => format!("tri {}", text(polys)) };
    // ---- C15: totality and error classification
    if let TOut::Panic(m) = out {
        counts.panics.fetch_add(1, Ordering::Relaxed);
        rep.lock().unwrap().finding("oracle", &["C15"], &format!("panic-{}", panic_class(m)), input(), m.clone());
    }
    let nonfinite = polys.iter().flatten().any(|v| !v[0].is_finite() || !v[1].is_finite());
    let short = polys.iter().any(|p| p.len() < 3);
    if nonfinite && !short {
        // first defect in input order decides; if the only defect is non-finiteness it must be that error
        let only_nf = {
            let mut seen = std::collections::HashSet::new();
            polys.iter().flatten().filter(|v| v[0].is_finite() && v[1].is_finite()).all(|v| seen.insert(((v[0] + 0.0).to_bits(), (v[1] + 0.0).to_bits())))
        };
        if only_nf && !matches!(out, TOut::NonFinite | TOut::NoPointType(_) | TOut::Panic(_)) {
            // NoPointType can legitimately precede (a neighbour equal to the vertex) only with duplicates; excluded by only_nf
            rep.lock().unwrap().finding("oracle", &["C15"], "nonfinite-not-reported", input(), out.wire());
        }
    }
    if let Some(ip) = to_int(polys) {
        let all_long = ip.iter().all(|p| p.len() >= 3);
        if !all_long && !ip.is_empty() {
            // the first short polygon is met before any later defect; earlier polygons may fail first
            let first_short = ip.iter().position(|p| p.len() < 3).unwrap();
            if first_short == 0 && !matches!(out, TOut::NoPolygon) && !matches!(out, TOut::Panic(_)) {
                rep.lock().unwrap().finding("oracle", &["C15"], "short-polygon-not-reported", input(), out.wire());
            }
        }
        if all_long {
            let mut seen = std::collections::HashSet::new();
            let dup = ip.iter().flatten().any(|v| !seen.insert(*v));
            if dup && !matches!(out, TOut::Duplicate(_) | TOut::NoPointType(_) | TOut::Panic(_)) {
                rep.lock().unwrap().finding("oracle", &["C15"], "duplicate-not-reported", input(), out.wire());
            }
            if !dup {
                if matches!(out, TOut::Duplicate(_) | TOut::NoPointType(_) | TOut::NonFinite | TOut::NoPolygon) {
                    rep.lock().unwrap().finding("oracle", &["C15", "C04"], "spurious-validation-error", input(), out.wire());
                }
                let valid = is_valid_set(&ip);
                let crossing = has_proper_crossing(&ip);
                if valid { counts.valid.fetch_add(1, Ordering::Relaxed); }
                if crossing { counts.crossing.fetch_add(1, Ordering::Relaxed); }
                match out {
                    TOut::Ok(ts) => {
                        if crossing {
                            counts.crossing_accepted.fetch_add(1, Ordering::Relaxed);
                            rep.lock().unwrap().finding("oracle", &["C16"], "crossing-accepted", input(), format!("{} triangles", ts.len()));
                        }
                        if valid {
                            counts.valid_ok.fetch_add(1, Ordering::Relaxed);
                            let it: Vec<[P; 3]> = ts.iter().map(|t| [(t[0][0] as i64, t[0][1] as i64), (t[1][0] as i64, t[1][1] as i64), (t[2][0] as i64, t[2][1] as i64)]).collect();
                            if let Err(why) = check_tiling(&ip, &it) {
                                counts.bad_tiling.fetch_add(1, Ordering::Relaxed);
                                rep.lock().unwrap().finding("oracle", &["C03"], "not-a-tiling", input(), why);
                            }
                        }
                    }
                    TOut::Overlap(k, p) => {
                        if valid {
                            counts.valid_rejected.fetch_add(1, Ordering::Relaxed);
                            rep.lock().unwrap().finding("oracle", &["C04"], "valid-rejected", input(), format!("Overlap({}, ({},{}))", k, p[0], p[1]));
                        }
                    }
                    _ => {}
                }
            }
        }
    }
}

#[derive(Default)]
pub struct Counts {
    pub panics: AtomicU64, pub valid: AtomicU64, pub valid_ok: AtomicU64, pub valid_rejected: AtomicU64,
    pub crossing: AtomicU64, pub crossing_accepted: AtomicU64, pub bad_tiling: AtomicU64, pub total: AtomicU64,
}

fn lattice_seq(mut idx: u64, n: usize, side: u64) -> Vec<[f64; 2]> {
    let m = side * side;
    let mut v = Vec::with_capacity(n);
    for _ in 0..n { let k = idx % m; idx /= m; v.push([(k / side) as f64, (k % side) as f64]); }
    v
}

// ----- structured generators of valid nested sets (valid by construction, checked by the oracle anyway)

fn rect(x0: i64, y0: i64, x1: i64, y1: i64, ccw: bool, rot: usize) -> Vec<[f64; 2]> {
    let mut v = vec![[x0 as f64, y0 as f64], [x1 as f64, y0 as f64], [x1 as f64, y1 as f64], [x0 as f64, y1 as f64]];
    if !ccw { v.reverse(); }
    v.rotate_left(rot % 4);
    v
}

pub fn shapes() -> Vec<(&'static str, Vec<Vec<[f64; 2]>>)> {
    let f = |v: &[(i64, i64)]| -> Vec<[f64; 2]> { v.iter().map(|p| [p.0 as f64, p.1 as f64]).collect() };
    vec![
        ("L", vec![f(&[(0, 0), (2, 0), (2, 1), (1, 1), (1, 2), (0, 2)])]),
        ("U", vec![f(&[(0, 0), (3, 0), (3, 2), (2, 2), (2, 1), (1, 1), (1, 2), (0, 2)])]),
        ("plus", vec![f(&[(1, 0), (2, 0), (2, 1), (3, 1), (3, 2), (2, 2), (2, 3), (1, 3), (1, 2), (0, 2), (0, 1), (1, 1)])]),
        ("T", vec![f(&[(0, 2), (0, 3), (3, 3), (3, 2), (2, 2), (2, 0), (1, 0), (1, 2)])]),
        ("square-hole", vec![f(&[(0, 0), (4, 0), (4, 4), (0, 4)]), f(&[(1, 1), (1, 3), (3, 3), (3, 1)])]),
        ("hole-island", vec![f(&[(0, 0), (8, 0), (8, 8), (0, 8)]), f(&[(1, 1), (7, 1), (7, 7), (1, 7)]), f(&[(2, 2), (6, 2), (6, 6), (2, 6)]), f(&[(3, 3), (5, 3), (5, 5), (3, 5)])]),
        ("two-holes", vec![f(&[(0, 0), (7, 0), (7, 4), (0, 4)]), f(&[(1, 1), (3, 1), (3, 3), (1, 3)]), f(&[(4, 1), (6, 1), (6, 3), (4, 3)])]),
        ("diamond", vec![f(&[(2, 0), (4, 2), (2, 4), (0, 2)])]),
        ("diamond-hole", vec![f(&[(4, 0), (8, 4), (4, 8), (0, 4)]), f(&[(4, 2), (6, 4), (4, 6), (2, 4)])]),
        ("comb", vec![f(&[(0, 0), (7, 0), (7, 3), (6, 3), (6, 1), (5, 1), (5, 3), (4, 3), (4, 1), (3, 1), (3, 3), (2, 3), (2, 1), (1, 1), (1, 3), (0, 3)])]),
        ("spiral", vec![f(&[(0, 0), (6, 0), (6, 6), (1, 6), (1, 2), (4, 2), (4, 4), (3, 4), (3, 3), (2, 3), (2, 5), (5, 5), (5, 1), (0, 1)])]),
        ("collinear", vec![f(&[(0, 0), (1, 0), (2, 0), (3, 0), (3, 1), (3, 2), (2, 2), (1, 2), (0, 2), (0, 1)])]),
        ("side-by-side", vec![f(&[(0, 0), (2, 0), (2, 2), (0, 2)]), f(&[(3, 0), (5, 0), (5, 2), (3, 2)]), f(&[(0, 3), (5, 3), (5, 5), (0, 5)])]),
        ("star", vec![f(&[(0, 3), (2, 2), (3, 0), (4, 2), (6, 3), (4, 4), (3, 6), (2, 4)])]),
        ("zigzag", vec![f(&[(0, 0), (1, 2), (2, 0), (3, 2), (4, 0), (5, 2), (6, 0), (6, 4), (5, 6), (4, 4), (3, 6), (2, 4), (1, 6), (0, 4)])]),
    ]
}

/// all symmetries of a shape: rotation of the start vertex, reversal, dihedral maps, permutation
/// of the polygons (a sample of them, seeded)
fn variants(r: &mut Rng, base: &[Vec<[f64; 2]>], n: usize) -> Vec<Vec<Vec<[f64; 2]>>> {
    let mut out = vec![];
    for _ in 0..n {
        let d = r.below(8);
        // integer scalings, occasionally very anisotropic powers of two (exact in binary64; the oracle stays exact)
        let (sx, sy) = match r.below(8) { 0 => (2f64.powi(r.range(10, 26) as i32), 1.0), 1 => (1.0, 2f64.powi(r.range(10, 26) as i32)), 2 => (2f64.powi(r.range(8, 20) as i32), 2f64.powi(r.range(8, 20) as i32)), _ => (r.range(1, 3) as f64, r.range(1, 3) as f64) };
        let big = sx > 8.0 || sy > 8.0;
        let tx = r.range(-5, 5) as f64; let ty = r.range(-5, 5) as f64;
        let shear = if !big && r.chance(0.3) { r.range(-2, 2) as f64 } else { 0.0 };
        let mut set: Vec<Vec<[f64; 2]>> = base.iter().map(|p| {
            let mut q: Vec<[f64; 2]> = p.iter().map(|v| {
                let (mut x, mut y) = (v[0], v[1]);
                if d & 1 != 0 { x = -x; }
                if d & 2 != 0 { y = -y; }
                if d & 4 != 0 { std::mem::swap(&mut x, &mut y); }
                let x2 = sx * x + shear * y + tx;
                [x2, sy * y + ty]
            }).collect();
            if r.chance(0.5) { q.reverse(); }
            let k = r.below(q.len() as u64) as usize;
            q.rotate_left(k);
            q
        }).collect();
        // permute polygons
        for i in (1..set.len()).rev() { let j = r.below(i as u64 + 1) as usize; set.swap(i, j); }
        out.push(set);
    }
    out
}


/// a random star-shaped polygon around (cx,cy): vertices sorted by angle (exact integer comparison)
fn star_polygon(r: &mut Rng, cx: i64, cy: i64, rad: i64, n: usize) -> Vec<[f64; 2]> {
    let mut pts: Vec<(i64, i64)> = vec![];
    let mut tries = 0;
    while pts.len() < n && tries < 200 { tries += 1; let p = (r.range(-rad, rad), r.range(-rad, rad)); if p != (0, 0) && !pts.contains(&p) { pts.push(p); } }
    let half = |p: &(i64, i64)| if p.1 > 0 || (p.1 == 0 && p.0 > 0) { 0 } else { 1 };
    pts.sort_by(|a, b| half(a).cmp(&half(b)).then_with(|| (b.0 * a.1 - a.0 * b.1).cmp(&0)).then_with(|| (a.0 * a.0 + a.1 * a.1).cmp(&(b.0 * b.0 + b.1 * b.1))));
    pts.iter().map(|p| [(cx + p.0) as f64, (cy + p.1) as f64]).collect()
}

fn star_set(r: &mut Rng) -> Vec<Vec<[f64; 2]>> {
    let mut set = vec![];
    let n = r.range(4, 12) as usize;
    let rad = *r.pick(&[3i64, 5, 8, 12]);
    set.push(star_polygon(r, 0, 0, rad, n));
    if r.chance(0.4) { let cy = r.range(-rad, rad); let m = r.range(3, 8) as usize; set.push(star_polygon(r, 3 * rad, cy, rad, m)); }
    if r.chance(0.3) { let cx = r.range(-rad, rad); let m = r.range(3, 8) as usize; set.push(star_polygon(r, cx, 3 * rad, rad, m)); }
    if r.chance(0.5) { let m = set.len(); if r.chance(0.5) { set[m - 1].reverse(); } }
    set
}


/// k polygons stacked in disjoint horizontal bands of a 12-wide lattice (valid by construction when each
/// polygon is simple): many simultaneously active edges (> 11, so the B-tree of active edges has an
/// internal node) and many events sharing an x-coordinate
fn band_set(r: &mut Rng) -> Vec<Vec<[f64; 2]>> {
    let k = r.range(5, 10) as usize;
    (0..k).map(|i| { let n = r.range(3, 4) as usize; (0..n).map(|_| [r.range(0, 11) as f64, (3 * i) as f64 + r.range(0, 2) as f64]).collect() }).collect()
}

/// an exact axis-wise affine map v -> v*s + t with s a power of two and t an integer multiple of s: every
/// coordinate stays exactly representable, so the mapped set is valid iff the lattice set is, and the
/// implementation's answer maps back exactly. Covers aspect ratios up to 2^120 and offsets up to 2^45 steps.
#[derive(Clone, Copy, Debug)]
pub struct Affine { sx: f64, sy: f64, tx: f64, ty: f64 }
impl Affine {
    fn random(r: &mut Rng) -> Affine {
        // (exponents up to +-500 per axis keep every gradient of a 12-wide lattice, at most 2^1004, inside the normal
        // binary64 range; beyond that gradients overflow or underflow and the unchanged crate fails: known findings)
        let e = |r: &mut Rng| -> i32 { if r.chance(0.1) { return *r.pick(&[-500, -450, -300, 300, 450, 500]); } match r.below(4) { 0 => 0, 1 => r.range(0, 60) as i32, 2 => -(r.range(0, 60) as i32), _ => *r.pick(&[-52, -50, -48, -45, 45, 48, 50, 52]) } };
        let k = |r: &mut Rng| -> f64 { match r.below(4) { 0 | 1 => 0.0, 2 => (r.range(-1000000, 1000000)) as f64, _ => { let m = 2f64.powi(r.range(20, 45) as i32); if r.chance(0.5) { m } else { -m } } } };
        let (sx, sy) = (2f64.powi(e(r)), 2f64.powi(e(r)));
        Affine { sx, sy, tx: sx * k(r), ty: sy * k(r) }
    }
    fn fwd(&self, v: [f64; 2]) -> [f64; 2] { [v[0] * self.sx + self.tx, v[1] * self.sy + self.ty] }
    fn back(&self, v: [f64; 2]) -> [f64; 2] { [(v[0] - self.tx) / self.sx, (v[1] - self.ty) / self.sy] }
    fn exact_on(&self, polys: &[Vec<[f64; 2]>]) -> bool { polys.iter().flatten().all(|v| { let w = self.fwd(*v); w[0].is_finite() && w[1].is_finite() && self.back(w) == *v }) }
    fn out_back(&self, out: &TOut) -> TOut {
        match out {
            TOut::Ok(ts) => TOut::Ok(ts.iter().map(|t| [self.back(t[0]), self.back(t[1]), self.back(t[2])]).collect()),
            TOut::Overlap(k, p) => TOut::Overlap(k.clone(), self.back(*p)),
            TOut::Duplicate(p) => TOut::Duplicate(self.back(*p)),
            TOut::NoPointType(p) => TOut::NoPointType(self.back(*p)),
            TOut::NonFinite => TOut::NonFinite, TOut::NoPolygon => TOut::NoPolygon, TOut::Panic(m) => TOut::Panic(m.clone()),
        }
    }
}

/// k rectangles [0,11] x [6i, 6i+5] stacked above each other, each with one or two triangular holes strictly
/// inside (valid by construction): 4..6 active edges per band, many events on one abscissa, and at the right
/// end of every hole an End vertex that MERGES two in-intervals (its two edges belong to different back-chains)
fn holeband_set(r: &mut Rng) -> Vec<Vec<[f64; 2]>> {
    let k = r.range(4, 9) as i64;
    let mut out = vec![];
    for i in 0..k {
        let (y0, y1) = (6 * i, 6 * i + 5);
        out.push(rect(0, y0, 11, y1, r.chance(0.5), r.below(4) as usize));
        let two = r.chance(0.6);
        for h in 0..(if two { 2 } else { 1 }) {
            let (xa, xb) = if two { if h == 0 { (1, 5) } else { (6, 10) } } else { (1, 10) };
            loop {
                let t: Vec<(i64, i64)> = (0..3).map(|_| (r.range(xa, xb), r.range(y0 + 1, y1 - 1))).collect();
                let cr = (t[1].0 - t[0].0) * (t[2].1 - t[0].1) - (t[1].1 - t[0].1) * (t[2].0 - t[0].0);
                if cr != 0 { let mut v: Vec<[f64; 2]> = t.iter().map(|p| [p.0 as f64, p.1 as f64]).collect(); if r.chance(0.5) { v.reverse(); } out.push(v); break; }
            }
        }
    }
    for j in (1..out.len()).rev() { let m = r.below(j as u64 + 1) as usize; out.swap(j, m); }
    out
}

fn random_soup(r: &mut Rng) -> Vec<Vec<[f64; 2]>> {
    let np = 1 + r.below(3) as usize;
    let side = *r.pick(&[3i64, 4, 6, 10]);
    (0..np).map(|_| { let n = r.range(2, 9) as usize; (0..n).map(|_| [r.range(0, side) as f64, r.range(0, side) as f64]).collect() }).collect()
}

/// extreme magnitudes: a small lattice scaled to subnormal / near-overflow step sizes
fn extreme_lattice(r: &mut Rng) -> Vec<Vec<[f64; 2]>> {
    let step = *r.pick(&[5e-324, 1e-320, 1e-310, 2.2250738585072014e-308, 1e-300, 1e300, 1e307, 4e307]);
    let np = 1 + r.below(2) as usize;
    (0..np).map(|_| { let n = r.range(3, 7) as usize; (0..n).map(|_| { let sx = if r.chance(0.3) { -1.0 } else { 1.0 }; let sy = if r.chance(0.3) { -1.0 } else { 1.0 };
        [sx * step * r.range(0, 4) as f64, sy * step * r.range(0, 4) as f64] }).collect() }).collect()
}

fn special_coords(r: &mut Rng) -> Vec<Vec<[f64; 2]>> {
    let sp = [f64::NAN, f64::INFINITY, f64::NEG_INFINITY, -0.0, 0.0, 5e-324, 1e300, -1e300, 1.0, 2.0, 3.0];
    let n = r.range(0, 6) as usize;
    let np = r.range(0, 3) as usize;
    (0..np).map(|_| (0..n).map(|_| [*r.pick(&sp), *r.pick(&sp)]).collect()).collect()
}

// ----- large single polygons (child process per case): recursion depth, allocation, long back-chains

/// `parab`: the region below y = x^2, 0 <= x <= m, above y = -1, closed by the single End vertex (m+1, -1): all m+1
/// vertices of the top chain are reflex and stay on the back-chain until the End vertex sees them all (one fan of
/// m+1 triangles). `sine`: the region under one period of a sine of amplitude 10^6 sampled at m points.
/// `zig`: a zig-zag strip (alternating convex/reflex bends, fans of length 1).
pub fn big_polygon(kind: &str, m: usize) -> Vec<[f64; 2]> {
    let mut v: Vec<[f64; 2]> = vec![];
    match kind {
        "parab" => { v.push([0.0, -1.0]); v.push([(m + 1) as f64, -1.0]); for i in (0..=m).rev() { v.push([i as f64, (i * i) as f64]); } }
        "sine" => { v.push([0.0, -1.0]); v.push([(m - 1) as f64, -1.0]); for i in (0..m).rev() { let y = (1.0e6 * (2.0 * std::f64::consts::PI * i as f64 / m as f64).sin()).round() + 1.0e6; v.push([i as f64, y]); } }
        _ => { for i in 0..m { v.push([i as f64, if i % 2 == 0 { 0.0 } else { 1.0 }]); } for i in (0..m).rev() { v.push([i as f64, if i % 2 == 0 { 10.0 } else { 11.0 }]); } }
    }
    v
}

pub fn big_child(kind: &str, m: usize) {
    let poly = big_polygon(kind, m);
    let h = std::thread::Builder::new().stack_size(2 << 20).spawn(move || {
        let out = run_impl(&[poly]);
        match out {
            TOut::Ok(ts) => {
                let q = |x: f64| x as i128;
                let a2: i128 = ts.iter().map(|t| ((q(t[1][0]) - q(t[0][0])) * (q(t[2][1]) - q(t[0][1])) - (q(t[1][1]) - q(t[0][1])) * (q(t[2][0]) - q(t[0][0]))).abs()).sum();
                println!("ok {} {}", ts.len(), a2);
            }
            other => println!("{}", other.wire()),
        }
    }).expect("spawn");
    if h.join().is_err() { println!("panic"); }
}

fn run_big(rep: &Mutex<Report>, counts: &Counts, thorough: bool) {
    let exe = match std::env::current_exe() { Ok(e) => e, Err(_) => return };
    let sizes: &[usize] = if thorough { &[3000, 12000, 40000, 120000] } else { &[3000, 12000, 40000] };
    for kind in ["parab", "sine", "zig"] {
        for &m in sizes {
            let poly = big_polygon(kind, m);
            let n = poly.len();
            let q = |x: f64| x as i128;
            let shoe: i128 = (0..n).map(|i| { let (a, b) = (poly[i], poly[(i + 1) % n]); q(a[0]) * q(b[1]) - q(a[1]) * q(b[0]) }).sum();
            let input = format!("tribig {} {} ({} vertices)", kind, m, n);
            let out = std::process::Command::new(&exe).arg("tribig").arg(kind).arg(m.to_string()).output();
            { let mut r = rep.lock().unwrap(); r.cases += 1; r.nontrivial += 1; r.count(&format!("gen:big-{}", kind)); }
            counts.valid.fetch_add(1, Ordering::Relaxed);
            match out {
                Ok(o) if o.status.success() => {
                    let txt = String::from_utf8_lossy(&o.stdout).trim().to_string();
                    let want = format!("ok {} {}", n - 2, shoe.abs());
                    if txt == want { counts.valid_ok.fetch_add(1, Ordering::Relaxed); }
                    else if txt.starts_with("ok") { counts.bad_tiling.fetch_add(1, Ordering::Relaxed); rep.lock().unwrap().finding("oracle", &["C03"], "not-a-tiling", input, format!("got `{}` want `{}` (count, doubled area)", txt, want)); }
                    else if txt == "panic" { counts.panics.fetch_add(1, Ordering::Relaxed); rep.lock().unwrap().finding("oracle", &["C15"], "panic-large-input", input, txt); }
                    else { counts.valid_rejected.fetch_add(1, Ordering::Relaxed); rep.lock().unwrap().finding("oracle", &["C04"], "valid-rejected", input, txt); }
                }
                Ok(o) => { counts.panics.fetch_add(1, Ordering::Relaxed); rep.lock().unwrap().finding("oracle", &["C15"], "process-aborted", input, format!("{:?}: {}", o.status, String::from_utf8_lossy(&o.stderr).lines().last().unwrap_or("").chars().take(200).collect::<String>())); }
                Err(e) => { rep.lock().unwrap().notes.push(format!("could not spawn the child for {}: {}", input, e)); }
            }
        }
    }
}

// ----- many simultaneously active edges / deep nesting (judged by triangle count and exact doubled area)

/// (polygons, depth of each polygon): a valid nested set by construction
fn many_active_set(r: &mut Rng, kind: usize) -> Vec<(Vec<[f64; 2]>, usize)> {
    let mut out: Vec<(Vec<[f64; 2]>, usize)> = vec![];
    let sq = |x0: i64, y0: i64, x1: i64, y1: i64, ccw: bool, rot: usize| -> Vec<[f64; 2]> { rect(x0, y0, x1, y1, ccw, rot) };
    match kind {
        // m x m grid of small squares / triangles: up to 2m edges cross the sweep line
        0 => { let m = r.range(20, 70) as i64; for i in 0..m { for j in 0..m { let (x, y) = (4 * i + (j % 3), 4 * j); if r.chance(0.5) { out.push((sq(x, y, x + 2, y + 2, r.chance(0.5), r.below(4) as usize), 0)); } else { let mut t = vec![[x as f64, y as f64], [(x + 2) as f64, (y + 1) as f64], [(x + 1) as f64, (y + 2) as f64]]; if r.chance(0.5) { t.reverse(); } out.push((t, 0)); } } } }
        // nested frames to depth d, each level holding several disjoint children side by side
        1 => { fn go(r: &mut Rng, x0: i64, y0: i64, x1: i64, y1: i64, depth: usize, maxd: usize, out: &mut Vec<(Vec<[f64; 2]>, usize)>) {
                   out.push((rect(x0, y0, x1, y1, r.chance(0.5), r.below(4) as usize), depth));
                   if depth >= maxd || x1 - x0 < 8 || y1 - y0 < 8 { return; }
                   let k = 1 + r.below(3) as i64; let w = (x1 - x0 - 2) / k;
                   if w < 4 { return; }
                   for c in 0..k { go(r, x0 + 1 + c * w + 1, y0 + 2, x0 + 1 + (c + 1) * w - 1, y1 - 2, depth + 1, maxd, out); }
               }
               let d = r.range(5, 14) as usize; go(r, 0, 0, 2000, 120, 0, d, &mut out); }
        // a comb with many teeth (one polygon, 2*teeth active edges) with a small island in every second gap
        _ => { let teeth = r.range(60, 300) as i64; let mut v: Vec<[f64; 2]> = vec![[0.0, 0.0], [(4 * teeth) as f64, 0.0]];
               for t in (0..teeth).rev() { let x = 4 * t; v.push([(x + 3) as f64, 10.0 + (t % 5) as f64]); v.push([(x + 3) as f64, 2.0]); v.push([(x + 1) as f64, 2.0]); v.push([(x + 1) as f64, 10.0 + ((t + 2) % 5) as f64]); }
               // teeth are [x+1, x+3] x [2, top]; gaps in between stay outside; base strip [0,4*teeth] x [0,2]
               if r.chance(0.5) { v.reverse(); }
               out.push((v, 0)); }
    }
    out
}

fn run_many_active(rep: &Mutex<Report>, counts: &Counts, rng: &mut Rng, thorough: bool, model_reqs: &Mutex<Vec<(String, String, String)>>) {
    for i in 0..(if thorough { 120 } else { 24 }) {
        let kind = i % 3;
        let mut set = many_active_set(rng, kind);
        // random polygon order (the input order must not matter)
        for j in (1..set.len()).rev() { let k = rng.below(j as u64 + 1) as usize; set.swap(j, k); }
        let polys: Vec<Vec<[f64; 2]>> = set.iter().map(|p| p.0.clone()).collect();
        let q = |x: f64| x as i128;
        let mut want_tris: i128 = 0; let mut want_a2: i128 = 0;
        for (p, d) in &set {
            let n = p.len();
            let shoe: i128 = (0..n).map(|i| { let (a, b) = (p[i], p[(i + 1) % n]); q(a[0]) * q(b[1]) - q(a[1]) * q(b[0]) }).sum();
            if d % 2 == 0 { want_tris += n as i128 - 2; want_a2 += shoe.abs(); } else { want_tris += n as i128 + 2; want_a2 -= shoe.abs(); }
        }
        let out = run_impl(&polys);
        let input = format!("tri-many kind={} polygons={} vertices={} (seeded; replay with the same VERIF_SEED)", kind, polys.len(), polys.iter().map(|p| p.len()).sum::<usize>());
        { let mut r = rep.lock().unwrap(); r.cases += 1; r.nontrivial += 1; r.count(&format!("gen:many-active-{}", kind)); r.count(&format!("impl:{}", out.class())); }
        counts.valid.fetch_add(1, Ordering::Relaxed);
        match &out {
            TOut::Ok(ts) => {
                let a2: i128 = ts.iter().map(|t| ((q(t[1][0]) - q(t[0][0])) * (q(t[2][1]) - q(t[0][1])) - (q(t[1][1]) - q(t[0][1])) * (q(t[2][0]) - q(t[0][0]))).abs()).sum();
                if ts.len() as i128 == want_tris && a2 == want_a2 { counts.valid_ok.fetch_add(1, Ordering::Relaxed); }
                else { counts.bad_tiling.fetch_add(1, Ordering::Relaxed); rep.lock().unwrap().finding("oracle", &["C03"], "not-a-tiling", if polys.iter().map(|p| p.len()).sum::<usize>() < 400 { format!("tri {}", text(&polys)) } else { input.clone() }, format!("{} triangles, doubled area {} (want {}, {})", ts.len(), a2, want_tris, want_a2)); }
            }
            TOut::Panic(m) => { counts.panics.fetch_add(1, Ordering::Relaxed); rep.lock().unwrap().finding("oracle", &["C15"], &format!("panic-{}", panic_class(m)), input.clone(), m.clone()); }
            other => { counts.valid_rejected.fetch_add(1, Ordering::Relaxed); rep.lock().unwrap().finding("oracle", &["C04"], "valid-rejected", if polys.iter().map(|p| p.len()).sum::<usize>() < 400 { format!("tri {}", text(&polys)) } else { input.clone() }, other.wire()); }
        }
        if polys.iter().map(|p| p.len()).sum::<usize>() <= 1500 && rng.chance(0.5) { model_reqs.lock().unwrap().push((request(&polys), wire_t(&out), text(&polys))); }
    }
}

pub fn run(o: &Opts) -> Report {
    let rep = Mutex::new(Report::new("tri"));
    rep.lock().unwrap().rule = "EXHAUSTIVE: every vertex sequence (repeats, collinear, self-intersecting included) of 3..N points on the 4x4 integer lattice as a single polygon (N=6: 17.9M sequences, both tiers); plus structured valid sets (L, U, plus, T, comb, spiral, star, zigzag, rectangles with holes, holes with islands to depth 4, side-by-side components) under all dihedral maps, integer scalings/shears/translations, reversals, start-vertex rotations and polygon permutations; random multi-polygon soups on lattices up to 10x10; star-shaped polygons; stacked bands of 5..10 small polygons on a 12-wide lattice (up to 20 simultaneously active edges, many shared abscissae); 4..9 stacked rectangles with one or two triangular holes each (up to 54 active edges, merging End vertices at shared abscissae); exact axis-wise affine images v*2^e + t (e in -60..60 per axis incl. aspect ratios 2^45..2^120, translations up to 2^45 steps; the answer is mapped back exactly and judged on the lattice); zeros written as -0.0; NaN/inf/-0/subnormal/1e300 coordinates; empty and short inputs; single polygons of 3 000..40 000 (thorough: 120 000) vertices, each in a child process on a 2 MiB stack: a reflex parabola cap (one fan of n-2 triangles), the region under a sine period, a zig-zag strip, judged by triangle count and exact doubled area; grids of 400..4900 small polygons (up to 140 simultaneously active edges), nested frames to depth 14 with several children per level, combs with up to 300 teeth, in random polygon order, judged the same way; fixed overflow inputs (known findings). Non-trivial = passes input validation (>= 3 distinct finite vertices per polygon); distinct by construction of the enumeration".into();
    let counts = Counts::default();
    if let Some(t) = &o.replay {
        // single input: `cavh tri --replay "[[[x,y],...],...]"` prints the implementation's answer and judges it
        let polys = parse_text(t.trim_start_matches("tri ")).expect("replay text");
        recording_panics();
        let out = run_impl(&polys);
        eprintln!("impl: {}", wire_t(&out));
        judge(&polys, &out, &rep, &counts);
        let mut rep = rep.into_inner().unwrap();
        rep.cases = 1;
        let ans = run_driver_par(&o.drv, &[request(&polys)], 1);
        eprintln!("model: {}", ans[0]);
        if ans[0].strip_suffix(" mono=0").unwrap_or(&ans[0]).strip_suffix(" links=0").unwrap_or(ans[0].strip_suffix(" mono=0").unwrap_or(&ans[0])) != wire_t(&out) { rep.finding("model", &["C03", "C04", "C15", "C16"], "sweep-differs", format!("tri {}", t), format!("impl: {} | model: {}", wire_t(&out), ans[0])); }
        return rep;
    }
    let side = 4u64;
    let model_reqs: Mutex<Vec<(String, String, String)>> = Mutex::new(vec![]);   // (request, impl wire, text)
    let sample_mod = 1;
    let model_every: u64 = if o.thorough { 40 } else { 400 };
    for n in 3..=6usize {
        let total = (side * side).pow(n as u32);
        let jobs = o.jobs.max(1) as u64;
        std::thread::scope(|sc| {
            for j in 0..jobs {
                let rep = &rep; let counts = &counts; let model_reqs = &model_reqs;
                let seed = o.seed;
                sc.spawn(move || {
                    recording_panics();
                    let mut local_reqs = vec![];
                    let mut idx = j;
                    while idx < total {
                        let take = n < 6 || (idx.wrapping_mul(0x9E3779B97F4A7C15).wrapping_add(seed) >> 33) % sample_mod == 0;
                        if take {
                            let poly = lattice_seq(idx, n, side);
                            let polys = vec![poly];
                            let out = run_impl(&polys);
                            counts.total.fetch_add(1, Ordering::Relaxed);
                            judge(&polys, &out, rep, counts);
                            if (idx.wrapping_mul(0xD1B54A32D192ED03).wrapping_add(seed) >> 20) % model_every == 0 {
                                local_reqs.push((request(&polys), wire_t(&out), text(&polys)));
                            }
                        }
                        idx += jobs;
                    }
                    model_reqs.lock().unwrap().extend(local_reqs);
                });
            }
        });
    }
    {
        let mut r = rep.lock().unwrap();
        r.exhaustive = true;
        let t = counts.total.load(Ordering::Relaxed);
        r.cases += t;
        r.count_n("lattice4x4:sequences", t);
    }
    // structured + random + special (single thread; small)
    recording_panics();
    let mut rng = Rng::new(o.seed ^ 0x7121);
    let mut extra: Vec<(&str, Vec<Vec<[f64; 2]>>)> = vec![];
    for (name, base) in shapes() {
        extra.push((name, base.clone()));
        for v in variants(&mut rng, &base, if o.thorough { 400 } else { 60 }) { extra.push((name, v)); }
    }
    for _ in 0..(if o.thorough { 2000000 } else { 200000 }) { extra.push(("soup", random_soup(&mut rng))); }
    for _ in 0..(if o.thorough { 400000 } else { 60000 }) { extra.push(("star", star_set(&mut rng))); }
    for _ in 0..(if o.thorough { 400000 } else { 60000 }) { extra.push(("bands", band_set(&mut rng))); }
    for _ in 0..(if o.thorough { 16000 } else { 4000 }) { extra.push(("holebands", holeband_set(&mut rng))); }
    // zeros written as -0.0 half the time (the same points: -0.0 == 0.0), on sets that touch the axes
    {
        let bases = shapes();
        for i in 0..(if o.thorough { 300000 } else { 40000 }) {
            let mut b: Vec<Vec<[f64; 2]>> = if i % 3 == 0 { bases[rng.below(bases.len() as u64) as usize].1.clone() } else { random_soup(&mut rng) };
            let (dx, dy) = (rng.range(0, 3) as f64, rng.range(0, 3) as f64);
            for v in b.iter_mut().flatten() { v[0] -= dx; v[1] -= dy; for c in v.iter_mut() { if *c == 0.0 && rng.chance(0.5) { *c = -0.0; } } }
            extra.push(("negzero", b));
        }
    }
    // the six-polygon witness of the > 11 active edges defect (repaired: see known_findings.jsonl)
    extra.push(("corpus", vec![vec![[1.0, 10.0], [5.0, 10.0], [3.0, 9.0], [8.0, 11.0]], vec![[3.0, 6.0], [1.0, 8.0], [5.0, 7.0]], vec![[9.0, 2.0], [11.0, 0.0], [5.0, 2.0], [8.0, 2.0]],
        vec![[1.0, 17.0], [2.0, 16.0], [9.0, 16.0]], vec![[11.0, 14.0], [10.0, 12.0], [10.0, 13.0], [6.0, 13.0]], vec![[5.0, 5.0], [0.0, 3.0], [9.0, 4.0], [7.0, 5.0]]]));
    for _ in 0..(if o.thorough { 20000 } else { 3000 }) { extra.push(("special", special_coords(&mut rng))); }
    for _ in 0..(if o.thorough { 400000 } else { 60000 }) { extra.push(("extreme", extreme_lattice(&mut rng))); }
    // affine images (anisotropic power-of-two scalings, far translations) of valid-by-construction and random sets
    {
        let bases = shapes();
        let n_aff = if o.thorough { 600000 } else { 80000 };
        let mut done = 0u64;
        for i in 0..n_aff {
            let base: Vec<Vec<[f64; 2]>> = match i % 4 { 0 => bases[rng.below(bases.len() as u64) as usize].1.clone(), 1 => star_set(&mut rng), 2 => band_set(&mut rng), _ => random_soup(&mut rng) };
            let mut a = Affine::random(&mut rng);
            if let Ok(v) = std::env::var("CAVH_AFFINE_FIXED") { let e: Vec<i32> = v.split(',').map(|t| t.parse().unwrap()).collect(); a = Affine { sx: 2f64.powi(e[0]), sy: 2f64.powi(e[1]), tx: 0.0, ty: 0.0 }; }
            if !a.exact_on(&base) { continue; }
            let mapped: Vec<Vec<[f64; 2]>> = base.iter().map(|p| p.iter().map(|v| a.fwd(*v)).collect()).collect();
            let out = run_impl(&mapped);
            done += 1;
            {
                let mut r = rep.lock().unwrap();
                r.cases += 1;
                r.count("gen:affine");
                r.count(&format!("impl:{}", out.class()));
            }
            judge_shown(&base, &a.out_back(&out), &rep, &counts, Some(&text(&mapped)));
            if rng.chance(0.05) { model_reqs.lock().unwrap().push((request(&mapped), wire_t(&out), text(&mapped))); }
        }
        rep.lock().unwrap().count_n("gen:affine-exact", done);
        // KNOWN FINDINGS (known_findings.jsonl): coordinate differences that overflow binary64 make gradients
        // infinite; the square loses a triangle (C03) and the triangle is rejected (C04). The random affine maps
        // above keep every coordinate difference finite.
        let f = |v: &[(i64, i64)]| -> Vec<[f64; 2]> { v.iter().map(|p| [p.0 as f64, p.1 as f64]).collect() };
        let big = Affine { sx: 2f64.powi(1023), sy: 2f64.powi(1023), tx: 0.0, ty: 0.0 };
        let tall = Affine { sx: 1.0, sy: 2f64.powi(1023), tx: 0.0, ty: 0.0 };
        // the same cause one step earlier: an aspect ratio of 2^1060 makes every gradient of the image overflow
        let thin = Affine { sx: 2f64.powi(-530), sy: 2f64.powi(530), tx: 0.0, ty: 0.0 };
        for (a, base) in [(big, vec![f(&[(-1, -1), (1, -1), (1, 1), (-1, 1)])]), (tall, vec![f(&[(0, -1), (1, 1), (2, -1)])]),
                          (thin, vec![f(&[(4, 1), (7, 5), (4, 3)])]), (thin, vec![f(&[(3, 0), (0, 0), (3, 2), (0, 2)])])] {
            let mapped: Vec<Vec<[f64; 2]>> = base.iter().map(|p| p.iter().map(|v| a.fwd(*v)).collect()).collect();
            let out = run_impl(&mapped);
            { let mut r = rep.lock().unwrap(); r.cases += 1; r.count("gen:overflow-corpus"); }
            judge_shown(&base, &a.out_back(&out), &rep, &counts, Some(&text(&mapped)));
        }
    }
    // mixed scales inside one input: two thin triangles over a base of length X = 2^a whose long edges differ in
    // height by t = 2^-b only, so that their gradients t/X underflow to +-0.0 (a + b > 1074) or are subnormal; the long
    // edges cross properly at X/3 (must be rejected) or are parallel translates (valid, must be accepted)
    for i in 0..(if o.thorough { 20000 } else { 3000 }) {
        let a = rng.range(0, 700) as i32; let b = rng.range(3, 700) as i32;
        let (x, t) = (2f64.powi(a), 2f64.powi(-b));
        let crossing = i % 2 == 0;
        let mut p1 = vec![[0.0, 0.0], [x, 2.0 * t], [x / 2.0, -1.0]];
        let mut p2 = if crossing { vec![[0.0, t], [x, 0.0], [x / 2.0, 1.0]] } else { vec![[0.0, t], [x, 3.0 * t], [x / 2.0, 1.0]] };
        if rng.chance(0.5) { p1.reverse(); } if rng.chance(0.5) { p2.reverse(); }
        let k1 = rng.below(3) as usize; p1.rotate_left(k1); let k2 = rng.below(3) as usize; p2.rotate_left(k2);
        let polys = if rng.chance(0.5) { vec![p1, p2] } else { vec![p2, p1] };
        let out = run_impl(&polys);
        { let mut r = rep.lock().unwrap(); r.cases += 1; r.count("gen:mixed-scale"); r.count(&format!("impl:{}", out.class())); }
        match (&out, crossing) {
            (TOut::Ok(ts), true) => { counts.crossing_accepted.fetch_add(1, Ordering::Relaxed); rep.lock().unwrap().finding("oracle", &["C16"], "crossing-accepted", format!("tri {}", text(&polys)), format!("{} triangles", ts.len())); }
            (TOut::Overlap(k, p), false) => { counts.valid_rejected.fetch_add(1, Ordering::Relaxed); rep.lock().unwrap().finding("oracle", &["C04"], "valid-rejected", format!("tri {}", text(&polys)), format!("Overlap({}, ({},{}))", k, p[0], p[1])); }
            (TOut::Panic(m), _) => { rep.lock().unwrap().finding("oracle", &["C15"], &format!("panic-{}", panic_class(m)), format!("tri {}", text(&polys)), m.clone()); }
            (TOut::Ok(ts), false) => { if ts.len() != 2 { rep.lock().unwrap().finding("oracle", &["C03"], "not-a-tiling", format!("tri {}", text(&polys)), format!("{} triangles for two triangles", ts.len())); } }
            _ => {}
        }
        if crossing { counts.crossing.fetch_add(1, Ordering::Relaxed); } else { counts.valid.fetch_add(1, Ordering::Relaxed); if matches!(out, TOut::Ok(_)) { counts.valid_ok.fetch_add(1, Ordering::Relaxed); } }
        if rng.chance(0.1) { model_reqs.lock().unwrap().push((request(&polys), wire_t(&out), text(&polys))); }
    }
    run_big(&rep, &counts, o.thorough);
    run_many_active(&rep, &counts, &mut rng, o.thorough, &model_reqs);
    extra.push(("empty", vec![]));
    extra.push(("empty-poly", vec![vec![]]));
    for (name, polys) in &extra {
        let out = run_impl(polys);
        {
            let mut r = rep.lock().unwrap();
            r.cases += 1;
            r.count(&format!("gen:{}", name));
            r.count(&format!("impl:{}", out.class()));
            if *name != "soup" && *name != "special" && *name != "extreme" && *name != "star" && *name != "bands" && *name != "holebands" && *name != "negzero" && r.samples.len() < 6 { r.sample(format!("{} {} -> {}", name, text(polys), out.class())); }
        }
        judge(polys, &out, &rep, &counts);
        // coordinates whose differences overflow produce NaN ordinates/gradients; `f64::total_cmp` then
        // depends on the SIGN of the NaN, which Lean's `Float` cannot observe: such inputs are judged by
        // the implementation-side oracle (no panic, error classification) only
        let overflowing = polys.iter().flatten().any(|v| v[0].abs() > 8e307 || v[1].abs() > 8e307);
        if !overflowing && ((*name != "soup" && *name != "extreme" && *name != "star" && *name != "bands" && *name != "holebands" && *name != "negzero") || rng.chance(if *name == "bands" || *name == "holebands" { 0.2 } else { 0.05 })) { model_reqs.lock().unwrap().push((request(polys), wire_t(&out), text(polys))); }
    }
    let mut rep = rep.into_inner().unwrap();
    rep.nontrivial = counts.valid.load(Ordering::Relaxed) + counts.crossing.load(Ordering::Relaxed);
    for (k, v) in [("valid", &counts.valid), ("valid-accepted", &counts.valid_ok), ("valid-rejected", &counts.valid_rejected), ("crossing", &counts.crossing),
                   ("crossing-accepted", &counts.crossing_accepted), ("bad-tiling", &counts.bad_tiling), ("panics", &counts.panics)] {
        rep.count_n(&format!("oracle:{}", k), v.load(Ordering::Relaxed));
    }
    // model comparison
    let reqs = model_reqs.into_inner().unwrap();
    if std::env::var("CAVH_NO_MODEL").is_err() {
        let lines: Vec<String> = reqs.iter().map(|r| r.0.clone()).collect();
        let answers = run_driver_par(&o.drv, &lines, o.jobs);
        for ((_, imp, txt), ans) in reqs.iter().zip(answers.iter()) {
            rep.model_compared += 1;
            // ghost flag of the model: some ordered lookup saw the stored order of the active edges disagree
            // with the comparator, so the list scan of the model no longer stands for the B-tree search
            let (ans, mono) = match ans.strip_suffix(" mono=0") { Some(a) => (a.to_string(), false), None => (ans.clone(), true) };
            // second ghost monitor (Model/SweepMon.lean): at every pass start the partner links of the registered edges are
            // sane; C15Monitor.never_panics_of_monitor: while it holds the model cannot end in any panic
            let (ans, links) = match ans.strip_suffix(" links=0") { Some(a) => (a.to_string(), false), None => (ans, true) };
            if !links {
                rep.count("model:links-monitor-dropped");
                rep.finding("model", &["C15"], "partner-links-inconsistent", format!("tri {}", txt), "the partner links of an edge registered with the vertex being handled are a self-loop or coincide: the no-panic theorem no longer applies to this run".to_string());
            }
            let ans = &ans;
            if !mono {
                let valid = parse_text(txt).and_then(|p| to_int(&p)).map_or(false, |ip| ip.iter().all(|q| q.len() >= 3) && is_valid_set(&ip));
                rep.count(if valid { "model:order-inconsistent-on-valid" } else { "model:order-inconsistent-on-invalid" });
                if valid { rep.finding("model", &["C03", "C04"], "stored-order-inconsistent", format!("tri {}", txt), "an ordered lookup in the set of active edges met comparison results that are not monotone along the stored order: the B-tree search of the implementation is no longer determined by the model".to_string()); }
            }
            if imp != ans { rep.finding("model", &["C03", "C04", "C15", "C16"], "sweep-differs", format!("tri {}", txt), format!("impl: {} | model: {}", imp, ans)); }
        }
        // the same model in exact arithmetic (XQ instance, the one the theorems are about):
        // must agree with the implementation on every VALID lattice input; on invalid inputs
        // binary64 rounding of interpolated ordinates may legitimately change which error is met
        let qlines: Vec<String> = reqs.iter().map(|r| r.0.replacen("sweep ", "sweepq ", 1)).collect();
        let qans = run_driver_par(&o.drv, &qlines, o.jobs);
        let mut agree = 0u64; let mut differ_invalid = 0u64;
        for ((req, imp, txt), ans) in reqs.iter().zip(qans.iter()) {
            let _ = req;
            let ans = &ans.strip_suffix(" mono=0").unwrap_or(ans).to_string();
            let ans = &ans.strip_suffix(" links=0").unwrap_or(ans).to_string();
            if imp == ans { agree += 1; continue; }
            // -0.0 vs 0.0 in payloads is not modelled by XQ
            if imp.replace("8000000000000000", "0000000000000000") == *ans { agree += 1; continue; }
            let valid = parse_text(txt).and_then(|p| to_int(&p)).map_or(false, |ip| ip.iter().all(|q| q.len() >= 3) && is_valid_set(&ip));
            if valid { rep.finding("model", &["C03", "C04"], "sweepq-differs-on-valid", format!("tri {}", txt), format!("impl: {} | exact model: {}", imp, ans)); }
            else { differ_invalid += 1; }
        }
        rep.count_n("exact-model:agree", agree);
        rep.count_n("exact-model:differs-on-invalid-input", differ_invalid);
    }
    rep
}
