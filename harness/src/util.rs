//! Shared infrastructure: PRNG, hex wire format, model-driver runner, JSON report.
use std::collections::BTreeMap;
use std::fmt::Write as _;
use std::io::Write as _;
use std::process::{Command, Stdio};

/// splitmix64: every random choice of a run derives from one seed.
#[derive(Clone)]
pub struct Rng(pub u64);
impl Rng {
    pub fn new(seed: u64) -> Self { Rng(seed ^ 0x9E3779B97F4A7C15) }
    pub fn next(&mut self) -> u64 {
        self.0 = self.0.wrapping_add(0x9E3779B97F4A7C15);
        let mut z = self.0;
        z = (z ^ (z >> 30)).wrapping_mul(0xBF58476D1CE4E5B9);
        z = (z ^ (z >> 27)).wrapping_mul(0x94D049BB133111EB);
        z ^ (z >> 31)
    }
    pub fn below(&mut self, n: u64) -> u64 { if n == 0 { 0 } else { self.next() % n } }
    pub fn range(&mut self, lo: i64, hi: i64) -> i64 { lo + self.below((hi - lo + 1) as u64) as i64 }
    pub fn unit(&mut self) -> f64 { (self.next() >> 11) as f64 / (1u64 << 53) as f64 }
    pub fn uniform(&mut self, lo: f64, hi: f64) -> f64 { lo + (hi - lo) * self.unit() }
    pub fn chance(&mut self, p: f64) -> bool { self.unit() < p }
    pub fn pick<'a, T>(&mut self, xs: &'a [T]) -> &'a T { &xs[self.below(xs.len() as u64) as usize] }
    /// dyadic rational k / 2^bits in [lo, hi]
    pub fn dyadic(&mut self, lo: f64, hi: f64, bits: u32) -> f64 {
        let s = (1u64 << bits) as f64;
        let k = self.range((lo * s).ceil() as i64, (hi * s).floor() as i64);
        k as f64 / s
    }
    pub fn fork(&mut self) -> Rng { Rng(self.next()) }
}

/// bit pattern with every NaN mapped to the canonical quiet NaN (Lean's `Float` does not
/// distinguish NaN payloads or signs, so they are never compared)
pub fn cbits(x: f64) -> u64 { if x.is_nan() { 0x7ff8_0000_0000_0000 } else { x.to_bits() } }
pub fn hx(x: f64) -> String { format!("{:016x}", cbits(x)) }
pub fn unhx(s: &str) -> f64 { f64::from_bits(u64::from_str_radix(s, 16).unwrap_or(0x7ff8_0000_0000_0000)) }

pub const HASH0: u64 = 14695981039346656037;
pub fn hash_step(h: u64, w: u64) -> u64 { (h ^ w).wrapping_mul(1099511628211) }

/// Run the Lean model driver on a batch of request lines; one answer line per request.
pub fn run_driver(drv: &str, requests: &[String]) -> Vec<String> {
    if requests.is_empty() { return vec![]; }
    let mut child = Command::new(drv)
        .stdin(Stdio::piped())
        .stdout(Stdio::piped())
        .spawn()
        .expect("cannot start model driver");
    let mut stdin = child.stdin.take().unwrap();
    let reqs: Vec<String> = requests.to_vec();
    let writer = std::thread::spawn(move || {
        for r in reqs {
            let _ = stdin.write_all(r.as_bytes());
            let _ = stdin.write_all(b"\n");
        }
    });
    let out = child.wait_with_output().expect("driver failed");
    let _ = writer.join();
    let text = String::from_utf8_lossy(&out.stdout).to_string();
    let mut lines: Vec<String> = text.lines().map(|s| s.to_string()).collect();
    while lines.len() < requests.len() { lines.push("<no-answer>".into()); }
    lines
}

/// Run the driver in parallel chunks (the driver is single threaded).
pub fn run_driver_par(drv: &str, requests: &[String], jobs: usize) -> Vec<String> {
    if requests.len() < 4 || jobs <= 1 { return run_driver(drv, requests); }
    let chunk = (requests.len() + jobs - 1) / jobs;
    let mut handles = vec![];
    for c in requests.chunks(chunk) {
        let c: Vec<String> = c.to_vec();
        let d = drv.to_string();
        handles.push(std::thread::spawn(move || run_driver(&d, &c)));
    }
    let mut out = vec![];
    for h in handles { out.extend(h.join().unwrap()); }
    out
}

pub fn jstr(s: &str) -> String {
    let mut o = String::from("\"");
    for c in s.chars() {
        match c {
            '"' => o.push_str("\\\""),
            '\\' => o.push_str("\\\\"),
            '\n' => o.push_str("\\n"),
            '\r' => o.push_str("\\r"),
            '\t' => o.push_str("\\t"),
            c if (c as u32) < 0x20 => { let _ = write!(o, "\\u{:04x}", c as u32); }
            c => o.push(c),
        }
    }
    o.push('"');
    o
}

/// One problem found by a stream.
#[derive(Clone)]
pub struct Finding {
    /// "model" = model and implementation disagree; "oracle" = implementation fails the property oracle
    pub class: &'static str,
    /// property ids this finding speaks to
    pub props: Vec<&'static str>,
    /// short machine-matchable kind, e.g. "panic", "neg-err", "valid-rejected"
    pub kind: String,
    /// canonical text of the failing input (replayable)
    pub input: String,
    pub detail: String,
}

/// What a stream reports back to the `check` driver.
pub struct Report {
    pub stream: String,
    pub cases: u64,
    pub model_compared: u64,
    pub nontrivial: u64,
    pub rule: String,
    pub hist: BTreeMap<String, u64>,
    pub samples: Vec<String>,
    pub findings: Vec<Finding>,
    pub notes: Vec<String>,
    pub exhaustive: bool,
}

impl Report {
    pub fn new(stream: &str) -> Self {
        Report { stream: stream.into(), cases: 0, model_compared: 0, nontrivial: 0, rule: String::new(),
                 hist: BTreeMap::new(), samples: vec![], findings: vec![], notes: vec![], exhaustive: false }
    }
    pub fn count(&mut self, key: &str) { *self.hist.entry(key.to_string()).or_insert(0) += 1; }
    pub fn count_n(&mut self, key: &str, n: u64) { *self.hist.entry(key.to_string()).or_insert(0) += n; }
    pub fn sample(&mut self, s: String) { if self.samples.len() < 12 { self.samples.push(s); } }
    pub fn finding(&mut self, class: &'static str, props: &[&'static str], kind: &str, input: String, detail: String) {
        // keep the report bounded: at most 40 findings per (class, kind), but count all
        let key = format!("finding:{}:{}", class, kind);
        self.count(&key);
        let n = self.findings.iter().filter(|f| f.class == class && f.kind == kind).count();
        if n < 40 {
            self.findings.push(Finding { class, props: props.to_vec(), kind: kind.into(), input, detail });
        }
    }
    pub fn to_json(&self) -> String {
        let mut o = String::new();
        let _ = write!(o, "{{\"stream\":{},\"cases\":{},\"model_compared\":{},\"nontrivial\":{},\"exhaustive\":{},\"rule\":{},",
            jstr(&self.stream), self.cases, self.model_compared, self.nontrivial, self.exhaustive, jstr(&self.rule));
        o.push_str("\"hist\":{");
        let mut first = true;
        for (k, v) in &self.hist {
            if !first { o.push(','); }
            first = false;
            let _ = write!(o, "{}:{}", jstr(k), v);
        }
        o.push_str("},\"samples\":[");
        o.push_str(&self.samples.iter().map(|s| jstr(s)).collect::<Vec<_>>().join(","));
        o.push_str("],\"notes\":[");
        o.push_str(&self.notes.iter().map(|s| jstr(s)).collect::<Vec<_>>().join(","));
        o.push_str("],\"findings\":[");
        let mut first = true;
        for f in &self.findings {
            if !first { o.push(','); }
            first = false;
            let _ = write!(o, "{{\"class\":{},\"props\":[{}],\"kind\":{},\"input\":{},\"detail\":{}}}",
                jstr(f.class), f.props.iter().map(|p| jstr(p)).collect::<Vec<_>>().join(","),
                jstr(&f.kind), jstr(&f.input), jstr(&f.detail));
        }
        o.push_str("]}");
        o
    }
}

/// Command-line options common to all streams.
pub struct Opts {
    pub seed: u64,
    pub thorough: bool,
    pub drv: String,
    pub out: String,
    pub replay: Option<String>,
    pub jobs: usize,
}

/// Silence the default panic message (panics are caught and classified).
pub fn quiet_panics() {
    std::panic::set_hook(Box::new(|_| {}));
}

pub fn panic_msg(e: &Box<dyn std::any::Any + Send>) -> String {
    if let Some(s) = e.downcast_ref::<&str>() { s.to_string() }
    else if let Some(s) = e.downcast_ref::<String>() { s.clone() }
    else { "<non-string panic>".into() }
}

thread_local! {
    pub static LAST_PANIC: std::cell::RefCell<String> = std::cell::RefCell::new(String::new());
}

/// Record location + message of a panic instead of printing it.
pub fn recording_panics() {
    std::panic::set_hook(Box::new(|info| {
        let loc = info.location().map(|l| format!("{}:{}", l.file(), l.line())).unwrap_or_default();
        let msg = if let Some(s) = info.payload().downcast_ref::<&str>() { s.to_string() }
            else if let Some(s) = info.payload().downcast_ref::<String>() { s.clone() } else { String::new() };
        LAST_PANIC.with(|p| *p.borrow_mut() = format!("{} {}", loc, msg));
    }));
}
pub fn last_panic() -> String { LAST_PANIC.with(|p| p.borrow().clone()) }

/// Gauss–Legendre nodes and weights on [-1,1] by Newton iteration on P_n (independent of
/// the tables in the crate under test).
pub fn gauss_legendre(n: usize) -> Vec<(f64, f64)> {
    let mut out = Vec::with_capacity(n);
    for i in 0..n {
        let mut x = (std::f64::consts::PI * (i as f64 + 0.75) / (n as f64 + 0.5)).cos();
        let mut dp = 0.0;
        for _ in 0..100 {
            let mut p0 = 1.0;
            let mut p1 = x;
            for k in 2..=n {
                let kf = k as f64;
                let p2 = ((2.0 * kf - 1.0) * x * p1 - (kf - 1.0) * p0) / kf;
                p0 = p1;
                p1 = p2;
            }
            dp = n as f64 * (x * p1 - p0) / (x * x - 1.0);
            let dx = p1 / dp;
            x -= dx;
            if dx.abs() < 1e-16 { break; }
        }
        out.push((x, 2.0 / ((1.0 - x * x) * dp * dp)));
    }
    out
}

/// Composite Gauss–Legendre reference: (∫f, ∫|f|) over [a,b] with `panels` panels of `gl` nodes.
pub fn gl_ref(f: &dyn Fn(f64) -> f64, a: f64, b: f64, panels: usize, gl: &[(f64, f64)]) -> (f64, f64) {
    let mut s = 0.0;
    let mut sa = 0.0;
    let h = (b - a) / panels as f64;
    for p in 0..panels {
        let lo = a + h * p as f64;
        let mid = lo + h / 2.0;
        let mut ps = 0.0;
        let mut pa = 0.0;
        for &(x, w) in gl {
            let v = f(mid + x * h / 2.0);
            ps += w * v;
            pa += w * v.abs();
        }
        s += ps * h / 2.0;
        sa += pa * (h / 2.0).abs();
    }
    (s, sa)
}
