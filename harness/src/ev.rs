//! Streams `eval` (C05, C06: numeric evaluation at f64 and AD) and `lists` (C18).
use crate::pr::*;
use crate::sym::*;
use crate::util::*;
use cavint::core::differentiable::{abs_jacobian_det, Differentiable1D, AD};
use cavint::core::parsing::{compile_expression, compile_interval_list, compile_polygon_set, DefaultContext};
use cavint::errors::ParsedFuncError;
use std::panic::{catch_unwind, AssertUnwindSafe};

const UNARY: [&str; 16] = BUILTIN_FUNCS;

fn ad_un(op: &str, a: AD) -> AD {
    match op {
        "abs" => a.abs(), "sin" => a.sin(), "cos" => a.cos(), "tan" => a.tan(), "asin" => a.asin(), "acos" => a.acos(),
        "atan" => a.atan(), "ln" => a.ln(), "exp" => a.exp(), "sqrt" => a.sqrt(), "sinh" => a.sinh(), "cosh" => a.cosh(),
        "tanh" => a.tanh(), "asinh" => a.asinh(), "acosh" => a.acosh(), "atanh" => a.atanh(), "neg" => -a,
        _ => unreachable!(),
    }
}
fn f_un(op: &str, x: f64) -> f64 {
    match op {
        "abs" => x.abs(), "sin" => x.sin(), "cos" => x.cos(), "tan" => x.tan(), "asin" => x.asin(), "acos" => x.acos(),
        "atan" => x.atan(), "ln" => x.ln(), "exp" => x.exp(), "sqrt" => x.sqrt(), "sinh" => x.sinh(), "cosh" => x.cosh(),
        "tanh" => x.tanh(), "asinh" => x.asinh(), "acosh" => x.acosh(), "atanh" => x.atanh(), "neg" => -x,
        _ => unreachable!(),
    }
}
/// open domain of each primitive, with a margin
fn in_domain(op: &str, x: f64) -> bool {
    let m = 1e-2;
    match op {
        "abs" => x.abs() > m,
        "ln" | "sqrt" => x > m,
        "tan" => x.cos().abs() > 0.05,
        "asin" | "acos" | "atanh" => x.abs() < 1.0 - m,
        "acosh" => x > 1.0 + m,
        _ => true,
    }
}
/// independent derivative formulas (deliberately written differently from the crate)
/// reference derivatives: cancellation-free formulas over libm (the reference must be better conditioned than what it judges)
fn d_un(op: &str, x: f64) -> f64 {
    match op {
        "abs" => if x > 0.0 { 1.0 } else { -1.0 },
        "sin" => x.cos(),
        "cos" => -x.sin(),
        "tan" => 1.0 / (x.cos() * x.cos()),
        "asin" => 1.0 / ((1.0 - x) * (1.0 + x)).sqrt(),
        "acos" => -1.0 / ((1.0 - x) * (1.0 + x)).sqrt(),
        "atan" => 1.0 / (1.0 + x * x),
        "ln" => 1.0 / x,
        "exp" => x.exp(),
        "sqrt" => 0.5 / x.sqrt(),
        "sinh" => x.cosh(),
        "cosh" => x.sinh(),
        "tanh" => 1.0 / (x.cosh() * x.cosh()),
        "asinh" => 1.0 / (1.0 + x * x).sqrt(),
        "acosh" => 1.0 / ((x - 1.0) * (x + 1.0)).sqrt(),
        "atanh" => 1.0 / ((1.0 - x) * (1.0 + x)),
        "neg" => -1.0,
        _ => unreachable!(),
    }
}

fn close(a: f64, b: f64, rel: f64, abs: f64) -> bool {
    if a.is_nan() && b.is_nan() { return true; }
    if a == b { return true; }
    (a - b).abs() <= rel * a.abs().max(b.abs()) + abs
}

fn pair_wire(a: AD) -> String { format!("{} {}", hx(a.0), hx(a.1)) }

/// reference evaluators on conventional trees (harness code, independent of nom)
fn eval_ref_f(t: &T, vars: &[f64], k: f64, fk: &dyn Fn(f64) -> f64) -> f64 {
    match t {
        T::Var(i, _) => vars[*i],
        T::Num(s) => s.parse::<f64>().unwrap(),
        T::Const(n) => match n.as_str() { "pi" => std::f64::consts::PI, "e" => std::f64::consts::E, _ => k },
        T::Un(f, x) => { let v = eval_ref_f(x, vars, k, fk); if f == "f" { fk(v) } else { f_un(f, v) } }
        T::Neg(x) => -eval_ref_f(x, vars, k, fk),
        T::Bin(op, l, r) => {
            let a = eval_ref_f(l, vars, k, fk);
            let b = eval_ref_f(r, vars, k, fk);
            match op { '+' => a + b, '-' => a - b, '*' => a * b, '/' => a / b, '^' => a.powf(b), _ => unreachable!() }
        }
        T::Powi(x, n) => eval_ref_f(x, vars, k, fk).powi(*n),
    }
}
fn eval_ref_ad(t: &T, vars: &[AD], k: f64, fk: &dyn Fn(AD) -> AD) -> AD {
    match t {
        T::Var(i, _) => vars[*i],
        T::Num(s) => AD(s.parse::<f64>().unwrap(), 0.0),
        T::Const(n) => AD(match n.as_str() { "pi" => std::f64::consts::PI, "e" => std::f64::consts::E, _ => k }, 0.0),
        T::Un(f, x) => { let v = eval_ref_ad(x, vars, k, fk); if f == "f" { fk(v) } else { ad_un(f, v) } }
        T::Neg(x) => -eval_ref_ad(x, vars, k, fk),
        T::Bin(op, l, r) => {
            let a = eval_ref_ad(l, vars, k, fk);
            let b = eval_ref_ad(r, vars, k, fk);
            match op { '+' => a + b, '-' => a - b, '*' => a * b, '/' => a / b, '^' => a.pow(b), _ => unreachable!() }
        }
        T::Powi(x, n) => eval_ref_ad(x, vars, k, fk).powi(*n),
    }
}

/// Is every sub-expression in the interior of its domain (by a margin) at `vars`?
fn tree_in_domain(t: &T, vars: &[f64], k: f64) -> bool {
    let fk = |x: f64| x.sinh();
    match t {
        T::Var(..) | T::Num(_) | T::Const(_) => true,
        T::Un(f, x) => {
            if !tree_in_domain(x, vars, k) { return false; }
            let v = eval_ref_f(x, vars, k, &fk);
            v.is_finite() && v.abs() < 30.0 && (f == "f" || in_domain(f, v))
        }
        T::Neg(x) => tree_in_domain(x, vars, k),
        T::Bin(op, l, r) => {
            if !tree_in_domain(l, vars, k) || !tree_in_domain(r, vars, k) { return false; }
            let a = eval_ref_f(l, vars, k, &fk);
            let b = eval_ref_f(r, vars, k, &fk);
            if !a.is_finite() || !b.is_finite() || a.abs() > 1e3 || b.abs() > 1e3 { return false; }
            match op { '/' => b.abs() > 1e-2, '^' => a > 1e-2 && b.abs() < 8.0 && a < 30.0, _ => true }
        }
        T::Powi(x, n) => {
            if !tree_in_domain(x, vars, k) { return false; }
            let v = eval_ref_f(x, vars, k, &fk);
            v.is_finite() && v.abs() < 4.0 && (v.abs() > 0.25 || *n >= 1) && n.abs() <= 64
        }
    }
}

/// largest magnitude among the values of all sub-expressions (the scale against which cancellation in the
/// root value has to be measured)
fn max_sub_abs(t: &T, vars: &[f64], k: f64, fk: &dyn Fn(f64) -> f64) -> f64 {
    let here = eval_ref_f(t, vars, k, fk).abs();
    let below = match t {
        T::Bin(_, a, b) => max_sub_abs(a, vars, k, fk).max(max_sub_abs(b, vars, k, fk)),
        T::Neg(a) | T::Powi(a, _) | T::Un(_, a) => max_sub_abs(a, vars, k, fk),
        _ => 0.0,
    };
    if here.is_finite() { here.max(below) } else { below }
}

pub fn run_eval(o: &Opts) -> Report {
    let mut rep = Report::new("eval");
    rep.rule = "per primitive: grids over the whole domain x tangents {0,1,-2.5,1e3,...}; binary operators on pairs; powi n in -64..64; random expression trees (depth<=6) through compile_expression at f64 and AD, at points where every sub-expression is interior to its domain by a margin, with tangents in R; D1 accessors and abs_jacobian_det. Non-trivial = the value is finite and the tree has >= 2 operators (expression cases) or the point is inside the open domain (primitive cases); distinct by (op/tree, point, tangent)".into();
    let mut r = Rng::new(o.seed ^ 0xE7A1);
    let mut reqs: Vec<String> = vec![];
    let mut impls: Vec<String> = vec![];
    let mut labels: Vec<String> = vec![];
    let tangents = [0.0, 1.0, -2.5, 1e3, -1e-3, 7.0];
    // ---- unary primitives
    let npts = if o.thorough { 4000 } else { 500 };
    for op in UNARY.iter().chain(["neg"].iter()) {
        for i in 0..npts {
            let x = match i % 8 {
                0 => r.uniform(-1.0, 1.0), 1 => r.uniform(-10.0, 10.0), 2 => r.uniform(1.0, 50.0), 3 => r.uniform(-700.0, 700.0),
                4 => *r.pick(&[0.0, -0.0, 1.0, -1.0, f64::INFINITY, f64::NEG_INFINITY, f64::NAN, 1e-300, 1e300, 0.5, 2.0]),
                5 => r.uniform(-1.5, 1.5) * 10f64.powi(r.range(-8, 2) as i32),
                _ => (i as f64 / npts as f64) * 4.0 - 2.0,
            };
            let dx = *r.pick(&tangents);
            let a = AD(x, dx);
            let res = ad_un(op, a);
            rep.cases += 1;
            rep.count(&format!("prim:{}", op));
            reqs.push(format!("ad {} {} {}", op, hx(x), hx(dx)));
            impls.push(pair_wire(res));
            labels.push(format!("AD::{}({:e},{:e})", op, x, dx));
            if x.is_finite() && x.abs() < 300.0 && in_domain(op, x) {
                rep.nontrivial += 1;
                let input = format!("AD::{} at x={:e} dx={:e}", op, x, dx);
                // value: the plain f64 function, bit for bit, independent of the tangent
                let pv = f_un(op, x);
                if res.0.to_bits() != pv.to_bits() && !(res.0.is_nan() && pv.is_nan()) {
                    rep.finding("oracle", &["C05"], "value-not-plain", input.clone(), format!("AD value {:e} plain {:e}", res.0, pv));
                }
                let res0 = ad_un(op, AD(x, 0.0));
                if res0.0.to_bits() != res.0.to_bits() { rep.finding("oracle", &["C05"], "value-depends-on-tangent", input.clone(), String::new()); }
                // tangent: dx * f'(x)
                let want = dx * d_un(op, x);
                // "rounding commensurate with the conditioning": relative 1e-9 of f'(x), plus 1e-13 of |x f''(x)| (the
                // absolute sensitivity of f' to a relative perturbation of x; this is what remains where f' crosses zero)
                let h = 1e-4 * x.abs().max(1.0);
                let d2 = (d_un(op, x + h) - d_un(op, x - h)) / (2.0 * h);
                let floor = if d2.is_finite() { 1e-13 * (x * d2).abs() * dx.abs() } else { 1e-12 * dx.abs() };
                if pv.is_finite() && want.is_finite() && !close(res.1, want, 1e-9, floor + 1e-300) {
                    rep.finding("oracle", &["C05"], "wrong-derivative", input.clone(), format!("tangent {:e} expected {:e}", res.1, want));
                }
            }
        }
    }
    // ---- binary operators and powi
    for i in 0..(if o.thorough { 8000 } else { 1200 }) {
        let op = ["add", "sub", "mul", "div", "pow"][i % 5];
        let (x, y) = if op == "pow" { (r.uniform(0.05, 20.0), r.uniform(-6.0, 6.0)) } else { (r.uniform(-50.0, 50.0), r.uniform(-50.0, 50.0)) };
        let (x, y) = if i % 17 == 0 { (*r.pick(&[0.0, -0.0, f64::INFINITY, f64::NAN, -3.0]), y) } else { (x, y) };
        let dx = *r.pick(&tangents);
        let dy = *r.pick(&tangents);
        let a = AD(x, dx); let b = AD(y, dy);
        let res = match op { "add" => a + b, "sub" => a - b, "mul" => a * b, "div" => a / b, _ => a.pow(b) };
        rep.cases += 1;
        rep.count(&format!("prim:{}", op));
        reqs.push(format!("ad {} {} {} {} {}", op, hx(x), hx(dx), hx(y), hx(dy)));
        impls.push(pair_wire(res));
        labels.push(format!("AD {} ({:e},{:e}) ({:e},{:e})", op, x, dx, y, dy));
        if x.is_finite() && y.is_finite() && (op != "div" || y.abs() > 1e-2) && (op != "pow" || x > 1e-2) {
            rep.nontrivial += 1;
            let input = format!("AD {} at ({:e},{:e}),({:e},{:e})", op, x, dx, y, dy);
            let (pv, want) = match op {
                "add" => (x + y, dx + dy), "sub" => (x - y, dx - dy), "mul" => (x * y, x * dy + y * dx),
                "div" => (x / y, (dx * y - x * dy) / (y * y)),
                _ => (x.powf(y), x.powf(y) * (dy * x.ln() + y * dx / x)),
            };
            let vrel = if op == "pow" { 1e-12 } else { 0.0 };
            if !close(res.0, pv, vrel, 0.0) { rep.finding("oracle", &["C05"], "value-not-plain", input.clone(), format!("AD value {:e} plain {:e}", res.0, pv)); }
            let scale = match op { "mul" => (x * dy).abs() + (y * dx).abs(), "div" => (dx / y).abs() + (x * dy / (y * y)).abs(), "pow" => x.powf(y) * ((dy * x.ln()).abs() + (y * dx / x).abs()), _ => dx.abs() + dy.abs() };
            if want.is_finite() && !close(res.1, want, 1e-9, 1e-12 * scale) {
                rep.finding("oracle", &["C05"], "wrong-derivative", input.clone(), format!("tangent {:e} expected {:e}", res.1, want));
            }
        }
    }
    for i in 0..(if o.thorough { 4000 } else { 800 }) {
        let n = if i % 10 == 0 { *r.pick(&[0, 1, -1, 2, 1000000, -1000000, i32::MAX, i32::MIN]) } else { r.range(-64, 64) as i32 };
        let x = if i % 13 == 0 { *r.pick(&[0.0, -0.0, 1.0, -1.0, f64::INFINITY]) } else { r.uniform(-3.0, 3.0) };
        let dx = *r.pick(&tangents);
        let res = AD(x, dx).powi(n);
        rep.cases += 1;
        rep.count("prim:powi");
        reqs.push(format!("ad powi {} {} {}", hx(x), hx(dx), n));
        impls.push(pair_wire(res));
        labels.push(format!("AD powi ({:e},{:e}) {}", x, dx, n));
        if x.is_finite() && x.abs() > 0.25 && n.abs() <= 64 {
            rep.nontrivial += 1;
            let input = format!("AD::powi at x={:e} dx={:e} n={}", x, dx, n);
            let pv = x.powi(n);
            let want = dx * n as f64 * x.powi(n - 1);
            if !close(res.0, pv, 1e-12, 0.0) { rep.finding("oracle", &["C05"], "value-not-plain", input.clone(), format!("AD value {:e} plain {:e}", res.0, pv)); }
            if want.is_finite() && !close(res.1, want, 1e-9, 0.0) { rep.finding("oracle", &["C05"], "wrong-derivative", input.clone(), format!("tangent {:e} expected {:e}", res.1, want)); }
        }
    }
    // ---- expression trees through the compiler, f64 and AD
    let g = GenCfg { vars: vec!["x".into(), "y".into()], consts: vec!["pi".into(), "e".into(), "k".into()],
        funcs: BUILTIN_FUNCS.iter().map(|s| s.to_string()).chain(["f".to_string()]).collect(), max_depth: 6 };
    let kval = 0.75f64;
    let fk_f: &'static dyn Fn(f64) -> f64 = &|x: f64| x.sinh();
    let fk_ad: &'static dyn Fn(AD) -> AD = &|x: AD| x.sinh();
    let ntree = if o.thorough { 12000 } else { 2000 };
    for i in 0..ntree {
        let t = gen_tree(&mut r, &g, if i % 2 == 0 { 2 } else { 0 });
        let src = Render { r: &mut r, redundant: 0.1, ws: 0.1 }.expr(&t);
        // mostly interior points; now and then signed zeros, infinities, exact powers of two and huge/tiny magnitudes,
        // where shortcuts such as x**0.5 -> sqrt(x) or exp(ln(a)*b) differ from the conventional evaluation
        let special = [-0.0f64, 0.0, f64::INFINITY, f64::NEG_INFINITY, 1.0, -1.0, 0.5, 2.0, 4.0, 0.25, 1e300, -1e300, 1e-300, 5e-324];
        let x = if r.chance(0.15) { *r.pick(&special) } else { r.uniform(-2.0, 2.0) }; let y = if r.chance(0.15) { *r.pick(&special) } else { r.uniform(-2.0, 2.0) };
        let dx = *r.pick(&tangents); let dy = *r.pick(&tangents);
        // contexts built in a random insertion order
        let order = r.below(6);
        let mut cf: DefaultContext<f64> = DefaultContext::default();
        let mut ca: DefaultContext<AD> = DefaultContext::default();
        let steps: Vec<usize> = match order { 0 => vec![0, 1, 2, 3], 1 => vec![3, 2, 1, 0], 2 => vec![1, 0, 3, 2], 3 => vec![2, 3, 0, 1], 4 => vec![0, 2, 1, 3], _ => vec![3, 0, 2, 1] };
        for s in steps {
            match s {
                0 => { cf.add_var("x", 0); ca.add_var("x", 0); }
                1 => { cf.add_var("y", 1); ca.add_var("y", 1); }
                2 => { cf.add_const("k", kval); ca.add_const("k", AD(kval, 0.0)); }
                _ => { cf.add_func("f", fk_f); ca.add_func("f", fk_ad); }
            }
        }
        let ef = compile_expression::<2, f64>(&src, &cf);
        let ea = compile_expression::<2, AD>(&src, &ca);
        rep.cases += 1;
        rep.count("expr");
        let input = format!("expr {:?} at x={:e} y={:e} dx={:e} dy={:e}", src, x, y, dx, dy);
        let ctxw = format!("D v:78:0 v:79:1 c:6b:{} u:66:sinh", hx(kval));
        match (ef, ea) {
            (Ok(ef), Ok(ea)) => {
                let vf = ef.eval(&[x, y]);
                let sf = ef.safe_eval(&[x, y]);
                let va = ea.eval(&[AD(x, dx), AD(y, dy)]);
                let sa = ea.safe_eval(&[AD(x, dx), AD(y, dy)]);
                // C06: bit-for-bit equal to the reference evaluation of the conventional tree
                let rf = eval_ref_f(&t, &[x, y], kval, fk_f);
                let ra = eval_ref_ad(&t, &[AD(x, dx), AD(y, dy)], kval, fk_ad);
                let same = |a: f64, b: f64| a.to_bits() == b.to_bits() || (a.is_nan() && b.is_nan());
                if !same(vf, rf) { rep.finding("oracle", &["C06"], "eval-f64-differs-from-conventional", input.clone(), format!("{:e} vs {:e}", vf, rf)); }
                if !same(va.0, ra.0) || !same(va.1, ra.1) { rep.finding("oracle", &["C06"], "eval-ad-differs-from-conventional", input.clone(), format!("({:e},{:e}) vs ({:e},{:e})", va.0, va.1, ra.0, ra.1)); }
                match sf { Some(s) if same(s, vf) => {}, _ => rep.finding("oracle", &["C06"], "safe-eval-differs", input.clone(), String::new()) }
                match sa { Some(s) if same(s.0, va.0) && same(s.1, va.1) => {}, _ => rep.finding("oracle", &["C06"], "safe-eval-differs", input.clone(), String::new()) }
                reqs.push(format!("evalf 2 {} | {} | {} {}", ctxw, src_wire(&src), hx(x), hx(y)));
                impls.push(format!("ok {}", hx(vf)));
                labels.push(input.clone());
                reqs.push(format!("evalad 2 {} | {} | {} {} {} {}", ctxw, src_wire(&src), hx(x), hx(dx), hx(y), hx(dy)));
                impls.push(format!("ok {} {}", hx(va.0), hx(va.1)));
                labels.push(input.clone());
                // C05 on trees: inside the domain, the AD value is the plain value (to rounding:
                // pow/powi are computed differently) and the tangent is the directional derivative
                if tree_in_domain(&t, &[x, y], kval) && vf.is_finite() && t.size() >= 3 {
                    rep.nontrivial += 1;
                    let has_pow = src.contains('^') || src.contains("**");
                    // (pow/powi differ by ulps between AD and f64; where sub-expressions cancel, those ulps are measured
                    // against the largest sub-expression value, not against the cancelled result)
                    let sub = if has_pow { max_sub_abs(&t, &[x, y], kval, fk_f) } else { 0.0 };
                    if !close(va.0, vf, if has_pow { 1e-9 } else { 0.0 }, 1e-12 * sub) { rep.finding("oracle", &["C05"], "tree-value-not-plain", input.clone(), format!("{:e} vs {:e}", va.0, vf)); }
                    // value independent of the tangent, tangent linear in the tangent
                    let v0 = ea.eval(&[AD(x, 0.0), AD(y, 0.0)]);
                    if !same(v0.0, va.0) { rep.finding("oracle", &["C05"], "value-depends-on-tangent", input.clone(), String::new()); }
                    let v2 = ea.eval(&[AD(x, 2.0 * dx), AD(y, 2.0 * dy)]);
                    if va.1.is_finite() && !close(v2.1, 2.0 * va.1, 1e-9, 1e-300) { rep.finding("oracle", &["C05"], "tangent-not-linear", input.clone(), format!("{:e} vs 2*{:e}", v2.1, va.1)); }
                    // central difference along (dx,dy), only when the result is well conditioned
                    let h = 1e-6;
                    let fp = ef.eval(&[x + h * dx.signum() * dx.abs().min(1.0), y + h * dy.signum() * dy.abs().min(1.0)]);
                    let fm = ef.eval(&[x - h * dx.signum() * dx.abs().min(1.0), y - h * dy.signum() * dy.abs().min(1.0)]);
                    if dx.abs() <= 1.0 && dy.abs() <= 1.0 && fp.is_finite() && fm.is_finite() {
                        let fd = (fp - fm) / (2.0 * h);
                        let curv = (fp - 2.0 * vf + fm).abs() / h;   // crude second-derivative guard
                        if curv < 1e-3 * (1.0 + fd.abs()) && !close(va.1, fd, 1e-4, 1e-5 * (1.0 + vf.abs())) {
                            rep.finding("oracle", &["C05"], "tree-wrong-derivative", input.clone(), format!("AD {:e} finite-difference {:e}", va.1, fd));
                        }
                    }
                }
            }
            (rf, ra) => {
                // a rendering of a conventional tree must compile (C06); reported by stream `parse` too
                rep.finding("oracle", &["C06"], "wellformed-rejected", input.clone(), format!("f64: {:?} AD: {:?}", rf.err().map(|e| e.to_string()), ra.err().map(|e| e.to_string())));
            }
        }
    }
    // ---- D1 accessors and abs_jacobian_det
    for _ in 0..(if o.thorough { 3000 } else { 400 }) {
        let a = r.uniform(-2.0, 2.0); let b = r.uniform(-2.0, 2.0); let x = r.uniform(-2.0, 2.0);
        let fcl = move |t: AD| (t * AD(a, 0.0)).sin() + t * t * AD(b, 0.0);
        let f: &dyn Differentiable1D = &fcl;
        let (v, d) = f.fdf(x);
        rep.cases += 1; rep.count("d1"); rep.nontrivial += 1;
        let input = format!("D1 sin({a:e} t)+{b:e} t^2 at {x:e}");
        if f.f(x).to_bits() != v.to_bits() || f.df(x).to_bits() != d.to_bits() { rep.finding("oracle", &["C05"], "d1-accessors-disagree", input.clone(), String::new()); }
        let want = a * (a * x).cos() + 2.0 * b * x;
        if !close(d, want, 1e-9, 1e-12) { rep.finding("oracle", &["C05"], "wrong-derivative", input.clone(), format!("{d:e} vs {want:e}")); }
        let g0 = r.uniform(-2.0, 2.0); let g1 = r.uniform(-3.0, 3.0);
        let comp = f.composition((g0, g1));
        let (cv, cd) = f.fdf(g0);
        if comp.0.to_bits() != cv.to_bits() || !close(comp.1, cd * g1, 1e-12, 1e-300) { rep.finding("oracle", &["C05"], "composition-not-chain-rule", input.clone(), format!("{:?} vs ({:e},{:e})", comp, cv, cd * g1)); }
        // a hand-written implementor that provides only `f` and `df`: the trait DEFAULTS supply fdf / composition
        struct Hand { a: f64, b: f64 }
        impl Differentiable1D for Hand {
            fn f(&self, x: f64) -> f64 { (self.a * x).sin() + self.b * x * x }
            fn df(&self, x: f64) -> f64 { self.a * (self.a * x).cos() + 2.0 * self.b * x }
        }
        let h = Hand { a, b };
        let hd: &dyn Differentiable1D = &h;
        let hf = hd.fdf(x);
        if hf.0.to_bits() != hd.f(x).to_bits() || hf.1.to_bits() != hd.df(x).to_bits() { rep.finding("oracle", &["C05"], "default-fdf-not-f-df", input.clone(), String::new()); }
        let hc = hd.composition((g0, g1));
        if hc.0.to_bits() != hd.f(g0).to_bits() || hc.1.to_bits() != (hd.df(g0) * g1).to_bits() { rep.finding("oracle", &["C05"], "default-composition-not-chain-rule", input.clone(), format!("{:?} vs ({:e},{:e})", hc, hd.f(g0), hd.df(g0) * g1)); }
        reqs.push(format!("d1def {} {} {} {} {}", hx(a), hx(b), hx(x), hx(g0), hx(g1)));
        impls.push(format!("{} {} {} {}", hx(hf.0), hx(hf.1), hx(hc.0), hx(hc.1)));
        labels.push(format!("trait defaults of Differentiable1D on Hand{{a={a:e},b={b:e}}} at x={x:e}, composition({g0:e},{g1:e})"));
        // jacobian of (x,y) -> (x*y + a*x, sin(y) + b*x*x)
        let y = r.uniform(-2.0, 2.0);
        let jd = abs_jacobian_det(|p: [AD; 2]| [p[0] * p[1] + p[0] * AD(a, 0.0), p[1].sin() + p[0] * p[0] * AD(b, 0.0)], [x, y]);
        let want = ((y + a) * y.cos() - x * (2.0 * b * x)).abs();
        if !close(jd, want, 1e-9, 1e-12) { rep.finding("oracle", &["C05"], "wrong-jacobian", format!("jac a={a:e} b={b:e} at ({x:e},{y:e})"), format!("{jd:e} vs {want:e}")); }
    }
    let answers = run_driver_par(&o.drv, &reqs, o.jobs);
    for ((lab, imp), ans) in labels.iter().zip(impls.iter()).zip(answers.iter()) {
        rep.model_compared += 1;
        if imp != ans {
            // NaN payload/sign may differ only when both are NaN
            let nan_same = { let a: Vec<&str> = imp.split(' ').collect(); let b: Vec<&str> = ans.split(' ').collect();
                a.len() == b.len() && a.iter().zip(b.iter()).all(|(p, q)| p == q || (unhx(p).is_nan() && unhx(q).is_nan() && p.len() == 16 && q.len() == 16)) };
            if !nan_same { rep.finding("model", &["C05", "C06"], "eval-differs", lab.clone(), format!("impl: {} | model: {}", imp, ans)); }
        }
    }
    for l in labels.iter().rev().take(4) { rep.sample(l.clone()); }
    rep
}

// ---------------------------------------------------------------------------------------
// stream `lists`

fn fmt_f(r: &mut Rng, v: f64) -> String {
    match r.below(3) { 0 => format!("{:?}", v), 1 => format!("{:e}", v), _ => format!("{}", v) }
}

fn gen_num(r: &mut Rng) -> (String, f64) {
    match r.below(10) {
        0 => { let e = *r.pick(&[("4/5", 4.0 / 5.0), ("pi/4", std::f64::consts::PI / 4.0), ("-1e-3", -1e-3), ("2*sqrt(2)", 2.0 * 2f64.sqrt()), ("-pi", -std::f64::consts::PI), ("1/3", 1.0 / 3.0), ("e^2", std::f64::consts::E.powf(2.0)), ("(1+2)*3", 9.0), ("sin(1)", 1f64.sin())]); (e.0.to_string(), e.1) }
        1 => { let v = r.range(-1000, 1000) as f64; (format!("{}", v), v) }
        2 => { let v = f64::from_bits(r.next()); if v.is_finite() { (fmt_f(r, v.abs()), v.abs()) } else { ("1".into(), 1.0) } }
        3 => { let v = r.uniform(0.0, 1.0) * 10f64.powi(r.range(-300, 300) as i32); (fmt_f(r, v), v) }
        _ => { let v = r.uniform(0.0, 100.0); (fmt_f(r, v), v) }
    }
}

fn gen_signed(r: &mut Rng) -> (String, f64) {
    let (s, v) = gen_num(r);
    if r.chance(0.4) && !s.starts_with('-') && !s.contains('/') && !s.contains('(') && !s.contains('^') { (format!("-{}", s), -v) } else { (s, v) }
}

fn ws(r: &mut Rng) -> &'static str { if r.chance(0.25) { *r.pick(&[" ", "  ", "\n", "\t", "\u{a0}"]) } else { "" } }

fn pair_text(r: &mut Rng) -> (String, [f64; 2]) {
    let (s1, v1) = gen_signed(r); let (s2, v2) = gen_signed(r);
    (format!("{}[{}{}{},{}{}{}]{}", ws(r), ws(r), s1, ws(r), ws(r), s2, ws(r), ws(r)), [v1, v2])
}

fn bits_pairs(v: &[[f64; 2]]) -> String { v.iter().map(|p| format!("{},{}", hx(p[0]), hx(p[1]))).collect::<Vec<_>>().join(" ") }
fn bits_polys(v: &[Vec<[f64; 2]>]) -> String { v.iter().map(|p| p.iter().map(|q| format!("{},{}", hx(q[0]), hx(q[1]))).collect::<Vec<_>>().join(";")).collect::<Vec<_>>().join(" ") }

fn classify_list(e: &ParsedFuncError) -> String {
    match e { ParsedFuncError::ParsingError(_) => "err parsing".into(), ParsedFuncError::ResidueError(_) => "err residue".into(), o => format!("err other {:?}", o) }
}

fn corrupt(r: &mut Rng, s: &str) -> String {
    let mut cs: Vec<char> = s.chars().collect();
    let pool: Vec<char> = "[],0123456789.-e x".chars().collect();
    for _ in 0..(1 + r.below(2)) {
        if cs.is_empty() { break; }
        let i = r.below(cs.len() as u64) as usize;
        match r.below(3) { 0 => { cs.remove(i); } 1 => { cs.insert(i, *r.pick(&pool)); } _ => { cs[i] = *r.pick(&pool); } }
    }
    cs.into_iter().collect()
}

pub fn run_lists(o: &Opts) -> Report {
    let mut rep = Report::new("lists");
    rep.rule = "lists of 1..50 pairs / polygons of 1..50 vertices of finite doubles printed in shortest round-trip decimal, exponent notation or as small constant expressions, random Unicode whitespace; single/double character deletions, insertions, substitutions of brackets, commas, digits; fixed corpus of structural corruptions; contexts with and without a variable. Non-trivial = distinct text with >= 2 entries or a corruption of one".into();
    let mut r = Rng::new(o.seed ^ 0x1157);
    let mut reqs = vec![]; let mut impls = vec![]; let mut labels = vec![];
    let n = if o.thorough { 6000 } else { 800 };
    let mut seen = std::collections::HashSet::new();
    let mut one = |rep: &mut Report, kind: &str, poly: bool, with_var: bool, text: String, want: Option<String>,
                   reqs: &mut Vec<String>, impls: &mut Vec<String>, labels: &mut Vec<String>| {
        let mut ctx: DefaultContext<f64> = DefaultContext::default();
        if with_var { ctx.add_var("x", 0); }
        let out = catch_unwind(AssertUnwindSafe(|| {
            if poly { compile_polygon_set(&text, &ctx).map(|v| bits_polys(&v)) } else { compile_interval_list(&text, &ctx).map(|v| bits_pairs(&v)) }
        }));
        rep.cases += 1;
        rep.count(&format!("kind:{}", kind));
        let input = format!("{} ctx={} text={:?}", if poly { "polygons" } else { "intervals" }, if with_var { "default+x" } else { "default" }, text);
        if seen.insert(input.clone()) && text.len() > 8 { rep.nontrivial += 1; }
        let wire = match &out {
            Ok(Ok(b)) => format!("ok {}", b),
            Ok(Err(e)) => classify_list(e),
            Err(_) => "panic index".to_string(),
        };
        rep.count(&format!("impl:{}", wire.split(' ').take(2).collect::<Vec<_>>().join("-")));
        if out.is_err() { rep.finding("oracle", &["C18", "C17"], "panic", input.clone(), last_panic()); }
        if let Some(w) = want {
            if wire != format!("ok {}", w) { rep.finding("oracle", &["C18"], "roundtrip-differs", input.clone(), format!("want ok {} got {}", w, wire)); }
        } else if kind == "malformed" {
            if let Ok(Ok(b)) = &out { rep.finding("oracle", &["C18"], "malformed-accepted", input.clone(), b.clone()); }
        }
        reqs.push(format!("{} D{} | {}", if poly { "polygons" } else { "intervals" }, if with_var { " v:78:0" } else { "" }, src_wire(&text)));
        impls.push(wire);
        labels.push(input);
    };
    for i in 0..n {
        let poly = i % 2 == 1;
        if !poly {
            let len = 1 + if i % 7 == 0 { r.below(50) } else { r.below(5) } as usize;
            let ps: Vec<(String, [f64; 2])> = (0..len).map(|_| pair_text(&mut r)).collect();
            let text = ps.iter().map(|p| p.0.clone()).collect::<Vec<_>>().join(",");
            let vals: Vec<[f64; 2]> = ps.iter().map(|p| p.1).collect();
            one(&mut rep, "roundtrip", false, false, text.clone(), Some(bits_pairs(&vals)), &mut reqs, &mut impls, &mut labels);
            let c = corrupt(&mut r, &text);
            one(&mut rep, "corrupt", false, false, c, None, &mut reqs, &mut impls, &mut labels);
        } else {
            let np = 1 + r.below(4) as usize;
            let mut texts = vec![]; let mut vals = vec![];
            for _ in 0..np {
                let len = 1 + if i % 9 == 1 { r.below(50) } else { r.below(6) } as usize;
                let ps: Vec<(String, [f64; 2])> = (0..len).map(|_| pair_text(&mut r)).collect();
                texts.push(format!("{}[{}]{}", ws(&mut r), ps.iter().map(|p| p.0.clone()).collect::<Vec<_>>().join(","), ws(&mut r)));
                vals.push(ps.iter().map(|p| p.1).collect::<Vec<_>>());
            }
            let text = texts.join(",");
            one(&mut rep, "roundtrip", true, false, text.clone(), Some(bits_polys(&vals)), &mut reqs, &mut impls, &mut labels);
            let c = corrupt(&mut r, &text);
            one(&mut rep, "corrupt", true, false, c, None, &mut reqs, &mut impls, &mut labels);
        }
    }
    // structural corpus: every one of these must be rejected
    for (poly, t) in [(false, ""), (false, "[]"), (false, "[1]"), (false, "[1,2,3]"), (false, "[1,2"), (false, "1,2]"), (false, "[1,2],"), (false, ",[1,2]"), (false, "[1,2][3,4]"),
                      (false, "[1,2],,[3,4]"), (false, "[[1,2]]"), (false, "[1,2]]"), (false, "[1;2]"), (false, "[1,2] x"), (false, "[1,]"), (false, "[,2]"), (false, "(1,2)"), (false, "[1,2],[3]"),
                      (true, ""), (true, "[]"), (true, "[[]]"), (true, "[1,2]"), (true, "[[1,2],[3,4]"), (true, "[[1,2],[3,4]]]"), (true, "[[1,2],[3,4]],"), (true, "[[1,2][3,4]]"), (true, "[[1,2],[3,4,5]]"),
                      (true, "[[1,2],[3,4]] [[5,6]]"), (true, "[[1,2],[3,4]],[[5,6]"), (true, "[[1,2],[3,4]];[[5,6]]"), (true, "[[[1,2]]]"), (true, "[[1,2],[3,4]]x")] {
        one(&mut rep, "malformed", poly, false, t.to_string(), None, &mut reqs, &mut impls, &mut labels);
    }
    // a variable in an entry: with a variable-free context it is an unknown name
    for (poly, t) in [(false, "[x,1]"), (false, "[1,2],[3,x]"), (true, "[[x,1],[2,3],[4,5]]"), (false, "[y,1]"), (false, "[sin(x),1]")] {
        one(&mut rep, "malformed", poly, false, t.to_string(), None, &mut reqs, &mut impls, &mut labels);
        // with a context that binds x the entry must still be an error value, never a panic
        one(&mut rep, "var-context", poly, true, t.to_string(), None, &mut reqs, &mut impls, &mut labels);
    }
    // the variable below every kind of node of the expression tree (safe evaluation recurses through all of them)
    for w in ["V**2", "V**-1", "V**0", "(V+1)**3", "sin(V)**2", "-V", "--V", "V+1", "1+V", "1-V", "V*2", "2*V", "2/V", "V/2", "V^2", "2^V", "V^V", "(V)", "((V))", "abs(V)", "exp(ln(V))",
              "pi*V", "V*e", "1 + 2*(3 - V**2)", "sqrt(V**2 + 1)", "2**3 + V", "V**2**1"] {
        let e = w.replace('V', "x");
        for (poly, t) in [(false, format!("[{},1]", e)), (false, format!("[1,{}]", e)), (false, format!("[0,1],[2,{}]", e)), (true, format!("[[0,0],[{},1],[2,3]]", e)), (true, format!("[[0,0],[1,1],[2,{}]]", e))] {
            one(&mut rep, "malformed", poly, false, t.clone(), None, &mut reqs, &mut impls, &mut labels);
            one(&mut rep, "var-context", poly, true, t, None, &mut reqs, &mut impls, &mut labels);
        }
    }
    let answers = run_driver_par(&o.drv, &reqs, o.jobs);
    for ((lab, imp), ans) in labels.iter().zip(impls.iter()).zip(answers.iter()) {
        rep.model_compared += 1;
        if imp != ans { rep.finding("model", &["C18"], "lists-differs", lab.clone(), format!("impl: {} | model: {}", imp, ans)); }
    }
    for l in labels.iter().take(3) { rep.sample(l.clone()); }
    rep
}
