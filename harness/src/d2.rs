//! Stream `disp2d`: 2-D displays through the string API and the closure API
//! (C07, C11, C12, C13 and the 2-D part of C19).
use crate::sym::src_wire;
use crate::util::*;
use cavint::cav2d::display::{gen_display_cav, gen_display_rs, split_strictly_monotone, split_translational, CavDisplay2D, DisplayConfig2D};
use cavint::core::differentiable::AD;
use cavint::core::parsing::{compile_expression, compile_interval_list, DefaultContext};
use cavint::pyo3_wrappers::{display_cav2d, display_cav2d_rs};
use std::panic::{catch_unwind, AssertUnwindSafe};

#[derive(Clone, Debug)]
pub struct Cfg { pub ci: bool, pub xr: usize, pub yr: usize, pub ic: usize, pub mrf: usize, pub mi: usize, pub tol: f64 }

#[derive(Clone, Debug)]
pub struct Case { pub rs: bool, pub f: String, pub c: String, pub iv: String, pub cfg: Cfg, pub kind: &'static str,
    /// polynomial data for the exact oracle: coefficients of f and c (or g), low to high
    pub poly: Option<(Vec<f64>, Vec<f64>)>,
    /// prescribed sign changes of g' (for C11)
    pub roots: Option<Vec<f64>>,
    /// an even-order zero of g' is present (sign tests near it are rounding noise)
    pub saddle: bool,
    /// RS class of C13: distinct turning points of f and g inside the interval
    pub rs_tp: Option<Vec<f64>> }

impl Case {
    pub fn text(&self) -> String {
        format!("{} f={:?} {}={:?} intervals={:?} cfg=({},{},{},{},{},{},{:e})", if self.rs { "display_cav2d_rs" } else { "display_cav2d" },
            self.f, if self.rs { "g" } else { "c" }, self.c, self.iv, self.cfg.ci, self.cfg.xr, self.cfg.yr, self.cfg.ic, self.cfg.mrf, self.cfg.mi, self.cfg.tol)
    }
    pub fn request(&self) -> String {
        format!("api2d {} {} | {} | {} | {} {} {} {} {} {} {}", if self.rs { "rs" } else { "cav" }, src_wire(&self.f), src_wire(&self.c), src_wire(&self.iv),
            if self.cfg.ci { 1 } else { 0 }, self.cfg.xr, self.cfg.yr, self.cfg.ic, self.cfg.mrf, self.cfg.mi, hx(self.cfg.tol))
    }
}

pub fn hl(xs: &[f64]) -> String { format!("{:016x}", xs.iter().fold(HASH0, |h, x| hash_step(h, cbits(*x)))) }

pub fn dump2(d: &CavDisplay2D) -> String {
    let cv: Vec<String> = d.cvs.iter().map(|(i, pts)| format!("{}:{}:{}", i, pts.len(), hl(&pts.iter().flat_map(|p| [p[0], p[1]]).collect::<Vec<_>>()))).collect();
    format!("[{} {} n={} fv={} xv={} gv={} dgv={} integ={} cvs={} {}]", hx(d.a), hx(d.b), d.xv.len(), hl(&d.fv), hl(&d.xv), hl(&d.gv), hl(&d.dgv),
        match d.integ_value { Some((v, e)) => format!("{},{}", hx(v), hx(e)), None => "none".into() }, d.cvs.len(), cv.join(" "))
}

/// message class of an API error string
pub fn err_class(msg: &str) -> String {
    if msg.starts_with("Parsing did not consume") { "err residue".into() }
    else if msg.starts_with("Parameter '") { "err oob".into() }
    else if msg.starts_with("Parsing Error") || msg.starts_with("Parsing Failure") { "err parsing".into() }
    else if msg.starts_with("Root did not converge: Convergency") { "err root conv".into() }
    else if msg.starts_with("Root did not converge: Bracketing") { "err root bracket".into() }
    else if msg.starts_with("Integral did not converge") { "err integ conv".into() }
    else if msg.starts_with("NaN value encountered") { "err integ nan".into() }
    else if msg.starts_with("Overlap found during evaluation of") { "err overlap".into() }
    else if msg.starts_with("Duplicate point found") { "err duplicate".into() }
    else if msg.starts_with("Non finite polygon point") { "err nonfinite".into() }
    else if msg.starts_with("Encountered a polygon with less than 3") { "err nopolygon".into() }
    else if msg.starts_with("Point type could not be derived") { "err nopointtype".into() }
    else { format!("err other {}", msg) }
}

pub enum Out2 { Ok(Vec<CavDisplay2D>), Err(String), Panic(String) }

pub fn run_string_api(c: &Case) -> Out2 {
    let r = catch_unwind(AssertUnwindSafe(|| {
        if c.rs { display_cav2d_rs(c.f.clone(), c.c.clone(), c.iv.clone(), c.cfg.ci, c.cfg.xr, c.cfg.yr, c.cfg.ic, c.cfg.mrf, c.cfg.mi, c.cfg.tol) }
        else { display_cav2d(c.f.clone(), c.c.clone(), c.iv.clone(), c.cfg.ci, c.cfg.xr, c.cfg.yr, c.cfg.ic, c.cfg.mrf, c.cfg.mi, c.cfg.tol) }
    }));
    match r { Ok(Ok(v)) => Out2::Ok(v), Ok(Err(e)) => Out2::Err(format!("{}", e)), Err(_) => Out2::Panic(last_panic()) }
}

/// the closure-level API on the compiled functions, as C19 describes it
pub fn run_closure_api(c: &Case) -> Option<Result<Vec<CavDisplay2D>, String>> {
    let mut fctx: DefaultContext<AD> = DefaultContext::default();
    fctx.add_var("x", 0);
    let fe = compile_expression::<1, AD>(&c.f, &fctx).ok()?;
    let mut cctx: DefaultContext<AD> = DefaultContext::default();
    cctx.add_var(if c.rs { "x" } else { "y" }, 0);
    let ce = compile_expression::<1, AD>(&c.c, &cctx).ok()?;
    let ictx: DefaultContext<f64> = DefaultContext::default();
    let iv = catch_unwind(AssertUnwindSafe(|| compile_interval_list(&c.iv, &ictx))).ok()?.ok()?;
    let cfg = DisplayConfig2D { compute_integ: c.cfg.ci, x_res: c.cfg.xr, y_res: c.cfg.yr, interm_cs: c.cfg.ic, max_rf_iters: c.cfg.mrf, max_int_iters: c.cfg.mi, tol: c.cfg.tol };
    let f = move |x: AD| fe.eval(&[x]);
    let g = move |x: AD| ce.eval(&[x]);
    let r = catch_unwind(AssertUnwindSafe(|| if c.rs { gen_display_rs(&f, &g, iv, cfg) } else { gen_display_cav(&f, &g, iv, cfg) }));
    match r { Ok(Ok(v)) => Some(Ok(v)), Ok(Err(e)) => Some(Err(format!("{}", e))), Err(_) => Some(Err("panic".into())) }
}

// ---------- polynomial helpers (f64 coefficient vectors, low to high)
fn pmul(a: &[f64], b: &[f64]) -> Vec<f64> { let mut r = vec![0.0; a.len() + b.len() - 1]; for (i, x) in a.iter().enumerate() { for (j, y) in b.iter().enumerate() { r[i + j] += x * y; } } r }
fn padd(a: &[f64], b: &[f64]) -> Vec<f64> { let n = a.len().max(b.len()); (0..n).map(|i| a.get(i).unwrap_or(&0.0) + b.get(i).unwrap_or(&0.0)).collect() }
fn pscale(a: &[f64], k: f64) -> Vec<f64> { a.iter().map(|x| x * k).collect() }
fn pderiv(a: &[f64]) -> Vec<f64> { if a.len() <= 1 { vec![0.0] } else { (1..a.len()).map(|i| a[i] * i as f64).collect() } }
fn pint(a: &[f64]) -> Vec<f64> { let mut r = vec![0.0]; for (i, x) in a.iter().enumerate() { r.push(x / (i as f64 + 1.0)); } r }
pub fn peval(a: &[f64], x: f64) -> f64 { a.iter().rev().fold(0.0, |acc, c| acc * x + c) }
fn pcomp(a: &[f64], b: &[f64]) -> Vec<f64> { let mut r = vec![0.0]; for c in a.iter().rev() { r = padd(&pmul(&r, b), &[*c]); } r }
pub fn ptext(a: &[f64], var: &str) -> String {
    let mut s = String::new();
    for (i, c) in a.iter().enumerate() {
        if *c == 0.0 && a.len() > 1 { continue; }
        let term = match i { 0 => format!("{:?}", c.abs()), 1 => format!("{:?}*{}", c.abs(), var), _ => format!("{:?}*{}**{}", c.abs(), var, i) };
        if s.is_empty() { if *c < 0.0 { s.push('-'); } s.push_str(&term); } else { s.push_str(if *c < 0.0 { " - " } else { " + " }); s.push_str(&term); }
    }
    if s.is_empty() { "0".into() } else { s }
}

fn gen_cfg(r: &mut Rng) -> Cfg {
    // the two iteration budgets differ, and the quadrature budget is small whenever the integral is not asked for
    // (and now and then when it is): each budget must reach only the routine it is meant for
    let ci = r.chance(0.85);
    let mi = if !ci || r.chance(0.15) { *r.pick(&[0usize, 1, 5, 10, 25]) } else { *r.pick(&[80usize, 150, 200]) };
    Cfg { ci, xr: *r.pick(&[0usize, 1, 2, 4, 7, 16, 33, 50, 64]), yr: *r.pick(&[0usize, 1, 2, 5, 17, 50]), ic: *r.pick(&[0usize, 1, 2, 3, 8, 40, 64]),
          mrf: *r.pick(&[60usize, 100, 200]), mi, tol: 10f64.powi(r.range(-11, -4) as i32) }
}

fn gen_intervals(r: &mut Rng) -> String {
    let n = if r.chance(0.75) { 1 } else { 1 + r.below(3) as usize };
    // now and then an interval whose end points compare equal ([a,a], [0.0,-0.0]): a legal, empty range
    (0..n).map(|_| { let a = r.dyadic(-3.0, 3.0, 3); let mut b = r.dyadic(-3.0, 3.0, 3); if b == a { b = a + 1.0; } if r.chance(0.04) { b = if a == 0.0 { -0.0 } else { a }; } format!("[{:?}, {:?}]", a, b) }).collect::<Vec<_>>().join(", ")
}

pub fn gen_cases(r: &mut Rng, n: usize) -> Vec<Case> {
    let mut v = vec![];
    let fs = ["x", "x**2 + 1", "x**3 - x", "sin(x) + 2", "exp(x/2)", "2 - x", "cos(2*x) + 3", "x*x*x/4 + x", "ln(x*x + 1) + 1", "1/(1 + x*x) + 1"];
    let cs = ["0", "-y", "y/2 + 5", "0.3*y**2 + 1", "sin(y)/2 + 7", "2*y - 3", "-0.25*y**3", "exp(-y) + 2", "pi"];
    let gs = ["x", "x**3", "2*x + sin(x)", "x**2", "x**3 - 3*x", "exp(x)", "-x", "x + cos(x)/2", "x*x*x + x"];
    for i in 0..n {
        let rs = i % 3 == 2;
        if i % 4 == 0 {
            // polynomial f and c (or g) with dyadic coefficients: exact reference
            let df = 1 + r.below(3) as usize; let dc = 1 + r.below(3) as usize;
            let fp: Vec<f64> = (0..=df).map(|_| r.dyadic(-2.0, 2.0, 2)).collect();
            let cp: Vec<f64> = (0..=dc).map(|_| r.dyadic(-1.0, 1.0, 3)).collect();
            let cfg = gen_cfg(r);
            // now and then an interval no wider than a few tolerances (the integral is still far above the oracle's floor)
            let iv = if r.chance(0.15) { let a = r.dyadic(-3.0, 3.0, 3); let w = cfg.tol.max(1e-7) * *r.pick(&[0.25, 0.5, 1.0, 3.0]) * if r.chance(0.5) { 1.0 } else { -1.0 }; format!("[{:?}, {:?}]", a, a + w) } else { gen_intervals(r) };
            v.push(Case { rs, f: ptext(&fp, "x"), c: ptext(&cp, if rs { "x" } else { "y" }), iv, cfg, kind: "poly", poly: Some((fp, cp)), roots: None, saddle: false, rs_tp: None });
        } else {
            v.push(Case { rs, f: r.pick(&fs).to_string(), c: if rs { r.pick(&gs).to_string() } else { r.pick(&cs).to_string() }, iv: gen_intervals(r), cfg: gen_cfg(r), kind: "smooth", poly: None, roots: None, saddle: false, rs_tp: None });
        }
    }
    v
}

/// C11 family: f = x, c chosen so that g'(x) = s * K * prod (x - r_i) * prod (x - s_j)^2
pub fn gen_root_cases(r: &mut Rng, n: usize) -> Vec<Case> {
    let mut v = vec![];
    for _ in 0..n {
        let xr = *r.pick(&[8usize, 16, 20, 40, 64, 100, 200, 400]);
        let (a, b) = (-2.0, 2.0);
        let h = (b - a) / xr as f64;
        let m = r.below(5) as usize;
        // roots at cell centres (off grid), pairwise >= 2 cells apart, >= 1 cell from the ends
        let mut cells: Vec<usize> = vec![];
        let mut tries = 0;
        while cells.len() < m && tries < 200 { tries += 1; let c = 1 + r.below((xr - 2) as u64) as usize; if cells.iter().all(|d| (*d as i64 - c as i64).abs() >= 3) { cells.push(c); } }
        cells.sort();
        let roots: Vec<f64> = cells.iter().map(|c| a + h * (*c as f64 + if r.chance(0.5) { 0.5 } else { r.uniform(0.2, 0.8) })).collect();
        let mut gp = vec![if r.chance(0.5) { 1.0 } else { -1.0 } * r.uniform(0.5, 2.0)];
        for rt in &roots { gp = pmul(&gp, &[-rt, 1.0]); }
        // optional off-grid even-order zero (saddle): must not create a boundary
        let saddle = if r.chance(0.45) { let s = a + h * (1.5 + r.below((xr - 3) as u64) as f64) + if std::env::var("CAVH_ONGRID").is_ok() { h * 0.5 } else { h * 0.25 }; /* off the grid: saddles on (or within ~1e-8 of) a grid point are the known finding C11/on-grid-saddle */ if roots.iter().all(|q| (q - s).abs() > 2.0 * h) { gp = pmul(&gp, &pmul(&[-s, 1.0], &[-s, 1.0])); Some(s) } else { None } } else { None };
        let has_saddle = saddle.is_some();
        // c'(y) = 1 - g'(y)  (f = x)
        let cprime = padd(&[1.0], &pscale(&gp, -1.0));
        let mut cp = pint(&cprime);
        cp[0] = r.dyadic(-2.0, 2.0, 2);
        let rev = r.chance(0.4);
        let iv = if rev { format!("[{:?}, {:?}]", b, a) } else { format!("[{:?}, {:?}]", a, b) };
        let mut tol = 10f64.powi(r.range(-12, -6) as i32);
        // an even-order zero is only decidable by sampling g' at s +- tol when g' there is above the
        // rounding resolution of g' (~1e-16 x size of the terms of c'); keep the saddle cases resolvable
        if let Some(sd) = saddle {
            let noise = 1e-16 * cprime.iter().enumerate().map(|(i, c)| c.abs() * 2f64.powi(i as i32)).sum::<f64>();
            while tol < 1e-4 && peval(&gp, sd + tol).abs().min(peval(&gp, sd - tol).abs()) < 1e4 * noise { tol *= 10.0; }
        }
        v.push(Case { rs: false, f: "x".into(), c: ptext(&cp, "y"), iv, cfg: Cfg { ci: false, xr, yr: 2, ic: 1, mrf: 200, mi: 100, tol }, kind: "roots", poly: Some((gp.clone(), cprime.clone())),
            roots: Some(if rev { roots.iter().rev().copied().collect() } else { roots }), saddle: has_saddle, rs_tp: None });
    }
    v
}


/// C11, exact on-grid saddle: g'(x) = K (x - s)^2 (x - r) with s a grid point, r the centre of a neighbouring cell and
/// K = +-3*2^j, so that every coefficient of g' and of c(y) = y - G(y) + c0 is a short dyadic number and g'(s) evaluates
/// to exactly 0 (not to rounding noise: that is the known finding). One boundary (at r), the saddle is none.
pub fn gen_exact_saddle_cases(r: &mut Rng, n: usize) -> Vec<Case> {
    let mut v = vec![];
    for _ in 0..n {
        let xr = *r.pick(&[8usize, 16, 32]);
        let (a, b) = (-2.0, 2.0);
        let h = (b - a) / xr as f64;
        let si = 2 + r.below((xr - 4) as u64) as usize;          // saddle on grid point si, away from the ends
        let s = a + h * si as f64;
        let side = if r.chance(0.5) { 1.0 } else { -1.0 };       // the simple root is in the cell right / left of the saddle
        let rt = s + side * h / 2.0;
        let k = 3.0 * 2f64.powi(r.range(-2, 1) as i32) * if r.chance(0.5) { 1.0 } else { -1.0 };
        let gp = pscale(&pmul(&pmul(&[-s, 1.0], &[-s, 1.0]), &[-rt, 1.0]), k);
        if peval(&gp, s) != 0.0 { continue; }
        let cprime = padd(&[1.0], &pscale(&gp, -1.0));
        let mut cp = pint(&cprime);
        cp[0] = r.dyadic(-2.0, 2.0, 2);
        let rev = r.chance(0.5);
        let iv = if rev { format!("[{:?}, {:?}]", b, a) } else { format!("[{:?}, {:?}]", a, b) };
        // as in gen_root_cases: the probes g'(s +- tol) of the saddle test must be above the rounding resolution of g'
        let mut tol = 10f64.powi(r.range(-9, -5) as i32);
        let noise = 1e-16 * cprime.iter().enumerate().map(|(i, c)| c.abs() * 2f64.powi(i as i32)).sum::<f64>();
        while tol < 1e-3 && peval(&gp, s + tol).abs().min(peval(&gp, s - tol).abs()) < 1e4 * noise { tol *= 10.0; }
        if peval(&gp, s + tol).abs().min(peval(&gp, s - tol).abs()) < 1e4 * noise { continue; }
        // the saddle test of the crate also compares g(s + tol) - g(s - tol) = (2/3) K (s - r) tol^3 with zero: that
        // difference must be above the rounding resolution of the values of g (else: the known-finding class)
        let gs = (s - peval(&cp, s)).abs().max(1.0);
        while tol < 1e-2 && (2.0 / 3.0) * k.abs() * (s - rt).abs() * tol * tol * tol < 1e3 * f64::EPSILON * gs { tol *= 10.0; }
        if (2.0 / 3.0) * k.abs() * (s - rt).abs() * tol * tol * tol < 1e3 * f64::EPSILON * gs { continue; }
        v.push(Case { rs: false, f: "x".into(), c: ptext(&cp, "y"), iv, cfg: Cfg { ci: false, xr, yr: 2, ic: 1, mrf: 200, mi: 100, tol }, kind: "roots", poly: Some((gp.clone(), cprime.clone())),
            roots: Some(vec![rt]), saddle: true, rs_tp: None });
    }
    v
}

/// C13 class: f and g polynomials (degree <= 4) with prescribed turning points at cell centres,
/// pairwise >= 3 cells apart and >= 2 cells from the ends, optionally sharing one turning point.
pub fn gen_rs_cases(r: &mut Rng, n: usize) -> Vec<Case> {
    let mut v = vec![];
    for _ in 0..n {
        let xr = *r.pick(&[8usize, 12, 20, 50, 100, 200]);
        // interval lengths from 4 down to 0.02 (short intervals make absolute tolerances bite)
        let w = *r.pick(&[4.0, 4.0, 1.0, 0.3, 0.1, 0.05, 0.02]);
        let mid = if w < 4.0 { r.dyadic(-1.0, 1.0, 3) } else { 0.0 };
        let (a, b) = (mid - w / 2.0, mid + w / 2.0);
        let h = (b - a) / xr as f64;
        let nf = r.below(3) as usize; let ng = r.below(3) as usize;
        let mut cells: Vec<usize> = vec![];
        let mut tries = 0;
        while cells.len() < nf + ng && tries < 400 { tries += 1; if xr < 5 { break; } let c = 2 + r.below((xr - 4) as u64) as usize; if cells.iter().all(|d| (*d as i64 - c as i64).abs() >= 3) { cells.push(c); } }
        if cells.len() < nf + ng { continue; }
        let pts: Vec<f64> = cells.iter().map(|c| a + h * (*c as f64 + 0.5)).collect();
        let (fpts, gpts) = pts.split_at(nf);
        let mut gpts: Vec<f64> = gpts.to_vec();
        // shared turning point
        if nf > 0 && ng > 0 && r.chance(0.45) { gpts[0] = fpts[0]; }
        let mk = |r: &mut Rng, tp: &[f64]| -> Vec<f64> { let mut d = vec![if r.chance(0.5) { 1.0 } else { -1.0 } * r.uniform(0.5, 1.5)]; for t in tp { d = pmul(&d, &[-t, 1.0]); } let mut p = pint(&d); p[0] = r.dyadic(-1.0, 1.0, 2); p };
        let fp = mk(r, fpts); let gp = mk(r, &gpts);
        let mut tps: Vec<f64> = fpts.iter().chain(gpts.iter()).copied().collect();
        tps.sort_by(|x, y| x.partial_cmp(y).unwrap()); tps.dedup();
        let rev = r.chance(0.4);
        if rev { tps.reverse(); }
        let iv = if rev { format!("[{:?}, {:?}]", b, a) } else { format!("[{:?}, {:?}]", a, b) };
        let ci = r.chance(0.5);
        let cfg = Cfg { ci, xr, yr: *r.pick(&[1usize, 2, 7, 50]), ic: *r.pick(&[0usize, 1, 3, 8]), mrf: 200, mi: if ci { 200 } else { *r.pick(&[0usize, 1, 5, 25, 200]) }, tol: 10f64.powi(r.range(-10, if w < 0.5 { -7 } else { -6 }) as i32) };
        v.push(Case { rs: true, f: ptext(&fp, "x"), c: ptext(&gp, "x"), iv, cfg, kind: "rsclass", poly: Some((fp, gp)), roots: None, saddle: false, rs_tp: Some(tps) });
    }
    v
}

/// C19: arbitrary strings and configurations (totality, error classes, model agreement)
pub fn api_any_cases(r: &mut Rng, n: usize) -> Vec<Case> {
    let mut cases = vec![];
    let exprs = ["x", "x^2", "", "(", "x+", "sin", "sin(x", "y", "2x", "x**", "1/0", "ln(0-1)", "0/0", "inf", "nan", "abs(x)", "1/x", "ln(x)", "sqrt(x)", "5", "x**-1", "--x", "x y", "é", "x)", "1e400*x", "tan(x)", "x^x"];
    let ivs = ["[0,1]", "[1,0]", "[0,0]", "", "[0,1", "0,1]", "[0,1],[2,3]", "[0,1],", "[x,1]", "[0,1,2]", "[[0,1]]", "[0,inf]", "[nan,1]", "[-1,1]", "[1e308,-1e308]", "[0,1] junk", "[1/0,2]", "[0,1e-300]"];
    let tols = [0.0, 1e-12, 1e-6, 1.0, f64::NAN, -1.0, f64::INFINITY];
    // long malformed texts (error messages echo the unparsed remainder), with multi-byte characters at
    // every alignment so that a byte-indexed cut of the message would split one
    let long: Vec<String> = (0..6).map(|k| format!("x{}{}", ")".repeat(k), "é".repeat(140))).chain((0..3).map(|k| format!("x + 1 {}{}", "q".repeat(150 + k), "→".repeat(60)))).collect();
    for (k, l) in long.iter().enumerate() {
        let cfg = Cfg { ci: false, xr: 2, yr: 2, ic: 1, mrf: 10, mi: 10, tol: 1e-6 };
        cases.push(Case { rs: k % 2 == 1, f: l.clone(), c: "0".into(), iv: "[0,1]".into(), cfg: cfg.clone(), kind: "api-any", poly: None, roots: None, saddle: false, rs_tp: None });
        cases.push(Case { rs: k % 2 == 0, f: "x".into(), c: l.clone(), iv: "[0,1]".into(), cfg: cfg.clone(), kind: "api-any", poly: None, roots: None, saddle: false, rs_tp: None });
        cases.push(Case { rs: false, f: "x".into(), c: "0".into(), iv: format!("[0,1]{}", l), cfg, kind: "api-any", poly: None, roots: None, saddle: false, rs_tp: None });
    }
    // look-alike operators and very long interval lists
    for (k, e) in ["x⋅x", "x×2", "x÷2", "x·x", "2−x", "(x)⋅(x+1)"].iter().enumerate() {
        let cfg = Cfg { ci: false, xr: 2, yr: 2, ic: 1, mrf: 10, mi: 10, tol: 1e-6 };
        cases.push(Case { rs: k % 2 == 1, f: e.to_string(), c: "0".into(), iv: "[0,1]".into(), cfg: cfg.clone(), kind: "api-any", poly: None, roots: None, saddle: false, rs_tp: None });
        cases.push(Case { rs: false, f: "x".into(), c: e.replace('x', "y"), iv: "[0,1]".into(), cfg: cfg.clone(), kind: "api-any", poly: None, roots: None, saddle: false, rs_tp: None });
        cases.push(Case { rs: true, f: "x".into(), c: "x".into(), iv: format!("[0,{}]", e.replace('x', "2")), cfg, kind: "api-any", poly: None, roots: None, saddle: false, rs_tp: None });
    }
    for (k, m) in [51usize, 128, 129, 130, 257, 1000].iter().enumerate() {
        let iv = (0..*m).map(|j| format!("[{},{}]", j, j + 1)).collect::<Vec<_>>().join(",");
        let cfg = Cfg { ci: k % 2 == 0, xr: 1, yr: 1, ic: 0, mrf: 20, mi: 20, tol: 1e-6 };
        cases.push(Case { rs: k % 2 == 1, f: "x + 1".into(), c: if k % 2 == 1 { "2*x".into() } else { "y/2".into() }, iv, cfg, kind: "api-any", poly: None, roots: None, saddle: false, rs_tp: None });
    }
    for i in 0..n {
        let rs = i % 2 == 1;
        let cfg = Cfg { ci: r.chance(0.6), xr: *r.pick(&[0usize, 1, 3, 10, 64]), yr: *r.pick(&[0usize, 1, 5, 64]), ic: *r.pick(&[0usize, 1, 7, 64]), mrf: *r.pick(&[0usize, 1, 5, 50, 200]), mi: *r.pick(&[0usize, 1, 10, 200]), tol: *r.pick(&tols) };
        cases.push(Case { rs, f: r.pick(&exprs).to_string(), c: r.pick(&exprs).to_string().replace('x', if rs { "x" } else { "y" }), iv: r.pick(&ivs).to_string(), cfg, kind: "api-any", poly: None, roots: None, saddle: false, rs_tp: None });
    }
    cases
}

fn close(a: f64, b: f64, tol: f64) -> bool { a == b || (a - b).abs() <= tol || (a.is_nan() && b.is_nan()) }

fn parse_intervals(iv: &str) -> Vec<[f64; 2]> {
    let ctx: DefaultContext<f64> = DefaultContext::default();
    compile_interval_list(iv, &ctx).unwrap_or_default()
}

/// Oracles on a successful output.
fn judge(c: &Case, ds: &[CavDisplay2D], rep: &mut Report) {
    let input = c.text();
    let ivs = parse_intervals(&c.iv);
    let mut fctx: DefaultContext<AD> = DefaultContext::default(); fctx.add_var("x", 0);
    let fe = match compile_expression::<1, AD>(&c.f, &fctx) { Ok(e) => e, Err(_) => return };
    let mut cctx: DefaultContext<AD> = DefaultContext::default(); cctx.add_var(if c.rs { "x" } else { "y" }, 0);
    let ce = match compile_expression::<1, AD>(&c.c, &cctx) { Ok(e) => e, Err(_) => return };
    let f = |x: f64| fe.eval(&[AD(x, 0.0)]).0;
    let cf = |y: f64| ce.eval(&[AD(y, 0.0)]).0;
    let n_expected = (c.cfg.xr + 1).max(2);
    // assign displays to intervals by chaining
    let mut k = 0usize;
    for iv in &ivs {
        let (a, b) = (iv[0], iv[1]);
        let start = k;
        if k >= ds.len() { rep.finding("oracle", &["C11", "C13"], "missing-pieces", input.clone(), String::new()); return; }
        if a == b {
            // an empty range [a,a]: C11 / C13 speak about intervals with distinct end points; what remains is C12's
            // sample count for every (empty) piece returned for it — one, or several when g' vanishes at a
            let mut m = 0;
            // (when g' vanishes identically the end-point shrink by tol produces slivers [a, a+tol], [a+tol, a])
            while k < ds.len() && (ds[k].a - a).abs() <= 2.0 * c.cfg.tol.abs() && (ds[k].b - a).abs() <= 2.0 * c.cfg.tol.abs() {
                if ds[k].xv.len() != n_expected { rep.finding("oracle", &["C12"], "wrong-sample-count", input.clone(), format!("{} abscissae for x_res {} on the empty range [{:e},{:e}]", ds[k].xv.len(), c.cfg.xr, a, b)); }
                k += 1; m += 1;
            }
            let _ = m;   // (no piece at all is also a legitimate answer for an empty range, e.g. when g is constant)
            continue;
        }
        if ds[k].a.to_bits() != a.to_bits() { rep.finding("oracle", if c.rs { &["C13"] } else { &["C11"] }, "first-piece-not-at-a", input.clone(), format!("{} vs {}", ds[k].a, a)); return; }
        while ds[k].b.to_bits() != b.to_bits() || (k + 1 < ds.len() && ds[k + 1].a.to_bits() == ds[k].b.to_bits() && ds[k].b.to_bits() != b.to_bits()) {
            if k + 1 >= ds.len() { rep.finding("oracle", if c.rs { &["C13"] } else { &["C11"] }, "last-piece-not-at-b", input.clone(), String::new()); return; }
            if ds[k + 1].a.to_bits() != ds[k].b.to_bits() { rep.finding("oracle", if c.rs { &["C13"] } else { &["C11"] }, "pieces-not-contiguous", input.clone(), format!("{} then {}", ds[k].b, ds[k + 1].a)); return; }
            k += 1;
        }
        let pieces = &ds[start..=k];
        k += 1;
        let dir = if b > a { 1.0 } else { -1.0 };
        // ---- C07: integral
        if c.cfg.ci {
            let mut total = 0.0; let mut errsum = 0.0;
            for p in pieces { match p.integ_value { Some((v, e)) => { total += v; errsum += e; } None => rep.finding("oracle", &["C07"], "integ-missing", input.clone(), String::new()) } }
            if let (Some((fp, cp)), true) = (&c.poly, c.kind != "roots") {
                // integrand f * g' with g = x - c(f(x)) (cav) or g = c (rs): exact polynomial antiderivative
                let gprime = if c.rs { pderiv(cp) } else { padd(&[1.0], &pscale(&pmul(&pcomp(&pderiv(cp), fp), &pderiv(fp)), -1.0)) };
                let anti = pint(&pmul(fp, &gprime));
                let exact = peval(&anti, b) - peval(&anti, a);
                let scale = anti.iter().enumerate().map(|(i, c)| c.abs() * a.abs().max(b.abs()).powi(i as i32)).sum::<f64>();
                if !close(total, exact, errsum.abs() + 1e-9 * scale.max(1.0)) {
                    rep.finding("oracle", &["C07"], "total-not-integral", input.clone(), format!("sum {:e} exact {:e} reported err {:e}", total, exact, errsum));
                }
                for p in pieces { if let Some((v, e)) = p.integ_value {
                    let ex = peval(&anti, p.b) - peval(&anti, p.a);
                    if !close(v, ex, e.abs() + 1e-9 * scale.max(1.0)) { rep.finding("oracle", &["C07"], "piece-not-its-integral", input.clone(), format!("piece [{},{}] value {:e} exact {:e}", p.a, p.b, v, ex)); }
                } }
            }
        } else {
            for p in pieces { if p.integ_value.is_some() { rep.finding("oracle", &["C07"], "integ-present-when-off", input.clone(), String::new()); } }
        }
        for p in pieces {
            // ---- no empty / reversed piece
            // (an input interval whose end points compare equal yields its single empty piece)
            if a != b && !((p.b - p.a) * dir > 0.0) { rep.finding("oracle", if c.rs { &["C13"] } else { &["C11"] }, "empty-or-reversed-piece", input.clone(), format!("[{:e},{:e}] in [{:e},{:e}]", p.a, p.b, a, b)); }
            // ---- C12 / C13 sampling geometry
            let props: &[&'static str] = if c.rs { &["C13"] } else { &["C12"] };
            if p.xv.len() != n_expected || p.fv.len() != n_expected || p.gv.len() != n_expected || p.dgv.len() != n_expected { rep.finding("oracle", props, "wrong-vector-length", input.clone(), format!("{} vs {}", p.xv.len(), n_expected)); continue; }
            if p.xv[0].to_bits() != p.a.to_bits() || p.xv[n_expected - 1].to_bits() != p.b.to_bits() { rep.finding("oracle", props, "abscissae-not-end-exact", input.clone(), String::new()); }
            let w = (p.b - p.a).abs().max(p.a.abs()).max(p.b.abs());
            for i in 0..n_expected {
                let want = p.a + (p.b - p.a) * i as f64 / (n_expected - 1) as f64;
                if !close(p.xv[i], want, 8.0 * f64::EPSILON * w) { rep.finding("oracle", props, "abscissae-not-equally-spaced", input.clone(), format!("i={} {:e} vs {:e}", i, p.xv[i], want)); break; }
                if p.fv[i].to_bits() != f(p.xv[i]).to_bits() && !(p.fv[i].is_nan()) { rep.finding("oracle", props, "fv-not-f", input.clone(), format!("i={}", i)); break; }
            }
            // curves
            if p.cvs.len() != c.cfg.ic + 2 { rep.finding("oracle", props, "wrong-curve-count", input.clone(), format!("{} vs {}", p.cvs.len(), c.cfg.ic + 2)); }
            if let (Some(first), Some(last)) = (p.cvs.first(), p.cvs.last()) {
                if first.0 != 0 || last.0 != n_expected - 1 { rep.finding("oracle", props, "curve-indices-ends", input.clone(), format!("{} {}", first.0, last.0)); }
            }
            if p.cvs.windows(2).any(|w| w[0].0 > w[1].0) { rep.finding("oracle", props, "curve-indices-decrease", input.clone(), String::new()); }
            let ny = (c.cfg.yr + 1).max(2);
            for (i, pts) in &p.cvs {
                if *i >= n_expected { rep.finding("oracle", props, "curve-index-out-of-range", input.clone(), String::new()); continue; }
                if pts.len() != ny { rep.finding("oracle", props, "wrong-curve-length", input.clone(), format!("{} vs {}", pts.len(), ny)); continue; }
                let fx = p.fv[*i];
                for (j, pt) in pts.iter().enumerate() {
                    let r = j as f64 / (ny - 1) as f64;
                    if !close(pt[0], r * fx, 8.0 * f64::EPSILON * fx.abs()) { rep.finding("oracle", props, "curve-heights-not-linear", input.clone(), format!("{:e} vs {:e}", pt[0], r * fx)); break; }
                    if !pt[0].is_finite() || !pt[1].is_finite() { if fx.is_finite() && (!c.rs || c.rs_tp.is_some()) { rep.finding("oracle", props, "non-finite-curve-point", input.clone(), format!("curve {} point {}", i, j)); } break; }
                }
                // starts on the x-axis at the reported g-value
                if pts[0][0] != 0.0 && fx.is_finite() { rep.finding("oracle", props, "curve-start-height", input.clone(), format!("{:e}", pts[0][0])); }
                let gscale = p.gv[*i].abs().max(1.0) + p.xv[*i].abs();
                if !close(pts[0][1], p.gv[*i], 16.0 * f64::EPSILON * gscale) { rep.finding("oracle", props, "curve-start-not-at-g", input.clone(), format!("{:e} vs {:e}", pts[0][1], p.gv[*i])); }
                if !c.rs {
                    // ends on the graph of f at (x_i, f(x_i)); all points on one translate of c
                    let c0 = cf(0.0);
                    let cscale = pts.iter().map(|q| cf(q[0]).abs()).fold(gscale + c0.abs(), f64::max);
                    if fx.is_finite() && cscale.is_finite() {
                        if !close(pts[ny - 1][1], p.xv[*i], 64.0 * f64::EPSILON * cscale) { rep.finding("oracle", props, "curve-end-not-on-graph", input.clone(), format!("{:e} vs x_i {:e}", pts[ny - 1][1], p.xv[*i])); }
                        for q in pts { if !close(q[1] - (cf(q[0]) - c0), p.gv[*i], 64.0 * f64::EPSILON * cscale) { rep.finding("oracle", props, "curve-not-a-translate-of-c", input.clone(), String::new()); break; } }
                    }
                }
            }
            if !c.rs {
                // gv = x - c(f(x)) + c(0), dgv = its derivative
                let c0 = cf(0.0);
                for i in 0..n_expected {
                    let want = p.xv[i] - cf(p.fv[i]) + c0;
                    let sc = p.xv[i].abs() + cf(p.fv[i]).abs() + c0.abs();
                    if sc.is_finite() && !close(p.gv[i], want, 16.0 * f64::EPSILON * sc) { rep.finding("oracle", &["C12"], "gv-not-g", input.clone(), format!("i={} {:e} vs {:e}", i, p.gv[i], want)); break; }
                }
            } else {
                // gv - g(x) constant on the piece; dgv = g'
                let diffs: Vec<f64> = (0..n_expected).map(|i| p.gv[i] - cf(p.xv[i])).collect();
                let sc = p.gv.iter().fold(1.0f64, |m, v| m.max(v.abs()));
                if diffs.iter().all(|d| d.is_finite()) && diffs.iter().any(|d| !close(*d, diffs[0], 64.0 * f64::EPSILON * sc)) { rep.finding("oracle", &["C13"], "gv-not-g-plus-constant", input.clone(), String::new()); }
                for i in 0..n_expected { let d = ce.eval(&[AD(p.xv[i], 1.0)]).1; if d.to_bits() != p.dgv[i].to_bits() && !d.is_nan() { rep.finding("oracle", &["C13"], "dgv-not-gprime", input.clone(), format!("i={}", i)); break; } }
                // f and g strictly monotone on the piece (sampled)
                let mono = |v: &[f64]| v.windows(2).all(|w| w[1] > w[0]) || v.windows(2).all(|w| w[1] < w[0]);
                let gs: Vec<f64> = p.xv.iter().map(|x| cf(*x)).collect();
                if n_expected >= 3 && c.kind == "poly" && (!mono(&p.fv) || !mono(&gs)) { rep.count("rs:non-monotone-sampled-piece"); }
            }
        }
        // ---- C11: prescribed sign changes
        if let Some(roots) = &c.roots {
            if pieces.len() != roots.len() + 1 { rep.finding("oracle", &["C11"], "wrong-number-of-pieces", input.clone(), format!("{} pieces for {} sign changes {:?}; boundaries {:?}", pieces.len(), roots.len(), roots, pieces.iter().map(|p| p.b).collect::<Vec<_>>())); }
            else {
                for (p, rt) in pieces.iter().zip(roots.iter()) {
                    // rounding of g' (size of the terms of c') over the slope of g' at the root
                    let cond = match &c.poly { Some((gp, cpr)) if c.kind == "roots" => {
                        let noise = 64.0 * f64::EPSILON * cpr.iter().enumerate().map(|(i, q)| q.abs() * rt.abs().powi(i as i32)).sum::<f64>();
                        noise / peval(&pderiv(gp), *rt).abs().max(1e-300) } _ => 0.0 };
                    if (p.b - rt).abs() > c.cfg.tol + 4.0 * f64::EPSILON * rt.abs() + cond { rep.finding("oracle", &["C11"], "boundary-not-within-tol", input.clone(), format!("boundary {:e} root {:e} tol {:e}", p.b, rt, c.cfg.tol)); }
                }
                for p in pieces.iter().filter(|_| !c.saddle) {
                    let inner = &p.dgv[1..p.dgv.len() - 1];
                    if !(inner.iter().all(|d| *d > 0.0) || inner.iter().all(|d| *d < 0.0)) { rep.finding("oracle", &["C11"], "g-not-monotone-on-piece", input.clone(), format!("[{:e},{:e}]", p.a, p.b)); }
                }
            }
        }
        // ---- C13 class: boundaries at the turning points, monotone pieces, curve end points
        if let Some(tps) = &c.rs_tp {
            if pieces.len() != tps.len() + 1 { rep.finding("oracle", &["C13"], "wrong-number-of-pieces", input.clone(), format!("{} pieces for turning points {:?}; boundaries {:?}", pieces.len(), tps, pieces.iter().map(|p| p.b).collect::<Vec<_>>())); }
            else {
                for (p, t) in pieces.iter().zip(tps.iter()) { if (p.b - t).abs() > 4.0 * c.cfg.tol { rep.finding("oracle", &["C13"], "boundary-not-at-turning-point", input.clone(), format!("{:e} vs {:e}", p.b, t)); } }
                if let Some((fp, gp)) = &c.poly {
                    for p in pieces {
                        let n = p.xv.len();
                        let fs: Vec<f64> = p.xv[1..n - 1].iter().map(|x| peval(&pderiv(fp), *x)).collect();
                        let gs: Vec<f64> = p.xv[1..n - 1].iter().map(|x| peval(&pderiv(gp), *x)).collect();
                        if !(fs.iter().all(|d| *d > 0.0) || fs.iter().all(|d| *d < 0.0)) || !(gs.iter().all(|d| *d > 0.0) || gs.iter().all(|d| *d < 0.0)) { rep.finding("oracle", &["C13"], "piece-not-monotone", input.clone(), format!("[{:e},{:e}]", p.a, p.b)); }
                        // curves attached at interior samples end on the graph of f at (x_i, f(x_i))
                        let lip = 1.0 + p.dgv.iter().fold(0.0f64, |m, d| m.max(d.abs()));
                        let fmin = p.fv.iter().fold(f64::INFINITY, |m, d| m.min(d.abs()));
                        let _ = fmin;
                        for (i, pts) in &p.cvs {
                            if *i == 0 || *i + 1 >= n { continue; }
                            let last = pts[pts.len() - 1];
                            // |f'| bounded away from 0 inside the shrunk piece is needed for the inverse to be tol-accurate
                            let fpi = peval(&pderiv(fp), p.xv[*i]).abs();
                            let slack = 64.0 * c.cfg.tol * lip * (1.0 + 1.0 / fpi.max(1e-3));
                            if !close(last[1], p.xv[*i], slack) { rep.finding("oracle", &["C13"], "curve-end-not-on-graph", input.clone(), format!("curve at i={} ends at x={:e}, x_i={:e}, slack {:e}", i, last[1], p.xv[*i], slack)); }
                        }
                    }
                }
            }
        }
    }
    if k != ds.len() { rep.finding("oracle", if c.rs { &["C13"] } else { &["C11"] }, "extra-pieces", input, format!("{} of {}", k, ds.len())); }
}

pub fn run(o: &Opts) -> Report {
    let mut rep = Report::new("disp2d");
    rep.rule = "string API display_cav2d / display_cav2d_rs on: polynomial f,c|g with dyadic coefficients (exact antiderivative oracle), smooth transcendental f,c,g, the C11 family f=x with g' = +-K prod(x-r_i) prod(x-s_j)^2 (prescribed sign changes, optional off-grid saddle, both directions, x_res 8..400, tol 1e-6..1e-12); intervals in either direction, lists of intervals, resolutions 0..64, interm_cs 0..64 (incl. > x_res); every case also through the closure API (must be bit-identical) and through the Lean model at Float. Non-trivial = the API returned displays; distinct by (strings, intervals, config)".into();
    let mut r = Rng::new(o.seed ^ 0xD2D2);
    let mut cases = gen_cases(&mut r, if o.thorough { 2400 } else { 360 });
    cases.extend(gen_root_cases(&mut r, if o.thorough { 1500 } else { 240 }));
    { let mut r2 = Rng::new(o.seed ^ 0x5ADD1E); cases.extend(gen_exact_saddle_cases(&mut r2, if o.thorough { 600 } else { 120 })); }
    cases.extend(gen_rs_cases(&mut r, if o.thorough { 3000 } else { 500 }));
    // offsets of the c-curve (C12): the same case with c + k
    let extra: Vec<Case> = cases.iter().filter(|c| !c.rs && c.kind != "roots").take(if o.thorough { 300 } else { 60 }).map(|c| { let mut d = c.clone(); d.c = if c.cfg.tol >= 1e-9 && r.chance(0.4) { format!("({}) + {:?}", c.c, c.cfg.tol * *r.pick(&[0.5, 1.0, 0.25])) } else { format!("({}) + {}", c.c, r.pick(&["1", "1000", "pi", "2.5"])) }; d.kind = "offset"; d.poly = None; d }).collect();
    let n_base = cases.len();
    cases.extend(extra.iter().cloned());
    // corpus
    cases.push(Case { rs: false, f: "x^2".into(), c: "-y".into(), iv: "[0, 1]".into(), cfg: Cfg { ci: true, xr: 50, yr: 50, ic: 1, mrf: 100, mi: 100, tol: 1e-9 }, kind: "corpus", poly: None, roots: None, saddle: false, rs_tp: None });
    cases.push(Case { rs: true, f: "x".into(), c: "x**3".into(), iv: "[-1, 1]".into(), cfg: Cfg { ci: true, xr: 50, yr: 50, ic: 1, mrf: 100, mi: 100, tol: 1e-9 }, kind: "corpus", poly: None, roots: None, saddle: false, rs_tp: None });
    // DESIGN E13: g' = x^2 (0.3 - x): a monotone saddle exactly on the grid point 0, next to the sign change at 0.3
    cases.push(Case { rs: false, f: "x".into(), c: ptext(&[0.0, 1.0, 0.0, -0.1, 0.25], "y"), iv: "[-3, 3]".into(), cfg: Cfg { ci: false, xr: 6, yr: 2, ic: 1, mrf: 100, mi: 100, tol: 1e-9 }, kind: "corpus", poly: None, roots: Some(vec![0.3]), saddle: true, rs_tp: None });
    cases.extend(api_any_cases(&mut r, if o.thorough { 4000 } else { 700 }));
    // known finding C11/on-grid-saddle: an even-order zero of g' on a grid point whose neighbourhood is below
    // the rounding resolution of g' (fixed inputs, listed in known_findings.jsonl)
    cases.push(Case { rs: false, f: "x".into(), c: ptext(&pint(&padd(&[1.0], &pscale(&pmul(&pmul(&[-0.5, 1.0], &[-0.5, 1.0]), &[1.25, 1.0]), -1.0))), "y"), iv: "[-2, 2]".into(),
        cfg: Cfg { ci: false, xr: 8, yr: 2, ic: 1, mrf: 200, mi: 100, tol: 1e-9 }, kind: "corpus", poly: None, roots: Some(vec![-1.25]), saddle: true, rs_tp: None });
    // KNOWN FINDING (see known_findings.jsonl): g' = K (x - 1.5)^2 with the double zero on a grid point; the sampled
    // derivative there is rounding noise of either sign, so a boundary is reported although g' never changes sign
    cases.push(Case { rs: false, f: "x".into(), c: "-2.0 + 3.3463508213860687*y - 1.564233880924046*y**2 + 0.3476075290942324*y**3".into(), iv: "[2.0, -2.0]".into(),
        cfg: Cfg { ci: false, xr: 16, yr: 2, ic: 1, mrf: 200, mi: 100, tol: 9.999999999999999e-6 }, kind: "corpus", poly: None, roots: Some(vec![]), saddle: true, rs_tp: None });
    cases.push(Case { rs: false, f: "x*x*x/4 + x".into(), c: "sin(y) + 7".into(), iv: "[-0.375, 1.125]".into(),
        cfg: Cfg { ci: false, xr: 4, yr: 50, ic: 1, mrf: 100, mi: 150, tol: 1e-8 }, kind: "corpus", poly: None, roots: None, saddle: false, rs_tp: None });
    let mut reqs = vec![]; let mut impls = vec![];
    let mut outs: Vec<Option<Vec<CavDisplay2D>>> = vec![];
    let mut seen = std::collections::HashSet::new();
    for c in &cases {
        let out = run_string_api(c);
        rep.cases += 1;
        rep.count(&format!("kind:{}", c.kind));
        let wire = match &out {
            Out2::Ok(ds) => { if seen.insert(c.text()) { rep.nontrivial += 1; } format!("ok {} {}", ds.len(), ds.iter().map(dump2).collect::<Vec<_>>().join(" ")) }
            Out2::Err(m) => err_class(m),
            Out2::Panic(m) => format!("panic {}", m),
        };
        rep.count(&format!("impl:{}", wire.split(' ').take(if wire.starts_with("ok") { 1 } else { 3 }).collect::<Vec<_>>().join("-")));
        if let Out2::Panic(m) = &out { rep.finding("oracle", &["C19"], "panic", c.text(), m.clone()); }
        // an in-class input (prescribed simple roots / turning points, polynomial data, adequate root-finding budget,
        // no integral asked for) must produce displays
        if let (Out2::Err(m), true) = (&out, (c.kind == "roots" || c.kind == "rsclass") && !c.cfg.ci && c.cfg.mrf >= 100) {
            rep.finding("oracle", if c.rs { &["C13"] } else { &["C11"] }, "in-class-input-rejected", c.text(), m.clone());
        }
        if wire == "err parsing" && rep.notes.len() < 3 { rep.notes.push(format!("parse error (generator): {}", c.text())); }
        // C19: identical to the closure-level generator on the compiled functions
        if let Some(cl) = run_closure_api(c) {
            let cw = match &cl { Ok(ds) => format!("ok {} {}", ds.len(), ds.iter().map(dump2).collect::<Vec<_>>().join(" ")), Err(m) => if m == "panic" { "panic".into() } else { err_class(m) } };
            let sw = if wire.starts_with("panic") { "panic".to_string() } else { wire.clone() };
            if cw != sw { rep.finding("oracle", &["C19"], "string-api-differs-from-closure-api", c.text(), format!("string: {} | closure: {}", &sw[..sw.len().min(200)], &cw[..cw.len().min(200)])); }
        }
        if let Out2::Ok(ds) = &out { if c.kind != "api-any" { judge(c, ds, &mut rep); } if rep.samples.len() < 5 { rep.sample(format!("{} -> {} displays", c.text(), ds.len())); } }
        outs.push(match out { Out2::Ok(ds) => Some(ds), _ => None });
        reqs.push(c.request());
        impls.push(wire);
    }
    // C12 offset invariance: compare each offset case with its base
    for (j, e) in extra.iter().enumerate() {
        let base_idx = cases.iter().take(n_base).position(|c| !c.rs && c.kind != "roots" && e.c.starts_with(&format!("({}) + ", c.c)) && c.f == e.f && c.iv == e.iv && c.cfg.xr == e.cfg.xr && c.cfg.tol == e.cfg.tol && c.cfg.ic == e.cfg.ic && c.cfg.yr == e.cfg.yr);
        if let (Some(bi), Some(Some(eo))) = (base_idx, outs.get(n_base + j)) {
            if let Some(Some(bo)) = outs.get(bi) {
                if bo.len() == eo.len() {
                    for (p, q) in bo.iter().zip(eo.iter()) {
                        // offsets no larger than the tolerance are compared at rounding level (the shift they must not cause is
                        // the offset itself, >= 2.5e-10); large offsets carry their own rounding
                        let kval: f64 = e.c.rsplit(" + ").next().and_then(|t| t.parse().ok()).unwrap_or(1000.0);
                        let gmax = p.gv.iter().fold(0.0f64, |m, v| m.max(v.abs()));
                        let sc = if kval.abs() < 0.1 { 1e-3 * (1.0 + gmax) } else { 1e3 + gmax };
                        let same = p.xv.len() == q.xv.len() && p.gv.iter().zip(q.gv.iter()).all(|(a, b)| close(*a, *b, 1e-9 * sc)) && close(p.a, q.a, 1e-6) && close(p.b, q.b, 1e-6);
                        if !same { rep.finding("oracle", &["C12"], "offset-changes-output", e.text(), String::new()); break; }
                    }
                } else { rep.count("offset:piece-count-differs"); }
            }
        }
    }
    let answers = run_driver_par(&o.drv, &reqs, o.jobs);
    for ((c, imp), ans) in cases.iter().zip(impls.iter()).zip(answers.iter()) {
        rep.model_compared += 1;
        let imp_c = if imp.starts_with("panic") { "panic".to_string() } else { imp.clone() };
        let ans_c = if ans.starts_with("panic") { "panic".to_string() } else { ans.clone() };
        if imp_c != ans_c {
            if let Ok(p) = std::env::var("CAVH_DUMP") { use std::io::Write; if let Ok(mut f) = std::fs::OpenOptions::new().create(true).append(true).open(p) { let _ = writeln!(f, "{}\nIMPL {}\nMODEL {}\n", c.request(), imp, ans); } }
            rep.finding("model", &["C07", "C11", "C12", "C13", "C19"], "disp2d-differs", c.text(), format!("impl: {} | model: {}", &imp[..imp.len().min(400)], &ans[..ans.len().min(400)]));
        }
    }
    // direct split routines on explicit grids (C11, C13)
    let mut sreqs = vec![]; let mut simpls = vec![]; let mut slabels = vec![];
    for _ in 0..(if o.thorough { 2000 } else { 300 }) {
        let fs = ["x^3 - x", "sin(3*x)", "x**2", "x**4 - x**2", "x**3", "(x-0.3)**3 + x", "cos(x) + x/2", "x*x*(0.3 - x)", "abs(x)", "1/x", "ln(x)"];
        let f = r.pick(&fs).to_string();
        let n = 2 + r.below(40) as usize;
        let a = r.dyadic(-3.0, 3.0, 2); let mut b = r.dyadic(-3.0, 3.0, 2); if a == b { b += 1.0; }
        let xv: Vec<f64> = (0..n).map(|i| a + (b - a) * i as f64 / (n - 1) as f64).collect();
        let tol = 10f64.powi(r.range(-12, -6) as i32);
        let mut ctx: DefaultContext<AD> = DefaultContext::default(); ctx.add_var("x", 0);
        let fe = compile_expression::<1, AD>(&f, &ctx).unwrap();
        let fcl = move |x: AD| fe.eval(&[x]);
        let out = catch_unwind(AssertUnwindSafe(|| split_strictly_monotone(&fcl, &xv, tol, 100)));
        let wire = match out { Ok(Ok(v)) => format!("ok {}", v.iter().map(|x| hx(*x)).collect::<Vec<_>>().join(" ")), Ok(Err(e)) => err_class(&format!("{}", e)), Err(_) => "panic".into() };
        rep.cases += 1; rep.count("kind:split");
        sreqs.push(format!("split {} | {} | {} 100", src_wire(&f), xv.iter().map(|x| hx(*x)).collect::<Vec<_>>().join(" "), hx(tol)));
        simpls.push(wire.trim_end().to_string());
        slabels.push(format!("split_strictly_monotone f={:?} grid=[{},{}]x{} tol={:e}", f, a, b, n, tol));
        // translational
        let g = r.pick(&fs).to_string();
        let ge = compile_expression::<1, AD>(&g, &ctx).unwrap();
        let fe2 = compile_expression::<1, AD>(&f, &ctx).unwrap();
        let f2 = move |x: AD| fe2.eval(&[x]); let g2 = move |x: AD| ge.eval(&[x]);
        let out = catch_unwind(AssertUnwindSafe(|| split_translational(&f2, &g2, &xv, tol, 100)));
        let wire = match out { Ok(Ok(v)) => format!("ok {}", v.iter().map(|x| hx(*x)).collect::<Vec<_>>().join(" ")), Ok(Err(e)) => err_class(&format!("{}", e)), Err(_) => "panic".into() };
        rep.cases += 1; rep.count("kind:splitt");
        sreqs.push(format!("splitt {} | {} | {} | {} 100", src_wire(&f), src_wire(&g), xv.iter().map(|x| hx(*x)).collect::<Vec<_>>().join(" "), hx(tol)));
        simpls.push(wire.trim_end().to_string());
        slabels.push(format!("split_translational f={:?} g={:?} grid=[{},{}]x{} tol={:e}", f, g, a, b, n, tol));
    }
    let sans = run_driver_par(&o.drv, &sreqs, o.jobs);
    for ((lab, imp), ans) in slabels.iter().zip(simpls.iter()).zip(sans.iter()) {
        rep.model_compared += 1;
        if imp != ans.trim_end() { rep.finding("model", &["C11", "C13"], "split-differs", lab.clone(), format!("impl: {} | model: {}", imp, ans)); }
    }
    rep
}
