//! Stream `quad1d`: 1-D adaptive Gauss–Kronrod (C01, C02, C10).
//!
//! For every case the real `gauss_kronrod_quadrature` runs in-process with a logging
//! integrand; the identical call (bounds, tolerance, budget, and the logged `x ↦ f(x)`
//! table) goes to the Lean model at `Float`, and result bits + abscissa sequence are
//! compared.  Independent oracles then judge the implementation's own answer.
use crate::util::*;
use cavint::core::integrate::gauss_kronrod_quadrature;
use cavint::errors::IntegError;
use std::cell::RefCell;
use std::panic::{catch_unwind, AssertUnwindSafe};

/// Integrand families. `smooth` ones belong to the resolved class of C01.
#[derive(Clone, Debug)]
pub enum Fun {
    Poly(Vec<f64>),                 // coefficients, low to high, about centre c
    PolyC(Vec<f64>, f64),           // polynomial in (x - c)
    Trig { a: f64, k: f64, p: f64, cos: bool },
    Exp { a: f64, k: f64 },
    PolyTrig { c: Vec<f64>, k: f64, p: f64 },
    ExpTrig { k1: f64, k2: f64, p: f64 },
    Kink { c: f64 },                // |x - c|
    SqrtKink { c: f64 },            // sqrt|x - c|
    Jump { c: f64, lo: f64, hi: f64 },
    Pole { c: f64 },                // 1/(x - c)
    LnNeg,                          // ln(x): NaN for x < 0
    InfAt { c: f64 },               // +inf for x > c
    NanAt { c: f64 },               // NaN for x > c else 1
    SignAlt { k: f64 },             // sign(sin(kx)) * 1e6
    Huge { k: f64 },                // 1e300 * sin(kx)
    Zero,
    /// sin(x)/x: 0/0 = NaN exactly at x = 0
    Sinc,
    /// NaN exactly at the abscissa `c` (chosen to be one node of one panel), 1 + x^2 elsewhere
    NanPoint { c: f64 },
}

impl Fun {
    pub fn eval(&self, x: f64) -> f64 {
        match self {
            Fun::Poly(c) => c.iter().rev().fold(0.0, |acc, &ci| acc * x + ci),
            Fun::PolyC(c, c0) => { let t = x - c0; c.iter().rev().fold(0.0, |acc, &ci| acc * t + ci) }
            Fun::Trig { a, k, p, cos } => if *cos { a * (k * x + p).cos() } else { a * (k * x + p).sin() },
            Fun::Exp { a, k } => a * (k * x).exp(),
            Fun::PolyTrig { c, k, p } => c.iter().rev().fold(0.0, |acc, &ci| acc * x + ci) * (k * x + p).sin(),
            Fun::ExpTrig { k1, k2, p } => (k1 * x).exp() * (k2 * x + p).cos(),
            Fun::Kink { c } => (x - c).abs(),
            Fun::SqrtKink { c } => (x - c).abs().sqrt(),
            Fun::Jump { c, lo, hi } => if x < *c { *lo } else { *hi },
            Fun::Pole { c } => 1.0 / (x - c),
            Fun::LnNeg => x.ln(),
            Fun::InfAt { c } => if x > *c { f64::INFINITY } else { 1.0 },
            Fun::NanAt { c } => if x > *c { f64::NAN } else { 1.0 },
            Fun::SignAlt { k } => if (k * x).sin() >= 0.0 { 1e6 } else { -1e6 },
            Fun::Huge { k } => 1e300 * (k * x).sin(),
            Fun::Zero => 0.0,
            Fun::Sinc => x.sin() / x,
            Fun::NanPoint { c } => if x.to_bits() == c.to_bits() { f64::NAN } else { 1.0 + x * x },
        }
    }
    pub fn smooth(&self) -> bool {
        matches!(self, Fun::Poly(_) | Fun::PolyC(..) | Fun::Trig { .. } | Fun::Exp { .. } | Fun::PolyTrig { .. } | Fun::ExpTrig { .. })
    }
    pub fn family(&self) -> &'static str {
        match self {
            Fun::Poly(_) => "poly", Fun::PolyC(..) => "polyc", Fun::Trig { .. } => "trig", Fun::Exp { .. } => "exp",
            Fun::PolyTrig { .. } => "polytrig", Fun::ExpTrig { .. } => "exptrig", Fun::Kink { .. } => "kink",
            Fun::SqrtKink { .. } => "sqrtkink", Fun::Jump { .. } => "jump", Fun::Pole { .. } => "pole",
            Fun::LnNeg => "ln", Fun::InfAt { .. } => "inf", Fun::NanAt { .. } => "nan", Fun::SignAlt { .. } => "signalt",
            Fun::Huge { .. } => "huge", Fun::Zero => "zero", Fun::Sinc => "sinc", Fun::NanPoint { .. } => "nanpoint",
        }
    }
}

#[derive(Clone, Debug)]
pub struct Case {
    pub f: Fun,
    pub a: f64,
    pub b: f64,
    pub tol: f64,
    pub max_iter: Option<usize>,
}

impl Case {
    pub fn text(&self) -> String {
        format!("quad1d f={:?} a={:e} b={:e} tol={:e} max_iter={:?}", self.f, self.a, self.b, self.tol, self.max_iter)
    }
}

pub enum Outcome {
    Ok(f64, f64),
    Conv,
    Nan,
    Panic(String),
}

impl Outcome {
    pub fn wire(&self) -> String {
        match self {
            Outcome::Ok(v, e) => format!("ok {} {}", hx(*v), hx(*e)),
            Outcome::Conv => "err conv".into(),
            Outcome::Nan => "err nan".into(),
            Outcome::Panic(m) => format!("panic {}", m),
        }
    }
}

pub fn run_impl(c: &Case) -> (Outcome, Vec<(f64, f64)>) {
    let log: RefCell<Vec<(f64, f64)>> = RefCell::new(Vec::new());
    let r = catch_unwind(AssertUnwindSafe(|| {
        gauss_kronrod_quadrature(
            |x| { let y = c.f.eval(x); log.borrow_mut().push((x, y)); y },
            c.a, c.b, c.tol, c.max_iter)
    }));
    let out = match r {
        Ok(Ok((v, e))) => Outcome::Ok(v, e),
        Ok(Err(IntegError::ConvergenceError)) => Outcome::Conv,
        Ok(Err(IntegError::NaNError)) => Outcome::Nan,
        Err(_) => Outcome::Panic(last_panic()),
    };
    (out, log.into_inner())
}

pub fn trace_hash(log: &[(f64, f64)]) -> u64 {
    log.iter().fold(HASH0, |h, (x, _)| hash_step(h, cbits(*x)))
}

/// QUADPACK qk21 constants (independent source for the C02 oracle): positive abscissae of the
/// 21-point Kronrod rule in decreasing order, Kronrod weights, and the 10-point Gauss weights.
const XGK: [f64; 11] = [
    0.995657163025808080735527280689003, 0.973906528517171720077964012084452,
    0.930157491355708226001207180059508, 0.865063366688984510732096688423493,
    0.780817726586416897063717578345042, 0.679409568299024406234327365114874,
    0.562757134668604683339000099272694, 0.433395394129247190799265943165784,
    0.294392862701460198131126603103866, 0.148874338981631210884826001129720,
    0.0];
const WGK: [f64; 11] = [
    0.011694638867371874278064396062192, 0.032558162307964727478818972459390,
    0.054755896574351996031381300244580, 0.075039674810919952767043140916190,
    0.093125454583697605535065465083366, 0.109387158802297641899210590325805,
    0.123491976262065851077958109585166, 0.134709217311473325928054001771707,
    0.142775938577060080797094273138717, 0.147739104901338491374841515972068,
    0.149445554002916905664936468389821];
const WG: [f64; 5] = [
    0.066671344308688137593568809893332, 0.149451349150580593145776339657697,
    0.219086362515982043995534934228163, 0.269266719309996355091226921569469,
    0.295524224714752870173815619188769];

/// Unit nodes in the order the routine evaluates them (G10 pairs, then K21 centre and pairs).
fn unit_order() -> Vec<f64> {
    let mut v = vec![];
    for j in [9usize, 7, 5, 3, 1] { v.push(-XGK[j]); v.push(XGK[j]); }
    v.push(0.0);
    for j in (0..10).rev() { v.push(-XGK[j]); v.push(XGK[j]); }
    v
}

/// K21 and |G10-K21| of one panel from its 31 logged values (QUADPACK constants).
fn panel_from_values(a: f64, b: f64, vals: &[f64]) -> (f64, f64) {
    // vals[0..10]: G10 pairs in order j = 9,7,5,3,1 ; vals[10]: centre ; vals[11..31]: K21 pairs j = 9..0
    let mut g = 0.0;
    for (i, jw) in [4usize, 3, 2, 1, 0].iter().enumerate() {
        g += WG[*jw] * (vals[2 * i] + vals[2 * i + 1]);
    }
    let mut k = WGK[10] * vals[10];
    for (i, j) in (0..10).rev().enumerate() {
        k += WGK[j] * (vals[11 + 2 * i] + vals[12 + 2 * i]);
    }
    let h = (b - a) / 2.0;
    (h * k, (h * g - h * k).abs())
}

pub struct Tiling {
    /// slack for panels one ulp wide that bisect onto themselves (BTreeSet drops them)
    pub slack: f64,
    pub panels: Vec<(f64, f64)>,
    pub k_sum: f64,
    pub e_sum: f64,
    pub abs_sum: f64,
}

/// Rebuild the panel history from the callback trace alone: the first 31 abscissae must be the
/// nodes of [a,b]; each further group of 62 must be the nodes of the two halves of one current
/// panel.  Returns None (with a reason) if the trace is not of that form.
pub fn reconstruct(a: f64, b: f64, log: &[(f64, f64)]) -> Result<Tiling, String> {
    if log.len() % 31 != 0 { return Err(format!("trace length {} not a multiple of 31", log.len())); }
    let unit = unit_order();
    let nodes = |a: f64, b: f64| -> Vec<f64> { unit.iter().map(|x| x * (b - a) / 2.0 + (a + b) / 2.0).collect() };
    // bit-exact: the harness maps the QUADPACK unit nodes with the same affine formula
    let close = |xs: &[f64], grp: &[(f64, f64)], _w: f64| -> bool {
        xs.iter().zip(grp.iter()).all(|(x, (lx, _))| x.to_bits() == lx.to_bits() || (*x == 0.0 && *lx == 0.0))
    };
    if log.is_empty() { return Err("empty trace".into()); }
    if !close(&nodes(a, b), &log[0..31], (b - a).abs().max(a.abs()).max(b.abs())) {
        return Err("first group is not the node set of [a,b]".into());
    }
    let mut panels: Vec<(f64, f64, usize)> = vec![(a, b, 0)]; // (a, b, offset of its values)
    let mut slack = 0.0f64;
    let mut off = 31;
    while off < log.len() {
        if off + 62 > log.len() { return Err("odd number of child panels".into()); }
        // which current panel is being bisected?
        let mut found = None;
        for (i, &(pa, pb, _)) in panels.iter().enumerate() {
            let m = (pa + pb) / 2.0;
            let w = (pb - pa).abs().max(pa.abs()).max(pb.abs());
            if close(&nodes(pa, m), &log[off..off + 31], w) && close(&nodes(m, pb), &log[off + 31..off + 62], w) {
                found = Some(i);
                break;
            }
        }
        match found {
            None => return Err(format!("group at {} is not the bisection of any current panel", off)),
            Some(i) => {
                let (pa, pb, po) = panels.remove(i);
                let m = (pa + pb) / 2.0;
                if m == pa || m == pb {
                    // one-ulp panel: a child equals the parent, the set keeps neither
                    let vals: Vec<f64> = log[po..po + 31].iter().map(|p| p.1).collect();
                    let (k, e) = panel_from_values(pa, pb, &vals);
                    slack += k.abs() + e.abs();
                } else {
                    panels.push((pa, m, off));
                    panels.push((m, pb, off + 31));
                }
            }
        }
        off += 62;
    }
    // chain check: sort along direction and verify contiguity (bit-exact end points)
    let dir = if b >= a { 1.0 } else { -1.0 };
    let mut ps: Vec<(f64, f64, usize)> = panels.clone();
    ps.sort_by(|p, q| (dir * p.0).partial_cmp(&(dir * q.0)).unwrap_or(std::cmp::Ordering::Equal)
        .then((dir * p.1).partial_cmp(&(dir * q.1)).unwrap_or(std::cmp::Ordering::Equal)));
    // (degenerate zero-width panels may sit anywhere among equal keys; only check non-degenerate chain)
    let nd: Vec<&(f64, f64, usize)> = ps.iter().filter(|p| p.0 != p.1).collect();
    if slack > 0.0 { /* a one-ulp gap is expected */ } else if let (Some(first), Some(last)) = (nd.first(), nd.last()) {
        if first.0.to_bits() != a.to_bits() || last.1.to_bits() != b.to_bits() { return Err("tiling does not span [a,b]".into()); }
        for w in nd.windows(2) {
            if w[0].1.to_bits() != w[1].0.to_bits() { return Err("gap or overlap between panels".into()); }
        }
    }
    let mut k_sum = 0.0;
    let mut e_sum = 0.0;
    let mut abs_sum = 0.0;
    for &(pa, pb, o) in &panels {
        let vals: Vec<f64> = log[o..o + 31].iter().map(|p| p.1).collect();
        let (k, e) = panel_from_values(pa, pb, &vals);
        k_sum += k;
        e_sum += e;
        abs_sum += ((pb - pa) / 2.0).abs() * vals[10..].iter().map(|v| v.abs()).sum::<f64>() * 0.15;
    }
    Ok(Tiling { slack, panels: panels.iter().map(|p| (p.0, p.1)).collect(), k_sum, e_sum, abs_sum })
}

fn gen_fun(r: &mut Rng, a: f64, b: f64) -> Fun {
    let w = (b - a).abs().max(1e-3);
    let mid = (a + b) / 2.0;
    match r.below(100) {
        0..=24 => {
            // polynomial about the interval centre, dyadic coefficients, degree 0..33
            let deg = r.below(34) as usize;
            let scale = 2.0 / w;
            let mut c = vec![];
            let mut s = 1.0;
            for _ in 0..=deg { c.push(r.dyadic(-4.0, 4.0, 6) * s); s *= scale; }
            Fun::PolyC(c, mid)
        }
        25..=32 => {
            let deg = r.below(8) as usize;
            Fun::Poly((0..=deg).map(|_| r.dyadic(-8.0, 8.0, 4)).collect())
        }
        33..=44 => Fun::Trig { a: r.dyadic(-4.0, 4.0, 4), k: r.uniform(-8.0, 8.0) / w, p: r.uniform(-3.2, 3.2), cos: r.chance(0.5) },
        45..=52 => Fun::Exp { a: r.dyadic(-4.0, 4.0, 4), k: r.uniform(-8.0, 8.0) / w.max(a.abs()).max(b.abs()) },
        53..=58 => Fun::PolyTrig { c: (0..=r.below(4)).map(|_| r.dyadic(-2.0, 2.0, 4)).collect(), k: r.uniform(-6.0, 6.0) / w, p: r.uniform(-3.2, 3.2) },
        59..=62 => Fun::ExpTrig { k1: r.uniform(-3.0, 3.0) / w.max(a.abs()).max(b.abs()), k2: r.uniform(-6.0, 6.0) / w, p: r.uniform(-3.2, 3.2) },
        63..=67 => Fun::Kink { c: r.uniform(a.min(b), a.max(b)) },
        68..=72 => Fun::SqrtKink { c: r.uniform(a.min(b), a.max(b)) },
        73..=77 => Fun::Jump { c: r.uniform(a.min(b), a.max(b)), lo: r.dyadic(-4.0, 4.0, 3), hi: r.dyadic(-4.0, 4.0, 3) },
        78..=81 => Fun::Pole { c: r.uniform(a.min(b), a.max(b)) },
        82..=84 => Fun::LnNeg,
        85..=87 => Fun::InfAt { c: r.uniform(a.min(b), a.max(b)) },
        88..=91 => Fun::NanAt { c: r.uniform(a.min(b) - 0.1 * w, a.max(b)) },
        92..=94 => Fun::SignAlt { k: r.uniform(1.0, 200.0) / w },
        95..=97 => Fun::Huge { k: r.uniform(0.5, 8.0) / w },
        _ => Fun::Zero,
    }
}

/// abscissae of one panel in evaluation order (QUADPACK constants, same affine formula as the crate)
fn panel_nodes(a: f64, b: f64) -> Vec<f64> { unit_order().iter().map(|x| x * (b - a) / 2.0 + (a + b) / 2.0).collect() }

/// cases aimed at rarely taken paths: a NaN at exactly one node (Gauss-only / Kronrod-only / centre) of the
/// first panel or of a child panel; sinc on symmetric lattice bounds; bounds a few ulps apart
fn gen_rare(r: &mut Rng) -> Case {
    match r.below(3) {
        0 => {
            let a = r.dyadic(-4.0, 4.0, 3); let mut b = r.dyadic(-4.0, 4.0, 3); if a == b { b = a + 1.0; }
            // descend 0..3 levels of bisection, then pick any of the 31 nodes of that panel
            let (mut pa, mut pb) = (a, b);
            for _ in 0..r.below(4) { let m = (pa + pb) / 2.0; if r.chance(0.5) { pb = m } else { pa = m } }
            let nodes = panel_nodes(pa, pb);
            let c = nodes[r.below(31) as usize];
            Case { f: Fun::NanPoint { c }, a, b, tol: *r.pick(&[1e-3, 1e-6, 1e-9, 1e-12, 1.0, f64::INFINITY]), max_iter: Some(*r.pick(&[1usize, 2, 5, 20, 100])) }
        }
        1 => {
            let k = r.range(1, 6) as f64;
            let (a, b) = if r.chance(0.5) { (-k, k) } else { (-k, 3.0 * k) };
            let (a, b) = if r.chance(0.3) { (b, a) } else { (a, b) };
            Case { f: Fun::Sinc, a, b, tol: *r.pick(&[1e-3, 1e-6, 1e-9, 1e-12]), max_iter: Some(*r.pick(&[1usize, 3, 10, 50, 200])) }
        }
        _ => {
            let a: f64 = *r.pick(&[0.0f64, -0.0, 1.0, -1.0, 5e-324, 1e-300, 123.456, 1e300]);
            let ulps = r.range(1, 4) as u64;
            let b = if a >= 0.0 { f64::from_bits((a + 0.0).to_bits() + ulps) } else { f64::from_bits(a.to_bits() + ulps) };
            let (a, b) = if r.chance(0.4) { (b, a) } else { (a, b) };
            let f = match r.below(3) { 0 => Fun::Zero, 1 => Fun::Poly(vec![1.0]), _ => Fun::Kink { c: a } };
            Case { f, a, b, tol: *r.pick(&[0.0, -1.0, f64::NAN, 1e-300]), max_iter: Some(*r.pick(&[3usize, 5, 10, 40])) }
        }
    }
}

pub fn gen_case(r: &mut Rng) -> Case {
    if r.below(8) == 0 { return gen_rare(r); }
    let special = [f64::INFINITY, f64::NEG_INFINITY, f64::NAN, 0.0, -0.0, 1e300, -1e300, 5e-324];
    let (a, b) = match r.below(20) {
        0 => { let a = r.dyadic(-1000.0, 1000.0, 4); (a, a) }
        1 => (*r.pick(&special), r.dyadic(-10.0, 10.0, 4)),
        2 => (r.dyadic(-10.0, 10.0, 4), *r.pick(&special)),
        3..=6 => (r.dyadic(-1000.0, 1000.0, 6), r.dyadic(-1000.0, 1000.0, 6)),
        7..=9 => { let a = r.uniform(-1000.0, 1000.0); (a, a + r.uniform(-1.0, 1.0) * 10f64.powi(r.range(-6, 0) as i32)) }
        _ => (r.dyadic(-8.0, 8.0, 8), r.dyadic(-8.0, 8.0, 8)),
    };
    let f = if a.is_finite() && b.is_finite() { gen_fun(r, a, b) } else { gen_fun(r, -1.0, 1.0) };
    let tol = match r.below(24) {
        0 => 0.0, 1 => -1.0, 2 => f64::NAN, 3 => f64::INFINITY, 4 => 1e-300,
        5..=7 => 1.0,
        _ => 10f64.powi(r.range(-15, -1) as i32),
    };
    let max_iter = match r.below(20) {
        0 => Some(0), 1 => Some(1), 2 => Some(2),
        3..=5 => Some(r.range(200, 1000) as usize),
        _ => Some(r.range(3, 120) as usize),
    };
    Case { f, a, b, tol, max_iter }
}

pub fn request_line(c: &Case, log: &[(f64, f64)]) -> String {
    let mut s = format!("quad1d {} {} {} {}", hx(c.a), hx(c.b), hx(c.tol),
        match c.max_iter { Some(n) => n.to_string(), None => "none".into() });
    for (x, y) in log { s.push(' '); s.push_str(&hx(*x)); s.push(' '); s.push_str(&hx(*y)); }
    s
}

/// Oracles on one implementation run.  `rep` collects findings.
pub fn judge(c: &Case, out: &Outcome, log: &[(f64, f64)], rep: &mut Report, gl: &[(f64, f64)]) {
    let input = c.text();
    // ---- C10: budget, status honesty
    if let Outcome::Panic(m) = out {
        rep.finding("oracle", &["C10"], "panic", input.clone(), m.clone());
        return;
    }
    if let Some(n) = c.max_iter {
        let bound = 31 * (1 + 2 * n);
        if log.len() > bound {
            rep.finding("oracle", &["C10"], "eval-bound", input.clone(), format!("{} evaluations > 31*(1+2*{})", log.len(), n));
        }
    }
    let saw_nan = log.iter().any(|p| p.1.is_nan());
    match out {
        Outcome::Ok(v, e) => {
            if c.a == c.b {
                if !(*v == 0.0 && *e == 0.0) { rep.finding("oracle", &["C10"], "eq-bounds", input.clone(), format!("({v:e},{e:e})")); }
                return;
            }
            if v.is_nan() { rep.finding("oracle", &["C10"], "ok-nan-value", input.clone(), String::new()); }
            if !(*e < c.tol) { rep.finding("oracle", &["C10", "C01"], "ok-err-not-below-tol", input.clone(), format!("e={e:e} tol={:e}", c.tol)); }
            // non-negative up to rounding of the running subtract/add
            let scale: f64 = log.iter().map(|p| p.1.abs()).fold(0.0, f64::max) * (c.b - c.a).abs();
            if *e < -1e-9 * scale.max(1e-300) || e.is_nan() { rep.finding("oracle", &["C10"], "neg-err", input.clone(), format!("e={e:e}")); }
            if saw_nan { rep.finding("oracle", &["C10"], "ok-despite-nan-sample", input.clone(), String::new()); }
        }
        Outcome::Nan => {
            // the NaN error is only legitimate when something non-finite was involved
            let nonfinite = log.iter().any(|p| !p.1.is_finite() || !p.0.is_finite()) || !c.a.is_finite() || !c.b.is_finite()
                || log.iter().any(|p| p.1.abs() > 1e100) || c.a.abs() > 1e100 || c.b.abs() > 1e100;
            if !nonfinite { rep.finding("oracle", &["C10"], "nan-error-without-nan", input.clone(), String::new()); }
        }
        Outcome::Conv => {
            if c.a == c.b { rep.finding("oracle", &["C10"], "eq-bounds", input.clone(), "conv".into()); }
        }
        Outcome::Panic(_) => {}
    }
    if c.a == c.b || !c.a.is_finite() || !c.b.is_finite() { return; }
    // ---- C02: tiling reconstruction from the trace
    if let Outcome::Ok(v, e) = out {
        match reconstruct(c.a, c.b, log) {
            Err(why) => rep.finding("oracle", &["C02"], "not-a-tiling", input.clone(), why),
            Ok(t) => {
                let np = t.panels.len() as f64;
                let mag = t.abs_sum.max(1e-300);
                let ulp = 64.0 * np * f64::EPSILON * mag + 2.0 * t.slack;
                if log.iter().all(|p| p.1.is_finite()) && mag < 1e290 {
                    if (v - t.k_sum).abs() > ulp { rep.finding("oracle", &["C02"], "value-not-k21-sum", input.clone(), format!("v={v:e} sumK21={:e} panels={}", t.k_sum, np)); }
                    if (e - t.e_sum).abs() > ulp + 64.0 * np * f64::EPSILON * t.e_sum.abs() { rep.finding("oracle", &["C02"], "err-not-discrepancy-sum", input.clone(), format!("e={e:e} sum={:e} panels={}", t.e_sum, np)); }
                }
                rep.count(&format!("panels:{}", if np < 2.0 { "1" } else if np < 8.0 { "2-7" } else if np < 64.0 { "8-63" } else { "64+" }));
            }
        }
    }
    // ---- C01: accuracy on the resolved smooth class
    let in_class = c.f.smooth() && c.a.abs() <= 1e3 && c.b.abs() <= 1e3
        && match &c.f { Fun::PolyC(co, _) | Fun::Poly(co) => co.len() <= 32, _ => true };
    if in_class {
        let (refv, refabs) = gl_ref(&|x| c.f.eval(x), c.a, c.b, 64, gl);
        // abscissa rounding: the nodes are perturbed by ~ulp(|x|), which moves the sum by ~ulp(|x|)·∫|f'|
        let tv: f64 = { let n = 2048; let mut t = 0.0; let mut prev = c.f.eval(c.a);
            for i in 1..=n { let x = c.a + (c.b - c.a) * i as f64 / n as f64; let v = c.f.eval(x); t += (v - prev).abs(); prev = v; } t };
        let floor = 1e-12 * refabs + 32.0 * f64::EPSILON * c.a.abs().max(c.b.abs()) * tv + 1e-300;
        match out {
            Outcome::Ok(v, _) => {
                if c.tol.is_finite() && (v - refv).abs() > c.tol.max(0.0) + floor {
                    rep.finding("oracle", &["C01"], "inaccurate", input.clone(), format!("v={v:e} ref={refv:e} tol={:e} floor={floor:e}", c.tol));
                }
            }
            Outcome::Conv | Outcome::Nan => {
                if c.tol >= 4.0 * floor && c.tol <= 1.0 && c.max_iter.map_or(true, |n| n >= 300) && refabs.is_finite() && refabs < 1e280 {
                    rep.finding("oracle", &["C01"], "no-success", input.clone(), format!("{} ref={refv:e} floor={floor:e}", out.wire()));
                }
            }
            _ => {}
        }
        // swap negates
        let sw = Case { a: c.b, b: c.a, ..c.clone() };
        let (o2, _) = run_impl(&sw);
        if let (Outcome::Ok(v1, _), Outcome::Ok(v2, _)) = (out, &o2) {
            if (v1 + v2).abs() > 2.0 * floor + 2.0 * c.tol.max(0.0) * 0.0 + 1e-13 * v1.abs() + 2.0 * c.tol.max(0.0) {
                rep.finding("oracle", &["C01"], "swap-not-negated", input.clone(), format!("v(a,b)={v1:e} v(b,a)={v2:e}"));
            }
        }
    }
}

/// Monomial single-panel checks (C02 second clause) against exact moments.
pub fn monomials(r: &mut Rng, rep: &mut Report, n: usize) -> Vec<String> {
    // the tables are private; observe the rule pair through gauss_kronrod_quadrature with
    // max_iter = 1 and tol = +inf: it returns (K21, |G10-K21|) of the single panel.
    let mut reqs = vec![];
    for i in 0..n {
        let k = (i % 34) as i32;
        let (a, b) = if i < 34 { (-1.0, 1.0) } else { (r.dyadic(-4.0, 4.0, 5), r.dyadic(-4.0, 4.0, 5)) };
        if a == b { continue; }
        // monomial in the panel's own unit variable, so the exact answer is a closed form
        let f = |x: f64| { let t = (x - (a + b) / 2.0) / ((b - a) / 2.0); t.powi(k) };
        let res = gauss_kronrod_quadrature(f, a, b, f64::INFINITY, Some(1));
        let exact = if k % 2 == 1 { 0.0 } else { 2.0 / (k as f64 + 1.0) } * (b - a) / 2.0;
        rep.cases += 1;
        rep.count("monomial");
        let input = format!("monomial k={k} panel=[{a:e},{b:e}]");
        match res {
            Ok((v, e)) => {
                let h = ((b - a) / 2.0).abs();
                if k <= 31 && (v - exact).abs() > 1e-14 * h { rep.finding("oracle", &["C02", "C01"], "k21-not-exact", input.clone(), format!("v={v:e} exact={exact:e}")); }
                if k <= 19 && e > 1e-14 * h { rep.finding("oracle", &["C02"], "g10-not-exact", input.clone(), format!("e={e:e}")); }
                if k == 20 && !(e > 1e-7 * h) { rep.finding("oracle", &["C02"], "g10-exact-at-20", input.clone(), format!("e={e:e}")); }
                if k == 32 && !((v - exact).abs() > 1e-13 * h) { rep.finding("oracle", &["C02"], "k21-exact-at-32", input.clone(), format!("v={v:e} exact={exact:e}")); }
                rep.nontrivial += 1;
            }
            Err(_) => rep.finding("oracle", &["C02"], "monomial-error", input, String::new()),
        }
        reqs.push(String::new());
    }
    reqs
}

pub fn run(o: &Opts) -> Report {
    let mut rep = Report::new("quad1d");
    rep.rule = "seeded generator: 16 integrand families (polynomials deg 0..33 about the panel centre, trig/exp/products, kinks, jumps, poles, NaN/inf producers, sign-alternating, 1e300-scale) x bounds in both orders incl. a==b and non-finite x tolerances incl. 0, negative, NaN, inf x budgets 0..1000; a case is non-trivial when the routine bisected at least once or returned an error; distinct by (family, bounds, tol, budget)".into();
    let gl = gauss_legendre(16);
    let n = if o.thorough { 6000 } else { 900 };
    let mut r = Rng::new(o.seed);
    let mut cases = vec![];
    // corpus first
    for c in corpus() { cases.push(c); }
    for _ in 0..n { cases.push(gen_case(&mut r)); }
    let mut reqs = vec![];
    let mut impls = vec![];
    let mut seen = std::collections::HashSet::new();
    for c in &cases {
        let (out, log) = run_impl(c);
        rep.cases += 1;
        rep.count(&format!("fam:{}", c.f.family()));
        rep.count(&format!("status:{}", match &out { Outcome::Ok(..) => "ok", Outcome::Conv => "conv", Outcome::Nan => "nan", Outcome::Panic(_) => "panic" }));
        if (log.len() > 31 || !matches!(out, Outcome::Ok(..))) && seen.insert(c.text()) { rep.nontrivial += 1; }
        judge(c, &out, &log, &mut rep, &gl);
        if rep.samples.len() < 6 && log.len() > 31 { rep.sample(format!("{} -> {} ({} evals)", c.text(), out.wire(), log.len())); }
        reqs.push(request_line(c, &log));
        impls.push(format!("{} panels {} hash {:016x}", out.wire(), log.len() / 31, trace_hash(&log)));
    }
    let answers = run_driver_par(&o.drv, &reqs, o.jobs);
    for ((c, imp), ans) in cases.iter().zip(impls.iter()).zip(answers.iter()) {
        rep.model_compared += 1;
        if imp != ans {
            rep.finding("model", &["C01", "C02", "C10"], "quad1d-differs", c.text(), format!("impl: {} | model: {}", imp, ans));
        }
    }
    monomials(&mut r, &mut rep, if o.thorough { 34 * 40 } else { 34 * 6 });
    rep
}

/// Minimised past disagreements / instructive cases; always run first.
pub fn corpus() -> Vec<Case> {
    vec![
        Case { f: Fun::Poly(vec![2.0, 1.0]), a: 0.0, b: 1.0, tol: 1e-9, max_iter: Some(10) },
        Case { f: Fun::Trig { a: 1.0, k: 1.0, p: 0.0, cos: false }, a: 0.0, b: 4.71238898038469, tol: 1e-9, max_iter: Some(100) },
        Case { f: Fun::SqrtKink { c: 0.3 }, a: 1.0, b: 0.0, tol: 1e-6, max_iter: Some(60) },
        Case { f: Fun::LnNeg, a: -1.0, b: 1.0, tol: 1e-9, max_iter: Some(50) },
        Case { f: Fun::Zero, a: 0.0, b: 1.0, tol: 0.0, max_iter: Some(200) },
        Case { f: Fun::Jump { c: 0.5, lo: 0.0, hi: 1.0 }, a: 0.0, b: 1.0, tol: 1e-15, max_iter: Some(400) },
        // coincident NON-FINITE and extreme bounds (seed C10-r5-2: `b - a == 0` instead of `a == b` is NaN for inf - inf):
        // the property asks for (0,0) whenever the bounds coincide, whatever the tolerance and budget
        Case { f: Fun::Poly(vec![2.0, 1.0]), a: f64::INFINITY, b: f64::INFINITY, tol: 1e-9, max_iter: Some(10) },
        Case { f: Fun::Poly(vec![2.0, 1.0]), a: f64::NEG_INFINITY, b: f64::NEG_INFINITY, tol: 1e-9, max_iter: Some(0) },
        Case { f: Fun::Zero, a: f64::INFINITY, b: f64::INFINITY, tol: 0.0, max_iter: Some(3) },
        Case { f: Fun::Trig { a: 1.0, k: 1.0, p: 0.0, cos: true }, a: f64::NEG_INFINITY, b: f64::NEG_INFINITY, tol: f64::NAN, max_iter: Some(40) },
        Case { f: Fun::Poly(vec![1.0]), a: 1e300, b: 1e300, tol: 1e-9, max_iter: Some(5) },
        Case { f: Fun::Poly(vec![1.0]), a: f64::MAX, b: f64::MAX, tol: 1e-9, max_iter: Some(5) },
        Case { f: Fun::Poly(vec![1.0]), a: -f64::MAX, b: -f64::MAX, tol: -1.0, max_iter: Some(1) },
        Case { f: Fun::Poly(vec![1.0]), a: 5e-324, b: 5e-324, tol: 1e-9, max_iter: Some(5) },
        Case { f: Fun::Poly(vec![1.0]), a: 0.0, b: -0.0, tol: 1e-9, max_iter: Some(5) },
        Case { f: Fun::Poly(vec![1.0]), a: -0.0, b: 0.0, tol: 0.0, max_iter: Some(0) },
    ]
}
