#!/usr/bin/env python3
"""reseed.py [<seeded id> ...]
Regression of the checks against the kept seeded changes (seeded/<id>/): for each, apply the patch to
/repo (seedrun.py), run the checks recorded in meta.json (`checks_run`), undo, and rewrite `caught_by` /
`violation_lines`. A patch that no longer applies to the current tree is reported and left as it is.
Prints one line per seed and a summary; exit 1 if some seed is caught by no check."""
import glob, json, os, re, subprocess, sys
V = os.path.dirname(os.path.abspath(__file__))
ids = sys.argv[1:] or sorted(os.path.basename(d) for d in glob.glob(V + "/seeded/*") if os.path.isdir(d))
missed, stale = [], []
for sid in ids:
    d = "%s/seeded/%s" % (V, sid)
    m = json.load(open(d + "/meta.json"))
    if m.get("retired"):
        print(sid, "RETIRED:", m["retired"][:100], flush=True); continue
    checks = m.get("checks_run") or [m["property"]]
    r = subprocess.run([V + "/seedrun.py", d + "/patch.diff"] + checks, capture_output=True, text=True)
    if "refusing" in r.stdout or r.returncode == 2 and "patch does not apply" not in r.stdout:
        print(sid, "NOT RUN:", r.stdout.strip()[:200], flush=True); sys.exit(3)
    if "patch does not apply" in r.stdout:
        stale.append(sid); print(sid, "STALE (patch does not apply to the current tree)", flush=True); continue
    c = re.search(r"CAUGHT-BY: (.*)", r.stdout)
    caught = [] if not c or c.group(1) == "none" else c.group(1).split(",")
    viol = re.findall(r"(VIOLATION property=\S+ replay=\S+.*)", r.stdout)
    m["caught_by"], m["violation_lines"] = caught, viol
    json.dump(m, open(d + "/meta.json", "w"), indent=1)
    kinds = ["nfi" if "no-failing-input-found" in v else "input" for v in viol]
    print(sid, "caught by", caught, kinds, flush=True)
    if not caught: missed.append(sid)
print("SUMMARY: %d seeds, %d missed %s, %d stale %s" % (len(ids), len(missed), missed, len(stale), stale))
sys.exit(1 if missed else 0)
