"""Per-property configuration of ./check: which harness streams decide the property,
what is trusted, and what remains partial (mirrors DESIGN §4)."""

TB_COMMON = [
    "Lean 4.33.0 kernel; axioms allowed: propext, Classical.choice, Quot.sound (audited by #print axioms on every theorem of Cav/Thm/<ID>.lean); no sorry/admit/native_decide/own axioms (source grep)",
    "correspondence harness /verif/harness (Rust, calls /repo in-process) + cavdrv (Lean models at Float): differential testing that validates the hand-written model, bounded by generator quality",
    "IEEE-754 rounding, libm and __powidf2 are modelled (Float instance), not verified; theorems are about the same program text in exact arithmetic (Rat/Real) or about control flow (any Num instance)",
]

import json as _json, os as _os, subprocess as _sp, sys as _sys, time as _time

_V = _os.path.dirname(_os.path.abspath(__file__))

def pyprobe(seed, tier, log):
    """C20: build the cdylib from /repo's current tree, import it into CPython, replay `cavh pycases`."""
    repo = _os.environ.get("CAV_REPO", "/repo")
    work = _V + "/work"
    _os.makedirs(work + "/pymod", exist_ok=True)
    env = dict(_os.environ, CARGO_NET_OFFLINE="true", RUSTFLAGS="--cfg cavint_verif -Awarnings")
    t0 = _time.time()
    p = _sp.run(["cargo", "build", "--release", "--offline", "--lib", "--target-dir", _V + "/harness/target/cdylib"], cwd=repo, env=env,
                stdout=_sp.PIPE, stderr=_sp.STDOUT, text=True)
    log.append("cdylib build rc=%d %.1fs" % (p.returncode, _time.time() - t0))
    if p.returncode != 0:
        log.append(p.stdout[-2000:]); return None
    so = _V + "/harness/target/cdylib/release/libcavint.so"
    _sp.run(["cp", so, work + "/pymod/cavint.so"])
    cases = "%s/pycases.%d.jsonl" % (work, _os.getpid())
    rep = "%s/pyprobe.%d.json" % (work, _os.getpid())
    env2 = dict(_os.environ, CAVH_PYCASES=cases)
    p = _sp.run([_V + "/harness/target/release/cavh", "pycases", "--seed", str(seed), "--tier", tier, "--out", "/dev/null"], env=env2, stdout=_sp.PIPE, stderr=_sp.STDOUT, text=True)
    log.append("pycases rc=%d %s" % (p.returncode, p.stdout[-300:]))
    if p.returncode != 0 or not _os.path.exists(cases):
        return None
    p = _sp.run([_sys.executable, _V + "/py/c20_probe.py", work + "/pymod", cases, rep], stdout=_sp.PIPE, stderr=_sp.STDOUT, text=True, timeout=3000)
    log.append("pyprobe rc=%d %s" % (p.returncode, p.stdout[-500:]))
    try:
        r = _json.load(open(rep))
    except Exception:
        r = None
    for f in (cases, rep):
        try: _os.remove(f)
        except OSError: pass
    if p.returncode != 0 and r is not None:
        # the interpreter died after writing nothing useful
        r = None
    if p.returncode != 0 and r is None:
        # a crash of the interpreter is itself a violation with a replay
        return {"stream": "pyprobe", "cases": 1, "model_compared": 0, "nontrivial": 0, "exhaustive": False, "rule": "", "hist": {}, "samples": [], "notes": [],
                "findings": [{"class": "oracle", "props": ["C20"], "kind": "interpreter-crash", "input": "c20_probe.py", "detail": p.stdout[-400:]}]}
    return r

def P(streams, tb=None, assumptions=None, partial="", extra=None, ties=None):
    return {"streams": streams, "trusted_base": TB_COMMON + (tb or []),
            "assumptions": assumptions or [], "partial": partial, "extra": extra or [], "ties": ties or []}

QUAD_TB = ["BTreeSet<ApproxInterval> modelled as a sorted list under the same comparator (Cav/Model/Quad.lean setInsert/setRemove)",
           "T1 translator translate/tables.py (regex on the two const tables; literals -> exact dyadic rationals via python float/Fraction)"]
QUAD_AS = ["integrands are deterministic functions of their argument (the model replays the logged x -> f(x) table)"]
PARSE_TB = ["nom 7.1.3 combinators (tag, alpha1, digit1, fold_many0, verify, alt, double, i32) re-implemented in Cav/Model/Parse.lean from their sources; Rust str::parse::<f64> trusted to be correctly rounded (the model carries m*10^e and converts with its own exact rounding)",
            "T4/T5 translators translate/context.py, translate/shape.py (narrow regex facts; a fact not found becomes '?' and shape_ok fails)",
            "HashMap<String, ContextElement> modelled as an association list with overwrite-on-insert"]

TRI_TB = ["Rc<RefCell<..>> aliasing modelled by an explicit heap with ids (Cav/Model/Sweep.lean); BTreeSet<YEdge> with its state-dependent comparator modelled as a list scanned with the same comparator; a ghost flag of the model records at every ordered lookup whether the comparison results are monotone along the stored order, Cav.C04Order.search_tree_independent proves that while the flag holds every comparison-based search structure over the stored sequence returns the position of the list scan, and the harness reports a valid input on which the flag drops (what remains trusted: std's B-tree descends by comparisons with stored keys only); BTreeMap of events as a sorted association list; HashSet<Pt> as a list",
          "exact integer oracle harness/src/geo.rs (validity, proper crossing, tiling) written independently of the crate"]
TRI_AS = ["oracle inputs are integer lattice points (exact i128 predicates); the model is additionally compared on non-finite/signed-zero/1e300 inputs"]

DISP_TB = ["roots::find_root_brent 0.0.7 modelled line by line (Cav/Model/Brent.lean); functions cross the pipe as expression text compiled on both sides",
           "display dumps are compared through an order-dependent 64-bit hash per vector (NaN payloads canonicalised)"]
DISP_AS = ["f, c, g are given by expression strings (the closure API is exercised with compile_expression-built closures and must be bit-identical to the string API)"]

PROPS = {
    "C01": P(["quad1d"], tb=QUAD_TB, assumptions=QUAD_AS,
             partial="C01Success.gk1d_poly_success: for polynomials of degree <= 19 and tol above twice the table-defect bound the routine succeeds on the first panel (no bisection), with the accuracy bound; for degree 20..31 and for the transcendental class the success clause ('a few hundred subdivisions suffice') is explored, not proved; rounding explored"),
    "C02": P(["quad1d"], tb=QUAD_TB, assumptions=QUAD_AS,
             partial="the tiling theorem is over Rat; at Float a panel one ulp wide bisects onto itself and is dropped (loss <= 1 ulp*|f|), reproduced by the Float model and bounded by the oracle"),
    "C05": P(["eval"], tb=["T2 translator translate/ad.py + translate/rustexpr.py (mini Rust-expression parser; every generated def is cross-checked bit-for-bit at Float against the real AD method by stream eval)",
                          "Mathlib's HasDerivAt / special functions (Real.sin, Real.arsinh, ...) as the meaning of 'mathematical derivative'"],
             assumptions=["evaluation points interior to the domain by a margin (oracle) / InDomain (theorem)"],
             partial="rounding 'commensurate with conditioning' explored by oracles only; x**0 at x=0 under AD is NaN (outside 'interior of the domain')"),
    "C03": P(["tri"], tb=TRI_TB, assumptions=TRI_AS,
             partial="the tiling clauses (inside, pairwise disjoint, area sum) are decided by the exact integer oracle on every explored input (exhaustive on the 4x4 lattice up to 6 vertices); the all-input theorems cover non-degeneracy, corners and the local geometry; for triangles, all simple quadrilaterals and all simple x-monotone n-gons with distinct abscissae the count, corners, non-degeneracy and exact total area of the output are theorems (C04Triangle, C04Quad, C04QuadV, C04Convex, C04Monotone); C03General.general_output_full: for EVERY valid polygon set with pairwise distinct abscissae (components, holes, islands to any depth, non-monotone polygons) the model returns, with the ghost flag true, exactly triCount triangles (n_i - 2 per polygon at even nesting depth, n_i + 2 at odd depth, the depth parity defined from the geometry by ray crossing), all non-degenerate, with corners among the input vertices, whose absolute areas add up to the even-odd area |sum (-1)^depth |shoelace_i|| ; C03Tiling.tiling adds the remaining clauses in general position: every point whose abscissa is not a vertex abscissa lies in exactly one triangle if it is in the even-odd region and in none otherwise (tiling_count), strict interiors of two different triangles are disjoint at EVERY point (triangles_disjoint), every triangle's interior lies in the region and the region is covered (membership by ray parity; on the finitely many vertical lines through vertices containment holds in the closure sense only); C03GeneralV.general_output_V extends count, non-degeneracy, corners and exact area to EVERY valid set with no hypothesis on the abscissae (vertical edges, lattice shapes; definitions lexicographic, independent of the shear); and C03TilingV.tiling_V gives the tiling clauses for EVERY valid set with no hypothesis on the abscissae (membership by a ray tilted slightly off the downward vertical, defined lexicographically; exceptional points: the vertices only): every non-vertex point lies in exactly one triangle if it is in the even-odd region and in none otherwise, interiors pairwise disjoint at all points, region covered - with this, all clauses of C03 are theorems about the model in exact arithmetic; what remains explored is binary64 rounding (bit-exact correspondence with the Float model, exact oracle on every explored input, exhaustive 4x4 enumeration)"),
    "C04": P(["tri"], tb=TRI_TB, assumptions=TRI_AS,
             partial="acceptance is a theorem for every non-degenerate triangle (C04Triangle.triangle_accepted_general, vertical edges included) and every simple quadrilateral with distinct abscissae (C04Quad.quad_accepted: convex, reflex Bend, improper Start, merging End; two triangles, exact area, ghost order flag true); C04Ties/C04Order justify the comparator's tie rules and the list model of the B-tree; C04QuadV.quad_accepted_general removes the distinct-abscissae hypothesis (vertical edges, aligned vertices); C04Convex.convex_accepted: every strictly convex x-monotone polygon with n >= 3 vertices and distinct abscissae, any start vertex and orientation, yields n-2 non-degenerate triangles with input corners and total area |shoelace|, ghost flag true (induction over the event queue); C04Monotone.monotone_accepted: the same for every simple x-monotone polygon with distinct abscissae, reflex vertices on both chains allowed (the back-chain grows and is cut in fans: polygon-independent fan lemma nt_fwd_fan / nt_bwd_fan); C04General.general_accepted is the general theorem in general position: EVERY valid polygon set all of whose vertex abscissae are pairwise distinct (any number of components, holes, islands in holes to any depth, non-monotone polygons with splitting Starts and merging Ends, either orientation, any start vertex, any polygon order) is accepted with the ghost order flag true - validity stated with orientation determinants (edges without a common vertex are apart, no spikes), proved via an invariant GInv over an arbitrary number of active edges/intervals preserved by every handler (ginv_bend, ginv_end, ginv_start) and a proof that validity excludes crossings of the left-to-right edges; and C04GeneralV.general_accepted_V removes the hypothesis on the abscissae altogether: EVERY valid polygon set (>= 3 vertices, pairwise distinct vertices, edges without a common vertex apart, no spikes; vertical edges and any number of vertices on one vertical line allowed - L, U, plus, rectangles with rectangular holes) is accepted with the ghost flag true (a shear x+eps*y with an explicit eps makes the order of abscissae the lexicographic order without changing any orientation determinant; bridging lemmas turn order facts of the sheared ring into the comparator's answers on the original points including every tie rule, and verticalIsCrossed provably never fires on valid input); this is property C04 for the model in exact arithmetic; what remains outside theorems is floating-point rounding (explored: bit-exact correspondence, exhaustive enumeration, exact affine images) and the known overflow findings"),
    "C15": P(["tri"], tb=TRI_TB, assumptions=TRI_AS,
             partial="C15Heap proves for every input that the model never fails with a heap-encoding panic (model-bad-*), never reaches `unreachable`, and (over XQ) never indexes a missing registered edge (`index`): C15General.general_total: for EVERY polygon set in general position (>= 3 vertices, distinct abscissae, no spikes, no vertex on another edge) the model returns either Ok (ghost flag true) or an Overlap error naming an input point - never a panic of any kind, never out-of-fuel, never another error; and Ok holds exactly when no two edges meet (general_accept_iff); C15GeneralV.general_total_V extends this to equal abscissae and vertical edges (pairwise distinct vertices, no spikes, no vertex on another ring edge), with general_accept_iff_V: Ok exactly for the valid sets; for the remaining degenerate inputs (duplicate vertices are reported by validation; a vertex on another edge; spikes) the only panic kind not excluded outright is a RefCell `borrow` conflict: C15Borrow proves it can only be raised in a pass that starts with a self-loop or coinciding partners among the edges registered with the vertex being handled, an executable monitor of exactly that condition (Model/SweepMon.lean, proved identical to the theorem's monitor in C15Monitor) runs in the driver next to every compared input, and the harness reports any input on which it drops (never observed; the prover's own search of 2.6e8 lattice inputs found none); the deep field-wise `==` of BTreeSet::range's sanity check is modelled by identity only"),
    "C16": P(["tri"], tb=TRI_TB, assumptions=TRI_AS,
             partial="C16Quad.bowtie_rejected: every self-intersecting quadrilateral with distinct abscissae is rejected with an Overlap error at its second event (full path through the model, all rotations and orientations); C16Monotone.crossing_rejected: every polygon made of two x-monotone chains (any number of vertices, distinct abscissae) whose chains are not simple, with no vertex exactly on the other chain, is rejected with Overlap(Bend, p), and the crossing_rejected_at_* theorems say at which Bend: the one that creates the later of the two crossing edges (one event before the vertex on the wrong side is reached); C16General.crossing_rejected is the general theorem in general position: EVERY polygon set (any number of polygons, any nesting) with pairwise distinct vertex abscissae, no spikes and no vertex on another edge's line inside its abscissa range, in which two ring edges without a common vertex cross properly, is rejected with an Overlap error by sweep and sweepMon, no triangle list is ever returned, and the run stops strictly left of every point where two edges meet (crossing_rejected_where) - via an invariant XInv = sweep invariant + 'every neighbouring pair was tested', under which each handler either succeeds or returns Overlap and nothing else; C16GeneralV.crossing_rejected_V removes the hypothesis on the abscissae: pairwise distinct vertices, no spikes, no vertex on another ring edge (lexicographic NoTouchV) - vertical edges and equal abscissae allowed, including the rejection path through verticalIsCrossed; only inputs with a vertex ON another edge (touching) remain decided by exhaustive enumeration and generators; C16.lean covers the local crossing test"),
    "C07": P(["disp2d"], tb=DISP_TB, assumptions=DISP_AS,
             partial="C07Accuracy proves the clause end to end on the exact class: for polynomial f, c (resp. g) given through the AD operations, with the integrand f*g' of degree <= 31, every piece's reported value differs from the TRUE real integral of f dg over that piece by at most |b-a|/2 * 1e-16 * sum|coeff|*max(|a|,|b|)^k (the table defect; independent of the number of bisections), 0 <= e < tol, and the reported values of the pieces of [a,b] add up to the integral over [a,b] within the sum of those bounds (rs_piece_accuracy, cav_piece_accuracy, *_total_accuracy); beyond that class the clause is decided by the exact-antiderivative oracle and the reference quadrature"),
    "C08": P(["disp3d", "quad2d"], tb=DISP_TB + TRI_TB + QUAD_TB, assumptions=DISP_AS,
             partial="C08Accuracy proves the property end to end on the exact class: bivariate polynomial f through the AD operations and affine c (so |det Dg| = |1 - a f_x - b f_y|, resolved where it has constant sign on the triangle; constant c: any f of degree <= 30): per triangle the reported value is within an explicit bound of the exact iterated integral of f*|det| over that triangle (identified with 2*area times the real simplex integral), 0 <= e < tol, the values add up over the triangles of `sweep`, and for simple quadrilaterals and convex polygons with constant integrand the total is k*area(P) within |k|*|shoelace|*1.5e-16 (with the C04 acceptance theorems; a Rat -> XQ transfer theorem connects the quadrature and the sweep); C08General lifts the totals from 'the triangles of the sweep' to the REGION for every valid polygon set (holes, islands, components, vertical edges): cav3_region_const - with a constant integrand the reported total is k times the area of the even-odd region within 1.5e-16 relative, and there are triCountV displays; cav3_region_of_terms / _poly / _affine / _sign - for polynomial integrands the sum of the exact per-triangle integrals equals regionMoment, a quantity defined from the polygons alone (Green's boundary formula with a closed-form rational edge weight; additivity proved by telescoping the antisymmetric weight over the tiling), and the reported total is within the summed per-triangle bounds of it; not done: identification of the iterated simplex integrals / regionMoment with a two-dimensional Lebesgue integral, and a success clause; outside the exact class the total is checked against a closed form for linear/quadratic f and linear c on sets with holes"),
    "C09": P(["quad2d"], tb=QUAD_TB, assumptions=QUAD_AS,
             partial="C09Accuracy.gk2d_poly_accuracy / gkTriangle_poly_accuracy: on the exact class (polynomial in y of degree <= 31 with polynomial inner integral of degree <= 31; for triangles any term list of total degree <= 30 and ANY triangle) a successful result is within the outer table defect plus (2+1e-16) times the inner bound of the exact iterated integral, for any number of outer and inner bisections, and 0 <= e < tol; gk2d_poly_success gives first-panel success for degree <= 19; the iterated integral is not identified with a Mathlib area integral; beyond the exact class accuracy is explored against a nested Gauss-Legendre reference"),
    "C11": P(["disp2d"], tb=DISP_TB, assumptions=DISP_AS,
             partial="C11Roots: for polynomial data the interior piece boundaries are exactly the split points, and every one of them lies within 2*tol (RS display: 4*tol after the cluster merge) of a TRUE real zero of g' (resp. f' or g') in the same grid cell (IVT on the final Brent bracket) - tol itself is not guaranteed (kernel-checked counterexamples), and the converse ('every sign change is a boundary') is false when two sign changes share a cell (split_misses_sign_change_pair), consistent with the property's separation hypothesis; maximality of the pieces is decided by the prescribed-root oracle. KNOWN FINDING: even-order zero of g' on a sampling point (see known_findings.jsonl)"),
    "C12": P(["disp2d"], tb=DISP_TB, assumptions=DISP_AS, partial="'beyond rounding' clauses explored with ulp budgets"),
    "C13": P(["disp2d"], tb=DISP_TB, assumptions=DISP_AS,
             partial="curve end points within a multiple of tol and strict monotonicity per piece are decided by oracles on the prescribed-turning-point class"),
    "C14": P(["disp3d"], tb=DISP_TB, assumptions=DISP_AS, partial="rounding explored with ulp budgets"),
    "C17": P(["parse", "lists"], tb=PARSE_TB, assumptions=[], partial="Rust stack depth / allocation are outside the model: nesting to 400 (1000 thorough) and 4000-char chains are executed under catch_unwind"),
    "C18": P(["lists"], tb=PARSE_TB, assumptions=[], partial="'correctly rounded' relies on Rust's str::parse (trusted); compared by bits with the generating data"),
    "C19": P(["disp2d", "disp3d"], tb=DISP_TB + PARSE_TB + ["T3 translator translate/wiring.py (regex extraction of parameter lists, contexts, closures, config initialisation)"],
             assumptions=DISP_AS, partial="C19Total: for ALL strings and configurations the 2-D entry points never panic (displayCav2d_never_panics) and their result is exactly one of Ok / parse error / list error / display error, in source order of the stages (displayCav2d_stages, _ok_iff); the 3-D entry point never panics at the API level, its outcomes are classified (displayCav3d_stages), a triangulation error is exactly the sweep's error on the parsed polygons, over XQ a triangulator panic could only be a RefCell borrow conflict, and none at all when the parsed polygon set has no duplicate/touching vertices or spikes (GeneralV); for the remaining degenerate polygon texts panic-freedom is decided on explored inputs"),
    "C20": P([], tb=["T3 translator translate/wiring.py", "pyo3 0.17 argument extraction / IntoPy / panic trapping: assumed, observed by py/c20_probe.py on CPython with the cdylib built from the current tree"],
             assumptions=["CPython 3.11 available as python3"], partial="pyo3 is not modelled: the theorems are about the declarations, the behaviour is observed", extra=[pyprobe]),
    "C06": P(["parse", "eval"], tb=PARSE_TB, assumptions=["user-registered names are ASCII words not EQUAL (case-insensitively) to nan or inf (CtxOK'); names that merely start with such a word are covered since repair bcc2eb4"],
             partial="accepted_iff_prints: under CtxOK' a text compiles to a tree iff it is a string of the grammar denoting that tree (both directions, all strings)"),
    "C10": P(["quad1d", "quad2d"],
             tb=QUAD_TB, assumptions=QUAD_AS,
             partial="non-negativity of the estimate and 'NaN sample never ok' are arithmetic facts: proved in exact arithmetic / under NaN-absorption laws, explored at Float"),
}

# tie modules (see check.thm_modules): Cav/Thm/C06.lean holds shape_ok / context_tables_ok / default_ctx_matches_tables,
# the T4/T5 facts about parsing.rs, helpers.rs and display.rs that the hand-written parser, list, helper, split and
# display models were written against
for _pid in ("C07", "C08", "C11", "C12", "C13", "C14", "C17", "C18", "C19", "C20"):
    PROPS[_pid]["ties"] = ["C06"]
# the full-path theorems for triangles, quadrilaterals and convex polygons also state C03's clauses for those classes
# (corners are input vertices, non-degenerate triangles, absolute areas add up to the shoelace area)
PROPS["C03"]["ties"] = PROPS["C03"]["ties"] + ["C04Triangle", "C04Quad", "C04QuadV", "C04Convex", "C04Monotone", "C04General", "C04GeneralV"]
# Cav/Thm/C01Tables.lean: the Gauss-Kronrod tables in the source are the 10/21-point pair (defects on monomials,
# embedded nodes, positive weights): an obligation of every property whose model integrates with them
# Cav/Thm/C05*.lean: the AD operations regenerated from differentiable.rs / basic_arithmetic.rs compute value and true
# derivative; the displays differentiate f, c, g through them
for _pid in ("C07", "C08", "C11", "C12", "C13", "C14"):
    PROPS[_pid]["ties"] = PROPS[_pid]["ties"] + ["C05", "C05Defaults"]
PROPS["C13"]["ties"] = PROPS["C13"]["ties"] + ["C07Accuracy", "C11Roots"]
PROPS["C08"]["ties"] = PROPS["C08"]["ties"] + ["C09Accuracy"]
for _pid in ("C02", "C07", "C08", "C09", "C10", "C13"):
    PROPS[_pid]["ties"] = PROPS[_pid]["ties"] + ["C01Tables"]

# what each claimed check says about itself in MANIFEST.json
LEVEL_TEXT = {
    "C01": {
        "text": "Kernel-checked (decide +kernel) facts about the rule tables as they stand in the source, regenerated every run: K21 integrates x^k exactly to 1e-16 for k<=31, G10 for k<=19, not for 20 resp. 32; nodes embedded, weights positive. With the C02 tiling theorem this gives accuracy of every successful run on polynomials of degree <=31 in exact arithmetic (Thm/C01 accuracy theorems when present). Bit-exact correspondence of the Float model with the implementation; closed-form/Gauss-Legendre reference oracle for the smooth class incl. success and swap clauses.",
        "note": "Trusts: Lean kernel (GMP arithmetic in decide +kernel), translator T1, harness. Rounding and the success clause are explored only.",
        "technique": "Lean 4 kernel computation on regenerated tables + induction (tiling) + bit-exact differential correspondence",
    },
    "C02": {
        "text": "Theorem gk1d_ok_is_tiling_sum (Rat, every integrand f : Q -> Q, all bounds/tolerances/budgets incl. none): a successful result is the sum of K21 panel estimates over a directed chain tiling [a,b], the estimate is the sum of |G10-K21|, every panel occurs in the evaluation trace; chain_additive / chain_length_sum (no gap, overlap, repetition); 31 abscissae per panel; table exactness theorems of C01. The model's abscissa sequence is compared bit-for-bit with the sequence the real integrand callback receives.",
        "note": "Trusts: Lean kernel, sorted-list model of BTreeSet, translator T1, harness. Exact-arithmetic theorem; rounding clause explored by the trace-reconstruction oracle.",
        "technique": "Lean 4 invariant proof by induction on the iteration budget + callback-trace correspondence",
    },
    "C05": {
        "text": "Theorem ad_correct (R, Mathlib HasDerivAt): for every expression tree, any number of variables, every point in the open domain (InDomain) and ARBITRARY tangents, evalAD returns the plain value and the derivative along the curve; 21 per-primitive spec lemmas about the GENERATED defs (Gen/AD.lean is re-translated from differentiable.rs on every run, so a dropped quotient-rule term breaks AD.div_spec); value independent of tangent and tangent linear (all trees, no domain hypothesis), D1 accessors, chain rule, |det| of the Jacobian. Each generated def is compared bit-for-bit at Float with the real method on dense grids; oracles with independent derivative formulas and finite differences.",
        "note": "Trusts: Lean kernel, Mathlib, translator T2, harness. Rounding explored only; libm accuracy trusted.",
        "technique": "Lean 4 / Mathlib induction on expression trees over translator-generated AD primitives + bit-exact differential check",
    },
    "C03": {
        "text": "Sweep model (heap-explicit, line-by-line) agrees with triangulate_polygon_set on ordered triangle lists and error payloads, at Float and in exact arithmetic (XQ); theorems (XQ, all inputs): emitted triangles come only from clockwiseSign = C triples, which are non-degenerate; local geometry lemmas. The full tiling specification (corners, inside, disjoint, exact area) is evaluated by an independent exact integer oracle on EVERY vertex sequence up to 6 vertices on the 4x4 lattice (17.9M) plus structured nested sets.",
        "note": "Trusts: Lean kernel, heap/list models of Rc/BTreeSet/BTreeMap, harness oracle. The tiling clause itself is exhaustive exploration, not a theorem (DESIGN §6 risks).",
        "technique": "Lean 4 theorems on a heap-explicit sweep model + exhaustive small-lattice enumeration with exact oracle",
    },
    "C04": {
        "text": "Exhaustive: every valid single polygon with up to 6 vertices on the 4x4 lattice (548k+ valid of 17.9M sequences), all orientations/start vertices, and structured families (L, U, plus, T, comb, spiral, holes with islands) under dihedral maps/scalings/shears must be accepted; the sweep model at Float and at XQ reproduces every Ok/Err. Validation theorems (XQ): validation errors name a defect that is present.",
        "note": "Acceptance is decided by enumeration, the theorem part covers validation only. Genuine defect repaired by fix commit 18aefee (see known_findings.jsonl).",
        "technique": "exhaustive enumeration against a Lean-modelled sweep + Lean validation theorems",
    },
    "C15": {
        "text": "The model has explicit panic outcomes (RefCell borrow conflicts, unreachable!, index, B-tree range sanity) and is compared with the implementation under catch_unwind on every vertex sequence up to 6 vertices on the 4x4 lattice, random soups, NaN/inf/-0/subnormal/1e300 coordinates, empty and short inputs; theorems (XQ, all inputs): error classification of validation (NoPolygon / NonFinite / Duplicate name a present defect; first-polygon completeness), fromTriplet/validPt characterisations.",
        "note": "Genuine defect (RefCell double borrow, unreachable!) repaired by fix commit d71cca1. Panic-freedom beyond the explored inputs is not a theorem.",
        "technique": "Lean 4 theorems on the sweep model's validation + exhaustive panic search with model correspondence",
    },
    "C16": {
        "text": "Exact proper-crossing oracle x implementation on every vertex sequence up to 6 vertices on the 4x4 lattice (4.87M with a proper crossing: all must be rejected), random multi-polygon soups; model correspondence at Float and XQ; theorems: affine order lemma behind will_overlap_* (edges ordered at both ends of a span do not cross inside it; a proper crossing reverses the order).",
        "note": "Genuine defects repaired by fix commits f406d59 and 18aefee. Global rejection is enumeration, not a theorem.",
        "technique": "exhaustive enumeration with exact oracle + Lean local lemmas",
    },
    "C06": {
        "text": "Tie theorems (by decide on regenerated data): the operator tags, or_else order, allow_neg arguments, '^ before **', negation-last, left folds, bracket flags and residue checks of parsing.rs are those of the model; both default contexts bind every name n to AD::n / f64::n. parse_print / accepted_iff_prints (Thm/C06Print): under CtxOK' (no registered name equals inf or nan) a text compiles to a tree iff it is a string of the grammar Spec/Grammar.lean denoting that tree; info_plus_one is the kernel-checked witness of repair bcc2eb4. Model vs implementation: the actual tree is read back through compile_expression::<I,Sym> and compared on grammar-directed renderings, exhaustive token strings, mutations, Unicode; numeric eval at f64 and AD compared bit-for-bit with the model and with a reference evaluator of the conventional tree.",
        "note": "Trusts: Lean kernel, translators T4/T5, nom re-implementation, harness. Structural property: no floating point involved in the tree; evaluation compares bits.",
        "technique": "Lean 4 proof over an executable parser model + symbolic-tree differential correspondence",
    },
    "C10": {
        "text": "Kernel-checked theorems, valid for every Num instance (so also for the Float instance the driver executes): success is returned only behind the !NaN and e < tol tests (1-D, 2-D, triangle), coincident bounds give (0,0) without sampling, zero budget gives the convergence error, at most 1+2n panels (31 abscissae each) are evaluated for budget n. The model is tied to the code by bit-exact correspondence on seeded integrand traces; NaN-sample and sign-of-estimate clauses are decided by oracles on the implementation.",
        "note": "Trusts: Lean kernel; sorted-list model of BTreeSet; harness. Floating-point rounding is modelled, not verified. 'e >= 0' and 'NaN sample never ok' are not structural; explored on the implementation (see evidence.partial).",
        "technique": "Lean 4 structural induction on the iteration budget + bit-exact model/implementation correspondence",
    },
}

LEVEL_TEXT.update({
    "C07": {"text": "Theorems: pieces of an interval form a chain from a to b (every Num instance), so any additive interval functional sums over the pieces to its value on [a,b]; each piece's value is gk1d over exactly that piece with integrand f*g' (g built by the generated AD composition), none when integration is off; several intervals are independent. With C01/C02 this gives accuracy for polynomial f,c. The Disp2D model equals the implementation bit-for-bit on every public field; exact polynomial antiderivative oracle for totals and pieces, both directions, interval lists.",
            "note": "Trusts: Lean kernel, Brent/BTreeSet models, harness. 'Within the reported estimates' is explored.", "technique": "Lean 4 structural theorems over the display model + bit-exact correspondence + exact-antiderivative oracle"},
    "C08": {"text": "Per-triangle integrand identity and offset invariance of the Jacobian (theorems); 3-D model (sweep + triangle quadrature + AD Jacobian) equals the implementation bit-for-bit incl. integ values; totals compared with a closed form (affine Jacobian determinant, degree<=4 exact cubature over the even-odd region) on polygon sets with holes under symmetries.",
            "note": "Conditional on the tiling (C03, exhaustive exploration).", "technique": "Lean 4 theorems + bit-exact correspondence + closed-form oracle"},
    "C09": {"text": "Theorems (Rat): estimate non-negative for both orientations, outer swap negates, triangle factor permutation-invariant, degenerate triangle gives (0,0), 2-D tiling sum; structural honesty (C10). Model equals implementation bit-for-bit on logged integrand traces; nested Gauss-Legendre reference for accuracy, permutation, subdivision, reversal.",
            "note": "Adaptive accuracy explored.", "technique": "Lean 4 theorems over the quadrature model + trace-replay correspondence"},
    "C11": {"text": "Chain theorem (every Num instance): first piece starts at a, consecutive pieces share end points, last ends at b; Brent bracket/hull invariants and split lemmas (Thm/C11Brent); model equals implementation on displays and on split_strictly_monotone directly. Oracle: g' with prescribed simple roots and off-grid even-order zeros, m=0..4, both directions, x_res 8..400, tol 1e-6..1e-12: piece count, boundaries within tol (+ conditioning of g'), monotone pieces.",
            "note": "Genuine defect (on-grid exact-zero saddle) repaired by fix commit 1409bd8; residual class recorded as known finding.", "technique": "Lean 4 theorems + bit-exact correspondence + prescribed-root oracle"},
    "C12": {"text": "Theorems: vector lengths max(res+1,2), exact end points, linspace formula, fv/gv/dgv are f, g=x-c(f)+c(0), g' at the abscissae (generated AD composition), curve indices start at 0, end at the last sample, never decrease, count interm_cs+2; curve points (r f(x_i), g(x_i)+c(r f)-c(0)); offset invariance in exact arithmetic. Model equals implementation bit-for-bit for resolutions 0..64 incl. interm_cs > x_res; oracle recomputes every relation with ulp budgets and offset cases.",
            "note": "Rounding explored.", "technique": "Lean 4 theorems over the display model + bit-exact correspondence"},
    "C13": {"text": "Chain theorem for the Riemann-Stieltjes display, sorting/clustering lemmas for coincident turning points (Thm/C13Split), gv = g + k and dgv = g' by construction of the model; model equals implementation bit-for-bit; oracle on polynomials with prescribed (possibly shared) turning points: piece count, boundaries, monotone pieces, finite curve points, curve start exact, curve end on the graph within a multiple of tol.",
            "note": "Brent accuracy not a theorem.", "technique": "Lean 4 theorems + bit-exact correspondence + prescribed-turning-point oracle"},
    "C14": {"text": "Theorems: mesh/curtain shapes, top mesh is the graph of f, bottom mesh its image under (x,y)-c(f)+c(0), curtain edges coincide with the outer rings, columns are c-translates, offset invariance (exact arithmetic). Model equals implementation bit-for-bit for resolutions 0..32 with c(0) != 0; oracle recomputes every relation.",
            "note": "Genuine defect (bottom mesh offset by c(0)) repaired by fix commit 6510f8e.", "technique": "Lean 4 theorems over the 3-D display model + bit-exact correspondence"},
    "C17": {"text": "Theorems for ALL strings: parse_sound (every accepted string is in the grammar), fuel_suffices/compile_ne_outOfFuel (termination), compile_vars_lt_arity + eval_in_bounds (no out-of-range index), rejection corollaries (empty, unbalanced, '--', trailing/leading operator, '(' followed by * / ^ ), operator followed by * / ^, unknown name, function without call, variable with arguments, context index >= arity, residue). Model equals implementation on exhaustive token strings, mutations, Unicode, deep nesting; independent recogniser of the intended grammar.",
            "note": "Rust recursion depth/allocation executed, not modelled.", "technique": "Lean 4 soundness proof of the parser model w.r.t. an inductive grammar + exhaustive token-string correspondence"},
    "C18": {"text": "Theorems: intervals_sound / polygons_sound (accepted text is exactly a comma-separated list of bracketed pairs / bracketed lists of pairs of constant expressions, order and nesting preserved, at least one element), empty rejected, no panic for ANY context (after the repair). Model equals implementation; round-trip of shortest-repr doubles, exponent notation, constant expressions, Unicode whitespace, structural corruptions.",
            "note": "Genuine defect (index panic with a variable-binding context) repaired by fix commit 4ebe722.", "technique": "Lean 4 soundness proof of the list parsers + bit-exact round-trip correspondence"},
    "C19": {"text": "Kernel-decided wiring theorems on data regenerated from standardized_gui_methods.rs: config fields initialised from same-named parameters, x->0 / y->1 / y->0 / z->0 bindings, variable-free interval/polygon contexts, closure argument order, delegate functions; error-stage theorem. String API vs closure API bit-identical on every case; string API vs Lean API model; arbitrary strings and configurations incl. tol in {0, NaN, inf, negative}, limits 0.",
            "note": "Panic-freedom explored.", "technique": "Lean 4 decide on translator-generated wiring + differential check string API / closure API / model"},
    "C20": {"text": "Kernel-decided facts on regenerated declarations: module name and registrations, Python names, forwarding identity of all ten arguments per shim, parameter types, getter coverage, RuntimeError mapping. CPython probe: the cdylib built from the current tree is imported and every attribute of every returned object is compared by bit pattern with the Rust API for ~300 argument tuples (valid, malformed, extreme configs) plus wrong arity/types; any non-RuntimeError exception or crash is a violation.",
            "note": "pyo3 assumed, observed.", "technique": "Lean 4 decide on generated declarations + in-process CPython differential probe"},
})

NOT_APPLICABLE = {}

# ---- second build round: the manifest texts of the properties whose theorem coverage grew
LEVEL_TEXT["C03"].update({
    "text": LEVEL_TEXT["C03"]["text"] + " Added: C03TilingV.tiling_V - for EVERY valid polygon set (vertical edges and equal abscissae included) the model's output is a tiling of the even-odd region: each non-vertex point lies in exactly one triangle iff it is in the region, interiors pairwise disjoint, region covered. C03Tiling.tiling - in general position the output IS a tiling: each generic-abscissa point of the region lies in exactly one triangle, points outside in none, strict interiors pairwise disjoint everywhere; C03GeneralV.general_output_V - count, non-degeneracy, corners and exact even-odd area for every valid set incl. vertical edges and equal abscissae. C03General.general_output_full - for every valid polygon set in general position: triangle count, non-degeneracy, corners among the input vertices, and the sum of the absolute areas equals the even-odd area (invariant with per-interval back-chain shape, count and signed-area bookkeeping, preserved by all six event kinds). Added earlier: for triangles (all), simple quadrilaterals (all, incl. vertical edges), strictly convex and all simple x-monotone n-gons with distinct abscissae the number of triangles (n-2), corners = input vertices, non-degeneracy and exact total area |shoelace| of the model's output are theorems (C04Triangle, C04Quad, C04QuadV, C04Convex, C04Monotone; full path through set-up, event queue, all handlers, back-chain fans).",
    "note": "Trusts: Lean kernel, heap/list models of Rc/BTreeSet/BTreeMap (ghost monitors + C04Order/C15Monitor theorems say when the list model stands for the B-tree and when no panic can occur), harness oracle. All clauses (count, corners, non-degeneracy, area, containment, disjointness, covering) are theorems about the model in exact arithmetic for every valid set (C03General, C03Tiling, C03GeneralV, C03TilingV); binary64 rounding is explored.",
    "technique": "Lean 4 full-path theorems (symbolic execution + induction over the event queue) on a heap-explicit sweep model + exhaustive small-lattice enumeration with exact oracle"})
LEVEL_TEXT["C04"].update({
    "text": "C04GeneralV.general_accepted_V: EVERY valid polygon set (pairwise distinct vertices, edges apart, no spikes; vertical edges and equal abscissae allowed) is accepted by the sweep model in exact arithmetic with the ghost order flag true - property C04 for the model. C04General.general_accepted: the same for pairwise distinct vertex abscissae (components, holes, islands to any depth, non-monotone polygons) is accepted by the sweep model in exact arithmetic with the ghost order flag true (invariant over an arbitrary number of active edges, preserved by all handlers). Further acceptance theorems on the sweep model in exact arithmetic, full path (validation, set-up, event queue, Start/Bend/End handlers, back-chain split/merge/fans), each with the ghost order-consistency flag true: every non-degenerate triangle; every simple quadrilateral (convex, reflex Bend, improper Start, merging End; equal abscissae and vertical edges included); every strictly convex x-monotone n-gon and every simple x-monotone n-gon with distinct abscissae (n arbitrary: induction over the event queue, polygon-independent fan lemma). C04Ties: the comparator's tie rules (incl. the one added by repair 745c06b) agree with the geometric order; C04Order: while the ghost flag holds, any comparison-based search tree returns what the model's list scan returns. Outside these classes: exhaustive enumeration of all 17.9M vertex sequences up to 6 vertices on the 4x4 lattice, structured families with holes/islands under symmetries, stacked bands (up to 20 active edges), exact affine images (aspect ratios to 2^1000), mixed-scale pairs, 40 000-vertex polygons; the model at Float and XQ reproduces every Ok/Err.",
    "note": "The theorem is about the model in exact arithmetic; binary64 rounding is covered by the bit-exact correspondence, the exhaustive enumeration and exact affine images. Genuine defects repaired by fix commits 18aefee and 745c06b; overflow of coordinate differences / gradients recorded as known findings.",
    "technique": "Lean 4 general sweep-invariant proof (acceptance of every valid set in general position) + full-path theorems for small/equal-abscissa classes + exhaustive enumeration against the Lean-modelled sweep"})
LEVEL_TEXT["C15"].update({
    "text": LEVEL_TEXT["C15"]["text"] + " Added: C15General.general_total - in general position every run ends in Ok or in an Overlap error naming an input point (no panic, no out-of-fuel, no other error), and Ok characterises validity. Added (all inputs): the model never fails with a heap-encoding panic, never reaches unreachable!(), never indexes a missing registered edge (C15Heap); a RefCell borrow panic can only arise from a pass that starts with a self-loop or coinciding partners among the registered edges (C15Borrow), a condition monitored by the driver on every compared input (C15Monitor: while it holds, no panic of any kind). Large polygons (to 40 000 vertices, 120 000 in the thorough tier) run in child processes on a 2 MiB stack.",
    "note": "Genuine defects repaired by fix commits d71cca1 and 8c7e16d. The borrow-panic exclusion is conditional on the monitored link condition (never observed to fail); stack depth and allocation are executed, not modelled.",
    "technique": "Lean 4 invariant proofs (Hoare calculus over the heap-explicit sweep model) + executable ghost monitor + exhaustive panic search with model correspondence"})
LEVEL_TEXT["C16"].update({
    "text": LEVEL_TEXT["C16"]["text"] + " Added: C16General.crossing_rejected - every polygon set in general position (distinct abscissae, no spikes, no vertex on another edge) with a proper crossing is rejected with Overlap, never triangulated, and the run stops left of every meeting point. Also, full path on the model: every self-intersecting quadrilateral with distinct abscissae is rejected with Overlap at its second event (C16Quad.bowtie_rejected_at); every polygon made of two x-monotone chains (n arbitrary) whose chains are not simple is rejected with Overlap(Bend, p), with the exact Bend (C16Monotone.crossing_rejected, crossing_rejected_at_*).",
    "note": "Genuine defects repaired by fix commits f406d59 and 18aefee. C16GeneralV covers equal abscissae and vertical edges; only inputs with a vertex on another edge are left to enumeration.",
    "technique": "Lean 4 general rejection theorem (sweep invariant with tested-neighbours clause) + full-path theorems for small classes + exhaustive enumeration with exact oracle"})
LEVEL_TEXT["C07"].update({
    "text": LEVEL_TEXT["C07"]["text"] + " Added (C07Accuracy): for polynomial f and c (resp. g) evaluated through the generated AD operations with integrand of degree <= 31, each piece's reported value is within the table defect of the TRUE real integral of f dg over the piece (Mathlib interval integral), 0 <= e < tol, and the reported values of the pieces of [a,b] add up to the integral over [a,b] within the sum of the bounds, for any number of bisections.",
    "note": "Trusts: Lean kernel, Mathlib, Brent/BTreeSet models, harness. Outside the polynomial class 'within the reported estimates' is explored.",
    "technique": "Lean 4 / Mathlib end-to-end accuracy theorem on the polynomial class + structural theorems + bit-exact correspondence + exact-antiderivative oracle"})
LEVEL_TEXT["C09"].update({
    "text": LEVEL_TEXT["C09"]["text"] + " Added (C09Accuracy): on the exact class a successful 2-D or triangle result is within an explicit bound of the exact iterated integral for ANY number of outer and inner bisections (for triangles: any term list of total degree <= 30, any triangle), and first-panel success for degree <= 19.",
    "note": "The iterated integral is not identified with a Mathlib area integral. Outside the exact class accuracy is explored.",
    "technique": "Lean 4 / Mathlib accuracy theorems over the quadrature model + trace-replay correspondence"})
LEVEL_TEXT["C11"].update({
    "text": LEVEL_TEXT["C11"]["text"] + " Added (C11Roots): interior piece boundaries = split points; for polynomial data each lies within 2*tol of a true real zero of g' in the same grid cell (IVT on the final Brent bracket); kernel-checked witness that two sign changes in one cell are missed.",
    "technique": "Lean 4 / Mathlib theorems (Brent invariants + intermediate value theorem) + bit-exact correspondence + prescribed-root oracle"})
LEVEL_TEXT["C13"].update({
    "text": LEVEL_TEXT["C13"]["text"] + " Added: RS piece boundaries within 4*tol of a true zero of f' or g' (C11Roots); reported values within the table defect of the true Riemann-Stieltjes integral on the polynomial class (C07Accuracy).",
    "technique": "Lean 4 / Mathlib theorems + bit-exact correspondence + prescribed-turning-point oracle"})
LEVEL_TEXT["C08"].update({
    "text": LEVEL_TEXT["C08"]["text"] + " Added (C08Accuracy): end-to-end accuracy and additivity on the exact class (polynomial f via the AD operations, affine c, |det| of constant sign per triangle), for any number of bisections, against the exact iterated integral over each triangle of the model's sweep; total = k*area(P) within 1.5e-16 relative for simple quadrilaterals and convex polygons with constant integrand.",
    "note": "C08General: totals over the whole even-odd region of every valid set (constant integrand: k*area; polynomial: Green boundary moment). Outside the exact class explored.",
    "technique": "Lean 4 / Mathlib end-to-end accuracy theorems (quadrature + AD Jacobian + sweep acceptance) + bit-exact correspondence + closed-form oracle"})
LEVEL_TEXT["C19"].update({
    "text": LEVEL_TEXT["C19"]["text"] + " Added (C19Total): totality and outcome classification of the string-level API model for all strings - the 2-D entry points never panic; the 3-D entry point never panics at the API level and its triangulation errors are exactly the sweep's; no panic at all for polygon texts in GeneralV.",
    "note": "Panic-freedom for degenerate polygon texts (duplicate/touching vertices, spikes) is explored.",
    "technique": "Lean 4 totality theorems over the API model + decide on translator-generated wiring + differential check string API / closure API / model"})
LEVEL_TEXT["C01"].update({
    "text": LEVEL_TEXT["C01"]["text"] + " Added (C01Success): for degree <= 19 and tol above twice the defect bound the routine succeeds on the first panel.",
    "note": "Trusts: Lean kernel (GMP arithmetic in decide +kernel), Mathlib, translator T1, harness. Rounding, the success clause for degree 20..31 and the transcendental class are explored only."})
