"""Per-property configuration of ./check: which harness streams decide the property,
what is trusted, and what remains partial (mirrors DESIGN §4)."""

TB_COMMON = [
    "Lean 4.33.0 kernel; axioms allowed: propext, Classical.choice, Quot.sound (audited by #print axioms on every theorem of Cav/Thm/<ID>.lean); no sorry/admit/native_decide/own axioms (source grep)",
    "correspondence harness /verif/harness (Rust, calls /repo in-process) + cavdrv (Lean models at Float): differential testing that validates the hand-written model, bounded by generator quality",
    "IEEE-754 rounding, libm and __powidf2 are modelled (Float instance), not verified; theorems are about the same program text in exact arithmetic (Rat/Real) or about control flow (any Num instance)",
]

def P(streams, tb=None, assumptions=None, partial="", extra=None):
    return {"streams": streams, "trusted_base": TB_COMMON + (tb or []),
            "assumptions": assumptions or [], "partial": partial, "extra": extra or []}

PROPS = {
    "C10": P(["quad1d"],
             tb=["BTreeSet<ApproxInterval> modelled as a sorted list under the same comparator (Cav/Model/Quad.lean setInsert/setRemove)"],
             assumptions=["integrands are deterministic functions of their argument (the model replays the logged x -> f(x) table)"],
             partial="non-negativity of the estimate and 'NaN sample never ok' are arithmetic facts: proved in exact arithmetic / under NaN-absorption laws, explored at Float"),
}

# what each claimed check says about itself in MANIFEST.json
LEVEL_TEXT = {
    "C10": {
        "text": "Kernel-checked theorems, valid for every Num instance (so also for the Float instance the driver executes): success is returned only behind the !NaN and e < tol tests (1-D, 2-D, triangle), coincident bounds give (0,0) without sampling, zero budget gives the convergence error, at most 1+2n panels (31 abscissae each) are evaluated for budget n. The model is tied to the code by bit-exact correspondence on seeded integrand traces; NaN-sample and sign-of-estimate clauses are decided by oracles on the implementation.",
        "note": "Trusts: Lean kernel; sorted-list model of BTreeSet; harness. Floating-point rounding is modelled, not verified. 'e >= 0' and 'NaN sample never ok' are not structural; explored on the implementation (see evidence.partial).",
        "technique": "Lean 4 structural induction on the iteration budget + bit-exact model/implementation correspondence",
    },
}

NOT_APPLICABLE = {}
