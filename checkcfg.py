"""Per-property configuration of ./check: which harness streams decide the property,
what is trusted, and what remains partial (mirrors DESIGN §4)."""

TB_COMMON = [
    "Lean 4.33.0 kernel; axioms allowed: propext, Classical.choice, Quot.sound (audited by #print axioms on every theorem of Cav/Thm/<ID>.lean); no sorry/admit/native_decide/own axioms (source grep)",
    "correspondence harness /verif/harness (Rust, calls /repo in-process) + cavdrv (Lean models at Float): differential testing that validates the hand-written model, bounded by generator quality",
    "IEEE-754 rounding, libm and __powidf2 are modelled (Float instance), not verified; theorems are about the same program text in exact arithmetic (Rat/Real) or about control flow (any Num instance)",
]

def P(streams, tb=None, assumptions=None, partial="", extra=None):
    return {"streams": streams, "trusted_base": TB_COMMON + (tb or []),
            "assumptions": assumptions or [], "partial": partial, "extra": extra or []}

QUAD_TB = ["BTreeSet<ApproxInterval> modelled as a sorted list under the same comparator (Cav/Model/Quad.lean setInsert/setRemove)",
           "T1 translator translate/tables.py (regex on the two const tables; literals -> exact dyadic rationals via python float/Fraction)"]
QUAD_AS = ["integrands are deterministic functions of their argument (the model replays the logged x -> f(x) table)"]
PARSE_TB = ["nom 7.1.3 combinators (tag, alpha1, digit1, fold_many0, verify, alt, double, i32) re-implemented in Cav/Model/Parse.lean from their sources; Rust str::parse::<f64> trusted to be correctly rounded (the model carries m*10^e and converts with its own exact rounding)",
            "T4/T5 translators translate/context.py, translate/shape.py (narrow regex facts; a fact not found becomes '?' and shape_ok fails)",
            "HashMap<String, ContextElement> modelled as an association list with overwrite-on-insert"]

TRI_TB = ["Rc<RefCell<..>> aliasing modelled by an explicit heap with ids (Cav/Model/Sweep.lean); BTreeSet<YEdge> with its state-dependent comparator modelled as a list scanned with the same comparator (exact for <= 11 active edges or a consistent order); BTreeMap of events as a sorted association list; HashSet<Pt> as a list",
          "exact integer oracle harness/src/geo.rs (validity, proper crossing, tiling) written independently of the crate"]
TRI_AS = ["oracle inputs are integer lattice points (exact i128 predicates); the model is additionally compared on non-finite/signed-zero/1e300 inputs"]

PROPS = {
    "C01": P(["quad1d"], tb=QUAD_TB, assumptions=QUAD_AS,
             partial="success clause ('a few hundred subdivisions suffice') and the transcendental class are explored, not proved; rounding explored"),
    "C02": P(["quad1d"], tb=QUAD_TB, assumptions=QUAD_AS,
             partial="the tiling theorem is over Rat; at Float a panel one ulp wide bisects onto itself and is dropped (loss <= 1 ulp*|f|), reproduced by the Float model and bounded by the oracle"),
    "C05": P(["eval"], tb=["T2 translator translate/ad.py + translate/rustexpr.py (mini Rust-expression parser; every generated def is cross-checked bit-for-bit at Float against the real AD method by stream eval)",
                          "Mathlib's HasDerivAt / special functions (Real.sin, Real.arsinh, ...) as the meaning of 'mathematical derivative'"],
             assumptions=["evaluation points interior to the domain by a margin (oracle) / InDomain (theorem)"],
             partial="rounding 'commensurate with conditioning' explored by oracles only; x**0 at x=0 under AD is NaN (outside 'interior of the domain')"),
    "C03": P(["tri"], tb=TRI_TB, assumptions=TRI_AS,
             partial="the tiling clauses (inside, pairwise disjoint, area sum) are decided by the exact integer oracle on every explored input (exhaustive on the 4x4 lattice up to 6 vertices); the all-input theorems cover non-degeneracy and the local geometry"),
    "C04": P(["tri"], tb=TRI_TB, assumptions=TRI_AS,
             partial="acceptance of every valid set is decided by exhaustive enumeration + structured generators, not by a theorem (needs the sweep invariant)"),
    "C15": P(["tri"], tb=TRI_TB, assumptions=TRI_AS,
             partial="panic-freedom of the model is decided on explored inputs; the deep field-wise `==` of BTreeSet::range's sanity check is modelled by identity only"),
    "C16": P(["tri"], tb=TRI_TB, assumptions=TRI_AS,
             partial="global rejection of every proper crossing is decided by exhaustive enumeration; the theorems cover the local crossing test"),
    "C06": P(["parse", "eval"], tb=PARSE_TB, assumptions=["user-registered names are ASCII words without a case-insensitive nan/inf prefix (CtxOK); see DESIGN C06"],
             partial=""),
    "C10": P(["quad1d"],
             tb=QUAD_TB, assumptions=QUAD_AS,
             partial="non-negativity of the estimate and 'NaN sample never ok' are arithmetic facts: proved in exact arithmetic / under NaN-absorption laws, explored at Float"),
}

# what each claimed check says about itself in MANIFEST.json
LEVEL_TEXT = {
    "C01": {
        "text": "Kernel-checked (decide +kernel) facts about the rule tables as they stand in the source, regenerated every run: K21 integrates x^k exactly to 1e-16 for k<=31, G10 for k<=19, not for 20 resp. 32; nodes embedded, weights positive. With the C02 tiling theorem this gives accuracy of every successful run on polynomials of degree <=31 in exact arithmetic (Thm/C01 accuracy theorems when present). Bit-exact correspondence of the Float model with the implementation; closed-form/Gauss-Legendre reference oracle for the smooth class incl. success and swap clauses.",
        "note": "Trusts: Lean kernel (GMP arithmetic in decide +kernel), translator T1, harness. Rounding and the success clause are explored only.",
        "technique": "Lean 4 kernel computation on regenerated tables + induction (tiling) + bit-exact differential correspondence",
    },
    "C02": {
        "text": "Theorem gk1d_ok_is_tiling_sum (Rat, every integrand f : Q -> Q, all bounds/tolerances/budgets incl. none): a successful result is the sum of K21 panel estimates over a directed chain tiling [a,b], the estimate is the sum of |G10-K21|, every panel occurs in the evaluation trace; chain_additive / chain_length_sum (no gap, overlap, repetition); 31 abscissae per panel; table exactness theorems of C01. The model's abscissa sequence is compared bit-for-bit with the sequence the real integrand callback receives.",
        "note": "Trusts: Lean kernel, sorted-list model of BTreeSet, translator T1, harness. Exact-arithmetic theorem; rounding clause explored by the trace-reconstruction oracle.",
        "technique": "Lean 4 invariant proof by induction on the iteration budget + callback-trace correspondence",
    },
    "C05": {
        "text": "Theorem ad_correct (R, Mathlib HasDerivAt): for every expression tree, any number of variables, every point in the open domain (InDomain) and ARBITRARY tangents, evalAD returns the plain value and the derivative along the curve; 21 per-primitive spec lemmas about the GENERATED defs (Gen/AD.lean is re-translated from differentiable.rs on every run, so a dropped quotient-rule term breaks AD.div_spec); value independent of tangent and tangent linear (all trees, no domain hypothesis), D1 accessors, chain rule, |det| of the Jacobian. Each generated def is compared bit-for-bit at Float with the real method on dense grids; oracles with independent derivative formulas and finite differences.",
        "note": "Trusts: Lean kernel, Mathlib, translator T2, harness. Rounding explored only; libm accuracy trusted.",
        "technique": "Lean 4 / Mathlib induction on expression trees over translator-generated AD primitives + bit-exact differential check",
    },
    "C03": {
        "text": "Sweep model (heap-explicit, line-by-line) agrees with triangulate_polygon_set on ordered triangle lists and error payloads, at Float and in exact arithmetic (XQ); theorems (XQ, all inputs): emitted triangles come only from clockwiseSign = C triples, which are non-degenerate; local geometry lemmas. The full tiling specification (corners, inside, disjoint, exact area) is evaluated by an independent exact integer oracle on EVERY vertex sequence up to 6 vertices on the 4x4 lattice (17.9M) plus structured nested sets.",
        "note": "Trusts: Lean kernel, heap/list models of Rc/BTreeSet/BTreeMap, harness oracle. The tiling clause itself is exhaustive exploration, not a theorem (DESIGN §6 risks).",
        "technique": "Lean 4 theorems on a heap-explicit sweep model + exhaustive small-lattice enumeration with exact oracle",
    },
    "C04": {
        "text": "Exhaustive: every valid single polygon with up to 6 vertices on the 4x4 lattice (548k+ valid of 17.9M sequences), all orientations/start vertices, and structured families (L, U, plus, T, comb, spiral, holes with islands) under dihedral maps/scalings/shears must be accepted; the sweep model at Float and at XQ reproduces every Ok/Err. Validation theorems (XQ): validation errors name a defect that is present.",
        "note": "Acceptance is decided by enumeration, the theorem part covers validation only. Genuine defect repaired by fix commit 18aefee (see known_findings.jsonl).",
        "technique": "exhaustive enumeration against a Lean-modelled sweep + Lean validation theorems",
    },
    "C15": {
        "text": "The model has explicit panic outcomes (RefCell borrow conflicts, unreachable!, index, B-tree range sanity) and is compared with the implementation under catch_unwind on every vertex sequence up to 6 vertices on the 4x4 lattice, random soups, NaN/inf/-0/subnormal/1e300 coordinates, empty and short inputs; theorems (XQ, all inputs): error classification of validation (NoPolygon / NonFinite / Duplicate name a present defect; first-polygon completeness), fromTriplet/validPt characterisations.",
        "note": "Genuine defect (RefCell double borrow, unreachable!) repaired by fix commit d71cca1. Panic-freedom beyond the explored inputs is not a theorem.",
        "technique": "Lean 4 theorems on the sweep model's validation + exhaustive panic search with model correspondence",
    },
    "C16": {
        "text": "Exact proper-crossing oracle x implementation on every vertex sequence up to 6 vertices on the 4x4 lattice (4.87M with a proper crossing: all must be rejected), random multi-polygon soups; model correspondence at Float and XQ; theorems: affine order lemma behind will_overlap_* (edges ordered at both ends of a span do not cross inside it; a proper crossing reverses the order).",
        "note": "Genuine defects repaired by fix commits f406d59 and 18aefee. Global rejection is enumeration, not a theorem.",
        "technique": "exhaustive enumeration with exact oracle + Lean local lemmas",
    },
    "C06": {
        "text": "Tie theorems (by decide on regenerated data): the operator tags, or_else order, allow_neg arguments, '^ before **', negation-last, left folds, bracket flags and residue checks of parsing.rs are those of the model; both default contexts bind every name n to AD::n / f64::n. parse_print (when present in Thm/C06Print): every string of the grammar Spec/Grammar.lean compiles to the tree it denotes. Model vs implementation: the actual tree is read back through compile_expression::<I,Sym> and compared on grammar-directed renderings, exhaustive token strings, mutations, Unicode; numeric eval at f64 and AD compared bit-for-bit with the model and with a reference evaluator of the conventional tree.",
        "note": "Trusts: Lean kernel, translators T4/T5, nom re-implementation, harness. Structural property: no floating point involved in the tree; evaluation compares bits.",
        "technique": "Lean 4 proof over an executable parser model + symbolic-tree differential correspondence",
    },
    "C10": {
        "text": "Kernel-checked theorems, valid for every Num instance (so also for the Float instance the driver executes): success is returned only behind the !NaN and e < tol tests (1-D, 2-D, triangle), coincident bounds give (0,0) without sampling, zero budget gives the convergence error, at most 1+2n panels (31 abscissae each) are evaluated for budget n. The model is tied to the code by bit-exact correspondence on seeded integrand traces; NaN-sample and sign-of-estimate clauses are decided by oracles on the implementation.",
        "note": "Trusts: Lean kernel; sorted-list model of BTreeSet; harness. Floating-point rounding is modelled, not verified. 'e >= 0' and 'NaN sample never ok' are not structural; explored on the implementation (see evidence.partial).",
        "technique": "Lean 4 structural induction on the iteration budget + bit-exact model/implementation correspondence",
    },
}

NOT_APPLICABLE = {}
