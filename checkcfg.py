"""Per-property configuration of ./check: which harness streams decide the property,
what is trusted, and what remains partial (mirrors DESIGN §4)."""

TB_COMMON = [
    "Lean 4.33.0 kernel; axioms allowed: propext, Classical.choice, Quot.sound (audited by #print axioms on every theorem of Cav/Thm/<ID>.lean); no sorry/admit/native_decide/own axioms (source grep)",
    "correspondence harness /verif/harness (Rust, calls /repo in-process) + cavdrv (Lean models at Float): differential testing that validates the hand-written model, bounded by generator quality",
    "IEEE-754 rounding, libm and __powidf2 are modelled (Float instance), not verified; theorems are about the same program text in exact arithmetic (Rat/Real) or about control flow (any Num instance)",
]

def P(streams, tb=None, assumptions=None, partial="", extra=None):
    return {"streams": streams, "trusted_base": TB_COMMON + (tb or []),
            "assumptions": assumptions or [], "partial": partial, "extra": extra or []}

QUAD_TB = ["BTreeSet<ApproxInterval> modelled as a sorted list under the same comparator (Cav/Model/Quad.lean setInsert/setRemove)",
           "T1 translator translate/tables.py (regex on the two const tables; literals -> exact dyadic rationals via python float/Fraction)"]
QUAD_AS = ["integrands are deterministic functions of their argument (the model replays the logged x -> f(x) table)"]
PARSE_TB = ["nom 7.1.3 combinators (tag, alpha1, digit1, fold_many0, verify, alt, double, i32) re-implemented in Cav/Model/Parse.lean from their sources; Rust str::parse::<f64> trusted to be correctly rounded (the model carries m*10^e and converts with its own exact rounding)",
            "T4/T5 translators translate/context.py, translate/shape.py (narrow regex facts; a fact not found becomes '?' and shape_ok fails)",
            "HashMap<String, ContextElement> modelled as an association list with overwrite-on-insert"]

PROPS = {
    "C01": P(["quad1d"], tb=QUAD_TB, assumptions=QUAD_AS,
             partial="success clause ('a few hundred subdivisions suffice') and the transcendental class are explored, not proved; rounding explored"),
    "C02": P(["quad1d"], tb=QUAD_TB, assumptions=QUAD_AS,
             partial="the tiling theorem is over Rat; at Float a panel one ulp wide bisects onto itself and is dropped (loss <= 1 ulp*|f|), reproduced by the Float model and bounded by the oracle"),
    "C06": P(["parse", "eval"], tb=PARSE_TB, assumptions=["user-registered names are ASCII words without a case-insensitive nan/inf prefix (CtxOK); see DESIGN C06"],
             partial=""),
    "C10": P(["quad1d"],
             tb=QUAD_TB, assumptions=QUAD_AS,
             partial="non-negativity of the estimate and 'NaN sample never ok' are arithmetic facts: proved in exact arithmetic / under NaN-absorption laws, explored at Float"),
}

# what each claimed check says about itself in MANIFEST.json
LEVEL_TEXT = {
    "C01": {
        "text": "Kernel-checked (decide +kernel) facts about the rule tables as they stand in the source, regenerated every run: K21 integrates x^k exactly to 1e-16 for k<=31, G10 for k<=19, not for 20 resp. 32; nodes embedded, weights positive. With the C02 tiling theorem this gives accuracy of every successful run on polynomials of degree <=31 in exact arithmetic (Thm/C01 accuracy theorems when present). Bit-exact correspondence of the Float model with the implementation; closed-form/Gauss-Legendre reference oracle for the smooth class incl. success and swap clauses.",
        "note": "Trusts: Lean kernel (GMP arithmetic in decide +kernel), translator T1, harness. Rounding and the success clause are explored only.",
        "technique": "Lean 4 kernel computation on regenerated tables + induction (tiling) + bit-exact differential correspondence",
    },
    "C02": {
        "text": "Theorem gk1d_ok_is_tiling_sum (Rat, every integrand f : Q -> Q, all bounds/tolerances/budgets incl. none): a successful result is the sum of K21 panel estimates over a directed chain tiling [a,b], the estimate is the sum of |G10-K21|, every panel occurs in the evaluation trace; chain_additive / chain_length_sum (no gap, overlap, repetition); 31 abscissae per panel; table exactness theorems of C01. The model's abscissa sequence is compared bit-for-bit with the sequence the real integrand callback receives.",
        "note": "Trusts: Lean kernel, sorted-list model of BTreeSet, translator T1, harness. Exact-arithmetic theorem; rounding clause explored by the trace-reconstruction oracle.",
        "technique": "Lean 4 invariant proof by induction on the iteration budget + callback-trace correspondence",
    },
    "C06": {
        "text": "Tie theorems (by decide on regenerated data): the operator tags, or_else order, allow_neg arguments, '^ before **', negation-last, left folds, bracket flags and residue checks of parsing.rs are those of the model; both default contexts bind every name n to AD::n / f64::n. parse_print (when present in Thm/C06Print): every string of the grammar Spec/Grammar.lean compiles to the tree it denotes. Model vs implementation: the actual tree is read back through compile_expression::<I,Sym> and compared on grammar-directed renderings, exhaustive token strings, mutations, Unicode; numeric eval at f64 and AD compared bit-for-bit with the model and with a reference evaluator of the conventional tree.",
        "note": "Trusts: Lean kernel, translators T4/T5, nom re-implementation, harness. Structural property: no floating point involved in the tree; evaluation compares bits.",
        "technique": "Lean 4 proof over an executable parser model + symbolic-tree differential correspondence",
    },
    "C10": {
        "text": "Kernel-checked theorems, valid for every Num instance (so also for the Float instance the driver executes): success is returned only behind the !NaN and e < tol tests (1-D, 2-D, triangle), coincident bounds give (0,0) without sampling, zero budget gives the convergence error, at most 1+2n panels (31 abscissae each) are evaluated for budget n. The model is tied to the code by bit-exact correspondence on seeded integrand traces; NaN-sample and sign-of-estimate clauses are decided by oracles on the implementation.",
        "note": "Trusts: Lean kernel; sorted-list model of BTreeSet; harness. Floating-point rounding is modelled, not verified. 'e >= 0' and 'NaN sample never ok' are not structural; explored on the implementation (see evidence.partial).",
        "technique": "Lean 4 structural induction on the iteration budget + bit-exact model/implementation correspondence",
    },
}

NOT_APPLICABLE = {}
