#!/usr/bin/env python3
"""Regenerate MANIFEST.json from checkcfg.py (claimed checks) and properties.jsonl."""
import json, os, sys
V = os.path.dirname(os.path.abspath(__file__))
sys.path.insert(0, V)
from checkcfg import PROPS, LEVEL_TEXT, NOT_APPLICABLE
ids = [json.loads(l)["id"] for l in open(V + "/properties.jsonl")]
checks = []
for pid in ids:
    if pid not in PROPS:
        continue
    c = PROPS[pid]
    lt = LEVEL_TEXT[pid]
    checks.append({
        "property_id": pid,
        "quick_cmd": "./check %s quick" % pid,
        "thorough_cmd": "./check %s thorough" % pid,
        "evidence_file": "/verif/evidence/%s.json" % pid,
        "replay_cmd_template": "./check %s --replay {path}" % pid,
        "engine": "lean4-proof+correspondence",
        "level_claimed": {"category": "proof", "text": lt["text"], "design_ref": "DESIGN.md §4 %s" % pid},
        "level_note": lt["note"],
        "technique": lt["technique"],
    })
na = [{"property_id": p, "reason": NOT_APPLICABLE.get(p, "check not built yet in this round; see DESIGN.md §6 build order")} for p in ids if p not in PROPS]
m = {
    "version": 1,
    "setup_cmd": "./setup.sh",
    "hooks": {
        "guard": "cavint_verif",
        "enable": "RUSTFLAGS=\"--cfg cavint_verif\" (set by ./check and setup.sh when they build the harness against /repo). One hook: src/core/triangulation.rs keeps a thread-local trace of the number of active edges at the top of every pass of the sweep's event loop (VERIF_ACTIVE_TRACE); the harness compares its length and hash with the same trace of the Lean model (Model/SweepMon.lean sweepTrace) for every input sent to the model. Cargo.toml declares the cfg name for the unexpected_cfgs lint.",
        "baseline_off_cmd": "cd /repo && cargo test --workspace --no-fail-fast --offline",
        "source_commits": ["f0c8a87", "8d52632"],
        "add_only": True,
    },
    "engines": [
        {"name": "lean4-proof+correspondence", "path": "/verif/lean (Lake project Cav, driver cavdrv), /verif/harness (Rust), /verif/translate (python), /verif/check",
         "serves_properties": [c["property_id"] for c in checks],
         "kind_free_text": "Lean 4 theorems about executable models generic over a numeric class; translators regenerate tables/AD formulas/wiring from the source; a Rust harness runs model (at Float) and implementation on the same inputs bit-for-bit and searches for failing inputs with independent oracles"},
    ],
    "checks": checks,
    "not_applicable": na,
    "notes": "See DESIGN.md. Every check: regen -> lake build Cav.Thm.<ID> + #print axioms audit -> cargo build harness against /repo -> correspondence streams -> oracles -> verdict.",
}
json.dump(m, open(V + "/MANIFEST.json", "w"), indent=1)
print("MANIFEST: %d checks, %d not_applicable" % (len(checks), len(na)))
