#!/usr/bin/env python3
"""C20 probe: load the extension module built from /repo's current tree into CPython, replay
the argument tuples written by `cavh pycases`, and compare every attribute (bit patterns of
every float, nesting, types) with what the Rust API returned for the same arguments.
Usage: c20_probe.py <dir containing cavint.so> <pycases.jsonl> <report.json>"""
import json, math, struct, sys, traceback

MASK = (1 << 64) - 1
HASH0 = 14695981039346656037


def bits(x):
    if x != x:
        return 0x7FF8000000000000
    return struct.unpack("<Q", struct.pack("<d", x))[0]


def hl(xs):
    h = HASH0
    for x in xs:
        h = ((h ^ bits(x)) * 1099511628211) & MASK
    return "%016x" % h


def hx(x):
    return "%016x" % bits(x)


def integ(v):
    return "none" if v is None else "%s,%s" % (hx(v[0]), hx(v[1]))


class TypeProblem(Exception):
    pass


def need(cond, what):
    if not cond:
        raise TypeProblem(what)


def flist(v, what):
    need(isinstance(v, list), what + " is not a list")
    for x in v:
        need(type(x) is float, what + " element is not a float")
    return v


def dump2(d):
    for a in ("a", "b"):
        need(type(getattr(d, a)) is float, a + " is not a float")
    fv, xv, gv, dgv = (flist(getattr(d, n), n) for n in ("fv", "xv", "gv", "dgv"))
    cvs = d.cvs
    need(isinstance(cvs, list), "cvs is not a list")
    parts = []
    for item in cvs:
        need(isinstance(item, tuple) and len(item) == 2, "cvs item is not a 2-tuple")
        i, pts = item
        need(type(i) is int and isinstance(pts, list), "cvs item types")
        flat = []
        for p in pts:
            need(isinstance(p, list) and len(p) == 2, "curve point is not a 2-list")
            flat += flist(p, "curve point")
        parts.append("%d:%d:%s" % (i, len(pts), hl(flat)))
    iv = d.integ_value
    need(iv is None or (isinstance(iv, tuple) and len(iv) == 2 and all(type(x) is float for x in iv)), "integ_value type")
    return "[%s %s n=%d fv=%s xv=%s gv=%s dgv=%s integ=%s cvs=%d %s]" % (
        hx(d.a), hx(d.b), len(xv), hl(fv), hl(xv), hl(gv), hl(dgv), integ(iv), len(cvs), " ".join(parts))


def dump3(d):
    t = d.triag
    need(isinstance(t, list) and len(t) == 3, "triag shape")
    tri = []
    for p in t:
        tri += flist(p, "triag point")
    curs = []
    need(isinstance(d.curtains, list) and len(d.curtains) == 3, "curtains shape")
    for m in d.curtains:
        flat = []
        for row in m:
            for p in row:
                need(isinstance(p, list) and len(p) == 3, "curtain point")
                flat += flist(p, "curtain point")
        curs.append("%dx%d:%s" % (len(m), len(m[0]) if m else 0, hl(flat)))
    def mesh(mm, k, what):
        flat = []
        for row in mm:
            for p in row:
                need(isinstance(p, list) and len(p) == k, what + " point")
                flat += flist(p, what + " point")
        return "%dx%d:%s" % (len(mm), len(mm[0]) if mm else 0, hl(flat))
    iv = d.integ_value
    need(iv is None or (isinstance(iv, tuple) and len(iv) == 2 and all(type(x) is float for x in iv)), "integ_value type")
    return "[tri=%s cur=%s top=%s bot=%s integ=%s]" % (hl(tri), " ".join(curs), mesh(d.top_mesh, 3, "top_mesh"), mesh(d.bot_mesh, 2, "bot_mesh"), integ(iv))


def fnum(v):
    return {"nan": float("nan"), "inf": float("inf"), "-inf": float("-inf")}.get(v, v) if isinstance(v, str) else float(v)


def main():
    sodir, cases_path, report_path = sys.argv[1:4]
    sys.path.insert(0, sodir)
    findings, hist, samples = [], {}, []
    def count(k):
        hist[k] = hist.get(k, 0) + 1
    def finding(kind, inp, detail):
        count("finding:oracle:" + kind)
        if len([f for f in findings if f["kind"] == kind]) < 40:
            findings.append({"class": "oracle", "props": ["C20"], "kind": kind, "input": inp, "detail": detail})
    try:
        import cavint
    except BaseException as e:
        finding("import-failed", "import cavint", repr(e))
        json.dump({"stream": "pyprobe", "cases": 1, "model_compared": 0, "nontrivial": 0, "exhaustive": False, "rule": "", "hist": hist, "samples": [], "notes": [], "findings": findings}, open(report_path, "w"))
        return
    names = sorted(n for n in dir(cavint) if not n.startswith("_"))
    for fn in ("display_cav2d", "display_cav2d_rs", "display_cav3d"):
        if not callable(getattr(cavint, fn, None)):
            finding("function-missing", fn, str(names))
    cases = 0
    for line in open(cases_path):
        line = line.strip()
        if not line:
            continue
        c = json.loads(line)
        args = list(c["args"])
        args[-1] = fnum(args[-1])
        inp = "%s%r" % (c["fn"], tuple(args))
        cases += 1
        count("fn:" + c["fn"])
        try:
            res = getattr(cavint, c["fn"])(*args)
            need(isinstance(res, list), "result is not a list")
            dumps = [dump3(d) if c["fn"] == "display_cav3d" else dump2(d) for d in res]
            got = "ok %d %s" % (len(res), " ".join(dumps))
            count("py:ok")
            # attributes are read-only
            if res:
                try:
                    res[0].integ_value = None
                    finding("attribute-settable", inp, "integ_value")
                except AttributeError:
                    pass
                if len(samples) < 4:
                    samples.append("%s -> %d objects" % (inp[:160], len(res)))
        except RuntimeError as e:
            got = "err %s" % (e,)
            count("py:RuntimeError")
        except TypeProblem as e:
            finding("wrong-python-type", inp, str(e))
            continue
        except BaseException as e:
            got = "exception %s" % type(e).__name__
            count("py:" + type(e).__name__)
            finding("non-runtime-exception", inp, "%s: %s" % (type(e).__name__, str(e)[:200]))
            continue
        if got != c["expect"]:
            if c["expect"] == "panic":
                finding("rust-api-panicked", inp, got[:200])
            else:
                finding("python-differs-from-rust-api", inp, "python: %s | rust: %s" % (got[:300], c["expect"][:300]))
    # wrong arity / wrong types: TypeError expected, never a crash
    bad_calls = [
        ("display_cav2d", ()),
        ("display_cav2d", ("x", "y", "[0,1]")),
        ("display_cav2d", ("x", "y", "[0,1]", True, 1, 1, 1, 1, 1, 1e-3, "extra")),
        ("display_cav2d", (1, "y", "[0,1]", True, 1, 1, 1, 1, 1, 1e-3)),
        ("display_cav2d", ("x", "y", "[0,1]", True, -1, 1, 1, 1, 1, 1e-3)),
        ("display_cav2d", ("x", "y", "[0,1]", True, 1.5, 1, 1, 1, 1, 1e-3)),
        ("display_cav2d", ("x", "y", "[0,1]", True, 1, 1, 1, 1, 1, "tol")),
        ("display_cav2d_rs", ("x", "x", None, True, 1, 1, 1, 1, 1, 1e-3)),
        ("display_cav3d", ("x", "z", "z", "[[0,0],[1,0],[0,1]]", True, 1, 1, 1, 2 ** 70, 1e-3)),
        ("display_cav3d", ("x", "z", "z", ["[[0,0],[1,0],[0,1]]"], True, 1, 1, 1, 1, 1e-3)),
    ]
    for fn, a in bad_calls:
        cases += 1
        count("badcall")
        try:
            getattr(cavint, fn)(*a)
            finding("bad-call-accepted", "%s%r" % (fn, a), "")
        except (TypeError, OverflowError):
            pass
        except BaseException as e:
            finding("bad-call-wrong-exception", "%s%r" % (fn, a), "%s: %s" % (type(e).__name__, str(e)[:200]))
    rep = {"stream": "pyprobe", "cases": cases, "model_compared": 0, "nontrivial": hist.get("py:ok", 0) + hist.get("py:RuntimeError", 0), "exhaustive": False,
           "rule": "CPython %d.%d imports the cdylib built from /repo; the argument tuples of `cavh pycases` (valid and malformed texts, all configurations) plus wrong arity / wrong types; every attribute compared by bit pattern with the Rust API's answer; non-trivial = the call returned objects or raised RuntimeError" % sys.version_info[:2],
           "hist": hist, "samples": samples, "notes": ["module exports: " + ", ".join(names)], "findings": findings}
    json.dump(rep, open(report_path, "w"))


if __name__ == "__main__":
    try:
        main()
    except BaseException:
        traceback.print_exc()
        sys.exit(3)
