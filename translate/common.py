import os
REPO = os.environ.get("CAV_REPO", "/repo")
VERIF = os.path.dirname(os.path.dirname(os.path.abspath(__file__)))
GEN = VERIF + "/lean/Cav/Gen"

def write_if_changed(path, text):
    try:
        if open(path).read() == text:
            return False
    except FileNotFoundError:
        pass
    os.makedirs(os.path.dirname(path), exist_ok=True)
    with open(path, "w") as f:
        f.write(text)
    return True
