"""A deliberately small parser for the straight-line Rust expressions used in
differentiable.rs / parsing.rs / helpers.rs (T2, DESIGN §1.3).  Anything outside the
subset raises Unsupported; the caller then emits NO definition for that item (fail closed)."""
import re


class Unsupported(Exception):
    pass


TOK = re.compile(r"""\s*(?:
    (?P<num>\d+(?:\.\d+)?(?:e-?\d+)?(?:f64|usize|i32)?) |
    (?P<id>[A-Za-z_][A-Za-z_0-9]*) |
    (?P<op>==|!=|<=|>=|&&|\|\||\*=|\+=|-=|[-+*/()<>\[\]{},.;=!&|:])
)""", re.X)


def tokenize(src):
    src = re.sub(r"//[^\n]*", "", src)
    pos, out = 0, []
    while pos < len(src):
        if src[pos:].strip() == "":
            break
        m = TOK.match(src, pos)
        if not m:
            raise Unsupported("cannot tokenize at: " + src[pos:pos + 30])
        pos = m.end()
        if m.group("num"):
            out.append(("num", m.group("num")))
        elif m.group("id"):
            out.append(("id", m.group("id")))
        else:
            out.append(("op", m.group("op")))
    return out


class Parser:
    """AST nodes (tuples):
       ('num', text) ('var', name) ('field', e, '0'|'1') ('index', e, int) ('call', name, [args])
       ('apply', e, [args])  -- calling a closure value
       ('method', e, name, [args]) ('bin', op, l, r) ('neg', e) ('not', e)
       ('if', c, t, f) ('array', [es]) ('tuple', [es]) ('cast', e, ty)
       ('block', [('let', name, mut, e) | ('assign', lhs, op, e)], result)"""

    def __init__(self, toks):
        self.t = toks
        self.i = 0

    def peek(self, k=0):
        return self.t[self.i + k] if self.i + k < len(self.t) else ("eof", "")

    def eat(self, kind=None, val=None):
        tk = self.peek()
        if (kind and tk[0] != kind) or (val is not None and tk[1] != val):
            raise Unsupported("expected %s %s, got %s" % (kind, val, tk))
        self.i += 1
        return tk

    def at(self, val):
        return self.peek()[1] == val and self.peek()[0] in ("op", "id")

    # block: { stmt* expr }
    def block_body(self):
        stmts = []
        while True:
            if self.at("let"):
                self.eat()
                mut = False
                if self.at("mut"):
                    self.eat(); mut = True
                name = self.eat("id")[1]
                if self.at(":"):
                    raise Unsupported("typed let")
                self.eat("op", "=")
                e = self.expr()
                self.eat("op", ";")
                stmts.append(("let", name, mut, e))
                continue
            save = self.i
            e = self.expr()
            if self.peek()[1] in ("=", "*=", "+=", "-=") and self.peek()[0] == "op":
                op = self.eat()[1]
                rhs = self.expr()
                self.eat("op", ";")
                stmts.append(("assign", e, op, rhs))
                continue
            if self.at(";"):
                raise Unsupported("expression statement")
            return ("block", stmts, e) if stmts else e

    def expr(self):
        return self.or_()

    def or_(self):
        l = self.and_()
        while self.at("||"):
            self.eat(); l = ("bin", "||", l, self.and_())
        return l

    def and_(self):
        l = self.cmp()
        while self.at("&&"):
            self.eat(); l = ("bin", "&&", l, self.cmp())
        return l

    def cmp(self):
        l = self.add()
        if self.peek()[0] == "op" and self.peek()[1] in ("<", ">", "<=", ">=", "==", "!="):
            op = self.eat()[1]
            return ("bin", op, l, self.add())
        return l

    def add(self):
        l = self.mul()
        while self.peek()[0] == "op" and self.peek()[1] in ("+", "-"):
            op = self.eat()[1]
            l = ("bin", op, l, self.mul())
        return l

    def mul(self):
        l = self.cast()
        while self.peek()[0] == "op" and self.peek()[1] in ("*", "/"):
            op = self.eat()[1]
            l = ("bin", op, l, self.cast())
        return l

    def cast(self):
        e = self.unary()
        while self.at("as"):
            self.eat()
            ty = self.eat("id")[1]
            e = ("cast", e, ty)
        return e

    def unary(self):
        if self.at("-"):
            self.eat(); return ("neg", self.unary())
        if self.at("!"):
            self.eat(); return ("not", self.unary())
        if self.at("*") or self.at("&"):
            self.eat(); return self.unary()     # deref / borrow are identity on values
        return self.postfix()

    def args(self):
        self.eat("op", "(")
        a = []
        while not self.at(")"):
            a.append(self.expr())
            if self.at(","):
                self.eat()
        self.eat("op", ")")
        return a

    def postfix(self):
        e = self.primary()
        while True:
            if self.at("."):
                self.eat()
                tk = self.eat()
                if tk[0] == "num" and tk[1] in ("0", "1"):
                    e = ("field", e, tk[1])
                elif tk[0] == "id":
                    if self.at("("):
                        e = ("method", e, tk[1], self.args())
                    else:
                        e = ("field", e, tk[1])
                else:
                    raise Unsupported("field " + str(tk))
            elif self.at("["):
                self.eat()
                ix = self.eat("num")[1]
                self.eat("op", "]")
                e = ("index", e, int(ix))
            elif self.at("(") and e[0] in ("var",):
                e = ("apply", e, self.args())
            else:
                return e

    def primary(self):
        tk = self.peek()
        if tk[0] == "num":
            self.eat(); return ("num", tk[1])
        if tk[0] == "op" and tk[1] == "(":
            self.eat()
            e = self.expr()
            if self.at(","):
                es = [e]
                while self.at(","):
                    self.eat()
                    if self.at(")"):
                        break
                    es.append(self.expr())
                self.eat("op", ")")
                return ("tuple", es)
            self.eat("op", ")")
            return e
        if tk[0] == "op" and tk[1] == "[":
            self.eat()
            es = []
            while not self.at("]"):
                es.append(self.expr())
                if self.at(","):
                    self.eat()
            self.eat("op", "]")
            return ("array", es)
        if tk[0] == "op" and tk[1] == "{":
            self.eat()
            b = self.block_body()
            self.eat("op", "}")
            return b
        if tk[0] == "id" and tk[1] == "if":
            self.eat()
            c = self.expr_no_struct()
            self.eat("op", "{"); t = self.block_body(); self.eat("op", "}")
            if not self.at("else"):
                raise Unsupported("if without else")
            self.eat()
            if self.at("if"):
                f = self.primary()
            else:
                self.eat("op", "{"); f = self.block_body(); self.eat("op", "}")
            return ("if", c, t, f)
        if tk[0] == "id" and tk[1] == "return":
            raise Unsupported("return")
        if tk[0] == "id":
            self.eat()
            name = tk[1]
            # paths like f64::INFINITY / Self::from
            while self.at(":"):
                self.eat("op", ":"); self.eat("op", ":")
                name += "::" + self.eat("id")[1]
            if self.at("(") and (name[0].isupper() or "::" in name):
                return ("call", name, self.args())
            return ("var", name)
        raise Unsupported("unexpected token %s" % (tk,))

    def expr_no_struct(self):
        return self.expr()


def parse_body(src):
    p = Parser(tokenize(src))
    e = p.block_body()
    if p.peek()[0] != "eof":
        raise Unsupported("trailing tokens: %s" % (p.t[p.i:p.i + 5],))
    return e


def find_fn(src, header_regex):
    """Return (params_text, body_text) of the first fn whose header matches."""
    m = re.search(header_regex, src)
    if not m:
        return None
    # parameters
    i = src.index("(", m.end() - 1) if src[m.end() - 1] != "(" else m.end() - 1
    depth, j = 0, i
    while True:
        if src[j] == "(":
            depth += 1
        elif src[j] == ")":
            depth -= 1
            if depth == 0:
                break
        j += 1
    params = src[i + 1:j]
    k = src.index("{", j)
    depth, e = 0, k
    while True:
        if src[e] == "{":
            depth += 1
        elif src[e] == "}":
            depth -= 1
            if depth == 0:
                break
        e += 1
    return params, src[k + 1:e]
