#!/usr/bin/env python3
"""T5: regenerate lean/Cav/Gen/Shape.lean: the facts about the *shape* of parsing.rs,
helpers.rs and cav2d/display.rs that parametrise the hand-written models (operator tags,
`or_else` order, `allow_neg` arguments, bracket flags, residue checks, sign branch order,
display constants).  Each fact is extracted by a narrow pattern; a fact that is not found
is emitted as the string "?" so the `shape_ok` theorem (by decide) fails and names it."""
import re, sys
from common import write_if_changed, REPO, GEN

def fn_body(src, name):
    m = re.search(r"fn\s+%s\b.*?\{" % name, src, re.S)
    if not m:
        return ""
    k = m.end() - 1
    depth, e = 0, k
    while e < len(src):
        if src[e] == "{": depth += 1
        elif src[e] == "}":
            depth -= 1
            if depth == 0: break
        e += 1
    return src[k + 1:e]

def squash(s): return " ".join(s.split())

def main():
    p = open(REPO + "/src/core/parsing.rs").read()
    h = open(REPO + "/src/core/helpers.rs").read()
    d2 = open(REPO + "/src/cav2d/display.rs").read()
    facts = []
    def fact(k, v): facts.append((k, v if v is not None else "?"))
    # parse_term
    t = fn_body(p, "parse_term")
    m = re.search(r"verify\(parse_neg_count,\s*\|negations\|\s*\{(.*?)\}\)", t, re.S)
    fact("term.verify", squash(m.group(1)) if m else None)
    alts = re.findall(r"(parse_parenth|parse_const|parse_func|parse_var)\(expr", t)
    fact("term.alts", ",".join(alts))
    m = re.search(r"if let Ok\(\(expr, exponent\)\) = (parse_pow)\(ex_term\.0, context\)\s*\{.*?Expr::BiOp\(Box::new\(ex_term\.1\), Box::new\(exponent\), &T::pow\);\s*\}\s*else if let Ok\(\(expr, exponent\)\) = (parse_powi)\(ex_term\.0\)\s*\{.*?Expr::Powi\(Box::new\(ex_term\.1\), exponent\);", t, re.S)
    fact("term.exponent", "pow-then-powi" if m else None)
    m = re.search(r"if negations == 1\s*\{\s*ex_term\.1 = Expr::UOp\(Box::new\(ex_term\.1\), &T::neg\);\s*\}\s*Ok\(ex_term\)", t)
    fact("term.neg-last", "yes" if m else None)
    # parse_pow / parse_powi
    b = fn_body(p, "parse_pow")
    m = re.search(r'tag::<_, _, Error<&str>>\("(\^)"\)', b)
    fact("pow.tag", m.group(1) if m else None)
    m = re.search(r"parse_term\(expr, context, (true|false)\)\s*$", b.strip())
    fact("pow.allow_neg", m.group(1) if m else None)
    b = fn_body(p, "parse_powi")
    m = re.search(r'tag::<_, _, Error<&str>>\("(\*\*)"\)', b)
    fact("powi.tag", m.group(1) if m else None)
    fact("powi.int", "i32" if "nom::character::complete::i32::<_, Error<&str>>(expr)" in b else None)
    # parse_terms_mul
    b = fn_body(p, "parse_terms_mul")
    m = re.search(r"let mut ex_terms = parse_term\(expr, context, (\w+)\)\?;", b)
    fact("mul.first", m.group(1) if m else None)
    m = re.search(r'alt::<_, _, Error<&str>, _>\(\(tag\("(.)"\), tag\("(.)"\)\)\)\(ex_terms\.0\)', b)
    fact("mul.tags", (m.group(1) + m.group(2)) if m else None)
    m = re.search(r"let ex_term = parse_term\(nexpr, context, (\w+)\)\?;", b)
    fact("mul.next", m.group(1) if m else None)
    m = re.search(r'"\*" => &T::(\w+),\s*"/" => &T::(\w+),', b)
    fact("mul.ops", (m.group(1) + "," + m.group(2)) if m else None)
    fact("mul.leftfold", "yes" if "Expr::BiOp(Box::new(ex_terms.1), Box::new(ex_term.1), func)" in b else None)
    # parse_expression
    b = fn_body(p, "parse_expression")
    m = re.search(r"let mut ex_terms = parse_terms_mul\(expr, context, (\w+)\)\?;", b)
    fact("add.first", m.group(1) if m else None)
    m = re.search(r'alt::<_, _, Error<&str>, _>\(\(tag\("(.)"\), tag\("(.)"\)\)\)\(ex_terms\.0\)', b)
    fact("add.tags", (m.group(1) + m.group(2)) if m else None)
    m = re.search(r"let ex_term = parse_terms_mul\(nexpr, context, (\w+)\)\?;", b)
    fact("add.next", m.group(1) if m else None)
    m = re.search(r'"\+" => &T::(\w+),\s*"-" => &T::(\w+),', b)
    fact("add.ops", (m.group(1) + "," + m.group(2)) if m else None)
    fact("add.leftfold", "yes" if "Expr::BiOp(Box::new(ex_terms.1), Box::new(ex_term.1), func)" in b else None)
    # parse_parenth / parse_func / parse_var / parse_const
    b = fn_body(p, "parse_parenth")
    fact("parenth", ",".join(re.findall(r'tag::<_, _, Error<&str>>\("(.)"\)', b)) + (";expr" if "parse_expression(expr, context)?" in b else ""))
    b = fn_body(p, "parse_func")
    fact("func", ",".join(re.findall(r'tag::<_, _, Error<&str>>\("(.)"\)', b)) + (";expr" if "parse_expression(expr, context)?" in b else "")
         + (";uop-only" if re.search(r"Some\(ContextElement::UOp\(f\)\) => \(\*f\)\.clone\(\),\s*_ => \{\s*return Err", b) else ""))
    b = fn_body(p, "parse_var")
    fact("var", ("const" if "Some(ContextElement::Const(x)) => Expr::Const(x.clone())," in b else "?") + ","
         + ("var" if "Some(ContextElement::Var(i)) => Expr::Var(*i)," in b else "?"))
    b = fn_body(p, "parse_name")
    fact("name", "alpha1" if "alpha1::<_, Error<&str>>(expr)" in b else None)
    b = fn_body(p, "parse_const")
    guard = re.search(r"Ok\(\(rest, _\)\)\s*if expr\[\.\.expr\.len\(\) - rest\.len\(\)\]\.ends_with\(\|ch: char\| ch\.is_ascii_alphabetic\(\)\)\s*&& rest\.starts_with\(\|ch: char\| ch\.is_ascii_alphabetic\(\)\) =>\s*\{\s*Err\(", b)
    fact("const", ("double" + (";word-guard" if guard else "")) if "double::<_, Error<&str>>(expr)" in b and "Expr::Const(T::from(c))" in b else None)
    b = fn_body(p, "parse_neg_count")
    fact("negcount", "fold_many0-minus" if 'fold_many0(tag("-"), || 0usize, |accu, _| (accu + 1))(expr)' in b else None)
    # compile_expression
    b = fn_body(p, "compile_expression")
    fact("compile.arity", "ge" if re.search(r"if let ContextElement::Var\(i\) = ce \{\s*if \*i >= I \{\s*return Err\(ParsedFuncError::ParameterOutOfBounds", b) else None)
    fact("compile.ws", "strip" if "expr.retain(|c| !c.is_whitespace());" in b else None)
    fact("compile.residue", "yes" if re.search(r"if !term\.0\.is_empty\(\) \{\s*return Err\(ParsedFuncError::ResidueError", b) else None)
    # lists
    b = fn_body(p, "parse_2_elem_f64_arr")
    fact("pair", ",".join(re.findall(r'tag::<_, _, Error<&str>>\("(.)"\)', b)) + ";" + str(len(re.findall(r"parse_expression::<0, _>\(expr, context\)\?", b)))
         + (";eval-empty" if "Ok((expr, [v1.eval(&[]), v2.eval(&[])]))" in b else "")
         + (";safe-eval-empty" if re.search(r"match \(v1\.safe_eval\(&\[\]\), v2\.safe_eval\(&\[\]\)\) \{\s*\(Some\(x1\), Some\(x2\)\) => Ok\(\(expr, \[x1, x2\]\)\),\s*_ => Err\(nom::Err::Error\(", b) else ""))
    b = fn_body(p, "parse_list_of_elem")
    fact("list", ",".join(re.findall(r'tag::<_, _, Error<&str>>\("(.)"\)', b)) + (";first-then-loop" if "let (mut expr, v) = elem_parser(expr)?;" in b and "let (nexpr, v) = elem_parser(nexpr)?;" in b else ""))
    b = fn_body(p, "compile_interval_list")
    m = re.search(r"\|expr\| parse_2_elem_f64_arr\(expr, context\.as_ref\(\)\),\s*(true|false),", b)
    fact("intervals", (m.group(1) if m else "?") + (";strip" if "expr.retain(|c| !c.is_whitespace());" in b else "") + (";residue" if "if !expr.is_empty()" in b and "ResidueError" in b else ""))
    b = fn_body(p, "compile_polygon_set")
    m = re.search(r"\|expr\| parse_2_elem_f64_arr\(expr, context\.as_ref\(\)\),\s*(true|false),\s*\)\s*\},\s*(true|false),", b, re.S)
    fact("polygons", ((m.group(1) + "," + m.group(2)) if m else "?") + (";strip" if "expr.retain(|c| !c.is_whitespace());" in b else "") + (";residue" if "if !expr.is_empty()" in b and "ResidueError" in b else ""))
    fact("consts.import", "std" if re.search(r"f64::consts::\{E, PI\}", p) else None)
    # helpers: Signed for f64 branch order
    b = fn_body(h[h.find("impl Signed for f64"):], "sign")
    order = re.findall(r"(is_nan|is_sign_positive|is_sign_negative)\(\)\s*\{\s*return Sign::(\w+);", b)
    fact("sign.order", ",".join("%s:%s" % o for o in order))
    m = re.search(r"impl From<Sign> for f64 \{.*?Sign::POS => ([\d.\-]+),\s*Sign::ZERO => ([\d.\-]+),\s*Sign::NEG => ([\d.\-]+),\s*Sign::NAN => f64::NAN,", h, re.S)
    fact("sign.values", ",".join(m.groups()) if m else None)
    b = fn_body(h, "linspace")
    fact("linspace", ("min2" if re.search(r"if length < 2 \{\s*length = 2\s*\};", b) else "?") + (";formula" if "let c = (p as f64) / ((length - 1) as f64);" in b and "vals.push((1f64 - c) * a + c * b);" in b else ""))
    b = fn_body(h, "n_linspace")
    fact("n_linspace", ("min2" if re.search(r"if length < 2 \{\s*length = 2\s*\};", b) else "?") + (";formula" if "let c = (p as f64) / ((length - 1) as f64);" in b and "pos[i] = (1f64 - c) * a[i] + c * b[i];" in b else ""))
    fact("vec_from_res", "res+1" if "linspace(a, b, res + 1)" in fn_body(h, "vec_from_res") else None)
    fact("n_vec_from_res", "res+1" if "n_linspace(a, b, res + 1)" in fn_body(h, "n_vec_from_res") else None)
    # display constants
    m = re.search(r"const C_GRAD_MAX: f64 = (\d+)f64;", d2)
    fact("C_GRAD_MAX", m.group(1) if m else None)
    b = d2[d2.find("impl Convergency<f64> for XConvergency"):]
    fact("xconv.root", "y==0" if "y == 0f64" in fn_body(b, "is_root_found") else None)
    fact("xconv.conv", "abs<tol/2" if "(x2 - x1).abs() < self.tol / 2f64" in fn_body(b, "is_converged") else None)
    fact("xconv.iter", "iter>=max" if "iter >= self.max_iters" in fn_body(b, "is_iteration_limit_reached") else None)
    out = ["-- GENERATED by translate/shape.py from parsing.rs / helpers.rs / cav2d/display.rs — do not edit", "",
           "namespace Cav.Gen", "", "/-- (fact, value) pairs extracted from the source -/",
           "def shape : List (String × String) := ["]
    out.append(",\n".join('  ("%s", "%s")' % (k, v.replace("\\", "\\\\").replace('"', '\\"')) for k, v in facts) + "]")
    out += ["", "end Cav.Gen"]
    write_if_changed(GEN + "/Shape.lean", "\n".join(out) + "\n")
    missing = [k for k, v in facts if "?" in v]
    if missing:
        print("T5: facts not found: " + ", ".join(missing)); return 2
    return 0

if __name__ == "__main__":
    sys.exit(main())
