#!/usr/bin/env python3
"""T2: regenerate lean/Cav/Gen/AD.lean from src/core/differentiable.rs (operator impls,
every `pub fn` of `impl AD`, the Differentiable1D impl for closures and its trait defaults,
abs_jacobian_det) and from the two `impl BasicArithmetic` blocks of src/core/parsing.rs.

One Lean `def` per Rust fn, over `[Num α]`.  Fails closed: a body outside the accepted
subset yields no definition, so every theorem that mentions it stops building."""
import re, sys
from common import write_if_changed, REPO, GEN
from rustexpr import parse_body, find_fn, Unsupported

F64_METHODS = {"abs": "Num.abs", "ln": "Num.ln", "sqrt": "Num.sqrt", "exp": "Num.exp", "sin": "Num.sin",
               "cos": "Num.cos", "tan": "Num.tan", "asin": "Num.asin", "acos": "Num.acos", "atan": "Num.atan",
               "sinh": "Num.sinh", "cosh": "Num.cosh", "tanh": "Num.tanh", "asinh": "Num.asinh",
               "acosh": "Num.acosh", "atanh": "Num.atanh", "ln_1p": "Num.ln1p", "round": "Num.round"}
AD_METHODS = ["abs", "ln", "sqrt", "exp", "pow", "powi", "sin", "cos", "tan", "asin", "acos", "atan",
              "sinh", "cosh", "tanh", "asinh", "acosh", "atanh"]
BINOPS = {"+": "add", "-": "sub", "*": "mul", "/": "div"}


class Emit:
    def __init__(self, env):
        self.env = dict(env)   # name -> type

    def lit(self, text):
        m = re.fullmatch(r"(\d+)(?:f64)?", text)
        if m:
            return "(Num.ofNat %d : α)" % int(m.group(1)), "f"
        m = re.fullmatch(r"(\d+)(i32|usize)", text)
        if m:
            return "(%d : Int)" % int(m.group(1)), "int"
        raise Unsupported("literal " + text)

    def e(self, x, expect=None):
        k = x[0]
        if k == "num":
            if expect == "int" and re.fullmatch(r"\d+", x[1]):
                return "(%s : Int)" % x[1], "int"
            return self.lit(x[1])
        if k == "var":
            if x[1] not in self.env:
                raise Unsupported("unknown variable " + x[1])
            return x[1].replace("self", "self_"), self.env[x[1]]
        if k == "field":
            s, t = self.e(x[1])
            if t == "AD" and x[2] in ("0", "1"):
                return "%s.%s" % (s, "v" if x[2] == "0" else "d"), "f"
            if t in ("pf",) and x[2] in ("0", "1"):
                return "%s.%s" % (s, "1" if x[2] == "0" else "2"), "f"
            raise Unsupported("field .%s on %s" % (x[2], t))
        if k == "index":
            s, t = self.e(x[1])
            if t == "pf" and x[2] in (0, 1):
                return "%s.%d" % (s, x[2] + 1), "f"
            if t == "pAD" and x[2] in (0, 1):
                return "%s.%d" % (s, x[2] + 1), "AD"
            raise Unsupported("index on " + t)
        if k == "neg":
            s, t = self.e(x[1])
            if t == "f":
                return "(-%s)" % s, "f"
            if t == "AD":
                return "(AD.neg %s)" % s, "AD"
            raise Unsupported("neg on " + t)
        if k == "bin":
            op = x[1]
            if op in BINOPS:
                l, lt = self.e(x[2])
                r, rt = self.e(x[3], expect=lt if lt == "int" else None)
                if lt == "f" and rt == "f":
                    return "(%s %s %s)" % (l, op, r), "f"
                if lt == "AD" and rt == "AD":
                    return "(AD.%s %s %s)" % (BINOPS[op], l, r), "AD"
                if lt == "int" and rt == "int" and op in ("-", "+"):
                    return "(i32%s %s %s)" % ("sub" if op == "-" else "add", l, r), "int"
                raise Unsupported("binop %s on %s,%s" % (op, lt, rt))
            if op in ("<", ">", "<=", ">=", "==", "!="):
                l, lt = self.e(x[2]); r, rt = self.e(x[3])
                if lt == "f" and rt == "f":
                    fn = {"<": "Num.lt %s %s", ">": "Num.lt %s %s", "<=": "Num.le %s %s", ">=": "Num.le %s %s",
                          "==": "Num.beq %s %s", "!=": "!(Num.beq %s %s)"}[op]
                    a, b = (r, l) if op in (">", ">=") else (l, r)
                    return "(" + fn % (a, b) + ")", "bool"
                raise Unsupported("comparison on %s,%s" % (lt, rt))
            raise Unsupported("operator " + op)
        if k == "cast":
            s, t = self.e(x[1])
            if x[2] == "f64" and t == "int":
                return "(Num.ofInt %s : α)" % s, "f"
            raise Unsupported("cast %s as %s" % (t, x[2]))
        if k == "call":
            if x[1] == "AD" and len(x[2]) == 2:
                a, ta = self.e(x[2][0]); b, tb = self.e(x[2][1])
                if ta == "f" and tb == "f":
                    return "(AD.mk %s %s)" % (a, b), "AD"
            raise Unsupported("call " + x[1])
        if k == "apply":
            f, tf = self.e(x[1])
            if tf == "fnADAD" and len(x[2]) == 1:
                a, ta = self.e(x[2][0], expect="AD")
                if ta == "AD":
                    return "(%s %s)" % (f, a), "AD"
            if tf == "fnpADpAD" and len(x[2]) == 1:
                a, ta = self.e(x[2][0], expect="pAD")
                if ta == "pAD":
                    return "(%s %s)" % (f, a), "pAD"
            raise Unsupported("apply " + tf)
        if k == "array" and len(x[1]) == 2:
            a, ta = self.e(x[1][0]); b, tb = self.e(x[1][1])
            if ta == tb == "AD":
                return "(%s, %s)" % (a, b), "pAD"
            if ta == tb == "f":
                return "(%s, %s)" % (a, b), "pf"
            raise Unsupported("array of " + ta)
        if k == "tuple" and len(x[1]) == 2:
            a, ta = self.e(x[1][0]); b, tb = self.e(x[1][1])
            if ta == tb == "f":
                return "(%s, %s)" % (a, b), "pf"
            raise Unsupported("tuple of " + ta)
        if k == "method":
            name, args = x[2], x[3]
            if name == "into" and not args:
                s, t = self.e(x[1])
                if t == "pf" and expect == "AD":
                    return "(AD.mk %s.1 %s.2)" % (s, s), "AD"
                if t == "AD" and expect == "pf":
                    return "(%s.v, %s.d)" % (s, s), "pf"
                raise Unsupported("into %s -> %s" % (t, expect))
            s, t = self.e(x[1])
            if t == "f":
                if name in F64_METHODS and not args:
                    return "(%s %s)" % (F64_METHODS[name], s), "f"
                if name == "powi" and len(args) == 1:
                    a, ta = self.e(args[0], expect="int")
                    if ta == "int":
                        return "(Num.powi %s %s)" % (s, a), "f"
                if name == "powf" and len(args) == 1:
                    a, ta = self.e(args[0])
                    if ta == "f":
                        return "(Num.powf %s %s)" % (s, a), "f"
                raise Unsupported("f64 method " + name)
            if t == "AD":
                if name in AD_METHODS:
                    as_ = []
                    for a in args:
                        sa, ta = self.e(a, expect="int" if name == "powi" else None)
                        as_.append(sa)
                    return "(AD.%s %s%s)" % (name, s, "".join(" " + a for a in as_)), "AD"
                raise Unsupported("AD method " + name)
            if t == "dyn" and name in ("f", "df") and len(args) == 1:
                a, ta = self.e(args[0])
                if ta == "f":
                    return "(dyn_%s %s)" % (name, a), "f"
            if t == "dyn" and name == "fdf" and len(args) == 1:
                a, ta = self.e(args[0])
                if ta == "f":
                    return "(D1.fdfDefault dyn_f dyn_df %s)" % a, "pf"
            if t in ("fnADAD", "dyn") and name in ("f", "df", "fdf", "composition"):
                raise Unsupported("trait call inside body")
            raise Unsupported("method %s on %s" % (name, t))
        if k == "if":
            c, tc = self.e(x[1])
            if tc != "bool":
                raise Unsupported("if condition " + tc)
            t, tt = self.e(x[2], expect); f, tf = self.e(x[3], expect)
            if tt != tf:
                raise Unsupported("if branches %s/%s" % (tt, tf))
            return "(if %s then %s else %s)" % (c, t, f), tt
        if k == "block":
            saved = dict(self.env)
            out = []
            for st in x[1]:
                if st[0] == "let":
                    s, t = self.e(st[3])
                    self.env[st[1]] = t
                    out.append("let %s := %s" % (st[1], s))
                elif st[0] == "assign":
                    # only `v.1 *= e` on a pair variable (trait default `composition`)
                    lhs, op, rhs = st[1], st[2], st[3]
                    if lhs[0] == "field" and lhs[1][0] == "var" and self.env.get(lhs[1][1]) == "pf" and op == "*=":
                        r, tr = self.e(rhs)
                        v = lhs[1][1]
                        if lhs[2] == "1" and tr == "f":
                            out.append("let %s := (%s.1, %s.2 * %s)" % (v, v, v, r))
                            continue
                    raise Unsupported("assignment")
            s, t = self.e(x[2], expect)
            self.env = saved
            return "(" + "; ".join(out + [s]) + ")", t
        raise Unsupported("node " + k)


LEAN_TY = {"dyn": None, "f": "α", "AD": "AD α", "int": "Int", "pf": "α × α", "pAD": "AD α × AD α",
           "fnADAD": "AD α → AD α", "fnpADpAD": "AD α × AD α → AD α × AD α"}


def lean_def(name, params, ret, body_src):
    ast = parse_body(body_src)
    em = Emit(params)
    s, t = em.e(ast, expect=ret)
    if t != ret:
        raise Unsupported("returns %s, expected %s" % (t, ret))
    ps = " ".join("(dyn_f : α → α) (dyn_df : α → α)" if ty == "dyn" else "(%s : %s)" % (n.replace("self", "self_"), LEAN_TY[ty]) for n, ty in params)
    return "def %s {α : Type} [Num α] %s : %s :=\n  %s\n" % (name, ps, LEAN_TY[ret], s)


def block_of(src, header_regex):
    m = re.search(header_regex, src)
    if not m:
        return None
    k = src.index("{", m.end() - 1)
    depth, e = 0, k
    while True:
        if src[e] == "{":
            depth += 1
        elif src[e] == "}":
            depth -= 1
            if depth == 0:
                break
        e += 1
    return src[k + 1:e]


def main():
    dsrc = open(REPO + "/src/core/differentiable.rs").read()
    psrc = open(REPO + "/src/core/parsing.rs").read()
    out = ["-- GENERATED by translate/ad.py from src/core/differentiable.rs and src/core/parsing.rs — do not edit",
           "import Cav.Num", "", "namespace Cav.Gen", "",
           "/-- `pub struct AD(pub f64, pub f64)` -/",
           "structure AD (α : Type) where", "  v : α", "  d : α", "",
           "/-- wrapping `i32` arithmetic (release build) -/",
           "def i32wrap (x : Int) : Int := (x + 2147483648) % 4294967296 - 2147483648",
           "def i32sub (a b : Int) : Int := i32wrap (a - b)",
           "def i32add (a b : Int) : Int := i32wrap (a + b)", ""]
    lost = []
    items = []
    # operator impls
    for tr, fn in [("Add<AD>", "add"), ("Sub<AD>", "sub"), ("Mul", "mul"), ("Div", "div")]:
        blk = block_of(dsrc, r"impl\s+%s\s+for\s+AD\s*\{" % re.escape(tr))
        items.append(("AD." + fn, blk, r"fn\s+%s\s*\(" % fn, [("self", "AD"), ("rhs", "AD")], "AD"))
    blk = block_of(dsrc, r"impl\s+Neg\s+for\s+AD\s*\{")
    items.append(("AD.neg", blk, r"fn\s+neg\s*\(", [("self", "AD")], "AD"))
    # inherent methods: order matters (pow uses ln, mul, exp)
    blk = block_of(dsrc, r"impl\s+AD\s*\{")
    names = re.findall(r"pub\s+fn\s+(\w+)\s*\(", blk or "")
    order = [n for n in names if n != "pow"] + (["pow"] if "pow" in names else [])
    for n in order:
        params = [("self", "AD")]
        if n == "pow":
            params.append(("rhs", "AD"))
        if n == "powi":
            params.append(("n", "int"))
        items.append(("AD." + n, blk, r"pub\s+fn\s+%s\s*\(" % n, params, "AD"))
    for n in AD_METHODS:
        if n not in names:
            lost.append("AD::" + n + " (missing)")
    # Differentiable1D: trait defaults and the closure impl
    tblk = block_of(dsrc, r"pub\s+trait\s+Differentiable1D\s*\{")
    cblk = block_of(dsrc, r"impl<F:\s*Fn\(AD\)\s*->\s*AD>\s*Differentiable1D\s+for\s+F\s*\{")
    # trait defaults (used by implementors that only provide f and df)
    items.append(("D1.fdfDefault", tblk, r"fn\s+fdf\s*\(", [("self", "dyn"), ("x", "f")], "pf"))
    items.append(("D1.compositionDefault", tblk, r"fn\s+composition\s*\(", [("self", "dyn"), ("gdg", "pf")], "pf"))
    items.append(("D1.f", cblk, r"fn\s+f\s*\(", [("self", "fnADAD"), ("x", "f")], "f"))
    items.append(("D1.df", cblk, r"fn\s+df\s*\(", [("self", "fnADAD"), ("x", "f")], "f"))
    items.append(("D1.fdf", cblk, r"fn\s+fdf\s*\(", [("self", "fnADAD"), ("x", "f")], "pf"))
    items.append(("D1.composition", cblk, r"fn\s+composition\s*\(", [("self", "fnADAD"), ("gdg", "pf")], "pf"))
    # abs_jacobian_det
    items.append(("absJacobianDet", dsrc, r"pub\s+fn\s+abs_jacobian_det\s*\(", [("g", "fnpADpAD"), ("x", "pf")], "f"))
    # BasicArithmetic
    bad = block_of(psrc, r"impl\s+BasicArithmetic\s+for\s+AD\s*\{")
    bf = block_of(psrc, r"impl\s+BasicArithmetic\s+for\s+f64\s*\{")
    items.append(("BA.powAD", bad, r"fn\s+pow\s*\(", [("self", "AD"), ("rhs", "AD")], "AD"))
    items.append(("BA.powiAD", bad, r"fn\s+powi\s*\(", [("self", "AD"), ("n", "int")], "AD"))
    items.append(("BA.powF", bf, r"fn\s+pow\s*\(", [("self", "f"), ("rhs", "f")], "f"))
    for name, blk, hdr, params, ret in items:
        try:
            if blk is None:
                raise Unsupported("enclosing block not found")
            r = find_fn(blk, hdr)
            if r is None:
                raise Unsupported("fn not found")
            body = r[1]
            out.append("/-- Rust: `%s` -/" % " ".join(body.split()))
            out.append(lean_def(name, params, ret, body))
        except (Unsupported, ValueError, IndexError) as ex:
            lost.append("%s (%s)" % (name, ex))
    # `f64::powi(self, n)` of BasicArithmetic for f64 is a path call; it is the primitive itself
    m = re.search(r"fn\s+powi\s*\(self,\s*n:\s*i32\)\s*->\s*Self\s*\{\s*f64::powi\(self,\s*n\)\s*\}", bf or "")
    if m:
        out.append("/-- Rust: `f64::powi(self, n)` -/")
        out.append("def BA.powiF {α : Type} [Num α] (self_ : α) (n : Int) : α :=\n  Num.powi self_ n\n")
    else:
        lost.append("BA.powiF")
    # From<f64> for AD
    m = re.search(r"impl\s+From<f64>\s+for\s+AD\s*\{.*?fn\s+from\(x:\s*f64\)\s*->\s*Self\s*\{\s*AD\(x,\s*0f64\)\s*\}", dsrc, re.S)
    if m:
        out.append("/-- Rust: `AD(x, 0f64)` (`From<f64> for AD`) -/")
        out.append("def AD.ofF {α : Type} [Num α] (x : α) : AD α :=\n  (AD.mk x (Num.ofNat 0 : α))\n")
    else:
        lost.append("AD.ofF")
    out.append("end Cav.Gen")
    write_if_changed(GEN + "/AD.lean", "\n".join(out) + "\n")
    if lost:
        print("T2: could not translate: " + "; ".join(lost))
        return 2
    return 0


if __name__ == "__main__":
    sys.exit(main())
