import Cav.Thm.C18
#print axioms Cav.C18.intervals_ok_iff
#print axioms Cav.C18.polygons_ok_iff
#print axioms Cav.C18.intervals_sound'
#print axioms Cav.C18.intervals_sound
#print axioms Cav.C18.poly_elemSound
#print axioms Cav.C18.polygons_sound'
#print axioms Cav.C18.polygons_sound
#print axioms Cav.C18.intervals_empty_rejected
#print axioms Cav.C18.polygons_empty_rejected
#print axioms Cav.C18.intervals_entries_constant
#print axioms Cav.C18.intervals_no_panic
#print axioms Cav.C18.polygons_no_panic
#print axioms Cav.C18.defaultCtx_var_free
#print axioms Cav.C18.of_lerrIs
#print axioms Cav.C18.of_lokIs
