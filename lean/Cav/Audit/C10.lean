import Cav.Thm.C10
#print axioms Cav.C10.gk1dLoop_ok_honest
#print axioms Cav.C10.gk1d_ok_honest
#print axioms Cav.C10.gk1d_eq_bounds
#print axioms Cav.C10.gk1d_zero_budget
#print axioms Cav.C10.gk1dLoop_panels_le
#print axioms Cav.C10.gk1d_panels_le
#print axioms Cav.C10.gk2dLoop_ok_honest
#print axioms Cav.C10.gk2d_ok_honest
#print axioms Cav.C10.gkTriangle_ok_honest
