import Cav.Thm.C02
#print axioms Cav.C02.isChain_iff
#print axioms Cav.C02.gk1d_of_ne
#print axioms Cav.C02.gk1d_ok_is_tiling_sum
#print axioms Cav.C02.panelAbscissae_length
#print axioms Cav.C02.gk1dLoop_panels_prefix
#print axioms Cav.C02.gk1d_panels_head
#print axioms Cav.C02.chain_additive
#print axioms Cav.C02.chain_length_sum
#print axioms Cav.C02.stepF_run_res
#print axioms Cav.C02.stepF_run_panels
#print axioms Cav.C02.example_tiling
