import Cav.Thm.C19
#print axioms Cav.C19.cfg_passthrough
#print axioms Cav.C19.api_signatures
#print axioms Cav.C19.ctx_bindings
#print axioms Cav.C19.delegation
#print axioms Cav.C19.api2d_error_stage
#print axioms Cav.C19.api_list_ctx_var_free
#print axioms Cav.C19.error_conversions
