import Cav.Thm.C20
#print axioms Cav.C20.py_module
#print axioms Cav.C20.py_names
#print axioms Cav.C20.py_forward_identity
#print axioms Cav.C20.py_param_types
#print axioms Cav.C20.py_getters_complete
#print axioms Cav.C20.py_error_is_runtime_error
#print axioms Cav.C20.py_return_types
