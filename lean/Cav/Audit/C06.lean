import Cav.Thm.C06
import Cav.Thm.C06Print
#print axioms Cav.C06.shape_ok
#print axioms Cav.C06.context_tables_ok
#print axioms Cav.C06.default_ctx_matches_tables
#print axioms Cav.C06.parseExpr_fuel_mono
#print axioms Cav.C06.loopAdd_fuel_mono
#print axioms Cav.C06.parseMul_fuel_mono
#print axioms Cav.C06.loopMul_fuel_mono
#print axioms Cav.C06.parseTerm_fuel_mono
#print axioms Cav.C06.parseParenth_fuel_mono
#print axioms Cav.C06.parseFunc_fuel_mono
#print axioms Cav.C06.parseExpr_consumes
#print axioms Cav.C06.fuel_suffices
#print axioms Cav.C06.compile_ne_outOfFuel
#print axioms Cav.C06.parseExpr_prints
#print axioms Cav.C06.parse_print
#print axioms Cav.C06.prints_unique
#print axioms Cav.C06.ctxOK_iff
#print axioms Cav.C06.prints_example
