import Cav.Thm.C06
#print axioms Cav.C06.shape_ok
#print axioms Cav.C06.context_tables_ok
#print axioms Cav.C06.default_ctx_matches_tables
