/-
  Expression trees: the conventional parse tree of C06 and its two evaluators
  (`Expr::eval` at `T = f64` and at `T = AD`), DESIGN §4 C05/C06.

  `Expr<'a, I, T>` of `src/core/parsing.rs` carries `&dyn Fn` payloads; the model replaces
  each payload by its name.  `evalAD` uses the *generated* AD primitives (`Gen/AD.lean`).
-/
import Cav.Num
import Cav.Gen.AD

namespace Cav
open Num Gen

/-- the 16 registered unary functions, and negation (`&T::neg` in `parse_term`) -/
inductive UFn where
  | abs | sin | cos | tan | asin | acos | atan | ln | exp | sqrt
  | sinh | cosh | tanh | asinh | acosh | atanh
  | neg
  /-- a user-registered function (only its name is known to the model) -/
  | user (name : String)
  deriving DecidableEq, Repr, Inhabited

inductive BOp where
  | add | sub | mul | div | pow
  deriving DecidableEq, Repr, Inhabited

/-- the tree `Expr<I, T>` with names in place of function pointers -/
inductive E where
  | var (i : Nat)
  /-- number recognised by `nom::number::complete::double`: `m · 10^e` -/
  | lit (m : Nat) (e : Int)
  | litInf
  | litNan
  /-- a named constant of the context (`pi`, `e`, user constants) -/
  | cst (name : String)
  | un (f : UFn) (x : E)
  | bin (op : BOp) (l r : E)
  | powi (x : E) (n : Int)
  deriving DecidableEq, Repr, Inhabited

/-- names of the built-in functions as registered in `DefaultContext` (tied to the source by
    `Gen/Context.lean`) -/
def UFn.ofName : String → Option UFn
  | "abs" => some .abs | "sin" => some .sin | "cos" => some .cos | "tan" => some .tan
  | "asin" => some .asin | "acos" => some .acos | "atan" => some .atan | "ln" => some .ln
  | "exp" => some .exp | "sqrt" => some .sqrt | "sinh" => some .sinh | "cosh" => some .cosh
  | "tanh" => some .tanh | "asinh" => some .asinh | "acosh" => some .acosh | "atanh" => some .atanh
  | _ => none

def UFn.name : UFn → String
  | .abs => "abs" | .sin => "sin" | .cos => "cos" | .tan => "tan" | .asin => "asin" | .acos => "acos"
  | .atan => "atan" | .ln => "ln" | .exp => "exp" | .sqrt => "sqrt" | .sinh => "sinh" | .cosh => "cosh"
  | .tanh => "tanh" | .asinh => "asinh" | .acosh => "acosh" | .atanh => "atanh" | .neg => "neg"
  | .user n => n

variable {α : Type} [Num α]

/-- the `f64` function registered under each name (`&f64::sin` …) -/
def UFn.applyF (uf : String → α → α) : UFn → α → α
  | .abs => Num.abs | .sin => Num.sin | .cos => Num.cos | .tan => Num.tan | .asin => Num.asin
  | .acos => Num.acos | .atan => Num.atan | .ln => Num.ln | .exp => Num.exp | .sqrt => Num.sqrt
  | .sinh => Num.sinh | .cosh => Num.cosh | .tanh => Num.tanh | .asinh => Num.asinh
  | .acosh => Num.acosh | .atanh => Num.atanh
  | .neg => fun x => -x
  | .user n => uf n

/-- the `AD` method registered under each name (`&AD::sin` …), from `Gen/AD.lean` -/
def UFn.applyAD (uf : String → AD α → AD α) : UFn → AD α → AD α
  | .abs => AD.abs | .sin => AD.sin | .cos => AD.cos | .tan => AD.tan | .asin => AD.asin
  | .acos => AD.acos | .atan => AD.atan | .ln => AD.ln | .exp => AD.exp | .sqrt => AD.sqrt
  | .sinh => AD.sinh | .cosh => AD.cosh | .tanh => AD.tanh | .asinh => AD.asinh
  | .acosh => AD.acosh | .atanh => AD.atanh
  | .neg => AD.neg
  | .user n => uf n

def BOp.applyF : BOp → α → α → α
  | .add => (· + ·) | .sub => (· - ·) | .mul => (· * ·) | .div => (· / ·) | .pow => BA.powF

def BOp.applyAD : BOp → AD α → AD α → AD α
  | .add => AD.add | .sub => AD.sub | .mul => AD.mul | .div => AD.div | .pow => BA.powAD

/-- environment of an evaluation: named constants, user functions, variable values -/
structure EnvF (α : Type) where
  cst : String → α
  ufn : String → α → α := fun _ x => x

structure EnvAD (α : Type) where
  cst : String → α
  ufn : String → AD α → AD α := fun _ x => x

/-- `Expr::<I, f64>::eval`; `vars` is `pars`, out-of-range index = panic, modelled by `none` -/
def E.evalF (env : EnvF α) (vars : List α) : E → Option α
  | .var i => vars[i]?
  | .lit m e => some (Num.ofDec m e)
  | .litInf => some Num.inf
  | .litNan => some Num.nan
  | .cst n => some (env.cst n)
  | .un f x => (x.evalF env vars).map (f.applyF env.ufn)
  | .bin op l r =>
    match l.evalF env vars, r.evalF env vars with
    | some a, some b => some (op.applyF a b)
    | _, _ => none
  | .powi x n => (x.evalF env vars).map (fun v => BA.powiF v n)

/-- `Expr::<I, AD>::eval` -/
def E.evalAD (env : EnvAD α) (vars : List (AD α)) : E → Option (AD α)
  | .var i => vars[i]?
  | .lit m e => some (AD.ofF (Num.ofDec m e))
  | .litInf => some (AD.ofF Num.inf)
  | .litNan => some (AD.ofF Num.nan)
  | .cst n => some (AD.ofF (env.cst n))
  | .un f x => (x.evalAD env vars).map (f.applyAD env.ufn)
  | .bin op l r =>
    match l.evalAD env vars, r.evalAD env vars with
    | some a, some b => some (op.applyAD a b)
    | _, _ => none
  | .powi x n => (x.evalAD env vars).map (fun v => BA.powiAD v n)

/-- every variable index of the tree is below `n` -/
def E.varsLt (n : Nat) : E → Bool
  | .var i => i < n
  | .un _ x => x.varsLt n
  | .bin _ l r => l.varsLt n && r.varsLt n
  | .powi x _ => x.varsLt n
  | _ => true

/-- S-expression rendering used on the wire (must agree with harness `Sym`) -/
def E.sexp : E → String
  | .var i => s!"v{i}"
  | .lit m e => s!"(lit {m} {e})"
  | .litInf => "inf"
  | .litNan => "nan"
  | .cst n => s!"(c {n})"
  | .un f x => s!"({f.name} {x.sexp})"
  | .bin op l r =>
    let o := match op with | .add => "+" | .sub => "-" | .mul => "*" | .div => "/" | .pow => "^"
    s!"({o} {l.sexp} {r.sexp})"
  | .powi x n => s!"(powi {x.sexp} {n})"

end Cav
