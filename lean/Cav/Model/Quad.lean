/-
  Executable model of `src/core/integrate.rs` (DESIGN §4 C01/C02/C09/C10).
  Written once over `[Num α]`; `Float` instance = what the Rust code computes,
  `Rat` instance = what the same program text computes in exact arithmetic.

  Every function mirrors one Rust function, statement by statement.  Besides the result
  each adaptive routine returns the list of panels on which the rule pair was evaluated,
  in call order: that list determines the exact sequence of abscissae asked of the
  integrand (`panelAbscissae`), which is what the correspondence check observes.
-/
import Cav.Num
import Cav.Gen.Tables

namespace Cav
open Num

variable {α : Type} [Num α]

/-- `unit_symmetric_gauss_quadrature` -/
def unitRule (f : α → α) (rule : List (α × α)) : α :=
  match rule with
  | [] => zero
  | (n0, w0) :: rest =>
    if Num.beq n0 zero then
      rest.foldl (fun s nw => s + nw.2 * (f (-nw.1) + f nw.1)) (zero + w0 * f n0)
    else
      rule.foldl (fun s nw => s + nw.2 * (f (-nw.1) + f nw.1)) zero

/-- the affine map `x ↦ x*(b-a)/2 + (a+b)/2` used by `symmetric_gauss_quadrature` -/
@[inline] def denorm (a b x : α) : α := x * (b - a) / two + (a + b) / two

/-- `symmetric_gauss_quadrature` -/
def symRule (f : α → α) (a b : α) (rule : List (α × α)) : α :=
  (b - a) / two * unitRule (fun x => f (denorm a b x)) rule

/-- the unit-interval nodes in the order the code evaluates them -/
def unitNodes (rule : List (α × α)) : List α :=
  match rule with
  | [] => []
  | (n0, _) :: rest =>
    if Num.beq n0 zero then
      n0 :: rest.flatMap (fun nw => [-nw.1, nw.1])
    else
      rule.flatMap (fun nw => [-nw.1, nw.1])

/-- the abscissae asked of the integrand for one panel, in call order (G10 then K21) -/
def panelAbscissae (a b : α) : List α :=
  ((unitNodes (Gen.g10 (α := α))) ++ (unitNodes (Gen.k21 (α := α)))).map (denorm a b)

/-- the closure `gk_approx` of `gauss_kronrod_quadrature` -/
def gkApprox (f : α → α) (a b : α) : α × α :=
  let li := symRule f a b Gen.g10
  let ki := symRule f a b Gen.k21
  (ki, Num.abs (li - ki))

structure Panel (α : Type) where
  err : α
  val : α
  a : α
  b : α

/-- derived `PartialOrd` on `ApproxInterval` (lexicographic `partial_cmp`), then
    `unwrap_or(Equal)` -/
def panelCmp (p q : Panel α) : Ordering :=
  match partialCmp p.err q.err with
  | none => .eq
  | some .lt => .lt
  | some .gt => .gt
  | some .eq =>
    match partialCmp p.val q.val with
    | none => .eq
    | some .lt => .lt
    | some .gt => .gt
    | some .eq =>
      match partialCmp p.a q.a with
      | none => .eq
      | some .lt => .lt
      | some .gt => .gt
      | some .eq =>
        match partialCmp p.b q.b with
        | none => .eq
        | some o => o

/-- `BTreeSet::insert` on the sorted-list model: scan while the new key is greater;
    an `Equal` key means the set is left unchanged. -/
def setInsert (p : Panel α) : List (Panel α) → List (Panel α)
  | [] => [p]
  | k :: ks =>
    match panelCmp p k with
    | .gt => k :: setInsert p ks
    | .eq => k :: ks
    | .lt => p :: k :: ks

/-- `BTreeSet::remove`: remove the element that compares `Equal` (if any). -/
def setRemove (p : Panel α) : List (Panel α) → List (Panel α)
  | [] => []
  | k :: ks =>
    match panelCmp p k with
    | .gt => k :: setRemove p ks
    | .eq => ks
    | .lt => k :: ks

inductive IntegErr where
  | convergence
  | nan
  deriving DecidableEq, Repr

structure Out1 (α : Type) where
  res : Except IntegErr (α × α)
  /-- `(a,b)` arguments of `gk_approx`, in call order -/
  panels : List (α × α)

/-- `iter.map(|v| v.val).sum()` — `f64`'s `Sum` folds from `0.0`‐like start `sum0`. -/
def sumVals (sum0 : α) (s : List (Panel α)) : α := s.foldl (fun acc p => acc + p.val) sum0

/-- the body of the `for` loop of `gauss_kronrod_quadrature`, `fuel` iterations left -/
def gk1dLoop (f : α → α) (tol : α) : Nat → α → List (Panel α) → List (α × α) → Out1 α
  | 0, _, _, tr => ⟨.error .convergence, tr.reverse⟩
  | fuel + 1, accu, set, tr =>
    if Num.isNaN accu then ⟨.error .nan, tr.reverse⟩
    else if Num.lt accu tol then ⟨.ok (sumVals (-zero) set, accu), tr.reverse⟩
    else
      match set.getLast? with
      | none => ⟨.error .convergence, tr.reverse⟩
      | some iv =>
        if Num.bne iv.a iv.b then
          let accu := accu - iv.err
          let m := (iv.a + iv.b) / two
          let left := gkApprox f iv.a m
          let right := gkApprox f m iv.b
          let accu := accu + (left.2 + right.2)
          let set := setInsert ⟨left.2, left.1, iv.a, m⟩ set
          let set := setInsert ⟨right.2, right.1, m, iv.b⟩ set
          let set := setRemove iv set
          gk1dLoop f tol fuel accu set ((m, iv.b) :: (iv.a, m) :: tr)
        else
          gk1dLoop f tol fuel accu (setRemove iv set) tr

/-- `gauss_kronrod_quadrature`; `maxIter = none` is `usize::MAX`. -/
def gk1d (f : α → α) (a b tol : α) (maxIter : Option Nat) : Out1 α :=
  if Num.beq a b then ⟨.ok (zero, zero), []⟩
  else
    let va := gkApprox f a b
    gk1dLoop f tol (maxIter.getD 18446744073709551615) va.2 [⟨va.2, va.1, a, b⟩] [(a, b)]

/-! ### nested / 2-D / triangle -/

/-- one inner integration made by `nested_gauss_kronrod_quadrature` -/
structure InnerCall (α : Type) where
  /-- unit node handed to `outer_unit_f` -/
  node : α
  /-- `outer_denormalizer(node)` as passed to `inner_ab_fn` -/
  x : α
  ia : α
  ib : α
  panels : List (α × α)

structure OutN (α : Type) where
  res : Except IntegErr (α × α)
  calls : List (InnerCall α)

/-- `std::cmp::max(OrderedFloat(x), OrderedFloat(y)).0` -/
def ofMax (x y : α) : α := if ofCmp x y == .gt then x else y

/-- `nested_gauss_kronrod_quadrature` -/
def nested (f : α → α → α) (a b : α) (innerAB : α → α × α) (tol : α) (maxIter : Option Nat)
    (rule : List (α × α)) : OutN α :=
  let inner (node : α) : Except IntegErr (α × α) × InnerCall α :=
    let x := denorm a b node
    let ab := innerAB x
    let o := gk1d (fun y => f (denorm a b node) y) ab.1 ab.2 tol maxIter
    (o.res, ⟨node, x, ab.1, ab.2, o.panels⟩)
  let rec go (rest : List (α × α)) (s accu : α) (calls : List (InnerCall α)) : OutN α :=
    match rest with
    | [] => ⟨.ok ((b - a) / two * s, Num.abs ((b - a) / two) * accu), calls.reverse⟩
    | (n, w) :: rest =>
      let (rn, cn) := inner (-n)
      match rn with
      | .error e => ⟨.error e, (cn :: calls).reverse⟩
      | .ok nres =>
        let (rp, cp) := inner n
        match rp with
        | .error e => ⟨.error e, (cp :: cn :: calls).reverse⟩
        | .ok pres =>
          go rest (s + w * (nres.1 + pres.1)) (accu + w * (nres.2 + pres.2)) (cp :: cn :: calls)
  match rule with
  | [] => ⟨.ok (zero, zero), []⟩
  | (n0, w0) :: rest =>
    if Num.beq n0 zero then
      let (r0, c0) := inner n0
      match r0 with
      | .error e => ⟨.error e, [c0]⟩
      | .ok res => go rest (zero + w0 * res.1) (zero + w0 * res.2) [c0]
    else go rule zero zero []

structure Out2 (α : Type) where
  res : Except IntegErr (α × α)
  /-- per `gk_approx` call: `(a, b, G10 inner calls, K21 inner calls)` -/
  panels : List (α × α × List (InnerCall α) × List (InnerCall α))

/-- the closure `gk_approx` of `gauss_kronrod_quadrature_2d` -/
def gkApprox2 (f : α → α → α) (innerAB : α → α × α) (tol : α) (maxIter : Option Nat) (a b : α) :
    Except IntegErr (α × α) × (α × α × List (InnerCall α) × List (InnerCall α)) :=
  let lo := nested f a b innerAB (tol / two) maxIter Gen.g10
  match lo.res with
  | .error e => (.error e, (a, b, lo.calls, []))
  | .ok li =>
    let ko := nested f a b innerAB (tol / two) maxIter Gen.k21
    match ko.res with
    | .error e => (.error e, (a, b, lo.calls, ko.calls))
    | .ok ki => (.ok (ki.1, Num.abs (li.1 - ki.1) + ofMax li.2 ki.2), (a, b, lo.calls, ko.calls))

def gk2dLoop (f : α → α → α) (innerAB : α → α × α) (tol : α) (maxIter : Option Nat) :
    Nat → α → List (Panel α) → List (α × α × List (InnerCall α) × List (InnerCall α)) → Out2 α
  | 0, _, _, tr => ⟨.error .convergence, tr.reverse⟩
  | fuel + 1, accu, set, tr =>
    if Num.isNaN accu then ⟨.error .nan, tr.reverse⟩
    else if Num.lt accu tol then ⟨.ok (sumVals (-zero) set, accu), tr.reverse⟩
    else
      match set.getLast? with
      | none => ⟨.error .convergence, tr.reverse⟩
      | some iv =>
        if Num.bne iv.a iv.b then
          let accu := accu - iv.err
          let m := (iv.a + iv.b) / two
          let (lr, lt) := gkApprox2 f innerAB tol maxIter iv.a m
          match lr with
          | .error e => ⟨.error e, (lt :: tr).reverse⟩
          | .ok left =>
            let (rr, rt) := gkApprox2 f innerAB tol maxIter m iv.b
            match rr with
            | .error e => ⟨.error e, (rt :: lt :: tr).reverse⟩
            | .ok right =>
              let accu := accu + (left.2 + right.2)
              let set := setInsert ⟨left.2, left.1, iv.a, m⟩ set
              let set := setInsert ⟨right.2, right.1, m, iv.b⟩ set
              let set := setRemove iv set
              gk2dLoop f innerAB tol maxIter fuel accu set (rt :: lt :: tr)
        else
          gk2dLoop f innerAB tol maxIter fuel accu (setRemove iv set) tr

/-- `gauss_kronrod_quadrature_2d` -/
def gk2d (f : α → α → α) (a b : α) (innerAB : α → α × α) (tol : α) (maxIter : Option Nat) : Out2 α :=
  if Num.beq a b then ⟨.ok (zero, zero), []⟩
  else
    let (r, t) := gkApprox2 f innerAB tol maxIter a b
    match r with
    | .error e => ⟨.error e, [t]⟩
    | .ok va =>
      gk2dLoop f innerAB tol maxIter (maxIter.getD 18446744073709551615) va.2 [⟨va.2, va.1, a, b⟩] [t]

/-- the factor `c` of `gauss_kronrod_quadrature_triangle` (twice the area, absolute) -/
def triFactor (t : (α × α) × (α × α) × (α × α)) : α :=
  let (p0, p1, p2) := t
  Num.abs (p1.1 * (p2.2 - p0.2) + p0.1 * (p1.2 - p2.2) + p2.1 * (p0.2 - p1.2))

/-- the integrand handed to the 2-D routine by `gauss_kronrod_quadrature_triangle` -/
def triIntegrand (f : α → α → α) (t : (α × α) × (α × α) × (α × α)) (u0 u1 : α) : α :=
  let (p0, p1, p2) := t
  triFactor t *
    f ((one - u0 - u1) * p0.1 + u0 * p1.1 + u1 * p2.1)
      ((one - u0 - u1) * p0.2 + u0 * p1.2 + u1 * p2.2)

/-- `gauss_kronrod_quadrature_triangle` -/
def gkTriangle (f : α → α → α) (t : (α × α) × (α × α) × (α × α)) (tol : α) (maxIter : Option Nat) :
    Out2 α :=
  gk2d (triIntegrand f t) zero one (fun u1 => (zero, one - u1)) tol maxIter

end Cav
