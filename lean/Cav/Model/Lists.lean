/-
  Executable model of the list parsers of `src/core/parsing.rs`
  (`parse_2_elem_f64_arr`, `parse_list_of_elem`, `compile_interval_list`,
  `compile_polygon_set`), DESIGN §4 C18.
-/
import Cav.Model.Parse

namespace Cav

/-- result of a list-level parser; `panic` models the out-of-range index of
    `v.eval(&[])` when an entry contains a variable -/
inductive LR (β : Type) where
  | ok (rest : List Char) (val : β)
  | fail
  | oof
  | panic
  deriving Repr

/-- `parse_2_elem_f64_arr`: `'[' expr ',' expr ']'`, both entries compiled with arity 0 and
    evaluated on the spot with `safe_eval(&[])`; an entry that contains a variable is a parse
    error (since fix commit "a variable in an interval or polygon entry is a parse error") -/
def parse2 (ctx : Ctx) (s : List Char) : LR (E × E) :=
  match s with
  | '[' :: r =>
    match parseExpr (fuelFor r) ctx r with
    | .oof => .oof
    | .fail => .fail
    | .ok (',' :: r2) v1 =>
      match parseExpr (fuelFor r2) ctx r2 with
      | .oof => .oof
      | .fail => .fail
      | .ok (']' :: r3) v2 =>
        if v1.varsLt 0 && v2.varsLt 0 then .ok r3 (v1, v2) else .fail
      | .ok _ _ => .fail
    | .ok _ _ => .fail
  | _ => .fail

/-- the `while let Ok(",")` loop of `parse_list_of_elem` -/
def listLoop {β : Type} (elem : List Char → LR β) : Nat → List Char → List β → LR (List β)
  | 0, _, _ => .oof
  | fuel + 1, s, acc =>
    match s with
    | ',' :: r =>
      match elem r with
      | .ok r2 v => listLoop elem fuel r2 (v :: acc)
      | .fail => .fail
      | .oof => .oof
      | .panic => .panic
    | _ => .ok s acc.reverse

/-- `parse_list_of_elem` -/
def parseListOf {β : Type} (elem : List Char → LR β) (requireBrackets : Bool) (s : List Char) :
    LR (List β) :=
  let start : Option (List Char) :=
    if requireBrackets then (match s with | '[' :: r => some r | _ => none) else some s
  match start with
  | none => .fail
  | some s1 =>
    match elem s1 with
    | .fail => .fail
    | .oof => .oof
    | .panic => .panic
    | .ok r v =>
      match listLoop elem (r.length + 1) r [v] with
      | .ok r2 vs =>
        if requireBrackets then (match r2 with | ']' :: r3 => .ok r3 vs | _ => .fail) else .ok r2 vs
      | .fail => .fail
      | .oof => .oof
      | .panic => .panic

inductive ListErr where
  | parsing
  | residue
  | panic
  | outOfFuel
  deriving DecidableEq, Repr

/-- `compile_interval_list` (entries as trees; values are `E.evalF env []`) -/
def compileIntervalList (ctx : Ctx) (src : List Char) : Except ListErr (List (E × E)) :=
  let s := stripWs src
  match parseListOf (parse2 ctx) false s with
  | .fail => .error .parsing
  | .oof => .error .outOfFuel
  | .panic => .error .panic
  | .ok rest v => if rest.isEmpty then .ok v else .error .residue

/-- `compile_polygon_set` -/
def compilePolygonSet (ctx : Ctx) (src : List Char) : Except ListErr (List (List (E × E))) :=
  let s := stripWs src
  match parseListOf (fun e => parseListOf (parse2 ctx) true e) false s with
  | .fail => .error .parsing
  | .oof => .error .outOfFuel
  | .panic => .error .panic
  | .ok rest v => if rest.isEmpty then .ok v else .error .residue

end Cav
