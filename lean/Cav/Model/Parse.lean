/-
  Executable model of the expression parser of `src/core/parsing.rs` and of the `nom 7.1.3`
  combinators it uses (DESIGN §4 C06/C17/C18, Appendix B).

  Strings are `List Char`.  Every Rust function is one Lean function with the same control
  flow (`or_else` order, `if let Ok`, `?`).  nom's `Err::Error`/`Err::Failure` are both
  `fail` (the Rust code never distinguishes them); `oof` is "out of fuel" and is proved
  unreachable for the fuel `compile` supplies (Thm/C17).
-/
import Cav.Model.Expr

namespace Cav
open Num

/-- parser result -/
inductive R (β : Type) where
  | ok (rest : List Char) (val : β)
  | fail
  | oof
  deriving Repr

/-- `ContextElement` without payloads -/
inductive CtxEl where
  | const
  | var (i : Nat)
  | uop
  deriving DecidableEq, Repr

/-- the `HashMap<String, ContextElement>`: association list, first match wins
    (`Ctx.insert` removes an older binding, as `HashMap::insert` overwrites) -/
abbrev Ctx := List (String × CtxEl)

def Ctx.get (c : Ctx) (n : String) : Option CtxEl := (c.find? (fun p => p.1 == n)).map (·.2)
def Ctx.insert (c : Ctx) (n : String) (e : CtxEl) : Ctx := (n, e) :: c.filter (fun p => p.1 != n)

/-- Rust `char::is_whitespace` (Unicode `White_Space`) -/
def isWs (c : Char) : Bool :=
  let n := c.toNat
  (0x9 ≤ n && n ≤ 0xD) || n == 0x20 || n == 0x85 || n == 0xA0 || n == 0x1680 ||
  (0x2000 ≤ n && n ≤ 0x200A) || n == 0x2028 || n == 0x2029 || n == 0x202F || n == 0x205F || n == 0x3000

/-- `expr.retain(|c| !c.is_whitespace())` -/
def stripWs (s : List Char) : List Char := s.filter (fun c => !isWs c)

def isAlpha (c : Char) : Bool := ('a' ≤ c && c ≤ 'z') || ('A' ≤ c && c ≤ 'Z')
def isDigit (c : Char) : Bool := '0' ≤ c && c ≤ '9'
def digitVal (c : Char) : Nat := c.toNat - '0'.toNat
def lower (c : Char) : Char := if 'A' ≤ c && c ≤ 'Z' then Char.ofNat (c.toNat + 32) else c

/-- `alpha1`: the maximal non-empty run of ASCII letters -/
def alpha1 (s : List Char) : Option (List Char × List Char) :=
  let name := s.takeWhile isAlpha
  if name.isEmpty then none else some (name, s.dropWhile isAlpha)

/-- `digit1` -/
def digit1 (s : List Char) : Option (List Char × List Char) :=
  let ds := s.takeWhile isDigit
  if ds.isEmpty then none else some (ds, s.dropWhile isDigit)

def digitsVal (ds : List Char) : Nat := ds.foldl (fun acc c => acc * 10 + digitVal c) 0

/-- `tag_no_case` for an ASCII lower-case pattern -/
def tagNoCase (pat : List Char) (s : List Char) : Option (List Char) :=
  if (s.take pat.length).map lower == pat && pat.length ≤ s.length then some (s.drop pat.length) else none

/-- `nom::number::complete::double` followed by `T::from`: `recognize_float` (optional sign,
    `digits [. digits?] | . digits`, optional exponent with `cut(digit1)`), else `nan`, else `inf`
    (case-insensitive; `infinity` is shadowed by `inf`).  Returns the literal as a tree leaf. -/
def lexDouble (s : List Char) : Option (List Char × E) :=
  -- optional sign (a '-' never reaches this point from `parse_term`, but `double` accepts it)
  let (neg, s1) := match s with
    | '+' :: t => (false, t)
    | '-' :: t => (true, t)
    | _ => (false, s)
  let mant : Option (Nat × Nat × List Char) :=    -- (digits value, number of fraction digits, rest)
    match digit1 s1 with
    | some (ip, r) =>
      match r with
      | '.' :: r2 =>
        match digit1 r2 with
        | some (fp, r3) => some (digitsVal (ip ++ fp), fp.length, r3)
        | none => some (digitsVal ip, 0, r2)
      | _ => some (digitsVal ip, 0, r)
    | none =>
      match s1 with
      | '.' :: r2 =>
        match digit1 r2 with
        | some (fp, r3) => some (digitsVal fp, fp.length, r3)
        | none => none
      | _ => none
  match mant with
  | some (m, fd, r) =>
    -- exponent: (e|E) [+-]? cut(digit1); a failed `cut` fails the whole number
    let isE := match r with | 'e' :: _ => true | 'E' :: _ => true | _ => false
    if isE then
      let r1 := r.drop 1
      let (eneg, r2) := match r1 with
        | '+' :: t => (false, t)
        | '-' :: t => (true, t)
        | _ => (false, r1)
      match digit1 r2 with
      | some (ed, r3) =>
        let ev : Int := if eneg then -(digitsVal ed : Int) else (digitsVal ed : Int)
        if neg then some (r3, .un .neg (.lit m (ev - fd))) else some (r3, .lit m (ev - fd))
      | none => none
    else
      if neg then some (r, .un .neg (.lit m (-(fd : Int)))) else some (r, .lit m (-(fd : Int)))
  | none =>
    -- the float recogniser failed on the ORIGINAL input; try the exceptions there
    match tagNoCase ['n', 'a', 'n'] s with
    | some r => some (r, .litNan)
    | none =>
      match tagNoCase ['i', 'n', 'f'] s with
      | some r => some (r, .litInf)
      | none => none

/-- `str::ends_with(|ch: char| ch.is_ascii_alphabetic())` -/
def endsWithAlpha (s : List Char) : Bool :=
  match s.getLast? with
  | some c => isAlpha c
  | none => false

/-- `str::starts_with(|ch: char| ch.is_ascii_alphabetic())` -/
def startsWithAlpha (s : List Char) : Bool :=
  match s with
  | c :: _ => isAlpha c
  | [] => false

/-- `parse_const`: `double`, with the guard of the repair "a word that is only the beginning of a
    longer name is that name, not a number": when the text consumed by `double`
    (`expr[..expr.len() - rest.len()]`) ends with an ASCII letter — this happens exactly for the
    words `inf` / `nan`, a numeric literal ends with a digit or '.' — and the remaining input
    starts with an ASCII letter, `parse_const` fails, so that `parse_term` goes on to
    `parse_func` / `parse_var`, which lex the whole name with `alpha1`. -/
def parseConst (s : List Char) : Option (List Char × E) :=
  match lexDouble s with
  | some (rest, t) =>
    if endsWithAlpha (s.take (s.length - rest.length)) && startsWithAlpha rest then none
    else some (rest, t)
  | none => none

/-- `nom::character::complete::i32`: optional sign, at least one digit, checked arithmetic -/
def lexI32 (s : List Char) : Option (List Char × Int) :=
  let (neg, s1) := match s with
    | '+' :: t => (false, t)
    | '-' :: t => (true, t)
    | _ => (false, s)
  match digit1 s1 with
  | none => none
  | some (ds, r) =>
    -- checked_mul/checked_add (or checked_sub) digit by digit: any prefix out of range fails
    let step (acc : Option Int) (c : Char) : Option Int :=
      match acc with
      | none => none
      | some v =>
        let v' : Int := if neg then v * 10 - (digitVal c : Int) else v * 10 + (digitVal c : Int)
        if -2147483648 ≤ v' && v' ≤ 2147483647 then some v' else none
    match ds.foldl step (some 0) with
    | some v => some (r, v)
    | none => none

/-- `fold_many0(tag("-"))`: count and consume all leading minus signs -/
def negCount (s : List Char) : Nat × List Char :=
  let ms := s.takeWhile (· == '-')
  (ms.length, s.dropWhile (· == '-'))

/-- `parse_var` (not recursive) -/
def parseVar (ctx : Ctx) (s : List Char) : R E :=
  match alpha1 s with
  | none => .fail
  | some (name, r) =>
    match ctx.get (String.ofList name) with
    | some .const => .ok r (.cst (String.ofList name))
    | some (.var i) => .ok r (.var i)
    | _ => .fail

mutual

/-- `parse_expression` -/
def parseExpr : Nat → Ctx → List Char → R E
  | 0, _, _ => .oof
  | fuel + 1, ctx, s =>
    match parseMul fuel ctx s true with
    | .ok rest t => loopAdd fuel ctx rest t
    | .fail => .fail
    | .oof => .oof

/-- the `while let` loop of `parse_expression` -/
def loopAdd : Nat → Ctx → List Char → E → R E
  | 0, _, _, _ => .oof
  | fuel + 1, ctx, s, acc =>
    match s with
    | '+' :: rest =>
      match parseMul fuel ctx rest false with
      | .ok rest' t => loopAdd fuel ctx rest' (.bin .add acc t)
      | .fail => .fail
      | .oof => .oof
    | '-' :: rest =>
      match parseMul fuel ctx rest false with
      | .ok rest' t => loopAdd fuel ctx rest' (.bin .sub acc t)
      | .fail => .fail
      | .oof => .oof
    | _ => .ok s acc

/-- `parse_terms_mul` -/
def parseMul : Nat → Ctx → List Char → Bool → R E
  | 0, _, _, _ => .oof
  | fuel + 1, ctx, s, allowNeg =>
    match parseTerm fuel ctx s allowNeg with
    | .ok rest t => loopMul fuel ctx rest t
    | .fail => .fail
    | .oof => .oof

/-- the `while let` loop of `parse_terms_mul` -/
def loopMul : Nat → Ctx → List Char → E → R E
  | 0, _, _, _ => .oof
  | fuel + 1, ctx, s, acc =>
    match s with
    | '*' :: rest =>
      match parseTerm fuel ctx rest true with
      | .ok rest' t => loopMul fuel ctx rest' (.bin .mul acc t)
      | .fail => .fail
      | .oof => .oof
    | '/' :: rest =>
      match parseTerm fuel ctx rest true with
      | .ok rest' t => loopMul fuel ctx rest' (.bin .div acc t)
      | .fail => .fail
      | .oof => .oof
    | _ => .ok s acc

/-- `parse_term` -/
def parseTerm : Nat → Ctx → List Char → Bool → R E
  | 0, _, _, _ => .oof
  | fuel + 1, ctx, s, allowNeg =>
    let (negs, s1) := negCount s
    if !(negs == 0 || (allowNeg && negs == 1)) then .fail
    else
      -- parse_parenth . or_else parse_const . or_else parse_func . or_else parse_var
      let atom : R E :=
        match parseParenth fuel ctx s1 with
        | .ok r t => .ok r t
        | .oof => .oof
        | .fail =>
          match parseConst s1 with
          | some (r, t) => .ok r t
          | none =>
            match parseFunc fuel ctx s1 with
            | .ok r t => .ok r t
            | .oof => .oof
            | .fail => parseVar ctx s1
      match atom with
      | .fail => .fail
      | .oof => .oof
      | .ok rest base =>
        -- exponentiation: `^ term` first, then `** i32`
        let powd : R E :=
          match rest with
          | '^' :: r1 =>
            match parseTerm fuel ctx r1 true with
            | .ok r2 ex => .ok r2 (.bin .pow base ex)
            | .oof => .oof
            | .fail => .ok rest base      -- `if let Ok` fails; `**` cannot match either
          | '*' :: '*' :: r1 =>
            match lexI32 r1 with
            | some (r2, n) => .ok r2 (.powi base n)
            | none => .ok rest base
          | _ => .ok rest base
        match powd with
        | .ok r t => if negs == 1 then .ok r (.un .neg t) else .ok r t
        | .fail => .fail
        | .oof => .oof

/-- `parse_parenth` -/
def parseParenth : Nat → Ctx → List Char → R E
  | 0, _, _ => .oof
  | fuel + 1, ctx, s =>
    match s with
    | '(' :: r =>
      match parseExpr fuel ctx r with
      | .ok (')' :: r2) t => .ok r2 t
      | .ok _ _ => .fail
      | .fail => .fail
      | .oof => .oof
    | _ => .fail

/-- `parse_func` -/
def parseFunc : Nat → Ctx → List Char → R E
  | 0, _, _ => .oof
  | fuel + 1, ctx, s =>
    match alpha1 s with
    | none => .fail
    | some (name, r) =>
      match ctx.get (String.ofList name) with
      | some .uop =>
        match r with
        | '(' :: r1 =>
          match parseExpr fuel ctx r1 with
          | .ok (')' :: r2) t =>
            .ok r2 (.un ((UFn.ofName (String.ofList name)).getD (.user (String.ofList name))) t)
          | .ok _ _ => .fail
          | .fail => .fail
          | .oof => .oof
        | _ => .fail
      | _ => .fail

end

inductive CompileErr where
  /-- `ParsedFuncError::ParameterOutOfBounds` -/
  | paramOOB
  /-- `ParsedFuncError::ParsingError` (any nom error) -/
  | parsing
  /-- `ParsedFuncError::ResidueError` -/
  | residue
  /-- only the model can report this; proved unreachable -/
  | outOfFuel
  deriving DecidableEq, Repr

/-- fuel that always suffices (Thm/C17 `fuel_suffices`) -/
def fuelFor (s : List Char) : Nat := 6 * s.length + 10

/-- `compile_expression::<I, T>` -/
def compile (arity : Nat) (ctx : Ctx) (src : List Char) : Except CompileErr E :=
  if ctx.any (fun p => match p.2 with | .var i => decide (arity ≤ i) | _ => false) then .error .paramOOB
  else
    let s := stripWs src
    match parseExpr (fuelFor s) ctx s with
    | .oof => .error .outOfFuel
    | .fail => .error .parsing
    | .ok rest t => if rest.isEmpty then .ok t else .error .residue

/-- the 18 names of `DefaultContext::default()` (tied to the source by Gen/Context.lean) -/
def defaultCtx : Ctx :=
  [("pi", .const), ("e", .const), ("abs", .uop), ("sin", .uop), ("cos", .uop), ("tan", .uop),
   ("asin", .uop), ("acos", .uop), ("atan", .uop), ("ln", .uop), ("exp", .uop), ("sqrt", .uop),
   ("sinh", .uop), ("cosh", .uop), ("tanh", .uop), ("asinh", .uop), ("acosh", .uop), ("atanh", .uop)]

end Cav
