/-
  `roots::find_root_brent` (roots 0.0.7, src/numerical/brent.rs) with the `XConvergency`
  of `src/cav2d/display.rs` (root found: `y == 0`; converged: `|x2 - x1| < tol/2`;
  limit: `iter >= max_iters`), modelled line by line.
-/
import Cav.Num

namespace Cav
open Num
variable {α : Type} [Num α]

inductive SearchErr where
  | noConvergency
  | noBracketing
  deriving DecidableEq, Repr

/-- `arrange`: the point with the greater |y| first -/
def brentArrange (a ya b yb : α) : α × α × α × α :=
  if Num.lt (Num.abs yb) (Num.abs ya) then (a, ya, b, yb) else (b, yb, a, ya)

structure BrentSt (α : Type) where
  a : α
  ya : α
  b : α
  yb : α
  c : α
  yc : α
  d : α
  flag : Bool
  iter : Nat

/-- `XConvergency::is_converged` -/
def xConverged (tol x1 x2 : α) : Bool := Num.lt (Num.abs (x2 - x1)) (tol / two)

def brentLoop (f : α → α) (tol : α) (maxIters : Nat) : Nat → BrentSt α → Except SearchErr α
  | 0, _ => .error .noConvergency
  | fuel + 1, s =>
    if Num.beq s.ya zero then .ok s.a
    else if Num.beq s.yb zero then .ok s.b
    else if xConverged tol s.a s.b then .ok s.c
    else
      let three : α := Num.ofInt 3
      let four : α := Num.ofInt 4
      let twoI : α := Num.ofInt 2
      let s0 : α :=
        if Num.bne s.ya s.yc && Num.bne s.yb s.yc then
          s.a * s.yb * s.yc / ((s.ya - s.yb) * (s.ya - s.yc)) + s.b * s.ya * s.yc / ((s.yb - s.ya) * (s.yb - s.yc))
            + s.c * s.ya * s.yb / ((s.yc - s.ya) * (s.yc - s.yb))
        else
          s.b - s.yb * (s.b - s.a) / (s.yb - s.ya)
      let cond1 := Num.lt zero ((s0 - s.b) * (s0 - (three * s.a + s.b) / four))
      let cond2 := s.flag && Num.le (Num.abs (s.b - s.c) / twoI) (Num.abs (s0 - s.b))
      let cond3 := !s.flag && Num.le (Num.abs (s.c - s.d) / twoI) (Num.abs (s0 - s.b))
      let cond4 := s.flag && xConverged tol s.b s.c
      let cond5 := !s.flag && xConverged tol s.c s.d
      let bis := cond1 || cond2 || cond3 || cond4 || cond5
      let sx := if bis then (s.a + s.b) / twoI else s0
      let ys := f sx
      let d := s.c
      let c := s.b
      let yc := s.yb
      let (a, ya, b, yb) :=
        if Num.lt (s.ya * ys) zero then brentArrange s.a (f s.a) sx ys
        else brentArrange sx ys s.b (f s.b)
      let iter := s.iter + 1
      if maxIters ≤ iter then .error .noConvergency
      else brentLoop f tol maxIters fuel ⟨a, ya, b, yb, c, yc, d, bis, iter⟩

/-- `find_root_brent(a, b, f, &mut XConvergency { tol, max_iters })` -/
def findRootBrent (a b : α) (f : α → α) (tol : α) (maxIters : Nat) : Except SearchErr α :=
  let (a, ya, b, yb) := brentArrange a (f a) b (f b)
  if Num.lt zero (ya * yb) then .error .noBracketing
  else brentLoop f tol maxIters (maxIters + 1) ⟨a, ya, b, yb, a, ya, a, true, 0⟩

end Cav
