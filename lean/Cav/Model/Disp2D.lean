/-
  `gen_display_cav` / `gen_display_rs` of `src/cav2d/display.rs` (DESIGN §4 C07, C11–C13).
-/
import Cav.Model.Split
import Cav.Model.Quad
import Cav.Model.Helpers

namespace Cav
open Num Gen
variable {α : Type} [Num α]

/-- `DisplayConfig2D` -/
structure Cfg2D (α : Type) where
  computeInteg : Bool
  xRes : Nat
  yRes : Nat
  intermCs : Nat
  maxRfIters : Nat
  maxIntIters : Nat
  tol : α

/-- `CavDisplay2D` -/
structure Disp2D (α : Type) where
  a : α
  b : α
  fv : List α
  xv : List α
  cvs : List (Nat × List (α × α))
  gv : List α
  dgv : List α
  integ : Option (α × α)

/-- the curve attachment indices: `[0] ++ (1..=interm_cs).map(round(...)).filter(< len) ++ [len-1]` -/
def curveIdx (len intermCs : Nat) : List Nat :=
  [0] ++ ((List.range intermCs).map (fun k =>
      let n := k + 1
      Num.toNat (Num.round ((Num.ofNat (len - 1) * Num.ofNat n : α) / Num.ofNat (intermCs + 1))))).filter (· < len)
    ++ [len - 1]

def integErr (e : IntegErr) : DispErr := .integ (e == .convergence)

/-- `g = |x: AD| x - c.composition(f.fdf(x.0)).into() + AD(c_0, 0f64)` -/
def cavG (f c : AD α → AD α) (c0 : α) (x : AD α) : AD α :=
  let comp := D1.composition c (D1.fdf f x.v)
  AD.add (AD.sub x (AD.mk comp.1 comp.2)) (AD.mk c0 zero)

/-- body of the piece loop shared by both generators: integration value -/
def pieceInteg (cfg : Cfg2D α) (f g : AD α → AD α) (a b : α) : Except DispErr (Option (α × α)) :=
  if cfg.computeInteg then
    match (gk1d (fun x => D1.f f x * D1.df g x) a b cfg.tol (some cfg.maxIntIters)).res with
    | .ok v => .ok (some v)
    | .error e => .error (integErr e)
  else .ok none

def chainPairs : List α → List (α × α)
  | a :: b :: rest => (a, b) :: chainPairs (b :: rest)
  | _ => []

/-- `gen_display_cav` -/
def genDisplayCav (f c : AD α → AD α) (intervals : List (α × α)) (cfg : Cfg2D α) :
    Except DispErr (List (Disp2D α)) :=
  let c0 := D1.f c zero
  let g := cavG f c c0
  let cc : α → α := fun y => D1.f c y - c0
  let rec pieces : List (α × α) → List (Disp2D α) → Except DispErr (List (Disp2D α))
    | [], acc => .ok acc
    | (a, b) :: rest, acc =>
      match pieceInteg cfg f g a b with
      | .error e => .error e
      | .ok integ =>
        let xv := vecFromRes a b cfg.xRes
        let fv := xv.map (D1.f f)
        let gdg := xv.map (D1.fdf g)
        let gv := gdg.map (·.1)
        let dgv := gdg.map (·.2)
        let yrv := vecFromRes (zero : α) one cfg.yRes
        let cvs := (curveIdx (α := α) xv.length cfg.intermCs).map fun i =>
          let fx := fv.getD i zero
          let xr := gv.getD i zero
          (i, yrv.map fun r => (r * fx, xr + cc (r * fx)))
        pieces rest (acc ++ [⟨a, b, fv, xv, cvs, gv, dgv, integ⟩])
  let rec ivs : List (α × α) → List (Disp2D α) → Except DispErr (List (Disp2D α))
    | [], acc => .ok acc
    | (a, b) :: rest, acc =>
      let xv := vecFromRes a b cfg.xRes
      match splitStrictlyMonotone g xv cfg.tol cfg.maxRfIters with
      | .error e => .error e
      | .ok splits =>
        match pieces (chainPairs (a :: splits ++ [b])) acc with
        | .error e => .error e
        | .ok acc' => ivs rest acc'
  ivs intervals []

/-- `(f64, f64)` tuple `>` -/
def tupleGt (p q : α × α) : Bool :=
  match partialCmp p.1 q.1 with
  | some .eq => Num.lt q.2 p.2
  | some .gt => true
  | _ => false

/-- one piece of `gen_display_rs` -/
def rsPiece (f g : AD α → AD α) (cfg : Cfg2D α) (a b : α) : Except DispErr (Disp2D α) :=
  match pieceInteg cfg f g a b with
  | .error e => .error e
  | .ok integ =>
    let xv := vecFromRes a b cfg.xRes
    let fv := xv.map (D1.f f)
    let gdg := xv.map (D1.fdf g)
    let gv0 := gdg.map (·.1)
    let dgv := gdg.map (·.2)
    let (minX, maxX) := if Num.lt b a then (b, a) else (a, b)
    let minX := minX + cfg.tol
    let maxX := maxX - cfg.tol
    let minFdf0 := D1.fdf f minX
    let maxFdf0 := D1.fdf f maxX
    let sw := tupleGt minFdf0 maxFdf0
    let (minFdf, maxFdf) := if sw then (maxFdf0, minFdf0) else (minFdf0, maxFdf0)
    let (minX, maxX) := if sw then (maxX, minX) else (minX, maxX)
    let cGradMax : α := Num.ofNat 10
    let pDecayMax := cGradMax * Num.abs (maxX - minX)
    let minDcy0 := (one - D1.df g minX) / minFdf.2
    let minDcy := if !(Num.lt (Num.abs minDcy0) pDecayMax) then zero else minDcy0
    let maxDcy0 := (one - D1.df g maxX) / maxFdf.2
    let maxDcy := if !(Num.lt (Num.abs maxDcy0) pDecayMax) then zero else maxDcy0
    let cx : α → α := fun x => x - D1.f g x
    let minCy := cx minX
    let maxCy := cx maxX
    let cRaw : α → Except DispErr α := fun y =>
      if Num.lt y minFdf.1 then
        .ok (minCy - signVal minDcy * Num.ln1p (Num.abs minDcy * (minFdf.1 - y)))
      else if Num.lt maxFdf.1 y then
        .ok (maxCy + signVal maxDcy * Num.ln1p (Num.abs maxDcy * (y - maxFdf.1)))
      else
        match findRootBrent minX maxX (fun x => D1.f f x - y) cfg.tol cfg.maxRfIters with
        | .ok x => .ok (cx x)
        | .error e => .error (.root e)
    match cRaw zero with
    | .error e => .error e
    | .ok k =>
      let gv := gv0.map (· + k)
      let yrv := vecFromRes (zero : α) one cfg.yRes
      let rec curve (fx xr : α) : List α → List (α × α) → Except DispErr (List (α × α))
        | [], acc => .ok acc.reverse
        | r :: rs, acc =>
          match cRaw (r * fx) with
          | .error e => .error e
          | .ok cy => curve fx xr rs ((r * fx, xr + (cy - k)) :: acc)
      let rec curves : List Nat → List (Nat × List (α × α)) → Except DispErr (List (Nat × List (α × α)))
        | [], acc => .ok acc.reverse
        | i :: is, acc =>
          match curve (fv.getD i zero) (gv.getD i zero) yrv [] with
          | .error e => .error e
          | .ok cv => curves is ((i, cv) :: acc)
      match curves (curveIdx (α := α) xv.length cfg.intermCs) [] with
      | .error e => .error e
      | .ok cvs => .ok ⟨a, b, fv, xv, cvs, gv, dgv, integ⟩

/-- `gen_display_rs` -/
def genDisplayRs (f g : AD α → AD α) (intervals : List (α × α)) (cfg : Cfg2D α) :
    Except DispErr (List (Disp2D α)) :=
  let rec pieces : List (α × α) → List (Disp2D α) → Except DispErr (List (Disp2D α))
    | [], acc => .ok acc
    | (a, b) :: rest, acc =>
      match rsPiece f g cfg a b with
      | .error e => .error e
      | .ok d => pieces rest (acc ++ [d])
  let rec ivs : List (α × α) → List (Disp2D α) → Except DispErr (List (Disp2D α))
    | [], acc => .ok acc
    | (a, b) :: rest, acc =>
      let xv := vecFromRes a b cfg.xRes
      match splitTranslational f g xv cfg.tol cfg.maxRfIters with
      | .error e => .error e
      | .ok splits =>
        match pieces (chainPairs (a :: splits ++ [b])) acc with
        | .error e => .error e
        | .ok acc' => ivs rest acc'
  ivs intervals []

end Cav
