/-
  Points, gradients and the small geometric helpers of `src/core/triangulation.rs`
  (DESIGN §4 C03, Appendix A).  All comparisons are those of `OrderedFloat` (`Num.of*`).
-/
import Cav.Num

namespace Cav
open Num

/-- `Pt([OrderedFloat<f64>; 2])` -/
structure Pt (α : Type) where
  x : α
  y : α
  deriving Repr

variable {α : Type} [Num α]

namespace Pt

/-- derived `Ord` on `[OrderedFloat; 2]`: lexicographic -/
def cmp (p q : Pt α) : Ordering :=
  match ofCmp p.x q.x with
  | .eq => ofCmp p.y q.y
  | o => o

/-- derived `PartialEq` -/
def eq (p q : Pt α) : Bool := ofEq p.x q.x && ofEq p.y q.y
def lt (p q : Pt α) : Bool := cmp p q == .lt
def gt (p q : Pt α) : Bool := cmp p q == .gt
def ge (p q : Pt α) : Bool := cmp p q != .lt

/-- `Pt::grad` -/
def grad (self other : Pt α) : α :=
  let dx := other.x - self.x
  let dy := other.y - self.y
  if ofEq dx (zero : α) then signVal dy * (Num.inf : α) else dy / dx

end Pt

/-- `PType` -/
inductive PType where
  | start | end_ | bend
  deriving DecidableEq, Repr

def PType.name : PType → String
  | .start => "Start" | .end_ => "End" | .bend => "Bend"

/-- `PType::from_triplet`; `none` = `NoPointType(p)` -/
def fromTriplet (p p1 p2 : Pt α) : Option PType :=
  if p.eq p1 || p.eq p2 then none
  else if p.lt p1 && p.lt p2 then some .start
  else if p.gt p1 && p.gt p2 then some .end_
  else some .bend

/-- `y_extrap` -/
def yExtrap (p1 p2 : Pt α) (x : α) (right : Bool) : α :=
  let (p1, p2) := if p1.gt p2 then (p2, p1) else (p1, p2)
  if ofEq x p1.x && ofEq x p2.x then (if right then p2.y else p1.y)
  else if ofLe x p1.x then p1.y
  else if ofGe x p2.x then p2.y
  else
    let c := (x - p1.x) / (p2.x - p1.x)
    (one - c) * p1.y + c * p2.y

/-- `PSign` -/
inductive PSign where
  | c | cc | none
  deriving DecidableEq, Repr

/-- `clockwise_sign` on a triple (the only way it is called): lexicographic-minimum vertex
    (first one on ties, as `reduce(min_by)`), gradient to the next minus gradient to the previous -/
def clockwiseSign (p0 p1 p2 : Pt α) : PSign :=
  -- index of the minimum: min_by keeps the first argument unless it is Greater
  let i01 : Nat := if p0.cmp p1 == .gt then 1 else 0
  let pm := if i01 == 0 then p0 else p1
  let imin : Nat := if pm.cmp p2 == .gt then 2 else i01
  let (p, pPrev, pNext) :=
    match imin with
    | 0 => (p0, p2, p1)
    | 1 => (p1, p0, p2)
    | _ => (p2, p1, p0)
  let gd := p.grad pNext - p.grad pPrev
  if Num.isNaN gd || ofEq gd (zero : α) then .none
  else if !(Num.signBit gd) then .c
  else .cc

/-- insertion sort of three points by `Pt.cmp` (`pts.sort()`, stable) -/
def sort3 (a b c : Pt α) : Pt α × Pt α × Pt α :=
  let (a, b) := if a.cmp b == .gt then (b, a) else (a, b)
  -- insert c
  if b.cmp c == .gt then
    if a.cmp c == .gt then (c, a, b) else (a, c, b)
  else (a, b, c)

end Cav
