/-
  `split_strictly_monotone`, `is_monotonic_saddle`, `split_translational`
  (`src/cav2d/display.rs`), DESIGN §4 C11/C13.  Differentiable functions are closures
  `AD α → AD α`; their accessors are the GENERATED `Gen.D1.*`.
-/
import Cav.Model.Brent
import Cav.Gen.AD

namespace Cav
open Num Gen
variable {α : Type} [Num α]

/-- `Display2DError` (the variants that can arise) -/
inductive DispErr where
  | root (e : SearchErr)
  | integ (conv : Bool)     -- true = ConvergenceError, false = NaNError
  deriving DecidableEq, Repr

/-- `is_monotonic_saddle` -/
def isMonotonicSaddle (f : AD α → AD α) (x tol : α) : Bool :=
  let x1 := D1.fdf f (x - tol)
  let x2 := D1.fdf f (x + tol)
  Num.beq (signVal x1.2) (signVal x2.2) && Num.beq (signVal x1.2) (signVal (x2.1 - x1.1))

/-- `unresolved` inside the closure `step_off`: the derivative is an exact zero, or its sign
    contradicts the direction `df` in which the function moves across the saddle (when `df ≠ 0`) -/
def unresolvedD (df d : α) : Bool :=
  Num.beq d zero || (Num.bne df zero && Num.bne (signum d) (signum df))

/-- the `while` loop of the closure `step_off`: `x0 + dir*step` with `step = tol, 2 tol, 4 tol, …`
    until the derivative there is resolved or the step would leave the cell (`fuel` bounds the
    number of doublings: a binary64 step doubles at most ~2100 times) -/
def stepOffLoop (f : AD α → AD α) (x0 dir width df : α) : Nat → α → α × α
  | 0, step => (x0 + dir * step, D1.df f (x0 + dir * step))
  | fuel + 1, step =>
    let x := x0 + dir * step
    let d := D1.df f x
    if unresolvedD df d && Num.lt zero step && Num.lt (two * step) width then
      stepOffLoop f x0 dir width df fuel (step * two)
    else (x, d)

/-- the closure `step_off` of `split_strictly_monotone` -/
def stepOff (f : AD α → AD α) (tol x0 dir width : α) : α × α :=
  let df := D1.f f (x0 + tol) - D1.f f (x0 - tol)
  let (x, d) := stepOffLoop f x0 dir width df 2200 tol
  if unresolvedD df d then (x0, if Num.bne df zero then signum df else one) else (x, d)

/-- the `while` loop of `split_strictly_monotone` over the (end-shifted) grid -/
def splitLoop (f : AD α → AD α) (tol : α) (maxRf : Nat) (xSign : α) (xv : Array α) (dfv : Array (α × α)) :
    Nat → Nat → List α → Except DispErr (List α)
  | 0, _, roots => .ok roots.reverse
  | fuel + 1, i, roots =>
    if i < xv.size then
      let xl := xv.getD (i - 1) zero
      let xr := xv.getD i zero
      let ldfs := (dfv.getD (i - 1) (zero, zero)).2
      let rdfs := (dfv.getD i (zero, zero)).2
      if !(Num.isFinite ldfs) || (Num.beq ldfs zero && !(isMonotonicSaddle f xl tol)) then
        splitLoop f tol maxRf xSign xv dfv fuel (i + 1) (xl :: roots)
      else if !(Num.isFinite rdfs) || (Num.beq rdfs zero && !(isMonotonicSaddle f xr tol)) then
        splitLoop f tol maxRf xSign xv dfv fuel (i + 2) (xr :: roots)
      else
        -- an exact zero that passed the saddle test is a monotone saddle: step off it into the
        -- cell (doubling the step) until the derivative is numerically resolved
        let width := Num.abs (xr - xl)
        let (xl', ldfs') := if Num.beq ldfs zero then stepOff f tol xl xSign width else (xl, ldfs)
        let (xr', rdfs') := if Num.beq rdfs zero then stepOff f tol xr (-xSign) width else (xr, rdfs)
        if Num.bne (signum ldfs') (signum rdfs') then
          match findRootBrent xl' xr' (fun x => D1.df f x) tol maxRf with
          | .ok r => splitLoop f tol maxRf xSign xv dfv fuel (i + 1) (r :: roots)
          | .error e => .error (.root e)
        else splitLoop f tol maxRf xSign xv dfv fuel (i + 1) roots
    else .ok roots.reverse

/-- `split_strictly_monotone` -/
def splitStrictlyMonotone (f : AD α → AD α) (xv : List α) (tol : α) (maxRf : Nat) :
    Except DispErr (List α) :=
  let n := xv.length
  if n < 2 then .ok []
  else
    let arr := xv.toArray
    let a := arr.getD 0 zero
    let b := arr.getD (n - 1) zero
    let xSign := signVal (b - a)
    let arr := arr.setIfInBounds 0 (arr.getD 0 zero + xSign * tol)
    let arr := arr.setIfInBounds (n - 1) (arr.getD (n - 1) zero - xSign * tol)
    let dfv := arr.map (fun x => D1.fdf f x)
    splitLoop f tol maxRf xSign arr dfv (n + 1) 1 []

/-- `slice.sort_by(cmp)` is a stable merge/insertion sort; for the comparator used here any
    stable sort gives the same result: stable insertion sort -/
def insertSorted (cmp : α → α → Ordering) (x : α) : List α → List α
  | [] => [x]
  | y :: ys => if cmp x y == .lt then x :: y :: ys else y :: insertSorted cmp x ys

def stableSort (cmp : α → α → Ordering) (l : List α) : List α :=
  l.foldl (fun acc x => insertSorted cmp x acc) []

/-- `iter().copied().sum::<f64>()` (folds from `-0.0`) -/
def sumF (l : List α) : α := l.foldl (· + ·) (-zero)

/-- the clustering loop of `split_translational` -/
def clusterRoots (tol : α) (m : Array α) : List α :=
  if m.size > 1 then
    let rec go : Nat → Nat → Nat → List α → List α
      | 0, _, li, acc => (sumF ((m.toList.drop li)) / Num.ofNat (m.size - li) :: acc).reverse
      | fuel + 1, i, li, acc =>
        if i < m.size then
          let r := m.getD i zero
          if Num.lt (two * tol) (Num.abs (r - m.getD li zero)) then
            go fuel (i + 1) i (sumF ((m.toList.drop li).take (i - li)) / Num.ofNat (i - li) :: acc)
          else go fuel (i + 1) li acc
        else (sumF ((m.toList.drop li)) / Num.ofNat (m.size - li) :: acc).reverse
    go (m.size + 1) 0 0 []
  else m.toList

/-- `split_translational` -/
def splitTranslational (f g : AD α → AD α) (xv : List α) (tol : α) (maxRf : Nat) :
    Except DispErr (List α) :=
  if xv.length < 2 then .ok []
  else
    let a := xv.headD zero
    let b := xv.getLastD zero
    let xSign := signVal (b - a)
    match splitStrictlyMonotone f xv tol maxRf with
    | .error e => .error e
    | .ok fr =>
      match splitStrictlyMonotone g xv tol maxRf with
      | .error e => .error e
      | .ok gr =>
        let cmp : α → α → Ordering := fun p q =>
          let sdiff := xSign * (p - q)
          if Num.lt zero sdiff then .gt else if Num.lt sdiff zero then .lt else .eq
        let merged := stableSort cmp (fr ++ gr)
        .ok (clusterRoots tol merged.toArray)

end Cav
