/-
  `src/core/helpers.rs`: `linspace`, `vec_from_res`, `n_linspace`, `n_vec_from_res`
  (formulas tied to the source by Gen/Shape.lean facts `linspace`, `n_linspace`, `vec_from_res`).
-/
import Cav.Num

namespace Cav
open Num
variable {α : Type} [Num α]

/-- `linspace(a, b, length)`: at least two points, `(1 - c) * a + c * b` with `c = p / (length - 1)` -/
def linspace (a b : α) (length : Nat) : List α :=
  let n := if length < 2 then 2 else length
  (List.range n).map fun p =>
    let c : α := Num.ofNat p / Num.ofNat (n - 1)
    (one - c) * a + c * b

/-- `vec_from_res(a, b, res)` -/
def vecFromRes (a b : α) (res : Nat) : List α := linspace a b (res + 1)

/-- `n_linspace` for `N = 2` -/
def linspace2 (a b : α × α) (length : Nat) : List (α × α) :=
  let n := if length < 2 then 2 else length
  (List.range n).map fun p =>
    let c : α := Num.ofNat p / Num.ofNat (n - 1)
    ((one - c) * a.1 + c * b.1, (one - c) * a.2 + c * b.2)

/-- `n_vec_from_res` for `N = 2` -/
def vecFromRes2 (a b : α × α) (res : Nat) : List (α × α) := linspace2 a b (res + 1)

end Cav
