/-
  Heap-explicit functional model of `triangulate_polygon_set` / `handle_next` / `BackChain`
  (`src/core/triangulation.rs`), DESIGN Appendix A.  `Rc<RefCell<…>>` cells are array entries
  addressed by index; borrow conflicts, `unreachable!()`, index and B-tree range panics are
  explicit `panic` outcomes.  `BTreeSet<YEdge>` is a list kept by the same comparator read at
  the shared sweep abscissa (exact for one leaf, i.e. ≤ 11 active edges, or while the stored
  order is consistent with the comparator).
-/
import Cav.Model.Geom

namespace Cav
open Num

/-- input vertex ring cell (`LPt` of the polygon rings) -/
structure Vtx (α : Type) where
  p : Pt α
  prev : Nat
  next : Nat

/-- `LPt` cell of a back-chain -/
structure Node (α : Type) where
  p : Pt α
  prev : Option Nat
  next : Option Nat

/-- `BackChain` -/
structure Chain where
  rm : Nat
  head : Nat
  tail : Nat

/-- `YEdge` -/
structure Edge (α : Type) where
  rpt : Pt α
  chain : Nat
  bofIn : Bool
  bPart : Option Nat
  tPart : Option Nat

inductive SErr (α : Type) where
  | overlap (k : PType) (p : Pt α)
  | duplicate (p : Pt α)
  | nonFinite
  | noPolygon
  | noPointType (p : Pt α)
  | panic (kind : String)
  | oof

structure St (α : Type) where
  x : α
  verts : Array (Vtx α)
  nodes : Array (Node α)
  chains : Array Chain
  edges : Array (Edge α)
  /-- `BTreeSet<Rc<RefCell<YEdge>>>` in stored order -/
  active : List Nat
  /-- `BTreeMap<LPt, Vec<edge>>` keyed by point, ascending: (vertex id, edge ids) -/
  events : List (Nat × List Nat)
  out : List (Pt α × Pt α × Pt α)
  /-- ghost (never read by the sweep): every ordered lookup so far saw comparison results of the
      form `gt* eq? lt*` along the stored order, i.e. the stored order was consistent with the
      comparator for the key looked up, so that any search tree over the same sequence (the
      `BTreeSet` of the implementation) answers as the list scan of this model does -/
  mono : Bool := true

abbrev SM (α : Type) := StateT (St α) (Except (SErr α))

variable {α : Type} [Num α]

namespace Sweep

def dummyPt : Pt α := ⟨zero, zero⟩

def getNode (i : Nat) : SM α (Node α) := do
  match (← get).nodes[i]? with
  | some n => pure n
  | none => throw (.panic "model-bad-node")

def getChain (i : Nat) : SM α Chain := do
  match (← get).chains[i]? with
  | some c => pure c
  | none => throw (.panic "model-bad-chain")

def getEdge (i : Nat) : SM α (Edge α) := do
  match (← get).edges[i]? with
  | some e => pure e
  | none => throw (.panic "model-bad-edge")

def getVtx (i : Nat) : SM α (Vtx α) := do
  match (← get).verts[i]? with
  | some v => pure v
  | none => throw (.panic "model-bad-vertex")

def setNode (i : Nat) (n : Node α) : SM α Unit :=
  modify fun s => { s with nodes := s.nodes.setIfInBounds i n }
def setChain (i : Nat) (c : Chain) : SM α Unit :=
  modify fun s => { s with chains := s.chains.setIfInBounds i c }
def setEdge (i : Nat) (e : Edge α) : SM α Unit :=
  modify fun s => { s with edges := s.edges.setIfInBounds i e }

def newNode (p : Pt α) : SM α Nat := do
  let s ← get
  set { s with nodes := s.nodes.push ⟨p, none, none⟩ }
  pure s.nodes.size

def newChainVal (c : Chain) : SM α Nat := do
  let s ← get
  set { s with chains := s.chains.push c }
  pure s.chains.size

/-- `BackChain::new` (as a value; the caller wraps it into a fresh `Rc`) -/
def chainNew (p : Pt α) : SM α Chain := do
  let n ← newNode p
  pure ⟨n, n, n⟩

def newEdge (e : Edge α) : SM α Nat := do
  let s ← get
  set { s with edges := s.edges.push e }
  pure s.edges.size

/-- the left point of an edge: head or tail of its chain -/
def edgeLpt (e : Edge α) : SM α (Pt α) := do
  let c ← getChain e.chain
  let n ← getNode (if e.bofIn then c.head else c.tail)
  pure n.p

/-- `YEdge::y_at` -/
def yAt (e : Edge α) (x : α) (right : Bool) : SM α α := do
  pure (yExtrap (← edgeLpt e) e.rpt x right)

/-- `YEdge::grad` -/
def edgeGrad (e : Edge α) : SM α α := do
  pure ((← edgeLpt e).grad e.rpt)

/-- `YEdge::tie_grad` -/
def tieGrad (e : Edge α) : SM α α := do
  let g ← edgeGrad e
  pure (if ofEq g (Num.inf : α) then -(Num.inf : α) else g)

def thenOrd (a b : Ordering) : Ordering := match a with | .eq => b | o => o

/-- `Ord for YEdge` (at the shared abscissa) -/
def cmpEdge (a b : Edge α) : SM α Ordering := do
  let x := (← get).x
  if !(Num.isFinite x) then pure .eq
  else
    let ya ← yAt a x true
    let yb ← yAt b x true
    match Num.totalCmp ya yb with
    | .eq =>
      -- edges meeting at their common right end point keep the order they had to the left of it
      if a.rpt.eq b.rpt && ofEq a.rpt.x x then
        pure (Num.totalCmp (← edgeGrad b) (← edgeGrad a))
      else
        pure (Num.totalCmp (← tieGrad a) (← tieGrad b))
    | o => pure o

/-- `PartialOrd for YEdge` (used by the range sanity check of `BTreeSet::range`) -/
def partialCmpEdge (a b : Edge α) : SM α (Option Ordering) := do
  let x := (← get).x
  if !(Num.isFinite x) then pure (some .eq)
  else
    -- both comparisons are on `OrderedFloat` values: total, NaN greatest and equal to itself
    let ya ← yAt a x true
    let yb ← yAt b x true
    match ofCmp ya yb with
    | .eq => pure (some (ofCmp (← edgeGrad a) (← edgeGrad b)))
    | o => pure (some o)

/-- `YEdge::cmp_at` -/
def cmpAt (a b : Edge α) (x : α) (right : Bool) : SM α Ordering := do
  if !(Num.isFinite x) then pure .eq
  else
    let ya ← yAt a x right
    let yb ← yAt b x right
    pure (thenOrd (Num.totalCmp ya yb) (Num.totalCmp (← edgeGrad a) (← edgeGrad b)))

/-- `min_by(x1, x2, total_cmp)` -/
def minTotal (x1 x2 : α) : α := if Num.totalCmp x1 x2 == .gt then x2 else x1

/-- `YEdge::will_overlap_bot`; `self` is mutably borrowed by the caller iff `selfBorrowed` -/
def willOverlapBot (ei : Nat) (selfBorrowed : Bool) : SM α Bool := do
  let e ← getEdge ei
  match e.bPart with
  | none => pure false
  | some bi =>
    if selfBorrowed && bi == ei then throw (.panic "borrow")
    let bp ← getEdge bi
    let x1 := e.rpt.x
    let x2 := bp.rpt.x
    if ofEq x1 x2 then
      pure (ofLt (← yAt e x1 true) (← yAt bp x1 true))
    else
      pure ((← cmpAt e bp (minTotal x1 x2) true) != .gt)

/-- `YEdge::will_overlap_top` -/
def willOverlapTop (ei : Nat) (selfBorrowed : Bool) : SM α Bool := do
  let e ← getEdge ei
  match e.tPart with
  | none => pure false
  | some ti =>
    if selfBorrowed && ti == ei then throw (.panic "borrow")
    let tp ← getEdge ti
    let x1 := e.rpt.x
    let x2 := tp.rpt.x
    if ofEq x1 x2 then
      pure (ofGt (← yAt e x1 true) (← yAt tp x1 true))
    else
      pure ((← cmpAt e tp (minTotal x1 x2) true) != .lt)

/-- first index `i` with `key.cmp(k_i) != Greater`, and whether it was `Equal`
    (`search_node` of the B-tree, on one sorted list) -/
def searchPos (key : Edge α) : List Nat → Nat → SM α (Nat × Bool)
  | [], i => pure (i, false)
  | k :: ks, i => do
    match ← cmpEdge key (← getEdge k) with
    | .gt => searchPos key ks (i + 1)
    | .eq => pure (i, true)
    | .lt => pure (i, false)

/-- results of comparing `key` with every stored edge, in stored order -/
def cmpAll (key : Edge α) : List Nat → SM α (List Ordering)
  | [] => pure []
  | k :: ks => do
    let c ← cmpEdge key (← getEdge k)
    let r ← cmpAll key ks
    pure (c :: r)

/-- `gt* eq? lt*` -/
def isMono : List Ordering → Bool
  | [] => true
  | .gt :: r => isMono r
  | .eq :: r => r.all (· == .lt)
  | .lt :: r => r.all (· == .lt)

/-- ghost step: record whether the lookup of `key` in `l` is order-consistent; touches only `mono`
    and cannot fail -/
def noteMono (key : Edge α) (l : List Nat) : SM α Unit := fun s =>
  .ok ((), { s with mono := s.mono && (match (cmpAll key l).run s with
    | .ok (cs, _) => isMono cs
    | .error _ => true) })

/-- ordered lookup: the ghost note, then the scan -/
def search (key : Edge α) (l : List Nat) : SM α (Nat × Bool) := do
  noteMono key l
  searchPos key l 0

/-- `BTreeSet::insert` -/
def activeInsert (ei : Nat) : SM α Unit := do
  let e ← getEdge ei
  let s ← get
  let (i, found) ← search e s.active
  if found then pure ()
  else modify fun s => { s with active := s.active.take i ++ ei :: s.active.drop i }

/-- `BTreeSet::remove` -/
def activeRemove (ei : Nat) : SM α Unit := do
  let e ← getEdge ei
  let s ← get
  let (i, found) ← search e s.active
  if found then modify fun s => { s with active := s.active.take i ++ s.active.drop (i + 1) }
  else pure ()

/-- `node_triangulate` -/
def nodeTriangulate (from_ : Nat) (backward : Bool) : Nat → SM α Unit
  | 0 => pure ()
  | fuel + 1 => do
    let trip : Option (Nat × Nat × Nat) ← do
      if backward then
        let n3 ← getNode from_
        match n3.prev with
        | none => pure none
        | some i2 =>
          match (← getNode i2).prev with
          | none => pure none
          | some i1 => pure (some (i1, i2, from_))
      else
        let n1 ← getNode from_
        match n1.next with
        | none => pure none
        | some i2 =>
          match (← getNode i2).next with
          | none => pure none
          | some i3 => pure (some (from_, i2, i3))
    match trip with
    | none => pure ()
    | some (i1, i2, i3) =>
      let p1 := (← getNode i1).p
      let p2 := (← getNode i2).p
      let p3 := (← getNode i3).p
      if clockwiseSign p1 p2 p3 == .c then
        let n1 ← getNode i1
        setNode i1 { n1 with next := some i3 }
        let n3 ← getNode i3
        setNode i3 { n3 with prev := some i1 }
        modify fun s => { s with out := sort3 p1 p2 p3 :: s.out }
        nodeTriangulate from_ backward fuel
      else pure ()

def nodeFuel : SM α Nat := do pure ((← get).nodes.size + 2)

/-- `BackChain::back_triangulate` on a chain value -/
def backTriangulate (c : Chain) (fromTail : Bool) : SM α Unit := do
  nodeTriangulate (if fromTail then c.tail else c.head) fromTail (← nodeFuel)

/-- `BackChain::append` (returns the updated chain value) -/
def chainAppend (c : Chain) (p : Pt α) (toTail : Bool) : SM α Chain := do
  let n ← newNode p
  if toTail then
    let nn ← getNode n
    setNode n { nn with prev := some c.tail }
    let t ← getNode c.tail
    setNode c.tail { t with next := some n }
    pure { c with rm := n, tail := n }
  else
    let nn ← getNode n
    setNode n { nn with next := some c.head }
    let h ← getNode c.head
    setNode c.head { h with prev := some n }
    pure { c with rm := n, head := n }

/-- `BackChain::split` (the receiver `self` is left as modified in place: `self.rm.next`) -/
def chainSplit (c : Chain) (p : Pt α) : SM α (Chain × Chain) := do
  let nb ← newNode p
  let nbn ← getNode nb
  setNode nb { nbn with prev := some c.rm }
  let rmn ← getNode c.rm
  let oldRmNext := rmn.next
  let oldRmPt := rmn.p
  setNode c.rm { rmn with next := some nb }
  let nd ← newNode oldRmPt
  let ndn ← getNode nd
  setNode nd { ndn with next := oldRmNext }
  match oldRmNext with
  | some rn =>
    let r ← getNode rn
    setNode rn { r with prev := some nd }
  | none => pure ()
  let nt ← newNode p
  let tTail := if c.tail == c.rm then nd else c.tail
  let ndn ← getNode nd
  setNode nd { ndn with prev := some nt }
  let ntn ← getNode nt
  setNode nt { ntn with next := some nd }
  pure (⟨nb, c.head, nb⟩, ⟨nt, nt, tTail⟩)

/-- `BackChain::merge` -/
def chainMerge (b t : Chain) (p : Pt α) : SM α Chain := do
  let nm ← newNode p
  let bt ← getNode b.tail
  setNode b.tail { bt with next := some nm }
  let nmn ← getNode nm
  setNode nm { nmn with prev := some b.tail }
  let th ← getNode t.head
  setNode t.head { th with prev := some nm }
  let nmn ← getNode nm
  setNode nm { nmn with next := some t.head }
  pure ⟨nm, b.head, t.tail⟩

/-- `ordered_points.entry(lp).and_modify(push).or_insert(vec![e])` -/
def eventsAdd (vi : Nat) (ei : Nat) : SM α Unit := do
  let s ← get
  let p := (← getVtx vi).p
  let rec go : List (Nat × List Nat) → SM α (List (Nat × List Nat))
    | [] => pure [(vi, [ei])]
    | (k, es) :: rest => do
      let kp := (← getVtx k).p
      match p.cmp kp with
      | .lt => pure ((vi, [ei]) :: (k, es) :: rest)
      | .eq => pure ((k, es ++ [ei]) :: rest)
      | .gt => do pure ((k, es) :: (← go rest))
  let ev ← go s.events
  modify fun s => { s with events := ev }

/-- `ordered_points.insert(lp, vec![])` for a Start vertex during set-up -/
def eventsInsertStart (vi : Nat) : SM α Unit := do
  let s ← get
  let p := (← getVtx vi).p
  let rec go : List (Nat × List Nat) → SM α (List (Nat × List Nat))
    | [] => pure [(vi, [])]
    | (k, es) :: rest => do
      let kp := (← getVtx k).p
      match p.cmp kp with
      | .lt => pure ((vi, []) :: (k, es) :: rest)
      | .eq => pure ((k, []) :: rest)
      | .gt => do pure ((k, es) :: (← go rest))
  let ev ← go s.events
  modify fun s => { s with events := ev }

/-- `YEdge::vertical_is_crossed` -/
def verticalIsCrossed (skip : Option Nat) (p rp : Pt α) : SM α Bool := do
  if !(ofEq rp.x p.x) then pure false
  else
    let s ← get
    let rec go : List Nat → SM α Bool
      | [] => pure false
      | a :: rest => do
        if skip == some a then go rest
        else
          let y ← yAt (← getEdge a) p.x true
          if ofLt p.y y && ofLt y rp.y then pure true else go rest
    go s.active

/-- the Start arm of `handle_next` -/
def handleStart (p : Pt α) (lp1 lp2 : Nat) : SM α Unit := do
  modify fun s => { s with x := p.x }
  let c ← chainNew p
  let ci ← newChainVal c
  let p1 := (← getVtx lp1).p
  let p2 := (← getVtx lp2).p
  let bot0 : Edge α := ⟨p1, ci, false, none, none⟩
  let top0 : Edge α := ⟨p2, ci, false, none, none⟩
  let ord ← cmpEdge bot0 top0
  if ord == .eq then throw (.overlap .start p)
  let (lpBot, botE, lpTop, topE) := if ord == .lt then (lp1, bot0, lp2, top0) else (lp2, top0, lp1, bot0)
  if ← verticalIsCrossed none p (← getVtx lpBot).p then throw (.overlap .start p)
  if ← verticalIsCrossed none p (← getVtx lpTop).p then throw (.overlap .start p)
  let bot ← newEdge botE
  let top ← newEdge topE
  setEdge bot { (← getEdge bot) with tPart := some top }
  setEdge top { (← getEdge top) with bPart := some bot }
  eventsAdd lpBot bot
  eventsAdd lpTop top
  -- nesting partners by range queries with the not-yet-inserted edges as bounds
  let act := (← get).active
  let (ib, _) ← search (← getEdge bot) act
  let botBot : Option Nat := if ib == 0 then none else act[ib - 1]?
  let (it, tfound) ← search (← getEdge top) act
  let itop := if tfound then it + 1 else it
  let topTop : Option Nat := act[itop]?
  -- "nothing between": range (Excluded(bot_bot)|Unbounded, Excluded(top_top)|Unbounded)
  let lo ← match botBot with
    | none => pure 0
    | some bb => do
      let (i, f) ← search (← getEdge bb) act
      pure (if f then i + 1 else i)
  let hi ← match topTop with
    | none => pure act.length
    | some tt => do
      let (i, _) ← search (← getEdge tt) act
      pure i
  -- the nesting partners must be ordered bottom below top (guard in front of the range query;
  -- without it `BTreeSet::range` panics on an inverted pair of bounds)
  match botBot, topTop with
  | some bb, some tt =>
    if bb == tt then throw (.overlap .start p)
    if (← partialCmpEdge (← getEdge bb) (← getEdge tt)) != some .lt then throw (.overlap .start p)
  | _, _ => pure ()
  if lo < hi then throw (.overlap .start p)
  -- link nested edges, set in-interval flags
  match botBot with
  | some bb =>
    setEdge bot { (← getEdge bot) with bPart := some bb, bofIn := !(← getEdge bb).bofIn }
    setEdge bb { (← getEdge bb) with tPart := some bot }
    if ← willOverlapBot bot false then throw (.overlap .start p)
  | none => setEdge bot { (← getEdge bot) with bofIn := true }
  match topTop with
  | some tt =>
    setEdge top { (← getEdge top) with tPart := some tt, bofIn := !(← getEdge tt).bofIn }
    setEdge tt { (← getEdge tt) with bPart := some top }
    if ← willOverlapTop top false then throw (.overlap .start p)
  | none => setEdge top { (← getEdge top) with bofIn := false }
  match botBot, topTop with
  | some bb, some tt =>
    if bb == tt then throw (.panic "borrow")
    if (← getEdge bb).bofIn then
      -- improper start: split bb's chain at its rightmost point
      let bbChainId := (← getEdge bb).chain
      let (bcBot, bcTop) ← chainSplit (← getChain bbChainId) p
      backTriangulate bcBot true
      backTriangulate bcTop false
      let cb ← newChainVal bcBot
      setEdge bb { (← getEdge bb) with chain := cb }
      setEdge bot { (← getEdge bot) with chain := cb }
      let ct ← newChainVal bcTop
      setEdge tt { (← getEdge tt) with chain := ct }
      setEdge top { (← getEdge top) with chain := ct }
  | _, _ => pure ()
  activeInsert bot
  activeInsert top

/-- the Bend arm -/
def handleBend (p : Pt α) (lp1 lp2 : Nat) (rEdges : List Nat) : SM α Unit := do
  modify fun s => { s with x := p.x }
  let edge ← match rEdges[0]? with
    | some e => pure e
    | none => throw (.panic "index")
  let p1 := (← getVtx lp1).p
  let p2 := (← getVtx lp2).p
  let rlp := if p1.ge p2 then lp1 else lp2
  let rp := (← getVtx rlp).p
  if ← verticalIsCrossed (some edge) p rp then throw (.overlap .bend p)
  let eb ← getEdge edge
  let fromTail := !eb.bofIn
  let c ← chainAppend (← getChain eb.chain) p fromTail
  setChain eb.chain c
  backTriangulate c fromTail
  setEdge edge { (← getEdge edge) with rpt := rp }
  if ← willOverlapBot edge true then throw (.overlap .bend p)
  if ← willOverlapTop edge true then throw (.overlap .bend p)
  eventsAdd rlp edge

/-- the End arm -/
def handleEnd (p : Pt α) (rEdges : List Nat) : SM α Unit := do
  let e0 ← match rEdges[0]? with
    | some e => pure e
    | none => throw (.panic "index")
  let e1 ← match rEdges[1]? with
    | some e => pure e
    | none => throw (.panic "index")
  let g0 ← edgeGrad (← getEdge e0)
  let g1 ← edgeGrad (← getEdge e1)
  let (bot, top) := if ofGe g0 g1 then (e0, e1) else (e1, e0)
  activeRemove bot
  activeRemove top
  modify fun s => { s with x := p.x }
  let b ← getEdge bot
  let t ← getEdge top
  if !(b.tPart == some top && t.bPart == some bot) then throw (.overlap .end_ p)
  if b.bofIn then
    let c ← chainAppend (← getChain t.chain) p true
    setChain t.chain c
    backTriangulate c true
  else
    let bc ← chainMerge (← getChain b.chain) (← getChain t.chain) p
    let fuel ← nodeFuel
    nodeTriangulate bc.rm true fuel
    nodeTriangulate bc.rm false fuel
    let ci ← newChainVal bc
    match b.bPart, t.tPart with
    | some bb, some tt =>
      if bb == bot || bb == top then throw (.panic "borrow")
      setEdge bb { (← getEdge bb) with chain := ci }
      if tt == bot || tt == top then throw (.panic "borrow")
      setEdge tt { (← getEdge tt) with chain := ci }
    | _, _ => throw (.overlap .end_ p)
  match b.bPart with
  | some bb =>
    if bb == bot || bb == top then throw (.panic "borrow")
    setEdge bb { (← getEdge bb) with tPart := t.tPart }
  | none => pure ()
  match t.tPart with
  | some tt =>
    if tt == bot || tt == top then throw (.panic "borrow")
    setEdge tt { (← getEdge tt) with bPart := b.bPart }
  | none => pure ()
  match b.bPart with
  | some bb => if ← willOverlapTop bb false then throw (.overlap .end_ p)
  | none => pure ()

/-- `handle_next` -/
def handleNext : SM α Unit := do
  let s ← get
  match s.events with
  | [] => throw (.panic "unreachable")
  | (lp, rEdges) :: rest =>
    let v ← getVtx lp
    let p := v.p
    let p1 := (← getVtx v.prev).p
    let p2 := (← getVtx v.next).p
    let ptype ← match fromTriplet p p1 p2 with
      | some t => pure t
      | none => throw (.noPointType p)
    set { s with events := rest }
    match ptype with
    | .start => handleStart p v.prev v.next
    | .bend => handleBend p v.prev v.next rEdges
    | .end_ => handleEnd p rEdges

def loop : Nat → SM α Unit
  | 0 => throw .oof
  | fuel + 1 => do
    if (← get).events.isEmpty then pure ()
    else
      handleNext
      loop fuel

/-- `discovered_points.insert(pt)`: a `HashSet<Pt>` as a list scanned with `Pt.eq` -/
def validPt (seen : List (Pt α)) (pt : Pt α) : Except (SErr α) (List (Pt α)) :=
  if Num.isFinite pt.x && Num.isFinite pt.y then
    if seen.any (fun q => q.eq pt) then .error (.duplicate pt) else .ok (pt :: seen)
  else .error .nonFinite

/-- set-up loop of `triangulate_polygon_set` for one polygon -/
def setupPolygon (poly : Array (Pt α)) (seen : List (Pt α)) : SM α (List (Pt α)) := do
  let n := poly.size
  if n < 3 then throw .noPolygon
  let base := (← get).verts.size
  let mut seen := seen
  for i in [0:n] do
    let pt := poly.getD i dummyPt
    match validPt seen pt with
    | .error e => throw e
    | .ok s' => seen := s'
    let prevP := poly.getD ((i + n - 1) % n) dummyPt
    let nextP := poly.getD ((i + 1) % n) dummyPt
    -- (for i = 0 the source passes (polygon[1], polygon[len-1]); `from_triplet` is symmetric in them)
    modify fun s => { s with verts := s.verts.push ⟨pt, base + (i + n - 1) % n, base + (i + 1) % n⟩ }
    match fromTriplet pt prevP nextP with
    | none => throw (.noPointType pt)
    | some .start => eventsInsertStart (base + i)
    | some _ => pure ()
  pure seen

/-- `triangulate_polygon_set` -/
def run (polys : List (Array (Pt α))) : SM α Unit := do
  let mut seen : List (Pt α) := []
  for poly in polys do
    seen ← setupPolygon poly seen
  loop ((← get).verts.size + 1)

def initSt : St α :=
  { x := -(Num.inf : α), verts := #[], nodes := #[], chains := #[], edges := #[], active := [], events := [], out := [], mono := true }

end Sweep

/-- result of the model: triangles in emission order, or an error -/
def sweepMon (polys : List (Array (Pt α))) : Except (SErr α) (List (Pt α × Pt α × Pt α) × Bool) :=
  match (Sweep.run polys).run Sweep.initSt with
  | .ok (_, s) => .ok (s.out.reverse, s.mono)
  | .error e => .error e

def sweep (polys : List (Array (Pt α))) : Except (SErr α) (List (Pt α × Pt α × Pt α)) :=
  match (Sweep.run polys).run Sweep.initSt with
  | .ok (_, s) => .ok s.out.reverse
  | .error e => .error e

end Cav
