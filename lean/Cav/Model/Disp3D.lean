/-
  `src/cav3d/display.rs`: `CavDisplay3D::new`, `gen_display_curtain`, `gen_display_cav`
  (DESIGN §4 C08, C14).
-/
import Cav.Model.Sweep
import Cav.Model.Quad
import Cav.Model.Helpers
import Cav.Gen.AD

namespace Cav
open Num Gen
variable {α : Type} [Num α]

structure Cfg3D (α : Type) where
  computeInteg : Bool
  radialRes : Nat
  xRes : Nat
  yRes : Nat
  maxIntIters : Nat
  tol : α

abbrev P2 (α : Type) := α × α
abbrev P3 (α : Type) := α × α × α

structure Disp3D (α : Type) where
  triag : P2 α × P2 α × P2 α
  curtains : List (List (List (P3 α)))
  topMesh : List (List (P3 α))
  botMesh : List (List (P2 α))
  integ : Option (α × α)

/-- `gen_display_curtain` -/
def genDisplayCurtain (f : P2 α → α) (c : α → P2 α) (xv : List (P2 α)) (yrv : List α) :
    List (List (P3 α)) :=
  let c0 := c zero
  let cn : α → P2 α := fun y => let cy := c y; (cy.1 - c0.1, cy.2 - c0.2)
  let g : P2 α → P2 α := fun x => let cfx := cn (f x); (x.1 - cfx.1, x.2 - cfx.2)
  let xrv := xv.map g
  let fv := xv.map f
  yrv.map fun yr =>
    (List.zip xrv fv).map fun (xr, fx) =>
      let y := yr * fx
      let x := cn y
      (x.1 + xr.1, x.2 + xr.2, y)

/-- `CavDisplay3D::new` -/
def disp3DNew (f : P2 α → α) (c : α → P2 α) (t : P2 α × P2 α × P2 α) (integ : Option (α × α))
    (cfg : Cfg3D α) : Disp3D α :=
  let (t0, t1, t2) := t
  let xvs := [vecFromRes2 t1 t2 cfg.xRes, vecFromRes2 t2 t0 cfg.xRes, vecFromRes2 t0 t1 cfg.xRes]
  let yrv := vecFromRes (zero : α) one cfg.yRes
  -- `g` of `new`: normalised by c(0) exactly as `gen_display_curtain` does (fix for C14)
  let c0 := c zero
  let g : P2 α → P2 α := fun x => let cfx := c (f x); (x.1 - (cfx.1 - c0.1), x.2 - (cfx.2 - c0.2))
  let curtains := xvs.map fun xv => genDisplayCurtain f c xv yrv
  let radrv := vecFromRes (zero : α) one cfg.radialRes
  let three : α := Num.ofNat 3
  let center : P2 α := ((t0.1 + t1.1 + t2.1) / three, (t0.2 + t1.2 + t2.2) / three)
  let boundary := (xvs.getD 0 []) ++ (xvs.getD 1 []).drop 1 ++ (xvs.getD 2 []).drop 1
  let lerp (radr : α) (x : P2 α) : P2 α :=
    ((one - radr) * center.1 + radr * x.1, (one - radr) * center.2 + radr * x.2)
  let topMesh := radrv.map fun radr => boundary.map fun x => let q := lerp radr x; (q.1, q.2, f q)
  let botMesh := radrv.map fun radr => boundary.map fun x => g (lerp radr x)
  ⟨t, curtains, topMesh, botMesh, integ⟩

inductive Disp3Err (α : Type) where
  | tri (e : SErr α)
  | integ (conv : Bool)

/-- `gen_display_cav` (3-D) -/
def genDisplayCav3 (f : AD α × AD α → AD α) (c : AD α → AD α × AD α)
    (polys : List (Array (Pt α))) (cfg : Cfg3D α) : Except (Disp3Err α) (List (Disp3D α)) :=
  match sweep polys with
  | .error e => .error (.tri e)
  | .ok tris =>
    let fPlain : P2 α → α := fun x => (f (AD.mk x.1 zero, AD.mk x.2 zero)).v
    let cPlain : α → P2 α := fun y => let cy := c (AD.mk y zero); (cy.1.v, cy.2.v)
    let g : AD α × AD α → AD α × AD α := fun x =>
      let cfx := c (f x)
      (AD.sub x.1 cfx.1, AD.sub x.2 cfx.2)
    let rec go : List (Pt α × Pt α × Pt α) → List (Disp3D α) → Except (Disp3Err α) (List (Disp3D α))
      | [], acc => .ok acc.reverse
      | tr :: rest, acc =>
        let t : P2 α × P2 α × P2 α := ((tr.1.x, tr.1.y), (tr.2.1.x, tr.2.1.y), (tr.2.2.x, tr.2.2.y))
        let integ : Except (Disp3Err α) (Option (α × α)) :=
          if cfg.computeInteg then
            match (gkTriangle (fun x y => (f (AD.ofF x, AD.ofF y)).v * absJacobianDet g (x, y)) t cfg.tol
                    (some cfg.maxIntIters)).res with
            | .ok v => .ok (some v)
            | .error e => .error (.integ (e == .convergence))
          else .ok none
        match integ with
        | .error e => .error e
        | .ok iv => go rest (disp3DNew fPlain cPlain t iv cfg :: acc)
    go tris []

end Cav
