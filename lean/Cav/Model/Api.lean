/-
  The string-level API `display_cav2d`, `display_cav2d_rs`, `display_cav3d`
  (`src/pyo3_wrappers/standardized_gui_methods.rs`), DESIGN §4 C19: compile the strings with
  the contexts recorded in `Gen/Wiring.lean`, then delegate to the closure-level generators.
-/
import Cav.Model.Lists
import Cav.Model.Disp2D
import Cav.Model.Disp3D

namespace Cav
open Num Gen
variable {α : Type} [Num α]

inductive ApiErr (α : Type) where
  | parse (e : CompileErr)
  | list (e : ListErr)
  | disp (e : DispErr)
  | tri (e : SErr α)
  | integ (conv : Bool)
  /-- a list entry or expression evaluation indexed out of range (Rust panic) -/
  | panic

/-- constants of the default contexts -/
structure Consts (α : Type) where
  pi : α
  e : α

def Consts.env (k : Consts α) : String → α
  | "pi" => k.pi
  | "e" => k.e
  | _ => Num.nan

def envFOf (k : Consts α) : EnvF α := { cst := k.env }
def envADOf (k : Consts α) : EnvAD α := { cst := k.env }

/-- `move |x| expr.eval(&[x])` for a compiled 1-variable expression -/
def closure1 (k : Consts α) (t : E) : AD α → AD α :=
  fun x => (t.evalAD (envADOf k) [x]).getD ⟨Num.nan, Num.nan⟩

def evalEntries (k : Consts α) (l : List (E × E)) : Option (List (α × α)) :=
  l.mapM fun p =>
    match p.1.evalF (envFOf k) [], p.2.evalF (envFOf k) [] with
    | some a, some b => some (a, b)
    | _, _ => none

/-- `display_cav2d` (`rs = false`) and `display_cav2d_rs` (`rs = true`) -/
def displayCav2d (k : Consts α) (rs : Bool) (fExpr cExpr intervals : List Char) (cfg : Cfg2D α) :
    Except (ApiErr α) (List (Disp2D α)) :=
  let fCtx := defaultCtx.insert "x" (.var 0)
  let cCtx := if rs then fCtx else defaultCtx.insert "y" (.var 0)
  match compile 1 fCtx fExpr with
  | .error e => .error (.parse e)
  | .ok ft =>
    match compile 1 cCtx cExpr with
    | .error e => .error (.parse e)
    | .ok ct =>
      match compileIntervalList defaultCtx intervals with
      | .error e => .error (.list e)
      | .ok ivt =>
        match evalEntries k ivt with
        | none => .error .panic
        | some ivs =>
          let r := if rs then genDisplayRs (closure1 k ft) (closure1 k ct) ivs cfg
                   else genDisplayCav (closure1 k ft) (closure1 k ct) ivs cfg
          match r with
          | .ok d => .ok d
          | .error e => .error (.disp e)

/-- `display_cav3d` -/
def displayCav3d (k : Consts α) (fExpr c1Expr c2Expr polygonSet : List Char) (cfg : Cfg3D α) :
    Except (ApiErr α) (List (Disp3D α)) :=
  let fCtx := (defaultCtx.insert "x" (.var 0)).insert "y" (.var 1)
  let cCtx := defaultCtx.insert "z" (.var 0)
  match compile 2 fCtx fExpr with
  | .error e => .error (.parse e)
  | .ok ft =>
    match compile 1 cCtx c1Expr with
    | .error e => .error (.parse e)
    | .ok c1t =>
      match compile 1 cCtx c2Expr with
      | .error e => .error (.parse e)
      | .ok c2t =>
        match compilePolygonSet defaultCtx polygonSet with
        | .error e => .error (.list e)
        | .ok pst =>
          match pst.mapM (evalEntries k) with
          | none => .error .panic
          | some ps =>
            let polys : List (Array (Pt α)) := ps.map fun poly => (poly.map fun q => (⟨q.1, q.2⟩ : Pt α)).toArray
            let f : AD α × AD α → AD α := fun x => (ft.evalAD (envADOf k) [x.1, x.2]).getD ⟨Num.nan, Num.nan⟩
            let c : AD α → AD α × AD α := fun z =>
              ((c1t.evalAD (envADOf k) [z]).getD ⟨Num.nan, Num.nan⟩, (c2t.evalAD (envADOf k) [z]).getD ⟨Num.nan, Num.nan⟩)
            match genDisplayCav3 f c polys cfg with
            | .ok d => .ok d
            | .error (.tri e) => .error (.tri e)
            | .error (.integ b) => .error (.integ b)

end Cav
