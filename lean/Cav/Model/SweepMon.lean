/-
  Executable monitor for the partner links of the sweep model (run by the driver next to `sweepMon`):
  at the start of every pass of the event loop, the cells of the edges registered with the vertex about
  to be handled are not their own partner and do not have two equal partners.  `Thm/C15Borrow.lean` proves
  (for the same definitions, `Thm/C15Monitor.lean` proves they are the same) that a run on which this
  monitor holds cannot end in a `RefCell` borrow panic, and over XQ in no panic at all.
  Import-free apart from the model, so that the driver links without the proof files.
-/
import Cav.Model.Sweep

namespace Cav.SweepMon
open Cav Num Cav.Sweep

variable {α : Type} [Num α]

/-- the body of the polygon loop of `Sweep.run` -/
def polyBody (poly : Array (Pt α)) (seen : List (Pt α)) : SM α (ForInStep (List (Pt α))) := do
  let seen ← setupPolygon poly seen
  pure (.yield seen)

/-- the cell is not its own partner and its two partners differ -/
def sokB (i : Nat) (e : Edge α) : Bool :=
  e.bPart != some i && e.tPart != some i &&
    (match e.bPart, e.tPart with
     | some a, some b => a != b
     | _, _ => true)

/-- the registered edges of the head of the event queue are `sokB` -/
def headOkB (s : St α) : Bool :=
  match s.events with
  | [] => true
  | (_, r) :: _ => r.all fun i =>
    match s.edges[i]? with
    | none => true
    | some e => sokB i e

/-- the monitor along the event loop: every pass starts from a state with `headOkB` -/
def loopChk : Nat → St α → Bool
  | 0, _ => true
  | fuel + 1, s =>
    if s.events.isEmpty then true
    else headOkB s &&
      (match (handleNext : SM α Unit).run s with
       | .ok (_, s') => loopChk fuel s'
       | .error _ => true)

/-- the monitor for the whole model: set-up, then `loopChk` -/
def sweepChk (polys : List (Array (Pt α))) : Bool :=
  match (forIn polys ([] : List (Pt α)) polyBody).run (initSt : St α) with
  | .ok (_, s) => loopChk (s.verts.size + 1) s
  | .error _ => true

/-- the number of active edges at the start of every pass of the event loop (before the first event
    and after every successfully handled one): what the instrumented implementation
    (`--cfg cavint_verif`, `VERIF_ACTIVE_TRACE`) records -/
def loopTrace : Nat → St α → List Nat → List Nat
  | 0, _, acc => acc.reverse
  | fuel + 1, s, acc =>
    if s.events.isEmpty then (s.active.length :: acc).reverse
    else
      match (handleNext : SM α Unit).run s with
      | .ok (_, s') => loopTrace fuel s' (s.active.length :: acc)
      | .error _ => (s.active.length :: acc).reverse

/-- the trace for the whole model: set-up, then `loopTrace` (empty when set-up fails) -/
def sweepTrace (polys : List (Array (Pt α))) : List Nat :=
  match (forIn polys ([] : List (Pt α)) polyBody).run (initSt : St α) with
  | .ok (_, s) => loopTrace (s.verts.size + 1) s []
  | .error _ => []

end Cav.SweepMon
