/-
  The set-up loop of the sweep model on a single polygon with `n ≥ 3` vertices of which exactly
  one (index `L`) is a Start vertex: the vertex ring `ringOf poly` and the initial event queue
  `[(L, [])]`.
-/
import Cav.Lemmas.QuadRun

set_option linter.unusedSimpArgs false
set_option linter.unusedVariables false

namespace Cav.CvxSetup
open Cav Num Cav.Sweep Cav.SweepRun Cav.TriRun Cav.QuadRun Cav.TriEvents Cav.SweepSetup

/-- the ring cell of vertex `k` of a single polygon -/
def vtxOf (poly : Array (Pt XQ)) (k : Nat) : Vtx XQ :=
  ⟨poly.getD k dummyPt, (k + poly.size - 1) % poly.size, (k + 1) % poly.size⟩

/-- the first `i` ring cells -/
def ringPre (poly : Array (Pt XQ)) (i : Nat) : Array (Vtx XQ) :=
  ((List.range i).map (vtxOf poly)).toArray

/-- the vertex ring the set-up loop builds for the single polygon `poly` -/
def ringOf (poly : Array (Pt XQ)) : Array (Vtx XQ) := ringPre poly poly.size

theorem ringOf_get (poly : Array (Pt XQ)) (k : Nat) (hk : k < poly.size) :
    (ringOf poly)[k]? = some (vtxOf poly k) := by
  simp [ringOf, ringPre, hk]

/-- the points seen before vertex `i` (most recent first) -/
def seenAt (poly : Array (Pt XQ)) (i : Nat) : List (Pt XQ) :=
  ((List.range i).map (fun k => poly.getD k dummyPt)).reverse

theorem seenAt_succ (poly : Array (Pt XQ)) (i : Nat) :
    seenAt poly (i + 1) = poly.getD i dummyPt :: seenAt poly i := by
  simp [seenAt, List.range_succ]

/-- state of the set-up loop before vertex `i` -/
def stP (poly : Array (Pt XQ)) (L i : Nat) : St XQ :=
  { x := -(Num.inf : XQ), verts := ringPre poly i, nodes := #[], chains := #[], edges := #[],
    active := [], events := if L < i then [(L, [])] else [], out := [], mono := true }

theorem ringPre_succ (poly : Array (Pt XQ)) (i : Nat) :
    (ringPre poly i).push (vtxOf poly i) = ringPre poly (i + 1) := by
  simp [ringPre, List.range_succ]

theorem ringPre_size (poly : Array (Pt XQ)) (i : Nat) : (ringPre poly i).size = i := by
  simp [ringPre]

theorem setup_loop (poly : Array (Pt XQ)) (L : Nat)
    (hv : ∀ i < poly.size, validPt (seenAt poly i) (poly.getD i dummyPt) =
      .ok (poly.getD i dummyPt :: seenAt poly i))
    (hk : ∀ i < poly.size, ∃ k, fromTriplet (poly.getD i dummyPt)
      (poly.getD ((i + poly.size - 1) % poly.size) dummyPt)
      (poly.getD ((i + 1) % poly.size) dummyPt) = some k ∧ (k = .start ↔ i = L)) :
    ∀ k i, i + k = poly.size →
      (forIn (List.range' i k 1) (seenAt poly i) (setupBody poly poly.size 0)).run (stP poly L i) =
        .ok (seenAt poly poly.size, stP poly L poly.size) := by
  intro k
  induction k with
  | zero =>
    intro i hi
    have : i = poly.size := by omega
    subst this
    rfl
  | succ k ih =>
    intro i hi
    have hin : i < poly.size := by omega
    rw [List.range'_succ, forIn_cons_run]
    obtain ⟨ty, hty, hst⟩ := hk i hin
    by_cases hiL : i = L
    · have hs : ty = .start := hst.mpr hiL
      subst hs
      have hev : (stP poly L i).events = [] := by
        simp [stP, hiL]
      have := (sb_start poly poly.size 0 i (seenAt poly i) (stP poly L i) (hv i hin) hty hev
        (by simp [stP, ringPre_size])).run
      rw [this]
      simp only []
      have e : ({ stP poly L i with
          verts := (stP poly L i).verts.push
            ⟨poly.getD i dummyPt, 0 + (i + poly.size - 1) % poly.size, 0 + (i + 1) % poly.size⟩,
          events := [(0 + i, [])] } : St XQ) = stP poly L (i + 1) := by
        simp only [stP, Nat.zero_add, ← ringPre_succ, vtxOf, hiL]
        simp
      rw [e, ← seenAt_succ]
      exact ih (i + 1) (by omega)
    · have hs : ty ≠ .start := fun h => hiL (hst.mp h)
      have := (sb_other poly poly.size 0 i (seenAt poly i) (stP poly L i) ty (hv i hin) hty hs).run
      rw [this]
      simp only []
      have e : ({ stP poly L i with
          verts := (stP poly L i).verts.push
            ⟨poly.getD i dummyPt, 0 + (i + poly.size - 1) % poly.size, 0 + (i + 1) % poly.size⟩ } :
            St XQ) = stP poly L (i + 1) := by
        simp only [stP, Nat.zero_add, ← ringPre_succ, vtxOf]
        have : (L < i + 1) = (L < i) := by
          apply propext
          constructor <;> intro h <;> omega
        simp only [this]
      rw [e, ← seenAt_succ]
      exact ih (i + 1) (by omega)

/-- the set-up phase of `run` on a single polygon with exactly one Start vertex -/
theorem setup_single (poly : Array (Pt XQ)) (L : Nat) (hn : 3 ≤ poly.size) (hL : L < poly.size)
    (hv : ∀ i < poly.size, validPt (seenAt poly i) (poly.getD i dummyPt) =
      .ok (poly.getD i dummyPt :: seenAt poly i))
    (hk : ∀ i < poly.size, ∃ k, fromTriplet (poly.getD i dummyPt)
      (poly.getD ((i + poly.size - 1) % poly.size) dummyPt)
      (poly.getD ((i + 1) % poly.size) dummyPt) = some k ∧ (k = .start ↔ i = L)) :
    (forIn [poly] ([] : List (Pt XQ)) polyBody).run (initSt : St XQ) =
      .ok (seenAt poly poly.size, stQ (ringOf poly) [(L, [])]) := by
  rw [forIn_cons_run]
  have hb : (polyBody poly []).run (initSt : St XQ) =
      .ok (.yield (seenAt poly poly.size), stQ (ringOf poly) [(L, [])]) := by
    unfold polyBody
    rw [run_bind, setupPolygon_eq]
    have h3 : ¬ poly.size < 3 := by omega
    simp only [h3, if_false]
    have h0 : (initSt : St XQ) = stP poly L 0 := by
      simp [initSt, stP, ringPre]
    have hs : (initSt : St XQ).verts.size = 0 := rfl
    rw [hs, h0]
    have := setup_loop poly L hv hk poly.size 0 (by omega)
    have e0 : seenAt poly 0 = [] := rfl
    rw [e0] at this
    rw [this]
    simp [stP, stQ, ringOf, hL]
    rfl
  rw [hb]
  rfl

end Cav.CvxSetup
