/-
  Output of the sweep on general valid input: the End event from an arbitrary state, EXPLICIT
  versions of `Cav.GenEnd.end_run_close` and `Cav.GenEnd.end_run_merge`.  The proofs are copies;
  the statements additionally export the intermediate runs (`backTriangulate` for the closing
  End; `chainMerge` and the two `nodeTriangulate` runs for the merging End).
-/
import Cav.Lemmas.GenEnd

set_option linter.unusedSimpArgs false
set_option linter.unusedVariables false
set_option linter.unusedSectionVars false

namespace Cav.GenOutEnd
open Cav Num Cav.Sweep Cav.SweepRun Cav.TriRun Cav.QuadRun Cav.CvxHeap Cav.CvxEvents Cav.SweepOut
open Cav.GenNodes Cav.GenQuery Cav.GenActive Cav.GenBend Cav.SweepHeap Cav.GenEnd

variable {α : Type} [Num α]

section
variable (s : St α) (vi bot top pr nx a1 a2 a3 a4 cb ct : Nat) (es : List Nat)
  (rest : List (Nat × List Nat)) (p q1 q2 lb lt lbb ltt : Pt α) (bP tP : Option Nat)
  (c : Chain) (h : Node α) (P Q : List Nat) (cbb ctt : Edge α)

theorem end_run_close_x
    (hev : s.events = (vi, es) :: rest) (hes : es = [bot, top] ∨ es = [top, bot])
    (hv : s.verts[vi]? = some ⟨p, pr, nx⟩) (h1 : s.verts[pr]? = some ⟨q1, a1, a2⟩)
    (h2 : s.verts[nx]? = some ⟨q2, a3, a4⟩)
    (hft : fromTriplet p q1 q2 = some .end_)
    (hb : s.edges[bot]? = some ⟨p, cb, true, bP, some top⟩)
    (ht : s.edges[top]? = some ⟨p, ct, false, some bot, tP⟩)
    (hne : bot ≠ top)
    (hlb : lpt? s ⟨p, cb, true, bP, some top⟩ = some lb)
    (hlt : lpt? s ⟨p, ct, false, some bot, tP⟩ = some lt)
    (hg1 : ofGe (lb.grad p) (lt.grad p) = true) (hg2 : ofGe (lt.grad p) (lb.grad p) = false)
    (hm : s.mono = true) (hact : s.active = P ++ bot :: top :: Q)
    (hPb : ∀ k ∈ P, ∃ l r, EG s k l r ∧ cmpEdgeP lb p l r s.x = .gt)
    (hbb : cmpEdgeP lb p lb p s.x = .eq) (hbt : cmpEdgeP lb p lt p s.x = .lt)
    (hQb : ∀ k ∈ Q, ∃ l r, EG s k l r ∧ cmpEdgeP lb p l r s.x = .lt)
    (hPt : ∀ k ∈ P, ∃ l r, EG s k l r ∧ cmpEdgeP lt p l r s.x = .gt)
    (htt : cmpEdgeP lt p lt p s.x = .eq)
    (hQt : ∀ k ∈ Q, ∃ l r, EG s k l r ∧ cmpEdgeP lt p l r s.x = .lt)
    (hc : s.chains[ct]? = some c) (hN : NodesOk s.nodes) (hnode : s.nodes[c.tail]? = some h)
    (hbP : EndPartner s bot top bP) (htP : EndPartner s bot top tP)
    (hbbtt : ∀ k, bP = some k → tP ≠ some k)
    (hwot : ∀ bb tt cbb ctt, bP = some bb → tP = some tt → s.edges[bb]? = some cbb →
      s.edges[tt]? = some ctt → ∃ lbb ltt,
      lpt? s cbb = some lbb ∧ lpt? s ctt = some ltt ∧ cbb.chain ≠ ct ∧ ctt.chain ≠ ct ∧
      wotP lbb cbb.rpt ltt ctt.rpt = false) :
    ∃ (N2 : Array (Node α)) (out2 : List (Pt α × Pt α × Pt α)) (smid : St α) (E' : Array (Edge α)),
      (handleNext : SM α Unit).run s = .ok ((),
        { s with x := p.x, nodes := N2,
                 chains := s.chains.setIfInBounds ct ⟨s.nodes.size, c.head, s.nodes.size⟩,
                 edges := E', active := P ++ Q, events := rest, out := out2 }) ∧
      NodesOk N2 ∧ N2.size = s.nodes.size + 1 ∧
      (∀ i, i < s.nodes.size → ptAt N2 i = ptAt s.nodes i) ∧
      EndEdges s.edges E' bP tP ∧
      smid.nodes = appT s.nodes c.tail h p ∧ smid.out = s.out ∧
      (backTriangulate ⟨s.nodes.size, c.head, s.nodes.size⟩ true).run smid =
        .ok ((), { smid with nodes := N2, out := out2 }) := by
  rw [handleNext_run_cons hev]
  unfold nextBody
  obtain ⟨hN1, hsz1, hpt1, hnew1⟩ := appT_props hN hnode p
  obtain ⟨N2, out2, hbtr, hN2, hsz2, hpt2⟩ := bt_ok ⟨s.nodes.size, c.head, s.nodes.size⟩ true
    { s with events := rest, active := P ++ Q, x := p.x, nodes := appT s.nodes c.tail h p,
             chains := s.chains.setIfInBounds ct ⟨s.nodes.size, c.head, s.nodes.size⟩ }
    hN1 (by simp only [if_true]; rw [hsz1]; exact Nat.lt_succ_self _)
  have hptA : ∀ i, i < s.nodes.size → ptAt N2 i = ptAt s.nodes i := fun i hi => by
    rw [hpt2 i]; exact hpt1 i hi
  have hQb' : ∀ k ∈ top :: Q, ∃ l r, EG s k l r ∧ cmpEdgeP lb p l r s.x = .lt := by
    intro k hk
    rcases List.mem_cons.mp hk with rfl | hk
    · exact ⟨lt, p, ⟨_, ht, hlt, rfl⟩, hbt⟩
    · exact hQb k hk
  rcases hbP with rfl | ⟨bb, cbb, rfl, hbb1, hbb2, hbbc⟩ <;>
    rcases htP with rfl | ⟨tt, ctt, rfl, htt1, htt2, httc⟩
  · refine ⟨N2, out2,
      ({ s with events := rest, active := P ++ Q, x := p.x, nodes := appT s.nodes c.tail h p,
                chains := s.chains.setIfInBounds ct ⟨s.nodes.size, c.head, s.nodes.size⟩ } : St α),
      s.edges, ?_, hN2, by rw [hsz2]; exact hsz1, hptA, ?_, rfl, rfl, hbtr⟩
    · show Runs s _ _
      sm_steps [hv, h1, h2, hft]
      unfold handleEnd
      rcases hes with rfl | rfl
      all_goals
        first | end_prefix1 | end_prefix2
        end_close
        sm_steps
        exact Runs.final rfl
    · exact ⟨rfl, fun _ _ _ => rfl, fun _ _ h => (by cases h), fun _ _ h => (by cases h)⟩
  · have e3 : (tt == bot) = false := by simpa using htt1
    have e4 : (tt == top) = false := by simpa using htt2
    have httlt := lt_of_get' httc
    refine ⟨N2, out2,
      ({ s with events := rest, active := P ++ Q, x := p.x, nodes := appT s.nodes c.tail h p,
                chains := s.chains.setIfInBounds ct ⟨s.nodes.size, c.head, s.nodes.size⟩ } : St α),
      s.edges.setIfInBounds tt { ctt with bPart := none }, ?_, hN2,
      by rw [hsz2]; exact hsz1, hptA, ?_, rfl, rfl, hbtr⟩
    · show Runs s _ _
      sm_steps [hv, h1, h2, hft]
      unfold handleEnd
      rcases hes with rfl | rfl
      all_goals
        first | end_prefix1 | end_prefix2
        end_close
        sm_steps [e3, e4, httc]
        exact Runs.final rfl
    · refine ⟨by simp, ?_, fun _ _ h => (by cases h), ?_⟩
      · intro k _ hk
        exact Array.getElem?_setIfInBounds_ne (fun e => hk (by rw [e]))
      · intro k c' hk hc'
        cases hk
        rw [httc] at hc'; cases hc'
        exact Array.getElem?_setIfInBounds_self_of_lt httlt
  · have e1 : (bb == bot) = false := by simpa using hbb1
    have e2 : (bb == top) = false := by simpa using hbb2
    have hbblt := lt_of_get' hbbc
    refine ⟨N2, out2,
      ({ s with events := rest, active := P ++ Q, x := p.x, nodes := appT s.nodes c.tail h p,
                chains := s.chains.setIfInBounds ct ⟨s.nodes.size, c.head, s.nodes.size⟩ } : St α),
      s.edges.setIfInBounds bb { cbb with tPart := none }, ?_, hN2,
      by rw [hsz2]; exact hsz1, hptA, ?_, rfl, rfl, hbtr⟩
    · show Runs s _ _
      sm_steps [hv, h1, h2, hft]
      unfold handleEnd
      rcases hes with rfl | rfl
      all_goals
        first | end_prefix1 | end_prefix2
        end_close
        sm_steps [e1, e2, hbbc]
        sm_by (run_wot_none _ bb false { cbb with tPart := none }
          (by show (s.edges.setIfInBounds bb _)[bb]? = _
              rw [Array.getElem?_setIfInBounds_self_of_lt hbblt]) rfl)
        sm_cond
        exact Runs.final rfl
    · refine ⟨by simp, ?_, ?_, fun _ _ h => (by cases h)⟩
      · intro k hk _
        exact Array.getElem?_setIfInBounds_ne (fun e => hk (by rw [e]))
      · intro k c' hk hc'
        cases hk
        rw [hbbc] at hc'; cases hc'
        exact Array.getElem?_setIfInBounds_self_of_lt hbblt
  · have e1 : (bb == bot) = false := by simpa using hbb1
    have e2 : (bb == top) = false := by simpa using hbb2
    have e3 : (tt == bot) = false := by simpa using htt1
    have e4 : (tt == top) = false := by simpa using htt2
    have hbt2 : bb ≠ tt := fun e => hbbtt bb rfl (by rw [e])
    have httc' : (s.edges.setIfInBounds bb { cbb with tPart := some tt })[tt]? = some ctt := by
      rw [Array.getElem?_setIfInBounds_ne hbt2]; exact httc
    obtain ⟨lbb, ltt, w1, w2, w3, w4, w5⟩ := hwot bb tt cbb ctt rfl rfl hbbc httc
    have hbblt := lt_of_get' hbbc
    have httlt := lt_of_get' httc
    refine ⟨N2, out2,
      ({ s with events := rest, active := P ++ Q, x := p.x, nodes := appT s.nodes c.tail h p,
                chains := s.chains.setIfInBounds ct ⟨s.nodes.size, c.head, s.nodes.size⟩ } : St α),
      (s.edges.setIfInBounds bb { cbb with tPart := some tt }).setIfInBounds tt
      { ctt with bPart := some bb }, ?_, hN2, by rw [hsz2]; exact hsz1, hptA, ?_, rfl, rfl, hbtr⟩
    · show Runs s _ _
      sm_steps [hv, h1, h2, hft]
      unfold handleEnd
      rcases hes with rfl | rfl
      all_goals
        first | end_prefix1 | end_prefix2
        end_close
        sm_steps [e1, e2, e3, e4, hbbc, httc']
        sm_by (run_wot_some _ bb tt false { cbb with tPart := some tt } { ctt with bPart := some bb } lbb ltt
          (by show ((s.edges.setIfInBounds bb _).setIfInBounds tt _)[bb]? = _
              rw [Array.getElem?_setIfInBounds_ne (Ne.symm hbt2),
                Array.getElem?_setIfInBounds_self_of_lt hbblt])
          rfl (Ne.symm hbt2)
          (by show ((s.edges.setIfInBounds bb _).setIfInBounds tt _)[tt]? = _
              rw [Array.getElem?_setIfInBounds_self_of_lt (by simpa using httlt)])
          (lpt_frame s _ ct c ⟨s.nodes.size, c.head, s.nodes.size⟩ false _ lbb hc rfl rfl hptA
            (Or.inl w3) w1)
          (lpt_frame s _ ct c ⟨s.nodes.size, c.head, s.nodes.size⟩ false _ ltt hc rfl rfl hptA
            (Or.inl w4) w2))
        sm_cond [w5]
        exact Runs.final rfl
    · refine ⟨by simp, ?_, ?_, ?_⟩
      · intro k hk1 hk2
        rw [Array.getElem?_setIfInBounds_ne (fun e => hk2 (by rw [e])),
          Array.getElem?_setIfInBounds_ne (fun e => hk1 (by rw [e]))]
      · intro k c' hk hc'
        cases hk
        rw [hbbc] at hc'; cases hc'
        rw [Array.getElem?_setIfInBounds_ne (Ne.symm hbt2),
          Array.getElem?_setIfInBounds_self_of_lt hbblt]
      · intro k c' hk hc'
        cases hk
        rw [httc] at hc'; cases hc'
        rw [Array.getElem?_setIfInBounds_self_of_lt (by simpa using httlt)]

/-- the merging End: `bot` is the upper edge of the in-interval below, `top` the lower edge of the
    in-interval above; the two back-chains are merged into a new chain owned by `bb` and `tt` -/
theorem end_run_merge_x (bb tt : Nat) (cB cT : Chain)
    (hev : s.events = (vi, es) :: rest) (hes : es = [bot, top] ∨ es = [top, bot])
    (hv : s.verts[vi]? = some ⟨p, pr, nx⟩) (h1 : s.verts[pr]? = some ⟨q1, a1, a2⟩)
    (h2 : s.verts[nx]? = some ⟨q2, a3, a4⟩)
    (hft : fromTriplet p q1 q2 = some .end_)
    (hb : s.edges[bot]? = some ⟨p, cb, false, some bb, some top⟩)
    (ht : s.edges[top]? = some ⟨p, ct, true, some bot, some tt⟩)
    (hne : bot ≠ top)
    (hlb : lpt? s ⟨p, cb, false, some bb, some top⟩ = some lb)
    (hlt : lpt? s ⟨p, ct, true, some bot, some tt⟩ = some lt)
    (hg1 : ofGe (lb.grad p) (lt.grad p) = true) (hg2 : ofGe (lt.grad p) (lb.grad p) = false)
    (hm : s.mono = true) (hact : s.active = P ++ bot :: top :: Q)
    (hPb : ∀ k ∈ P, ∃ l r, EG s k l r ∧ cmpEdgeP lb p l r s.x = .gt)
    (hbb : cmpEdgeP lb p lb p s.x = .eq) (hbt : cmpEdgeP lb p lt p s.x = .lt)
    (hQb : ∀ k ∈ Q, ∃ l r, EG s k l r ∧ cmpEdgeP lb p l r s.x = .lt)
    (hPt : ∀ k ∈ P, ∃ l r, EG s k l r ∧ cmpEdgeP lt p l r s.x = .gt)
    (htt : cmpEdgeP lt p lt p s.x = .eq)
    (hQt : ∀ k ∈ Q, ∃ l r, EG s k l r ∧ cmpEdgeP lt p l r s.x = .lt)
    (hcB : s.chains[cb]? = some cB) (hcT : s.chains[ct]? = some cT) (hN : NodesOk s.nodes)
    (hbb1 : bb ≠ bot) (hbb2 : bb ≠ top) (htt1 : tt ≠ bot) (htt2 : tt ≠ top) (hbt2 : bb ≠ tt)
    (hbbc : s.edges[bb]? = some cbb) (httc : s.edges[tt]? = some ctt)
    (hcb1 : cbb.chain = cb) (hcb2 : cbb.bofIn = true) (hct1 : ctt.chain = ct) (hct2 : ctt.bofIn = false)
    (hlbb : ptAt s.nodes cB.head = some lbb) (hltt : ptAt s.nodes cT.tail = some ltt)
    (hwot : wotP lbb cbb.rpt ltt ctt.rpt = false) :
    ∃ (N3 : Array (Node α)) (out3 : List (Pt α × Pt α × Pt α)) (E' : Array (Edge α)) (sm0 : St α)
        (N1 N2 : Array (Node α)) (out2 : List (Pt α × Pt α × Pt α)),
      (handleNext : SM α Unit).run s = .ok ((),
        { s with x := p.x, nodes := N3,
                 chains := s.chains.push ⟨s.nodes.size, cB.head, cT.tail⟩,
                 edges := E', active := P ++ Q, events := rest, out := out3 }) ∧
      NodesOk N3 ∧ N3.size = s.nodes.size + 1 ∧
      (∀ i, i < s.nodes.size → ptAt N3 i = ptAt s.nodes i) ∧
      E'.size = s.edges.size ∧ (∀ k, k ≠ bb → k ≠ tt → E'[k]? = s.edges[k]?) ∧
      E'[bb]? = some { cbb with chain := s.chains.size, tPart := some tt } ∧
      E'[tt]? = some { ctt with chain := s.chains.size, bPart := some bb } ∧
      sm0.nodes = s.nodes ∧ sm0.out = s.out ∧
      (chainMerge cB cT p).run sm0 =
        .ok (⟨s.nodes.size, cB.head, cT.tail⟩, { sm0 with nodes := N1 }) ∧
      (nodeTriangulate s.nodes.size true (N1.size + 2)).run { sm0 with nodes := N1 } =
        .ok ((), { sm0 with nodes := N2, out := out2 }) ∧
      (nodeTriangulate s.nodes.size false (N1.size + 2)).run { sm0 with nodes := N2, out := out2 } =
        .ok ((), { sm0 with nodes := N3, out := out3 }) := by
  rw [handleNext_run_cons hev]
  unfold nextBody
  -- the node heap
  have hbtail : cB.tail < s.nodes.size := by
    rw [lpt_eq, hcB] at hlb
    exact ptAt_some_lt hlb
  have hthead : cT.head < s.nodes.size := by
    rw [lpt_eq, hcT] at hlt
    exact ptAt_some_lt hlt
  obtain ⟨N1, hmerge, hN1, hsz1, hpt1, hnew1⟩ := run_chainMerge cB cT p
    { s with events := rest, active := P ++ Q, x := p.x } hN hbtail hthead
  obtain ⟨N2, out2, hnt2, hN2, hsz2, hpt2⟩ := nt_ok s.nodes.size true (N1.size + 2)
    { s with events := rest, active := P ++ Q, x := p.x, nodes := N1 } hN1
    (by show s.nodes.size < N1.size; rw [hsz1]; exact Nat.lt_succ_self _)
  obtain ⟨N3, out3, hnt3, hN3, hsz3, hpt3⟩ := nt_ok s.nodes.size false (N1.size + 2)
    { s with events := rest, active := P ++ Q, x := p.x, nodes := N2, out := out2 } hN2
    (by show s.nodes.size < N2.size; rw [hsz2, hsz1]; exact Nat.lt_succ_self _)
  have hptA : ∀ i, i < s.nodes.size → ptAt N3 i = ptAt s.nodes i := fun i hi => by
    rw [hpt3 i, hpt2 i]; exact hpt1 i hi
  have hQb' : ∀ k ∈ top :: Q, ∃ l r, EG s k l r ∧ cmpEdgeP lb p l r s.x = .lt := by
    intro k hk
    rcases List.mem_cons.mp hk with rfl | hk
    · exact ⟨lt, p, ⟨_, ht, hlt, rfl⟩, hbt⟩
    · exact hQb k hk
  have e1 : (bb == bot) = false := by simpa using hbb1
  have e2 : (bb == top) = false := by simpa using hbb2
  have e3 : (tt == bot) = false := by simpa using htt1
  have e4 : (tt == top) = false := by simpa using htt2
  have hbblt := lt_of_get' hbbc
  have httlt := lt_of_get' httc
  have f1 : (s.edges.setIfInBounds bb { cbb with chain := s.chains.size })[tt]? = some ctt := by
    rw [Array.getElem?_setIfInBounds_ne hbt2]; exact httc
  have f2 : ((s.edges.setIfInBounds bb { cbb with chain := s.chains.size }).setIfInBounds tt
      { ctt with chain := s.chains.size })[bb]? = some { cbb with chain := s.chains.size } := by
    rw [Array.getElem?_setIfInBounds_ne (Ne.symm hbt2), Array.getElem?_setIfInBounds_self_of_lt hbblt]
  have f3 : (((s.edges.setIfInBounds bb { cbb with chain := s.chains.size }).setIfInBounds tt
      { ctt with chain := s.chains.size }).setIfInBounds bb
      { cbb with chain := s.chains.size, tPart := some tt })[tt]? =
      some { ctt with chain := s.chains.size } := by
    rw [Array.getElem?_setIfInBounds_ne hbt2,
      Array.getElem?_setIfInBounds_self_of_lt (by simpa using httlt)]
  have f4 : ((((s.edges.setIfInBounds bb { cbb with chain := s.chains.size }).setIfInBounds tt
      { ctt with chain := s.chains.size }).setIfInBounds bb
      { cbb with chain := s.chains.size, tPart := some tt }).setIfInBounds tt
      { ctt with chain := s.chains.size, bPart := some bb })[bb]? =
      some { cbb with chain := s.chains.size, tPart := some tt } := by
    rw [Array.getElem?_setIfInBounds_ne (Ne.symm hbt2),
      Array.getElem?_setIfInBounds_self_of_lt (by simpa using hbblt)]
  have f5 : ((((s.edges.setIfInBounds bb { cbb with chain := s.chains.size }).setIfInBounds tt
      { ctt with chain := s.chains.size }).setIfInBounds bb
      { cbb with chain := s.chains.size, tPart := some tt }).setIfInBounds tt
      { ctt with chain := s.chains.size, bPart := some bb })[tt]? =
      some { ctt with chain := s.chains.size, bPart := some bb } := by
    rw [Array.getElem?_setIfInBounds_self_of_lt (by simpa using httlt)]
  refine ⟨N3, out3, (((s.edges.setIfInBounds bb { cbb with chain := s.chains.size }).setIfInBounds tt
      { ctt with chain := s.chains.size }).setIfInBounds bb
      { cbb with chain := s.chains.size, tPart := some tt }).setIfInBounds tt
      { ctt with chain := s.chains.size, bPart := some bb },
    ({ s with events := rest, active := P ++ Q, x := p.x } : St α), N1, N2, out2, ?_, hN3,
    by rw [hsz3, hsz2]; exact hsz1, hptA, by simp, ?_, ?_, ?_, rfl, rfl, hmerge, hnt2, hnt3⟩
  · show Runs s _ _
    sm_steps [hv, h1, h2, hft]
    unfold handleEnd
    rcases hes with rfl | rfl
    all_goals
      first | end_prefix1 | end_prefix2
      sm_by (run_activeRemove { s with events := rest } bot _ lb hb hlb hm P (top :: Q) hact hPb hbb hQb')
      sm_by (run_activeRemove { s with events := rest, active := P ++ top :: Q } top _ lt ht hlt hm P Q rfl
        hPt htt hQt)
      sm_steps [hb, ht]
      sm_bind [hcB]
      sm_bind [hcT]
      sm_by hmerge
      sm_bind
      sm_by hnt2
      sm_by hnt3
      sm_bind
      sm_steps [e1, e2, e3, e4, hbbc, f1, f2, f3]
      sm_by (run_wot_some _ bb tt false { cbb with chain := s.chains.size, tPart := some tt }
        { ctt with chain := s.chains.size, bPart := some bb } lbb ltt f4 rfl (Ne.symm hbt2) f5
        (by rw [lpt_eq]
            show ((s.chains.push _)[s.chains.size]?).bind _ = _
            rw [Array.getElem?_push_size]
            simp only [Option.bind_some, hcb2, if_true]
            rw [hptA _ (ptAt_some_lt hlbb)]; exact hlbb)
        (by rw [lpt_eq]
            show ((s.chains.push _)[s.chains.size]?).bind _ = _
            rw [Array.getElem?_push_size]
            simp only [Option.bind_some, hct2, Bool.false_eq_true, if_false]
            rw [hptA _ (ptAt_some_lt hltt)]; exact hltt))
      sm_cond [hwot]
      exact Runs.final rfl
  · intro k hk1 hk2
    rw [Array.getElem?_setIfInBounds_ne (Ne.symm hk2), Array.getElem?_setIfInBounds_ne (Ne.symm hk1),
      Array.getElem?_setIfInBounds_ne (Ne.symm hk2), Array.getElem?_setIfInBounds_ne (Ne.symm hk1)]
  · exact f4
  · exact f5

end

end Cav.GenOutEnd
