/-
  Tiling by the emitted triangles, part 7: the usual notions "strictly inside" / "in the closed
  triangle" by orientation determinants, symmetric in the corners (the emitted triangles have their
  corners sorted, so their orientation is not fixed).
-/
import Cav.Lemmas.GenOutInRayDefs

set_option linter.unusedVariables false

namespace Cav.GenOutIn
open Cav Cav.Geo Cav.QuadGeom Cav.CvxEvents Cav.MonoGeom

/-- `q` lies strictly inside the triangle `a b c` (either orientation) -/
def StrictInQ (q a b c : Q) : Prop :=
  (orient a b q < 0 ∧ orient b c q < 0 ∧ orient c a q < 0) ∨
  (0 < orient a b q ∧ 0 < orient b c q ∧ 0 < orient c a q)

/-- `q` lies in the closed triangle `a b c` (either orientation) -/
def ClosedInQ (q a b c : Q) : Prop :=
  (orient a b q ≤ 0 ∧ orient b c q ≤ 0 ∧ orient c a q ≤ 0) ∨
  (0 ≤ orient a b q ∧ 0 ≤ orient b c q ∧ 0 ≤ orient c a q)

/-- `q` lies strictly inside the emitted triangle `t` -/
def StrictIn (q : Q) (t : Tri) : Prop := StrictInQ q (toQ t.1) (toQ t.2.1) (toQ t.2.2)

/-- `q` lies in the closed emitted triangle `t` -/
def ClosedIn (q : Q) (t : Tri) : Prop := ClosedInQ q (toQ t.1) (toQ t.2.1) (toQ t.2.2)

instance (q : Q) (t : Tri) : Decidable (StrictIn q t) := by unfold StrictIn StrictInQ; exact inferInstance
instance (q : Q) (t : Tri) : Decidable (ClosedIn q t) := by unfold ClosedIn ClosedInQ; exact inferInstance

end Cav.GenOutIn
