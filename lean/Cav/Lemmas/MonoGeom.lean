/-
  Rational geometry of back-chains: lists of points with strictly decreasing / increasing
  abscissae (`XDec`, `XInc`), without turns of one sign (`NoTurn σ`), fans from an apex
  (`FanQ σ`), their behaviour under reversal, the two visibility lemmas `fan_first`, `fan_last`
  (a point to the right of a chain without `σ`-turns that sees the first / last edge sees every
  edge), and the area of a fan (`pathSum`).
-/
import Cav.Lemmas.CvxGeom
import Cav.Lemmas.CvxLoop

set_option linter.unusedVariables false

namespace Cav.MonoGeom
open Cav Cav.Geo Cav.CvxGeom Cav.CvxLoop

abbrev Q := Rat × Rat

def XDec : List Q → Prop
  | u :: v :: r => v.1 < u.1 ∧ XDec (v :: r)
  | _ => True

def XInc : List Q → Prop
  | u :: v :: r => u.1 < v.1 ∧ XInc (v :: r)
  | _ => True

/-- no consecutive triple turns with sign `σ` (`σ * orient < 0`) -/
def NoTurn (σ : Rat) : List Q → Prop
  | u :: v :: w :: r => ¬ (σ * orient u v w < 0) ∧ NoTurn σ (v :: w :: r)
  | _ => True

/-- every consecutive pair is seen from `p` with sign `σ` -/
def FanQ (σ : Rat) (p : Q) : List Q → Prop
  | q0 :: q1 :: r => σ * orient p q0 q1 < 0 ∧ FanQ σ p (q1 :: r)
  | _ => True

def pathSum : List Q → Rat
  | u :: v :: r => cross u v + pathSum (v :: r)
  | _ => 0

/-! ### tails -/

theorem XDec.tail {a : Q} {l : List Q} (h : XDec (a :: l)) : XDec l := by
  cases l with
  | nil => trivial
  | cons b r => exact h.2

theorem XInc.tail {a : Q} {l : List Q} (h : XInc (a :: l)) : XInc l := by
  cases l with
  | nil => trivial
  | cons b r => exact h.2

theorem NoTurn.tail {σ : Rat} {a : Q} {l : List Q} (h : NoTurn σ (a :: l)) : NoTurn σ l := by
  cases l with
  | nil => trivial
  | cons b r =>
    cases r with
    | nil => trivial
    | cons c r' => exact h.2

theorem FanQ.tail {σ : Rat} {p a : Q} {l : List Q} (h : FanQ σ p (a :: l)) : FanQ σ p l := by
  cases l with
  | nil => trivial
  | cons b r => exact h.2

theorem NoTurn.suffix {σ : Rat} : ∀ {pre l : List Q}, NoTurn σ (pre ++ l) → NoTurn σ l
  | [], _, h => h
  | a :: pre, l, h => NoTurn.suffix (pre := pre) (NoTurn.tail h)

theorem XDec.suffix : ∀ {pre l : List Q}, XDec (pre ++ l) → XDec l
  | [], _, h => h
  | a :: pre, l, h => XDec.suffix (pre := pre) (XDec.tail h)

/-! ### decompositions -/

theorem NoTurn.at {σ : Rat} {pre : List Q} {u v w : Q} {post : List Q}
    (h : NoTurn σ (pre ++ u :: v :: w :: post)) : ¬ (σ * orient u v w < 0) :=
  (NoTurn.suffix h).1

theorem FanQ.suffix {σ : Rat} {p : Q} : ∀ {pre l : List Q}, FanQ σ p (pre ++ l) → FanQ σ p l
  | [], _, h => h
  | a :: pre, l, h => FanQ.suffix (pre := pre) (FanQ.tail h)

theorem FanQ.at {σ : Rat} {p : Q} {pre : List Q} {u v : Q} {post : List Q}
    (h : FanQ σ p (pre ++ u :: v :: post)) : σ * orient p u v < 0 :=
  (FanQ.suffix h).1

theorem XDec.at {pre : List Q} {u v : Q} {post : List Q} (h : XDec (pre ++ u :: v :: post)) :
    v.1 < u.1 := (XDec.suffix h).1

theorem noTurn_of_at {σ : Rat} : ∀ (l : List Q),
    (∀ pre u v w post, l = pre ++ u :: v :: w :: post → ¬ (σ * orient u v w < 0)) → NoTurn σ l
  | [], _ => trivial
  | [_], _ => trivial
  | [_, _], _ => trivial
  | a :: b :: c :: r, h =>
    ⟨h [] a b c r rfl, noTurn_of_at (b :: c :: r) (fun pre u v w post e =>
      h (a :: pre) u v w post (by rw [e]; rfl))⟩

theorem fanQ_of_at {σ : Rat} {p : Q} : ∀ (l : List Q),
    (∀ pre u v post, l = pre ++ u :: v :: post → σ * orient p u v < 0) → FanQ σ p l
  | [], _ => trivial
  | [_], _ => trivial
  | a :: b :: r, h =>
    ⟨h [] a b r rfl, fanQ_of_at (b :: r) (fun pre u v post e =>
      h (a :: pre) u v post (by rw [e]; rfl))⟩

theorem xDec_of_at : ∀ (l : List Q),
    (∀ pre u v post, l = pre ++ u :: v :: post → v.1 < u.1) → XDec l
  | [], _ => trivial
  | [_], _ => trivial
  | a :: b :: r, h =>
    ⟨h [] a b r rfl, xDec_of_at (b :: r) (fun pre u v post e =>
      h (a :: pre) u v post (by rw [e]; rfl))⟩

theorem xInc_of_at : ∀ (l : List Q),
    (∀ pre u v post, l = pre ++ u :: v :: post → u.1 < v.1) → XInc l
  | [], _ => trivial
  | [_], _ => trivial
  | a :: b :: r, h =>
    ⟨h [] a b r rfl, xInc_of_at (b :: r) (fun pre u v post e =>
      h (a :: pre) u v post (by rw [e]; rfl))⟩

/-! ### reversal -/

theorem rev_decomp3 {l pre post : List Q} {u v w : Q} (e : l.reverse = pre ++ u :: v :: w :: post) :
    l = post.reverse ++ w :: v :: u :: pre.reverse := by
  have := congrArg List.reverse e
  simpa using this

theorem rev_decomp2 {l pre post : List Q} {u v : Q} (e : l.reverse = pre ++ u :: v :: post) :
    l = post.reverse ++ v :: u :: pre.reverse := by
  have := congrArg List.reverse e
  simpa using this

theorem NoTurn.reverse {σ : Rat} {l : List Q} (h : NoTurn σ l) : NoTurn (-σ) l.reverse := by
  apply noTurn_of_at
  intro pre u v w post e
  have := NoTurn.at (rev_decomp3 e ▸ h)
  have e2 : orient w v u = - orient u v w := by unfold orient; ring
  rw [e2] at this
  intro hc; apply this; linarith

theorem XDec.reverse {l : List Q} (h : XDec l) : XInc l.reverse := by
  apply xInc_of_at
  intro pre u v post e
  exact XDec.at (rev_decomp2 e ▸ h)

/-! ### visibility -/

theorem sign_step {σ k m n X Y Z : Rat} (hk : 0 < k) (hm : 0 < m) (hn : 0 < n) (hX : σ * X < 0)
    (hY : ¬ σ * Y < 0) (hid : k * Z = m * X - n * Y) : σ * Z < 0 := by
  have h1 : k * (σ * Z) = m * (σ * X) - n * (σ * Y) := by
    have : k * (σ * Z) = σ * (k * Z) := by ring
    rw [this, hid]; ring
  have h2 : m * (σ * X) < 0 := mul_neg_of_pos_of_neg hm hX
  have h3 : 0 ≤ n * (σ * Y) := mul_nonneg hn.le (not_lt.mp hY)
  have h4 : k * (σ * Z) < 0 := by linarith
  by_contra hc
  have := mul_nonneg hk.le (not_lt.mp hc)
  linarith

theorem stepF_id (a b c d : Q) :
    (b.1 - a.1) * orient d b c = (c.1 - b.1) * orient d a b - (d.1 - b.1) * orient a b c := by
  unfold orient; ring

theorem stepL_id (a b c d : Q) :
    (b.1 - a.1) * orient d c b = (c.1 - b.1) * orient d b a - (d.1 - b.1) * orient c b a := by
  unfold orient; ring

/-- a point to the right of an x-increasing chain without `τ`-turns that sees the first edge
    sees every edge -/
theorem fan_first (τ : Rat) (u : Q) : ∀ (c : List Q), XInc c → NoTurn τ c → (∀ q ∈ c, q.1 < u.1) →
    (∀ c0 c1 r, c = c0 :: c1 :: r → τ * orient u c0 c1 < 0) → FanQ τ u c
  | [], _, _, _, _ => trivial
  | [_], _, _, _, _ => trivial
  | [c0, c1], _, _, _, h => ⟨h c0 c1 [] rfl, trivial⟩
  | c0 :: c1 :: c2 :: r, hx, hn, hu, h => by
    have h01 := h c0 c1 (c2 :: r) rfl
    refine ⟨h01, fan_first τ u (c1 :: c2 :: r) hx.2 hn.2 (fun q hq => hu q (List.mem_cons_of_mem _ hq)) ?_⟩
    intro a b r' e
    simp only [List.cons.injEq] at e
    obtain ⟨rfl, rfl, -⟩ := e
    have x1 : c0.1 < c1.1 := hx.1
    have x2 : c1.1 < c2.1 := hx.2.1
    have x3 : c2.1 < u.1 := hu c2 (by simp)
    exact sign_step (sub_pos.mpr x1) (sub_pos.mpr x2) (sub_pos.mpr (lt_trans x2 x3)) h01 hn.1
      (stepF_id c0 c1 c2 u)

/-- a point to the right of an x-decreasing chain without `σ`-turns that sees the last edge sees
    every edge -/
theorem fan_last (σ : Rat) (u : Q) : ∀ (c : List Q), XDec c → NoTurn σ c → (∀ q ∈ c, q.1 < u.1) →
    (∀ pre y z, c = pre ++ [y, z] → σ * orient u y z < 0) → FanQ σ u c
  | [], _, _, _, _ => trivial
  | [_], _, _, _, _ => trivial
  | [c0, c1], _, _, _, h => ⟨h [] c0 c1 rfl, trivial⟩
  | c0 :: c1 :: c2 :: r, hx, hn, hu, h => by
    have ih := fan_last σ u (c1 :: c2 :: r) hx.2 hn.2 (fun q hq => hu q (List.mem_cons_of_mem _ hq))
      (fun pre y z e => h (c0 :: pre) y z (by rw [e]; rfl))
    refine ⟨?_, ih⟩
    have x1 : c2.1 < c1.1 := hx.2.1
    have x2 : c1.1 < c0.1 := hx.1
    have x3 : c0.1 < u.1 := hu c0 (by simp)
    exact sign_step (sub_pos.mpr x1) (sub_pos.mpr x2) (sub_pos.mpr (lt_trans x2 x3)) ih.1 hn.1
      (stepL_id c2 c1 c0 u)

/-! ### path sums and the area of a fan -/

/-- last element of `d :: l` -/
def lastQ : Q → List Q → Q
  | d, [] => d
  | _, a :: r => lastQ a r

theorem lastQ_append (d : Q) (l : List Q) (g : Q) : lastQ d (l ++ [g]) = g := by
  induction l generalizing d with
  | nil => rfl
  | cons a r ih => exact ih a

theorem pathSum_append : ∀ (l1 : List Q) (g : Q) (l2 : List Q),
    pathSum (l1 ++ g :: l2) = pathSum (l1 ++ [g]) + pathSum (g :: l2)
  | [], g, l2 => by simp [pathSum]
  | [a], g, l2 => by simp [pathSum]
  | a :: b :: l1, g, l2 => by
    have ih := pathSum_append (b :: l1) g l2
    simp only [List.cons_append, pathSum] at ih ⊢
    rw [ih]; ring

theorem cross_swap (a c : Q) : cross c a = - cross a c := by unfold cross; ring

theorem pathSum_reverse : ∀ (l : List Q), pathSum l.reverse = - pathSum l
  | [] => by simp [pathSum]
  | [a] => by simp [pathSum]
  | a :: b :: r => by
    have ih := pathSum_reverse (b :: r)
    have e : (a :: b :: r).reverse = r.reverse ++ b :: [a] := by simp
    rw [e, pathSum_append]
    have e2 : r.reverse ++ [b] = (b :: r).reverse := by simp
    rw [e2, ih]
    simp only [pathSum, cross_swap b a]
    ring

/-- `Σ orient u q0 q1` over the consecutive pairs -/
def orientSum (u : Q) : List Q → Rat
  | q0 :: q1 :: r => orient u q0 q1 + orientSum u (q1 :: r)
  | _ => 0

theorem orientSum_eq (u : Q) : ∀ (q0 : Q) (r : List Q),
    orientSum u (q0 :: r) = pathSum (q0 :: r) + cross u q0 - cross u (lastQ q0 r)
  | q0, [] => by simp [orientSum, pathSum, lastQ]
  | q0, q1 :: r => by
    have ih := orientSum_eq u q1 r
    simp only [orientSum, pathSum, lastQ, ih, orient_eq_cross, cross_swap q1 u]
    ring

end Cav.MonoGeom
