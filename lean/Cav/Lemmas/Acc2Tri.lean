/-
  Helper lemmas for `Thm/C09Accuracy` (triangle part).

  * `antiDeriv`: the exact integral of a coefficient list is the difference of its formal
    antiderivative at the bounds (`exactInt_eq_antiDeriv`, through Mathlib's FTC);
  * bivariate polynomials as lists of coefficient lists (`evalPoly2 G s r = Σ_k G[k](s)·r^k`);
  * `triInner G`: the coefficients of `s ↦ ∫_0^{1−s} Σ_k G[k](s)·r^k dr` (`evalPoly_triInner`);
  * `triEps G`: a uniform bound of the inner accuracy bound on the unit simplex.
-/
import Cav.Lemmas.Acc2Region
import Cav.Lemmas.AccPoly

open Cav Num Cav.C01 Cav.Quad2D
open Cav.C07Accuracy (polyAdd polyScale polyMul polyMulX derivAux derivCoeffs evalPoly_polyAdd
  evalPoly_polyScale evalPoly_polyMul evalPolyR_hasDerivAt polyAdd_length polyScale_length
  polyMul_length_le polyMul_nil_right)
namespace Cav.Acc2

/-! ### the formal antiderivative -/

/-- `[c₀/k, c₁/(k+1), …]` -/
def intAux : Nat → List Rat → List Rat
  | _, [] => []
  | k, c :: cs => (c / (k : Rat)) :: intAux (k + 1) cs

/-- coefficients of the antiderivative vanishing at `0`: `[0, c₀/1, c₁/2, …]` -/
def antiDeriv (cs : List Rat) : List Rat := 0 :: intAux 1 cs

theorem derivAux_intAux (k : Nat) (hk : 0 < k) (cs : List Rat) :
    derivAux k (intAux k cs) = cs := by
  induction cs generalizing k with
  | nil => rfl
  | cons c cs ih =>
    simp only [intAux, derivAux, ih (k + 1) (Nat.succ_pos k)]
    have : (k : Rat) ≠ 0 := by exact_mod_cast (Nat.pos_iff_ne_zero.mp hk)
    rw [mul_div_cancel₀ _ this]

theorem derivCoeffs_antiDeriv (cs : List Rat) : derivCoeffs (antiDeriv cs) = cs := by
  simp only [derivCoeffs, antiDeriv, List.tail_cons]
  exact derivAux_intAux 1 Nat.one_pos cs

theorem integral_evalPolyR_antiDeriv (cs : List Rat) (a b : ℝ) :
    ∫ x in a..b, evalPolyR cs x = evalPolyR (antiDeriv cs) b - evalPolyR (antiDeriv cs) a := by
  apply intervalIntegral.integral_eq_sub_of_hasDerivAt
  · intro x _
    have := evalPolyR_hasDerivAt (antiDeriv cs) x
    rwa [derivCoeffs_antiDeriv] at this
  · exact evalPolyR_intervalIntegrable cs a b

/-- the exact integral is the antiderivative difference -/
theorem exactInt_eq_antiDeriv (cs : List Rat) (a b : Rat) :
    exactInt cs a b = evalPoly (antiDeriv cs) b - evalPoly (antiDeriv cs) a := by
  apply Rat.cast_injective (α := ℝ)
  rw [← integral_eq_exactInt, integral_evalPolyR_antiDeriv, evalPolyR_cast, evalPolyR_cast]
  push_cast
  rfl

theorem evalPoly_antiDeriv_zero (cs : List Rat) : evalPoly (antiDeriv cs) 0 = 0 := by
  simp [antiDeriv]

/-! ### bivariate polynomials: lists of coefficient lists -/

/-- the coefficient list in `r` at the outer abscissa `s`: `[G[0](s), G[1](s), …]` -/
def coeffsAt (G : List (List Rat)) (s : Rat) : List Rat := G.map (fun q => evalPoly q s)

/-- `Σ_k G[k](s)·r^k` -/
def evalPoly2 (G : List (List Rat)) (s r : Rat) : Rat := evalPoly (coeffsAt G s) r

@[simp] theorem coeffsAt_nil (s : Rat) : coeffsAt [] s = [] := rfl
@[simp] theorem coeffsAt_cons (q : List Rat) (G : List (List Rat)) (s : Rat) :
    coeffsAt (q :: G) s = evalPoly q s :: coeffsAt G s := rfl
@[simp] theorem coeffsAt_length (G : List (List Rat)) (s : Rat) :
    (coeffsAt G s).length = G.length := by simp [coeffsAt]

/-- Horner form of `Σ_k G[k](s)/(k0+k) · (1−s)^k` -/
def triInnerAux : Nat → List (List Rat) → List Rat
  | _, [] => []
  | k, q :: G => polyAdd (polyScale (1 / (k : Rat)) q) (polyMul [1, -1] (triInnerAux (k + 1) G))

/-- coefficients of `s ↦ ∫_0^{1−s} Σ_k G[k](s)·r^k dr = Σ_k G[k](s)·(1−s)^{k+1}/(k+1)` -/
def triInner (G : List (List Rat)) : List Rat := polyMul [1, -1] (triInnerAux 1 G)

theorem evalPoly_one_sub (s : Rat) : evalPoly [1, -1] s = 1 - s := by
  simp only [evalPoly_cons, evalPoly_nil]; ring

theorem evalPoly_triInnerAux (k : Nat) (G : List (List Rat)) (s : Rat) :
    evalPoly (triInnerAux k G) s = evalPoly (intAux k (coeffsAt G s)) (1 - s) := by
  induction G generalizing k with
  | nil => rfl
  | cons q G ih =>
    simp only [triInnerAux, coeffsAt_cons, intAux, evalPoly_cons, evalPoly_nil, evalPoly_polyAdd,
      evalPoly_polyScale, evalPoly_polyMul, ih]
    ring

/-- **`triInner G` is the exact inner integral over `[0, 1−s]`** at every rational `s` -/
theorem evalPoly_triInner (G : List (List Rat)) (s : Rat) :
    evalPoly (triInner G) s = exactInt (coeffsAt G s) 0 (1 - s) := by
  rw [exactInt_eq_antiDeriv, evalPoly_antiDeriv_zero, sub_zero, triInner, evalPoly_polyMul,
    evalPoly_one_sub, evalPoly_triInnerAux, antiDeriv, evalPoly_cons]
  ring

/-! ### formal total degree -/

/-- `TotDeg N G`: `G[j].length + j ≤ N` for every index `j` of `G` (so `G.length ≤ N`, and
    `N − 1` bounds the formal total degree of `Σ_j G[j](s)·r^j`) -/
def TotDeg : Nat → List (List Rat) → Prop
  | _, [] => True
  | 0, _ :: _ => False
  | N + 1, q :: G => q.length ≤ N + 1 ∧ TotDeg N G

theorem TotDeg_nil (N : Nat) : TotDeg N [] := by cases N <;> trivial

instance instDecidableTotDeg : ∀ (N : Nat) (G : List (List Rat)), Decidable (TotDeg N G)
  | N, [] => isTrue (TotDeg_nil N)
  | 0, _ :: _ => isFalse (fun h => h)
  | N + 1, q :: G =>
    have := instDecidableTotDeg N G
    inferInstanceAs (Decidable (q.length ≤ N + 1 ∧ TotDeg N G))

theorem polyMul_one_sub_length (X : List Rat) :
    (polyMul [1, -1] X).length ≤ if X = [] then 0 else X.length + 1 := by
  by_cases hX : X = []
  · subst hX; simp [polyMul_nil_right]
  · rw [if_neg hX]
    have := polyMul_length_le [1, -1] X
    simp only [List.length_cons, List.length_nil] at this
    omega

theorem triInnerAux_length (k N : Nat) (G : List (List Rat)) (h : TotDeg N G) :
    (triInnerAux k G).length ≤ N := by
  induction G generalizing k N with
  | nil => simp [triInnerAux]
  | cons q G ih =>
    cases N with
    | zero => exact absurd h (fun h => h)
    | succ N =>
      obtain ⟨h1, h2⟩ := h
      have h3 := ih (k + 1) N h2
      have h4 := polyMul_one_sub_length (triInnerAux (k + 1) G)
      simp only [triInnerAux, polyAdd_length, polyScale_length]
      by_cases hX : triInnerAux (k + 1) G = []
      · rw [if_pos hX] at h4; omega
      · rw [if_neg hX] at h4; omega

/-- total degree `≤ N − 1` in `(s, r)` ⇒ the inner integral has degree `≤ N` in `s` -/
theorem triInner_length (N : Nat) (G : List (List Rat)) (h : TotDeg N G) :
    (triInner G).length ≤ N + 1 := by
  have h1 := triInnerAux_length 1 N G h
  have h2 := polyMul_one_sub_length (triInnerAux 1 G)
  unfold triInner
  by_cases hX : triInnerAux 1 G = []
  · rw [if_pos hX] at h2; omega
  · rw [if_neg hX] at h2; omega

theorem TotDeg_length (N : Nat) (G : List (List Rat)) (h : TotDeg N G) : G.length ≤ N := by
  induction G generalizing N with
  | nil => exact Nat.zero_le _
  | cons q G ih =>
    cases N with
    | zero => exact absurd h (fun h => h)
    | succ N =>
      have := ih N h.2
      simp only [List.length_cons]
      omega

theorem TotDeg_mono {N M : Nat} (hNM : N ≤ M) (G : List (List Rat)) (h : TotDeg N G) :
    TotDeg M G := by
  induction G generalizing N M with
  | nil => exact TotDeg_nil M
  | cons q G ih =>
    cases N with
    | zero => exact absurd h (fun h => h)
    | succ N =>
      cases M with
      | zero => omega
      | succ M => exact ⟨by have := h.1; omega, ih (by omega) h.2⟩

/-! ### a uniform inner bound on the unit simplex -/

theorem abs_evalPoly_le (q : List Rat) (s : Rat) : |evalPoly q s| ≤ absPolyAt q |s| := by
  induction q with
  | nil => simp
  | cons c q ih =>
    rw [evalPoly_cons, absPolyAt_cons]
    refine le_trans (abs_add_le _ _) ?_
    rw [abs_mul]
    have := mul_le_mul_of_nonneg_left ih (abs_nonneg s)
    linarith

theorem absPolyAt_le_normL1 (cs : List Rat) {r : Rat} (h0 : 0 ≤ r) (h1 : r ≤ 1) :
    absPolyAt cs r ≤ normL1 cs := by
  induction cs with
  | nil => simp
  | cons c cs ih =>
    rw [absPolyAt_cons, normL1_cons]
    have hA := absPolyAt_nonneg cs h0
    have : r * absPolyAt cs r ≤ 1 * absPolyAt cs r := mul_le_mul_of_nonneg_right h1 hA
    linarith

/-- `Σ_{k,i} |G[k][i]|` -/
def norm2 (G : List (List Rat)) : Rat := (G.map normL1).sum

theorem norm2_nonneg (G : List (List Rat)) : 0 ≤ norm2 G := by
  apply List.sum_nonneg
  intro x hx
  obtain ⟨q, _, rfl⟩ := List.mem_map.mp hx
  exact normL1_nonneg q

theorem normL1_coeffsAt_le (G : List (List Rat)) {s : Rat} (h0 : 0 ≤ s) (h1 : s ≤ 1) :
    normL1 (coeffsAt G s) ≤ norm2 G := by
  induction G with
  | nil => simp [norm2]
  | cons q G ih =>
    rw [coeffsAt_cons, normL1_cons]
    have h2 : |evalPoly q s| ≤ normL1 q := by
      refine le_trans (abs_evalPoly_le q s) ?_
      rw [abs_of_nonneg h0]
      exact absPolyAt_le_normL1 q h0 h1
    have : norm2 (q :: G) = normL1 q + norm2 G := by simp [norm2]
    rw [this]
    linarith

/-- the uniform inner bound on the unit simplex: `½ · 1e-16 · Σ_{k,i} |G[k][i]|` -/
def triEps (G : List (List Rat)) : Rat := 1 / 2 * (1 / 10 ^ 16) * norm2 G

/-- the inner accuracy bound of the triangle routine is at most `triEps G` for `0 ≤ s ≤ 1` -/
theorem innerBound_tri_le (G : List (List Rat)) (s : Rat) (h0 : 0 ≤ s) (h1 : s ≤ 1) :
    innerBound (coeffsAt G) (fun u => (0, 1 - u)) s ≤ triEps G := by
  unfold innerBound triEps
  simp only [sub_zero, abs_zero]
  have hs : 0 ≤ 1 - s := by linarith
  have hs1 : 1 - s ≤ 1 := by linarith
  rw [max_eq_right (abs_nonneg _), abs_of_nonneg hs, abs_of_nonneg (by linarith : 0 ≤ (1 - s) / 2)]
  have hA := le_trans (absPolyAt_le_normL1 (coeffsAt G s) hs hs1) (normL1_coeffsAt_le G h0 h1)
  have hA0 := absPolyAt_nonneg (coeffsAt G s) hs
  have hN := norm2_nonneg G
  have h2 : (1 - s) / 2 * (1 / 10 ^ 16) ≤ 1 / 2 * (1 / 10 ^ 16) := by linarith
  exact mul_le_mul h2 hA hA0 (by positivity)

end Cav.Acc2
