/-
  Output of the sweep on general valid input, part 12b: the arc invariant at an END event,
  preparations.  Positions in the active list after the removal of two neighbouring edges,
  splitting of `uSum`, the path through the End vertex, and the sign/non-crossing rules as pure
  statements about natural numbers.  All helper lemmas carry the suffix `_e`.
-/
import Cav.Lemmas.GenOutArcDefs
import Mathlib.Data.List.Basic
import Mathlib.Data.List.Flatten

set_option linter.unusedVariables false
set_option linter.unusedSimpArgs false

namespace Cav.GenOutArc
open Cav Cav.Geo Cav.GenInv

/-! ### positions -/

/-- removal of two neighbouring entries from a duplicate-free list: the positions -/
theorem idxOf_remove_e {L1 L2 : List Nat} {b t : Nat} (hnd : (L1 ++ b :: t :: L2).Nodup) :
    (L1 ++ b :: t :: L2).idxOf b = L1.length ∧ (L1 ++ b :: t :: L2).idxOf t = L1.length + 1 ∧
    ∀ i ∈ L1 ++ L2,
      ((L1 ++ b :: t :: L2).idxOf i < L1.length ∧
        (L1 ++ L2).idxOf i = (L1 ++ b :: t :: L2).idxOf i) ∨
      (L1.length + 2 ≤ (L1 ++ b :: t :: L2).idxOf i ∧
        (L1 ++ L2).idxOf i + 2 = (L1 ++ b :: t :: L2).idxOf i) := by
  have h1 : b ∉ L1 := fun h => by
    have := List.nodup_append.mp hnd
    exact this.2.2 b h b List.mem_cons_self rfl
  have h2 : t ∉ L1 := fun h => by
    have := List.nodup_append.mp hnd
    exact this.2.2 t h t (List.mem_cons_of_mem _ List.mem_cons_self) rfl
  have h3 : (b :: t :: L2).Nodup := (List.nodup_append.mp hnd).2.1
  have h4 : b ≠ t := fun h => by
    rw [h] at h3; exact (List.nodup_cons.mp h3).1 List.mem_cons_self
  have h5 : b ∉ L2 := fun h => (List.nodup_cons.mp h3).1 (List.mem_cons_of_mem _ h)
  have h6 : t ∉ L2 := fun h => (List.nodup_cons.mp (List.nodup_cons.mp h3).2).1 h
  refine ⟨?_, ?_, ?_⟩
  · rw [List.idxOf_append_of_notMem h1, List.idxOf_cons_self]; rfl
  · rw [List.idxOf_append_of_notMem h2, List.idxOf_cons_ne _ h4, List.idxOf_cons_self]
  · intro i hi
    by_cases hi1 : i ∈ L1
    · left
      rw [List.idxOf_append_of_mem hi1, List.idxOf_append_of_mem hi1]
      exact ⟨List.idxOf_lt_length_of_mem hi1, rfl⟩
    · right
      have hi2 : i ∈ L2 := (List.mem_append.mp hi).resolve_left hi1
      have hb : b ≠ i := fun h => h5 (h ▸ hi2)
      have ht : t ≠ i := fun h => h6 (h ▸ hi2)
      rw [List.idxOf_append_of_notMem hi1, List.idxOf_append_of_notMem hi1,
        List.idxOf_cons_ne _ hb, List.idxOf_cons_ne _ ht]
      omega

/-- the positions after the removal of the two neighbouring edges `bot`, `top` -/
theorem pos_remove_e {F1 F2 : List AE} {bot top : AE}
    (hnd : ((F1 ++ bot :: top :: F2).map (·.id)).Nodup) :
    pos (F1 ++ bot :: top :: F2) bot.id = F1.length ∧
    pos (F1 ++ bot :: top :: F2) top.id = F1.length + 1 ∧
    ∀ e ∈ F1 ++ F2,
      (pos (F1 ++ bot :: top :: F2) e.id < F1.length ∧
        pos (F1 ++ F2) e.id = pos (F1 ++ bot :: top :: F2) e.id) ∨
      (F1.length + 2 ≤ pos (F1 ++ bot :: top :: F2) e.id ∧
        pos (F1 ++ F2) e.id + 2 = pos (F1 ++ bot :: top :: F2) e.id) := by
  have e1 : (F1 ++ bot :: top :: F2).map (·.id) =
      F1.map (·.id) ++ bot.id :: top.id :: F2.map (·.id) := by simp
  have e2 : (F1 ++ F2).map (·.id) = F1.map (·.id) ++ F2.map (·.id) := by simp
  rw [e1] at hnd
  obtain ⟨h1, h2, h3⟩ := idxOf_remove_e hnd
  unfold pos
  rw [e1, e2]
  rw [List.length_map] at h1 h2 h3
  refine ⟨h1, h2, fun e he => ?_⟩
  have : e.id ∈ F1.map (·.id) ++ F2.map (·.id) := by
    rw [← e2]; exact List.mem_map_of_mem he
  exact h3 _ this

/-- an edge whose id differs from the two removed ids stays in the list -/
theorem mem_remove_e {F1 F2 : List AE} {bot top a : AE} (ha : a ∈ F1 ++ bot :: top :: F2)
    (h1 : a.id ≠ bot.id) (h2 : a.id ≠ top.id) : a ∈ F1 ++ F2 := by
  rcases List.mem_append.mp ha with h | h
  · exact List.mem_append_left _ h
  · rcases List.mem_cons.mp h with rfl | h
    · exact absurd rfl h1
    · rcases List.mem_cons.mp h with rfl | h
      · exact absurd rfl h2
      · exact List.mem_append_right _ h

theorem mem_of_remove_e {F1 F2 : List AE} {bot top a : AE} (ha : a ∈ F1 ++ F2) :
    a ∈ F1 ++ bot :: top :: F2 := by
  rcases List.mem_append.mp ha with h | h
  · exact List.mem_append_left _ h
  · exact List.mem_append_right _ (List.mem_cons_of_mem _ (List.mem_cons_of_mem _ h))

/-- two edges of a list with duplicate-free ids and equal ids are equal -/
theorem eq_of_id_e {E : List AE} (hnd : (E.map (·.id)).Nodup) {a b : AE} (ha : a ∈ E) (hb : b ∈ E)
    (h : a.id = b.id) : a = b :=
  List.inj_on_of_nodup_map hnd ha hb h

/-- ids of members have different positions -/
theorem pos_inj_e {E : List AE} {a : AE} (ha : a ∈ E) {i : Nat} (h : pos E a.id = pos E i) :
    a.id = i :=
  (List.idxOf_inj (List.mem_map_of_mem ha)).mp h

/-! ### the ends of the arcs are pairwise different -/

theorem nd_inj_e {A : List Arc} (hnd : (A.flatMap fun α => [α.t, α.h]).Nodup) {α β : Arc}
    (hα : α ∈ A) (hβ : β ∈ A) {x : Nat} (hx : x ∈ [α.t, α.h]) (hy : x ∈ [β.t, β.h]) : α = β := by
  induction A with
  | nil => cases hα
  | cons γ A ih =>
    rw [List.flatMap_cons] at hnd
    obtain ⟨h1, h2, h3⟩ := List.nodup_append.mp hnd
    rcases List.mem_cons.mp hα with rfl | hα'
    · rcases List.mem_cons.mp hβ with rfl | hβ'
      · rfl
      · exact absurd rfl (h3 x hx x (List.mem_flatMap.mpr ⟨β, hβ', hy⟩))
    · rcases List.mem_cons.mp hβ with rfl | hβ'
      · exact absurd rfl (h3 x hy x (List.mem_flatMap.mpr ⟨α, hα', hx⟩))
      · exact ih h2 hα' hβ'

theorem nd_th_e {A : List Arc} (hnd : (A.flatMap fun α => [α.t, α.h]).Nodup) {α : Arc}
    (hα : α ∈ A) : α.t ≠ α.h := by
  induction A with
  | nil => cases hα
  | cons γ A ih =>
    rw [List.flatMap_cons] at hnd
    obtain ⟨h1, h2, h3⟩ := List.nodup_append.mp hnd
    rcases List.mem_cons.mp hα with rfl | hα'
    · intro h
      rw [h] at h1
      exact (List.nodup_cons.mp h1).1 List.mem_cons_self
    · exact ih h2 hα'

/-! ### `uSum` -/

theorem uSum_zero_e (R : RingQ) (v0 : Nat) : uSum R v0 0 = turnE R v0 := by
  simp [uSum]

theorem uSum_succ_e (R : RingQ) (v0 k : Nat) :
    uSum R v0 (k + 1) = uSum R v0 k + turnE R (R.nxt^[k + 1] v0) := by
  unfold uSum
  rw [List.range_succ, List.map_append, List.sum_append]
  simp

theorem uSum_succ'_e (R : RingQ) (v0 k : Nat) :
    uSum R v0 (k + 1) = turnE R v0 + uSum R (R.nxt v0) k := by
  induction k with
  | zero => rw [uSum_succ_e, uSum_zero_e, uSum_zero_e]; rfl
  | succ k ih =>
    rw [uSum_succ_e, ih, uSum_succ_e R (R.nxt v0) k, Function.iterate_succ_apply (f := R.nxt) (k + 1) v0]
    omega

theorem uSum_split_e (R : RingQ) (v0 k1 k2 : Nat) :
    uSum R v0 (k1 + 1 + k2) = uSum R v0 k1 + uSum R (R.nxt^[k1 + 1] v0) k2 := by
  induction k2 with
  | zero => rw [uSum_zero_e]; exact uSum_succ_e R v0 k1
  | succ k2 ih =>
    rw [← Nat.add_assoc, uSum_succ_e, ih, uSum_succ_e R _ k2,
      ← Function.iterate_add_apply (f := R.nxt) (k2 + 1) (k1 + 1) v0]
    have : k1 + 1 + k2 + 1 = k2 + 1 + (k1 + 1) := by omega
    rw [this]
    omega

/-- `uSum` of the merged arc -/
theorem uSum_merge_e (R : RingQ) (v0 k1 k2 : Nat) :
    uSum R v0 (k1 + 1 + (k2 + 1)) =
      uSum R v0 k1 + turnE R (R.nxt^[k1 + 1] v0) + uSum R (R.nxt (R.nxt^[k1 + 1] v0)) k2 := by
  rw [uSum_split_e, uSum_succ'_e]
  omega

/-! ### the path through the End vertex -/

theorem path_w_e (R : RingQ) {v0 k1 u w : Nat} (h1 : R.nxt^[k1] v0 = u) (h2 : R.nxt u = w) :
    R.nxt^[k1 + 1] v0 = w := by
  rw [Function.iterate_succ_apply', h1, h2]

theorem path_shift_e (R : RingQ) {v0 k1 u w v2 : Nat} (h1 : R.nxt^[k1] v0 = u) (h2 : R.nxt u = w)
    (h3 : R.nxt w = v2) (j : Nat) : R.nxt^[k1 + 1 + (j + 1)] v0 = R.nxt^[j] v2 := by
  have : k1 + 1 + (j + 1) = j + (k1 + 1 + 1) := by omega
  rw [this, Function.iterate_add_apply, Function.iterate_succ_apply', path_w_e R h1 h2, h3]

/-! ### the rules of signs and of non-crossing, as statements about numbers -/

/-- `NonCross` in terms of the four positions -/
def NCn_e (a b c d : Nat) : Prop :=
  ¬ (min a b < min c d ∧ min c d < max a b ∧ max a b < max c d) ∧
  ¬ (min c d < min a b ∧ min a b < max c d ∧ max c d < max a b)

theorem nonCross_iff_e (E : List AE) (α β : Arc) :
    NonCross E α β ↔ NCn_e (pos E α.t) (pos E α.h) (pos E β.t) (pos E β.h) := Iff.rfl

/-- how a position changes -/
def Shift_e (p x x' : Nat) : Prop := (x < p ∧ x' = x) ∨ (p + 2 ≤ x ∧ x' + 2 = x)

theorem ncn_shift_e {p a b c d a' b' c' d' : Nat} (ha : Shift_e p a a') (hb : Shift_e p b b')
    (hc : Shift_e p c c') (hd : Shift_e p d d') (h : NCn_e a b c d) : NCn_e a' b' c' d' := by
  unfold NCn_e Shift_e at *
  omega

theorem sign_shift_e {p a b a' b' : Nat} (ha : Shift_e p a a') (hb : Shift_e p b b') :
    (if a' < b' then (1 : Int) else -1) = if a < b then 1 else -1 := by
  unfold Shift_e at *
  have : a' < b' ↔ a < b := by omega
  simp only [this]

/-- the sign rule for the merged arc, left turn at the End vertex -/
theorem sign_merge_pos_e {p T1 H2 : Nat} (hT : T1 ≠ p) (hT' : T1 ≠ p + 1) (hH : H2 ≠ p)
    (hH' : H2 ≠ p + 1) (hne : T1 ≠ H2) (hnc : NCn_e T1 p (p + 1) H2) :
    (if H2 < T1 then (1 : Int) else -1) =
      (if p < T1 then 1 else -1) + 1 + (if H2 < p + 1 then 1 else -1) := by
  unfold NCn_e at hnc
  split_ifs <;> omega

/-- the sign rule for the merged arc, right turn at the End vertex -/
theorem sign_merge_neg_e {p T1 H2 : Nat} (hT : T1 ≠ p) (hT' : T1 ≠ p + 1) (hH : H2 ≠ p)
    (hH' : H2 ≠ p + 1) (hne : T1 ≠ H2) (hnc : NCn_e T1 (p + 1) p H2) :
    (if H2 < T1 then (1 : Int) else -1) =
      (if p + 1 < T1 then 1 else -1) + -1 + (if H2 < p then 1 else -1) := by
  unfold NCn_e at hnc
  split_ifs <;> omega

/-- the merged arc does not cross an arc that crossed neither of its two parts -/
theorem ncn_merge_e {p T1 H1 T2 H2 c d : Nat}
    (hm : (H1 = p ∧ T2 = p + 1) ∨ (H1 = p + 1 ∧ T2 = p))
    (hc : c ≠ p) (hc' : c ≠ p + 1) (hd : d ≠ p) (hd' : d ≠ p + 1)
    (h1 : NCn_e T1 H1 c d) (h2 : NCn_e T2 H2 c d) : NCn_e T1 H2 c d := by
  unfold NCn_e at *
  omega

end Cav.GenOutArc
