/-
  Helper lemmas for `Thm/C09Approx` (accuracy of the 2-D routine on integrands that are uniformly
  close to a function polynomial of degree ≤ 31 in the inner variable, exact arithmetic).

  * `innerBoundApprox`: accuracy bound of one inner run on the approximable class;
  * `gk1d_approx_accuracy_all`: `C01Approx.gk1d_approx_accuracy_rat` with coincident bounds included;
  * `inner_run_approx_rat`: one inner run;
  * `nested_accuracy_rule_of_inner`, `gk2d_accuracy_of_inner`: the outer step, parametrised by
    "every successful inner run is within `ε` of `evalPoly Fs x`" — no assumption on the
    integrand itself;
  * `gk2d_approx_accuracy_rat_core`: the two combined.
-/
import Cav.Thm.C09Accuracy
import Cav.Thm.C01Approx

open Cav Num Cav.C01 Cav.Quad2D Cav.Acc2
namespace Cav.C09Approx

/-- the accuracy bound of the inner integration at the outer abscissa `x` for an integrand within
    `δ` of the polynomial `cs x`: the polynomial bound `innerBound` plus
    `|u(x) − l(x)|/2 · W · δ` (`W = kronrodW`, the sum of the absolute Kronrod weights) -/
def innerBoundApprox (cs : Rat → List Rat) (iAB : Rat → Rat × Rat) (δ : Rat) (x : Rat) : Rat :=
  innerBound cs iAB x + |((iAB x).2 - (iAB x).1) / 2| * C01Approx.kronrodW * δ

theorem innerBoundApprox_nonneg (cs : Rat → List Rat) (iAB : Rat → Rat × Rat) (δ : Rat)
    (hδ : 0 ≤ δ) (x : Rat) : 0 ≤ innerBoundApprox cs iAB δ x := by
  unfold innerBoundApprox
  have h1 := innerBound_nonneg cs iAB x
  have h2 := C01Approx.kronrodW_pos.le
  have : 0 ≤ |((iAB x).2 - (iAB x).1) / 2| * C01Approx.kronrodW * δ := by positivity
  linarith

/-- accuracy of a successful 1-D run on an integrand `δ`-close to a polynomial of degree ≤ 31 —
    coincident bounds included (then the routine returns `0`, which is the exact integral) -/
theorem gk1d_approx_accuracy_all (cs : List Rat) (hdeg : cs.length ≤ 32) (g : Rat → Rat)
    (a b tol δ : Rat) (mi : Option Nat) (v e : Rat)
    (hg : ∀ y, min a b ≤ y → y ≤ max a b → |g y - evalPoly cs y| ≤ δ)
    (h : (gk1d g a b tol mi).res = .ok (v, e)) :
    |v - exactInt cs a b| ≤
      |(b - a) / 2| * (1 / 10 ^ 16) * absPolyAt cs (max |a| |b|) +
        |(b - a) / 2| * C01Approx.kronrodW * δ := by
  by_cases hab : a = b
  · subst hab
    have hb : Num.beq a a = true := decide_eq_true rfl
    rw [(C10.gk1d_eq_bounds _ a a tol mi hb).1] at h
    injection h with h
    injection h with hv _
    rw [← hv, QuadTiling.zero_eq, exactInt_same]
    simp
  · have := (C01Approx.gk1d_approx_accuracy_rat cs hdeg g a b tol δ mi v e hab hg h).1
    refine le_trans this (le_of_eq ?_)
    ring

/-- one inner run at the outer abscissa `x` -/
theorem inner_run_approx_rat (f : Rat → Rat → Rat) (cs : Rat → List Rat)
    (iAB : Rat → Rat × Rat) (δ x : Rat) (hdy : (cs x).length ≤ 32)
    (hf : ∀ y, min (iAB x).1 (iAB x).2 ≤ y → y ≤ max (iAB x).1 (iAB x).2 →
      |f x y - evalPoly (cs x) y| ≤ δ)
    (tol' : Rat) (mi' : Option Nat) (w e' : Rat)
    (h : (gk1d (f x) (iAB x).1 (iAB x).2 tol' mi').res = .ok (w, e')) :
    |w - exactInt (cs x) (iAB x).1 (iAB x).2| ≤ innerBoundApprox cs iAB δ x :=
  gk1d_approx_accuracy_all (cs x) hdy (f x) _ _ tol' δ mi' w e' hf h

/-! ### the outer step, parametrised by the accuracy of the inner runs -/

/-- **one outer panel of any rule with non-negative weights**: if every successful inner run is
    within `ε` of `evalPoly Fs` at its abscissa, the nested value differs from `exactInt Fs a b` by
    the outer rule's own error `D` on `Fs` plus `ε` weighted by the outer rule -/
theorem nested_accuracy_rule_of_inner (R : List (Rat × Rat)) (hw : ∀ nw ∈ R, 0 ≤ nw.2)
    (f : Rat → Rat → Rat) (Fs : List Rat) (a b : Rat) (iAB : Rat → Rat × Rat) (tol : Rat)
    (mi : Option Nat) (ε D : Rat)
    (hD : |symRule (evalPoly Fs) a b R - exactInt Fs a b| ≤ D)
    (hin : ∀ node ∈ unitNodes R, ∀ p, innerRes f a b iAB tol mi node = .ok p →
      |p.1 - evalPoly Fs (denorm a b node)| ≤ ε)
    (v e : Rat) (h : (nested f a b iAB tol mi R).res = .ok (v, e)) :
    |v - exactInt Fs a b| ≤ D + |(b - a) / 2| * (ε * unitRule (fun _ => 1) R) := by
  obtain ⟨hok, hv, _⟩ := (nested_res_ok_iff f a b iAB tol mi _ v e).mp h
  have hsym : symRule (evalPoly Fs) a b R =
      (b - a) / 2 * unitRule (fun node => evalPoly Fs (denorm a b node)) R := by
    simp only [symRule, QuadTiling.two_eq]
  have hsplit : v - exactInt Fs a b =
      (b - a) / 2 * unitRule (fun node =>
        (innerVal f a b iAB tol mi node).1 - evalPoly Fs (denorm a b node)) R +
      (symRule (evalPoly Fs) a b R - exactInt Fs a b) := by
    rw [Quad2D.unitRule_sub, hsym, hv]; ring
  rw [hsplit, add_comm]
  refine le_trans (abs_add_le _ _) (add_le_add hD ?_)
  rw [abs_mul]
  refine mul_le_mul_of_nonneg_left ?_ (abs_nonneg _)
  apply unitRule_abs_le _ ε _ hw
  intro node hnode
  obtain ⟨p, hp⟩ := hok node hnode
  have hval : innerVal f a b iAB tol mi node = p := by unfold innerVal; rw [hp]; rfl
  rw [hval]
  exact hin node hnode p hp

/-- **the 2-D routine, any outer and inner bisections**: if every successful inner run at an
    abscissa `x` of the outer hull (any tolerance, any budget) is within `ε` of `evalPoly Fs x`,
    a successful 2-D result is within outer table defect + `ε`·(outer weight mass) of
    `exactInt Fs a b`.  No assumption on the integrand. -/
theorem gk2d_accuracy_of_inner (f : Rat → Rat → Rat) (Fs : List Rat) (a b : Rat)
    (iAB : Rat → Rat × Rat) (tol : Rat) (mi : Option Nat) (ε : Rat)
    (hdx : Fs.length ≤ 32) (hab : a ≠ b) (hε0 : 0 ≤ ε)
    (hin : ∀ x, min a b ≤ x → x ≤ max a b → ∀ (tol' : Rat) (mi' : Option Nat) (w e' : Rat),
      (gk1d (f x) (iAB x).1 (iAB x).2 tol' mi').res = .ok (w, e') → |w - evalPoly Fs x| ≤ ε)
    (v e : Rat) (h : (gk2d f a b iAB tol mi).res = .ok (v, e)) :
    |v - exactInt Fs a b| ≤
      |(b - a) / 2| * (1 / 10 ^ 16) * absPolyAt Fs (max |a| |b|) +
        |(b - a) / 2| * (ε * (2 + 1 / 10 ^ 16)) := by
  obtain ⟨L, hc, hd, hok, hv, _, _⟩ := gk2d_ok_tiling f a b iAB tol mi v e hab h
  have hR : (0 : Rat) ≤ max |a| |b| := le_trans (abs_nonneg a) (le_max_left _ _)
  have hA := absPolyAt_nonneg Fs hR
  set W : Rat := unitRule (fun _ => (1 : Rat)) Gen.k21 with hW
  have hW2 : W ≤ 2 + 1 / 10 ^ 16 := C09.k21_weight_sum_le
  have hW0 : 0 ≤ W := unitRule_nonneg _ _ k21_weights_nonneg (fun _ => zero_le_one)
  -- per-panel bound
  have hpanel : ∀ p ∈ L, |(approx2 f iAB tol mi p.1 p.2).1 - exactInt Fs p.1 p.2| ≤
      ((1 / 10 ^ 16 * absPolyAt Fs (max |a| |b|) + ε * W) / 2) * |p.2 - p.1| := by
    intro p hp
    obtain ⟨e', hn⟩ := approx2_is_nested_k21 f iAB tol mi p.1 p.2 (hok p hp)
    have h1 := nested_accuracy_rule_of_inner Gen.k21 k21_weights_nonneg f Fs p.1 p.2 iAB (tol / 2)
      mi ε _ (panel_poly_error_rat Fs hdx p.1 p.2)
      (fun node hnode q hq => by
        obtain ⟨h1, h2⟩ := Acc2.denorm_mem_hull hc hd hab p hp node
          (k21_unitNodes_in_unit node hnode)
        unfold innerRes at hq
        exact hin _ h1 h2 (tol / 2) mi q.1 q.2 hq) _ _ hn
    refine le_trans h1 ?_
    have hmono : absPolyAt Fs (max |p.1| |p.2|) ≤ absPolyAt Fs (max |a| |b|) :=
      absPolyAt_mono Fs (le_trans (abs_nonneg p.1) (le_max_left _ _))
        (chain_piece_abs_le hc hd hab p hp)
    have hnn : (0 : Rat) ≤ |(p.2 - p.1) / 2| * (1 / 10 ^ 16) := by positivity
    have := mul_le_mul_of_nonneg_left hmono hnn
    rw [abs_div, abs_two] at this ⊢
    linarith
  rw [hv, ← C02.chain_additive (exactInt Fs) (exactInt_adjacent Fs) a b L hc]
  refine le_trans (abs_sum_sub_sum_le L _ _ _ hpanel) ?_
  rw [List.sum_map_mul_left, chain_abs_length_sum hc hd hab, abs_div, abs_two]
  have h3 : ε * W ≤ ε * (2 + 1 / 10 ^ 16) := mul_le_mul_of_nonneg_left hW2 hε0
  have h4 := mul_le_mul_of_nonneg_left h3 (abs_nonneg (b - a))
  linarith

/-- **the 2-D routine on the approximable class** (rational form) -/
theorem gk2d_approx_accuracy_rat_core (f : Rat → Rat → Rat) (cs : Rat → List Rat)
    (Fs : List Rat) (a b : Rat) (iAB : Rat → Rat × Rat) (tol : Rat) (mi : Option Nat) (δ ε : Rat)
    (hf : ∀ x, min a b ≤ x → x ≤ max a b →
      ∀ y, min (iAB x).1 (iAB x).2 ≤ y → y ≤ max (iAB x).1 (iAB x).2 →
        |f x y - evalPoly (cs x) y| ≤ δ)
    (hdy : ∀ x, min a b ≤ x → x ≤ max a b → (cs x).length ≤ 32)
    (hF : ∀ x, min a b ≤ x → x ≤ max a b →
      evalPoly Fs x = exactInt (cs x) (iAB x).1 (iAB x).2)
    (hdx : Fs.length ≤ 32) (hab : a ≠ b)
    (hε : ∀ x, min a b ≤ x → x ≤ max a b → innerBoundApprox cs iAB δ x ≤ ε)
    (v e : Rat) (h : (gk2d f a b iAB tol mi).res = .ok (v, e)) :
    |v - exactInt Fs a b| ≤
      |(b - a) / 2| * (1 / 10 ^ 16) * absPolyAt Fs (max |a| |b|) +
        |(b - a) / 2| * (ε * (2 + 1 / 10 ^ 16)) := by
  have ha1 : min a b ≤ a := min_le_left _ _
  have ha2 : a ≤ max a b := le_max_left _ _
  have hδ : 0 ≤ δ := le_trans (abs_nonneg _)
    (hf a ha1 ha2 (iAB a).1 (min_le_left _ _) (le_max_left _ _))
  have hε0 : 0 ≤ ε := le_trans (innerBoundApprox_nonneg cs iAB δ hδ a) (hε a ha1 ha2)
  refine gk2d_accuracy_of_inner f Fs a b iAB tol mi ε hdx hab hε0 ?_ v e h
  intro x hx1 hx2 tol' mi' w e' hrun
  rw [hF x hx1 hx2]
  exact le_trans (inner_run_approx_rat f cs iAB δ x (hdy x hx1 hx2) (hf x hx1 hx2) tol' mi' w e' hrun)
    (hε x hx1 hx2)

end Cav.C09Approx
