/-
  General sweep invariant, part 6 (the event queue): `evAdd` on a ring with distinct abscissae is
  the sorted insertion `qAdd`; the queue invariant `QCore` under taking the head event (`pop`)
  and registering a new edge (`add`); no vertex lies strictly between the sweep abscissa and the
  head of the queue (`no_gap`); the crossing edges after a step (`cross_step`).
-/
import Cav.Lemmas.GenInv
import Cav.Lemmas.SweepEvents

set_option linter.unusedSimpArgs false
set_option linter.unusedVariables false

namespace Cav.GenQueue
open Cav Num Cav.Geo Cav.Sweep Cav.QuadGeom Cav.CvxFlows Cav.GenQuery Cav.GenGeom Cav.GenInv

variable {R : RingQ} {V : Array (Vtx XQ)}

/-- sorted insertion of edge `e` at vertex `v` -/
def qAdd (R : RingQ) (v e : Nat) : List (Nat × List Nat) → List (Nat × List Nat)
  | [] => [(v, [e])]
  | (k, es) :: rest =>
    if R.x v < R.x k then (v, [e]) :: (k, es) :: rest
    else if k = v then (k, es ++ [e]) :: rest
    else (k, es) :: qAdd R v e rest

theorem evAdd_eq_qAdd (hR : RingOK R V) (v e : Nat) (hv : v < R.n) :
    ∀ (evs : List (Nat × List Nat)), (∀ a ∈ evs, a.1 < R.n) →
      evAdd V (Fq (R.pt v)) v e evs = qAdd R v e evs
  | [], _ => rfl
  | (k, es) :: rest, h => by
    have hk : k < R.n := h (k, es) List.mem_cons_self
    unfold evAdd qAdd
    rw [hR.get k hk]
    simp only
    rcases lt_trichotomy (R.x v) (R.x k) with hlt | heq | hgt
    · rw [cmp_lt_of_x _ _ hlt, if_pos hlt]
    · have : v = k := hR.distinct v k hv hk heq
      subst this
      rw [cmp_self, if_neg (lt_irrefl _), if_pos rfl]
    · have hne : k ≠ v := by rintro rfl; exact lt_irrefl _ hgt
      rw [cmp_gt_of_x _ _ hgt, if_neg (lt_asymm hgt), if_neg hne,
        evAdd_eq_qAdd hR v e hv rest (fun a ha => h a (List.mem_cons_of_mem _ ha))]

abbrev SortedQ (R : RingQ) (evs : List (Nat × List Nat)) : Prop :=
  evs.Pairwise (fun a b => R.x a.1 < R.x b.1)

/-- membership in the queue after an insertion -/
theorem mem_qAdd (v e : Nat) : ∀ (evs : List (Nat × List Nat)), SortedQ R evs →
    ∀ w es, (w, es) ∈ qAdd R v e evs ↔
      (w ≠ v ∧ (w, es) ∈ evs) ∨
      (w = v ∧ ((∃ es0, (v, es0) ∈ evs ∧ es = es0 ++ [e]) ∨ ((∀ es0, (v, es0) ∉ evs) ∧ es = [e])))
  | [], _, w, es => by
    simp only [qAdd, List.mem_singleton, Prod.mk.injEq, List.not_mem_nil, and_false, false_or,
      exists_false, not_false_eq_true, implies_true, true_and, false_and]
  | (k, es0) :: rest, hs, w, es => by
    have hhead : ∀ a ∈ rest, R.x k < R.x a.1 := (List.pairwise_cons.mp hs).1
    have hrest : SortedQ R rest := (List.pairwise_cons.mp hs).2
    unfold qAdd
    by_cases h1 : R.x v < R.x k
    · rw [if_pos h1]
      have hnot : ∀ es1, (v, es1) ∉ (k, es0) :: rest := by
        intro es1 hm
        rcases List.mem_cons.mp hm with hm | hm
        · cases hm; exact lt_irrefl _ h1
        · exact lt_asymm h1 (hhead _ hm)
      constructor
      · intro hm
        rcases List.mem_cons.mp hm with hm1 | hm1
        · cases hm1
          exact Or.inr ⟨rfl, Or.inr ⟨hnot, rfl⟩⟩
        · left
          refine ⟨?_, hm1⟩
          intro hwv
          rw [hwv] at hm1
          exact hnot _ hm1
      · rintro (⟨hne, hm⟩ | ⟨rfl, ⟨es1, hm, -⟩ | ⟨-, rfl⟩⟩)
        · exact List.mem_cons_of_mem _ hm
        · exact absurd hm (hnot es1)
        · exact List.mem_cons_self
    · rw [if_neg h1]
      by_cases h2 : k = v
      · subst h2
        rw [if_pos rfl]
        have hnot : ∀ es1, (k, es1) ∉ rest := fun es1 hm => lt_irrefl _ (hhead _ hm)
        constructor
        · intro hm
          rcases List.mem_cons.mp hm with hm1 | hm1
          · cases hm1
            exact Or.inr ⟨rfl, Or.inl ⟨es0, List.mem_cons_self, rfl⟩⟩
          · left
            refine ⟨?_, List.mem_cons_of_mem _ hm1⟩
            intro hwv
            rw [hwv] at hm1
            exact hnot _ hm1
        · rintro (⟨hne, hm⟩ | ⟨rfl, ⟨es1, hm, rfl⟩ | ⟨hno, -⟩⟩)
          · rcases List.mem_cons.mp hm with hm | hm
            · cases hm; exact absurd rfl hne
            · exact List.mem_cons_of_mem _ hm
          · rcases List.mem_cons.mp hm with hm | hm
            · cases hm; exact List.mem_cons_self
            · exact absurd hm (hnot es1)
          · exact absurd List.mem_cons_self (hno es0)
      · rw [if_neg h2]
        have ih := mem_qAdd v e rest hrest w es
        constructor
        · intro hm
          rcases List.mem_cons.mp hm with hm | hm
          · cases hm
            exact Or.inl ⟨h2, List.mem_cons_self⟩
          · rcases ih.mp hm with ⟨hne, hm'⟩ | ⟨rfl, ⟨es1, hm', rfl⟩ | ⟨hno, rfl⟩⟩
            · exact Or.inl ⟨hne, List.mem_cons_of_mem _ hm'⟩
            · exact Or.inr ⟨rfl, Or.inl ⟨es1, List.mem_cons_of_mem _ hm', rfl⟩⟩
            · refine Or.inr ⟨rfl, Or.inr ⟨?_, rfl⟩⟩
              intro es1 hm'
              rcases List.mem_cons.mp hm' with hm' | hm'
              · cases hm'; exact h2 rfl
              · exact hno es1 hm'
        · rintro (⟨hne, hm⟩ | ⟨rfl, ⟨es1, hm, rfl⟩ | ⟨hno, rfl⟩⟩)
          · rcases List.mem_cons.mp hm with hm | hm
            · cases hm; exact List.mem_cons_self
            · exact List.mem_cons_of_mem _ (ih.mpr (Or.inl ⟨hne, hm⟩))
          · rcases List.mem_cons.mp hm with hm | hm
            · cases hm; exact absurd rfl h2
            · exact List.mem_cons_of_mem _ (ih.mpr (Or.inr ⟨rfl, Or.inl ⟨es1, hm, rfl⟩⟩))
          · exact List.mem_cons_of_mem _ (ih.mpr (Or.inr ⟨rfl, Or.inr
              ⟨fun es1 hm => hno es1 (List.mem_cons_of_mem _ hm), rfl⟩⟩))

/-- the keys of the queue after an insertion -/
theorem key_qAdd (v e : Nat) (evs : List (Nat × List Nat)) (hs : SortedQ R evs) (a : Nat × List Nat)
    (ha : a ∈ qAdd R v e evs) : a.1 = v ∨ ∃ b ∈ evs, b.1 = a.1 := by
  obtain ⟨w, es⟩ := a
  rcases (mem_qAdd v e evs hs w es).mp ha with ⟨-, hm⟩ | ⟨rfl, -⟩
  · exact Or.inr ⟨_, hm, rfl⟩
  · exact Or.inl rfl

theorem sorted_qAdd (hR : RingOK R V) (v e : Nat) (hv : v < R.n) :
    ∀ (evs : List (Nat × List Nat)), SortedQ R evs → (∀ a ∈ evs, a.1 < R.n) →
      SortedQ R (qAdd R v e evs)
  | [], _, _ => by simp [qAdd]
  | (k, es0) :: rest, hs, hn => by
    have hhead : ∀ a ∈ rest, R.x k < R.x a.1 := (List.pairwise_cons.mp hs).1
    have hrest : SortedQ R rest := (List.pairwise_cons.mp hs).2
    have hk : k < R.n := hn (k, es0) List.mem_cons_self
    unfold qAdd
    by_cases h1 : R.x v < R.x k
    · rw [if_pos h1]
      refine List.pairwise_cons.mpr ⟨?_, hs⟩
      intro a ha
      rcases List.mem_cons.mp ha with rfl | ha
      · exact h1
      · exact lt_trans h1 (hhead a ha)
    · rw [if_neg h1]
      by_cases h2 : k = v
      · rw [if_pos h2]
        exact List.pairwise_cons.mpr ⟨hhead, hrest⟩
      · rw [if_neg h2]
        have hlt : R.x k < R.x v := by
          rcases lt_trichotomy (R.x k) (R.x v) with h | h | h
          · exact h
          · exact absurd (hR.distinct k v hk hv h) h2
          · exact absurd h h1
        refine List.pairwise_cons.mpr ⟨?_, sorted_qAdd hR v e hv rest hrest
          (fun a ha => hn a (List.mem_cons_of_mem _ ha))⟩
        intro a ha
        rcases key_qAdd v e rest hrest a ha with h | ⟨b, hb, h⟩
        · rw [h]; exact hlt
        · rw [← h]; exact hhead b hb

/-! ### the queue invariant -/

/-- taking the head event `w` from the queue; the edges ending at `w` leave the active set -/
theorem _root_.Cav.GenInv.QCore.pop {xs : Rat} {E E' : List AE} {w : Nat} {es : List Nat}
    {rest : List (Nat × List Nat)} (h : QCore R xs E ((w, es) :: rest))
    (hE : ∀ a, a ∈ E' ↔ a ∈ E ∧ a.rv ≠ w) : QCore R (R.x w) E' rest := by
  have hhead : ∀ a ∈ rest, R.x w < R.x a.1 := (List.pairwise_cons.mp h.sorted).1
  have hw := h.gt (w, es) List.mem_cons_self
  refine ⟨(List.pairwise_cons.mp h.sorted).2, ?_, ?_, ?_, ?_, ?_, ?_⟩
  · intro ev hev
    exact ⟨(h.gt ev (List.mem_cons_of_mem _ hev)).1, hhead ev hev⟩
  · intro ev hev
    obtain ⟨hnd, hmem⟩ := h.reg ev (List.mem_cons_of_mem _ hev)
    refine ⟨hnd, fun e => ?_⟩
    rw [hmem e]
    constructor
    · rintro ⟨a, ha, h1, h2⟩
      refine ⟨a, (hE a).mpr ⟨ha, ?_⟩, h1, h2⟩
      intro h3
      have := hhead ev hev
      rw [← h2, h3] at this
      exact lt_irrefl _ this
    · rintro ⟨a, ha, h1, h2⟩
      exact ⟨a, ((hE a).mp ha).1, h1, h2⟩
  · intro a ha
    obtain ⟨ha1, ha2⟩ := (hE a).mp ha
    obtain ⟨es', hm⟩ := h.regAll a ha1
    rcases List.mem_cons.mp hm with hm | hm
    · cases hm; exact absurd rfl ha2
    · exact ⟨es', hm⟩
  · intro v hv hx hst
    obtain ⟨es', hm⟩ := h.starts v hv (lt_trans hw.2 hx) hst
    rcases List.mem_cons.mp hm with hm | hm
    · cases hm; exact absurd hx (lt_irrefl _)
    · exact ⟨es', hm⟩
  · intro a ha b hb
    exact h.uniq a ((hE a).mp ha).1 b ((hE b).mp hb).1
  · intro a ha b hb
    exact h.idinj a ((hE a).mp ha).1 b ((hE b).mp hb).1

/-- a new edge becomes active and is registered with its right end vertex -/
theorem _root_.Cav.GenInv.QCore.add (hR : RingOK R V) {xs : Rat} {E E' : List AE} {evs : List (Nat × List Nat)}
    (h : QCore R xs E evs) (a : AE) (harv : a.rv < R.n) (hax : xs < R.x a.rv)
    (hid : ∀ b ∈ E, b.id ≠ a.id) (hpair : ∀ b ∈ E, ¬ (b.lv = a.lv ∧ b.rv = a.rv))
    (hE : ∀ b, b ∈ E' ↔ b = a ∨ b ∈ E) : QCore R xs E' (qAdd R a.rv a.id evs) := by
  have hkeys : ∀ ev ∈ evs, ev.1 < R.n := fun ev hev => (h.gt ev hev).1
  refine ⟨sorted_qAdd hR _ _ harv evs h.sorted hkeys, ?_, ?_, ?_, ?_, ?_, ?_⟩
  · intro ev hev
    rcases key_qAdd _ _ evs h.sorted ev hev with h1 | ⟨b, hb, h1⟩
    · rw [h1]; exact ⟨harv, hax⟩
    · rw [← h1]; exact h.gt b hb
  · rintro ⟨w, es⟩ hev
    rcases (mem_qAdd _ _ evs h.sorted w es).mp hev with ⟨hne, hm⟩ | ⟨rfl, ⟨es0, hm, rfl⟩ | ⟨hno, rfl⟩⟩
    · obtain ⟨hnd, hmem⟩ := h.reg (w, es) hm
      refine ⟨hnd, fun e => ?_⟩
      rw [hmem e]
      constructor
      · rintro ⟨b, hb, h1, h2⟩
        exact ⟨b, (hE b).mpr (Or.inr hb), h1, h2⟩
      · rintro ⟨b, hb, h1, h2⟩
        rcases (hE b).mp hb with rfl | hb
        · exact absurd h2.symm hne
        · exact ⟨b, hb, h1, h2⟩
    · obtain ⟨hnd, hmem⟩ := h.reg (a.rv, es0) hm
      have hnot : a.id ∉ es0 := by
        intro hin
        obtain ⟨b, hb, h1, -⟩ := (hmem a.id).mp hin
        exact hid b hb h1
      refine ⟨?_, fun e => ?_⟩
      · rw [List.nodup_append]
        refine ⟨hnd, by simp, ?_⟩
        intro x hx y hy
        simp only [List.mem_singleton] at hy
        subst hy
        rintro rfl
        exact hnot hx
      · simp only [List.mem_append, List.mem_singleton]
        constructor
        · rintro (hin | rfl)
          · obtain ⟨b, hb, h1, h2⟩ := (hmem e).mp hin
            exact ⟨b, (hE b).mpr (Or.inr hb), h1, h2⟩
          · exact ⟨a, (hE a).mpr (Or.inl rfl), rfl, rfl⟩
        · rintro ⟨b, hb, h1, h2⟩
          rcases (hE b).mp hb with rfl | hb
          · exact Or.inr h1.symm
          · exact Or.inl ((hmem e).mpr ⟨b, hb, h1, h2⟩)
    · refine ⟨by simp, fun e => ?_⟩
      simp only [List.mem_singleton]
      constructor
      · rintro rfl
        exact ⟨a, (hE a).mpr (Or.inl rfl), rfl, rfl⟩
      · rintro ⟨b, hb, h1, h2⟩
        rcases (hE b).mp hb with rfl | hb
        · exact h1.symm
        · obtain ⟨es', hm⟩ := h.regAll b hb
          rw [h2] at hm
          exact absurd hm (hno es')
  · intro b hb
    have key : ∀ w, (∃ es, (w, es) ∈ evs) ∨ w = a.rv → ∃ es, (w, es) ∈ qAdd R a.rv a.id evs := by
      intro w hw
      by_cases hwv : w = a.rv
      · subst hwv
        by_cases hex : ∃ es0, (a.rv, es0) ∈ evs
        · obtain ⟨es0, hm⟩ := hex
          exact ⟨_, (mem_qAdd _ _ evs h.sorted _ _).mpr (Or.inr ⟨rfl, Or.inl ⟨es0, hm, rfl⟩⟩)⟩
        · exact ⟨_, (mem_qAdd _ _ evs h.sorted _ _).mpr (Or.inr ⟨rfl, Or.inr
            ⟨fun es0 hm => hex ⟨es0, hm⟩, rfl⟩⟩)⟩
      · rcases hw with ⟨es, hm⟩ | hw
        · exact ⟨es, (mem_qAdd _ _ evs h.sorted _ _).mpr (Or.inl ⟨hwv, hm⟩)⟩
        · exact absurd hw hwv
    rcases (hE b).mp hb with rfl | hb
    · exact key _ (Or.inr rfl)
    · exact key _ (Or.inl (h.regAll b hb))
  · intro v hv hx hst
    obtain ⟨es, hm⟩ := h.starts v hv hx hst
    by_cases hwv : v = a.rv
    · subst hwv
      exact ⟨_, (mem_qAdd _ _ evs h.sorted _ _).mpr (Or.inr ⟨rfl, Or.inl ⟨es, hm, rfl⟩⟩)⟩
    · exact ⟨es, (mem_qAdd _ _ evs h.sorted _ _).mpr (Or.inl ⟨hwv, hm⟩)⟩
  · intro b hb c hc h1 h2
    rcases (hE b).mp hb with rfl | hb
    · rcases (hE c).mp hc with rfl | hc
      · rfl
      · exact absurd ⟨h1.symm, h2.symm⟩ (hpair c hc)
    · rcases (hE c).mp hc with rfl | hc
      · exact absurd ⟨h1, h2⟩ (hpair b hb)
      · exact h.uniq b hb c hc h1 h2
  · intro b hb c hc h1
    rcases (hE b).mp hb with rfl | hb
    · rcases (hE c).mp hc with rfl | hc
      · rfl
      · exact absurd h1.symm (hid c hc)
    · rcases (hE c).mp hc with rfl | hc
      · exact absurd h1 (hid b hb)
      · exact h.idinj b hb c hc h1

/-! ### no vertex between the sweep line and the head of the queue -/

theorem adj_lt (hR : RingOK R V) {u v : Nat} (hu : u < R.n) (h : Adj R u v) : v < R.n := by
  rcases h with rfl | rfl
  · exact hR.nxt_lt u hu
  · exact hR.prv_lt u hu

theorem adj_symm (hR : RingOK R V) {u v : Nat} (hu : u < R.n) (h : Adj R u v) : Adj R v u := by
  rcases h with rfl | rfl
  · exact Or.inr (hR.prv_nxt u hu)
  · exact Or.inl (hR.nxt_prv u hu)

theorem no_gap (hR : RingOK R V) {xs : Rat} {E : List AE} {w : Nat} {es : List Nat}
    {rest : List (Nat × List Nat)} (h : QCore R xs E ((w, es) :: rest)) (hc : Cross R xs E) :
    ∀ v, v < R.n → xs < R.x v → R.x w ≤ R.x v := by
  have hhead : ∀ a ∈ rest, R.x w < R.x a.1 := (List.pairwise_cons.mp h.sorted).1
  have queued : ∀ v es', (v, es') ∈ (w, es) :: rest → R.x w ≤ R.x v := by
    intro v es' hm
    rcases List.mem_cons.mp hm with hm | hm
    · cases hm; exact le_refl _
    · exact le_of_lt (hhead _ hm)
  -- strong induction on the number of vertices to the left of `v`
  have main : ∀ k v, v < R.n →
      (List.range R.n).countP (fun i => decide (R.x i < R.x v)) = k → xs < R.x v → R.x w ≤ R.x v := by
    intro k
    induction k using Nat.strong_induction_on with
    | _ k ih =>
      intro v hv hk hx
      by_contra hlt
      have hlt : R.x v < R.x w := not_le.mp hlt
      have hp := hR.prv_lt v hv
      have hn := hR.nxt_lt v hv
      -- a neighbour to the left of `v`
      have step : ∀ u, u < R.n → Adj R v u → R.x u < R.x v → False := by
        intro u hu hadj hux
        by_cases hus : R.x u ≤ xs
        · obtain ⟨a, ha, h1, h2⟩ := hc u v hu hv (adj_symm hR hv hadj) hus hx
          obtain ⟨es', hm⟩ := h.regAll a ha
          rw [h2] at hm
          exact absurd (queued v es' hm) (not_le.mpr hlt)
        · have hus : xs < R.x u := not_le.mp hus
          have hcnt : (List.range R.n).countP (fun i => decide (R.x i < R.x u)) < k := by
            rw [← hk]
            apply SweepEvents.countP_lt_countP
            · intro i _ hi
              simp only [decide_eq_true_eq] at hi ⊢
              exact lt_trans hi hux
            · exact ⟨u, List.mem_range.mpr hu, by simpa using hux, by simp⟩
          have := ih _ hcnt u hu rfl hus
          exact absurd (lt_trans hux hlt) (not_lt.mpr this)
      by_cases hst : IsStart R v
      · obtain ⟨es', hm⟩ := h.starts v hv hx hst
        exact absurd (queued v es' hm) (not_le.mpr hlt)
      · unfold IsStart at hst
        rw [not_and_or] at hst
        rcases hst with hst | hst
        · have hne : R.x (R.prv v) ≠ R.x v := by
            intro he
            have := hR.distinct _ _ hp hv he
            have h2 := hR.nxt_prv v hv
            rw [this] at h2
            exact hR.ne v hv (this.trans h2.symm)
          exact step _ hp (Or.inr rfl) (lt_of_le_of_ne (not_lt.mp hst) hne)
        · have hne : R.x (R.nxt v) ≠ R.x v := by
            intro he
            have := hR.distinct _ _ hn hv he
            have h2 := hR.prv_nxt v hv
            rw [this] at h2
            exact hR.ne v hv (h2.trans this.symm)
          exact step _ hn (Or.inl rfl) (lt_of_le_of_ne (not_lt.mp hst) hne)
  intro v hv hx
  exact main _ v hv rfl hx

/-- the crossing edges after the event at `w` -/
theorem cross_step (hR : RingOK R V) {xs : Rat} {E E' new : List AE} {w : Nat}
    (hw : w < R.n) (hxw : xs < R.x w) (hc : Cross R xs E)
    (hgap : ∀ v, v < R.n → xs < R.x v → R.x w ≤ R.x v)
    (hE : ∀ a, a ∈ E' ↔ (a ∈ E ∧ a.rv ≠ w) ∨ a ∈ new)
    (hnew : ∀ v, v < R.n → Adj R w v → R.x w < R.x v → ∃ a ∈ new, a.lv = w ∧ a.rv = v) :
    Cross R (R.x w) E' := by
  intro u v hu hv hadj hux hxv
  by_cases huw : u = w
  · subst huw
    obtain ⟨a, ha, h1, h2⟩ := hnew v hv hadj hxv
    exact ⟨a, (hE a).mpr (Or.inr ha), h1, h2⟩
  · have hne : R.x u ≠ R.x w := fun he => huw (hR.distinct u w hu hw he)
    have hlt : R.x u < R.x w := lt_of_le_of_ne hux hne
    have hus : R.x u ≤ xs := by
      by_contra hcon
      exact absurd (hgap u hu (not_le.mp hcon)) (not_le.mpr hlt)
    obtain ⟨a, ha, h1, h2⟩ := hc u v hu hv hadj hus (lt_trans hxw hxv)
    refine ⟨a, (hE a).mpr (Or.inl ⟨ha, ?_⟩), h1, h2⟩
    rw [h2]
    rintro rfl
    exact lt_irrefl _ hxv

end Cav.GenQueue
