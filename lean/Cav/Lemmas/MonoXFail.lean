/-
  (X2) The Bend at which the look-ahead test `willOverlapTop` / `willOverlapBot` fires: the new
  edge and its partner are in the wrong order at the nearer of their right end points, and the
  handler throws `.overlap .bend p`.
-/
import Cav.Lemmas.MonoEvents
import Cav.Lemmas.MonoFlows

set_option linter.unusedSimpArgs false
set_option linter.unusedVariables false

namespace Cav.MonoXFail
open Cav Num Cav.Geo Cav.Sweep Cav.SweepRun Cav.TriRun Cav.QuadRun Cav.TriEvents Cav.QuadGeom
open Cav.CvxHeap Cav.CvxEvents Cav.CvxFlows Cav.MonoHeap Cav.MonoEvents

section
variable (V : Array (Vtx XQ)) (x : XQ) (N N2 : Array (Node XQ)) (rm iB iT : Nat)
  (B T p q1 q2 rp rO : Pt XQ) (vi pr nx r vO : Nat) (a1 a2 a3 a4 a5 a6 a7 a8 : Nat)
  (out ts : List Tri) (mx : XQ) (hB hT : Node XQ) (u1 u2 u3 u4 : Option Nat)

/-- Bend on the bottom chain: the new bottom edge is not below the top edge at the nearer right
    end point -/
theorem bendB_fail
    (hNB : N[iB]? = some hB)
    (hbt : (backTriangulate ⟨N.size, N.size, iT⟩ false).run
        (stC V p.x (appH N iB hB p) N.size N.size iT p rO [(vO, [1])] out) =
        .ok ((), stC V p.x N2 N.size N.size iT p rO [(vO, [1])] (ts ++ out)))
    (l1 : N2[N.size]? = some ⟨p, u1, u2⟩) (l2 : N2[iT]? = some ⟨T, u3, u4⟩)
    (hv : V[vi]? = some ⟨p, pr, nx⟩) (h1 : V[pr]? = some ⟨q1, a1, a2⟩)
    (h2 : V[nx]? = some ⟨q2, a3, a4⟩)
    (hft : fromTriplet p q1 q2 = some .bend)
    (hr : (if q1.ge q2 = true then pr else nx) = r) (hrp : V[r]? = some ⟨rp, a5, a6⟩)
    (hO : V[vO]? = some ⟨rO, a7, a8⟩)
    (hfin : Num.isFinite mx = true)
    (hx : ofEq rp.x p.x = false)
    (hmx : minTotal rp.x rO.x = mx)
    (hxe : ofEq rp.x rO.x = false) (hov : cmpAtP p rp T rO mx true = .gt) :
    Runs (stC V x N rm iB iT p rO [(vi, [0]), (vO, [1])] out)
      (.error (.overlap .bend p)) handleNext := by
  unfold stC at hbt
  unfold stC handleNext
  sm_steps [hv, h1, h2, hft]
  unfold handleBend
  sm_steps [hv, h1, h2, hft, hr, hrp, hO, hx, verticalIsCrossed, verticalIsCrossed.go]
  sm_by (run_chainAppend_head _ _ _ _ hNB)
  sm_bind
  sm_by hbt
  sm_steps [hrp, hr, hxe, hmx, hov, hfin, l1, l2, willOverlapBot, willOverlapTop, run_cmpAt, lpt?, lptD]
  exact Runs.final (by rw [run_bind]; rfl)

/-- Bend on the top chain: the new top edge is not above the bottom edge at the nearer right end
    point -/
theorem bendT_fail
    (hNT : N[iT]? = some hT)
    (hbt : (backTriangulate ⟨N.size, iB, N.size⟩ true).run
        (stC V p.x (appT N iT hT p) N.size iB N.size rO p [(vO, [0])] out) =
        .ok ((), stC V p.x N2 N.size iB N.size rO p [(vO, [0])] (ts ++ out)))
    (l1 : N2[iB]? = some ⟨B, u1, u2⟩) (l2 : N2[N.size]? = some ⟨p, u3, u4⟩)
    (hv : V[vi]? = some ⟨p, pr, nx⟩) (h1 : V[pr]? = some ⟨q1, a1, a2⟩)
    (h2 : V[nx]? = some ⟨q2, a3, a4⟩)
    (hft : fromTriplet p q1 q2 = some .bend)
    (hr : (if q1.ge q2 = true then pr else nx) = r) (hrp : V[r]? = some ⟨rp, a5, a6⟩)
    (hO : V[vO]? = some ⟨rO, a7, a8⟩)
    (hfin : Num.isFinite mx = true)
    (hx : ofEq rp.x p.x = false)
    (hmx : minTotal rp.x rO.x = mx)
    (hxe : ofEq rp.x rO.x = false) (hov : cmpAtP p rp B rO mx true = .lt) :
    Runs (stC V x N rm iB iT rO p [(vi, [1]), (vO, [0])] out)
      (.error (.overlap .bend p)) handleNext := by
  unfold stC at hbt
  unfold stC handleNext
  sm_steps [hv, h1, h2, hft]
  unfold handleBend
  sm_steps [hv, h1, h2, hft, hr, hrp, hO, hx, verticalIsCrossed, verticalIsCrossed.go]
  sm_by (run_chainAppend_tail _ _ _ _ hNT)
  sm_bind
  sm_by hbt
  sm_steps [hrp, hr, hxe, hmx, hov, hfin, l1, l2, willOverlapBot, willOverlapTop, run_cmpAt, lpt?, lptD]
  exact Runs.final (by rw [run_bind]; rfl)

end

/-! ### at finite points -/

section
variable (V : Array (Vtx XQ)) (x : XQ) (N N2 : Array (Node XQ)) (rm iB iT : Nat)
  (B T p rp rO : Rat × Rat) (vi vB r vO n1 n2 a1 a2 a5 a6 a7 a8 : Nat) (out ts : List Tri)
  (hBn hTn : Node XQ) (u1 u2 u3 u4 : Option Nat)

theorem bendB_failF
    (hNB : N[iB]? = some hBn)
    (hbt : (backTriangulate ⟨N.size, N.size, iT⟩ false).run
        (stC V (.fin p.1) (appH N iB hBn (Fq p)) N.size N.size iT (Fq p) (Fq rO) [(vO, [1])] out) =
        .ok ((), stC V (.fin p.1) N2 N.size N.size iT (Fq p) (Fq rO) [(vO, [1])] (ts ++ out)))
    (l1 : N2[N.size]? = some ⟨Fq p, u1, u2⟩) (l2 : N2[iT]? = some ⟨Fq T, u3, u4⟩)
    (hv : V[vi]? = some ⟨Fq p, n1, n2⟩) (hn : Nbrs n1 n2 vB r)
    (hB : V[vB]? = some ⟨Fq B, a1, a2⟩) (hrp : V[r]? = some ⟨Fq rp, a5, a6⟩)
    (hO : V[vO]? = some ⟨Fq rO, a7, a8⟩)
    (hBp : B.1 < p.1) (hpr : p.1 < rp.1) (hTO : T.1 < rO.1) (hTp : T.1 ≤ p.1) (hpO : p.1 < rO.1)
    (hbad : (rp.1 < rO.1 ∧ 0 < orient T rO rp) ∨ (rO.1 < rp.1 ∧ orient p rp rO < 0)) :
    Runs (stC V x N rm iB iT (Fq p) (Fq rO) [(vi, [0]), (vO, [1])] out)
      (.error (.overlap .bend (Fq p))) handleNext := by
  have hx : ofEq (Fq rp).x (Fq p).x = false := by simp [ne_of_gt hpr]
  obtain ⟨f1, f2⟩ := ft_bend B p rp hBp hpr
  have hxe : ofEq (Fq rp).x (Fq rO).x = false := by
    rcases hbad with ⟨h, -⟩ | ⟨h, -⟩
    · simp [ne_of_lt h]
    · simp [ne_of_gt h]
  have hov : cmpAtP (Fq p) (Fq rp) (Fq T) (Fq rO) (XQ.fin (min rp.1 rO.1)) true = .gt := by
    rcases hbad with ⟨h, ho⟩ | ⟨h, ho⟩
    · rw [min_eq_left (le_of_lt h)]
      exact cmpAt_keyEnd_gt p rp T rO hpr hTO (by linarith) (le_of_lt h) ho
    · rw [min_eq_right (le_of_lt h)]
      exact cmpAt_otherEnd_gt p rp T rO hpr hTO (le_of_lt hpO) (le_of_lt h) ho
  rcases hn with ⟨rfl, rfl⟩ | ⟨rfl, rfl⟩
  · exact bendB_fail V x N N2 rm iB iT (Fq T) (Fq p) (Fq B) (Fq rp) (Fq rp) (Fq rO) vi n1 n2 n2 vO
      a1 a2 a5 a6 a5 a6 a7 a8 out ts (XQ.fin (min rp.1 rO.1)) hBn u1 u2 u3 u4 hNB hbt l1 l2 hv hB hrp f1
      (by rw [ge_false B rp (lt_trans hBp hpr)]; simp) hrp hO rfl hx (minTotal_fin _ _) hxe hov
  · exact bendB_fail V x N N2 rm iB iT (Fq T) (Fq p) (Fq rp) (Fq B) (Fq rp) (Fq rO) vi n1 n2 n1 vO
      a5 a6 a1 a2 a5 a6 a7 a8 out ts (XQ.fin (min rp.1 rO.1)) hBn u1 u2 u3 u4 hNB hbt l1 l2 hv hrp hB f2
      (by rw [ge_true B rp (lt_trans hBp hpr)]; simp) hrp hO rfl hx (minTotal_fin _ _) hxe hov

theorem bendT_failF
    (hNT : N[iT]? = some hTn)
    (hbt : (backTriangulate ⟨N.size, iB, N.size⟩ true).run
        (stC V (.fin p.1) (appT N iT hTn (Fq p)) N.size iB N.size (Fq rO) (Fq p) [(vO, [0])] out) =
        .ok ((), stC V (.fin p.1) N2 N.size iB N.size (Fq rO) (Fq p) [(vO, [0])] (ts ++ out)))
    (l1 : N2[iB]? = some ⟨Fq B, u1, u2⟩) (l2 : N2[N.size]? = some ⟨Fq p, u3, u4⟩)
    (hv : V[vi]? = some ⟨Fq p, n1, n2⟩) (hn : Nbrs n1 n2 vB r)
    (hTv : V[vB]? = some ⟨Fq T, a1, a2⟩) (hrp : V[r]? = some ⟨Fq rp, a5, a6⟩)
    (hO : V[vO]? = some ⟨Fq rO, a7, a8⟩)
    (hTp : T.1 < p.1) (hpr : p.1 < rp.1) (hBO : B.1 < rO.1) (hBp : B.1 ≤ p.1) (hpO : p.1 < rO.1)
    (hbad : (rp.1 < rO.1 ∧ orient B rO rp < 0) ∨ (rO.1 < rp.1 ∧ 0 < orient p rp rO)) :
    Runs (stC V x N rm iB iT (Fq rO) (Fq p) [(vi, [1]), (vO, [0])] out)
      (.error (.overlap .bend (Fq p))) handleNext := by
  have hx : ofEq (Fq rp).x (Fq p).x = false := by simp [ne_of_gt hpr]
  obtain ⟨f1, f2⟩ := ft_bend T p rp hTp hpr
  have hxe : ofEq (Fq rp).x (Fq rO).x = false := by
    rcases hbad with ⟨h, -⟩ | ⟨h, -⟩
    · simp [ne_of_lt h]
    · simp [ne_of_gt h]
  have hov : cmpAtP (Fq p) (Fq rp) (Fq B) (Fq rO) (XQ.fin (min rp.1 rO.1)) true = .lt := by
    rcases hbad with ⟨h, ho⟩ | ⟨h, ho⟩
    · rw [min_eq_left (le_of_lt h)]
      exact cmpAt_keyEnd_lt p rp B rO hpr hBO (by linarith) (le_of_lt h) ho
    · rw [min_eq_right (le_of_lt h)]
      exact cmpAt_otherEnd_lt p rp B rO hpr hBO (le_of_lt hpO) (le_of_lt h) ho
  rcases hn with ⟨rfl, rfl⟩ | ⟨rfl, rfl⟩
  · exact bendT_fail V x N N2 rm iB iT (Fq B) (Fq p) (Fq T) (Fq rp) (Fq rp) (Fq rO) vi n1 n2 n2 vO
      a1 a2 a5 a6 a5 a6 a7 a8 out ts (XQ.fin (min rp.1 rO.1)) hTn u1 u2 u3 u4 hNT hbt l1 l2 hv hTv hrp f1
      (by rw [ge_false T rp (lt_trans hTp hpr)]; simp) hrp hO rfl hx (minTotal_fin _ _) hxe hov
  · exact bendT_fail V x N N2 rm iB iT (Fq B) (Fq p) (Fq rp) (Fq T) (Fq rp) (Fq rO) vi n1 n2 n1 vO
      a5 a6 a1 a2 a5 a6 a7 a8 out ts (XQ.fin (min rp.1 rO.1)) hTn u1 u2 u3 u4 hNT hbt l1 l2 hv hrp hTv f2
      (by rw [ge_true T rp (lt_trans hTp hpr)]; simp) hrp hO rfl hx (minTotal_fin _ _) hxe hov

end

end Cav.MonoXFail
