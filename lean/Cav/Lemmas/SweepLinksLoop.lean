/-
  Partner links and the `RefCell` borrow panic, part 3: one pass of `handle_next`, the event
  loop and the whole model.  A borrow panic can only be raised in a pass that starts from a
  state in which the cell of an edge registered with the vertex being handled is its own
  partner or has two equal partners.
-/
import Cav.Lemmas.SweepLinksPass

set_option linter.unusedSectionVars false
set_option linter.unusedVariables false

namespace Cav.SweepLinks
open Cav Num Cav.Sweep Cav.SweepRun Cav.SweepHoare Cav.SweepHeap Cav.SweepSetup

variable {α : Type} [Num α] {r : List Nat} {V : Array (Vtx α)} {N C D : Nat} {E : SErr α → Prop}

macro "pl_auto_inline" : tactic => `(tactic| repeat (first | jp_inline | pl_step))

theorem handleStart_wsa (hE : OkErr E) (p : Pt α) (lp1 lp2 : Nat) (h1 : lp1 < V.size)
    (h2 : lp2 < V.size) :
    PL (WS r V) (W V) N C D E (fun _ _ _ _ => True) (handleStart p lp1 lp2 : SM α _) :=
  handleStart_nb hE p lp1 lp2 h1 h2

theorem handleBend_wsa (hE : OkErr E) (p : Pt α) (lp1 lp2 : Nat) (h1 : lp1 < V.size)
    (h2 : lp2 < V.size) (hr : ∀ e ∈ r, e < D) :
    PL (WS r V) (W V) N C D E (fun _ _ _ _ => True) (handleBend p lp1 lp2 r : SM α _) :=
  handleBend_nb hE p lp1 lp2 h1 h2 hr

theorem handleEnd_wsa (hE : OkErr E) (p : Pt α) (hr : ∀ e ∈ r, e < D) :
    PL (WS r V) (W V) N C D E (fun _ _ _ _ => True) (handleEnd p r : SM α _) :=
  handleEnd_nb hE p hr

/-- one pass from a well-formed heap with `SOk` cells for the registered edges `r` -/
theorem nextBody_nb (hE : OkErr E) (s0 : St α) (hs0 : WS r V N C D s0) (lp : Nat)
    (rest : List (Nat × List Nat)) (hlp : lp < V.size) (hr : ∀ e ∈ r, e < D)
    (hrest : ∀ ev ∈ rest, EvOk V.size D ev) :
    PL (WS r V) (W V) N C D E (fun _ _ _ _ => True) (nextBody s0 lp r rest) := by
  unfold nextBody; pl_auto_inline

/-- anything but the borrow panic -/
def NotBorrow (e : SErr α) : Prop := e ≠ .panic "borrow"

theorem okErr_notBorrow : OkErr (NotBorrow : SErr α → Prop) := by
  refine ⟨?_, ?_, ?_⟩
  · intro k p h; cases h
  · intro p h; cases h
  · intro h
    have : ("index" : String) = "borrow" := by injection h
    exact absurd this (by decide)

/-- the states at which a pass of `handle_next` starts, from `s` on -/
inductive Steps : St α → St α → Prop
  | refl (s : St α) : Steps s s
  | step {s s1 s2 : St α} : (handleNext : SM α Unit).run s = .ok ((), s1) → Steps s1 s2 → Steps s s2

/-- the cells of the edges registered with the head of the queue are `SOk` -/
def HeadOk (s : St α) : Prop :=
  match s.events with
  | [] => True
  | (_, r) :: _ => SOn r s

/-- **a borrow panic needs a bad cell**: if the event loop raises the borrow panic from a
    well-formed heap, some pass started from a state in which the cell of an edge registered with
    the vertex being handled is its own partner or has two equal partners -/
theorem loop_borrow (fuel : Nat) : ∀ (s : St α), HeapWF V s →
    (loop fuel : SM α Unit).run s = .error (.panic "borrow") → ∃ s', Steps s s' ∧ ¬ HeadOk s' := by
  induction fuel with
  | zero =>
    intro s _ h
    unfold loop at h
    cases h
  | succ fuel ih =>
    rintro s ⟨N, C, D, hs⟩ h
    by_cases hok : HeadOk s
    · unfold loop at h
      rw [run_bind, run_get] at h
      simp only at h
      cases hev : s.events with
      | nil =>
        rw [hev] at h
        simp only [List.isEmpty_nil, if_true] at h
        cases h
      | cons a rest =>
        obtain ⟨lp, r⟩ := a
        rw [hev] at h
        simp only [List.isEmpty_cons, Bool.false_eq_true, if_false] at h
        rw [run_bind] at h
        have hhead : EvOk V.size D (lp, r) := hs.events _ (by rw [hev]; exact List.mem_cons_self)
        have hson : SOn r s := by
          unfold HeadOk at hok; rw [hev] at hok; exact hok
        have hb := nextBody_nb (E := NotBorrow) okErr_notBorrow s ⟨hs, hson⟩ lp rest hhead.1
          hhead.2 (fun ev hev' => hs.events ev (by rw [hev]; exact List.mem_cons_of_mem _ hev'))
        cases hh : (handleNext : SM α Unit).run s with
        | error e =>
          rw [hh] at h
          simp only [Except.error.injEq] at h
          rw [handleNext_run_cons hev] at hh
          exact absurd h (hb.err ⟨hs, hson⟩ hh)
        | ok q =>
          obtain ⟨u, s1⟩ := q
          rw [hh] at h
          simp only at h
          have hh' := hh
          rw [handleNext_run_cons hev] at hh'
          obtain ⟨N', C', D', -, -, -, hw, -⟩ := hb.ok ⟨hs, hson⟩ hh'
          obtain ⟨s', hst, hbad⟩ := ih s1 ⟨N', C', D', hw⟩ h
          exact ⟨s', Steps.step hh hst, hbad⟩
    · exact ⟨s, Steps.refl s, hok⟩

/-- the same for the whole model -/
theorem sweep_borrow {polys : List (Array (Pt α))}
    (h : sweep polys = .error (.panic "borrow")) :
    ∃ seen s0 s', (forIn polys ([] : List (Pt α)) polyBody).run (initSt : St α) = .ok (seen, s0) ∧
      Steps s0 s' ∧ ¬ HeadOk s' := by
  unfold sweep at h
  rw [run_eq] at h
  have hsetup := forIn_list_pres (I := SetupOK) (E := NoPanic) polyBody polyBody_sw polys
    ([] : List (Pt α))
  cases hr : (forIn polys ([] : List (Pt α)) polyBody).run (initSt : St α) with
  | error e =>
    rw [hr] at h
    simp only [Except.error.injEq] at h
    exact absurd h (hsetup.err setupOK_init hr "borrow")
  | ok q =>
    obtain ⟨seen, s1⟩ := q
    rw [hr] at h
    simp only at h
    have hok := (hsetup.ok setupOK_init hr).1
    cases hl : (loop (s1.verts.size + 1)).run s1 with
    | error e =>
      rw [hl] at h
      simp only [Except.error.injEq] at h
      subst h
      obtain ⟨s', hst, hbad⟩ := loop_borrow (V := s1.verts) _ s1 ⟨0, 0, 0, w_of_setupOK hok⟩ hl
      exact ⟨seen, s1, s', rfl, hst, hbad⟩
    | ok q2 => rw [hl] at h; cases h


/-! ### an executable monitor -/

/-- `SOk` as a Boolean -/
def sokB (i : Nat) (e : Edge α) : Bool :=
  e.bPart != some i && e.tPart != some i &&
    (match e.bPart, e.tPart with
     | some a, some b => a != b
     | _, _ => true)

theorem sOk_of_sokB {i : Nat} {e : Edge α} (h : sokB i e = true) : SOk i e := by
  unfold sokB at h
  simp only [Bool.and_eq_true, bne_iff_ne, ne_eq] at h
  obtain ⟨⟨h1, h2⟩, h3⟩ := h
  refine ⟨h1, h2, ?_⟩
  intro j hj hj'
  rw [hj, hj'] at h3
  simp at h3

/-- `HeadOk` as a Boolean -/
def headOkB (s : St α) : Bool :=
  match s.events with
  | [] => true
  | (_, r) :: _ => r.all fun i =>
    match s.edges[i]? with
    | none => true
    | some e => sokB i e

theorem headOk_of_headOkB {s : St α} (h : headOkB s = true) : HeadOk s := by
  unfold headOkB at h
  unfold HeadOk
  cases hev : s.events with
  | nil => trivial
  | cons a rest =>
    obtain ⟨u, r⟩ := a
    rw [hev] at h
    simp only [List.all_eq_true] at h
    intro i hi e he
    have := h i hi
    rw [he] at this
    exact sOk_of_sokB this

/-- the monitor along the event loop: every pass starts from a state with `headOkB` -/
def loopChk : Nat → St α → Bool
  | 0, _ => true
  | fuel + 1, s =>
    if s.events.isEmpty then true
    else headOkB s &&
      (match (handleNext : SM α Unit).run s with
       | .ok (_, s') => loopChk fuel s'
       | .error _ => true)

/-- the monitor for the whole model: set-up, then `loopChk` -/
def sweepChk (polys : List (Array (Pt α))) : Bool :=
  match (forIn polys ([] : List (Pt α)) polyBody).run (initSt : St α) with
  | .ok (_, s) => loopChk (s.verts.size + 1) s
  | .error _ => true

theorem loop_no_borrow_of_chk (fuel : Nat) : ∀ (s : St α), HeapWF V s → loopChk fuel s = true →
    (loop fuel : SM α Unit).run s ≠ .error (.panic "borrow") := by
  induction fuel with
  | zero =>
    intro s _ _ h
    unfold loop at h
    cases h
  | succ fuel ih =>
    rintro s ⟨N, C, D, hs⟩ hchk h
    unfold loop at h
    rw [run_bind, run_get] at h
    simp only at h
    unfold loopChk at hchk
    cases hev : s.events with
    | nil =>
      rw [hev] at h
      simp only [List.isEmpty_nil, if_true] at h
      cases h
    | cons a rest =>
      obtain ⟨lp, r⟩ := a
      rw [hev] at h
      simp only [List.isEmpty_cons, Bool.false_eq_true, if_false] at h
      rw [run_bind] at h
      simp only [hev, List.isEmpty_cons, Bool.false_eq_true, if_false, Bool.and_eq_true] at hchk
      obtain ⟨hhd, htl⟩ := hchk
      have hson : SOn r s := by
        have := headOk_of_headOkB hhd
        unfold HeadOk at this; rw [hev] at this; exact this
      have hhead : EvOk V.size D (lp, r) := hs.events _ (by rw [hev]; exact List.mem_cons_self)
      have hb := nextBody_nb (E := NotBorrow) okErr_notBorrow s ⟨hs, hson⟩ lp rest hhead.1
        hhead.2 (fun ev hev' => hs.events ev (by rw [hev]; exact List.mem_cons_of_mem _ hev'))
      cases hh : (handleNext : SM α Unit).run s with
      | error e =>
        rw [hh] at h
        simp only [Except.error.injEq] at h
        rw [handleNext_run_cons hev] at hh
        exact absurd h (hb.err ⟨hs, hson⟩ hh)
      | ok q =>
        obtain ⟨u, s1⟩ := q
        rw [hh] at h htl
        simp only at h htl
        rw [handleNext_run_cons hev] at hh
        obtain ⟨N', C', D', -, -, -, hw, -⟩ := hb.ok ⟨hs, hson⟩ hh
        exact ih s1 ⟨N', C', D', hw⟩ htl h

/-- **no borrow panic when the monitor holds** (any `Num` instance) -/
theorem sweep_no_borrow_of_chk {polys : List (Array (Pt α))} (hchk : sweepChk polys = true) :
    sweep polys ≠ .error (.panic "borrow") := by
  intro h
  unfold sweep at h
  rw [run_eq] at h
  have hsetup := forIn_list_pres (I := SetupOK) (E := NoPanic) polyBody polyBody_sw polys
    ([] : List (Pt α))
  unfold sweepChk at hchk
  cases hr : (forIn polys ([] : List (Pt α)) polyBody).run (initSt : St α) with
  | error e =>
    rw [hr] at h
    simp only [Except.error.injEq] at h
    exact absurd h (hsetup.err setupOK_init hr "borrow")
  | ok q =>
    obtain ⟨seen, s1⟩ := q
    rw [hr] at h hchk
    simp only at h hchk
    have hok := (hsetup.ok setupOK_init hr).1
    cases hl : (loop (s1.verts.size + 1)).run s1 with
    | error e =>
      rw [hl] at h
      simp only [Except.error.injEq] at h
      subst h
      exact loop_no_borrow_of_chk (V := s1.verts) _ s1 ⟨0, 0, 0, w_of_setupOK hok⟩ hchk hl
    | ok q2 => rw [hl] at h; cases h


/-! ### the natural invariant implies the monitor -/

/-- the partner links describe the active list in stored order (no edge twice): the cell of the
    `k`-th active edge has the `k-1`-th as bottom and the `k+1`-th as top partner -/
def Links (s : St α) : Prop :=
  s.active.Nodup ∧ ∀ (k a : Nat), s.active[k]? = some a → ∃ e, s.edges[a]? = some e ∧
    e.bPart = (if k = 0 then none else s.active[k - 1]?) ∧ e.tPart = s.active[k + 1]?

theorem nodup_getElem?_inj {l : List Nat} (h : l.Nodup) {i j a : Nat} (hi : l[i]? = some a)
    (hj : l[j]? = some a) : i = j := by
  have hi' : i < l.length := by
    rcases Nat.lt_or_ge i l.length with h' | h'
    · exact h'
    · rw [List.getElem?_eq_none h'] at hi; cases hi
  have hj' : j < l.length := by
    rcases Nat.lt_or_ge j l.length with h' | h'
    · exact h'
    · rw [List.getElem?_eq_none h'] at hj; cases hj
  rw [List.getElem?_eq_getElem hi'] at hi
  rw [List.getElem?_eq_getElem hj'] at hj
  exact (List.getElem_inj h).mp (by
    rw [Option.some.inj hi, Option.some.inj hj])

/-- if the links describe the active list and the edges registered with the head of the queue
    are active, the monitor holds -/
theorem headOk_of_links {s : St α} (hl : Links s)
    (hreg : ∀ u r rest, s.events = (u, r) :: rest → ∀ i ∈ r, i ∈ s.active) : HeadOk s := by
  unfold HeadOk
  cases hev : s.events with
  | nil => trivial
  | cons a rest =>
    obtain ⟨u, r⟩ := a
    intro i hi e he
    obtain ⟨k, hk⟩ := List.getElem?_of_mem (hreg u r rest hev i hi)
    obtain ⟨e', he', hb, ht⟩ := hl.2 k i hk
    rw [he] at he'
    cases he'
    refine ⟨?_, ?_, ?_⟩
    · rw [hb]
      split
      · intro h; cases h
      · intro h
        have := nodup_getElem?_inj hl.1 h hk
        omega
    · rw [ht]
      intro h
      have := nodup_getElem?_inj hl.1 h hk
      omega
    · intro j hj
      rw [ht]
      rw [hb] at hj
      split at hj
      · cases hj
      · intro h
        have := nodup_getElem?_inj hl.1 hj h
        omega

end Cav.SweepLinks
