/-
  Failure side with equal abscissae, part 7: helpers for the Start event under `XInvV`.
  `startX_tests`: the comparisons of the model during a Start event from the order `BelowM` of the
  new active list; `vic_start`: the two calls of `verticalIsCrossed` (the lower new edge is never
  vertical; for a vertical upper new edge the call fires or no active edge passes strictly
  between its end points); `startV_eventsX`, `splitV_invX`: copies of `startV_events`,
  `splitV_inv` (`GenVStepStart.lean`) for `ShX`.
-/
import Cav.Lemmas.GenXVStepEnd
import Cav.Lemmas.GenVStepStart

set_option linter.unusedSimpArgs false
set_option linter.unusedVariables false

namespace Cav.GenXV
open Cav Num Cav.Geo Cav.Sweep Cav.TriRun Cav.QuadRun Cav.QuadGeom Cav.CvxFlows Cav.SweepOut
open Cav.GenNodes Cav.GenQuery Cav.GenGeom Cav.GenBend Cav.GenInv Cav.GenQueue Cav.GenOrder
open Cav.GenLinks Cav.GenStepBend Cav.GenStepEnd Cav.GenStart Cav.TriEvents Cav.GenStepStart Cav.GenStep
open Cav.GenVShear Cav.GenVBridge Cav.GenVInv Cav.GenXGeom

variable {R : RingQ} {ε : Rat} {Vε : Array (Vtx XQ)}

/-- the comparisons of the model during a Start event, in terms of the stored ids, from the order
    `BelowM` of the new active list -/
theorem startX_tests (hSh : ShX R ε Vε) {x0 X0 : Rat} (hc : Cpl R ε x0 X0) {P Q : List AE}
    (hid : ∀ a ∈ P ++ Q, ∀ b ∈ P ++ Q, a.id = b.id → a = b)
    {nB nT : AE} (hSp : ∀ a ∈ P ++ nB :: nT :: Q, Span (shearRing ε R) x0 a)
    (hPw : (P ++ nB :: nT :: Q).Pairwise (BelowM R X0)) :
    (∀ k ∈ P.map (·.id), cmpEdgeP (Fq (R.pt nB.lv)) (Fq (R.pt nB.rv)) (Lf R (P ++ Q) k) (Rf R (P ++ Q) k)
      (.fin X0) = .gt) ∧
    (∀ k ∈ Q.map (·.id), cmpEdgeP (Fq (R.pt nB.lv)) (Fq (R.pt nB.rv)) (Lf R (P ++ Q) k) (Rf R (P ++ Q) k)
      (.fin X0) = .lt) ∧
    (∀ k ∈ P.map (·.id), cmpEdgeP (Fq (R.pt nT.lv)) (Fq (R.pt nT.rv)) (Lf R (P ++ Q) k) (Rf R (P ++ Q) k)
      (.fin X0) = .gt) ∧
    (∀ k ∈ Q.map (·.id), cmpEdgeP (Fq (R.pt nT.lv)) (Fq (R.pt nT.rv)) (Lf R (P ++ Q) k) (Rf R (P ++ Q) k)
      (.fin X0) = .lt) ∧
    ((P ++ Q).map (·.id)).Pairwise (CmpLt (Lf R (P ++ Q)) (Rf R (P ++ Q)) (.fin X0)) ∧
    cmpEdgeP (Fq (R.pt nB.lv)) (Fq (R.pt nB.rv)) (Fq (R.pt nT.lv)) (Fq (R.pt nT.rv)) (.fin X0) = .lt ∧
    cmpEdgeP (Fq (R.pt nT.lv)) (Fq (R.pt nT.rv)) (Fq (R.pt nB.lv)) (Fq (R.pt nB.rv)) (.fin X0) = .gt := by
  have hnB : Span (shearRing ε R) x0 nB := hSp nB (by simp)
  have hnT : Span (shearRing ε R) x0 nT := hSp nT (by simp)
  have hSP : ∀ a ∈ P, Span (shearRing ε R) x0 a := fun a ha => hSp a (List.mem_append_left _ ha)
  have hSQ : ∀ a ∈ Q, Span (shearRing ε R) x0 a := fun a ha =>
    hSp a (List.mem_append_right _ (List.mem_cons_of_mem _ (List.mem_cons_of_mem _ ha)))
  have cmp : ∀ {a b : AE}, Span (shearRing ε R) x0 a → Span (shearRing ε R) x0 b → BelowM R X0 a b →
      cmpEdgeP (Fq (R.pt a.lv)) (Fq (R.pt a.rv)) (Fq (R.pt b.lv)) (Fq (R.pt b.rv)) (.fin X0) = .lt ∧
      cmpEdgeP (Fq (R.pt b.lv)) (Fq (R.pt b.rv)) (Fq (R.pt a.lv)) (Fq (R.pt a.rv)) (.fin X0) = .gt :=
    fun sa sb hab => cmp_of_belowM (edge_lexX hSh sa) (edge_lexX hSh sb) (span_orig hc sa).1
      (span_orig hc sa).2 (span_orig hc sb).1 (span_orig hc sb).2 hab
  rw [List.pairwise_append] at hPw
  obtain ⟨hPP, hmid, hPX⟩ := hPw
  rw [List.pairwise_cons, List.pairwise_cons] at hmid
  obtain ⟨hB, hT, hQQ⟩ := hmid
  refine ⟨?_, ?_, ?_, ?_, ?_, ?_, ?_⟩
  · intro k hk
    obtain ⟨a, ha, rfl⟩ := List.mem_map.mp hk
    rw [Lf_id hid (List.mem_append_left _ ha), Rf_id hid (List.mem_append_left _ ha)]
    exact (cmp (hSP a ha) hnB (hPX a ha nB List.mem_cons_self)).2
  · intro k hk
    obtain ⟨a, ha, rfl⟩ := List.mem_map.mp hk
    rw [Lf_id hid (List.mem_append_right _ ha), Rf_id hid (List.mem_append_right _ ha)]
    exact (cmp hnB (hSQ a ha) (hB a (List.mem_cons_of_mem _ ha))).1
  · intro k hk
    obtain ⟨a, ha, rfl⟩ := List.mem_map.mp hk
    rw [Lf_id hid (List.mem_append_left _ ha), Rf_id hid (List.mem_append_left _ ha)]
    exact (cmp (hSP a ha) hnT (hPX a ha nT (List.mem_cons_of_mem _ List.mem_cons_self))).2
  · intro k hk
    obtain ⟨a, ha, rfl⟩ := List.mem_map.mp hk
    rw [Lf_id hid (List.mem_append_right _ ha), Rf_id hid (List.mem_append_right _ ha)]
    exact (cmp hnT (hSQ a ha) (hT a ha)).1
  · rw [List.pairwise_map]
    have hall : (P ++ Q).Pairwise (BelowM R X0) := by
      rw [List.pairwise_append]
      exact ⟨hPP, hQQ, fun a ha b hb =>
        hPX a ha b (List.mem_cons_of_mem _ (List.mem_cons_of_mem _ hb))⟩
    refine hall.imp_of_mem ?_
    intro a b ha hb hab
    have sa : Span (shearRing ε R) x0 a := by
      rcases List.mem_append.mp ha with h | h
      · exact hSP a h
      · exact hSQ a h
    have sb : Span (shearRing ε R) x0 b := by
      rcases List.mem_append.mp hb with h | h
      · exact hSP b h
      · exact hSQ b h
    show _ ∧ _
    rw [Lf_id hid ha, Rf_id hid ha, Lf_id hid hb, Rf_id hid hb]
    exact cmp sa sb hab
  · exact (cmp hnB hnT (hB nT List.mem_cons_self)).1
  · exact (cmp hnB hnT (hB nT List.mem_cons_self)).2

/-- the lower new edge of a Start vertex is not vertical -/
theorem start_nB {w wB wT : Nat} (hlB : lexLt (R.pt w) (R.pt wB)) (hlT : lexLt (R.pt w) (R.pt wT))
    (ho : 0 < orient (R.pt w) (R.pt wB) (R.pt wT)) : R.x w < R.x wB := by
  rcases hlB with n | ⟨vx, vy⟩
  · exact n
  · exfalso
    rw [QuadVGeom.orient_vert12 _ _ _ vx] at ho
    have h2 : 0 ≤ (R.pt wT).1 - (R.pt w).1 := sub_nonneg.mpr (QuadVGeom.lexLt_le hlT)
    nlinarith [mul_nonneg (le_of_lt (sub_pos.mpr vy)) h2]

/-- **the two calls of `verticalIsCrossed` at a Start vertex** -/
theorem vic_start (h : ShX R ε Vε) {P Q : List AE} {w wB wT : Nat} (hw : w < R.n)
    (hid : ∀ a ∈ P ++ Q, ∀ b ∈ P ++ Q, a.id = b.id → a = b) (nB : R.x w < R.x wB)
    (hPlow : ∀ a ∈ P, hY (shearRing ε R) a ((shearRing ε R).x w) < (R.pt w).2)
    (g3 : ∀ a ∈ P ++ Q, Span (shearRing ε R) ((shearRing ε R).x w) a) :
    (ofEq (Fq (R.pt wB)).x (Fq (R.pt w)).x = false ∨ ∀ k ∈ P.map (·.id) ++ Q.map (·.id),
      (ofLt (Fq (R.pt w)).y (yExtrap (Lf R (P ++ Q) k) (Rf R (P ++ Q) k) (Fq (R.pt w)).x true) &&
        ofLt (yExtrap (Lf R (P ++ Q) k) (Rf R (P ++ Q) k) (Fq (R.pt w)).x true) (Fq (R.pt wB)).y) = false) ∧
    ((ofEq (Fq (R.pt wT)).x (Fq (R.pt w)).x = true ∧ ∃ k ∈ P.map (·.id) ++ Q.map (·.id),
      (ofLt (Fq (R.pt w)).y (yExtrap (Lf R (P ++ Q) k) (Rf R (P ++ Q) k) (Fq (R.pt w)).x true) &&
        ofLt (yExtrap (Lf R (P ++ Q) k) (Rf R (P ++ Q) k) (Fq (R.pt w)).x true) (Fq (R.pt wT)).y) = true) ∨
     ((ofEq (Fq (R.pt wT)).x (Fq (R.pt w)).x = false ∨ ∀ k ∈ P.map (·.id) ++ Q.map (·.id),
      (ofLt (Fq (R.pt w)).y (yExtrap (Lf R (P ++ Q) k) (Rf R (P ++ Q) k) (Fq (R.pt w)).x true) &&
        ofLt (yExtrap (Lf R (P ++ Q) k) (Rf R (P ++ Q) k) (Fq (R.pt w)).x true) (Fq (R.pt wT)).y) = false) ∧
      (R.x wT = R.x w → ∀ b ∈ Q, NotBetween R w wT b))) := by
  refine ⟨Or.inl (GenStepBend.ofEq_x_false (ne_of_gt nB)), ?_⟩
  by_cases hvx : R.x wT = R.x w
  swap
  · exact Or.inr ⟨Or.inl (GenStepBend.ofEq_x_false hvx), fun e => absurd e hvx⟩
  by_cases hex : ∃ b ∈ Q, ¬ NotBetween R w wT b
  · left
    obtain ⟨b, hb, hnb⟩ := hex
    have hbm : b ∈ P ++ Q := List.mem_append_right _ hb
    refine ⟨?_, b.id, List.mem_append_right _ (List.mem_map_of_mem hb), ?_⟩
    · show ofEq (XQ.fin (R.pt wT).1) (XQ.fin (R.pt w).1) = true
      rw [ofEq_fin]; exact decide_eq_true hvx
    · rw [Lf_id hid hbm, Rf_id hid hbm, vic_bool h hw (g3 b hbm) wT]
      unfold NotBetween at hnb
      exact decide_eq_true (not_not.mp hnb)
  · right
    have hall : ∀ b ∈ Q, NotBetween R w wT b := by
      intro b hb
      by_contra hc
      exact hex ⟨b, hb, hc⟩
    refine ⟨Or.inr ?_, fun _ => hall⟩
    intro k hk
    rcases List.mem_append.mp hk with hk | hk
    · obtain ⟨x, hx, rfl⟩ := List.mem_map.mp hk
      have hxm : x ∈ P ++ Q := List.mem_append_left _ hx
      rw [Lf_id hid hxm, Rf_id hid hxm, vic_bool h hw (g3 x hxm) wT]
      apply decide_eq_false
      rintro ⟨h1, -⟩
      obtain ⟨na, hy⟩ := belowW_ptX h hw (g3 x hxm) (hPlow x hx)
      have : yM R x (R.x w) < (R.pt w).2 := by unfold yM; rw [yv_nonvert na]; exact hy
      exact lt_asymm h1 this
    · obtain ⟨x, hx, rfl⟩ := List.mem_map.mp hk
      have hxm : x ∈ P ++ Q := List.mem_append_right _ hx
      rw [Lf_id hid hxm, Rf_id hid hxm, vic_bool h hw (g3 x hxm) wT]
      exact decide_eq_false (hall x hx)

/-- the queue after the two insertions of a Start event -/
theorem startV_eventsX (hSh : ShX R ε Vε) {V : Array (Vtx XQ)} (hV : VGet R V) {xs : Rat} {E : List AE} {w wB wT : Nat}
    {es : List Nat} {rest : List (Nat × List Nat)} (hq : QCore (shearRing ε R) xs E ((w, es) :: rest))
    (hBn : wB < R.n) (hTn : wT < R.n) (D D' : Nat) :
    evAdd V (Fq (R.pt wT)) wT D' (evAdd V (Fq (R.pt wB)) wB D rest) = qAdd (shearRing ε R) wT D' (qAdd (shearRing ε R) wB D rest) := by
  have hrest : ∀ a ∈ rest, a.1 < R.n := fun a ha => (hq.gt a (List.mem_cons_of_mem _ ha)).1
  rw [evAddV_eq_qAddX hSh hV wB D hBn rest hrest]
  refine evAddV_eq_qAddX hSh hV wT D' hTn _ ?_
  intro a ha
  rcases key_qAdd wB D rest (List.Pairwise.of_cons hq.sorted) a ha with h | ⟨b, hb, e⟩
  · rw [h]; exact hBn
  · rw [← e]; exact hrest b hb

/-- the invariant after an improper Start, from the description of the new heap -/
theorem splitV_invX (hSh : ShX R ε Vε) {s s' : St XQ} {xs X : Rat} {pre post : List IV} {iv : IV}
    (hI : InvV R ε s xs X (pre ++ iv :: post))
    {w : Nat} {es : List Nat} {rest : List (Nat × List Nat)} (hev : s.events = (w, es) :: rest)
    (hwn : w < R.n) {wB wT : Nat} (hBn : wB < R.n) (hTn : wT < R.n) {c : Chain} {N4 : Array (Node XQ)}
    (hc : s.chains[iv.ci]? = some c)
    (hh : ptAt s.nodes c.head = some (Fq (R.pt iv.lo.lv)))
    (ht : ptAt s.nodes c.tail = some (Fq (R.pt iv.hi.lv)))
    (hN4 : NodesOk N4) (hsz4 : N4.size = s.nodes.size + 4)
    (hpt4 : ∀ i, i < s.nodes.size → ptAt N4 i = ptAt s.nodes i)
    (hp1 : ptAt N4 (s.nodes.size + 1) = some (Fq (R.pt w)))
    (hp2 : ptAt N4 (s.nodes.size + 2) = ptAt s.nodes c.rm)
    (hp3 : ptAt N4 (s.nodes.size + 3) = some (Fq (R.pt w)))
    (hv' : s'.verts = s.verts) (hm' : s'.mono = s.mono) (hx' : s'.x = .fin (R.x w))
    (hact' : s'.active = (flatE pre ++ [iv.lo]).map (·.id) ++ s.edges.size :: (s.edges.size + 1) ::
      (iv.hi :: flatE post).map (·.id))
    (hE' : s'.edges = splitE s.edges (Fq (R.pt wB)) (Fq (R.pt wT)) s.chains.size iv.lo.id iv.hi.id
      ⟨Fq (R.pt iv.lo.rv), iv.ci, true, lastHi pre none, some iv.hi.id⟩
      ⟨Fq (R.pt iv.hi.rv), iv.ci, false, some iv.lo.id, nxtLo post none⟩)
    (hC' : s'.chains = ((s.chains.push ⟨s.nodes.size, s.nodes.size, s.nodes.size⟩).push
        ⟨s.nodes.size + 1, c.head, s.nodes.size + 1⟩).push
        ⟨s.nodes.size + 1 + 2, s.nodes.size + 1 + 2,
          if c.tail = c.rm then s.nodes.size + 1 + 1 else c.tail⟩)
    (hNd' : s'.nodes = N4)
    (hEv' : s'.events = evAdd s.verts (Fq (R.pt wT)) wT (s.edges.size + 1)
      (evAdd s.verts (Fq (R.pt wB)) wB s.edges.size rest))
    (g5 : ∀ a ∈ (flatE pre ++ [iv.lo]) ++ (⟨s.edges.size, w, wB⟩ : AE) :: (⟨s.edges.size + 1, w, wT⟩ : AE) ::
      (iv.hi :: flatE post), Span (shearRing ε R) ((shearRing ε R).x w) a)
    (g6 : ((flatE pre ++ [iv.lo]) ++ (⟨s.edges.size, w, wB⟩ : AE) :: (⟨s.edges.size + 1, w, wT⟩ : AE) ::
      (iv.hi :: flatE post)).Pairwise (Below (shearRing ε R) ((shearRing ε R).x w)))
    (g7 : QCore (shearRing ε R) ((shearRing ε R).x w)
      ((flatE pre ++ [iv.lo]) ++ (⟨s.edges.size, w, wB⟩ : AE) :: (⟨s.edges.size + 1, w, wT⟩ : AE) ::
        (iv.hi :: flatE post))
      (qAdd (shearRing ε R) wT (s.edges.size + 1) (qAdd (shearRing ε R) wB s.edges.size rest)))
    (g8 : Cross (shearRing ε R) ((shearRing ε R).x w)
      ((flatE pre ++ [iv.lo]) ++ (⟨s.edges.size, w, wB⟩ : AE) :: (⟨s.edges.size + 1, w, wT⟩ : AE) ::
        (iv.hi :: flatE post))) :
    InvV R ε s' ((shearRing ε R).x w) (R.x w) (pre ++ ([⟨iv.lo, ⟨s.edges.size, w, wB⟩, s.chains.size + 1⟩,
      ⟨⟨s.edges.size + 1, w, wT⟩, iv.hi, s.chains.size + 1 + 1⟩] ++ post)) := by
  have hR := hSh.ring
  have hq := hI.q
  have hflat : flatE (pre ++ iv :: post) = (flatE pre ++ [iv.lo]) ++ iv.hi :: flatE post := by simp
  rw [hev, hflat] at hq
  have hid := hq.idinj
  have hlom : iv.lo ∈ (flatE pre ++ [iv.lo]) ++ iv.hi :: flatE post := by simp
  have hhim : iv.hi ∈ (flatE pre ++ [iv.lo]) ++ iv.hi :: flatE post := by simp
  have hnd : ((flatE pre ++ [iv.lo]) ++ iv.hi :: flatE post).Nodup := by
    have := nodup_of_pairwise_below hI.sorted
    rw [hflat] at this; exact this
  have hnd' : (flatE pre ++ iv.lo :: iv.hi :: flatE post).Nodup := by simpa using hnd
  obtain ⟨hlohi, hothers⟩ := nodup_mid hnd'
  have hidlt : ∀ a ∈ (flatE pre ++ [iv.lo]) ++ iv.hi :: flatE post, a.id < s.edges.size := by
    intro a ha
    rw [← hflat] at ha
    obtain ⟨e, he, -⟩ := Linked.eg hI.lk a ha
    exact lt_of_get' he
  have hidne : iv.lo.id ≠ iv.hi.id := fun e => hlohi (hid _ hlom _ hhim e)
  have hflat' : flatE (pre ++ ([(⟨iv.lo, ⟨s.edges.size, w, wB⟩, s.chains.size + 1⟩ : IV),
      ⟨⟨s.edges.size + 1, w, wT⟩, iv.hi, s.chains.size + 1 + 1⟩] ++ post)) =
      (flatE pre ++ [iv.lo]) ++ (⟨s.edges.size, w, wB⟩ : AE) :: (⟨s.edges.size + 1, w, wT⟩ : AE) ::
        (iv.hi :: flatE post) := by simp
  have hcilt : ∀ j ∈ pre ++ iv :: post, j.ci < s.chains.size := by
    intro j hj
    obtain ⟨_, _, -, -, c', hc', -⟩ := Linked.mem hI.lk j hj
    exact lt_of_get' hc'
  have hbblt := hidlt _ hlom
  have httlt := hidlt _ hhim
  refine ⟨by rw [hv']; exact hI.vget, by rw [hm']; exact hI.mono, fun _ => hx', ?_, ?_, ?_,
    by rw [hNd']; exact hN4, ?_, ?_, ?_, ?_, cpl_atX hSh hwn⟩
  · rw [hact', hflat']; simp
  · have := hI.cind
    rw [List.map_append, List.map_cons] at this
    have hfresh : ∀ k, s.chains.size ≤ k → k ∉ pre.map (·.ci) ++ post.map (·.ci) := by
      intro k hk hm
      rw [← List.map_append] at hm
      obtain ⟨j, hj, e⟩ := List.mem_map.mp hm
      have := hcilt j (by
        rcases List.mem_append.mp hj with h | h
        · exact List.mem_append_left _ h
        · exact List.mem_append_right _ (List.mem_cons_of_mem _ h))
      omega
    simp only [List.map_append, List.map_cons, List.map_nil, List.cons_append, List.nil_append]
    rw [List.nodup_append] at this ⊢
    obtain ⟨n1, n2, n3⟩ := this
    have n2' := (List.nodup_cons.mp n2).2
    refine ⟨n1, ?_, ?_⟩
    · refine List.nodup_cons.mpr ⟨?_, List.nodup_cons.mpr ⟨?_, n2'⟩⟩
      · intro h
        rcases List.mem_cons.mp h with h | h
        · omega
        · exact hfresh _ (by omega) (List.mem_append_right _ h)
      · intro h
        exact hfresh _ (by omega) (List.mem_append_right _ h)
    · intro a ha b hb
      rcases List.mem_cons.mp hb with rfl | hb
      · rintro rfl
        exact hfresh _ (by omega) (List.mem_append_left _ ha)
      · rcases List.mem_cons.mp hb with rfl | hb
        · rintro rfl
          exact hfresh _ (by omega) (List.mem_append_left _ ha)
        · exact n3 a ha b (List.mem_cons_of_mem _ hb)
  · refine Linked.splice (mid := [iv]) (by simpa using hI.lk) rfl rfl ?_
      (by rw [hNd']; omega) (by rw [hNd']; exact hpt4) ?_
    · intro j hj
      have hj' : j ∈ pre ++ iv :: post := by
        rcases List.mem_append.mp hj with h | h
        · exact List.mem_append_left _ h
        · exact List.mem_append_right _ (List.mem_cons_of_mem _ h)
      have hjm : j.lo ∈ flatE pre ++ flatE post ∧ j.hi ∈ flatE pre ++ flatE post := by
        have := mem_flatE_of hj
        rw [flatE_append] at this; exact this
      have hm1 : j.lo ∈ (flatE pre ++ [iv.lo]) ++ iv.hi :: flatE post := by
        rcases List.mem_append.mp hjm.1 with h | h
        · simp [h]
        · simp [h]
      have hm2 : j.hi ∈ (flatE pre ++ [iv.lo]) ++ iv.hi :: flatE post := by
        rcases List.mem_append.mp hjm.2 with h | h
        · simp [h]
        · simp [h]
      have n1 := hothers _ hjm.1
      have n2 := hothers _ hjm.2
      rw [hE', hC']
      refine ⟨?_, ?_, ?_⟩
      · exact splitE_old _ _ _ _ _ _ _ _ (hidlt _ hm1) (fun e => n1.1 (hid _ hm1 _ hlom e))
          (fun e => n1.2 (hid _ hm1 _ hhim e))
      · exact splitE_old _ _ _ _ _ _ _ _ (hidlt _ hm2) (fun e => n2.1 (hid _ hm2 _ hlom e))
          (fun e => n2.2 (hid _ hm2 _ hhim e))
      · have := hcilt j hj'
        rw [push_get_lt _ _ (by simp; omega), push_get_lt _ _ (by simp; omega), push_get_lt _ _ this]
    · -- the two new in-intervals
      refine ⟨?_, ?_, ?_, ?_, ?_, ?_, trivial⟩
      · unfold ECell
        rw [hE', splitE_bb _ _ _ _ _ _ _ _ hbblt httlt hidne]
      · unfold ECell
        rw [hE', splitE_D _ _ _ _ _ _ _ _ hbblt httlt]
        rfl
      · refine ⟨⟨s.nodes.size + 1, c.head, s.nodes.size + 1⟩, ?_, ?_, ?_, ?_⟩
        · rw [hC']
          exact push3_get1 _ _ _ _
        · rw [hNd']; show s.nodes.size + 1 < N4.size; omega
        · rw [hNd']; show ptAt N4 c.head = _
          rw [hpt4 _ (ptAt_some_lt hh)]; exact hh
        · rw [hNd']; exact hp1
      · unfold ECell
        rw [hE', splitE_D1]
        rfl
      · unfold ECell
        rw [hE', splitE_tt _ _ _ _ _ _ _ _ httlt]
        rfl
      · refine ⟨⟨s.nodes.size + 1 + 2, s.nodes.size + 1 + 2,
          if c.tail = c.rm then s.nodes.size + 1 + 1 else c.tail⟩, ?_, ?_, ?_, ?_⟩
        · rw [hC']
          exact push3_get2 _ _ _ _
        · rw [hNd']; show s.nodes.size + 1 + 2 < N4.size; omega
        · rw [hNd']; exact hp3
        · rw [hNd']; show ptAt N4 (if c.tail = c.rm then s.nodes.size + 1 + 1 else c.tail) = _
          by_cases e : c.tail = c.rm
          · rw [if_pos e, hp2, ← e]; exact ht
          · rw [if_neg e, hpt4 _ (ptAt_some_lt ht)]; exact ht
  · rw [hflat']; exact g5
  · rw [hflat']; exact g6
  · rw [hflat', hEv', startV_eventsX hSh hI.vget hq hBn hTn]
    exact g7
  · rw [hflat']; exact g8


end Cav.GenXV
