/-
  General sweep invariant, part 20: the Start event on the flat active list (`start_flat`): the new
  vertex lies strictly between a lower part `P` and an upper part `Q` of the active list; the two
  new edges are inserted between them.
-/
import Cav.Lemmas.GenStepEnd

set_option linter.unusedSimpArgs false
set_option linter.unusedVariables false

namespace Cav.GenStepStart
open Cav Num Cav.Geo Cav.Sweep Cav.TriRun Cav.QuadRun Cav.QuadGeom Cav.CvxFlows
open Cav.GenQuery Cav.GenGeom Cav.GenInv Cav.GenQueue Cav.GenOrder Cav.GenStepBend Cav.GenStepEnd

variable {R : RingQ} {V : Array (Vtx XQ)}

/-- a list strictly ordered by a height function splits at a height that is not taken -/
theorem split_at_height {β : Type} (f : β → Rat) (y : Rat) : ∀ (l : List β),
    l.Pairwise (fun a b => f a < f b) → (∀ a ∈ l, f a ≠ y) →
    ∃ P Q, l = P ++ Q ∧ (∀ a ∈ P, f a < y) ∧ (∀ a ∈ Q, y < f a)
  | [], _, _ => ⟨[], [], rfl, by simp, by simp⟩
  | a :: l, hp, hne => by
    rw [List.pairwise_cons] at hp
    rcases lt_or_gt_of_ne (hne a List.mem_cons_self) with h | h
    · obtain ⟨P, Q, e, h1, h2⟩ := split_at_height f y l hp.2
        (fun b hb => hne b (List.mem_cons_of_mem _ hb))
      refine ⟨a :: P, Q, by rw [e]; rfl, ?_, h2⟩
      intro b hb
      rcases List.mem_cons.mp hb with rfl | hb
      · exact h
      · exact h1 b hb
    · refine ⟨[], a :: l, rfl, by simp, ?_⟩
      intro b hb
      rcases List.mem_cons.mp hb with rfl | hb
      · exact h
      · exact lt_trans h (hp.1 b hb)


/-- the two neighbours of a Start vertex -/
theorem start_nbrs (hR : RingOK R V) {w wB wT : Nat} (hw : w < R.n)
    (hnb : (R.prv w = wB ∧ R.nxt w = wT) ∨ (R.prv w = wT ∧ R.nxt w = wB)) :
    wB < R.n ∧ wT < R.n ∧ Adj R w wB ∧ Adj R w wT ∧ wB ≠ wT ∧
      ∀ v, Adj R w v → v = wB ∨ v = wT := by
  rcases hnb with ⟨h1, h2⟩ | ⟨h1, h2⟩
  · refine ⟨by rw [← h1]; exact hR.prv_lt w hw, by rw [← h2]; exact hR.nxt_lt w hw, Or.inr h1,
      Or.inl h2, by rw [← h1, ← h2]; exact hR.ne w hw, ?_⟩
    intro v hv
    rcases adj_cases hv with h | h
    · right; rw [h, h2]
    · left; rw [h, h1]
  · refine ⟨by rw [← h2]; exact hR.nxt_lt w hw, by rw [← h1]; exact hR.prv_lt w hw, Or.inl h2,
      Or.inr h1, by rw [← h1, ← h2]; exact Ne.symm (hR.ne w hw), ?_⟩
    intro v hv
    rcases adj_cases hv with h | h
    · left; rw [h, h2]
    · right; rw [h, h1]

/-- **the Start event on the flat active list** -/
theorem start_flat (hR : RingOK R V) (hN : NoCross R) {xs : Rat} {E : List AE} {w wB wT : Nat}
    {es : List Nat} {rest : List (Nat × List Nat)} (idB idT : Nat)
    (hS : ∀ a ∈ E, Span R xs a) (hP : E.Pairwise (Below R xs))
    (hq : QCore R xs E ((w, es) :: rest)) (hc : Cross R xs E)
    (hnb : (R.prv w = wB ∧ R.nxt w = wT) ∨ (R.prv w = wT ∧ R.nxt w = wB))
    (hxB : R.x w < R.x wB) (hxT : R.x w < R.x wT)
    (ho : 0 < orient (R.pt w) (R.pt wB) (R.pt wT))
    (hidB : ∀ a ∈ E, a.id ≠ idB) (hidT : ∀ a ∈ E, a.id ≠ idT) (hid : idB ≠ idT) :
    es = [] ∧ ∃ P Q, E = P ++ Q ∧
      (∀ a ∈ P, hY R a (R.x w) < (R.pt w).2) ∧ (∀ a ∈ Q, (R.pt w).2 < hY R a (R.x w)) ∧
      (∀ a ∈ E, Span R (R.x w) a) ∧ E.Pairwise (fun a b => hY R a (R.x w) < hY R b (R.x w)) ∧
      (∀ a ∈ P ++ (⟨idB, w, wB⟩ : AE) :: (⟨idT, w, wT⟩ : AE) :: Q, Span R (R.x w) a) ∧
      (P ++ (⟨idB, w, wB⟩ : AE) :: (⟨idT, w, wT⟩ : AE) :: Q).Pairwise (Below R (R.x w)) ∧
      QCore R (R.x w) (P ++ (⟨idB, w, wB⟩ : AE) :: (⟨idT, w, wT⟩ : AE) :: Q)
        (qAdd R wT idT (qAdd R wB idB rest)) ∧
      Cross R (R.x w) (P ++ (⟨idB, w, wB⟩ : AE) :: (⟨idT, w, wT⟩ : AE) :: Q) := by
  have hwq := hq.gt (w, es) List.mem_cons_self
  have hwn : w < R.n := hwq.1
  have hxs : xs < R.x w := hwq.2
  obtain ⟨hBn, hTn, hadjB, hadjT, hBT, hnbrs⟩ := start_nbrs hR hwn hnb
  -- no active edge ends at `w`
  have hnoend : ∀ a ∈ E, a.rv ≠ w := by
    intro a ha harv
    have hsp := hS a ha
    have hadj : Adj R w a.lv := by
      have := adj_symm hR hsp.lv_lt hsp.adj
      rw [harv] at this; exact this
    have hle := hsp.le
    rcases hnbrs a.lv hadj with h | h
    · rw [h] at hle; exact absurd (lt_trans hxs hxB) (not_lt.mpr hle)
    · rw [h] at hle; exact absurd (lt_trans hxs hxT) (not_lt.mpr hle)
  have hes : es = [] := by
    obtain ⟨-, hmem⟩ := hq.reg (w, es) List.mem_cons_self
    cases es with
    | nil => rfl
    | cons e es' =>
      obtain ⟨a, ha, -, harv⟩ := (hmem e).mp List.mem_cons_self
      exact absurd harv (hnoend a ha)
  have hreach := reach_head hq
  have hbeyond : ∀ a ∈ E, R.x w < R.x a.rv := fun a ha => (hreach a ha).2 (hnoend a ha)
  have hspan : ∀ a ∈ E, Span R (R.x w) a := by
    intro a ha
    have := hS a ha
    exact ⟨this.lv_lt, this.rv_lt, this.adj, le_trans this.le (le_of_lt hxs), hbeyond a ha⟩
  have hH := heights_advance hN hS hP hq.uniq hxs (fun a ha => (hreach a ha).1)
  have hstrict : E.Pairwise (fun a b => hY R a (R.x w) < hY R b (R.x w)) := by
    refine List.Pairwise.imp_of_mem ?_ hH
    rintro a b ha hb (h | ⟨h, -⟩)
    · exact h
    · exact absurd (hR.distinct _ _ hwn (hS a ha).rv_lt h).symm (hnoend a ha)
  -- the new vertex lies on no active edge
  have hoff : ∀ a ∈ E, hY R a (R.x w) ≠ (R.pt w).2 := by
    intro a ha he
    have hsp := hspan a ha
    have hne : ¬ (a.lv = w ∧ a.rv = wB) := by
      rintro ⟨e, -⟩
      have := (hS a ha).le
      rw [e] at this
      exact absurd hxs (not_lt.mpr this)
    have hl : lineY (R.pt w) (R.pt wB) (R.x w) = (R.pt w).2 := lineY_left _ _
    rcases hN a.lv a.rv w wB hsp.lv_lt hsp.rv_lt hwn hBn hsp.adj hadjB hsp.lt hxB hne (R.x w) hsp.le
      (le_refl _) (le_of_lt hsp.gt) (le_of_lt hxB) (he.trans hl.symm) with ⟨-, e⟩ | ⟨e, -⟩ | e | e
    · exact hne ⟨e, by have := (hS a ha).le; rw [e] at this; exact absurd hxs (not_lt.mpr this)⟩
    · exact absurd hsp.gt (by rw [← e]; exact lt_irrefl _)
    · exact hnoend a ha e
    · have := (hS a ha).le
      rw [e] at this
      exact absurd (lt_trans hxs hxB) (not_lt.mpr this)
  obtain ⟨P, Q, hE, hPlt, hQgt⟩ := split_at_height (fun a => hY R a (R.x w)) (R.pt w).2 E hstrict hoff
  refine ⟨hes, P, Q, hE, hPlt, hQgt, hspan, hstrict, ?_, ?_, ?_, ?_⟩
  all_goals
    have hbspan : Span R (R.x w) (⟨idB, w, wB⟩ : AE) := ⟨hwn, hBn, hadjB, le_refl _, hxB⟩
    have htspan : Span R (R.x w) (⟨idT, w, wT⟩ : AE) := ⟨hwn, hTn, hadjT, le_refl _, hxT⟩
    have hyb : hY R (⟨idB, w, wB⟩ : AE) (R.x w) = (R.pt w).2 := lineY_left _ _
    have hyt : hY R (⟨idT, w, wT⟩ : AE) (R.x w) = (R.pt w).2 := lineY_left _ _
    have hmem : ∀ a, a ∈ P ++ (⟨idB, w, wB⟩ : AE) :: (⟨idT, w, wT⟩ : AE) :: Q ↔
        a = ⟨idT, w, wT⟩ ∨ (a = ⟨idB, w, wB⟩ ∨ a ∈ E) := by
      intro a
      rw [hE]
      simp only [List.mem_append, List.mem_cons]
      tauto
  · intro a ha
    rcases (hmem a).mp ha with rfl | rfl | ha
    · exact htspan
    · exact hbspan
    · exact hspan a ha
  · rw [hE] at hstrict
    rw [List.pairwise_append] at hstrict ⊢
    obtain ⟨hPP, hQQ, hPQ⟩ := hstrict
    refine ⟨hPP.imp (fun h => Or.inl h), ?_, ?_⟩
    · rw [List.pairwise_cons, List.pairwise_cons]
      refine ⟨?_, ?_, hQQ.imp (fun h => Or.inl h)⟩
      · intro b hb
        rcases List.mem_cons.mp hb with rfl | hb
        · exact Or.inr ⟨rfl, rfl, ho⟩
        · exact Or.inl (show hY R (⟨idB, w, wB⟩ : AE) (R.x w) < hY R b (R.x w) by rw [hyb]; exact hQgt b hb)
      · intro b hb
        exact Or.inl (show hY R (⟨idT, w, wT⟩ : AE) (R.x w) < hY R b (R.x w) by rw [hyt]; exact hQgt b hb)
    · intro a ha b hb
      rcases List.mem_cons.mp hb with rfl | hb
      · exact Or.inl (show hY R a (R.x w) < hY R (⟨idB, w, wB⟩ : AE) (R.x w) by rw [hyb]; exact hPlt a ha)
      · rcases List.mem_cons.mp hb with rfl | hb
        · exact Or.inl (show hY R a (R.x w) < hY R (⟨idT, w, wT⟩ : AE) (R.x w) by rw [hyt]; exact hPlt a ha)
        · exact Or.inl (hPQ a ha b hb)
  · have hpop := hq.pop (E' := E) (fun a => ⟨fun ha => ⟨ha, hnoend a ha⟩, fun h => h.1⟩)
    have hlvne : ∀ b ∈ E, b.lv ≠ w := by
      intro b hb e
      have := (hS b hb).le
      rw [e] at this
      exact absurd hxs (not_lt.mpr this)
    have hadd1 := hpop.add hR (E' := (⟨idB, w, wB⟩ : AE) :: E) ⟨idB, w, wB⟩ hBn hxB
      (fun b hb => hidB b hb) (fun b hb h => hlvne b hb h.1) (fun b => by simp)
    refine hadd1.add hR ⟨idT, w, wT⟩ hTn hxT ?_ ?_ (fun b => by rw [hmem b]; simp)
    · intro b hb
      rcases List.mem_cons.mp hb with rfl | hb
      · exact hid
      · exact hidT b hb
    · intro b hb h
      rcases List.mem_cons.mp hb with rfl | hb
      · exact hBT h.2
      · exact hlvne b hb h.1
  · refine cross_step hR hwn hxs hc (no_gap hR hq hc)
      (new := [(⟨idB, w, wB⟩ : AE), (⟨idT, w, wT⟩ : AE)]) ?_ ?_
    · intro a
      rw [hmem a]
      simp only [List.mem_cons, List.not_mem_nil, or_false]
      constructor
      · rintro (h | h | h)
        · exact Or.inr (Or.inr h)
        · exact Or.inr (Or.inl h)
        · exact Or.inl ⟨h, hnoend a h⟩
      · rintro (⟨h, -⟩ | h | h)
        · exact Or.inr (Or.inr h)
        · exact Or.inr (Or.inl h)
        · exact Or.inl h
    · intro v hv hav hxv
      rcases hnbrs v hav with h | h
      · exact ⟨(⟨idB, w, wB⟩ : AE), by simp, rfl, h.symm⟩
      · exact ⟨(⟨idT, w, wT⟩ : AE), by simp, rfl, h.symm⟩

end Cav.GenStepStart
