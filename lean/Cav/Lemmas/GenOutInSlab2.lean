/-
  Tiling by the emitted triangles, part 4: the weight of the ring at every generic point
  (`region_weight`): `areaW R (beta q)` is the indicator of the even-odd region.

  The static fact `Par R xs` ("the identity holds for every generic `q` with `q.1 ≤ xs`") is
  collected along the event loop (`ploop`): between two events the slab lemma applies to the active
  list of the strengthened invariant.
-/
import Cav.Lemmas.GenOutInSlab
import Cav.Lemmas.GenOutFinal

set_option linter.unusedVariables false
set_option linter.unusedSimpArgs false

namespace Cav.GenOutIn
open Cav Num Cav.Geo Cav.Sweep Cav.SweepRun Cav.TriRun Cav.QuadRun Cav.QuadGeom Cav.CvxEvents Cav.CvxLoop
open Cav.GenNodes Cav.TriEvents Cav.SweepSetup Cav.GenInv Cav.GenQueue Cav.GenRing
open Cav.GenSetup Cav.GenLoop Cav.GenAccept Cav.GenOutDefs Cav.GenOutLoop Cav.GenOutInv
open Cav.GenOutShape

variable {R : RingQ}

/-- the weight identity for all generic points up to the abscissa `xs` -/
def Par (R : RingQ) (xs : Rat) : Prop :=
  ∀ q : Rat × Rat, Generic R q → q.1 ≤ xs → areaW R (beta q) = if inRegionV R q then 1 else 0

/-- one event: the identity extends to the next event abscissa -/
theorem par_step (hN : NoCross R) {s : St XQ} {xs : Rat} {ivs : List IV} {G : Nat → CH}
    (hX : XInv R s xs ivs G) (hP : Par R xs)
    {w : Nat} {es : List Nat} {rest : List (Nat × List Nat)} (hev : s.events = (w, es) :: rest) :
    Par R (R.x w) := by
  have hI := hX.inv
  have hq := hI.q
  rw [hev] at hq
  have hwn : w < R.n := (hq.gt (w, es) List.mem_cons_self).1
  intro q hg hle
  have hlt : q.1 < R.x w := lt_of_le_of_ne hle (fun e => hg w hwn e.symm)
  by_cases hold : q.1 ≤ xs
  · exact hP q hg hold
  · exact slab_weight hI.ring (slab_of_inv hN hI hev (not_le.mp hold) hlt) hX.flags

/-- **the event loop collects the weight identity** -/
theorem ploop (hN : NoCross R) : ∀ (fuel : Nat) (s : St XQ) (xs : Rat) (ivs : List IV) (G : Nat → CH),
    XInv R s xs ivs G → Par R xs → meas R xs < fuel →
    ∃ xs', (∀ v, v < R.n → R.x v ≤ xs') ∧ Par R xs'
  | 0, _, _, _, _, _, _, h => by omega
  | fuel + 1, s, xs, ivs, G, hX, hP, hf => by
    cases hev : s.events with
    | nil =>
      have hq := hX.inv.q
      rw [hev] at hq
      obtain ⟨-, hall⟩ := all_done hX.inv.ring hq hX.inv.cross
      exact ⟨xs, hall, hP⟩
    | cons ev rest =>
      obtain ⟨w, es⟩ := ev
      obtain ⟨s1, ivs', G', hrun, hX'⟩ := xstep hN hX hev
      have hq := hX.inv.q
      rw [hev] at hq
      have hwq := hq.gt (w, es) List.mem_cons_self
      have hm : meas R (R.x w) < meas R xs := meas_lt hwq.1 hwq.2
      exact ploop hN fuel s1 (R.x w) ivs' G' hX' (par_step hN hX hP hev) (by omega)

/-- **the weight of a valid polygon set at a generic point is the indicator of the even-odd
    region** -/
theorem region_weight (polys : List (Array (Rat × Rat))) (h3 : ∀ p ∈ polys, 3 ≤ p.size)
    (hx : ((polys.flatMap Array.toList).map (·.1)).Nodup) (hN : NoCross (ringOf polys))
    (q : Rat × Rat) (hq : Generic (ringOf polys) q) :
    areaW (ringOf polys) (beta q) = if inRegionV (ringOf polys) q then 1 else 0 := by
  have hR := ringOK polys h3 hx
  obtain ⟨seen, evs, hset, hE⟩ := setup_all polys h3 hx
  obtain ⟨xs, hxs⟩ := exists_lt_all ((List.range (ringOf polys).n).map (ringOf polys).x)
  have hxs' : ∀ v, v < (ringOf polys).n → xs < (ringOf polys).x v :=
    fun v hv => hxs _ (List.mem_map.mpr ⟨v, List.mem_range.mpr hv, rfl⟩)
  have hI : Inv (ringOf polys) (stQ (vertsOf (cellsAll 0 polys)) evs) xs [] := inv_init hR hE hxs'
  have hP0 : Par (ringOf polys) xs := by
    intro q' _ hle
    exact weight_left (fun v hv => lt_of_le_of_lt hle (hxs' v hv))
  obtain ⟨xs', hall, hP⟩ := ploop hN ((ringOf polys).n + 1) _ xs [] _
    (xinv_init hR hI hxs') hP0 (Nat.lt_succ_of_le (meas_le xs))
  by_cases hle : q.1 ≤ xs'
  · exact hP q hq hle
  · exact weight_right hR (fun v hv => lt_of_le_of_lt (hall v hv) (not_le.mp hle))

end Cav.GenOutIn
