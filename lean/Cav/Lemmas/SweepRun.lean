/-
  Run lemmas for the state/exception monad `SM α = StateT (St α) (Except (SErr α))` of
  `Cav/Model/Sweep.lean`: what `bind`, `pure`, `get`, `set`, `modify`, `throw` and the cell
  accessors do to a state.
-/
import Cav.Model.Sweep

namespace Cav.SweepRun
open Cav Num Cav.Sweep

variable {α : Type} {β γ : Type}

theorem run_bind (m : SM α β) (f : β → SM α γ) (s : St α) :
    (m >>= f).run s =
      match m.run s with
      | .ok (b, s1) => (f b).run s1
      | .error e => .error e := by
  show (do let p ← m.run s; (f p.1).run p.2) = _
  cases m.run s <;> rfl

theorem bind_ok {m : SM α β} {f : β → SM α γ} {s s' : St α} {c : γ} :
    (m >>= f).run s = .ok (c, s') ↔
      ∃ b s1, m.run s = .ok (b, s1) ∧ (f b).run s1 = .ok (c, s') := by
  rw [run_bind]
  cases h : m.run s with
  | error e => simp
  | ok p =>
    obtain ⟨b, s1⟩ := p
    constructor
    · intro h'; exact ⟨b, s1, rfl, h'⟩
    · rintro ⟨b', s1', h1, h2⟩; cases h1; exact h2

theorem bind_error {m : SM α β} {f : β → SM α γ} {s : St α} {e : SErr α} :
    (m >>= f).run s = .error e ↔
      m.run s = .error e ∨ ∃ b s1, m.run s = .ok (b, s1) ∧ (f b).run s1 = .error e := by
  rw [run_bind]
  cases h : m.run s with
  | error e => simp
  | ok p =>
    obtain ⟨b, s1⟩ := p
    constructor
    · intro h'; exact Or.inr ⟨b, s1, rfl, h'⟩
    · rintro (h' | ⟨b', s1', h1, h2⟩)
      · cases h'
      · cases h1; exact h2

@[simp] theorem run_pure (b : β) (s : St α) : (pure b : SM α β).run s = .ok (b, s) := rfl
@[simp] theorem run_get (s : St α) : (get : SM α (St α)).run s = .ok (s, s) := rfl
@[simp] theorem run_set (t s : St α) : (set t : SM α PUnit).run s = .ok (⟨⟩, t) := rfl
@[simp] theorem run_modify (f : St α → St α) (s : St α) :
    (modify f : SM α PUnit).run s = .ok (⟨⟩, f s) := rfl
@[simp] theorem run_throw (e : SErr α) (s : St α) : (throw e : SM α β).run s = .error e := rfl

theorem run_getNode (i : Nat) (s : St α) :
    (getNode i : SM α _).run s =
      match s.nodes[i]? with
      | some n => .ok (n, s)
      | none => .error (.panic "model-bad-node") := by
  unfold getNode
  simp only [run_bind, run_get]
  cases s.nodes[i]? <;> rfl

theorem getNode_ok {i : Nat} {s s' : St α} {n : Node α} :
    (getNode i : SM α _).run s = .ok (n, s') ↔ s.nodes[i]? = some n ∧ s' = s := by
  rw [run_getNode]
  cases s.nodes[i]? <;> simp [eq_comm]

@[simp] theorem run_setNode (i : Nat) (n : Node α) (s : St α) :
    (setNode i n : SM α _).run s = .ok (⟨⟩, { s with nodes := s.nodes.setIfInBounds i n }) := rfl


theorem run_getVtx (i : Nat) (s : St α) :
    (getVtx i : SM α _).run s =
      match s.verts[i]? with
      | some n => .ok (n, s)
      | none => .error (.panic "model-bad-vertex") := by
  unfold getVtx
  simp only [run_bind, run_get]
  cases s.verts[i]? <;> rfl

theorem getVtx_ok {i : Nat} {s s' : St α} {n : Vtx α} :
    (getVtx i : SM α _).run s = .ok (n, s') ↔ s.verts[i]? = some n ∧ s' = s := by
  rw [run_getVtx]
  cases s.verts[i]? <;> simp [eq_comm]

end Cav.SweepRun
