/-
  `stableSort` / `insertSorted` / `clusterRoots` of `split_translational` (C13).

  * structural (every carrier, every comparator): `stableSort` returns a permutation;
    for a comparator whose "not less" relation is transitive and whose "less" is asymmetric,
    the output is sorted;
  * over `Rat`: the comparator of `split_translational` is such a comparator; the mean of a
    non-empty list lies between its least and greatest member; every value returned by
    `clusterRoots` (tolerance `≥ 0`) is the mean of a non-empty contiguous run of the input.
-/
import Cav.Model.Split
import Cav.Lemmas.DispHelpers

namespace Cav.DispL
open Cav Num

/-! ### permutation (structural) -/

section
variable {β : Type}

theorem insertSorted_perm (cmp : β → β → Ordering) (x : β) (l : List β) :
    (insertSorted cmp x l).Perm (x :: l) := by
  induction l with
  | nil => exact List.Perm.refl _
  | cons y ys ih =>
    unfold insertSorted
    split
    · exact List.Perm.refl _
    · exact (List.Perm.cons y ih).trans (List.Perm.swap x y ys)

theorem foldl_insertSorted_perm (cmp : β → β → Ordering) (l acc : List β) :
    (l.foldl (fun acc x => insertSorted cmp x acc) acc).Perm (acc ++ l) := by
  induction l generalizing acc with
  | nil => simp
  | cons x xs ih =>
    rw [List.foldl_cons]
    refine (ih _).trans ?_
    refine (List.Perm.append_right xs (insertSorted_perm cmp x acc)).trans ?_
    rw [List.cons_append]
    exact (List.perm_middle).symm

/-- the sort returns a permutation of its input -/
theorem stableSort_perm (cmp : β → β → Ordering) (l : List β) : (stableSort cmp l).Perm l := by
  have := foldl_insertSorted_perm cmp l []
  simpa [stableSort] using this

theorem stableSort_length (cmp : β → β → Ordering) (l : List β) :
    (stableSort cmp l).length = l.length := (stableSort_perm cmp l).length_eq

theorem mem_stableSort (cmp : β → β → Ordering) (l : List β) (x : β) :
    x ∈ stableSort cmp l ↔ x ∈ l := (stableSort_perm cmp l).mem_iff

/-! ### sortedness (structural, for a reasonable comparator) -/

/-- "`q` is not strictly before `p`" -/
def NotAfter (cmp : β → β → Ordering) (p q : β) : Prop := cmp q p ≠ .lt

/-- sorted: no later element compares strictly less than an earlier one -/
def SortedBy (cmp : β → β → Ordering) (l : List β) : Prop := l.Pairwise (NotAfter cmp)

theorem insertSorted_sorted (cmp : β → β → Ordering)
    (hasym : ∀ x y, cmp x y = .lt → cmp y x ≠ .lt)
    (htrans : ∀ x y z, NotAfter cmp x y → NotAfter cmp y z → NotAfter cmp x z)
    (x : β) (l : List β) (hl : SortedBy cmp l) : SortedBy cmp (insertSorted cmp x l) := by
  induction l with
  | nil => simp [insertSorted, SortedBy]
  | cons y ys ih =>
    unfold insertSorted
    have hy := List.pairwise_cons.mp hl
    split
    · rename_i hlt
      have hxy : NotAfter cmp x y := hasym x y (by simpa using hlt)
      refine List.pairwise_cons.mpr ⟨?_, hl⟩
      intro z hz
      rcases List.mem_cons.mp hz with rfl | hz'
      · exact hxy
      · exact htrans x y z hxy (hy.1 z hz')
    · rename_i hnlt
      have hyx : NotAfter cmp y x := by simpa [NotAfter] using hnlt
      refine List.pairwise_cons.mpr ⟨?_, ih hy.2⟩
      intro z hz
      rcases List.mem_cons.mp ((insertSorted_perm cmp x ys).mem_iff.mp hz) with rfl | hz'
      · exact hyx
      · exact hy.1 z hz'

theorem stableSort_sorted (cmp : β → β → Ordering)
    (hasym : ∀ x y, cmp x y = .lt → cmp y x ≠ .lt)
    (htrans : ∀ x y z, NotAfter cmp x y → NotAfter cmp y z → NotAfter cmp x z)
    (l : List β) : SortedBy cmp (stableSort cmp l) := by
  unfold stableSort
  suffices h : ∀ acc, SortedBy cmp acc →
      SortedBy cmp (l.foldl (fun acc x => insertSorted cmp x acc) acc) from
    h [] List.Pairwise.nil
  induction l with
  | nil => intro acc h; exact h
  | cons x xs ih =>
    intro acc h
    rw [List.foldl_cons]
    exact ih _ (insertSorted_sorted cmp hasym htrans x acc h)

end

/-! ### the comparator of `split_translational` over `Rat` -/

/-- `|p, q| { let sdiff = x_sign * (p - q); if sdiff > 0 {Greater} else if sdiff < 0 {Less} else {Equal} }` -/
def transCmp (s : Rat) : Rat → Rat → Ordering := fun p q =>
  let sdiff := s * (p - q)
  if Num.lt zero sdiff then .gt else if Num.lt sdiff zero then .lt else .eq

theorem transCmp_lt_iff (s p q : Rat) : transCmp s p q = .lt ↔ s * p < s * q := by
  unfold transCmp
  simp only [Num.lt, rat_zero, decide_eq_true_eq]
  have : s * (p - q) = s * p - s * q := by ring
  rw [this]
  by_cases h1 : 0 < s * p - s * q
  · simp only [h1, if_true]
    constructor
    · intro h; cases h
    · intro h; linarith
  · simp only [h1, if_false]
    by_cases h2 : s * p - s * q < 0
    · simp only [h2, if_true, true_iff]; linarith
    · simp only [h2, if_false]
      constructor
      · intro h; cases h
      · intro h; exact absurd (by linarith) h2

theorem transCmp_notAfter_iff (s p q : Rat) : NotAfter (transCmp s) p q ↔ s * p ≤ s * q := by
  unfold NotAfter
  rw [Ne, transCmp_lt_iff, not_lt]

/-- the merged root list is sorted in the direction of the interval -/
theorem stableSort_transCmp_sorted (s : Rat) (l : List Rat) :
    (stableSort (transCmp s) l).Pairwise (fun p q => s * p ≤ s * q) := by
  have := stableSort_sorted (transCmp s)
    (fun x y h => by
      rw [Ne, transCmp_lt_iff]; rw [transCmp_lt_iff] at h; exact not_lt.mpr (le_of_lt h))
    (fun x y z h1 h2 => by
      rw [transCmp_notAfter_iff] at *; exact le_trans h1 h2) l
  exact this.imp (fun h => (transCmp_notAfter_iff s _ _).mp h)

/-! ### means -/

theorem sumF_eq_sum (l : List Rat) : sumF l = l.sum := by
  unfold sumF
  have : ∀ (acc : Rat), l.foldl (· + ·) acc = acc + l.sum := by
    induction l with
    | nil => intro acc; simp
    | cons x xs ih => intro acc; rw [List.foldl_cons, ih, List.sum_cons]; ring
  rw [this]; simp [rat_zero]

theorem sum_between (l : List Rat) (lo hi : Rat) (h : ∀ x ∈ l, lo ≤ x ∧ x ≤ hi) :
    lo * l.length ≤ l.sum ∧ l.sum ≤ hi * l.length := by
  induction l with
  | nil => simp
  | cons x xs ih =>
    have hx := h x List.mem_cons_self
    have := ih (fun z hz => h z (List.mem_cons_of_mem _ hz))
    simp only [List.sum_cons, List.length_cons, Nat.cast_add, Nat.cast_one]
    constructor <;> nlinarith [this.1, this.2, hx.1, hx.2]

/-- the mean of a non-empty list lies between any bounds of its members -/
theorem mean_between (l : List Rat) (hne : l ≠ []) (lo hi : Rat) (h : ∀ x ∈ l, lo ≤ x ∧ x ≤ hi) :
    lo ≤ l.sum / l.length ∧ l.sum / l.length ≤ hi := by
  have hpos : (0 : Rat) < l.length := by
    have : 0 < l.length := List.length_pos_iff.mpr hne
    exact_mod_cast this
  have := sum_between l lo hi h
  exact ⟨(le_div_iff₀ hpos).mpr this.1, (div_le_iff₀ hpos).mpr this.2⟩

theorem exists_min_max (l : List Rat) (hne : l ≠ []) :
    ∃ lo ∈ l, ∃ hi ∈ l, ∀ x ∈ l, lo ≤ x ∧ x ≤ hi := by
  induction l with
  | nil => exact absurd rfl hne
  | cons y ys ih =>
    cases ys with
    | nil =>
      exact ⟨y, List.mem_cons_self, y, List.mem_cons_self, by
        intro x hx; simp only [List.mem_cons, List.not_mem_nil, or_false] at hx; subst hx; exact ⟨le_refl _, le_refl _⟩⟩
    | cons z zs =>
      obtain ⟨lo, hlo, hi, hhi, hb⟩ := ih (by simp)
      refine ⟨min y lo, ?_, max y hi, ?_, ?_⟩
      · rcases min_choice y lo with h | h <;> rw [h]
        · exact List.mem_cons_self
        · exact List.mem_cons_of_mem _ hlo
      · rcases max_choice y hi with h | h <;> rw [h]
        · exact List.mem_cons_self
        · exact List.mem_cons_of_mem _ hhi
      · intro x hx
        rcases List.mem_cons.mp hx with rfl | hx'
        · exact ⟨min_le_left _ _, le_max_left _ _⟩
        · exact ⟨le_trans (min_le_right _ _) (hb x hx').1, le_trans (hb x hx').2 (le_max_right _ _)⟩

/-- the mean of a non-empty list lies between its least and its greatest member -/
theorem mean_between_min_max (l : List Rat) (hne : l ≠ []) :
    ∃ lo ∈ l, ∃ hi ∈ l, (∀ x ∈ l, lo ≤ x ∧ x ≤ hi) ∧
      lo ≤ l.sum / l.length ∧ l.sum / l.length ≤ hi := by
  obtain ⟨lo, hlo, hi, hhi, hb⟩ := exists_min_max l hne
  exact ⟨lo, hlo, hi, hhi, hb, mean_between l hne lo hi hb⟩

/-! ### `clusterRoots` -/

/-- `r` is the mean of a non-empty contiguous run of `m` -/
def IsRunMean (m : List Rat) (r : Rat) : Prop :=
  ∃ seg : List Rat, seg ≠ [] ∧ seg <:+: m ∧ r = seg.sum / seg.length

theorem drop_take_infix (m : List Rat) (a n : Nat) : (m.drop a).take n <:+: m :=
  (List.take_prefix _ _).isInfix.trans (List.drop_suffix _ _).isInfix

theorem clusterRoots_go_means (tol : Rat) (htol : 0 ≤ tol) (m : Array Rat) :
    ∀ (fuel i li : Nat) (acc : List Rat), li ≤ i → li < m.size →
      (∀ r ∈ acc, IsRunMean m.toList r) →
      ∀ r ∈ clusterRoots.go tol m fuel i li acc, IsRunMean m.toList r := by
  have hfinal : ∀ (li : Nat) (acc : List Rat), li < m.size → (∀ r ∈ acc, IsRunMean m.toList r) →
      ∀ r ∈ (sumF (m.toList.drop li) / Num.ofNat (m.size - li) :: acc).reverse,
        IsRunMean m.toList r := by
    intro li acc hli hacc r hr
    rw [List.mem_reverse, List.mem_cons] at hr
    rcases hr with rfl | hr
    · refine ⟨m.toList.drop li, ?_, (List.drop_suffix _ _).isInfix, ?_⟩
      · intro h
        have := congrArg List.length h
        simp at this; omega
      · rw [sumF_eq_sum, rat_ofNat, List.length_drop, Array.length_toList]
    · exact hacc r hr
  intro fuel
  induction fuel with
  | zero =>
    intro i li acc _ hli hacc
    rw [clusterRoots.go]
    exact hfinal li acc hli hacc
  | succ n ih =>
    intro i li acc hle hli hacc
    rw [clusterRoots.go]
    split
    · rename_i hi
      simp only []
      split
      · rename_i hcut
        have hne : li ≠ i := by
          rintro rfl
          simp only [Num.lt, Num.abs, sub_self, lt_self_iff_false, if_false, decide_eq_true_eq] at hcut
          have h2 : (Num.two : Rat) = 2 := by simp [Num.two, Num.ofNat]
          rw [h2] at hcut
          linarith
        have hlt : li < i := Nat.lt_of_le_of_ne hle hne
        apply ih (i + 1) i _ (Nat.le_succ i) hi
        intro r hr
        rcases List.mem_cons.mp hr with rfl | hr
        · refine ⟨(m.toList.drop li).take (i - li), ?_, drop_take_infix _ _ _, ?_⟩
          · intro h
            have := congrArg List.length h
            simp at this; omega
          · rw [sumF_eq_sum, rat_ofNat, List.length_take, List.length_drop, Array.length_toList,
              Nat.min_eq_left (by omega)]
        · exact hacc r hr
      · exact ih (i + 1) li acc (Nat.le_succ_of_le hle) hli hacc
    · exact hfinal li acc hli hacc

/-- **every value returned by the clustering is the mean of a non-empty contiguous run of the
    (sorted) root list** — for a non-negative tolerance -/
theorem clusterRoots_means (tol : Rat) (htol : 0 ≤ tol) (m : Array Rat) :
    ∀ r ∈ clusterRoots tol m, IsRunMean m.toList r := by
  unfold clusterRoots
  split
  · rename_i hsz
    exact clusterRoots_go_means tol htol m _ 0 0 [] (Nat.le_refl 0) (by omega) (by simp)
  · intro r hr
    obtain ⟨s, t, hst⟩ := List.append_of_mem hr
    exact ⟨[r], by simp, ⟨s, t, by rw [hst]; simp⟩, by simp⟩

/-- hence it lies between the least and the greatest member of its cluster -/
theorem clusterRoots_between_cluster (tol : Rat) (htol : 0 ≤ tol) (m : Array Rat) :
    ∀ r ∈ clusterRoots tol m, ∃ seg : List Rat, seg <:+: m.toList ∧
      ∃ lo ∈ seg, ∃ hi ∈ seg, (∀ x ∈ seg, lo ≤ x ∧ x ≤ hi) ∧ lo ≤ r ∧ r ≤ hi := by
  intro r hr
  obtain ⟨seg, hne, hinf, rfl⟩ := clusterRoots_means tol htol m r hr
  obtain ⟨lo, hlo, hi, hhi, hb, hm⟩ := mean_between_min_max seg hne
  exact ⟨seg, hinf, lo, hlo, hi, hhi, hb, hm⟩

/-- in particular no cluster value leaves the range of the input roots -/
theorem clusterRoots_between (tol : Rat) (htol : 0 ≤ tol) (m : Array Rat) (lo hi : Rat)
    (h : ∀ x ∈ m.toList, lo ≤ x ∧ x ≤ hi) : ∀ r ∈ clusterRoots tol m, lo ≤ r ∧ r ≤ hi := by
  intro r hr
  obtain ⟨seg, hne, hinf, rfl⟩ := clusterRoots_means tol htol m r hr
  exact mean_between seg hne lo hi (fun x hx => h x (hinf.subset hx))

end Cav.DispL
