/-
  General sweep invariant, part 13: the End event on the flat active list — the two edges ending
  in an End vertex are neighbours in the list (`end_es`), and what remains after their removal
  (`end_flat`).
-/
import Cav.Lemmas.GenStepBend2

set_option linter.unusedSimpArgs false
set_option linter.unusedVariables false

namespace Cav.GenStepEnd
open Cav Num Cav.Geo Cav.Sweep Cav.TriRun Cav.QuadRun Cav.QuadGeom Cav.CvxFlows
open Cav.GenQuery Cav.GenGeom Cav.GenInv Cav.GenQueue Cav.GenOrder Cav.GenStepBend

variable {R : RingQ} {V : Array (Vtx XQ)}

/-- the overlap test of an edge against an edge above it, both spanning the abscissa `x0` -/
theorem wotP_false' (le re lt rt : Q) (h1 : le.1 < re.1) (h2 : lt.1 < rt.1) (h3 : lt.1 < re.1)
    (h4 : le.1 < rt.1) (hsame : re.1 = rt.1 → re = rt)
    (hlt : re.1 < rt.1 → orient lt rt re < 0) (hgt : rt.1 < re.1 → 0 < orient le re rt) :
    wotP (Fq le) (Fq re) (Fq lt) (Fq rt) = false := by
  unfold wotP
  cases hx : ofEq (Fq re).x (Fq rt).x
  · simp only [Bool.false_eq_true, if_false]
    simp only [F_x, ofEq_fin, decide_eq_false_iff_not] at hx
    have e : minTotal (Fq re).x (Fq rt).x = XQ.fin (min re.1 rt.1) := minTotal_fin _ _
    rw [e]
    rcases lt_or_gt_of_ne hx with h' | h'
    · rw [min_eq_left (le_of_lt h'), cmpAt_keyEnd_lt le re lt rt h1 h2 (le_of_lt h3) (le_of_lt h') (hlt h')]
      rfl
    · rw [min_eq_right (le_of_lt h'), cmpAt_otherEnd_lt le re lt rt h1 h2 (le_of_lt h4) (le_of_lt h') (hgt h')]
      rfl
  · simp only [if_true]
    simp only [F_x, ofEq_fin, decide_eq_true_eq] at hx
    have := hsame hx
    subst this
    exact ofGt_right_false le lt re h1 h3

/-- the overlap test of the lower of two edges that are strictly ordered at `x0` and both span it -/
theorem wot_pair (hR : RingOK R V) (hN : NoCross R) {a b : AE} {x0 : Rat}
    (ha : Span R x0 a) (hb : Span R x0 b) (hlt : hY R a x0 < hY R b x0)
    (hne : ¬ (a.lv = b.lv ∧ a.rv = b.rv)) :
    wotP (Fq (R.pt a.lv)) (Fq (R.pt a.rv)) (Fq (R.pt b.lv)) (Fq (R.pt b.rv)) = false := by
  apply wotP_false' _ _ _ _ ha.lt hb.lt (lt_of_le_of_lt hb.le ha.gt) (lt_of_le_of_lt ha.le hb.gt)
  · intro h
    have := hR.distinct _ _ ha.rv_lt hb.rv_lt h
    rw [this]
  · intro h
    rcases advance hN ha hb (Or.inl hlt) hne ha.gt (le_refl _) (le_of_lt h) with h1 | ⟨-, h1⟩
    · apply orient_neg_of_below _ _ _ hb.lt
      have e : hY R a (R.x a.rv) = (R.pt a.rv).2 := lineY_right _ _ ha.lt
      rw [← e]; exact h1
    · exact absurd h (by rw [h1]; exact lt_irrefl _)
  · intro h
    rcases advance hN ha hb (Or.inl hlt) hne hb.gt (le_of_lt h) (le_refl _) with h1 | ⟨h1, -⟩
    · apply orient_pos_of_above _ _ _ ha.lt
      have e : hY R b (R.x b.rv) = (R.pt b.rv).2 := lineY_right _ _ hb.lt
      rw [← e]; exact h1
    · exact absurd h1 (ne_of_lt h)

theorem eq_pair_of {β : Type} {l : List β} {x y : β} (hxy : x ≠ y) (hnd : l.Nodup)
    (h : ∀ e, e ∈ l ↔ e = x ∨ e = y) : l = [x, y] ∨ l = [y, x] := by
  cases l with
  | nil => exact absurd ((h x).mpr (Or.inl rfl)) (by simp)
  | cons a t =>
    rw [List.nodup_cons] at hnd
    have ht : ∀ z, z ≠ a → (z ∈ t ↔ z = x ∨ z = y) := by
      intro z hz
      rw [← h z]
      simp [hz]
    have hta : ∀ e, e ∈ t → e ≠ a := fun e he hea => hnd.1 (hea ▸ he)
    rcases (h a).mp List.mem_cons_self with rfl | rfl
    · left
      have : t = [y] := eq_singleton_of hnd.2 (fun e => by
        constructor
        · intro he
          rcases (ht e (hta e he)).mp he with h1 | h1
          · exact absurd h1 (hta e he)
          · exact h1
        · rintro rfl
          exact (ht e (Ne.symm hxy)).mpr (Or.inr rfl))
      rw [this]
    · right
      have : t = [x] := eq_singleton_of hnd.2 (fun e => by
        constructor
        · intro he
          rcases (ht e (hta e he)).mp he with h1 | h1
          · exact h1
          · exact absurd h1 (hta e he)
        · rintro rfl
          exact (ht e hxy).mpr (Or.inl rfl))
      rw [this]

/-- the two positions of two different members of a list -/
theorem two_mem_split {β : Type} {l : List β} {x y : β} (hx : x ∈ l) (hy : y ∈ l) (hxy : x ≠ y) :
    (∃ A B C, l = A ++ x :: B ++ y :: C) ∨ (∃ A B C, l = A ++ y :: B ++ x :: C) := by
  obtain ⟨A, B', e⟩ := List.append_of_mem hx
  have : y ∈ A ∨ y ∈ B' := by
    rw [e] at hy
    rcases List.mem_append.mp hy with h | h
    · exact Or.inl h
    · rcases List.mem_cons.mp h with h | h
      · exact absurd h.symm hxy
      · exact Or.inr h
  rcases this with h | h
  · obtain ⟨A', B, e2⟩ := List.append_of_mem h
    right
    exact ⟨A', B, B', by rw [e, e2]⟩
  · obtain ⟨B, C, e2⟩ := List.append_of_mem h
    left
    exact ⟨A, B, C, by rw [e, e2]; simp [List.append_assoc]⟩


theorem orient_swap12 (a b c : Q) : orient b a c = - orient a b c := by unfold orient; ring

/-- every active edge reaches the head of the queue -/
theorem reach_head {xs : Rat} {E : List AE} {w : Nat} {es : List Nat}
    {rest : List (Nat × List Nat)} (hq : QCore R xs E ((w, es) :: rest)) :
    ∀ a ∈ E, R.x w ≤ R.x a.rv ∧ (a.rv ≠ w → R.x w < R.x a.rv) := by
  have hhead : ∀ ev ∈ rest, R.x w < R.x ev.1 := (List.pairwise_cons.mp hq.sorted).1
  intro a ha
  obtain ⟨es', hm⟩ := hq.regAll a ha
  rcases List.mem_cons.mp hm with hm | hm
  · have : a.rv = w := by cases hm; rfl
    exact ⟨by rw [this], fun h => absurd this h⟩
  · exact ⟨le_of_lt (hhead _ hm), fun _ => hhead _ hm⟩

/-- **the two edges ending in an End vertex are neighbours in the active list** -/
theorem end_es (hR : RingOK R V) (hN : NoCross R) {xs : Rat} {E : List AE} {w u0 u1 : Nat}
    {es : List Nat} {rest : List (Nat × List Nat)}
    (hS : ∀ a ∈ E, Span R xs a) (hP : E.Pairwise (Below R xs))
    (hq : QCore R xs E ((w, es) :: rest)) (hc : Cross R xs E)
    (hp : R.prv w = u0) (hn : R.nxt w = u1) (hx0 : R.x u0 < R.x w) (hx1 : R.x u1 < R.x w) :
    ∃ F1 bot top F2, E = F1 ++ bot :: top :: F2 ∧ bot.rv = w ∧ top.rv = w ∧
      (es = [bot.id, top.id] ∨ es = [top.id, bot.id]) ∧ ∀ a ∈ E, a.rv = w → a = bot ∨ a = top := by
  have hwq := hq.gt (w, es) List.mem_cons_self
  have hwn : w < R.n := hwq.1
  have hxs : xs < R.x w := hwq.2
  have hu0 : u0 < R.n := by rw [← hp]; exact hR.prv_lt w hwn
  have hu1 : u1 < R.n := by rw [← hn]; exact hR.nxt_lt w hwn
  have hne01 : u0 ≠ u1 := by rw [← hp, ← hn]; exact hR.ne w hwn
  have hgap := no_gap hR hq hc
  have hle : ∀ u, u < R.n → R.x u < R.x w → R.x u ≤ xs := by
    intro u hu hlt
    by_contra hcon
    exact absurd (hgap u hu (not_le.mp hcon)) (not_le.mpr hlt)
  obtain ⟨a0, ha0, l0, r0⟩ := hc u0 w hu0 hwn (adj_symm hR hwn (Or.inr hp)) (hle u0 hu0 hx0) hxs
  obtain ⟨a1, ha1, l1, r1⟩ := hc u1 w hu1 hwn (adj_symm hR hwn (Or.inl hn)) (hle u1 hu1 hx1) hxs
  have hne : a0 ≠ a1 := by
    intro e
    rw [e] at l0
    exact hne01 (l0.symm.trans l1)
  have honly : ∀ a ∈ E, a.rv = w → a = a0 ∨ a = a1 := by
    intro a ha harv
    have hsp := hS a ha
    have hadj : Adj R w a.lv := by
      have := adj_symm hR hsp.lv_lt hsp.adj
      rw [harv] at this; exact this
    rcases adj_cases hadj with h | h
    · right
      exact hq.uniq a ha a1 ha1 (by rw [h, hn, l1]) (harv.trans r1.symm)
    · left
      exact hq.uniq a ha a0 ha0 (by rw [h, hp, l0]) (harv.trans r0.symm)
  have hnd : E.Nodup := nodup_of_pairwise_below hP
  have hreach := reach_head hq
  have hH := heights_advance hN hS hP hq.uniq hxs (fun a ha => (hreach a ha).1)
  have hy : ∀ a ∈ E, a.rv = w → hY R a (R.x w) = (R.pt w).2 := by
    intro a ha harv
    have := lineY_right (R.pt a.lv) (R.pt a.rv) (hS a ha).lt
    rw [harv] at this
    show lineY (R.pt a.lv) (R.pt a.rv) (R.pt w).1 = _
    rw [harv]; exact this
  -- the two edges in list order: nothing lies between them
  have key : ∀ (x y : AE) (A B C : List AE), E = A ++ x :: B ++ y :: C → x.rv = w → y.rv = w →
      (∀ a ∈ E, a.rv = w → a = x ∨ a = y) → B = [] := by
    intro x y A B C hE hxr hyr hxy
    cases B with
    | nil => rfl
    | cons k B' =>
      exfalso
      rw [hE] at hH hnd
      have hxm : x ∈ E := by rw [hE]; simp
      have hym : y ∈ E := by rw [hE]; simp
      have hkm : k ∈ E := by rw [hE]; simp
      have hkx : k ≠ x := by
        intro e
        rw [e] at hnd
        have := hnd
        simp [List.nodup_append, List.nodup_cons] at this
      have hky : k ≠ y := by
        intro e
        rw [e] at hnd
        have := hnd
        simp [List.nodup_append, List.nodup_cons] at this
      have hkr : k.rv ≠ w := by
        intro e
        rcases hxy k hkm e with h | h
        · exact hkx h
        · exact hky h
      have h1 : hY R x (R.x w) < hY R k (R.x w) := by
        have hp1 : (x :: k :: B' ++ y :: C).Pairwise _ :=
          (List.pairwise_append.mp (by simpa [List.append_assoc] using hH)).2.1
        rcases (List.pairwise_cons.mp hp1).1 k (by simp) with h | ⟨-, h⟩
        · exact h
        · exact absurd (h.symm.trans hxr) hkr
      have h2 : hY R k (R.x w) < hY R y (R.x w) := by
        have hp1 : (x :: k :: B' ++ y :: C).Pairwise _ :=
          (List.pairwise_append.mp (by simpa [List.append_assoc] using hH)).2.1
        have hp2 : (k :: B' ++ y :: C).Pairwise _ := (List.pairwise_cons.mp hp1).2
        rcases (List.pairwise_cons.mp hp2).1 y (by simp) with h | ⟨h, -⟩
        · exact h
        · exact absurd (hR.distinct _ _ hwn (hS k hkm).rv_lt h).symm hkr
      rw [hy x hxm hxr] at h1
      rw [hy y hym hyr] at h2
      exact lt_asymm h1 h2
  have hids : a0.id ≠ a1.id := fun e => hne (hq.idinj a0 ha0 a1 ha1 e)
  obtain ⟨hnd', hmem⟩ := hq.reg (w, es) List.mem_cons_self
  have hes : es = [a0.id, a1.id] ∨ es = [a1.id, a0.id] := by
    apply eq_pair_of hids hnd'
    intro e
    rw [hmem e]
    constructor
    · rintro ⟨a, ha, rfl, harv⟩
      rcases honly a ha harv with h | h
      · exact Or.inl (by rw [h])
      · exact Or.inr (by rw [h])
    · rintro (rfl | rfl)
      · exact ⟨a0, ha0, rfl, r0⟩
      · exact ⟨a1, ha1, rfl, r1⟩
  rcases two_mem_split ha0 ha1 hne with ⟨A, B, C, hE⟩ | ⟨A, B, C, hE⟩
  · have hB := key a0 a1 A B C hE r0 r1 honly
    subst hB
    exact ⟨A, a0, a1, C, by rw [hE]; simp, r0, r1, hes, honly⟩
  · have hB := key a1 a0 A B C hE r1 r0 (fun a ha h => (honly a ha h).symm)
    subst hB
    exact ⟨A, a1, a0, C, by rw [hE]; simp, r1, r0, hes.symm, fun a ha h => (honly a ha h).symm⟩


/-- **the End event on the flat active list**: the neighbouring edges `bot`, `top` end at `w` and
    are removed -/
theorem end_flat (hR : RingOK R V) (hN : NoCross R) {xs : Rat} {F1 F2 : List AE} {bot top : AE}
    {w : Nat} {es : List Nat} {rest : List (Nat × List Nat)}
    (hS : ∀ a ∈ F1 ++ bot :: top :: F2, Span R xs a)
    (hP : (F1 ++ bot :: top :: F2).Pairwise (Below R xs))
    (hq : QCore R xs (F1 ++ bot :: top :: F2) ((w, es) :: rest))
    (hc : Cross R xs (F1 ++ bot :: top :: F2))
    (hbr : bot.rv = w) (htr : top.rv = w)
    (honly : ∀ a ∈ F1 ++ bot :: top :: F2, a.rv = w → a = bot ∨ a = top)
    (hnoright : ∀ v, v < R.n → Adj R w v → ¬ R.x w < R.x v) :
    hY R bot xs < hY R top xs ∧
    ofGe ((Fq (R.pt bot.lv)).grad (Fq (R.pt w))) ((Fq (R.pt top.lv)).grad (Fq (R.pt w))) = true ∧
    ofGe ((Fq (R.pt top.lv)).grad (Fq (R.pt w))) ((Fq (R.pt bot.lv)).grad (Fq (R.pt w))) = false ∧
    (∀ a ∈ F1 ++ F2, Span R (R.x w) a) ∧
    (F1 ++ F2).Pairwise (Below R (R.x w)) ∧
    QCore R (R.x w) (F1 ++ F2) rest ∧
    Cross R (R.x w) (F1 ++ F2) ∧
    (∀ b ∈ F1, ∀ t ∈ F2,
      wotP (Fq (R.pt b.lv)) (Fq (R.pt b.rv)) (Fq (R.pt t.lv)) (Fq (R.pt t.rv)) = false) := by
  have hwq := hq.gt (w, es) List.mem_cons_self
  have hwn : w < R.n := hwq.1
  have hxs : xs < R.x w := hwq.2
  have hnd : (F1 ++ bot :: top :: F2).Nodup := nodup_of_pairwise_below hP
  have hbm : bot ∈ F1 ++ bot :: top :: F2 := by simp
  have htm : top ∈ F1 ++ bot :: top :: F2 := by simp
  have hsb := hS bot hbm
  have hst := hS top htm
  obtain ⟨hbt, hoth⟩ := nodup_mid hnd
  have hreach := reach_head hq
  -- strict order of the two edges at `xs`
  have hstrict : hY R bot xs < hY R top xs := by
    have hp1 : (bot :: top :: F2).Pairwise (Below R xs) := (List.pairwise_append.mp hP).2.1
    rcases (List.pairwise_cons.mp hp1).1 top (by simp) with h | ⟨h1, -, -⟩
    · exact h
    · exact absurd (hq.uniq bot hbm top htm h1 (hbr.trans htr.symm)) hbt
  have hblw : (R.pt bot.lv).1 < (R.pt w).1 := by have := hsb.lt; rw [hbr] at this; exact this
  have htlw : (R.pt top.lv).1 < (R.pt w).1 := by have := hst.lt; rw [htr] at this; exact this
  have horient : orient (R.pt bot.lv) (R.pt top.lv) (R.pt w) < 0 := by
    have h := lineY_sub_sameR (R.pt bot.lv) (R.pt top.lv) (R.pt w) xs hblw htlw
    have hs : hY R bot xs < hY R top xs := hstrict
    unfold hY at hs
    rw [hbr, htr] at hs
    by_contra hcon
    have hnn : 0 ≤ orient (R.pt bot.lv) (R.pt top.lv) (R.pt w) := not_lt.mp hcon
    have : 0 ≤ ((R.pt w).1 - xs) * orient (R.pt bot.lv) (R.pt top.lv) (R.pt w) /
        (((R.pt w).1 - (R.pt bot.lv).1) * ((R.pt w).1 - (R.pt top.lv).1)) :=
      div_nonneg (mul_nonneg (le_of_lt (sub_pos.mpr hxs)) hnn)
        (le_of_lt (mul_pos (sub_pos.mpr hblw) (sub_pos.mpr htlw)))
    linarith
  have hmid : ∀ a, a ∈ F1 ++ F2 → a ∈ F1 ++ bot :: top :: F2 ∧ a ≠ bot ∧ a ≠ top := by
    intro a ha
    refine ⟨?_, hoth a ha⟩
    rcases List.mem_append.mp ha with h | h
    · exact List.mem_append_left _ h
    · exact List.mem_append_right _ (List.mem_cons_of_mem _ (List.mem_cons_of_mem _ h))
  have hmemmid : ∀ a, a ∈ F1 ++ F2 ↔ a ∈ F1 ++ bot :: top :: F2 ∧ a.rv ≠ w := by
    intro a
    constructor
    · intro ha
      obtain ⟨hm, h1, h2⟩ := hmid a ha
      refine ⟨hm, fun e => ?_⟩
      rcases honly a hm e with h | h
      · exact h1 h
      · exact h2 h
    · rintro ⟨hm, hnw⟩
      have h1 : a ≠ bot := fun e => hnw (by rw [e]; exact hbr)
      have h2 : a ≠ top := fun e => hnw (by rw [e]; exact htr)
      simp only [List.mem_append, List.mem_cons] at hm ⊢
      tauto
  have hspan' : ∀ a ∈ F1 ++ F2, Span R (R.x w) a := by
    intro a ha
    obtain ⟨hm, hnw⟩ := (hmemmid a).mp ha
    have := hS a hm
    exact ⟨this.lv_lt, this.rv_lt, this.adj, le_trans this.le (le_of_lt hxs), (hreach a hm).2 hnw⟩
  have hH := heights_advance hN hS hP hq.uniq hxs (fun a ha => (hreach a ha).1)
  have hsub : (F1 ++ F2).Sublist (F1 ++ bot :: top :: F2) :=
    List.Sublist.append (List.Sublist.refl _) (List.Sublist.cons _ (List.Sublist.cons _ (List.Sublist.refl _)))
  have hstrict' : (F1 ++ F2).Pairwise (fun a b => hY R a (R.x w) < hY R b (R.x w)) := by
    have := hH.sublist hsub
    refine List.Pairwise.imp_of_mem ?_ this
    rintro a b ha hb (h | ⟨h, -⟩)
    · exact h
    · exact absurd (hR.distinct _ _ hwn (hS a (hmid a ha).1).rv_lt h).symm ((hmemmid a).mp ha).2
  refine ⟨hstrict, ofGe_gradR_true _ _ _ hblw htlw horient, ?_, hspan', hstrict'.imp (fun h => Or.inl h),
    hq.pop hmemmid, ?_, ?_⟩
  · apply ofGe_gradR_false _ _ _ htlw hblw
    rw [orient_swap12]; linarith
  · refine cross_step hR hwn hxs hc (no_gap hR hq hc) (new := []) ?_ ?_
    · intro a
      rw [hmemmid a]
      simp
    · intro v hv hav hxv
      exact absurd hxv (hnoright v hv hav)
  · intro b hb t ht
    have hbm' : b ∈ F1 ++ F2 := List.mem_append_left _ hb
    have htm' : t ∈ F1 ++ F2 := List.mem_append_right _ ht
    have hlt : hY R b (R.x w) < hY R t (R.x w) := (List.pairwise_append.mp hstrict').2.2 b hb t ht
    apply wot_pair hR hN (hspan' b hbm') (hspan' t htm') hlt
    rintro ⟨e1, e2⟩
    have := hq.uniq b (hmid b hbm').1 t (hmid t htm').1 e1 e2
    rw [this] at hlt
    exact lt_irrefl _ hlt

end Cav.GenStepEnd
