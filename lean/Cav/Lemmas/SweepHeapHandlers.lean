/-
  Heap adequacy of the sweep model, part 3: the three event handlers.
-/
import Cav.Lemmas.SweepHeapAlloc

set_option linter.unusedSectionVars false
set_option linter.unusedVariables false

namespace Cav.SweepHeap
open Cav Num Cav.Sweep Cav.SweepRun Cav.SweepHoare

variable {α : Type} [Num α] {β γ : Type}
variable {V : Array (Vtx α)} {N C D : Nat} {E : SErr α → Prop}

theorem handleBend_wa (hE : BaseErr E) (p : Pt α) (lp1 lp2 : Nat) (h1 : lp1 < V.size)
    (h2 : lp2 < V.size) (r : List Nat) (hr : ∀ e ∈ r, e < D)
    (hidx : r.length ≤ 0 → E (.panic "index")) :
    PW V N C D E (fun _ _ _ _ => True) (handleBend p lp1 lp2 r : SM α _) := by
  unfold handleBend; pw_auto


theorem handleEnd_wa (hE : BaseErr E) (p : Pt α) (r : List Nat) (hr : ∀ e ∈ r, e < D)
    (hidx : r.length ≤ 1 → E (.panic "index")) :
    PW V N C D E (fun _ _ _ _ => True) (handleEnd p r : SM α _) := by
  unfold handleEnd; pw_auto


set_option maxHeartbeats 1600000 in
theorem handleStart_wa (hE : BaseErr E) (p : Pt α) (lp1 lp2 : Nat) (h1 : lp1 < V.size)
    (h2 : lp2 < V.size) :
    PW V N C D E (fun _ _ _ _ => True) (handleStart p lp1 lp2 : SM α _) := by
  unfold handleStart; pw_auto


end Cav.SweepHeap
