/-
  No index panic over `XQ` (C15): when a Bend vertex is taken from the event queue at least one
  edge is registered with it, and at least two with an End vertex.
-/
import Cav.Lemmas.SweepReg
import Cav.Lemmas.SweepHeapLoop

set_option linter.unusedSectionVars false
set_option linter.unusedVariables false

namespace Cav.SweepIndex
open Cav Num Cav.Geo Cav.Sweep Cav.SweepRun Cav.SweepHoare Cav.SweepEvents Cav.SweepReg
  Cav.SweepSetup

/-! ### the type of a vertex and the order of its neighbours -/

/-- what `fromTriplet` says about the lexicographic order of finite points -/
theorem tri_cases {p p1 p2 : Pt XQ} (hp : Geo.Finite p) (h1 : Geo.Finite p1) (h2 : Geo.Finite p2) :
    match fromTriplet p p1 p2 with
    | none => toQ p = toQ p1 ∨ toQ p = toQ p2
    | some .start => lexLt (toQ p) (toQ p1) ∧ lexLt (toQ p) (toQ p2)
    | some .end_ => lexLt (toQ p1) (toQ p) ∧ lexLt (toQ p2) (toQ p)
    | some .bend => (lexLt (toQ p) (toQ p1) ∧ lexLt (toQ p2) (toQ p) ∧ p1.ge p2 = true) ∨
        (lexLt (toQ p1) (toQ p) ∧ lexLt (toQ p) (toQ p2) ∧ p1.ge p2 = false) := by
  unfold fromTriplet
  have e1 := eq_iff hp h1
  have e2 := eq_iff hp h2
  have l1 := lt_iff hp h1
  have l2 := lt_iff hp h2
  have g1 := gt_iff hp h1
  have g2 := gt_iff hp h2
  have ge := ge_iff h1 h2
  have t1 := lexLt_total (toQ p) (toQ p1)
  have t2 := lexLt_total (toQ p) (toQ p2)
  have tr : ∀ {a b c : Rat × Rat}, lexLt a b → lexLt b c → lexLt a c := fun h h' => lexLt_trans h h'
  have irr := lexLt_irrefl
  cases hE1 : p.eq p1 <;> cases hE2 : p.eq p2 <;> cases hL1 : p.lt p1 <;> cases hL2 : p.lt p2 <;>
    cases hG1 : p.gt p1 <;> cases hG2 : p.gt p2 <;> cases hGE : p1.ge p2 <;>
    simp only [hE1, hE2, hL1, hL2, hG1, hG2, hGE] at e1 e2 l1 l2 g1 g2 ge ⊢ <;>
    simp at e1 e2 l1 l2 g1 g2 ge ⊢ <;> grind


/-! ### the invariant between two passes of `handleNext` -/

/-- strictly after the sweep position `lo` (`none`: before the first event) -/
def After (lo : Option (Rat × Rat)) (k : Rat × Rat) : Prop :=
  match lo with
  | none => True
  | some l => lexLt l k

instance (lo : Option (Rat × Rat)) (k : Rat × Rat) : Decidable (After lo k) := by
  unfold After; cases lo <;> exact inferInstance

/-- what is used of the vertex ring: finite, pairwise different points; `prev`/`next` are
    mutually inverse and in range; every vertex has a type -/
structure Ring (V : Array (Vtx XQ)) : Prop where
  fin : AllFin V
  inj : Inj V
  link : ∀ (u : Nat) (v : Vtx XQ), V[u]? = some v →
    ∃ vp vn, V[v.prev]? = some vp ∧ V[v.next]? = some vn ∧ vp.next = u ∧ vn.prev = u
  typed : ∀ (u : Nat) (v vp vn : Vtx XQ), V[u]? = some v → V[v.prev]? = some vp →
    V[v.next]? = some vn → fromTriplet v.p vp.p vn.p ≠ none

/-- number of ring neighbours of `w` that the sweep has passed -/
def cnt (V : Array (Vtx XQ)) (lo : Option (Rat × Rat)) (w : Nat) : Nat :=
  match V[w]? with
  | none => 0
  | some v => (if After lo (keyOf V v.prev) then 0 else 1) + (if After lo (keyOf V v.next) then 0 else 1)

/-- invariant between two passes: the queue is sorted and lies after `lo`; every vertex after
    `lo` has at least as many registered edges as it has neighbours that were passed, and is in
    the queue unless it has a smaller neighbour that is still to come -/
structure K (V : Array (Vtx XQ)) (lo : Option (Rat × Rat)) (s : St XQ) : Prop where
  verts : s.verts = V
  sorted : EvSorted V s.events
  after : ∀ a ∈ s.events, After lo (keyOf V a.1)
  lb : ∀ (w : Nat) (v : Vtx XQ), V[w]? = some v → After lo (keyOf V w) →
    cnt V lo w ≤ evLen s.events w
  cover : ∀ (w : Nat) (v : Vtx XQ), V[w]? = some v → After lo (keyOf V w) →
    (∃ a ∈ s.events, a.1 = w) ∨
      (After lo (keyOf V v.prev) ∧ lexLt (keyOf V v.prev) (keyOf V w)) ∨
      (After lo (keyOf V v.next) ∧ lexLt (keyOf V v.next) (keyOf V w))

variable {V : Array (Vtx XQ)} {lo : Option (Rat × Rat)}

theorem lt_size_of_some {i : Nat} {v : Vtx XQ} (h : V[i]? = some v) : i < V.size := by
  rcases Nat.lt_or_ge i V.size with h' | h'
  · exact h'
  · rw [Array.getElem?_eq_none h'] at h; cases h

/-- number of vertices strictly before vertex `k` -/
def below (V : Array (Vtx XQ)) (k : Nat) : Nat :=
  (List.range V.size).countP (fun i => decide (lexLt (keyOf V i) (keyOf V k)))

theorem below_lt {k k' : Nat} (hk : k < V.size) (h : lexLt (keyOf V k) (keyOf V k')) :
    below V k < below V k' := by
  unfold below
  apply countP_lt_countP
  · intro x _ hx
    simp only [decide_eq_true_eq] at hx ⊢
    exact lexLt_trans hx h
  · exact ⟨k, List.mem_range.mpr hk, by simpa using h, by simpa using lexLt_irrefl _⟩

/-- **no vertex is skipped**: no vertex lies strictly between the sweep position and the head
    of the queue -/
theorem no_gap {s : St XQ} (hR : Ring V) (hK : K V lo s) {u : Nat} {es : List Nat}
    {rest : List (Nat × List Nat)} (hev : s.events = (u, es) :: rest) :
    ∀ (w : Nat) (v : Vtx XQ), V[w]? = some v → After lo (keyOf V w) →
      ¬ lexLt (keyOf V w) (keyOf V u) := by
  have hsorted := hK.sorted.2
  rw [hev] at hsorted
  have hhead := (List.pairwise_cons.mp hsorted).1
  intro w
  induction hn : below V w using Nat.strong_induction_on generalizing w with
  | _ n ih =>
    intro v hv haft hlt
    rcases hK.cover w v hv haft with ⟨a, ha, haw⟩ | ⟨hx, hxl⟩ | ⟨hx, hxl⟩
    · rw [hev] at ha
      rcases List.mem_cons.mp ha with rfl | ha
      · simp only at haw
        subst haw
        exact lexLt_irrefl _ hlt
      · have := hhead a ha
        rw [haw] at this
        exact lexLt_irrefl _ (lexLt_trans this hlt)
    · obtain ⟨vp, vn, hvp, hvn, -, -⟩ := hR.link w v hv
      have hb := below_lt (lt_size_of_some hvp) hxl
      exact ih (below V v.prev) (by rw [← hn]; exact hb) v.prev rfl vp hvp hx
        (lexLt_trans hxl hlt)
    · obtain ⟨vp, vn, hvp, hvn, -, -⟩ := hR.link w v hv
      have hb := below_lt (lt_size_of_some hvn) hxl
      exact ih (below V v.next) (by rw [← hn]; exact hb) v.next rfl vn hvn hx
        (lexLt_trans hxl hlt)


theorem After.trans {k k' : Rat × Rat} (h : After lo k) (hk : lexLt k k') : After lo k' := by
  unfold After at *
  cases lo with
  | none => trivial
  | some l => exact lexLt_trans h hk

/-- a vertex after `lo` that is not after the head of the queue is the head -/
theorem eq_head {s : St XQ} (hR : Ring V) (hK : K V lo s) {u : Nat} {es : List Nat}
    {rest : List (Nat × List Nat)} (hev : s.events = (u, es) :: rest) {v : Vtx XQ}
    (hvu : V[u]? = some v) {x : Nat} {vx : Vtx XQ} (hvx : V[x]? = some vx)
    (hA : After lo (keyOf V x)) (hn : ¬ lexLt (keyOf V u) (keyOf V x)) : x = u := by
  have h1 := no_gap hR hK hev x vx hvx hA
  rcases lexLt_total (keyOf V x) (keyOf V u) with h | h | h
  · exact absurd h h1
  · rw [keyOf_eq hvx, keyOf_eq hvu] at h
    exact hR.inj x u vx v hvx hvu h
  · exact absurd h hn

theorem evLen_head_rest (hsorted : EvSorted V ((u, es) :: rest)) : evLen rest u = 0 := by
  apply evLen_eq_zero
  intro a ha hau
  have := (List.pairwise_cons.mp hsorted.2).1 a ha
  rw [hau] at this
  exact lexLt_irrefl _ this

/-- **at least one registered edge for a Bend vertex, at least two for an End vertex** -/
theorem pop_count {s : St XQ} (hR : Ring V) (hK : K V lo s) {u : Nat} {es : List Nat}
    {rest : List (Nat × List Nat)} (hev : s.events = (u, es) :: rest) {v vp vn : Vtx XQ}
    (hv : V[u]? = some v) (hvp : V[v.prev]? = some vp) (hvn : V[v.next]? = some vn) :
    (fromTriplet v.p vp.p vn.p = some .bend → 1 ≤ es.length) ∧
      (fromTriplet v.p vp.p vn.p = some .end_ → 2 ≤ es.length) := by
  have hsorted := hK.sorted
  rw [hev] at hsorted
  have hA : After lo (keyOf V u) := hK.after (u, es) (by rw [hev]; exact List.mem_cons_self)
  have hlen : evLen s.events u = es.length := by
    rw [hev]
    simp only [evLen, if_true]
    rw [evLen_head_rest hsorted]; rfl
  have hlb := hK.lb u v hv hA
  rw [hlen] at hlb
  have hcnt : cnt V lo u = (if After lo (keyOf V v.prev) then 0 else 1) +
      (if After lo (keyOf V v.next) then 0 else 1) := by
    unfold cnt; rw [hv]
  have hgapP := no_gap hR hK hev v.prev vp hvp
  have hgapN := no_gap hR hK hev v.next vn hvn
  have ht := tri_cases (hR.fin u v hv) (hR.fin _ vp hvp) (hR.fin _ vn hvn)
  rw [← keyOf_eq hv, ← keyOf_eq hvp, ← keyOf_eq hvn] at ht
  constructor
  · intro hb
    rw [hb] at ht
    rcases ht with ⟨-, h2, -⟩ | ⟨h1, -, -⟩
    · have : ¬ After lo (keyOf V v.next) := fun h => hgapN h h2
      rw [hcnt] at hlb; simp only [this, if_false] at hlb; omega
    · have : ¬ After lo (keyOf V v.prev) := fun h => hgapP h h1
      rw [hcnt] at hlb; simp only [this, if_false] at hlb; omega
  · intro he
    rw [he] at ht
    obtain ⟨h1, h2⟩ := ht
    have a1 : ¬ After lo (keyOf V v.prev) := fun h => hgapP h h1
    have a2 : ¬ After lo (keyOf V v.next) := fun h => hgapN h h2
    rw [hcnt] at hlb; simp only [a1, a2, if_false] at hlb; omega

/-- the invariant after a successful pass over the head `u`, given what the handler did to the
    queue: `reg w` registrations at `w`, all other keys kept -/
theorem K_step {s s' : St XQ} (hR : Ring V) (hK : K V lo s) {u : Nat} {es : List Nat}
    {rest : List (Nat × List Nat)} (hev : s.events = (u, es) :: rest) {v : Vtx XQ}
    (hv : V[u]? = some v) (hev' : EvInv V (keyOf V u) s') (reg : Nat → Nat)
    (hreg_lb : ∀ w, evLen rest w + reg w ≤ evLen s'.events w)
    (hkeys : ∀ a ∈ rest, ∃ a' ∈ s'.events, a'.1 = a.1)
    (hreg : ∀ (w : Nat) (vw : Vtx XQ), V[w]? = some vw → lexLt (keyOf V u) (keyOf V w) →
      (if vw.prev = u then 1 else 0) + (if vw.next = u then 1 else 0) ≤ reg w) :
    K V (some (keyOf V u)) s' := by
  obtain ⟨hV', hsorted', hafter'⟩ := hev'
  have hAu : After lo (keyOf V u) := hK.after (u, es) (by rw [hev]; exact List.mem_cons_self)
  -- contribution of one neighbour to the count
  have hone : ∀ (x : Nat) (vx : Vtx XQ), V[x]? = some vx →
      (if After (some (keyOf V u)) (keyOf V x) then 0 else 1) ≤
        (if After lo (keyOf V x) then 0 else 1) + (if x = u then 1 else 0) := by
    intro x vx hvx
    by_cases hA' : After (some (keyOf V u)) (keyOf V x)
    · simp [hA']
    · by_cases hA : After lo (keyOf V x)
      · have : x = u := eq_head hR hK hev hv hvx hA hA'
        simp only [this, if_true]
        split <;> omega
      · simp [hA', hA]
  refine ⟨hV', hsorted', hafter', ?_, ?_⟩
  · intro w vw hvw hAw
    have hAw' : lexLt (keyOf V u) (keyOf V w) := hAw
    obtain ⟨vp, vn, hvp, hvn, -, -⟩ := hR.link w vw hvw
    have hne : u ≠ w := by
      intro h; subst h; exact lexLt_irrefl _ hAw'
    have h1 := hK.lb w vw hvw (hAu.trans hAw')
    rw [hev] at h1
    simp only [evLen, hne, if_false, Nat.zero_add] at h1
    have h2 := hreg w vw hvw hAw'
    have h3 := hreg_lb w
    have c1 : cnt V (some (keyOf V u)) w = (if After (some (keyOf V u)) (keyOf V vw.prev) then 0 else 1) +
        (if After (some (keyOf V u)) (keyOf V vw.next) then 0 else 1) := by
      unfold cnt; rw [hvw]
    have c0 : cnt V lo w = (if After lo (keyOf V vw.prev) then 0 else 1) +
        (if After lo (keyOf V vw.next) then 0 else 1) := by
      unfold cnt; rw [hvw]
    have o1 := hone vw.prev vp hvp
    have o2 := hone vw.next vn hvn
    omega
  · intro w vw hvw hAw
    have hAw' : lexLt (keyOf V u) (keyOf V w) := hAw
    obtain ⟨vp, vn, hvp, hvn, -, -⟩ := hR.link w vw hvw
    have hne : u ≠ w := by
      intro h; subst h; exact lexLt_irrefl _ hAw'
    have hregw := hreg w vw hvw hAw'
    have hpos : 0 < reg w → ∃ a ∈ s'.events, a.1 = w := by
      intro h
      apply evLen_pos_mem
      have := hreg_lb w
      omega
    rcases hK.cover w vw hvw (hAu.trans hAw') with ⟨a, ha, haw⟩ | ⟨hx, hxl⟩ | ⟨hx, hxl⟩
    · rw [hev] at ha
      rcases List.mem_cons.mp ha with rfl | ha
      · exact absurd haw hne
      · obtain ⟨a', ha', e⟩ := hkeys a ha
        exact Or.inl ⟨a', ha', e.trans haw⟩
    · by_cases hA' : lexLt (keyOf V u) (keyOf V vw.prev)
      · exact Or.inr (Or.inl ⟨hA', hxl⟩)
      · have : vw.prev = u := eq_head hR hK hev hv hvp hx hA'
        simp only [this, if_true] at hregw
        exact Or.inl (hpos (by omega))
    · by_cases hA' : lexLt (keyOf V u) (keyOf V vw.next)
      · exact Or.inr (Or.inr ⟨hA', hxl⟩)
      · have : vw.next = u := eq_head hR hK hev hv hvn hx hA'
        simp only [this, if_true] at hregw
        exact Or.inl (hpos (by omega))


/-! ### who registers with whom -/

theorem link_prev (hR : Ring V) {u w : Nat} {v vw : Vtx XQ} (hv : V[u]? = some v)
    (hvw : V[w]? = some vw) (h : vw.prev = u) : w = v.next := by
  obtain ⟨vp, vn, hvp, -, hp, -⟩ := hR.link w vw hvw
  rw [h, hv] at hvp
  cases hvp
  exact hp.symm

theorem link_next (hR : Ring V) {u w : Nat} {v vw : Vtx XQ} (hv : V[u]? = some v)
    (hvw : V[w]? = some vw) (h : vw.next = u) : w = v.prev := by
  obtain ⟨vp, vn, -, hvn, -, hn⟩ := hR.link w vw hvw
  rw [h, hv] at hvn
  cases hvn
  exact hn.symm

theorem reg_start (hR : Ring V) {u : Nat} {v : Vtx XQ} (hv : V[u]? = some v) :
    ∀ (w : Nat) (vw : Vtx XQ), V[w]? = some vw → lexLt (keyOf V u) (keyOf V w) →
      (if vw.prev = u then 1 else 0) + (if vw.next = u then 1 else 0) ≤
        (if w = v.prev then 1 else 0) + (if w = v.next then 1 else 0) := by
  intro w vw hvw _
  have h1 : vw.prev = u → w = v.next := link_prev hR hv hvw
  have h2 : vw.next = u → w = v.prev := link_next hR hv hvw
  have i1 : (if vw.prev = u then 1 else 0) ≤ (if w = v.next then 1 else 0) := by
    by_cases a : vw.prev = u
    · rw [if_pos a, if_pos (h1 a)]
    · rw [if_neg a]; exact Nat.zero_le _
  have i2 : (if vw.next = u then 1 else 0) ≤ (if w = v.prev then 1 else 0) := by
    by_cases a : vw.next = u
    · rw [if_pos a, if_pos (h2 a)]
    · rw [if_neg a]; exact Nat.zero_le _
  omega

theorem reg_bend (hR : Ring V) {u : Nat} {v vp vn : Vtx XQ} (hv : V[u]? = some v)
    (hvp : V[v.prev]? = some vp) (hvn : V[v.next]? = some vn)
    (hb : fromTriplet v.p vp.p vn.p = some .bend) :
    ∀ (w : Nat) (vw : Vtx XQ), V[w]? = some vw → lexLt (keyOf V u) (keyOf V w) →
      (if vw.prev = u then 1 else 0) + (if vw.next = u then 1 else 0) ≤
        (if w = (if vp.p.ge vn.p then v.prev else v.next) then 1 else 0) := by
  intro w vw hvw hlt
  have h1 : vw.prev = u → w = v.next := link_prev hR hv hvw
  have h2 : vw.next = u → w = v.prev := link_next hR hv hvw
  have ht := tri_cases (hR.fin u v hv) (hR.fin _ vp hvp) (hR.fin _ vn hvn)
  rw [hb, ← keyOf_eq hv, ← keyOf_eq hvp, ← keyOf_eq hvn] at ht
  rcases ht with ⟨-, hn, hge⟩ | ⟨hp, -, hge⟩
  · -- the larger neighbour is `prev`
    have a : ¬ vw.prev = u := by
      intro h
      rw [h1 h] at hlt
      exact lexLt_irrefl _ (lexLt_trans hlt hn)
    simp only [a, if_false, hge, if_true, Nat.zero_add]
    by_cases b : vw.next = u
    · simp [b, h2 b]
    · simp [b]
  · have b : ¬ vw.next = u := by
      intro h
      rw [h2 h] at hlt
      exact lexLt_irrefl _ (lexLt_trans hlt hp)
    simp only [b, if_false, hge, Nat.add_zero, Bool.false_eq_true]
    by_cases a : vw.prev = u
    · simp [a, h1 a]
    · simp [a]

theorem reg_end (hR : Ring V) {u : Nat} {v vp vn : Vtx XQ} (hv : V[u]? = some v)
    (hvp : V[v.prev]? = some vp) (hvn : V[v.next]? = some vn)
    (he : fromTriplet v.p vp.p vn.p = some .end_) :
    ∀ (w : Nat) (vw : Vtx XQ), V[w]? = some vw → lexLt (keyOf V u) (keyOf V w) →
      (if vw.prev = u then 1 else 0) + (if vw.next = u then 1 else 0) ≤ 0 := by
  intro w vw hvw hlt
  have h1 : vw.prev = u → w = v.next := link_prev hR hv hvw
  have h2 : vw.next = u → w = v.prev := link_next hR hv hvw
  have ht := tri_cases (hR.fin u v hv) (hR.fin _ vp hvp) (hR.fin _ vn hvn)
  rw [he, ← keyOf_eq hv, ← keyOf_eq hvp, ← keyOf_eq hvn] at ht
  obtain ⟨hp, hn⟩ := ht
  have a : ¬ vw.prev = u := by
    intro h
    rw [h1 h] at hlt
    exact lexLt_irrefl _ (lexLt_trans hlt hn)
  have b : ¬ vw.next = u := by
    intro h
    rw [h2 h] at hlt
    exact lexLt_irrefl _ (lexLt_trans hlt hp)
  simp [a, b]


/-! ### one pass of `handleNext` -/

open Cav.SweepHeap in
/-- a successful pass ran one of the three handlers from the state without the queue head -/
theorem nextBody_ok {s s' : St XQ} {u : Nat} {es : List Nat} {rest : List (Nat × List Nat)}
    (h : (nextBody s u es rest).run s = .ok ((), s')) :
    ∃ v v1 v2, s.verts[u]? = some v ∧ s.verts[v.prev]? = some v1 ∧ s.verts[v.next]? = some v2 ∧
      ((fromTriplet v.p v1.p v2.p = some .start ∧
          (handleStart v.p v.prev v.next).run { s with events := rest } = .ok ((), s')) ∨
       (fromTriplet v.p v1.p v2.p = some .bend ∧
          (handleBend v.p v.prev v.next es).run { s with events := rest } = .ok ((), s')) ∨
       (fromTriplet v.p v1.p v2.p = some .end_ ∧
          (handleEnd v.p es).run { s with events := rest } = .ok ((), s'))) := by
  unfold nextBody at h
  simp only [bind_ok, getVtx_ok] at h
  obtain ⟨v, s2, ⟨hv, rfl⟩, v1, s3, ⟨hv1, rfl⟩, v2, s4, ⟨hv2, rfl⟩, h⟩ := h
  refine ⟨v, v1, v2, hv, hv1, hv2, ?_⟩
  cases hft : fromTriplet v.p v1.p v2.p with
  | none =>
    rw [hft] at h
    simp only [bind_ok, run_throw, reduceCtorEq, false_and, exists_false] at h
  | some t =>
    rw [hft] at h
    simp only [bind_ok, run_pure, run_set, Except.ok.injEq, Prod.mk.injEq] at h
    obtain ⟨t', s5, ⟨rfl, rfl⟩, u', s6, ⟨-, rfl⟩, h⟩ := h
    cases t with
    | start => exact Or.inl ⟨rfl, h⟩
    | bend => exact Or.inr (Or.inl ⟨rfl, h⟩)
    | end_ => exact Or.inr (Or.inr ⟨rfl, h⟩)

/-- **the invariant is kept by a successful pass** -/
theorem pass {s s' : St XQ} (hR : Ring V) (hK : K V lo s) {u : Nat} {es : List Nat}
    {rest : List (Nat × List Nat)} (hev : s.events = (u, es) :: rest)
    (h : (handleNext : SM XQ Unit).run s = .ok ((), s')) : K V (some (keyOf V u)) s' := by
  have hev' := handleNext_ok hR.fin hK.verts hK.sorted hev h
  rw [SweepHeap.handleNext_run_cons hev] at h
  obtain ⟨v, v1, v2, hv, hv1, hv2, hcase⟩ := nextBody_ok h
  rw [hK.verts] at hv hv1 hv2
  have I0 : Lb V (evLen rest) (rest.map (·.1)) { s with events := rest } := by
    refine ⟨hK.verts, fun w => Nat.le_refl _, ?_⟩
    intro k hk
    obtain ⟨a, ha, rfl⟩ := List.mem_map.mp hk
    exact ⟨a, ha, rfl⟩
  have keys_of : ∀ {c : Nat → Nat}, Lb V c (rest.map (·.1)) s' →
      ∀ a ∈ rest, ∃ a' ∈ s'.events, a'.1 = a.1 :=
    fun hl a ha => hl.2.2 a.1 (List.mem_map_of_mem ha)
  rcases hcase with ⟨hft, hrun⟩ | ⟨hft, hrun⟩ | ⟨hft, hrun⟩
  · have hl := ((handleStart_lb hR.fin hR.inj v.p v.prev v.next).ok I0 hrun).1
    refine K_step hR hK hev hv hev'
      (fun w => (if w = v.prev then 1 else 0) + (if w = v.next then 1 else 0)) ?_ (keys_of hl)
      (reg_start hR hv)
    intro w
    have := hl.2.1 w
    unfold bump at this
    omega
  · obtain ⟨w1, w2, hw1, hw2, hl⟩ := ((handleBend_lb hR.fin hR.inj v.p v.prev v.next es).ok I0 hrun).1
    rw [hv1] at hw1; rw [hv2] at hw2
    cases hw1; cases hw2
    refine K_step hR hK hev hv hev'
      (fun w => if w = (if v1.p.ge v2.p then v.prev else v.next) then 1 else 0) ?_ (keys_of hl)
      (reg_bend hR hv hv1 hv2 hft)
    intro w
    have := hl.2.1 w
    unfold bump at this
    omega
  · have hl := ((handleEnd_lb (V := V) v.p es).ok I0 hrun).1
    refine K_step hR hK hev hv hev' (fun _ => 0) ?_ (keys_of hl) (reg_end hR hv hv1 hv2 hft)
    intro w
    have := hl.2.1 w
    omega


/-! ### the event loop -/

/-- anything but the index panic -/
def NotIdx (e : SErr XQ) : Prop := e ≠ .panic "index"

theorem baseErr_notIdx : SweepHeap.BaseErr NotIdx := by
  refine ⟨?_, ?_, ?_⟩
  · intro k p h; cases h
  · intro p h; cases h
  · intro h
    have : ("borrow" : String) = "index" := by injection h
    exact absurd this (by decide)

theorem loop_no_index (hR : Ring V) :
    ∀ (fuel : Nat) (s : St XQ) (lo : Option (Rat × Rat)), SweepHeap.HeapWF V s → K V lo s →
      (loop fuel : SM XQ Unit).run s ≠ .error (.panic "index") := by
  intro fuel
  induction fuel with
  | zero =>
    intro s lo _ _ h
    unfold loop at h
    cases h
  | succ fuel ih =>
    rintro s lo ⟨N, C, D, hs⟩ hK
    unfold loop
    rw [run_bind, run_get]
    simp only
    cases hev : s.events with
    | nil =>
      simp only [List.isEmpty_nil, if_true]
      intro hc; cases hc
    | cons a rest =>
      obtain ⟨u, es⟩ := a
      simp only [List.isEmpty_cons, Bool.false_eq_true, if_false]
      rw [run_bind]
      have hhead : SweepHeap.EvOk V.size D (u, es) :=
        hs.events _ (by rw [hev]; exact List.mem_cons_self)
      have hb := SweepHeap.nextBody_wa (E := NotIdx) baseErr_notIdx s hs u es rest hhead.1 hhead.2
        (fun ev hev' => hs.events ev (by rw [hev]; exact List.mem_cons_of_mem _ hev'))
        (fun v v1 v2 hv hv1 hv2 hft hlen => by
          have := (pop_count hR hK hev hv hv1 hv2).1 hft
          omega)
        (fun v v1 v2 hv hv1 hv2 hft hlen => by
          have := (pop_count hR hK hev hv hv1 hv2).2 hft
          omega)
      cases hh : (handleNext : SM XQ Unit).run s with
      | error e =>
        simp only
        rw [SweepHeap.handleNext_run_cons hev] at hh
        have : NotIdx e := hb.err hs hh
        intro hc
        simp only [Except.error.injEq] at hc
        exact this hc
      | ok q =>
        obtain ⟨u', s1⟩ := q
        simp only
        have hK1 := pass hR hK hev hh
        rw [SweepHeap.handleNext_run_cons hev] at hh
        obtain ⟨N', C', D', -, -, -, hw, -⟩ := hb.ok hs hh
        exact ih s1 _ ⟨N', C', D', hw⟩ hK1

end Cav.SweepIndex
