/-
  Output of the sweep on general valid input, part 1: the GEOMETRIC quantities in which the
  number and the total area of the emitted triangles are expressed.  Everything is computed from
  the vertex ring `R` alone (no reference to the sweep), decidably, on rationals:

  * `EBelow R u v u' v'`: the left-to-right ring edge `u' → v'` crosses the vertical line through
    the left end `u` of the ring edge `u → v` below that edge (edges leaving `u` itself are
    compared by the orientation determinant);
  * `nBelow R u v`: the number of such edges; `isLo R u v`: it is even — the edge `u → v` is a
    LOWER boundary edge of the even-odd region (the region lies above it);
  * `vWeight R v`: `1` for a Bend vertex, `0` for a Start/End vertex at which the region is
    locally convex (its lower edge is a lower boundary edge), `2` for a Start/End vertex at which
    the region is locally reflex (a Start vertex inside the region, an End vertex that merges two
    in-intervals);
  * `cnt R xs`, `triCountR R`: sum of the weights of the vertices with abscissa `≤ xs`, of all;
  * `wDone R xs`, `areaR R`: sum of `± cross (pt u) (pt v)` over the left-to-right ring edges
    `u → v` (with right end `≤ xs`, all), `+` for lower boundary edges, `-` for upper ones.
-/
import Cav.Lemmas.GenInv
import Cav.Lemmas.CvxLoop

set_option linter.unusedVariables false

namespace Cav.GenOutDefs
open Cav Cav.Geo Cav.QuadGeom Cav.GenGeom Cav.GenInv Cav.CvxLoop

instance (R : RingQ) (xs : Rat) (a b : AE) : Decidable (Below R xs a b) := by
  unfold Below; exact inferInstance

/-- the left-to-right ring edge `u' → v'` passes below the ring edge `u → v` at the abscissa of
    `u` -/
def EBelow (R : RingQ) (u v u' v' : Nat) : Prop :=
  R.x u' ≤ R.x u ∧ R.x u < R.x v' ∧ Below R (R.x u) ⟨0, u', v'⟩ ⟨0, u, v⟩

instance (R : RingQ) (u v u' v' : Nat) : Decidable (EBelow R u v u' v') := by
  unfold EBelow; exact inferInstance

/-- number of ring edges below the ring edge `u → v` at the abscissa of `u` -/
def nBelow (R : RingQ) (u v : Nat) : Nat :=
  ((List.range R.n).map fun u' =>
    (if EBelow R u v u' (R.nxt u') then 1 else 0) + (if EBelow R u v u' (R.prv u') then 1 else 0)).sum

/-- the ring edge `u → v` is a lower boundary edge of the even-odd region -/
def isLo (R : RingQ) (u v : Nat) : Prop := nBelow R u v % 2 = 0

instance (R : RingQ) (u v : Nat) : Decidable (isLo R u v) := by unfold isLo; exact inferInstance

/-- weight of a vertex in the number of triangles -/
def vWeight (R : RingQ) (v : Nat) : Nat :=
  if R.x (R.prv v) < R.x v ∧ R.x (R.nxt v) < R.x v then
    -- End vertex: is the lower one of the two edges a lower boundary edge?
    if 0 < orient (R.pt (R.prv v)) (R.pt v) (R.pt (R.nxt v)) then
      (if isLo R (R.prv v) v then 0 else 2)
    else (if isLo R (R.nxt v) v then 0 else 2)
  else if R.x v < R.x (R.prv v) ∧ R.x v < R.x (R.nxt v) then
    -- Start vertex
    if 0 < orient (R.pt v) (R.pt (R.prv v)) (R.pt (R.nxt v)) then
      (if isLo R v (R.prv v) then 0 else 2)
    else (if isLo R v (R.nxt v) then 0 else 2)
  else 1

/-- sum of the weights of the vertices up to the abscissa `xs` -/
def cnt (R : RingQ) (xs : Rat) : Nat :=
  ((List.range R.n).map fun v => if R.x v ≤ xs then vWeight R v else 0).sum

/-- **the number of triangles** in geometric terms -/
def triCountR (R : RingQ) : Nat := ((List.range R.n).map (vWeight R)).sum

/-- signed doubled area below the left-to-right ring edge `u → v` -/
def eSigned (R : RingQ) (u v : Nat) : Rat :=
  (if isLo R u v then 1 else -1) * cross (R.pt u) (R.pt v)

/-- contribution of the ring edge `u → v` once its right end is at or left of `xs` -/
def eTerm (R : RingQ) (xs : Rat) (u v : Nat) : Rat :=
  if R.x u < R.x v ∧ R.x v ≤ xs then eSigned R u v else 0

def wDone (R : RingQ) (xs : Rat) : Rat :=
  ((List.range R.n).map fun u => eTerm R xs u (R.nxt u) + eTerm R xs u (R.prv u)).sum

/-- contribution of the ring edge `u → v` -/
def eAll (R : RingQ) (u v : Nat) : Rat := if R.x u < R.x v then eSigned R u v else 0

/-- **the doubled area of the even-odd region** in geometric terms: lower boundary edges count
    positively, upper boundary edges negatively -/
def areaR (R : RingQ) : Rat :=
  ((List.range R.n).map fun u => eAll R u (R.nxt u) + eAll R u (R.prv u)).sum

/-- **coherence at a vertex**: walking along the polygon through `v`, the region stays on the same
    side.  (For an edge walked from left to right "the region is on the left" means that the edge
    is a lower boundary edge, for an edge walked from right to left that it is an upper one.) -/
def Coh (R : RingQ) (v : Nat) : Prop :=
  if R.x (R.prv v) < R.x v then
    (if R.x v < R.x (R.nxt v) then (isLo R (R.prv v) v ↔ isLo R v (R.nxt v))
     else (isLo R (R.prv v) v ↔ ¬ isLo R (R.nxt v) v))
  else
    (if R.x v < R.x (R.nxt v) then (isLo R v (R.prv v) ↔ ¬ isLo R v (R.nxt v))
     else (isLo R v (R.prv v) ↔ isLo R (R.nxt v) v))

instance (R : RingQ) (v : Nat) : Decidable (Coh R v) := by unfold Coh; exact inferInstance

end Cav.GenOutDefs
