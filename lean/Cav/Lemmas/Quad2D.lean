/-
  Helper lemmas for `Thm/C09` and `Thm/C10Arith` (nested / 2-D / triangle quadrature over `Rat`).

  * `nested_res_ok_iff`: over `Rat` a successful `nested` run is, in closed form, the symmetric
    rule applied to the per-node inner results (`innerVal`), and it succeeds iff every inner
    integration succeeds;
  * sign facts for the estimate;
  * the tiling invariant of `gk2dLoop` (generic in the per-panel evaluator, reusing the
    sorted-set and chain lemmas of `QuadTiling`).
-/
import Cav.Model.Quad
import Cav.Inst.Rat
import Cav.Lemmas.QuadTiling
import Cav.Lemmas.QuadPoly
import Cav.Thm.C10
import Cav.Thm.C02
import Cav.Thm.C01

open Cav Num Cav.C01
namespace Cav.Quad2D

/-! ### results of `Except` as plain pairs -/

/-- the payload of a successful result, `(0,0)` for a failed one -/
def getOk : Except IntegErr (Rat × Rat) → Rat × Rat
  | .ok p => p
  | .error _ => (0, 0)

@[simp] theorem getOk_ok (p : Rat × Rat) : getOk (.ok p) = p := rfl

/-- `r` is a success -/
def IsOk (r : Except IntegErr (Rat × Rat)) : Prop := ∃ p, r = .ok p

theorem isOk_iff (r : Except IntegErr (Rat × Rat)) : IsOk r ↔ r = .ok (getOk r) := by
  constructor
  · rintro ⟨p, rfl⟩; rfl
  · intro h; exact ⟨_, h⟩

/-! ### `nested` in closed form -/

/-- the result of the inner integration that `nested` makes at the unit node `node` -/
def innerRes (f : Rat → Rat → Rat) (a b : Rat) (iAB : Rat → Rat × Rat) (tol : Rat)
    (mi : Option Nat) (node : Rat) : Except IntegErr (Rat × Rat) :=
  (gk1d (fun y => f (denorm a b node) y) (iAB (denorm a b node)).1 (iAB (denorm a b node)).2
    tol mi).res

/-- its payload -/
def innerVal (f : Rat → Rat → Rat) (a b : Rat) (iAB : Rat → Rat × Rat) (tol : Rat)
    (mi : Option Nat) (node : Rat) : Rat × Rat :=
  getOk (innerRes f a b iAB tol mi node)

theorem go_res_iff (a b : Rat) (inner : Rat → Except IntegErr (Rat × Rat) × InnerCall Rat) :
    ∀ (rest : List (Rat × Rat)) (s accu : Rat) (calls : List (InnerCall Rat)) (v e : Rat),
      (nested.go a b inner rest s accu calls).res = .ok (v, e) ↔
        (∀ nw ∈ rest, IsOk (inner (-nw.1)).1 ∧ IsOk (inner nw.1).1) ∧
        v = (b - a) / 2 * (s + ruleSum (fun x => (getOk (inner x).1).1) rest) ∧
        e = |(b - a) / 2| * (accu + ruleSum (fun x => (getOk (inner x).1).2) rest) := by
  intro rest
  induction rest with
  | nil =>
    intro s accu calls v e
    simp only [nested.go, QuadTiling.two_eq, numAbs_eq, ruleSum_nil, add_zero, List.not_mem_nil,
      false_imp_iff, implies_true, true_and, Except.ok.injEq, Prod.mk.injEq]
    constructor
    · rintro ⟨h1, h2⟩; exact ⟨h1.symm, h2.symm⟩
    · rintro ⟨h1, h2⟩; exact ⟨h1.symm, h2.symm⟩
  | cons p rest ih =>
    intro s accu calls v e
    obtain ⟨n, w⟩ := p
    simp only [nested.go, List.forall_mem_cons, ruleSum_cons, IsOk]
    cases hn : (inner (-n)).1 with
    | error e' => simp
    | ok nres =>
      cases hp : (inner n).1 with
      | error e' => simp
      | ok pres =>
        simp only [ih, IsOk, getOk_ok, Except.ok.injEq, exists_eq', true_and, add_assoc]

/-- the unit nodes of a rule, in closed form over `Rat` -/
theorem unitNodes_cons (n0 w0 : Rat) (rest : List (Rat × Rat)) :
    unitNodes ((n0, w0) :: rest) =
      if n0 = 0 then n0 :: rest.flatMap (fun nw => [-nw.1, nw.1])
      else ((n0, w0) :: rest).flatMap (fun nw => [-nw.1, nw.1]) := by
  simp only [unitNodes, Num.beq, QuadTiling.zero_eq, decide_eq_true_eq]

theorem forall_flatMap_iff (P : Rat → Prop) (rule : List (Rat × Rat)) :
    (∀ x ∈ rule.flatMap (fun nw => [-nw.1, nw.1]), P x) ↔ ∀ nw ∈ rule, P (-nw.1) ∧ P nw.1 := by
  simp only [List.mem_flatMap, List.mem_cons, List.not_mem_nil, or_false]
  constructor
  · intro h nw hnw
    exact ⟨h _ ⟨nw, hnw, Or.inl rfl⟩, h _ ⟨nw, hnw, Or.inr rfl⟩⟩
  · rintro h x ⟨nw, hnw, rfl | rfl⟩
    · exact (h nw hnw).1
    · exact (h nw hnw).2

/-- **closed form of `nested` over `Rat`** (every integrand, bounds in either order, every rule
    list): the run succeeds iff every inner integration succeeds, and then the value is the
    symmetric rule applied to the inner values and the estimate is `|(b−a)/2|` times the same
    rule applied to the inner estimates. -/
theorem nested_res_ok_iff (f : Rat → Rat → Rat) (a b : Rat) (iAB : Rat → Rat × Rat) (tol : Rat)
    (mi : Option Nat) (rule : List (Rat × Rat)) (v e : Rat) :
    (nested f a b iAB tol mi rule).res = .ok (v, e) ↔
      (∀ x ∈ unitNodes rule, IsOk (innerRes f a b iAB tol mi x)) ∧
      v = (b - a) / 2 * unitRule (fun x => (innerVal f a b iAB tol mi x).1) rule ∧
      e = |(b - a) / 2| * unitRule (fun x => (innerVal f a b iAB tol mi x).2) rule := by
  cases rule with
  | nil =>
    simp only [nested, unitNodes, unitRule_nil, QuadTiling.zero_eq, List.not_mem_nil,
      false_imp_iff, implies_true, true_and, mul_zero, Except.ok.injEq, Prod.mk.injEq]
    constructor
    · rintro ⟨h1, h2⟩; exact ⟨h1.symm, h2.symm⟩
    · rintro ⟨h1, h2⟩; exact ⟨h1.symm, h2.symm⟩
  | cons p rest =>
    obtain ⟨n0, w0⟩ := p
    rw [unitNodes_cons, unitRule_cons, unitRule_cons]
    simp only [nested, Num.beq, QuadTiling.zero_eq, decide_eq_true_eq]
    by_cases h0 : n0 = 0
    · subst h0
      simp only [if_true, List.forall_mem_cons, forall_flatMap_iff]
      cases hr : (gk1d (fun y => f (denorm a b 0) y) (iAB (denorm a b 0)).1 (iAB (denorm a b 0)).2
          tol mi).res with
      | error e' =>
        simp [innerRes, IsOk, hr]
      | ok res =>
        simp only [go_res_iff, zero_add, innerRes, innerVal, hr, IsOk, getOk_ok, Except.ok.injEq,
          exists_eq', true_and]
    · simp only [h0, if_false, go_res_iff, zero_add, forall_flatMap_iff, innerRes, innerVal]

/-! ### sign of the estimates -/

/-- a successful 1-D run has a non-negative estimate, also for coincident bounds -/
theorem gk1d_ok_err_nonneg (f : Rat → Rat) (a b tol : Rat) (mi : Option Nat) (v e : Rat)
    (h : (gk1d f a b tol mi).res = .ok (v, e)) : 0 ≤ e := by
  by_cases hab : a = b
  · have hb : Num.beq a b = true := decide_eq_true hab
    rw [(C10.gk1d_eq_bounds f a b tol mi hb).1] at h
    injection h with h
    injection h with _ he
    rw [← he, QuadTiling.zero_eq]
  · exact (gk1d_ok_estimate f a b tol mi v e hab h).2

theorem innerVal_snd_nonneg (f : Rat → Rat → Rat) (a b : Rat) (iAB : Rat → Rat × Rat) (tol : Rat)
    (mi : Option Nat) (x : Rat) : 0 ≤ (innerVal f a b iAB tol mi x).2 := by
  unfold innerVal
  cases h : innerRes f a b iAB tol mi x with
  | error e' => exact le_refl _
  | ok p => exact gk1d_ok_err_nonneg _ _ _ _ _ p.1 p.2 h

theorem ruleSum_nonneg (g : Rat → Rat) (rule : List (Rat × Rat)) (hw : ∀ nw ∈ rule, 0 ≤ nw.2)
    (hg : ∀ x, 0 ≤ g x) : 0 ≤ ruleSum g rule := by
  induction rule with
  | nil => simp
  | cons p ps ih =>
    rw [ruleSum_cons]
    have h1 := hw p List.mem_cons_self
    have h2 := ih (fun q hq => hw q (List.mem_cons_of_mem _ hq))
    have h3 := hg (-p.1)
    have h4 := hg p.1
    positivity

/-- a rule with non-negative weights maps non-negative integrands to non-negative values -/
theorem unitRule_nonneg (g : Rat → Rat) (rule : List (Rat × Rat)) (hw : ∀ nw ∈ rule, 0 ≤ nw.2)
    (hg : ∀ x, 0 ≤ g x) : 0 ≤ unitRule g rule := by
  cases rule with
  | nil => rw [unitRule_nil]
  | cons p rest =>
    obtain ⟨n0, w0⟩ := p
    rw [unitRule_cons]
    have h0 : 0 ≤ w0 := hw (n0, w0) List.mem_cons_self
    split
    · have h1 := ruleSum_nonneg g rest (fun q hq => hw q (List.mem_cons_of_mem _ hq)) hg
      have h2 := hg 0
      positivity
    · exact ruleSum_nonneg g _ hw hg

theorem g10_weights_nonneg : ∀ nw ∈ (Gen.g10 : List (Rat × Rat)), 0 ≤ nw.2 :=
  fun nw h => (weights_pos_nodes_in_unit.1 nw h).1.le

theorem k21_weights_nonneg : ∀ nw ∈ (Gen.k21 : List (Rat × Rat)), 0 ≤ nw.2 :=
  fun nw h => (weights_pos_nodes_in_unit.2 nw h).1.le

/-! ### `gkApprox2` over `Rat` -/

theorem ofMax_rat (x y : Rat) : ofMax x y = max x y := by
  unfold ofMax ofCmp ofLt ofGt ofGe
  simp only [Num.isNaN, Num.le, Bool.false_or, Bool.not_eq_true', decide_eq_false_iff_not,
    not_le]
  rcases lt_trichotomy x y with h | h | h
  · simp [h, max_eq_right h.le]
  · subst h; simp
  · simp [h, lt_asymm h, max_eq_left h.le]

/-- the payload of `gkApprox2` -/
def approx2 (f : Rat → Rat → Rat) (iAB : Rat → Rat × Rat) (tol : Rat) (mi : Option Nat)
    (a b : Rat) : Rat × Rat :=
  getOk (gkApprox2 f iAB tol mi a b).1

/-- `gkApprox2` succeeds iff both nested runs do; value and estimate in plain arithmetic -/
theorem gkApprox2_ok_iff (f : Rat → Rat → Rat) (iAB : Rat → Rat × Rat) (tol : Rat)
    (mi : Option Nat) (a b v e : Rat) :
    (gkApprox2 f iAB tol mi a b).1 = .ok (v, e) ↔
      ∃ li ki, (nested f a b iAB (tol / 2) mi Gen.g10).res = .ok li ∧
        (nested f a b iAB (tol / 2) mi Gen.k21).res = .ok ki ∧
        v = ki.1 ∧ e = |li.1 - ki.1| + max li.2 ki.2 := by
  unfold gkApprox2
  simp only [QuadTiling.two_eq]
  cases hl : (nested f a b iAB (tol / 2) mi Gen.g10).res with
  | error e' => simp
  | ok li =>
    cases hk : (nested f a b iAB (tol / 2) mi Gen.k21).res with
    | error e' => simp
    | ok ki =>
      simp only [numAbs_eq, ofMax_rat, Except.ok.injEq, Prod.mk.injEq]
      constructor
      · rintro ⟨h1, h2⟩; exact ⟨li, ki, rfl, rfl, h1.symm, h2.symm⟩
      · rintro ⟨li', ki', rfl, rfl, h1, h2⟩; exact ⟨h1.symm, h2.symm⟩

/-! ### the tiling invariant, generic in the per-panel evaluator

`QuadTiling.Inv` is stated for `gkApprox`; the 2-D loop has the same body with `gkApprox2`
(which may fail).  `Inv2` keeps the sorted-set / chain / sum parts and abstracts "the panel was
produced by the evaluator" into a predicate `P`. -/

open Cav.QuadTiling

structure Inv2 (P : Panel Rat → Prop) (r : Rat → Rat → Prop) (a b : Rat)
    (accu : Rat) (set : List (Panel Rat)) : Prop where
  sorted : Sorted set
  good : ∀ p ∈ set, P p
  tiling : ∃ L : List (Rat × Rat), L.Perm (set.map ab) ∧ Chain a b L ∧ ∀ p ∈ L, r p.1 p.2
  accu : accu = (set.map (·.err)).sum

theorem Inv2.mono {P Q : Panel Rat → Prop} {r : Rat → Rat → Prop} {a b accu : Rat}
    {set : List (Panel Rat)} (h : ∀ p, P p → Q p) (inv : Inv2 P r a b accu set) :
    Inv2 Q r a b accu set :=
  ⟨inv.sorted, fun p hp => h p (inv.good p hp), inv.tiling, inv.accu⟩

theorem Inv2.init (P : Panel Rat → Prop) {r : Rat → Rat → Prop} {a b : Rat} (hab : r a b)
    (p : Panel Rat) (hp : P p) (hpa : p.a = a) (hpb : p.b = b) : Inv2 P r a b p.err [p] where
  sorted := List.pairwise_singleton _ _
  good := by intro q hq; rw [List.mem_singleton.mp hq]; exact hp
  tiling := ⟨[(a, b)], by simp [ab, hpa, hpb], ⟨rfl, rfl⟩, by
    intro q hq; rw [List.mem_singleton.mp hq]; exact hab⟩
  accu := by simp

/-- one bisection step preserves the invariant; the selected panel is non-degenerate -/
theorem Inv2.step {P : Panel Rat → Prop} {r : Rat → Rat → Prop} (hr : Dir r) {a b accu : Rat}
    {set : List (Panel Rat)} (inv : Inv2 P r a b accu set)
    {iv : Panel Rat} (hiv : iv ∈ set) {m : Rat} (hm : m = (iv.a + iv.b) / 2)
    (Lp Rp : Panel Rat) (hLab : ab Lp = (iv.a, m)) (hRab : ab Rp = (m, iv.b))
    (hL : P Lp) (hR : P Rp) :
    iv.a ≠ iv.b ∧
    Inv2 P r a b (accu - iv.err + (Lp.err + Rp.err))
      (setRemove iv (setInsert Rp (setInsert Lp set))) := by
  obtain ⟨L, hperm, hchain, hdir⟩ := inv.tiling
  have hivL : (iv.a, iv.b) ∈ L := hperm.mem_iff.mpr (List.mem_map.mpr ⟨iv, hiv, rfl⟩)
  obtain ⟨L1, L2, rfl⟩ := List.append_of_mem hivL
  have hxy : r iv.a iv.b := hdir _ hivL
  have hxm : r iv.a m := hm ▸ hr.midl hxy
  have hmy : r m iv.b := hm ▸ hr.midr hxy
  refine ⟨fun h => hr.irrefl _ (h ▸ hxy), ?_⟩
  -- the children are new
  have hLnew : Lp ∉ set := by
    intro h
    have : ab Lp ∈ L1 ++ (iv.a, iv.b) :: L2 := hperm.mem_iff.mpr (List.mem_map.mpr ⟨Lp, h, rfl⟩)
    rw [hLab] at this
    exact chain_left_not_mem hr hchain hdir hxm hmy this
  have hRnew : Rp ∉ setInsert Lp set := by
    intro h
    rcases mem_setInsert h with h | h
    · have h' : ab Rp = ab Lp := by rw [h]
      rw [hLab, hRab] at h'
      have : m = iv.a := congrArg Prod.fst h'
      exact hr.irrefl _ (this ▸ hxm)
    · have : ab Rp ∈ L1 ++ (iv.a, iv.b) :: L2 := hperm.mem_iff.mpr (List.mem_map.mpr ⟨Rp, h, rfl⟩)
      rw [hRab] at this
      exact chain_right_not_mem hr hchain hdir hxm hmy this
  have hs2 : Sorted (setInsert Rp (setInsert Lp set)) := setInsert_sorted (setInsert_sorted inv.sorted)
  have hp2 : (setInsert Rp (setInsert Lp set)).Perm (Rp :: Lp :: set) :=
    (setInsert_perm hRnew).trans ((setInsert_perm hLnew).cons Rp)
  have hiv2 : iv ∈ setInsert Rp (setInsert Lp set) :=
    hp2.mem_iff.mpr (List.mem_cons_of_mem _ (List.mem_cons_of_mem _ hiv))
  have hp3 := setRemove_perm hs2 hiv2
  have hs3 : Sorted (setRemove iv (setInsert Rp (setInsert Lp set))) := setRemove_sorted hs2
  generalize setRemove iv (setInsert Rp (setInsert Lp set)) = set' at hp3 hs3 ⊢
  have hp4 : (iv :: set').Perm (Rp :: Lp :: set) := hp3.symm.trans hp2
  have hmem : ∀ p ∈ set', p = Rp ∨ p = Lp ∨ p ∈ set := by
    intro p hp
    have := hp4.mem_iff.mp (List.mem_cons_of_mem _ hp)
    simpa using this
  refine ⟨hs3, ?_, ?_, ?_⟩
  · intro p hp
    rcases hmem p hp with rfl | rfl | h
    · exact hR
    · exact hL
    · exact inv.good p h
  · refine ⟨L1 ++ (iv.a, m) :: (m, iv.b) :: L2, ?_, chain_bisect hchain, ?_⟩
    · have h1 : ((iv.a, iv.b) :: set'.map ab).Perm ((m, iv.b) :: (iv.a, m) :: set.map ab) := by
        have := hp4.map ab
        have hiab : ab iv = (iv.a, iv.b) := rfl
        simpa only [List.map_cons, hLab, hRab, hiab] using this
      have h2 : ((m, iv.b) :: (iv.a, m) :: set.map ab).Perm
          ((m, iv.b) :: (iv.a, m) :: (iv.a, iv.b) :: (L1 ++ L2)) :=
        ((hperm.symm.trans List.perm_middle).cons _).cons _
      have h3 : ((m, iv.b) :: (iv.a, m) :: (iv.a, iv.b) :: (L1 ++ L2)).Perm
          ((iv.a, iv.b) :: (m, iv.b) :: (iv.a, m) :: (L1 ++ L2)) :=
        List.perm_middle (l₁ := [(m, iv.b), (iv.a, m)])
      have h4 : (set'.map ab).Perm ((m, iv.b) :: (iv.a, m) :: (L1 ++ L2)) :=
        (h1.trans (h2.trans h3)).cons_inv
      have h5 : (L1 ++ (iv.a, m) :: (m, iv.b) :: L2).Perm ((iv.a, m) :: (m, iv.b) :: (L1 ++ L2)) :=
        List.perm_middle.trans (List.perm_middle.cons _)
      exact (h5.trans (List.Perm.swap _ _ _)).trans h4.symm
    · intro p hp
      rcases List.mem_append.mp hp with h | h
      · exact hdir p (List.mem_append_left _ h)
      · rcases List.mem_cons.mp h with rfl | h
        · exact hxm
        · rcases List.mem_cons.mp h with rfl | h
          · exact hmy
          · exact hdir p (List.mem_append_right _ (List.mem_cons_of_mem _ h))
  · have h1 := (hp4.map (·.err)).sum_eq
    simp only [List.map_cons, List.sum_cons] at h1
    rw [inv.accu]
    linarith

/-! ### the 2-D loop -/

/-- the panel `p` was produced by `gkApprox2` on its interval, and that call is in the trace -/
def Good2 (f : Rat → Rat → Rat) (iAB : Rat → Rat × Rat) (tol : Rat) (mi : Option Nat)
    (tr : List (Rat × Rat × List (InnerCall Rat) × List (InnerCall Rat))) (p : Panel Rat) : Prop :=
  (gkApprox2 f iAB tol mi p.a p.b).1 = .ok (p.val, p.err) ∧ (gkApprox2 f iAB tol mi p.a p.b).2 ∈ tr

theorem Good2.mono {f : Rat → Rat → Rat} {iAB : Rat → Rat × Rat} {tol : Rat} {mi : Option Nat}
    {tr tr' : List (Rat × Rat × List (InnerCall Rat) × List (InnerCall Rat))}
    (h : ∀ t ∈ tr, t ∈ tr') (p : Panel Rat) (hp : Good2 f iAB tol mi tr p) :
    Good2 f iAB tol mi tr' p := ⟨hp.1, h _ hp.2⟩

/-- a successful run of the 2-D loop from a state satisfying the invariant returns a tiling sum -/
theorem gk2dLoop_tiling {r : Rat → Rat → Prop} (hr : Dir r) (f : Rat → Rat → Rat)
    (iAB : Rat → Rat × Rat) (tol : Rat) (mi : Option Nat) (a b : Rat) :
    ∀ (fuel : Nat) (accu : Rat) (set : List (Panel Rat))
      (tr : List (Rat × Rat × List (InnerCall Rat) × List (InnerCall Rat))) (v e : Rat),
      Inv2 (Good2 f iAB tol mi tr) r a b accu set →
      (gk2dLoop f iAB tol mi fuel accu set tr).res = .ok (v, e) →
      ∃ L : List (Rat × Rat), Chain a b L ∧ (∀ p ∈ L, r p.1 p.2) ∧
        (∀ p ∈ L, (gkApprox2 f iAB tol mi p.1 p.2).1 = .ok (approx2 f iAB tol mi p.1 p.2)) ∧
        v = (L.map (fun p => (approx2 f iAB tol mi p.1 p.2).1)).sum ∧
        e = (L.map (fun p => (approx2 f iAB tol mi p.1 p.2).2)).sum ∧
        ∀ p ∈ L, (gkApprox2 f iAB tol mi p.1 p.2).2 ∈ (gk2dLoop f iAB tol mi fuel accu set tr).panels := by
  intro fuel
  induction fuel with
  | zero => intro accu set tr v e _ h; simp [gk2dLoop] at h
  | succ n ih =>
    intro accu set tr v e inv h
    unfold gk2dLoop at h ⊢
    have hn : Num.isNaN accu = false := rfl
    simp only [hn] at h ⊢
    by_cases hl : Num.lt accu tol = true
    · simp only [hl, if_true, Bool.false_eq_true, if_false] at h ⊢
      injection h with h
      injection h with hv he
      obtain ⟨L, hperm, hchain, hdir⟩ := inv.tiling
      have hval : ∀ p ∈ set, approx2 f iAB tol mi p.a p.b = (p.val, p.err) := by
        intro p hp; unfold approx2; rw [(inv.good p hp).1]; rfl
      refine ⟨L, hchain, hdir, ?_, ?_, ?_, ?_⟩
      · intro p hp
        obtain ⟨q, hq, rfl⟩ := List.mem_map.mp (hperm.mem_iff.mp hp)
        show (gkApprox2 f iAB tol mi q.a q.b).1 = .ok (approx2 f iAB tol mi q.a q.b)
        rw [hval q hq]; exact (inv.good q hq).1
      · rw [← hv, sumVals_eq, zero_eq, neg_zero, zero_add]
        rw [(hperm.map _).sum_eq, List.map_map]
        congr 1
        apply List.map_congr_left
        intro p hp
        show p.val = (approx2 f iAB tol mi p.a p.b).1
        rw [hval p hp]
      · rw [← he, inv.accu, (hperm.map _).sum_eq, List.map_map]
        congr 1
        apply List.map_congr_left
        intro p hp
        show p.err = (approx2 f iAB tol mi p.a p.b).2
        rw [hval p hp]
      · intro p hp
        obtain ⟨q, hq, rfl⟩ := List.mem_map.mp (hperm.mem_iff.mp hp)
        exact List.mem_reverse.mpr (inv.good q hq).2
    · simp only [hl, Bool.false_eq_true, if_false] at h ⊢
      cases hs : set.getLast? with
      | none => simp [hs] at h
      | some iv =>
        simp only [hs] at h ⊢
        have hiv : iv ∈ set := List.mem_of_getLast? hs
        rcases hgl : gkApprox2 f iAB tol mi iv.a ((iv.a + iv.b) / two) with ⟨lr, lt⟩
        rcases hgr : gkApprox2 f iAB tol mi ((iv.a + iv.b) / two) iv.b with ⟨rr, rt⟩
        have hne0 : iv.a ≠ iv.b := by
          obtain ⟨L, hperm, hchain, hdir⟩ := inv.tiling
          have hivL : (iv.a, iv.b) ∈ L := hperm.mem_iff.mpr (List.mem_map.mpr ⟨iv, hiv, rfl⟩)
          exact fun h => hr.irrefl _ (h ▸ hdir _ hivL)
        have hb : Num.bne iv.a iv.b = true := by
          simp [Num.bne, Num.beq, hne0]
        simp only [hb, if_true, hgl, hgr] at h ⊢
        cases lr with
        | error e' => simp at h
        | ok left =>
          simp only at h ⊢
          cases rr with
          | error e' => simp at h
          | ok right =>
            simp only at h ⊢
            have inv0 : Inv2 (Good2 f iAB tol mi (rt :: lt :: tr)) r a b accu set :=
              inv.mono (Good2.mono (fun t ht => List.mem_cons_of_mem _ (List.mem_cons_of_mem _ ht)))
            obtain ⟨_, inv'⟩ := inv0.step hr hiv (m := (iv.a + iv.b) / two) (by rw [two_eq])
              ⟨left.2, left.1, iv.a, (iv.a + iv.b) / two⟩ ⟨right.2, right.1, (iv.a + iv.b) / two, iv.b⟩
              rfl rfl
              ⟨by show (gkApprox2 f iAB tol mi iv.a ((iv.a + iv.b) / two)).1 = _; rw [hgl],
               by show (gkApprox2 f iAB tol mi iv.a ((iv.a + iv.b) / two)).2 ∈ _; rw [hgl]
                  exact List.mem_cons_of_mem _ List.mem_cons_self⟩
              ⟨by show (gkApprox2 f iAB tol mi ((iv.a + iv.b) / two) iv.b).1 = _; rw [hgr],
               by show (gkApprox2 f iAB tol mi ((iv.a + iv.b) / two) iv.b).2 ∈ _; rw [hgr]
                  exact List.mem_cons_self⟩
            exact ih _ _ _ _ _ inv' h

/-- the 2-D routine: a successful run on distinct outer bounds is a tiling sum -/
theorem gk2d_ok_tiling (f : Rat → Rat → Rat) (a b : Rat) (iAB : Rat → Rat × Rat) (tol : Rat)
    (mi : Option Nat) (v e : Rat) (hab : a ≠ b)
    (h : (gk2d f a b iAB tol mi).res = .ok (v, e)) :
    ∃ L : List (Rat × Rat), C02.IsChain a b L ∧ C02.Directed a b L ∧
      (∀ p ∈ L, (gkApprox2 f iAB tol mi p.1 p.2).1 = .ok (approx2 f iAB tol mi p.1 p.2)) ∧
      v = (L.map (fun p => (approx2 f iAB tol mi p.1 p.2).1)).sum ∧
      e = (L.map (fun p => (approx2 f iAB tol mi p.1 p.2).2)).sum ∧
      ∀ p ∈ L, (gkApprox2 f iAB tol mi p.1 p.2).2 ∈ (gk2d f a b iAB tol mi).panels := by
  unfold gk2d at h ⊢
  have hb : Num.beq a b = false := by simp [Num.beq, hab]
  simp only [hb, Bool.false_eq_true, if_false] at h ⊢
  rcases hg : gkApprox2 f iAB tol mi a b with ⟨r0, t0⟩
  simp only [hg] at h ⊢
  cases r0 with
  | error e' => simp at h
  | ok va =>
    simp only at h ⊢
    have hgood : Good2 f iAB tol mi [t0] ⟨va.2, va.1, a, b⟩ :=
      ⟨by show (gkApprox2 f iAB tol mi a b).1 = _; rw [hg],
       by show (gkApprox2 f iAB tol mi a b).2 ∈ _; rw [hg]; exact List.mem_singleton.mpr rfl⟩
    have hne : ∀ L, Chain a b L → L ≠ [] := by
      rintro L hc rfl; exact hab hc
    rcases lt_or_gt_of_ne hab with hlt | hgt
    · obtain ⟨L, hc, hd, hok, hv, he, hp⟩ :=
        gk2dLoop_tiling dir_lt f iAB tol mi a b _ _ _ _ v e
          (Inv2.init _ (r := fun x y => x < y) hlt ⟨va.2, va.1, a, b⟩ hgood rfl rfl) h
      exact ⟨L, C02.isChain_iff.mpr ⟨hne L hc, hc⟩,
        fun p hp => ⟨fun _ => hd p hp, fun h' => absurd hlt (lt_asymm h')⟩, hok, hv, he, hp⟩
    · obtain ⟨L, hc, hd, hok, hv, he, hp⟩ :=
        gk2dLoop_tiling dir_gt f iAB tol mi a b _ _ _ _ v e
          (Inv2.init _ (r := fun x y => y < x) hgt ⟨va.2, va.1, a, b⟩ hgood rfl rfl) h
      exact ⟨L, C02.isChain_iff.mpr ⟨hne L hc, hc⟩,
        fun p hp => ⟨fun h' => absurd hgt (lt_asymm h'), fun _ => hd p hp⟩, hok, hv, he, hp⟩

/-! ### the zero integrand -/

theorem fuel_pos {mi : Option Nat} (hmi : mi ≠ some 0) :
    ∃ n, mi.getD 18446744073709551615 = n + 1 := by
  cases mi with
  | none => exact ⟨18446744073709551614, rfl⟩
  | some n =>
    cases n with
    | zero => exact absurd rfl hmi
    | succ k => exact ⟨k, rfl⟩

theorem gkApprox_zero (a b : Rat) : gkApprox (fun _ => (0 : Rat)) a b = (0, 0) := by
  have h : ∀ rule, symRule (fun _ => (0 : Rat)) a b rule = 0 := by
    intro rule; rw [symRule_eq, unitRule_zero, mul_zero]
  apply Prod.ext
  · rw [gkApprox_fst, h]
  · rw [gkApprox_snd, h, h]; simp

/-- the 1-D routine on the zero integrand: `(0,0)` as soon as `0 < tol` and the budget is not 0 -/
theorem gk1d_zero (a b tol : Rat) (mi : Option Nat) (htol : 0 < tol) (hmi : mi ≠ some 0) :
    (gk1d (fun _ => (0 : Rat)) a b tol mi).res = .ok (0, 0) := by
  by_cases hab : a = b
  · have hb : Num.beq a b = true := decide_eq_true hab
    rw [(C10.gk1d_eq_bounds _ a b tol mi hb).1, QuadTiling.zero_eq]
  · obtain ⟨n, hn⟩ := fuel_pos hmi
    rw [C02.gk1d_of_ne _ a b tol mi hab, hn, gkApprox_zero]
    unfold gk1dLoop
    have h1 : Num.isNaN (0 : Rat) = false := rfl
    have h2 : Num.lt (0 : Rat) tol = true := decide_eq_true htol
    simp only [h1, h2, if_true, Bool.false_eq_true, if_false, QuadTiling.sumVals_eq,
      QuadTiling.zero_eq]
    simp

/-- `nested` on an integrand that vanishes identically -/
theorem nested_zero (f : Rat → Rat → Rat) (hf : ∀ x y, f x y = 0) (a b : Rat)
    (iAB : Rat → Rat × Rat) (tol : Rat) (mi : Option Nat) (htol : 0 < tol) (hmi : mi ≠ some 0)
    (rule : List (Rat × Rat)) : (nested f a b iAB tol mi rule).res = .ok (0, 0) := by
  have hin : ∀ x, innerRes f a b iAB tol mi x = .ok (0, 0) := by
    intro x
    unfold innerRes
    have : (fun y => f (denorm a b x) y) = fun _ => (0 : Rat) := funext (fun y => hf _ y)
    rw [this]
    exact gk1d_zero _ _ tol mi htol hmi
  have hv : ∀ x, innerVal f a b iAB tol mi x = (0, 0) := by
    intro x; unfold innerVal; rw [hin x]; rfl
  rw [nested_res_ok_iff]
  refine ⟨fun x _ => ⟨_, hin x⟩, ?_, ?_⟩
  · simp only [hv, unitRule_zero, mul_zero]
  · simp only [hv, unitRule_zero, mul_zero]

theorem gkApprox2_zero (f : Rat → Rat → Rat) (hf : ∀ x y, f x y = 0) (iAB : Rat → Rat × Rat)
    (tol : Rat) (mi : Option Nat) (htol : 0 < tol) (hmi : mi ≠ some 0) (a b : Rat) :
    (gkApprox2 f iAB tol mi a b).1 = .ok (0, 0) := by
  have h2 : 0 < tol / 2 := by linarith
  rw [gkApprox2_ok_iff]
  exact ⟨(0, 0), (0, 0), nested_zero f hf a b iAB _ mi h2 hmi _, nested_zero f hf a b iAB _ mi h2 hmi _,
    rfl, by simp⟩

/-- the 2-D routine on an integrand that vanishes identically -/
theorem gk2d_zero (f : Rat → Rat → Rat) (hf : ∀ x y, f x y = 0) (a b : Rat) (iAB : Rat → Rat × Rat)
    (tol : Rat) (mi : Option Nat) (htol : 0 < tol) (hmi : mi ≠ some 0) :
    (gk2d f a b iAB tol mi).res = .ok (0, 0) := by
  unfold gk2d
  by_cases hab : a = b
  · have hb : Num.beq a b = true := decide_eq_true hab
    simp only [hb, if_true, QuadTiling.zero_eq]
  · have hb : Num.beq a b = false := by simp [Num.beq, hab]
    simp only [hb, Bool.false_eq_true, if_false]
    have hg := gkApprox2_zero f hf iAB tol mi htol hmi a b
    rcases hg' : gkApprox2 f iAB tol mi a b with ⟨r0, t0⟩
    rw [hg'] at hg
    simp only at hg
    subst hg
    obtain ⟨n, hn⟩ := fuel_pos hmi
    simp only [hn]
    unfold gk2dLoop
    have h1 : Num.isNaN (0 : Rat) = false := rfl
    have h2 : Num.lt (0 : Rat) tol = true := decide_eq_true htol
    simp only [h1, h2, if_true, Bool.false_eq_true, if_false, QuadTiling.sumVals_eq,
      QuadTiling.zero_eq]
    simp

/-! ### swapping the outer bounds -/

theorem denorm_swap (a b x : Rat) : denorm b a x = denorm a b (-x) := by
  rw [denorm_eq, denorm_eq]; ring

theorem innerRes_outer_swap (f : Rat → Rat → Rat) (a b : Rat) (iAB : Rat → Rat × Rat) (tol : Rat)
    (mi : Option Nat) (x : Rat) : innerRes f b a iAB tol mi x = innerRes f a b iAB tol mi (-x) := by
  unfold innerRes; rw [denorm_swap]

theorem neg_mem_unitNodes {rule : List (Rat × Rat)} {x : Rat} (h : x ∈ unitNodes rule) :
    -x ∈ unitNodes rule := by
  have hflat : ∀ (l : List (Rat × Rat)) (y : Rat), y ∈ l.flatMap (fun nw => [-nw.1, nw.1]) →
      -y ∈ l.flatMap (fun nw => [-nw.1, nw.1]) := by
    intro l y hy
    simp only [List.mem_flatMap, List.mem_cons, List.not_mem_nil, or_false] at hy ⊢
    obtain ⟨nw, hnw, rfl | rfl⟩ := hy
    · exact ⟨nw, hnw, Or.inr (neg_neg _)⟩
    · exact ⟨nw, hnw, Or.inl rfl⟩
  cases rule with
  | nil => simp [unitNodes] at h
  | cons p rest =>
    obtain ⟨n0, w0⟩ := p
    rw [unitNodes_cons] at h ⊢
    by_cases h0 : n0 = 0
    · simp only [h0, if_true, List.mem_cons] at h ⊢
      rcases h with rfl | h
      · exact Or.inl neg_zero
      · exact Or.inr (hflat _ _ h)
    · simp only [h0, if_false] at h ⊢
      exact hflat _ _ h

/-- **outer swap in closed form**: if the run from `a` to `b` succeeds, so does the run from `b`
    to `a`, with the opposite value and the same estimate (every rule list) -/
theorem nested_outer_swap (f : Rat → Rat → Rat) (a b : Rat) (iAB : Rat → Rat × Rat) (tol : Rat)
    (mi : Option Nat) (rule : List (Rat × Rat)) (v e : Rat)
    (h : (nested f a b iAB tol mi rule).res = .ok (v, e)) :
    (nested f b a iAB tol mi rule).res = .ok (-v, e) := by
  obtain ⟨hok, hv, he⟩ := (nested_res_ok_iff f a b iAB tol mi rule v e).mp h
  rw [nested_res_ok_iff]
  have hval : ∀ x, innerVal f b a iAB tol mi x = innerVal f a b iAB tol mi (-x) := by
    intro x; unfold innerVal; rw [innerRes_outer_swap]
  refine ⟨?_, ?_, ?_⟩
  · intro x hx
    rw [innerRes_outer_swap]
    exact hok _ (neg_mem_unitNodes hx)
  · simp only [hval]
    rw [unitRule_comp_neg (fun x => (innerVal f a b iAB tol mi x).1), hv]
    ring
  · simp only [hval]
    rw [unitRule_comp_neg (fun x => (innerVal f a b iAB tol mi x).2), he,
      show (a - b) / 2 = -((b - a) / 2) by ring, abs_neg]

/-- `unitRule` only looks at the integrand on `unitNodes` -/
theorem unitRule_congr (rule : List (Rat × Rat)) (g1 g2 : Rat → Rat)
    (hg : ∀ x ∈ unitNodes rule, g1 x = g2 x) : unitRule g1 rule = unitRule g2 rule := by
  cases rule with
  | nil => rw [unitRule_nil, unitRule_nil]
  | cons p rest =>
    obtain ⟨n0, w0⟩ := p
    have hrs : ∀ (l : List (Rat × Rat)),
        (∀ x ∈ l.flatMap (fun nw => [-nw.1, nw.1]), g1 x = g2 x) → ruleSum g1 l = ruleSum g2 l := by
      intro l hl
      rw [forall_flatMap_iff (fun x => g1 x = g2 x)] at hl
      unfold ruleSum
      congr 1
      apply List.map_congr_left
      intro nw hnw
      rw [(hl nw hnw).1, (hl nw hnw).2]
    rw [unitNodes_cons] at hg
    rw [unitRule_cons, unitRule_cons]
    by_cases h0 : n0 = 0
    · simp only [h0, if_true, List.forall_mem_cons] at hg ⊢
      rw [hg.1, hrs rest hg.2]
    · simp only [h0, if_false] at hg ⊢
      exact hrs _ hg

/-! ### swapping the inner bounds -/

/-- swap of the inner-bound function -/
def swapAB (iAB : Rat → Rat × Rat) : Rat → Rat × Rat := fun x => ((iAB x).2, (iAB x).1)

/-- `(v, e) ↦ (−v, e)` on results -/
def negVal : Except IntegErr (Rat × Rat) → Except IntegErr (Rat × Rat)
  | .ok p => .ok (-p.1, p.2)
  | .error e => .error e

/-- inner swap under the hypothesis that every inner run is swap-symmetric -/
theorem nested_inner_swap_of (f : Rat → Rat → Rat) (a b : Rat) (iAB : Rat → Rat × Rat) (tol : Rat)
    (mi : Option Nat) (rule : List (Rat × Rat))
    (hsym : ∀ x ∈ unitNodes rule,
      innerRes f a b (swapAB iAB) tol mi x = negVal (innerRes f a b iAB tol mi x))
    (v e : Rat) (h : (nested f a b iAB tol mi rule).res = .ok (v, e)) :
    (nested f a b (swapAB iAB) tol mi rule).res = .ok (-v, e) := by
  obtain ⟨hok, hv, he⟩ := (nested_res_ok_iff f a b iAB tol mi rule v e).mp h
  rw [nested_res_ok_iff]
  have hval : ∀ x ∈ unitNodes rule, innerVal f a b (swapAB iAB) tol mi x =
      (-(innerVal f a b iAB tol mi x).1, (innerVal f a b iAB tol mi x).2) := by
    intro x hx
    unfold innerVal
    rw [hsym x hx]
    obtain ⟨p, hp⟩ := hok x hx
    rw [hp]; rfl
  refine ⟨?_, ?_, ?_⟩
  · intro x hx
    rw [hsym x hx]
    obtain ⟨p, hp⟩ := hok x hx
    rw [hp]; exact ⟨_, rfl⟩
  · rw [unitRule_congr rule _ (fun x => -(innerVal f a b iAB tol mi x).1)
      (fun x hx => by rw [hval x hx])]
    have := unitRule_smul (-1) (fun x => (innerVal f a b iAB tol mi x).1) rule
    simp only [neg_mul, one_mul] at this
    rw [this, hv]; ring
  · rw [unitRule_congr rule _ (fun x => (innerVal f a b iAB tol mi x).2)
      (fun x hx => by rw [hval x hx]), he]

/-- the 1-D run stops on its first panel -/
theorem gk1d_first_panel (g : Rat → Rat) (a b tol : Rat) (mi : Option Nat) (hab : a ≠ b)
    (hmi : mi ≠ some 0) (hlt : (gkApprox g a b).2 < tol) :
    (gk1d g a b tol mi).res = .ok ((gkApprox g a b).1, (gkApprox g a b).2) := by
  obtain ⟨n, hn⟩ := fuel_pos hmi
  rw [C02.gk1d_of_ne g a b tol mi hab, hn]
  unfold gk1dLoop
  have h1 : Num.isNaN (gkApprox g a b).2 = false := rfl
  have h2 : Num.lt (gkApprox g a b).2 tol = true := decide_eq_true hlt
  simp only [h1, h2, if_true, Bool.false_eq_true, if_false, QuadTiling.sumVals_eq,
    QuadTiling.zero_eq]
  simp

/-- "the 1-D run on `[a,b]` needs one panel only": coincident bounds, or first estimate `< tol` -/
def FirstPanel (g : Rat → Rat) (a b tol : Rat) : Prop := a = b ∨ (gkApprox g a b).2 < tol

instance (g : Rat → Rat) (a b tol : Rat) : Decidable (FirstPanel g a b tol) := by
  unfold FirstPanel; infer_instance

/-- a one-panel 1-D run is exactly swap-symmetric -/
theorem gk1d_swap_first_panel (g : Rat → Rat) (a b tol : Rat) (mi : Option Nat)
    (hmi : mi ≠ some 0) (h : FirstPanel g a b tol) :
    (gk1d g b a tol mi).res = negVal (gk1d g a b tol mi).res := by
  by_cases hab : a = b
  · subst hab
    have hb : Num.beq a a = true := decide_eq_true rfl
    rw [(C10.gk1d_eq_bounds g a a tol mi hb).1, QuadTiling.zero_eq]
    simp [negVal]
  · have hlt : (gkApprox g a b).2 < tol := h.resolve_left hab
    have hsw := gkApprox_swap g a b
    rw [gk1d_first_panel g a b tol mi hab hmi hlt,
      gk1d_first_panel g b a tol mi (Ne.symm hab) hmi (by rw [hsw.2]; exact hlt), hsw.1, hsw.2]
    rfl

/-! ### tensor-product form when every inner run stops on its first panel -/

theorem symRule_same (g : Rat → Rat) (a : Rat) (rule : List (Rat × Rat)) : symRule g a a rule = 0 := by
  rw [symRule_eq]; simp

/-- the value of a one-panel 1-D run is the K21 value of `[a,b]` (also for coincident bounds) -/
theorem gk1d_first_panel_value (g : Rat → Rat) (a b tol : Rat) (mi : Option Nat) (hmi : mi ≠ some 0)
    (h : FirstPanel g a b tol) : ∃ e, (gk1d g a b tol mi).res = .ok (symRule g a b Gen.k21, e) := by
  by_cases hab : a = b
  · subst hab
    refine ⟨0, ?_⟩
    rw [(C10.gk1d_eq_bounds g a a tol mi (decide_eq_true rfl)).1, QuadTiling.zero_eq, symRule_same]
  · exact ⟨_, gk1d_first_panel g a b tol mi hab hmi (h.resolve_left hab)⟩

/-- **tensor-product form**: if every inner run stops on its first panel, the nested value is the
    outer rule applied to the inner K21 values -/
theorem nested_first_panel_value (f : Rat → Rat → Rat) (a b : Rat) (iAB : Rat → Rat × Rat)
    (tol : Rat) (mi : Option Nat) (rule : List (Rat × Rat)) (hmi : mi ≠ some 0)
    (hfirst : ∀ x ∈ unitNodes rule,
      FirstPanel (fun y => f (denorm a b x) y) (iAB (denorm a b x)).1 (iAB (denorm a b x)).2 tol)
    (v e : Rat) (h : (nested f a b iAB tol mi rule).res = .ok (v, e)) :
    v = (b - a) / 2 * unitRule (fun node =>
      symRule (fun y => f (denorm a b node) y) (iAB (denorm a b node)).1 (iAB (denorm a b node)).2
        Gen.k21) rule := by
  obtain ⟨_, hv, _⟩ := (nested_res_ok_iff f a b iAB tol mi rule v e).mp h
  rw [hv]
  congr 1
  apply unitRule_congr
  intro x hx
  obtain ⟨e', he'⟩ := gk1d_first_panel_value _ _ _ tol mi hmi (hfirst x hx)
  show (getOk (innerRes f a b iAB tol mi x)).1 = _
  unfold innerRes
  rw [he']; rfl

theorem ruleSum_abs_le (g : Rat → Rat) (ε : Rat) (l : List (Rat × Rat)) (hw : ∀ nw ∈ l, 0 ≤ nw.2)
    (hg : ∀ nw ∈ l, |g (-nw.1)| ≤ ε ∧ |g nw.1| ≤ ε) :
    |ruleSum g l| ≤ ε * ruleSum (fun _ => 1) l := by
  induction l with
  | nil => simp
  | cons p ps ih =>
    rw [ruleSum_cons, ruleSum_cons]
    have h1 := hw p List.mem_cons_self
    have h2 := ih (fun q hq => hw q (List.mem_cons_of_mem _ hq))
      (fun q hq => hg q (List.mem_cons_of_mem _ hq))
    obtain ⟨h3, h4⟩ := hg p List.mem_cons_self
    have h5 : |p.2 * (g (-p.1) + g p.1)| ≤ p.2 * (ε + ε) := by
      rw [abs_mul, abs_of_nonneg h1]
      exact mul_le_mul_of_nonneg_left (le_trans (abs_add_le _ _) (add_le_add h3 h4)) h1
    calc |p.2 * (g (-p.1) + g p.1) + ruleSum g ps|
        ≤ |p.2 * (g (-p.1) + g p.1)| + |ruleSum g ps| := abs_add_le _ _
      _ ≤ p.2 * (ε + ε) + ε * ruleSum (fun _ => 1) ps := add_le_add h5 h2
      _ = ε * (p.2 * (1 + 1) + ruleSum (fun _ => 1) ps) := by ring

/-- a rule with non-negative weights applied to an integrand bounded by `ε` on the nodes -/
theorem unitRule_abs_le (g : Rat → Rat) (ε : Rat) (rule : List (Rat × Rat))
    (hw : ∀ nw ∈ rule, 0 ≤ nw.2) (hg : ∀ x ∈ unitNodes rule, |g x| ≤ ε) :
    |unitRule g rule| ≤ ε * unitRule (fun _ => 1) rule := by
  cases rule with
  | nil => rw [unitRule_nil, unitRule_nil]; simp
  | cons p rest =>
    obtain ⟨n0, w0⟩ := p
    rw [unitNodes_cons] at hg
    rw [unitRule_cons, unitRule_cons]
    have h0w : 0 ≤ w0 := hw (n0, w0) List.mem_cons_self
    by_cases h0 : n0 = 0
    · simp only [h0, if_true, List.forall_mem_cons] at hg ⊢
      have h1 := ruleSum_abs_le g ε rest (fun q hq => hw q (List.mem_cons_of_mem _ hq))
        ((forall_flatMap_iff (fun x => |g x| ≤ ε) rest).mp hg.2)
      have h2 : |w0 * g 0| ≤ w0 * ε := by
        rw [abs_mul, abs_of_nonneg h0w]; exact mul_le_mul_of_nonneg_left hg.1 h0w
      calc |w0 * g 0 + ruleSum g rest| ≤ |w0 * g 0| + |ruleSum g rest| := abs_add_le _ _
        _ ≤ w0 * ε + ε * ruleSum (fun _ => 1) rest := add_le_add h2 h1
        _ = ε * (w0 * 1 + ruleSum (fun _ => 1) rest) := by ring
    · simp only [h0, if_false] at hg ⊢
      exact ruleSum_abs_le g ε _ hw ((forall_flatMap_iff (fun x => |g x| ≤ ε) _).mp hg)

theorem unitRule_sub (f g : Rat → Rat) (rule : List (Rat × Rat)) :
    unitRule (fun x => f x - g x) rule = unitRule f rule - unitRule g rule := by
  have h1 := unitRule_add f (fun x => (-1) * g x) rule
  rw [unitRule_smul] at h1
  have : (fun x => f x - g x) = fun x => f x + (-1) * g x := by funext x; ring
  rw [this, h1]; ring

end Cav.Quad2D
