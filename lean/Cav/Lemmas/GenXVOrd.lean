/-
  Failure side with equal abscissae, part 3: the order `BelowM` of the active list along the
  events.  `ordM_advance`: from the abscissa `X` to the abscissa of the next event (trivial inside
  a column; across columns all active edges are not vertical and the look-ahead facts of the
  sheared ring, read in the original ring (`pairOK_orig`), give the order by `heights_advance_T`);
  `ordM_bend`, `ordM_start`: the new edges (a vertical new edge is read at its upper end: here the
  negative outcome of `verticalIsCrossed` is used, `tie_top`).
-/
import Cav.Lemmas.GenXVGeom

set_option linter.unusedSimpArgs false
set_option linter.unusedVariables false

namespace Cav.GenXV
open Cav Num Cav.Geo Cav.Sweep Cav.TriRun Cav.QuadRun Cav.TriGeom Cav.QuadGeom Cav.CvxFlows
open Cav.GenQuery Cav.GenGeom Cav.GenInv Cav.GenQueue Cav.GenOrder Cav.GenStepBend Cav.GenStepEnd
open Cav.GenValid Cav.GenVShear Cav.GenVBridge Cav.QuadVGeom Cav.GenXGeom

variable {R : RingQ} {ε : Rat} {Vε : Array (Vtx XQ)}

/-! ### the look-ahead facts in the original ring -/

theorem tested_mono {R' : RingQ} : ∀ {L : List AE},
    (∀ a ∈ L, ∀ b ∈ L, PairOK R' a b → PairOK R a b) → Tested R' L → Tested R L
  | [], _, _ => trivial
  | [_], _, _ => trivial
  | a :: b :: t, hm, ht => by
    have ht' : PairOK R' a b ∧ Tested R' (b :: t) := ht
    exact ⟨hm a (by simp) b (by simp) ht'.1,
      tested_mono (fun x hx y hy => hm x (List.mem_cons_of_mem _ hx) y (List.mem_cons_of_mem _ hy)) ht'.2⟩

/-- the look-ahead fact of the sheared ring, for two edges that are not vertical -/
theorem pairOK_orig (h : ShX R ε Vε) {x0 : Rat} {a b : AE}
    (ha : Span (shearRing ε R) x0 a) (hb : Span (shearRing ε R) x0 b)
    (na : R.x a.lv < R.x a.rv) (nb : R.x b.lv < R.x b.rv)
    (hp : PairOK (shearRing ε R) a b) : PairOK R a b := by
  rcases hp with e | hp
  · exact Or.inl e
  rcases lt_trichotomy ((shearRing ε R).x a.rv) ((shearRing ε R).x b.rv) with l | e | l
  · right
    rw [min_eq_left (le_of_lt l)] at hp
    have hl : lexLt (R.pt a.rv) (R.pt b.rv) := (h.key _ _ ha.rv_lt hb.rv_lt).mp l
    have e1 : hY (shearRing ε R) a ((shearRing ε R).x a.rv) = ((shearRing ε R).pt a.rv).2 :=
      lineY_right _ _ ha.lt
    rw [e1] at hp
    have o := orient_neg_of_below _ _ ((shearRing ε R).pt a.rv) hb.lt hp
    rw [orient_ring] at o
    have := below_of_orient_neg _ _ _ nb o
    rw [min_eq_left (QuadVGeom.lexLt_le hl)]
    show lineY (R.pt a.lv) (R.pt a.rv) (R.pt a.rv).1 < lineY (R.pt b.lv) (R.pt b.rv) (R.pt a.rv).1
    rw [lineY_right _ _ na]; exact this
  · exact Or.inl (h.ring.distinct _ _ ha.rv_lt hb.rv_lt e)
  · right
    rw [min_eq_right (le_of_lt l)] at hp
    have hl : lexLt (R.pt b.rv) (R.pt a.rv) := (h.key _ _ hb.rv_lt ha.rv_lt).mp l
    have e1 : hY (shearRing ε R) b ((shearRing ε R).x b.rv) = ((shearRing ε R).pt b.rv).2 :=
      lineY_right _ _ hb.lt
    rw [e1] at hp
    have o := orient_pos_of_above _ _ ((shearRing ε R).pt b.rv) ha.lt hp
    rw [orient_ring] at o
    have := above_of_orient_pos _ _ _ na o
    rw [min_eq_right (QuadVGeom.lexLt_le hl)]
    show lineY (R.pt a.lv) (R.pt a.rv) (R.pt b.rv).1 < lineY (R.pt b.lv) (R.pt b.rv) (R.pt b.rv).1
    rw [lineY_right _ _ nb]; exact this

/-- a vertex at or after the sweep vertex `w` in the sheared order lies at or to the right of it -/
theorem x_le_of_shear_le (h : ShX R ε Vε) {w v : Nat} (hw : w < R.n) (hv : v < R.n)
    (hle : (shearRing ε R).x w ≤ (shearRing ε R).x v) : R.x w ≤ R.x v := by
  rcases eq_or_lt_of_le hle with e | l
  · rw [h.ring.distinct _ _ hw hv e]
  · exact QuadVGeom.lexLt_le ((h.key _ _ hw hv).mp l)

/-- **the order `BelowM` at the abscissa of the next event** -/
theorem ordM_advance (h : ShX R ε Vε) {xs X : Rat} (hc : Cpl R ε xs X) {L : List AE} {w : Nat}
    (hw : w < R.n) (hxs : xs < (shearRing ε R).x w)
    (hS : ∀ a ∈ L, Span (shearRing ε R) xs a)
    (hP : L.Pairwise (Below (shearRing ε R) xs))
    (hT : Tested (shearRing ε R) L)
    (hreach : ∀ a ∈ L, (shearRing ε R).x w ≤ (shearRing ε R).x a.rv)
    (huniq : ∀ a ∈ L, ∀ b ∈ L, a.lv = b.lv → a.rv = b.rv → a = b)
    (hM : L.Pairwise (BelowM R X)) : L.Pairwise (BelowM R (R.x w)) := by
  have hXw : X ≤ R.x w := (hc w hw).2 hxs
  rcases eq_or_lt_of_le hXw with e | hlt
  · rw [← e]; exact hM
  have hrv : ∀ a ∈ L, R.x w ≤ R.x a.rv := fun a ha => x_le_of_shear_le h hw (hS a ha).rv_lt (hreach a ha)
  have hSR : ∀ a ∈ L, Span R X a := fun a ha =>
    ⟨(hS a ha).lv_lt, (hS a ha).rv_lt, (hS a ha).adj, (hc _ (hS a ha).lv_lt).1 (hS a ha).le,
      lt_of_lt_of_le hlt (hrv a ha)⟩
  have hPR : L.Pairwise (Below R X) := by
    refine hM.imp_of_mem ?_
    intro a b ha hb hab
    rcases hab with hl | ⟨c1, e1, -, -, o⟩ | ⟨-, e2, -⟩
    · left
      have := hl
      unfold yM at this
      rw [yv_nonvert (hSR a ha).lt, yv_nonvert (hSR b hb).lt] at this
      exact this
    · exact Or.inr ⟨c1, e1, o⟩
    · exact absurd e2 (ne_of_gt (hSR a ha).gt)
  have hTR : Tested R L :=
    tested_mono (fun a ha b hb hp => pairOK_orig h (hS a ha) (hS b hb) (hSR a ha).lt (hSR b hb).lt hp) hT
  have hH := heights_advance_T hSR hPR hTR hlt hrv
  refine (hH.and hP).imp_of_mem ?_
  rintro a b ha hb ⟨hr, hbl⟩
  rcases hr with hl | ⟨ex, er⟩
  · left
    unfold yM
    rw [yv_nonvert (hSR a ha).lt, yv_nonvert (hSR b hb).lt]
    exact hl
  · right; right
    refine ⟨er, ex.symm, ?_⟩
    have hbr : ((shearRing ε R).pt b.lv).1 < ((shearRing ε R).pt a.rv).1 := by rw [er]; exact (hS b hb).lt
    rw [← orient_ring ε]
    refine fanR_orient _ _ _ (hS a ha).lt hbr xs (hS a ha).gt ?_
    rcases hbl with hlt' | ⟨c1, e2, e3⟩
    · have : lineY ((shearRing ε R).pt a.lv) ((shearRing ε R).pt a.rv) xs <
          lineY ((shearRing ε R).pt b.lv) ((shearRing ε R).pt b.rv) xs := hlt'
      rw [← er] at this; exact this
    · exfalso
      have hab : a = b := huniq a ha b hb c1 er
      have hbl' : Below (shearRing ε R) xs a b := Or.inr ⟨c1, e2, e3⟩
      rw [← hab] at hbl'
      exact below_irrefl xs a hbl'

/-! ### a reading at the height of a vertex above the sweep vertex -/

/-- an active edge `b` (not starting at the sweep vertex `w`) that the model reads at the height of
    a vertex `v` above `w` on the sweep line ends in `v`, and it is not vertical -/
theorem tie_top (h : ShX R ε Vε) {w v : Nat} {b : AE} (hw : w < R.n) (hv : v < R.n)
    (hb : Span (shearRing ε R) ((shearRing ε R).x w) b) (hlv : b.lv ≠ w)
    (hvx : R.x v = R.x w) (hvy : (R.pt w).2 < (R.pt v).2)
    (hy : yM R b (R.x w) = (R.pt v).2) : b.rv = v ∧ R.x b.lv < R.x b.rv := by
  have lb := edge_lexX h hb
  obtain ⟨x1, x2⟩ := span_orig (cpl_atX h hw) hb
  have hlw : lexLt (R.pt b.lv) (R.pt w) := by
    apply (h.key _ _ hb.lv_lt hw).mp
    refine lt_of_le_of_ne hb.le ?_
    intro e
    exact hlv (h.ring.distinct _ _ hb.lv_lt hw e)
  have hwv : lexLt (R.pt w) (R.pt v) := Or.inr ⟨hvx.symm, hvy⟩
  have hlv' : lexLt (R.pt b.lv) (R.pt v) := SweepEvents.lexLt_trans hlw hwv
  rcases lb with nb | ⟨vx, vy⟩
  · refine ⟨?_, nb⟩
    have hy' : lineY (R.pt b.lv) (R.pt b.rv) (R.pt v).1 = (R.pt v).2 := by
      have := hy; unfold yM at this; rw [yv_nonvert nb] at this
      rw [show (R.pt v).1 = R.x w from hvx]; exact this
    have ho : orient (R.pt b.lv) (R.pt b.rv) (R.pt v) = 0 := by
      have := zero_of_on_line (R.pt b.lv) (R.pt b.rv) nb (R.pt v).1
      rw [hy'] at this; exact this
    rcases h.lex_total hb.rv_lt hv with l | e | l
    · exfalso
      -- `b.rv` lies on the sweep line below `v`, but the reading there is `v.2`
      have hx : (R.pt b.rv).1 = (R.pt v).1 :=
        le_antisymm (QuadVGeom.lexLt_le l) (by rw [show (R.pt v).1 = R.x w from hvx]; exact x2)
      have hyr : (R.pt b.rv).2 < (R.pt v).2 := by
        rcases l with l | ⟨-, l⟩
        · exact absurd hx (ne_of_lt l)
        · exact l
      have := lineY_right _ _ nb
      rw [hx, hy'] at this
      linarith
    · exact e
    · exact absurd ho (h.off hb.lv_lt hb.rv_lt hv hb.adj hlv' l)
  · exfalso
    have hxl : (R.pt b.lv).1 = (R.pt w).1 := le_antisymm x1 (by rw [vx]; exact x2)
    have hyl : (R.pt b.lv).2 < (R.pt w).2 := by
      rcases hlw with l | ⟨-, l⟩
      · exact absurd hxl (ne_of_lt l)
      · exact l
    have hyr : (R.pt b.rv).2 = (R.pt v).2 := by
      have := hy; unfold yM at this; rw [yv_vert vx] at this; exact this
    have hwr : lexLt (R.pt w) (R.pt b.rv) := Or.inr ⟨by rw [← vx]; exact hxl.symm, by rw [hyr]; exact hvy⟩
    apply h.off hb.lv_lt hb.rv_lt hw hb.adj hlw hwr
    rw [orient_vert12 _ _ _ vx, hxl]; ring

/-- what a negative `verticalIsCrossed` says about the edge `k` -/
def NotBetween (R : RingQ) (w v : Nat) (k : AE) : Prop :=
  ¬ ((R.pt w).2 < yM R k (R.x w) ∧ yM R k (R.x w) < (R.pt v).2)

/-- the test of `verticalIsCrossed` for one active edge -/
theorem vic_bool (h : ShX R ε Vε) {w : Nat} (hw : w < R.n) {k : AE}
    (hk : Span (shearRing ε R) ((shearRing ε R).x w) k) (v : Nat) :
    (ofLt (Fq (R.pt w)).y (yExtrap (Fq (R.pt k.lv)) (Fq (R.pt k.rv)) (Fq (R.pt w)).x true) &&
      ofLt (yExtrap (Fq (R.pt k.lv)) (Fq (R.pt k.rv)) (Fq (R.pt w)).x true) (Fq (R.pt v)).y) =
    decide ((R.pt w).2 < yM R k (R.x w) ∧ yM R k (R.x w) < (R.pt v).2) := by
  obtain ⟨x1, x2⟩ := span_orig (cpl_atX h hw) hk
  have e : yExtrap (Fq (R.pt k.lv)) (Fq (R.pt k.rv)) (Fq (R.pt w)).x true =
      .fin (yv (R.pt k.lv) (R.pt k.rv) (R.x w)) := yE_V _ _ (edge_lexX h hk) _ x1 x2
  rw [e]
  show (ofLt (XQ.fin (R.pt w).2) _ && ofLt _ (XQ.fin (R.pt v).2)) = _
  rw [ofLt_fin, ofLt_fin, Bool.decide_and]

/-! ### the new edges -/

/-- **Bend**: the edge `a0` ending at `w` is replaced by `w → w'` -/
theorem ordM_bend (h : ShX R ε Vε) {F1 F2 : List AE} {a0 : AE} {w w' : Nat} (hw : w < R.n)
    (hw' : w' < R.n) (hlw : lexLt (R.pt w) (R.pt w')) (ha0 : a0.rv = w)
    (la0 : lexLt (R.pt a0.lv) (R.pt a0.rv))
    (honly : ∀ a ∈ F1 ++ a0 :: F2, a.rv = w → a = a0) (hnd : (F1 ++ a0 :: F2).Nodup)
    (hS : ∀ a ∈ F1 ++ F2, Span (shearRing ε R) ((shearRing ε R).x w) a)
    (hlv : ∀ a ∈ F1 ++ F2, a.lv ≠ w)
    (hvic : R.x w' = R.x w → ∀ b ∈ F2, NotBetween R w w' b)
    (hM : (F1 ++ a0 :: F2).Pairwise (BelowM R (R.x w))) :
    (F1 ++ (⟨a0.id, w, w'⟩ : AE) :: F2).Pairwise (BelowM R (R.x w)) := by
  have hy0 : yM R a0 (R.x w) = (R.pt w).2 := by
    unfold yM
    have := yv_at_rv la0
    rw [ha0] at this ⊢; exact this
  have hy1 : (R.pt w).2 ≤ yM R (⟨a0.id, w, w'⟩ : AE) (R.x w) := by
    show (R.pt w).2 ≤ yv (R.pt w) (R.pt w') (R.pt w).1
    rcases hlw with n | ⟨vx, vy⟩
    · rw [yv_at_lv n]
    · rw [yv_vert vx]; exact le_of_lt vy
  have hmem0 : a0 ∈ F1 ++ a0 :: F2 := by simp
  have hne : ∀ b ∈ F1 ++ F2, b ≠ a0 := by
    intro b hb e
    subst e
    rw [List.nodup_append] at hnd
    rcases List.mem_append.mp hb with h1 | h2
    · exact hnd.2.2 _ h1 _ List.mem_cons_self rfl
    · exact (List.nodup_cons.mp hnd.2.1).1 h2
  have hmemF : ∀ b ∈ F1 ++ F2, b ∈ F1 ++ a0 :: F2 := by
    intro b hb
    rcases List.mem_append.mp hb with h1 | h2
    · exact List.mem_append_left _ h1
    · exact List.mem_append_right _ (List.mem_cons_of_mem _ h2)
  -- `a0` is not an edge out of a vertex of the sweep column into `w` unless it is vertical
  have hnofan : ∀ b : AE, ¬ (R.x a0.lv = R.x w ∧ R.x a0.lv < R.x a0.rv) := by
    rintro b ⟨e1, e2⟩
    rw [ha0] at e2
    exact absurd e1 (ne_of_lt e2)
  rw [List.pairwise_append] at hM ⊢
  obtain ⟨hF1, hr, hcr⟩ := hM
  rw [List.pairwise_cons] at hr ⊢
  refine ⟨hF1, ⟨?_, hr.2⟩, ?_⟩
  · -- the edges above
    intro b hb
    have hbF : b ∈ F1 ++ F2 := List.mem_append_right _ hb
    rcases hr.1 b hb with hl | ⟨-, e1, na, -, -⟩ | ⟨c2, -, -⟩
    · rw [hy0] at hl
      rcases hlw with n | ⟨vx, vy⟩
      · left
        show yv (R.pt w) (R.pt w') (R.pt w).1 < _
        rw [yv_at_lv n]; exact hl
      · have hnb := hvic vx.symm b hb
        have hge : (R.pt w').2 ≤ yM R b (R.x w) := by
          by_contra hcon
          exact hnb ⟨hl, not_le.mp hcon⟩
        rcases eq_or_lt_of_le hge with e | l
        · right; right
          obtain ⟨hbr, nb⟩ := tie_top h hw hw' (hS b hbF) (hlv b hbF) vx.symm vy e.symm
          refine ⟨hbr.symm, vx.symm, ?_⟩
          show orient (R.pt w) (R.pt b.lv) (R.pt w') < 0
          rw [orient_vert13 _ _ _ vx]
          have h1 : (R.pt b.lv).1 - (R.pt w).1 < 0 := by
            have : (R.pt b.rv).1 = (R.pt w).1 := by rw [hbr]; exact vx.symm
            have nb' : (R.pt b.lv).1 < (R.pt b.rv).1 := nb
            linarith
          exact mul_neg_of_neg_of_pos h1 (sub_pos.mpr vy)
        · left
          show yv (R.pt w) (R.pt w') (R.pt w).1 < _
          rw [yv_vert vx]; exact l
    · exact absurd ⟨e1, na⟩ (hnofan b)
    · exfalso
      have : b.rv = w := by rw [← c2]; exact ha0
      exact hne b hbF (honly b (hmemF b hbF) this)
  · -- the edges below
    intro a ha b hb
    rcases List.mem_cons.mp hb with rfl | hb
    · have haF : a ∈ F1 ++ F2 := List.mem_append_left _ ha
      rcases hcr a ha a0 List.mem_cons_self with hl | ⟨c1, e1, -, nb, -⟩ | ⟨c2, -, -⟩
      · left
        rw [hy0] at hl
        exact lt_of_lt_of_le hl hy1
      · exfalso
        rw [c1] at e1
        exact hnofan a ⟨e1, nb⟩
      · exfalso
        have : a.rv = w := by rw [c2]; exact ha0
        exact hne a haF (honly a (hmemF a haF) this)
    · exact hcr a ha b (List.mem_cons_of_mem _ hb)

/-- **Start**: the two edges `w → wB`, `w → wT` are inserted between the edges below and above `w` -/
theorem ordM_start (h : ShX R ε Vε) {P Q : List AE} {w wB wT : Nat} (iB iT : Nat) (hw : w < R.n)
    (hB : wB < R.n) (hT : wT < R.n) (hlB : lexLt (R.pt w) (R.pt wB)) (hlT : lexLt (R.pt w) (R.pt wT))
    (ho : 0 < orient (R.pt w) (R.pt wB) (R.pt wT))
    (hPlow : ∀ a ∈ P, hY (shearRing ε R) a ((shearRing ε R).x w) < (R.pt w).2)
    (hQhigh : ∀ a ∈ Q, (R.pt w).2 < hY (shearRing ε R) a ((shearRing ε R).x w))
    (hS : ∀ a ∈ P ++ Q, Span (shearRing ε R) ((shearRing ε R).x w) a)
    (hvic : R.x wT = R.x w → ∀ b ∈ Q, NotBetween R w wT b)
    (hM : (P ++ Q).Pairwise (BelowM R (R.x w))) :
    R.x w < R.x wB ∧
    (P ++ (⟨iB, w, wB⟩ : AE) :: (⟨iT, w, wT⟩ : AE) :: Q).Pairwise (BelowM R (R.x w)) := by
  -- the lower new edge is not vertical
  have nB : R.x w < R.x wB := by
    rcases hlB with n | ⟨vx, vy⟩
    · exact n
    · exfalso
      rw [orient_vert12 _ _ _ vx] at ho
      have h2 : 0 ≤ (R.pt wT).1 - (R.pt w).1 := sub_nonneg.mpr (QuadVGeom.lexLt_le hlT)
      nlinarith [mul_nonneg (le_of_lt (sub_pos.mpr vy)) h2]
  refine ⟨nB, ?_⟩
  have hyB : yM R (⟨iB, w, wB⟩ : AE) (R.x w) = (R.pt w).2 := yv_at_lv nB
  have hyT : (R.pt w).2 ≤ yM R (⟨iT, w, wT⟩ : AE) (R.x w) := by
    show (R.pt w).2 ≤ yv (R.pt w) (R.pt wT) (R.pt w).1
    rcases hlT with n | ⟨vx, vy⟩
    · rw [yv_at_lv n]
    · rw [yv_vert vx]; exact le_of_lt vy
  have hPy : ∀ a ∈ P, yM R a (R.x w) < (R.pt w).2 := by
    intro a ha
    obtain ⟨na, hy⟩ := belowW_ptX h hw (hS a (List.mem_append_left _ ha)) (hPlow a ha)
    unfold yM; rw [yv_nonvert na]; exact hy
  have hQy : ∀ a ∈ Q, (R.pt w).2 < yM R a (R.x w) := by
    intro a ha
    obtain ⟨na, hy⟩ := aboveW_ptX h hw (hS a (List.mem_append_right _ ha)) (hQhigh a ha)
    unfold yM; rw [yv_nonvert na]; exact hy
  rw [List.pairwise_append] at hM ⊢
  obtain ⟨hPP, hQQ, hPQ⟩ := hM
  refine ⟨hPP, ?_, ?_⟩
  · rw [List.pairwise_cons, List.pairwise_cons]
    refine ⟨?_, ?_, hQQ⟩
    · intro b hb
      rcases List.mem_cons.mp hb with rfl | hb
      · -- the two new edges
        rcases hlT with n | ⟨vx, vy⟩
        · exact Or.inr (Or.inl ⟨rfl, rfl, nB, n, ho⟩)
        · left
          rw [hyB]
          show (R.pt w).2 < yv (R.pt w) (R.pt wT) (R.pt w).1
          rw [yv_vert vx]; exact vy
      · left; rw [hyB]; exact hQy b hb
    · intro b hb
      have hbq := hQy b hb
      rcases hlT with n | ⟨vx, vy⟩
      · left
        show yv (R.pt w) (R.pt wT) (R.pt w).1 < _
        rw [yv_at_lv n]; exact hbq
      · have hnb := hvic vx.symm b hb
        have hge : (R.pt wT).2 ≤ yM R b (R.x w) := by
          by_contra hcon
          exact hnb ⟨hbq, not_le.mp hcon⟩
        rcases eq_or_lt_of_le hge with e | l
        · right; right
          have hlv : b.lv ≠ w := GenStepStart.lv_ne_of_height (R := shearRing ε R) (ne_of_gt (hQhigh b hb))
          obtain ⟨hbr, nb⟩ := tie_top h hw hT (hS b (List.mem_append_right _ hb)) hlv vx.symm vy e.symm
          refine ⟨hbr.symm, vx.symm, ?_⟩
          show orient (R.pt w) (R.pt b.lv) (R.pt wT) < 0
          rw [orient_vert13 _ _ _ vx]
          have h1 : (R.pt b.lv).1 - (R.pt w).1 < 0 := by
            have : (R.pt b.rv).1 = (R.pt w).1 := by rw [hbr]; exact vx.symm
            have nb' : (R.pt b.lv).1 < (R.pt b.rv).1 := nb
            linarith
          exact mul_neg_of_neg_of_pos h1 (sub_pos.mpr vy)
        · left
          show yv (R.pt w) (R.pt wT) (R.pt w).1 < _
          rw [yv_vert vx]; exact l
  · intro a ha b hb
    rcases List.mem_cons.mp hb with rfl | hb
    · left; rw [hyB]; exact hPy a ha
    · rcases List.mem_cons.mp hb with rfl | hb
      · left; exact lt_of_lt_of_le (hPy a ha) hyT
      · exact hPQ a ha b hb

end Cav.GenXV
