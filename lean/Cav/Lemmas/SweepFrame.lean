/-
  Frame lemmas: every program of the sweep below the event handlers, except the ones that
  write the event queue, preserves any invariant that only looks at the vertex ring and the
  event queue (`VEInv`), and fails only with `panic` errors.
  (Generated uniformly: each proof is `unfold; pres_auto`.)
-/
import Cav.Lemmas.SweepHoare

set_option linter.unusedSectionVars false
set_option linter.unusedVariables false

namespace Cav.SweepFrame
open Cav Num Cav.Sweep Cav.SweepRun Cav.SweepHoare

variable {α : Type} {β : Type}

/-- `I` only looks at the vertex ring and the event queue -/
def VEInv (I : St α → Prop) : Prop :=
  ∀ s s' : St α, s'.verts = s.verts → s'.events = s.events → I s → I s'

/-- the error predicate accepts every `panic` -/
def PanicOk (E : SErr α → Prop) : Prop := ∀ k, E (.panic k)

theorem veInv_true : VEInv (fun _ : St α => True) := fun _ _ _ _ _ => True.intro

/-- `Fr I E m`: `m` preserves `I`, fails only within `E`, no claim on the result -/
abbrev Fr (I : St α → Prop) (E : SErr α → Prop) (m : SM α β) : Prop :=
  Pres I E (fun _ => True) m

macro_rules | `(tactic| pres_side) => `(tactic| exact True.intro)
macro_rules | `(tactic| pres_side) => `(tactic| exact $(Lean.mkIdent `hE) _)
macro "ve_side" : tactic =>
  `(tactic| (refine $(Lean.mkIdent `hI) _ _ ?_ ?_ (by assumption) <;> rfl))
macro_rules | `(tactic| pres_side) => `(tactic| ve_side)

variable [Num α] {I : St α → Prop} {E : SErr α → Prop}

theorem getNode_fr (hI : VEInv I) (hE : PanicOk E) (i : Nat) :
    Fr I E (getNode i : SM α _) := by
  unfold getNode; pres_auto


theorem getChain_fr (hI : VEInv I) (hE : PanicOk E) (i : Nat) :
    Fr I E (getChain i : SM α _) := by
  unfold getChain; pres_auto


theorem getEdge_fr (hI : VEInv I) (hE : PanicOk E) (i : Nat) :
    Fr I E (getEdge i : SM α _) := by
  unfold getEdge; pres_auto


theorem getVtx_fr (hI : VEInv I) (hE : PanicOk E) (i : Nat) :
    Fr I E (getVtx i : SM α _) := by
  unfold getVtx; pres_auto


theorem setNode_fr (hI : VEInv I) (hE : PanicOk E) (i : Nat) (n : Node α) :
    Fr I E (setNode i n : SM α _) := by
  unfold setNode; pres_auto


theorem setChain_fr (hI : VEInv I) (hE : PanicOk E) (i : Nat) (c : Chain) :
    Fr I E (setChain i c : SM α _) := by
  unfold setChain; pres_auto


theorem setEdge_fr (hI : VEInv I) (hE : PanicOk E) (i : Nat) (e : Edge α) :
    Fr I E (setEdge i e : SM α _) := by
  unfold setEdge; pres_auto


theorem newNode_fr (hI : VEInv I) (hE : PanicOk E) (p : Pt α) :
    Fr I E (newNode p : SM α _) := by
  unfold newNode; pres_auto


theorem newChainVal_fr (hI : VEInv I) (hE : PanicOk E) (c : Chain) :
    Fr I E (newChainVal c : SM α _) := by
  unfold newChainVal; pres_auto


theorem newEdge_fr (hI : VEInv I) (hE : PanicOk E) (e : Edge α) :
    Fr I E (newEdge e : SM α _) := by
  unfold newEdge; pres_auto


theorem chainNew_fr (hI : VEInv I) (hE : PanicOk E) (p : Pt α) :
    Fr I E (chainNew p : SM α _) := by
  unfold chainNew; pres_auto


theorem edgeLpt_fr (hI : VEInv I) (hE : PanicOk E) (e : Edge α) :
    Fr I E (edgeLpt e : SM α _) := by
  unfold edgeLpt; pres_auto


theorem yAt_fr (hI : VEInv I) (hE : PanicOk E) (e : Edge α) (x : α) (r : Bool) :
    Fr I E (yAt e x r : SM α _) := by
  unfold yAt; pres_auto


theorem edgeGrad_fr (hI : VEInv I) (hE : PanicOk E) (e : Edge α) :
    Fr I E (edgeGrad e : SM α _) := by
  unfold edgeGrad; pres_auto


theorem tieGrad_fr (hI : VEInv I) (hE : PanicOk E) (e : Edge α) :
    Fr I E (tieGrad e : SM α _) := by
  unfold tieGrad; pres_auto


theorem cmpEdge_fr (hI : VEInv I) (hE : PanicOk E) (a b : Edge α) :
    Fr I E (cmpEdge a b : SM α _) := by
  unfold cmpEdge; pres_auto


theorem partialCmpEdge_fr (hI : VEInv I) (hE : PanicOk E) (a b : Edge α) :
    Fr I E (partialCmpEdge a b : SM α _) := by
  unfold partialCmpEdge; pres_auto


theorem cmpAt_fr (hI : VEInv I) (hE : PanicOk E) (a b : Edge α) (x : α) (r : Bool) :
    Fr I E (cmpAt a b x r : SM α _) := by
  unfold cmpAt; pres_auto


theorem willOverlapBot_fr (hI : VEInv I) (hE : PanicOk E) (ei : Nat) (b : Bool) :
    Fr I E (willOverlapBot ei b : SM α _) := by
  unfold willOverlapBot; pres_auto


theorem willOverlapTop_fr (hI : VEInv I) (hE : PanicOk E) (ei : Nat) (b : Bool) :
    Fr I E (willOverlapTop ei b : SM α _) := by
  unfold willOverlapTop; pres_auto


theorem searchPos_fr (hI : VEInv I) (hE : PanicOk E) (key : Edge α) (l : List Nat) (i : Nat) :
    Fr I E (searchPos key l i : SM α _) := by
  induction l generalizing i with
  | nil => unfold searchPos; pres_auto
  | cons k ks ih => unfold searchPos; pres_auto


theorem noteMono_fr (hI : VEInv I) (hE : PanicOk E) (key : Edge α) (l : List Nat) :
    Fr I E (noteMono key l : SM α _) := by
  apply Pres.intro; intro s hs
  exact ⟨hI s _ rfl rfl hs, trivial⟩

theorem search_fr (hI : VEInv I) (hE : PanicOk E) (key : Edge α) (l : List Nat) :
    Fr I E (search key l : SM α _) := by
  unfold search; pres_auto

theorem activeInsert_fr (hI : VEInv I) (hE : PanicOk E) (ei : Nat) :
    Fr I E (activeInsert ei : SM α _) := by
  unfold activeInsert; pres_auto


theorem activeRemove_fr (hI : VEInv I) (hE : PanicOk E) (ei : Nat) :
    Fr I E (activeRemove ei : SM α _) := by
  unfold activeRemove; pres_auto


theorem nodeTriangulate_fr (hI : VEInv I) (hE : PanicOk E) (from_ : Nat) (bw : Bool) (fuel : Nat) :
    Fr I E (nodeTriangulate from_ bw fuel : SM α _) := by
  induction fuel with
  | zero => unfold nodeTriangulate; pres_auto
  | succ fuel ih => unfold nodeTriangulate; pres_auto


theorem nodeFuel_fr (hI : VEInv I) (hE : PanicOk E) :
    Fr I E (nodeFuel : SM α _) := by
  unfold nodeFuel; pres_auto


theorem backTriangulate_fr (hI : VEInv I) (hE : PanicOk E) (c : Chain) (b : Bool) :
    Fr I E (backTriangulate c b : SM α _) := by
  unfold backTriangulate; pres_auto


theorem chainAppend_fr (hI : VEInv I) (hE : PanicOk E) (c : Chain) (p : Pt α) (b : Bool) :
    Fr I E (chainAppend c p b : SM α _) := by
  unfold chainAppend; pres_auto


theorem chainSplit_fr (hI : VEInv I) (hE : PanicOk E) (c : Chain) (p : Pt α) :
    Fr I E (chainSplit c p : SM α _) := by
  unfold chainSplit; pres_auto


theorem chainMerge_fr (hI : VEInv I) (hE : PanicOk E) (b t : Chain) (p : Pt α) :
    Fr I E (chainMerge b t p : SM α _) := by
  unfold chainMerge; pres_auto


theorem verticalIsCrossed_go_fr (hI : VEInv I) (hE : PanicOk E) (skip : Option Nat) (p rp : Pt α) (l : List Nat) :
    Fr I E (verticalIsCrossed.go skip p rp l : SM α _) := by
  induction l with
  | nil => unfold verticalIsCrossed.go; pres_auto
  | cons k ks ih => unfold verticalIsCrossed.go; pres_auto


theorem verticalIsCrossed_fr (hI : VEInv I) (hE : PanicOk E) (skip : Option Nat) (p rp : Pt α) :
    Fr I E (verticalIsCrossed skip p rp : SM α _) := by
  unfold verticalIsCrossed; pres_auto



end Cav.SweepFrame
