/-
  Failure side with equal abscissae, part 8: the Start event under `XInvV` (proper and improper;
  the upper new edge may be vertical).  The guards of `handleStart` in front of the look-ahead
  tests pass; `verticalIsCrossed` fires for the upper new edge (`.overlap .start`), or one of the
  two look-ahead tests against the nesting partners is positive (`.overlap .start`), or the event
  succeeds and `XInvV` holds again.  (Merge of `xstep_start_*` and `stepW_start_*`.)
-/
import Cav.Lemmas.GenXVStart0

set_option linter.unusedSimpArgs false
set_option linter.unusedVariables false

namespace Cav.GenXV
open Cav Num Cav.Geo Cav.Sweep Cav.TriRun Cav.QuadRun Cav.QuadGeom Cav.CvxFlows Cav.SweepOut
open Cav.GenNodes Cav.GenQuery Cav.GenGeom Cav.GenBend Cav.GenInv Cav.GenQueue Cav.GenOrder
open Cav.GenLinks Cav.GenStepBend Cav.GenStepEnd Cav.GenStart Cav.TriEvents Cav.GenStepStart
open Cav.GenVShear Cav.GenVBridge Cav.GenVInv Cav.GenVHeap
open Cav.GenXGeom Cav.GenXFlat Cav.GenXFail Cav.GenXStep Cav.GenXVFail

variable {R : RingQ} {ε : Rat} {Vε : Array (Vtx XQ)}

/-- the two new edges of a Start vertex, as the model reads them -/
theorem start_bt {w wB wT : Nat} (iB iT : Nat) (nB : R.x w < R.x wB) (hlT : lexLt (R.pt w) (R.pt wT))
    (ho : 0 < orient (R.pt w) (R.pt wB) (R.pt wT)) :
    BelowM R (R.x w) (⟨iB, w, wB⟩ : AE) (⟨iT, w, wT⟩ : AE) := by
  rcases hlT with n | ⟨vx, vy⟩
  · exact Or.inr (Or.inl ⟨rfl, rfl, nB, n, ho⟩)
  · left
    show yv (R.pt w) (R.pt wB) (R.pt w).1 < yv (R.pt w) (R.pt wT) (R.pt w).1
    rw [yv_at_lv nB, yv_vert vx]; exact vy

/-- **the proper Start keeps the invariant** -/
theorem xstepV_start_proper (hSh : ShX R ε Vε) {s : St XQ} {xs X : Rat} {pre post : List IV}
    (hX : XInvV R ε s xs X (pre ++ post))
    {w : Nat} {es : List Nat} {rest : List (Nat × List Nat)} (hev : s.events = (w, es) :: rest)
    {wB wT : Nat} (hnb : (R.prv w = wB ∧ R.nxt w = wT) ∨ (R.prv w = wT ∧ R.nxt w = wB))
    (hxB : (shearRing ε R).x w < (shearRing ε R).x wB) (hxT : (shearRing ε R).x w < (shearRing ε R).x wT) (ho : 0 < orient (R.pt w) (R.pt wB) (R.pt wT))
    (hoS : 0 < orient ((shearRing ε R).pt w) ((shearRing ε R).pt wB) ((shearRing ε R).pt wT))
    (hPlow : ∀ a ∈ flatE pre, hY (shearRing ε R) a ((shearRing ε R).x w) < (R.pt w).2)
    (hQhigh : ∀ a ∈ flatE post, (R.pt w).2 < hY (shearRing ε R) a ((shearRing ε R).x w))
    (g3 : ∀ a ∈ flatE pre ++ flatE post, Span (shearRing ε R) ((shearRing ε R).x w) a)
    (g4 : (flatE pre ++ flatE post).Pairwise (fun a b => hY (shearRing ε R) a ((shearRing ε R).x w) < hY (shearRing ε R) b ((shearRing ε R).x w)))
    (g5 : ∀ a ∈ flatE pre ++ (⟨s.edges.size, w, wB⟩ : AE) :: (⟨s.edges.size + 1, w, wT⟩ : AE) :: flatE post,
      Span (shearRing ε R) ((shearRing ε R).x w) a)
    (g6 : (flatE pre ++ (⟨s.edges.size, w, wB⟩ : AE) :: (⟨s.edges.size + 1, w, wT⟩ : AE) :: flatE post).Pairwise
      (Below (shearRing ε R) ((shearRing ε R).x w)))
    (g7 : QCore (shearRing ε R) ((shearRing ε R).x w)
      (flatE pre ++ (⟨s.edges.size, w, wB⟩ : AE) :: (⟨s.edges.size + 1, w, wT⟩ : AE) :: flatE post)
      (qAdd (shearRing ε R) wT (s.edges.size + 1) (qAdd (shearRing ε R) wB s.edges.size rest)))
    (g8 : Cross (shearRing ε R) ((shearRing ε R).x w)
      (flatE pre ++ (⟨s.edges.size, w, wB⟩ : AE) :: (⟨s.edges.size + 1, w, wT⟩ : AE) :: flatE post)) :
    (∃ s', (handleNext : SM XQ Unit).run s = .ok ((), s') ∧
      ∃ ivs', XInvV R ε s' ((shearRing ε R).x w) (R.x w) ivs') ∨
      ∃ k, (handleNext : SM XQ Unit).run s = .error (.overlap k (Fq (R.pt w))) := by
  have hI := hX.inv
  have hR := hSh.ring
  have hq := hI.q
  rw [hev, flatE_append] at hq
  have hwq := hq.gt (w, es) List.mem_cons_self
  have hwn : w < R.n := hwq.1
  obtain ⟨hBn, hTn, hadjB, hadjT, hBT, hnbrs⟩ := start_nbrs hR hwn hnb
  have hid := hq.idinj
  have hG := ids_eg hI.lk hI.q.idinj
  rw [flatE_append, List.map_append] at hG
  have hact : s.active = (flatE pre).map (·.id) ++ (flatE post).map (·.id) := by
    rw [hI.act, flatE_append, List.map_append]
  have hevs : ∀ a ∈ rest, a.1 < s.verts.size := by
    intro a ha
    rw [hI.vget.1]
    exact (hq.gt a (List.mem_cons_of_mem _ ha)).1
  have hcpl := cpl_atX hSh hwn
  have hlB : lexLt (R.pt w) (R.pt wB) := (hSh.key _ _ hwn hBn).mp hxB
  have hlT : lexLt (R.pt w) (R.pt wT) := (hSh.key _ _ hwn hTn).mp hxT
  have nB := start_nB hlB hlT ho
  have hreach := reach_head hq
  have hadv := ordM_advance hSh hI.cpl hwn hwq.2 (L := (flatE pre) ++ (flatE post))
    (by rw [← flatE_append]; exact hI.span) (by rw [← flatE_append]; exact hI.sorted)
    (by rw [← flatE_append]; exact hX.tested) (fun a ha => (hreach a ha).1) hq.uniq
    (by rw [← flatE_append]; exact hX.ordM)
  have hbt := cmp_of_belowM (R := R) (X := R.x w) (a := ⟨s.edges.size, w, wB⟩) (b := ⟨s.edges.size + 1, w, wT⟩)
    hlB hlT (le_refl _) (QuadVGeom.lexLt_le hlB) (le_refl _) (QuadVGeom.lexLt_le hlT) (start_bt _ _ nB hlT ho)
  obtain ⟨hvB, hvT'⟩ := vic_start (wT := wT) hSh hwn hid nB hPlow g3
  rcases hvT' with hvThit | ⟨hvT, hvicN⟩
  · exact Or.inr ⟨_, start_vic s w (R.prv w) (R.nxt w) wB wT _ _ _ _ es rest
      (Fq (R.pt w)) (Fq (R.pt wB)) (Fq (R.pt wT)) ((flatE pre).map (·.id)) ((flatE post).map (·.id))
      (Lf R ((flatE pre) ++ (flatE post))) (Rf R ((flatE pre) ++ (flatE post))) hev (hI.vget.2 w hwn) hnb
      (hI.vget.2 wB hBn) (hI.vget.2 wT hTn) (ftV_startX hSh hwn hBn hTn hxB hxT)
      (ftV_startX hSh hwn hTn hBn hxT hxB) hvB hvThit hbt.1 hbt.2 hact hG⟩
  have hMnew := (ordM_start hSh s.edges.size (s.edges.size + 1) hwn hBn hTn hlB hlT ho hPlow hQhigh g3 hvicN
    hadv).2
  obtain ⟨t1, t2, t3, t4, t5, t6, t7⟩ := startX_tests hSh hcpl hid g5 hMnew
  rw [List.map_append] at t5
  have hlk := hI.lk
  rw [linked_append] at hlk
  obtain ⟨hlpre, hlpost⟩ := hlk
  have hmemP : ∀ x ∈ flatE pre, x ∈ flatE pre ++ flatE post := fun x hx => List.mem_append_left _ hx
  have hmemQ : ∀ x ∈ flatE post, x ∈ flatE pre ++ flatE post := fun x hx => List.mem_append_right _ hx
  have hyB : hY R (⟨s.edges.size, w, wB⟩ : AE) (R.x w) = (R.pt w).2 := lineY_left _ _
  have hyT : hY R (⟨s.edges.size + 1, w, wT⟩ : AE) (R.x w) = (R.pt w).2 := lineY_left _ _
  have hnd : (flatE pre ++ flatE post).Nodup := by
    have := nodup_of_pairwise_below hI.sorted
    rw [flatE_append] at this; exact this
  have hprepost : ∀ x ∈ flatE pre, ∀ y ∈ flatE post, x.id ≠ y.id := by
    intro x hx y hy e
    have := hid x (hmemP x hx) y (hmemQ y hy) e
    subst this
    rw [List.nodup_append] at hnd
    exact hnd.2.2 x hx x hy rfl
  have hidlt : ∀ a ∈ flatE pre ++ flatE post, a.id < s.edges.size := by
    intro a ha
    rw [← flatE_append] at ha
    obtain ⟨e, he, -⟩ := Linked.eg hI.lk a ha
    exact lt_of_get' he
  have hspB : Span (shearRing ε R) ((shearRing ε R).x w) (⟨s.edges.size, w, wB⟩ : AE) := g5 _ (by simp)
  have hspT : Span (shearRing ε R) ((shearRing ε R).x w) (⟨s.edges.size + 1, w, wT⟩ : AE) := g5 _ (by simp)
  have hBdec : (∀ pre' ivb, pre = pre' ++ [ivb] →
        wobP (Fq (R.pt w)) (Fq (R.pt wB)) (Fq (R.pt ivb.hi.lv)) (Fq (R.pt ivb.hi.rv)) = false) ∨
      (∃ pre' ivb, pre = pre' ++ [ivb] ∧
        wobP (Fq (R.pt w)) (Fq (R.pt wB)) (Fq (R.pt ivb.hi.lv)) (Fq (R.pt ivb.hi.rv)) = true) := by
    rcases List.eq_nil_or_concat pre with e0 | ⟨pre', ivb, e1⟩
    · left; intro p1 b1 h1; rw [e0] at h1; simp at h1
    · rw [List.concat_eq_append] at e1
      cases hv : wobP (Fq (R.pt w)) (Fq (R.pt wB)) (Fq (R.pt ivb.hi.lv)) (Fq (R.pt ivb.hi.rv))
      · left
        intro p1 b1 h1
        have hb1 : b1 = ivb := by
          have := congrArg List.getLast? (e1.symm.trans h1)
          simpa using this.symm
        rw [hb1]; exact hv
      · right
        exact ⟨pre', ivb, e1, hv⟩
  have hTdec : (∀ ivt post', post = ivt :: post' →
        wotP (Fq (R.pt w)) (Fq (R.pt wT)) (Fq (R.pt ivt.lo.lv)) (Fq (R.pt ivt.lo.rv)) = false) ∨
      (∃ ivt post', post = ivt :: post' ∧
        wotP (Fq (R.pt w)) (Fq (R.pt wT)) (Fq (R.pt ivt.lo.lv)) (Fq (R.pt ivt.lo.rv)) = true) := by
    cases hpost : post with
    | nil => left; intro t1 q1 h2; cases h2
    | cons ivt post' =>
      cases hv : wotP (Fq (R.pt w)) (Fq (R.pt wT)) (Fq (R.pt ivt.lo.lv)) (Fq (R.pt ivt.lo.rv))
      · left
        intro t1 q1 h2
        cases h2; exact hv
      · right
        exact ⟨ivt, post', rfl, hv⟩
  have hpc : ∀ bb tt, ((flatE pre).map (·.id)).getLast? = some bb →
      ((flatE post).map (·.id)).head? = some tt → bb ≠ tt ∧
      partialCmpEdgeP (Lf R (flatE pre ++ flatE post) bb) (Rf R (flatE pre ++ flatE post) bb)
        (Lf R (flatE pre ++ flatE post) tt) (Rf R (flatE pre ++ flatE post) tt) (.fin (R.x w)) = some .lt := by
    intro bb tt h1 h2
    rw [ids_getLast] at h1
    rw [ids_head] at h2
    obtain ⟨pre', ivb, e1, rfl⟩ := lastHi_eq_some h1
    obtain ⟨ivt, post', e2, rfl⟩ := nxtLo_eq_some h2
    have hm1 : ivb.hi ∈ flatE pre := by rw [e1]; simp
    have hm2 : ivt.lo ∈ flatE post := by rw [e2]; simp
    refine ⟨hprepost _ hm1 _ hm2, ?_⟩
    rw [Lf_id hid (hmemP _ hm1), Rf_id hid (hmemP _ hm1), Lf_id hid (hmemQ _ hm2), Rf_id hid (hmemQ _ hm2)]
    have s1 := g3 _ (hmemP _ hm1)
    have s2 := g3 _ (hmemQ _ hm2)
    exact partialCmp_lt _ _ _ _ _ (belowW_ptX hSh hwn s1 (hPlow _ hm1)).1 (aboveW_ptX hSh hwn s2 (hQhigh _ hm2)).1
      (span_orig hcpl s1).1 (span_orig hcpl s1).2 (span_orig hcpl s2).1 (span_orig hcpl s2).2
      (lt_trans (belowW_ptX hSh hwn s1 (hPlow _ hm1)).2 (aboveW_ptX hSh hwn s2 (hQhigh _ hm2)).2)
  have hbadB : ∀ pre' ivb, pre = pre' ++ [ivb] →
      wobP (Fq (R.pt w)) (Fq (R.pt wB)) (Fq (R.pt ivb.hi.lv)) (Fq (R.pt ivb.hi.rv)) = true →
      ∃ bb, ((flatE pre).map (·.id)).getLast? = some bb ∧ wobP (Fq (R.pt w)) (Fq (R.pt wB))
        (Lf R (flatE pre ++ flatE post) bb) (Rf R (flatE pre ++ flatE post) bb) = true := by
    intro pre' ivb e1 hv
    have hm : ivb.hi ∈ flatE pre := by rw [e1]; simp
    refine ⟨ivb.hi.id, by rw [ids_getLast, e1, lastHi_snoc], ?_⟩
    rw [Lf_id hid (hmemP _ hm), Rf_id hid (hmemP _ hm)]; exact hv
  have hokB : (∀ pre' ivb, pre = pre' ++ [ivb] →
      wobP (Fq (R.pt w)) (Fq (R.pt wB)) (Fq (R.pt ivb.hi.lv)) (Fq (R.pt ivb.hi.rv)) = false) →
      ∀ bb, ((flatE pre).map (·.id)).getLast? = some bb → wobP (Fq (R.pt w)) (Fq (R.pt wB))
        (Lf R (flatE pre ++ flatE post) bb) (Rf R (flatE pre ++ flatE post) bb) = false := by
    intro hF bb h
    rw [ids_getLast] at h
    obtain ⟨pre', ivb, e1, rfl⟩ := lastHi_eq_some h
    have hm : ivb.hi ∈ flatE pre := by rw [e1]; simp
    rw [Lf_id hid (hmemP _ hm), Rf_id hid (hmemP _ hm)]; exact hF _ ivb e1
  have hfailcall : ((∃ bb, ((flatE pre).map (·.id)).getLast? = some bb ∧ wobP (Fq (R.pt w)) (Fq (R.pt wB))
        (Lf R (flatE pre ++ flatE post) bb) (Rf R (flatE pre ++ flatE post) bb) = true) ∨
      ((∀ bb, ((flatE pre).map (·.id)).getLast? = some bb → wobP (Fq (R.pt w)) (Fq (R.pt wB))
        (Lf R (flatE pre ++ flatE post) bb) (Rf R (flatE pre ++ flatE post) bb) = false) ∧
        ∃ tt, ((flatE post).map (·.id)).head? = some tt ∧ wotP (Fq (R.pt w)) (Fq (R.pt wT))
          (Lf R (flatE pre ++ flatE post) tt) (Rf R (flatE pre ++ flatE post) tt) = true)) →
      ∃ k, (handleNext : SM XQ Unit).run s = .error (.overlap k (Fq (R.pt w))) := by
    intro hfail
    exact ⟨_, start_failV s w (R.prv w) (R.nxt w) wB wT _ _ _ _ es rest
      (Fq (R.pt w)) (Fq (R.pt wB)) (Fq (R.pt wT)) ((flatE pre).map (·.id)) ((flatE post).map (·.id))
      (Lf R (flatE pre ++ flatE post)) (Rf R (flatE pre ++ flatE post)) hev (hI.vget.2 w hwn) hnb
      (hI.vget.2 wB hBn) (hI.vget.2 wT hTn) (ftV_startX hSh hwn hBn hTn hxB hxT) (ftV_startX hSh hwn hTn hBn hxT hxB)
      hvB hvT t6 t7 hevs hI.mono hact hG t1 t2 t3 t4 t5
      (fun k _ => TriGeom.cmpEdgeP_self _ _ _) hpc hfail⟩
  rcases hBdec with hBF | ⟨pre', ivb, e1, hv⟩
  swap
  · exact Or.inr (hfailcall (Or.inl (hbadB _ ivb e1 hv)))
  rcases hTdec with hTF | ⟨ivt, post', e2, hv⟩
  swap
  · right
    apply hfailcall
    refine Or.inr ⟨hokB hBF, ivt.lo.id, by rw [ids_head, e2]; rfl, ?_⟩
    have hm : ivt.lo ∈ flatE post := by rw [e2]; simp
    rw [Lf_id hid (hmemQ _ hm), Rf_id hid (hmemQ _ hm)]; exact hv
  have hbb : ∀ bb, ((flatE pre).map (·.id)).getLast? = some bb → ∃ cbb, s.edges[bb]? = some cbb ∧
      cbb.bofIn = false ∧ wobP (Fq (R.pt w)) (Fq (R.pt wB)) (Lf R (flatE pre ++ flatE post) bb)
        (Rf R (flatE pre ++ flatE post) bb) = false := by
    intro bb h
    rw [ids_getLast] at h
    obtain ⟨pre', ivb, e1, rfl⟩ := lastHi_eq_some h
    obtain ⟨_, _, -, hcb, -⟩ := Linked.mem hlpre ivb (by rw [e1]; simp)
    have hm : ivb.hi ∈ flatE pre := by rw [e1]; simp
    refine ⟨_, hcb, rfl, ?_⟩
    rw [Lf_id hid (hmemP _ hm), Rf_id hid (hmemP _ hm)]
    exact hBF _ ivb e1
  have htt : ∀ tt, ((flatE post).map (·.id)).head? = some tt → ∃ ctt, s.edges[tt]? = some ctt ∧
      ctt.bofIn = true ∧ wotP (Fq (R.pt w)) (Fq (R.pt wT)) (Lf R (flatE pre ++ flatE post) tt)
        (Rf R (flatE pre ++ flatE post) tt) = false := by
    intro tt h
    rw [ids_head] at h
    obtain ⟨ivt, post', e1, rfl⟩ := nxtLo_eq_some h
    obtain ⟨_, _, hct, -, -⟩ := Linked.mem hlpost ivt (by rw [e1]; simp)
    have hm : ivt.lo ∈ flatE post := by rw [e1]; simp
    refine ⟨_, hct, rfl, ?_⟩
    rw [Lf_id hid (hmemQ _ hm), Rf_id hid (hmemQ _ hm)]
    exact hTF ivt _ e1
  obtain ⟨E', hrun, hPE⟩ := start_run_properV s w (R.prv w) (R.nxt w) wB wT _ _ _ _ es rest
    (Fq (R.pt w)) (Fq (R.pt wB)) (Fq (R.pt wT)) ((flatE pre).map (·.id)) ((flatE post).map (·.id))
    (Lf R (flatE pre ++ flatE post)) (Rf R (flatE pre ++ flatE post)) hev (hI.vget.2 w hwn) hnb
    (hI.vget.2 wB hBn) (hI.vget.2 wT hTn) (ftV_startX hSh hwn hBn hTn hxB hxT) (ftV_startX hSh hwn hTn hBn hxT hxB)
    hvB hvT t6 t7 hevs hI.mono hact hG t1 t2 t3 t4 t5
    (fun k _ => TriGeom.cmpEdgeP_self _ _ _) hbb htt hpc
  rw [ids_getLast, ids_head] at hPE
  refine Or.inl ⟨_, hrun, pre ++ ⟨⟨s.edges.size, w, wB⟩, ⟨s.edges.size + 1, w, wT⟩, s.chains.size⟩ :: post, ?inv, ?tst, ?ord⟩
  case ord =>
    have hflat'' : flatE (pre ++ (⟨⟨s.edges.size, w, wB⟩, ⟨s.edges.size + 1, w, wT⟩, s.chains.size⟩ : IV) :: post) =
        flatE pre ++ (⟨s.edges.size, w, wB⟩ : AE) :: (⟨s.edges.size + 1, w, wT⟩ : AE) :: flatE post := by simp
    rw [hflat'']
    exact hMnew
  case tst =>
    have hflat'' : flatE (pre ++ (⟨⟨s.edges.size, w, wB⟩, ⟨s.edges.size + 1, w, wT⟩, s.chains.size⟩ : IV) :: post) =
        flatE pre ++ (⟨s.edges.size, w, wB⟩ : AE) :: (⟨s.edges.size + 1, w, wT⟩ : AE) :: flatE post := by simp
    rw [hflat'']
    refine tested_insert2 (by have := hX.tested; rw [flatE_append] at this; exact this) ?_
      (pairOK_fan rfl hxB hxT hoS) ?_
    · intro b hb
      rcases List.eq_nil_or_concat pre with e0 | ⟨pre', ivb, e1⟩
      · rw [e0] at hb; cases hb
      · rw [List.concat_eq_append] at e1
        have hb' : b = ivb.hi := by rw [e1] at hb; simpa using hb.symm
        rw [hb']
        exact wobX_decode hSh hcpl (g3 _ (hmemP _ (by rw [e1]; simp))) hspB (hBF _ ivb e1)
    · intro t ht
      cases hpost : post with
      | nil => rw [hpost] at ht; cases ht
      | cons ivt post' =>
        have ht' : t = ivt.lo := by rw [hpost] at ht; simpa using ht.symm
        rw [ht']
        exact wotX_decode hSh hcpl hspT (g3 _ (hmemQ _ (by rw [hpost]; simp))) (hTF ivt _ hpost)
  have hflat' : flatE (pre ++ (⟨⟨s.edges.size, w, wB⟩, ⟨s.edges.size + 1, w, wT⟩, s.chains.size⟩ : IV) :: post) =
      flatE pre ++ (⟨s.edges.size, w, wB⟩ : AE) :: (⟨s.edges.size + 1, w, wT⟩ : AE) :: flatE post := by simp
  have hcilt : ∀ j ∈ pre ++ post, j.ci < s.chains.size := by
    intro j hj
    obtain ⟨_, _, -, -, c, hc, -⟩ := Linked.mem hI.lk j hj
    exact lt_of_get' hc
  have hptN : ∀ i, i < s.nodes.size → ptAt (s.nodes.push ⟨Fq (R.pt w), none, none⟩) i = ptAt s.nodes i :=
    fun i hi => ptAt_push_lt _ _ hi
  have hszN : s.nodes.size ≤ (s.nodes.push ⟨Fq (R.pt w), none, none⟩).size := by
    rw [Array.size_push]; omega
  have hchain : ∀ j ∈ pre ++ post,
      (s.chains.push ⟨s.nodes.size, s.nodes.size, s.nodes.size⟩)[j.ci]? = s.chains[j.ci]? := by
    intro j hj
    have := hcilt j hj
    rw [Array.getElem?_push_lt this, ← Array.getElem?_eq_getElem this]
  refine ⟨hI.vget, hI.mono, fun _ => rfl, ?_, ?_, ?_, ?_, ?_, ?_, ?_, ?_, hcpl⟩
  · show (flatE pre).map (·.id) ++ s.edges.size :: (s.edges.size + 1) :: (flatE post).map (·.id) = _
    rw [hflat']; simp
  · have := hI.cind
    rw [List.map_append] at this
    rw [List.map_append, List.map_cons]
    have hfresh : s.chains.size ∉ pre.map (·.ci) ++ post.map (·.ci) := by
      intro hm
      rw [← List.map_append] at hm
      obtain ⟨j, hj, e⟩ := List.mem_map.mp hm
      have := hcilt j hj
      omega
    rw [List.nodup_append] at this ⊢
    obtain ⟨n1, n2, n3⟩ := this
    refine ⟨n1, List.nodup_cons.mpr ⟨fun h => hfresh (List.mem_append_right _ h), n2⟩, ?_⟩
    intro a ha b hb
    rcases List.mem_cons.mp hb with rfl | hb
    · rintro rfl
      exact hfresh (List.mem_append_left _ ha)
    · exact n3 a ha b hb
  · rw [linked_append]
    constructor
    · -- the in-intervals below
      show Linked _ R none pre (some s.edges.size)
      refine Linked.set_above hlpre ?_ ?_ hszN hptN ?_
      · intro j hj
        have hjm := mem_flatE_of hj
        refine ⟨hPE.fr _ (hidlt _ (hmemP _ hjm.1)) ?_ ?_, hchain j (List.mem_append_left _ hj)⟩
        · intro e
          obtain ⟨pre', ivb, e1, e2⟩ := lastHi_eq_some e
          exact Linked.lo_ne_hi hlpre (j := j) (k := ivb) hj (by rw [e1]; simp) e2
        · intro e
          obtain ⟨ivt, post', e1, e2⟩ := nxtLo_eq_some e
          exact hprepost _ hjm.1 ivt.lo (by rw [e1]; simp) e2
      · intro j hj
        have hjpre : j ∈ pre := List.mem_of_mem_dropLast hj
        have hjm := mem_flatE_of hjpre
        refine hPE.fr _ (hidlt _ (hmemP _ hjm.2)) ?_ ?_
        · intro e
          obtain ⟨pre', ivb, e1, e2⟩ := lastHi_eq_some e
          rw [e1, List.dropLast_concat] at hj
          have hndpre : (flatE pre' ++ ivb.lo :: ivb.hi :: ([] : List AE)).Nodup := by
            have := (List.nodup_append.mp hnd).1
            rw [e1] at this
            simpa using this
          have := (nodup_mid hndpre).2 j.hi (by simpa using (mem_flatE_of hj).2)
          apply this.2
          exact hid _ (hmemP _ hjm.2) _ (hmemP _ (by rw [e1]; simp)) e2
        · intro e
          obtain ⟨ivt, post', e1, e2⟩ := nxtLo_eq_some e
          exact hprepost _ hjm.2 ivt.lo (by rw [e1]; simp) e2
      · intro pre' ivb e1
        have hcb : ECell s R ivb.hi ivb.ci false (some ivb.lo.id) (nxtLo post none) := by
          have := hlpre
          rw [e1, linked_append] at this
          exact this.2.2.1
        exact hPE.bb ivb.hi.id _ (by rw [e1, lastHi_snoc]) hcb
    · refine ⟨?_, ?_, ?_, ?_⟩
      · exact hPE.bot
      · show E'[s.edges.size + 1]? = _
        rw [hPE.top]
      · refine ⟨_, Array.getElem?_push_size, ?_, ptAt_push_size _ _, ptAt_push_size _ _⟩
        show s.nodes.size < (s.nodes.push _).size
        rw [Array.size_push]; omega
      · -- the in-intervals above
        refine Linked.set_below hlpost ?_ ?_ hszN hptN ?_
        · intro j hj
          have hjm := mem_flatE_of hj
          refine ⟨hPE.fr _ (hidlt _ (hmemQ _ hjm.2)) ?_ ?_, hchain j (List.mem_append_right _ hj)⟩
          · intro e
            obtain ⟨pre', ivb, e1, e2⟩ := lastHi_eq_some e
            exact hprepost ivb.hi (by rw [e1]; simp) _ hjm.2 e2.symm
          · intro e
            obtain ⟨ivt, post', e1, e2⟩ := nxtLo_eq_some e
            exact Linked.lo_ne_hi hlpost (j := ivt) (k := j) (by rw [e1]; simp) hj e2.symm
        · intro j hj
          have hjpost : j ∈ post := List.mem_of_mem_tail hj
          have hjm := mem_flatE_of hjpost
          refine hPE.fr _ (hidlt _ (hmemQ _ hjm.1)) ?_ ?_
          · intro e
            obtain ⟨pre', ivb, e1, e2⟩ := lastHi_eq_some e
            exact hprepost ivb.hi (by rw [e1]; simp) _ hjm.1 e2.symm
          · intro e
            obtain ⟨ivt, post', e1, e2⟩ := nxtLo_eq_some e
            rw [e1, List.tail_cons] at hj
            have hndpost : (([] : List AE) ++ ivt.lo :: ivt.hi :: flatE post').Nodup := by
              have := (List.nodup_append.mp hnd).2.1
              rw [e1] at this
              simpa using this
            have := (nodup_mid hndpost).2 j.lo (by simpa using (mem_flatE_of hj).1)
            apply this.1
            exact hid _ (hmemQ _ hjm.1) _ (hmemQ _ (by rw [e1]; simp)) e2
        · intro ivt post' e1
          have hct : ECell s R ivt.lo ivt.ci true (lastHi pre none) (some ivt.hi.id) := by
            have := hlpost
            rw [e1] at this
            exact this.1
          exact hPE.tt ivt.lo.id _ (by rw [e1]; rfl) hct
  · exact nodesOk_push hI.nok _ (oLt_none _) (oLt_none _)
  · rw [hflat']; exact g5
  · rw [hflat']; exact g6
  · rw [hflat']
    show QCore (shearRing ε R) ((shearRing ε R).x w) _ (evAdd s.verts (Fq (R.pt wT)) wT (s.edges.size + 1)
      (evAdd s.verts (Fq (R.pt wB)) wB s.edges.size rest))
    rw [startV_eventsX hSh hI.vget hq hBn hTn]
    exact g7
  · rw [hflat']; exact g8

/-- **the improper Start keeps the invariant** -/
theorem xstepV_start_split (hSh : ShX R ε Vε) {s : St XQ} {xs X : Rat} {pre post : List IV} {iv : IV}
    (hX : XInvV R ε s xs X (pre ++ iv :: post))
    {w : Nat} {es : List Nat} {rest : List (Nat × List Nat)} (hev : s.events = (w, es) :: rest)
    {wB wT : Nat} (hnb : (R.prv w = wB ∧ R.nxt w = wT) ∨ (R.prv w = wT ∧ R.nxt w = wB))
    (hxB : (shearRing ε R).x w < (shearRing ε R).x wB) (hxT : (shearRing ε R).x w < (shearRing ε R).x wT) (ho : 0 < orient (R.pt w) (R.pt wB) (R.pt wT))
    (hoS : 0 < orient ((shearRing ε R).pt w) ((shearRing ε R).pt wB) ((shearRing ε R).pt wT))
    (hPlow : ∀ a ∈ flatE pre ++ [iv.lo], hY (shearRing ε R) a ((shearRing ε R).x w) < (R.pt w).2)
    (hQhigh : ∀ a ∈ iv.hi :: flatE post, (R.pt w).2 < hY (shearRing ε R) a ((shearRing ε R).x w))
    (g3 : ∀ a ∈ (flatE pre ++ [iv.lo]) ++ iv.hi :: flatE post, Span (shearRing ε R) ((shearRing ε R).x w) a)
    (g5 : ∀ a ∈ (flatE pre ++ [iv.lo]) ++ (⟨s.edges.size, w, wB⟩ : AE) :: (⟨s.edges.size + 1, w, wT⟩ : AE) ::
      (iv.hi :: flatE post), Span (shearRing ε R) ((shearRing ε R).x w) a)
    (g6 : ((flatE pre ++ [iv.lo]) ++ (⟨s.edges.size, w, wB⟩ : AE) :: (⟨s.edges.size + 1, w, wT⟩ : AE) ::
      (iv.hi :: flatE post)).Pairwise (Below (shearRing ε R) ((shearRing ε R).x w)))
    (g7 : QCore (shearRing ε R) ((shearRing ε R).x w)
      ((flatE pre ++ [iv.lo]) ++ (⟨s.edges.size, w, wB⟩ : AE) :: (⟨s.edges.size + 1, w, wT⟩ : AE) ::
        (iv.hi :: flatE post))
      (qAdd (shearRing ε R) wT (s.edges.size + 1) (qAdd (shearRing ε R) wB s.edges.size rest)))
    (g8 : Cross (shearRing ε R) ((shearRing ε R).x w)
      ((flatE pre ++ [iv.lo]) ++ (⟨s.edges.size, w, wB⟩ : AE) :: (⟨s.edges.size + 1, w, wT⟩ : AE) ::
        (iv.hi :: flatE post))) :
    (∃ s', (handleNext : SM XQ Unit).run s = .ok ((), s') ∧
      ∃ ivs', XInvV R ε s' ((shearRing ε R).x w) (R.x w) ivs') ∨
      ∃ k, (handleNext : SM XQ Unit).run s = .error (.overlap k (Fq (R.pt w))) := by
  have hI := hX.inv
  have hR := hSh.ring
  have hq := hI.q
  have hflat : flatE (pre ++ iv :: post) = (flatE pre ++ [iv.lo]) ++ iv.hi :: flatE post := by simp
  rw [hev, hflat] at hq
  have hwq := hq.gt (w, es) List.mem_cons_self
  have hwn : w < R.n := hwq.1
  obtain ⟨hBn, hTn, hadjB, hadjT, hBT, hnbrs⟩ := start_nbrs hR hwn hnb
  have hid := hq.idinj
  have hG := ids_eg hI.lk hI.q.idinj
  rw [hflat, List.map_append] at hG
  have hact : s.active = (flatE pre ++ [iv.lo]).map (·.id) ++ (iv.hi :: flatE post).map (·.id) := by
    rw [hI.act, hflat, List.map_append]
  have hevs : ∀ a ∈ rest, a.1 < s.verts.size := by
    intro a ha
    rw [hI.vget.1]
    exact (hq.gt a (List.mem_cons_of_mem _ ha)).1
  have hcpl := cpl_atX hSh hwn
  have hlB : lexLt (R.pt w) (R.pt wB) := (hSh.key _ _ hwn hBn).mp hxB
  have hlT : lexLt (R.pt w) (R.pt wT) := (hSh.key _ _ hwn hTn).mp hxT
  have nB := start_nB hlB hlT ho
  have hreach := reach_head hq
  have hadv := ordM_advance hSh hI.cpl hwn hwq.2 (L := (flatE pre ++ [iv.lo]) ++ (iv.hi :: flatE post))
    (by rw [← hflat]; exact hI.span) (by rw [← hflat]; exact hI.sorted)
    (by rw [← hflat]; exact hX.tested) (fun a ha => (hreach a ha).1) hq.uniq
    (by rw [← hflat]; exact hX.ordM)
  have hbt := cmp_of_belowM (R := R) (X := R.x w) (a := ⟨s.edges.size, w, wB⟩) (b := ⟨s.edges.size + 1, w, wT⟩)
    hlB hlT (le_refl _) (QuadVGeom.lexLt_le hlB) (le_refl _) (QuadVGeom.lexLt_le hlT) (start_bt _ _ nB hlT ho)
  obtain ⟨hvB, hvT'⟩ := vic_start (wT := wT) hSh hwn hid nB hPlow g3
  rcases hvT' with hvThit | ⟨hvT, hvicN⟩
  · exact Or.inr ⟨_, start_vic s w (R.prv w) (R.nxt w) wB wT _ _ _ _ es rest
      (Fq (R.pt w)) (Fq (R.pt wB)) (Fq (R.pt wT)) ((flatE pre ++ [iv.lo]).map (·.id)) ((iv.hi :: flatE post).map (·.id))
      (Lf R ((flatE pre ++ [iv.lo]) ++ (iv.hi :: flatE post))) (Rf R ((flatE pre ++ [iv.lo]) ++ (iv.hi :: flatE post))) hev (hI.vget.2 w hwn) hnb
      (hI.vget.2 wB hBn) (hI.vget.2 wT hTn) (ftV_startX hSh hwn hBn hTn hxB hxT)
      (ftV_startX hSh hwn hTn hBn hxT hxB) hvB hvThit hbt.1 hbt.2 hact hG⟩
  have hMnew := (ordM_start hSh s.edges.size (s.edges.size + 1) hwn hBn hTn hlB hlT ho hPlow hQhigh g3 hvicN
    hadv).2
  obtain ⟨t1, t2, t3, t4, t5, t6, t7⟩ := startX_tests hSh hcpl hid g5 hMnew
  rw [List.map_append] at t5
  have hlom : iv.lo ∈ (flatE pre ++ [iv.lo]) ++ iv.hi :: flatE post := by simp
  have hhim : iv.hi ∈ (flatE pre ++ [iv.lo]) ++ iv.hi :: flatE post := by simp
  have hyB : hY R (⟨s.edges.size, w, wB⟩ : AE) (R.x w) = (R.pt w).2 := lineY_left _ _
  have hyT : hY R (⟨s.edges.size + 1, w, wT⟩ : AE) (R.x w) = (R.pt w).2 := lineY_left _ _
  have hnd : ((flatE pre ++ [iv.lo]) ++ iv.hi :: flatE post).Nodup := by
    have := nodup_of_pairwise_below hI.sorted
    rw [hflat] at this; exact this
  have hnd' : (flatE pre ++ iv.lo :: iv.hi :: flatE post).Nodup := by simpa using hnd
  obtain ⟨hlohi, hothers⟩ := nodup_mid hnd'
  obtain ⟨hc1, hc2, hc3⟩ := Linked.mid hI.lk
  obtain ⟨c, hc, hrm, hh, ht⟩ := hc3
  have hlow := hPlow iv.lo (by simp)
  have hhigh := hQhigh iv.hi (by simp)
  have hidne : iv.lo.id ≠ iv.hi.id := fun e => hlohi (hid _ hlom _ hhim e)
  -- comparisons of the two bounding edges with the others
  have hpwB : ((flatE pre).map (·.id) ++ iv.lo.id :: (iv.hi :: flatE post).map (·.id)).Pairwise
      (CmpLt (Lf R ((flatE pre ++ [iv.lo]) ++ iv.hi :: flatE post))
        (Rf R ((flatE pre ++ [iv.lo]) ++ iv.hi :: flatE post)) (.fin (R.x w))) := by
    simpa using t5
  have hpwT : ((flatE pre ++ [iv.lo]).map (·.id) ++ iv.hi.id :: (flatE post).map (·.id)).Pairwise
      (CmpLt (Lf R ((flatE pre ++ [iv.lo]) ++ iv.hi :: flatE post))
        (Rf R ((flatE pre ++ [iv.lo]) ++ iv.hi :: flatE post)) (.fin (R.x w))) := by
    simpa using t5
  obtain ⟨b1, b2⟩ := pairwise_at hpwB
  obtain ⟨b3, b4⟩ := pairwise_at hpwT
  have s1 := g3 _ hlom
  have s2 := g3 _ hhim
  have hpc : partialCmpEdgeP (Lf R ((flatE pre ++ [iv.lo]) ++ iv.hi :: flatE post) iv.lo.id)
      (Rf R ((flatE pre ++ [iv.lo]) ++ iv.hi :: flatE post) iv.lo.id)
      (Lf R ((flatE pre ++ [iv.lo]) ++ iv.hi :: flatE post) iv.hi.id)
      (Rf R ((flatE pre ++ [iv.lo]) ++ iv.hi :: flatE post) iv.hi.id) (.fin (R.x w)) = some .lt := by
    rw [Lf_id hid hlom, Rf_id hid hlom, Lf_id hid hhim, Rf_id hid hhim]
    exact partialCmp_lt _ _ _ _ _ (belowW_ptX hSh hwn s1 hlow).1 (aboveW_ptX hSh hwn s2 hhigh).1
      (span_orig hcpl s1).1 (span_orig hcpl s1).2 (span_orig hcpl s2).1 (span_orig hcpl s2).2
      (lt_trans (belowW_ptX hSh hwn s1 hlow).2 (aboveW_ptX hSh hwn s2 hhigh).2)
  have hspB : Span (shearRing ε R) ((shearRing ε R).x w) (⟨s.edges.size, w, wB⟩ : AE) := g5 _ (by simp)
  have hspT : Span (shearRing ε R) ((shearRing ε R).x w) (⟨s.edges.size + 1, w, wT⟩ : AE) := g5 _ (by simp)
  have hfailcall : ((∃ bb, ((flatE pre ++ [iv.lo]).map (·.id)).getLast? = some bb ∧
        wobP (Fq (R.pt w)) (Fq (R.pt wB))
          (Lf R ((flatE pre ++ [iv.lo]) ++ iv.hi :: flatE post) bb)
          (Rf R ((flatE pre ++ [iv.lo]) ++ iv.hi :: flatE post) bb) = true) ∨
      ((∀ bb, ((flatE pre ++ [iv.lo]).map (·.id)).getLast? = some bb →
        wobP (Fq (R.pt w)) (Fq (R.pt wB))
          (Lf R ((flatE pre ++ [iv.lo]) ++ iv.hi :: flatE post) bb)
          (Rf R ((flatE pre ++ [iv.lo]) ++ iv.hi :: flatE post) bb) = false) ∧
        ∃ tt, ((iv.hi :: flatE post).map (·.id)).head? = some tt ∧ wotP (Fq (R.pt w)) (Fq (R.pt wT))
          (Lf R ((flatE pre ++ [iv.lo]) ++ iv.hi :: flatE post) tt)
          (Rf R ((flatE pre ++ [iv.lo]) ++ iv.hi :: flatE post) tt) = true)) →
      ∃ k, (handleNext : SM XQ Unit).run s = .error (.overlap k (Fq (R.pt w))) := by
    intro hfail
    refine ⟨_, start_failV s w (R.prv w) (R.nxt w) wB wT (R.prv wB) (R.nxt wB) (R.prv wT) (R.nxt wT) es rest
      (Fq (R.pt w)) (Fq (R.pt wB)) (Fq (R.pt wT)) ((flatE pre ++ [iv.lo]).map (·.id))
      ((iv.hi :: flatE post).map (·.id))
      (Lf R ((flatE pre ++ [iv.lo]) ++ iv.hi :: flatE post)) (Rf R ((flatE pre ++ [iv.lo]) ++ iv.hi :: flatE post))
      hev (hI.vget.2 w hwn) hnb
      (hI.vget.2 wB hBn) (hI.vget.2 wT hTn) (ftV_startX hSh hwn hBn hTn hxB hxT) (ftV_startX hSh hwn hTn hBn hxT hxB)
      hvB hvT t6 t7 hevs hI.mono hact hG t1 t2 t3 t4 t5
      (fun k _ => TriGeom.cmpEdgeP_self _ _ _) ?_ hfail⟩
    intro bb tt h1 h2
    have e1 : bb = iv.lo.id := by simpa using h1.symm
    have e2 : tt = iv.hi.id := by simpa using h2.symm
    rw [e1, e2]
    exact ⟨hidne, hpc⟩
  cases hwob : wobP (Fq (R.pt w)) (Fq (R.pt wB)) (Fq (R.pt iv.lo.lv)) (Fq (R.pt iv.lo.rv))
  swap
  · right
    apply hfailcall
    refine Or.inl ⟨iv.lo.id, by simp, ?_⟩
    rw [Lf_id hid hlom, Rf_id hid hlom]; exact hwob
  cases hwot : wotP (Fq (R.pt w)) (Fq (R.pt wT)) (Fq (R.pt iv.hi.lv)) (Fq (R.pt iv.hi.rv))
  swap
  · right
    apply hfailcall
    refine Or.inr ⟨?_, iv.hi.id, by simp, ?_⟩
    · intro bb h1
      have e1 : bb = iv.lo.id := by simpa using h1.symm
      rw [e1, Lf_id hid hlom, Rf_id hid hlom]; exact hwob
    · rw [Lf_id hid hhim, Rf_id hid hhim]; exact hwot
  have hwob' : wobP (Fq (R.pt w)) (Fq (R.pt wB))
      (Lf R ((flatE pre ++ [iv.lo]) ++ iv.hi :: flatE post) iv.lo.id)
      (Rf R ((flatE pre ++ [iv.lo]) ++ iv.hi :: flatE post) iv.lo.id) = false := by
    rw [Lf_id hid hlom, Rf_id hid hlom]; exact hwob
  have hwot' : wotP (Fq (R.pt w)) (Fq (R.pt wT))
      (Lf R ((flatE pre ++ [iv.lo]) ++ iv.hi :: flatE post) iv.hi.id)
      (Rf R ((flatE pre ++ [iv.lo]) ++ iv.hi :: flatE post) iv.hi.id) = false := by
    rw [Lf_id hid hhim, Rf_id hid hhim]; exact hwot
  obtain ⟨N4, out4, hrun, hN4, hsz4, hpt4, hp1, hp2, hp3⟩ := start_run_splitV s w (R.prv w) (R.nxt w) wB wT
    (R.prv wB) (R.nxt wB) (R.prv wT) (R.nxt wT) es rest (Fq (R.pt w)) (Fq (R.pt wB)) (Fq (R.pt wT))
    ((flatE pre ++ [iv.lo]).map (·.id)) ((iv.hi :: flatE post).map (·.id))
    (Lf R ((flatE pre ++ [iv.lo]) ++ iv.hi :: flatE post)) (Rf R ((flatE pre ++ [iv.lo]) ++ iv.hi :: flatE post))
    ((flatE pre).map (·.id)) ((flatE post).map (·.id)) iv.lo.id iv.hi.id
    ⟨Fq (R.pt iv.lo.rv), iv.ci, true, lastHi pre none, some iv.hi.id⟩
    ⟨Fq (R.pt iv.hi.rv), iv.ci, false, some iv.lo.id, nxtLo post none⟩ c
    hev (hI.vget.2 w hwn) hnb
    (hI.vget.2 wB hBn) (hI.vget.2 wT hTn) (ftV_startX hSh hwn hBn hTn hxB hxT) (ftV_startX hSh hwn hTn hBn hxT hxB)
    hvB hvT t6 t7 hevs hI.mono (by simp) (by simp)
    hact hG t1 t2 t3 t4 hc1 hc2 rfl rfl rfl hidne
    (fun k hk => (b1 k hk).2) (TriGeom.cmpEdgeP_self _ _ _) (fun k hk => (b2 k hk).1)
    (fun k hk => (b3 k hk).2) (TriGeom.cmpEdgeP_self _ _ _) (fun k hk => (b4 k hk).1)
    hpc hwob' hwot' hI.nok hc hrm
  refine Or.inl ⟨_, hrun, pre ++ ([⟨iv.lo, ⟨s.edges.size, w, wB⟩, s.chains.size + 1⟩,
    ⟨⟨s.edges.size + 1, w, wT⟩, iv.hi, s.chains.size + 1 + 1⟩] ++ post), ?inv, ?tst, ?ord⟩
  case ord =>
    have hflat'' : flatE (pre ++ ([(⟨iv.lo, ⟨s.edges.size, w, wB⟩, s.chains.size + 1⟩ : IV),
        ⟨⟨s.edges.size + 1, w, wT⟩, iv.hi, s.chains.size + 1 + 1⟩] ++ post)) =
        (flatE pre ++ [iv.lo]) ++ (⟨s.edges.size, w, wB⟩ : AE) :: (⟨s.edges.size + 1, w, wT⟩ : AE) ::
          (iv.hi :: flatE post) := by simp
    rw [hflat'']
    exact hMnew
  case tst =>
    have hflat'' : flatE (pre ++ ([(⟨iv.lo, ⟨s.edges.size, w, wB⟩, s.chains.size + 1⟩ : IV),
        ⟨⟨s.edges.size + 1, w, wT⟩, iv.hi, s.chains.size + 1 + 1⟩] ++ post)) =
        (flatE pre ++ [iv.lo]) ++ (⟨s.edges.size, w, wB⟩ : AE) :: (⟨s.edges.size + 1, w, wT⟩ : AE) ::
          (iv.hi :: flatE post) := by simp
    rw [hflat'']
    refine tested_insert2 (by rw [← hflat]; exact hX.tested) ?_ (pairOK_fan rfl hxB hxT hoS) ?_
    · intro b hb
      have hb' : b = iv.lo := by simpa using hb.symm
      rw [hb']
      exact wobX_decode hSh hcpl s1 hspB hwob
    · intro t ht
      have ht' : t = iv.hi := by simpa using ht.symm
      rw [ht']
      exact wotX_decode hSh hcpl hspT s2 hwot
  refine splitV_invX hSh hI hev hwn hBn hTn hc hh ht hN4 hsz4 hpt4 hp1 hp2 hp3 ?_ ?_ ?_ ?_ ?_ ?_ ?_ ?_ g5 g6 g7 g8
  · rfl
  · rfl
  · rfl
  · rfl
  · (unfold splitRes; with_reducible rfl)
  · rfl
  · rfl
  · rfl

/-- **the Start event keeps the invariant** -/
theorem xstepV_start (hSh : ShX R ε Vε) {s : St XQ} {xs X : Rat} {ivs : List IV} (hX : XInvV R ε s xs X ivs)
    {w : Nat} {es : List Nat} {rest : List (Nat × List Nat)} (hev : s.events = (w, es) :: rest)
    {wB wT : Nat} (hnb : (R.prv w = wB ∧ R.nxt w = wT) ∨ (R.prv w = wT ∧ R.nxt w = wB))
    (hxB : (shearRing ε R).x w < (shearRing ε R).x wB) (hxT : (shearRing ε R).x w < (shearRing ε R).x wT)
    (hoS : 0 < orient ((shearRing ε R).pt w) ((shearRing ε R).pt wB) ((shearRing ε R).pt wT)) :
    (∃ s', (handleNext : SM XQ Unit).run s = .ok ((), s') ∧
      ∃ ivs', XInvV R ε s' ((shearRing ε R).x w) (R.x w) ivs') ∨
      ∃ k, (handleNext : SM XQ Unit).run s = .error (.overlap k (Fq (R.pt w))) := by
  have hI := hX.inv
  have hR := hSh.ring
  have hq := hI.q
  rw [hev] at hq
  have hidlt : ∀ a ∈ flatE ivs, a.id < s.edges.size := by
    intro a ha
    obtain ⟨e, he, -⟩ := Linked.eg hI.lk a ha
    exact lt_of_get' he
  have ho : 0 < orient (R.pt w) (R.pt wB) (R.pt wT) := by rw [← orient_ring ε]; exact hoS
  obtain ⟨-, P, Q, hE, hlow, hhigh, g3, g4, g5, g6, g7, g8⟩ := xstart_flat hR hSh.noTouch s.edges.size
    (s.edges.size + 1) hI.span hI.sorted hX.tested hq hI.cross hnb hxB hxT hoS
    (fun a ha => ne_of_lt (hidlt a ha)) (fun a ha => by have := hidlt a ha; omega) (by omega)
  rcases flat_split ivs P Q hE with ⟨pre, post, rfl, rfl, rfl⟩ | ⟨pre, iv, post, rfl, rfl, rfl⟩
  · rw [flatE_append] at g3 g4
    exact xstepV_start_proper hSh hX hev hnb hxB hxT ho hoS hlow hhigh g3 g4 g5 g6 g7 g8
  · have hflat : flatE (pre ++ iv :: post) = (flatE pre ++ [iv.lo]) ++ iv.hi :: flatE post := by simp
    rw [hflat] at g3
    exact xstepV_start_split hSh hX hev hnb hxB hxT ho hoS hlow hhigh g3 g5 g6 g7 g8


end Cav.GenXV
