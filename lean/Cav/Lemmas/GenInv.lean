/-
  General sweep invariant, part 5: THE INVARIANT `GInv`.

  The polygon set is a ring `R : RingQ` (rational points, `prv`/`nxt` links).  The abstract state
  is the sweep abscissa `xs` and the list `ivs` of in-intervals in stored order; an in-interval
  `iv` has a lower edge `iv.lo` and an upper edge `iv.hi` (stored edge id, left and right vertex)
  and owns the back-chain `iv.ci`.  `flatE ivs` is the active list.

  * heap (`Linked`): the stored cells of the active edges have the right end points, the chain
    ids, alternating in-interval flags and partner links given by the list; the head/tail of the
    chain of an in-interval carry the left points of its lower/upper edge; all node links are in
    range (`NodesOk`).  Nothing is said about the inside of the back-chains (not needed for
    acceptance).
  * order (`Below`): the active edges are strictly ordered by height at `xs` (two edges leaving
    the vertex at `xs` by the orientation determinant).
  * queue (`QInv`): the queue is sorted by abscissa and lies to the right of `xs`; with each
    queued vertex exactly the active edges ending there are registered; the right end of every
    active edge and every Start vertex to the right of `xs` are queued; the active edges are
    exactly the ring edges crossing the sweep line.
-/
import Cav.Lemmas.GenGeom
import Cav.Lemmas.GenBend

set_option linter.unusedSimpArgs false
set_option linter.unusedVariables false

namespace Cav.GenInv
open Cav Num Cav.Geo Cav.Sweep Cav.TriRun Cav.QuadRun Cav.QuadGeom Cav.SweepOut
open Cav.GenNodes Cav.GenQuery Cav.GenGeom Cav.GenBend

/-! ### the ring -/

structure RingQ where
  n : Nat
  pt : Nat → Q
  prv : Nat → Nat
  nxt : Nat → Nat

/-- the vertex array of the model is the ring `R`; links in range and mutually inverse; at least
    three vertices on every cycle (`prv ≠ nxt`); pairwise distinct abscissae -/
structure RingOK (R : RingQ) (V : Array (Vtx XQ)) : Prop where
  size : V.size = R.n
  get : ∀ i, i < R.n → V[i]? = some ⟨Fq (R.pt i), R.prv i, R.nxt i⟩
  prv_lt : ∀ i, i < R.n → R.prv i < R.n
  nxt_lt : ∀ i, i < R.n → R.nxt i < R.n
  prv_nxt : ∀ i, i < R.n → R.prv (R.nxt i) = i
  nxt_prv : ∀ i, i < R.n → R.nxt (R.prv i) = i
  ne : ∀ i, i < R.n → R.prv i ≠ R.nxt i
  distinct : ∀ i j, i < R.n → j < R.n → (R.pt i).1 = (R.pt j).1 → i = j

/-- ring neighbours -/
def Adj (R : RingQ) (u v : Nat) : Prop := R.nxt u = v ∨ R.prv u = v

/-- abscissa of a vertex -/
abbrev RingQ.x (R : RingQ) (i : Nat) : Rat := (R.pt i).1

/-- a Start vertex: both neighbours to the right -/
def IsStart (R : RingQ) (v : Nat) : Prop := R.x v < R.x (R.prv v) ∧ R.x v < R.x (R.nxt v)

/-! ### abstract active edges and in-intervals -/

structure AE where
  id : Nat
  lv : Nat
  rv : Nat
  deriving DecidableEq

structure IV where
  lo : AE
  hi : AE
  ci : Nat

def flatE (ivs : List IV) : List AE := ivs.flatMap fun iv => [iv.lo, iv.hi]

@[simp] theorem flatE_nil : flatE [] = [] := rfl
@[simp] theorem flatE_cons (iv : IV) (r : List IV) : flatE (iv :: r) = iv.lo :: iv.hi :: flatE r := rfl
@[simp] theorem flatE_append (a b : List IV) : flatE (a ++ b) = flatE a ++ flatE b := by
  simp [flatE]

/-! ### heap -/

/-- the stored cell of an active edge -/
def ECell (s : St XQ) (R : RingQ) (a : AE) (ci : Nat) (par : Bool) (below above : Option Nat) : Prop :=
  s.edges[a.id]? = some ⟨Fq (R.pt a.rv), ci, par, below, above⟩

/-- the chain cell of an in-interval -/
def CCell (s : St XQ) (R : RingQ) (iv : IV) : Prop :=
  ∃ c, s.chains[iv.ci]? = some c ∧ c.rm < s.nodes.size ∧
    ptAt s.nodes c.head = some (Fq (R.pt iv.lo.lv)) ∧ ptAt s.nodes c.tail = some (Fq (R.pt iv.hi.lv))

/-- id of the lower edge of the first in-interval of `l`, else `a` -/
def nxtLo (l : List IV) (a : Option Nat) : Option Nat :=
  match l with
  | [] => a
  | iv :: _ => some iv.lo.id

/-- id of the upper edge of the last in-interval of `l`, else `b` -/
def lastHi : List IV → Option Nat → Option Nat
  | [], b => b
  | iv :: r, _ => lastHi r (some iv.hi.id)

/-- the cells of the in-intervals `l`, linked in this order between `b` (below) and `a` (above) -/
def Linked (s : St XQ) (R : RingQ) : Option Nat → List IV → Option Nat → Prop
  | _, [], _ => True
  | b, iv :: r, a =>
    ECell s R iv.lo iv.ci true b (some iv.hi.id) ∧ ECell s R iv.hi iv.ci false (some iv.lo.id) (nxtLo r a) ∧
      CCell s R iv ∧ Linked s R (some iv.hi.id) r a

theorem nxtLo_append (l1 l2 : List IV) (a : Option Nat) :
    nxtLo (l1 ++ l2) a = nxtLo l1 (nxtLo l2 a) := by
  cases l1 <;> rfl

theorem lastHi_append (l1 l2 : List IV) (b : Option Nat) :
    lastHi (l1 ++ l2) b = lastHi l2 (lastHi l1 b) := by
  induction l1 generalizing b with
  | nil => rfl
  | cons iv r ih => exact ih _

theorem linked_append (s : St XQ) (R : RingQ) : ∀ (l1 l2 : List IV) (b a : Option Nat),
    Linked s R b (l1 ++ l2) a ↔ Linked s R b l1 (nxtLo l2 a) ∧ Linked s R (lastHi l1 b) l2 a
  | [], l2, b, a => by simp [Linked, lastHi]
  | iv :: r, l2, b, a => by
    have ih := linked_append s R r l2 (some iv.hi.id) a
    simp only [List.cons_append, Linked, nxtLo_append, lastHi, ih, and_assoc]

/-- the cells of a member -/
theorem Linked.mem {s : St XQ} {R : RingQ} : ∀ {l : List IV} {b a : Option Nat}, Linked s R b l a →
    ∀ iv ∈ l, ∃ b' a', ECell s R iv.lo iv.ci true b' (some iv.hi.id) ∧
      ECell s R iv.hi iv.ci false (some iv.lo.id) a' ∧ CCell s R iv
  | [], _, _, _, iv, h => by cases h
  | iv0 :: r, b, a, hl, iv, h => by
    obtain ⟨h1, h2, h3, h4⟩ := hl
    rcases List.mem_cons.mp h with rfl | h
    · exact ⟨_, _, h1, h2, h3⟩
    · exact Linked.mem h4 iv h

/-- frame: the cells of `l` are untouched, the node heap has grown keeping its points -/
theorem Linked.frame {s s' : St XQ} {R : RingQ} :
    ∀ {l : List IV} {b a : Option Nat},
    (∀ iv ∈ l, s'.edges[iv.lo.id]? = s.edges[iv.lo.id]? ∧ s'.edges[iv.hi.id]? = s.edges[iv.hi.id]? ∧
      s'.chains[iv.ci]? = s.chains[iv.ci]?) →
    s.nodes.size ≤ s'.nodes.size → (∀ i, i < s.nodes.size → ptAt s'.nodes i = ptAt s.nodes i) →
    Linked s R b l a → Linked s' R b l a
  | [], _, _, _, _, _, _ => trivial
  | iv :: r, b, a, h, hsz, hpt, hl => by
    obtain ⟨h1, h2, h3, h4⟩ := hl
    obtain ⟨e1, e2, e3⟩ := h iv List.mem_cons_self
    refine ⟨?_, ?_, ?_, Linked.frame (fun iv' hm => h iv' (List.mem_cons_of_mem _ hm)) hsz hpt h4⟩
    · unfold ECell at h1 ⊢; rw [e1]; exact h1
    · unfold ECell at h2 ⊢; rw [e2]; exact h2
    · obtain ⟨c, hc, hrm, hh, ht⟩ := h3
      refine ⟨c, by rw [e3]; exact hc, Nat.lt_of_lt_of_le hrm hsz, ?_, ?_⟩
      · rw [hpt _ (ptAt_some_lt hh)]; exact hh
      · rw [hpt _ (ptAt_some_lt ht)]; exact ht

/-- the left point of a lower edge, read through its cells -/
theorem lpt_lo {s : St XQ} {R : RingQ} {iv : IV} {b a : Option Nat}
    (h1 : ECell s R iv.lo iv.ci true b a) (h3 : CCell s R iv) :
    lpt? s ⟨Fq (R.pt iv.lo.rv), iv.ci, true, b, a⟩ = some (Fq (R.pt iv.lo.lv)) := by
  obtain ⟨c, hc, -, hh, -⟩ := h3
  rw [lpt_eq, hc]
  exact hh

theorem lpt_hi {s : St XQ} {R : RingQ} {iv : IV} {b a : Option Nat}
    (h1 : ECell s R iv.hi iv.ci false b a) (h3 : CCell s R iv) :
    lpt? s ⟨Fq (R.pt iv.hi.rv), iv.ci, false, b, a⟩ = some (Fq (R.pt iv.hi.lv)) := by
  obtain ⟨c, hc, -, -, ht⟩ := h3
  rw [lpt_eq, hc]
  exact ht

/-! ### order -/

/-- edge `a` is below edge `b` at the abscissa `xs` -/
def Below (R : RingQ) (xs : Rat) (a b : AE) : Prop :=
  lineY (R.pt a.lv) (R.pt a.rv) xs < lineY (R.pt b.lv) (R.pt b.rv) xs ∨
    (a.lv = b.lv ∧ R.x a.lv = xs ∧ 0 < orient (R.pt a.lv) (R.pt a.rv) (R.pt b.rv))

/-- an active edge joins ring neighbours and crosses the sweep line -/
structure Span (R : RingQ) (xs : Rat) (a : AE) : Prop where
  lv_lt : a.lv < R.n
  rv_lt : a.rv < R.n
  adj : Adj R a.lv a.rv
  le : R.x a.lv ≤ xs
  gt : xs < R.x a.rv

/-! ### queue -/

structure QCore (R : RingQ) (xs : Rat) (E : List AE) (evs : List (Nat × List Nat)) : Prop where
  sorted : evs.Pairwise (fun a b => R.x a.1 < R.x b.1)
  gt : ∀ ev ∈ evs, ev.1 < R.n ∧ xs < R.x ev.1
  reg : ∀ ev ∈ evs, ev.2.Nodup ∧ ∀ e, e ∈ ev.2 ↔ ∃ a ∈ E, a.id = e ∧ a.rv = ev.1
  regAll : ∀ a ∈ E, ∃ es, (a.rv, es) ∈ evs
  starts : ∀ v, v < R.n → xs < R.x v → IsStart R v → ∃ es, (v, es) ∈ evs
  uniq : ∀ a ∈ E, ∀ b ∈ E, a.lv = b.lv → a.rv = b.rv → a = b
  idinj : ∀ a ∈ E, ∀ b ∈ E, a.id = b.id → a = b

/-- every ring edge crossing the sweep line is active -/
def Cross (R : RingQ) (xs : Rat) (E : List AE) : Prop :=
  ∀ u v, u < R.n → v < R.n → Adj R u v → R.x u ≤ xs → xs < R.x v → ∃ a ∈ E, a.lv = u ∧ a.rv = v

/-! ### validity of the input, as seen by the sweep -/

/-- two different left-to-right ring edges have equal heights only at a common end point -/
def NoCross (R : RingQ) : Prop :=
  ∀ u v u' v', u < R.n → v < R.n → u' < R.n → v' < R.n → Adj R u v → Adj R u' v' →
    R.x u < R.x v → R.x u' < R.x v' → ¬ (u = u' ∧ v = v') →
    ∀ x, R.x u ≤ x → R.x u' ≤ x → x ≤ R.x v → x ≤ R.x v' →
      lineY (R.pt u) (R.pt v) x = lineY (R.pt u') (R.pt v') x →
      (x = R.x u ∧ u = u') ∨ (x = R.x v ∧ v = v') ∨ v = u' ∨ u = v'

/-! ### the invariant -/

structure Inv (R : RingQ) (s : St XQ) (xs : Rat) (ivs : List IV) : Prop where
  ring : RingOK R s.verts
  mono : s.mono = true
  sx : ivs ≠ [] → s.x = .fin xs
  act : s.active = (flatE ivs).map (·.id)
  cind : (ivs.map (·.ci)).Nodup
  lk : Linked s R none ivs none
  nok : NodesOk s.nodes
  span : ∀ a ∈ flatE ivs, Span R xs a
  sorted : (flatE ivs).Pairwise (Below R xs)
  q : QCore R xs (flatE ivs) s.events
  cross : Cross R xs (flatE ivs)

/-- **the general sweep invariant** -/
def GInv (R : RingQ) (s : St XQ) : Prop := ∃ xs ivs, Inv R s xs ivs

end Cav.GenInv
