/-
  From an input array `P` with two x-monotone chains to the guarded configuration `MConvX`
  (`AboveTo`: the simplicity facts checked up to an abscissa), the Start facts, and the passage
  from an error of the event loop to an error of `sweep` / `sweepMon`.
-/
import Cav.Lemmas.MonoXFirst
import Cav.Lemmas.MonoPoly

set_option linter.unusedSimpArgs false
set_option linter.unusedVariables false

namespace Cav.MonoXPoly
open Cav Num Cav.Geo Cav.Sweep Cav.SweepRun Cav.SweepSetup Cav.TriRun Cav.QuadRun Cav.TriEvents
open Cav.QuadGeom Cav.CvxEvents Cav.CvxGeom Cav.CvxLoop Cav.CvxSetup Cav.CvxPoly Cav.MonoPoly
open Cav.MonoXConv Cav.MonoXReach Cav.MonoXFirst

/-- the facts of `Above` that the sweep has checked when it stands at the abscissa `ξ` -/
def AboveTo (b t : Nat → Rat × Rat) (mB mT : Nat) (ξ : Rat) : Prop :=
  (∀ k, k < mB → ∀ l, l < mT → 0 < k → (t l).1 < (b k).1 → (b k).1 < (t (l + 1)).1 →
      (b (k - 1)).1 ≤ ξ → (t l).1 ≤ ξ → orient (t l) (t (l + 1)) (b k) < 0) ∧
  (∀ l, l < mT → ∀ k, k < mB → 0 < l → (b k).1 < (t l).1 → (t l).1 < (b (k + 1)).1 →
      (t (l - 1)).1 ≤ ξ → (b k).1 ≤ ξ → 0 < orient (b k) (b (k + 1)) (t l))

set_option synthInstance.maxSize 2048 in
instance (b t : Nat → Rat × Rat) (mB mT : Nat) (ξ : Rat) : Decidable (AboveTo b t mB mT ξ) := by
  unfold AboveTo; exact @instDecidableAnd _ _ inferInstance inferInstance

theorem NoTouch.swap {b t : Nat → Rat × Rat} {mB mT : Nat} (h : NoTouch b t mB mT) :
    NoTouch t b mT mB :=
  ⟨fun k hk l hl => h.2 k hk l hl, fun l hl k hk => h.1 l hl k hk⟩

section
variable {P : Array (Rat × Rat)} {L m : Nat} (hx : DistinctX P) (h2 : TwoChains P L m)
include hx h2

/-- the chain after `L` is the bottom chain -/
theorem mconvx_fwd {ξ : Rat} (ha : AboveTo (pf P L) (pb P L) m (P.size - m) ξ) (hn : 3 ≤ P.size) :
    MConvX (ringOf (polyOf P)) m (P.size - m) (fwd P L) (bwd P L) (pf P L) (pb P L) ξ := by
  have hxbt := xBT_aux hx h2
  obtain ⟨hL, hm0, hm, up, dn⟩ := h2
  have hn0 : 0 < P.size := by omega
  exact
    { hB := hm0, hT := by omega, three := by omega
      p0 := (pb_zero L).symm, pR := (pb_end L m hm).symm
      xB := up, xT := dn
      sB := fun k l hk0 hk hl h1 h2 g1 g2 => ha.1 k hk l hl hk0 h1 h2 g1 g2
      sT := fun l k hl0 hl hk h1 h2 g1 g2 => ha.2 l hl k hk hl0 h1 h2 g1 g2
      i0 := bwd_zero L
      iR := bwd_end L m hm
      xBT := hxbt
      vB := fun k hk => ⟨_, _, ring_fwd L k hn0, Or.inl ⟨rfl, rfl⟩⟩
      vT := fun k hk => ⟨_, _, ring_bwd L k (by omega), Or.inr ⟨rfl, rfl⟩⟩
      vL := ⟨_, _, ring_L L (by omega), Or.inr ⟨rfl, rfl⟩⟩
      vR := ⟨_, _, ring_R L m hm0 hm, Or.inl ⟨rfl, rfl⟩⟩ }

/-- the chain before `L` is the bottom chain -/
theorem mconvx_bwd {ξ : Rat} (ha : AboveTo (pb P L) (pf P L) (P.size - m) m ξ) (hn : 3 ≤ P.size) :
    MConvX (ringOf (polyOf P)) (P.size - m) m (bwd P L) (fwd P L) (pb P L) (pf P L) ξ := by
  have hxbt := xBT_aux hx h2
  obtain ⟨hL, hm0, hm, up, dn⟩ := h2
  have hn0 : 0 < P.size := by omega
  exact
    { hB := by omega, hT := hm0, three := by omega
      p0 := pb_zero L, pR := pb_end L m hm
      xB := dn, xT := up
      sB := fun k l hk0 hk hl h1 h2 g1 g2 => ha.1 k hk l hl hk0 h1 h2 g1 g2
      sT := fun l k hl0 hl hk h1 h2 g1 g2 => ha.2 l hl k hk hl0 h1 h2 g1 g2
      i0 := (bwd_zero L).symm
      iR := (bwd_end L m hm).symm
      xBT := fun i j hi0 hi hj0 hj => (hxbt j i hj0 hj hi0 hi).symm
      vB := fun k hk => ⟨_, _, ring_bwd L k (by omega), Or.inr ⟨rfl, rfl⟩⟩
      vT := fun k hk => ⟨_, _, ring_fwd L k hn0, Or.inl ⟨rfl, rfl⟩⟩
      vL := ⟨_, _, by rw [bwd_zero, pb_zero]; exact ring_L L (by omega), Or.inl ⟨rfl, rfl⟩⟩
      vR := ⟨_, _, by rw [bwd_end L m hm, pb_end L m hm]; exact ring_R L m hm0 hm,
        Or.inr ⟨rfl, rfl⟩⟩ }

/-- an error of the event loop is an error of the sweep -/
theorem sweep_of_loop_error (hn : 3 ≤ P.size) {e : SErr XQ}
    (hloop : (loop (P.size + 1)).run (stQ (ringOf (polyOf P)) [(L, [])]) = .error e) :
    sweep [P.map (fun p => F p.1 p.2)] = .error e ∧
      sweepMon [P.map (fun p => F p.1 p.2)] = .error e := by
  have hL : L < P.size := h2.1
  have hs := polyOf_size P
  have hsetup := setup_single (polyOf P) L (by rw [hs]; exact hn) (by rw [hs]; exact hL)
    (valid_all hx) (ft_all h2)
  have hsz : (stQ (ringOf (polyOf P)) [(L, [])]).verts.size = P.size := by
    simp [stQ, ringOf, ringPre, hs]
  constructor
  · show sweep [polyOf P] = .error e
    unfold sweep
    rw [run_eq, hsetup]
    simp only [hsz]
    rw [hloop]
  · show sweepMon [polyOf P] = .error e
    unfold sweepMon
    rw [run_eq, hsetup]
    simp only [hsz]
    rw [hloop]

end

/-! ### the facts checked at the Start vertex, and the whole loop -/

section
variable {V : Array (Vtx XQ)} {mB mT : Nat} {bi ti : Nat → Nat} {b t : Nat → Rat × Rat} {ξ : Rat}

/-- at the Start vertex the sweep checks that the first bottom edge is below the first top edge -/
theorem start_ext (hC : MConvX V mB mT bi ti b t ξ) (hs : 0 < orient (b 0) (b 1) (t 1)) :
    MConvX V mB mT bi ti b t (b 0).1 := by
  have hB := hC.hB
  have hT := hC.hT
  refine hC.extend _ ?_ ?_
  · intro k l hk0 hk hl p1 p2 q1 q2
    have ek : k - 1 ≤ 0 := hC.idxB (by omega) (by omega) q1
    have el : l ≤ 0 := hC.idxT (by omega) (by omega) (by rw [← hC.p0]; exact q2)
    have ek' : k = 1 := by omega
    have el' : l = 0 := by omega
    subst ek'; subst el'
    rw [← hC.p0]
    have e : orient (b 0) (t (0 + 1)) (b 1) = - orient (b 0) (b 1) (t 1) := by
      unfold orient; ring
    rw [e]; linarith
  · intro l k hl0 hl hk p1 p2 q1 q2
    have el : l - 1 ≤ 0 := hC.idxT (by omega) (by omega) (by rw [← hC.p0]; exact q1)
    have ek : k ≤ 0 := hC.idxB (by omega) (by omega) q2
    have ek' : k = 0 := by omega
    have el' : l = 1 := by omega
    subst ek'; subst el'
    exact hs

/-- everything checked means `Above` -/
theorem above_of_all (h : ∀ ξ', MConvX V mB mT bi ti b t ξ') : Above b t mB mT := by
  have hC := h (b mB).1
  refine ⟨fun k hk l hl hk0 p1 p2 => hC.sB k l hk0 hk hl p1 p2 (hC.xB_le_R _ (by omega))
      (hC.xT_le_R _ (by omega)),
    fun l hl k hk hl0 p1 p2 => hC.sT l k hl0 hl hk p1 p2 (hC.xT_le_R _ (by omega))
      (hC.xB_le_R _ (by omega))⟩

/-- **two crossing chains are rejected by the event loop** -/
theorem crossing_loop (hC : MConvX V mB mT bi ti b t ξ) (hs : 0 < orient (b 0) (b 1) (t 1))
    (hNT : NoTouch b t mB mT) (hna : ¬ Above b t mB mT) :
    ∃ p, IsVtx mB mT b t (Fq p) ∧ ∀ fuel, mB + mT + 1 ≤ fuel →
      (loop fuel).run (stQ V [(bi 0, [])]) = .error (.overlap .bend (Fq p)) := by
  have hB := hC.hB
  have hT := hC.hT
  have hC0 := start_ext hC hs
  have hr : Reach mB mT b t 0 0 :=
    ⟨by omega, by omega, by rw [hC.p0]; exact hC.xT 0 (by omega),
      by rw [← hC.p0]; exact hC.xB 0 (by omega)⟩
  rcases first_viol hNT (mB - 1 - 0 + (mT - 1 - 0)) 0 0 rfl hr (b 0).1 hC0 (le_refl _)
    (by rw [hC.p0]) with h | h
  · exact absurd (above_of_all h) hna
  · exact h

end

end Cav.MonoXPoly
