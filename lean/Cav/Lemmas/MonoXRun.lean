/-
  `bottom_run` and `top_run` of `MonoRun.lean` for the guarded configuration `MConvX`: a Bend at a
  vertex with abscissa at most `ξ` needs only the simplicity facts checked up to `ξ`.
-/
import Cav.Lemmas.MonoRun
import Cav.Lemmas.MonoXConv

set_option linter.unusedSimpArgs false
set_option linter.unusedVariables false

namespace Cav.MonoXRun
open Cav Num Cav.Geo Cav.Sweep Cav.SweepRun Cav.TriRun Cav.QuadRun Cav.TriEvents Cav.QuadGeom
open Cav.CvxHeap Cav.CvxEvents Cav.CvxFlows Cav.CvxGeom Cav.CvxLoop Cav.MonoHeap Cav.MonoGeom
open Cav.MonoFan Cav.MonoXConv Cav.MonoFlows Cav.MonoInv Cav.MonoRun

section
variable {V : Array (Vtx XQ)} {mB mT : Nat} {bi ti : Nat → Nat} {b t : Nat → Rat × Rat} {ξ : Rat}

/-- a Bend on the bottom chain -/
theorem bottom_run (hC : MConvX V mB mT bi ti b t ξ) {i j : Nat} (hi1 : i + 1 < mB) (hj : j < mT)
    (xs : Rat) (N : Array (Node XQ)) (rm iB iT : Nat) (out : List Tri)
    (x2 : (t j).1 ≤ xs) (x3 : xs < (b (i + 1)).1) (hlt : (b (i + 1)).1 < (t (j + 1)).1)
    (hξ : (b (i + 1)).1 ≤ ξ)
    (LH r0 : List (Nat × Q)) (hfirst : LH = (iB, b i) :: r0)
    (hlast : LH.getLast? = some (iT, t j))
    (hseg : Seg N none (hp LH) none) (hnd : (LH.map Prod.fst).Nodup) (hlen : LH.length ≤ N.size)
    {mid : List (Nat × Q)} {g : Nat × Q} {rest : List (Nat × Q)} (hs : LH = mid ++ g :: rest)
    (hfan : FanQ 1 (b (i + 1)) ((mid ++ [g]).map Prod.snd))
    (hstop : ∀ h r, rest = h :: r → ¬ (1 : Rat) * orient (b (i + 1)) g.2 h.2 < 0)
    (hxg : (b (i + 1)).1 ≠ g.2.1) (hxh : ∀ h r, rest = h :: r → g.2.1 ≠ h.2.1) :
    ∃ N2, Runs (stC V (.fin xs) N rm iB iT (Fq (b (i + 1))) (Fq (t (j + 1)))
          [(bi (i + 1), [0]), (ti (j + 1), [1])] out)
        (.ok ((), stC V (.fin (b (i + 1)).1) N2 N.size N.size iT (Fq (b (i + 2))) (Fq (t (j + 1)))
          (evMerge ((Fq (b (i + 2))).cmp (Fq (t (j + 1)))) (bi (i + 2)) 0 (ti (j + 1)) [1])
          (trisF (Fq (b (i + 1))) (((mid ++ [g]).map Prod.snd).map Fq) ++ out))) handleNext ∧
      Seg N2 none (hp ((N.size, b (i + 1)) :: g :: rest)) none ∧ N2.size = N.size + 1 := by
  obtain ⟨n1, n2, hv, hn⟩ := hC.vB i hi1
  obtain ⟨a1, a2, hB⟩ := hC.lkB i (by omega)
  obtain ⟨a5, a6, hrp⟩ := hC.lkB (i + 2) (by omega)
  obtain ⟨a7, a8, hO⟩ := hC.lkT (j + 1) (by omega)
  have hsame : (b (i + 2)).1 = (t (j + 1)).1 → b (i + 2) = t (j + 1) := by
    intro h
    obtain ⟨e1, e2⟩ := hC.pend_x (i + 2) (j + 1) (by omega) (by omega) (by omega) (by omega) h
    rw [e1, e2]; exact hC.pR
  have hl : (b (i + 2)).1 < (t (j + 1)).1 → orient (t j) (t (j + 1)) (b (i + 2)) < 0 := by
    intro h
    have : i + 2 < mB := by
      rcases Nat.lt_or_ge (i + 2) mB with h' | h'
      · exact h'
      · exfalso
        have e : i + 2 = mB := by omega
        have := hC.xT_le_R (j + 1) (by omega)
        rw [e] at h; linarith
    exact hC.sB (i + 2) j (by omega) this hj
      (lt_of_le_of_lt x2 (lt_trans x3 (hC.xB (i + 1) hi1))) h hξ (by linarith)
  have hg : (t (j + 1)).1 < (b (i + 2)).1 → 0 < orient (b (i + 1)) (b (i + 2)) (t (j + 1)) := by
    intro h
    have : j + 1 < mT := by
      rcases Nat.lt_or_ge (j + 1) mT with h' | h'
      · exact h'
      · exfalso
        have e : j + 1 = mT := by omega
        have := hC.xB_le_R (i + 2) (by omega)
        rw [e, ← hC.pR] at h; linarith
    exact hC.sT (j + 1) (i + 1) (by omega) this hi1 hlt h (by show (t j).1 ≤ ξ; linarith) hξ
  -- the heap
  have hseg' : Seg N none ((iB, Fq (b i)) :: hp r0) none := by rw [hfirst] at hseg; exact hseg
  have hnd' : (((iB, Fq (b i)) :: hp r0).map Prod.fst).Nodup := by
    have := hnd; rw [hfirst] at this
    simpa [hp_fst] using this
  have hsplit : (iB, Fq (b i)) :: hp r0 = hp mid ++ (g.1, Fq g.2) :: hp rest := by
    have : hp LH = hp (mid ++ g :: rest) := by rw [hs]
    rw [hfirst, hp_append] at this
    exact this
  obtain ⟨N2, hrun, hseg2, hsz⟩ := fan_head (Fq (b (i + 1)))
    (stC V (.fin (b (i + 1)).1) (appH N iB ⟨Fq (b i), none, nxtOf (hp r0) none⟩ (Fq (b (i + 1))))
      N.size N.size iT (Fq (b (i + 1))) (Fq (t (j + 1))) [(ti (j + 1), [1])] out)
    ⟨N.size, N.size, iT⟩ rfl rfl hseg' hnd' hsplit
    (by rw [fan_pts]; exact fanF_of_Q _ _ hfan)
    (stopF_of_Q _ _ _ hxg hxh hstop)
    (by have : mid.length ≤ LH.length := by rw [hs]; simp
        simp only [hp, List.length_map]; omega)
  rw [fan_pts] at hrun
  refine ⟨N2, ?_, hseg2, hsz⟩
  obtain ⟨u1, u2, l2⟩ := Seg.get hseg2 (iT, Fq (t j))
    (List.mem_cons_of_mem _ (hp_mem (l := g :: rest) (last_mem_suffix hs hlast)))
  exact bendB_genF V (.fin xs) N N2 rm iB iT (b i) (t j) (b (i + 1)) (b (i + 2)) (t (j + 1))
    (bi (i + 1)) (bi i) (bi (i + 2)) (ti (j + 1)) n1 n2 a1 a2 a5 a6 a7 a8 out _ _ _ _ u1 u2
    hseg'.1 hrun hseg2.1 l2 hv hn hB hrp hO (hC.xB i (by omega)) (hC.xB (i + 1) hi1) (hC.xT j hj)
    (le_of_lt (lt_of_le_of_lt x2 x3)) hlt hsame hl hg

/-- a Bend on the top chain -/
theorem top_run (hC : MConvX V mB mT bi ti b t ξ) {i j : Nat} (hi : i < mB) (hj1 : j + 1 < mT)
    (xs : Rat) (N : Array (Node XQ)) (rm iB iT : Nat) (out : List Tri)
    (x1 : (b i).1 ≤ xs) (x4 : xs < (t (j + 1)).1) (hlt : (t (j + 1)).1 < (b (i + 1)).1)
    (hξ : (t (j + 1)).1 ≤ ξ)
    (LT r0 : List (Nat × Q)) (hfirst : LT = (iT, t j) :: r0)
    (hlast : LT.getLast? = some (iB, b i))
    (hseg : SegR N none (hp LT) none) (hnd : (LT.map Prod.fst).Nodup) (hlen : LT.length ≤ N.size)
    {mid : List (Nat × Q)} {g : Nat × Q} {rest : List (Nat × Q)} (hs : LT = mid ++ g :: rest)
    (hfan : FanQ (-1) (t (j + 1)) ((mid ++ [g]).map Prod.snd))
    (hstop : ∀ h r, rest = h :: r → ¬ (-1 : Rat) * orient (t (j + 1)) g.2 h.2 < 0)
    (hxg : (t (j + 1)).1 ≠ g.2.1) (hxh : ∀ h r, rest = h :: r → g.2.1 ≠ h.2.1) :
    ∃ N2, Runs (stC V (.fin xs) N rm iB iT (Fq (b (i + 1))) (Fq (t (j + 1)))
          [(ti (j + 1), [1]), (bi (i + 1), [0])] out)
        (.ok ((), stC V (.fin (t (j + 1)).1) N2 N.size iB N.size (Fq (b (i + 1))) (Fq (t (j + 2)))
          (evMerge ((Fq (t (j + 2))).cmp (Fq (b (i + 1)))) (ti (j + 2)) 1 (bi (i + 1)) [0])
          (trisB (Fq (t (j + 1))) (((mid ++ [g]).map Prod.snd).map Fq) ++ out))) handleNext ∧
      SegR N2 none (hp ((N.size, t (j + 1)) :: g :: rest)) none ∧ N2.size = N.size + 1 := by
  obtain ⟨n1, n2, hv, hn⟩ := hC.vT j hj1
  obtain ⟨a1, a2, hT⟩ := hC.lkT j (by omega)
  obtain ⟨a5, a6, hrp⟩ := hC.lkT (j + 2) (by omega)
  obtain ⟨a7, a8, hO⟩ := hC.lkB (i + 1) (by omega)
  have hsame : (t (j + 2)).1 = (b (i + 1)).1 → t (j + 2) = b (i + 1) := by
    intro h
    obtain ⟨e1, e2⟩ := hC.pend_x (i + 1) (j + 2) (by omega) (by omega) (by omega) (by omega) h.symm
    rw [e1, e2]; exact hC.pR.symm
  have hl : (t (j + 2)).1 < (b (i + 1)).1 → 0 < orient (b i) (b (i + 1)) (t (j + 2)) := by
    intro h
    have : j + 2 < mT := by
      rcases Nat.lt_or_ge (j + 2) mT with h' | h'
      · exact h'
      · exfalso
        have e : j + 2 = mT := by omega
        have := hC.xB_le_R (i + 1) (by omega)
        rw [e, ← hC.pR] at h; linarith
    exact hC.sT (j + 2) i (by omega) this hi
      (lt_of_le_of_lt x1 (lt_trans x4 (hC.xT (j + 1) hj1))) h hξ (by linarith)
  have hg : (b (i + 1)).1 < (t (j + 2)).1 → orient (t (j + 1)) (t (j + 2)) (b (i + 1)) < 0 := by
    intro h
    have : i + 1 < mB := by
      rcases Nat.lt_or_ge (i + 1) mB with h' | h'
      · exact h'
      · exfalso
        have e : i + 1 = mB := by omega
        have := hC.xT_le_R (j + 2) (by omega)
        rw [e] at h; linarith
    exact hC.sB (i + 1) (j + 1) (by omega) this hj1 hlt h (by show (b i).1 ≤ ξ; linarith) hξ
  have hseg' : SegR N none ((iT, Fq (t j)) :: hp r0) none := by rw [hfirst] at hseg; exact hseg
  have hnd' : (((iT, Fq (t j)) :: hp r0).map Prod.fst).Nodup := by
    have := hnd; rw [hfirst] at this
    simpa [hp_fst] using this
  have hsplit : (iT, Fq (t j)) :: hp r0 = hp mid ++ (g.1, Fq g.2) :: hp rest := by
    have : hp LT = hp (mid ++ g :: rest) := by rw [hs]
    rw [hfirst, hp_append] at this
    exact this
  obtain ⟨N2, hrun, hseg2, hsz⟩ := fan_tail (Fq (t (j + 1)))
    (stC V (.fin (t (j + 1)).1) (appT N iT ⟨Fq (t j), nxtOf (hp r0) none, none⟩ (Fq (t (j + 1))))
      N.size iB N.size (Fq (b (i + 1))) (Fq (t (j + 1))) [(bi (i + 1), [0])] out)
    ⟨N.size, iB, N.size⟩ rfl rfl hseg' hnd' hsplit
    (by rw [fan_pts]; exact fanB_of_Q _ _ hfan)
    (stopB_of_Q _ _ _ hxg hxh hstop)
    (by have : mid.length ≤ LT.length := by rw [hs]; simp
        simp only [hp, List.length_map]; omega)
  rw [fan_pts] at hrun
  refine ⟨N2, ?_, hseg2, hsz⟩
  obtain ⟨u1, u2, l1⟩ := SegR.get hseg2 (iB, Fq (b i))
    (List.mem_cons_of_mem _ (hp_mem (l := g :: rest) (last_mem_suffix hs hlast)))
  exact bendT_genF V (.fin xs) N N2 rm iB iT (b i) (t j) (t (j + 1)) (t (j + 2)) (b (i + 1))
    (ti (j + 1)) (ti j) (ti (j + 2)) (bi (i + 1)) n1 n2 a1 a2 a5 a6 a7 a8 out _ _ u1 u2 _ _
    hseg'.1 hrun l1 hseg2.1 hv hn hT hrp hO (hC.xT j (by omega)) (hC.xT (j + 1) hj1) (hC.xB i hi)
    (le_of_lt (lt_of_le_of_lt x1 x4)) hlt hsame hl hg

end

end Cav.MonoXRun
