/-
  Rejection of crossing input, part 2: the events on the flat active list, with the look-ahead
  facts `Tested` of the neighbours (and `NoTouch` for the Start vertex) in place of the global
  `NoCross`.  (Copies of `bend_flat`, `end_es`, `end_flat`, `start_flat`; the outcomes of the
  overlap tests are no longer part of the conclusions.)
-/
import Cav.Lemmas.GenXGeom
import Cav.Lemmas.GenStepStart

set_option linter.unusedSimpArgs false
set_option linter.unusedVariables false

namespace Cav.GenXFlat
open Cav Num Cav.Geo Cav.Sweep Cav.TriRun Cav.QuadRun Cav.QuadGeom Cav.CvxFlows Cav.SweepOut
open Cav.GenNodes Cav.GenQuery Cav.GenGeom Cav.GenBend Cav.GenInv Cav.GenQueue Cav.GenOrder
open Cav.GenLinks Cav.GenStepBend Cav.GenStepEnd Cav.GenStepStart Cav.GenXGeom

variable {R : RingQ} {V : Array (Vtx XQ)}

/-- **the Bend event on the flat active list**: the edge `a0` (anywhere in the list) ends at the
    Bend vertex `w` and is replaced by the edge `w → w'`; the order, the queue and the crossing
    invariant are kept, and the overlap tests against every lower / upper edge are negative -/
theorem xbend_flat (hR : RingOK R V) {xs : Rat} {F1 F2 : List AE} {a0 : AE}
    {w w' : Nat} {es : List Nat} {rest : List (Nat × List Nat)}
    (hS : ∀ a ∈ F1 ++ a0 :: F2, Span R xs a)
    (hP : (F1 ++ a0 :: F2).Pairwise (Below R xs)) (hT : Tested R (F1 ++ a0 :: F2))
    (hq : QCore R xs (F1 ++ a0 :: F2) ((w, es) :: rest))
    (hc : Cross R xs (F1 ++ a0 :: F2))
    (hw' : w' < R.n) (hadj : Adj R w w') (hxw' : R.x w < R.x w')
    (hright : ∀ v, v < R.n → Adj R w v → R.x w < R.x v → v = w')
    (ha0 : a0.rv = w) (honly : ∀ a ∈ F1 ++ a0 :: F2, a.rv = w → a = a0) :
    (∀ a ∈ F1 ++ (⟨a0.id, w, w'⟩ : AE) :: F2, Span R (R.x w) a) ∧
    (F1 ++ (⟨a0.id, w, w'⟩ : AE) :: F2).Pairwise (Below R (R.x w)) ∧
    QCore R (R.x w) (F1 ++ (⟨a0.id, w, w'⟩ : AE) :: F2) (qAdd R w' a0.id rest) ∧
    Cross R (R.x w) (F1 ++ (⟨a0.id, w, w'⟩ : AE) :: F2) := by
  have hwq := hq.gt (w, es) List.mem_cons_self
  have hwn : w < R.n := hwq.1
  have hxs : xs < R.x w := hwq.2
  have hhead : ∀ ev ∈ rest, R.x w < R.x ev.1 := (List.pairwise_cons.mp hq.sorted).1
  have hnd : (F1 ++ a0 :: F2).Nodup := nodup_of_pairwise_below hP
  have ha0mem : a0 ∈ F1 ++ a0 :: F2 := by simp
  have hsp0 := hS a0 ha0mem
  -- the other edges reach beyond `w`
  have hmid : ∀ a, a ∈ F1 ++ F2 → a ∈ F1 ++ a0 :: F2 ∧ a ≠ a0 := by
    intro a ha
    have hmem : a ∈ F1 ++ a0 :: F2 := by
      rcases List.mem_append.mp ha with h | h
      · exact List.mem_append_left _ h
      · exact List.mem_append_right _ (List.mem_cons_of_mem _ h)
    refine ⟨hmem, ?_⟩
    rintro rfl
    rw [List.nodup_append] at hnd
    rcases List.mem_append.mp ha with h | h
    · exact hnd.2.2 _ h _ List.mem_cons_self rfl
    · exact (List.nodup_cons.mp hnd.2.1).1 h
  have hbeyond : ∀ a ∈ F1 ++ a0 :: F2, a ≠ a0 → R.x w < R.x a.rv := by
    intro a ha hne
    obtain ⟨es', hm⟩ := hq.regAll a ha
    rcases List.mem_cons.mp hm with hm | hm
    · have : a.rv = w := by cases hm; rfl
      exact absurd (honly a ha this) hne
    · exact hhead _ hm
  have hreach : ∀ a ∈ F1 ++ a0 :: F2, R.x w ≤ R.x a.rv := by
    intro a ha
    by_cases h : a = a0
    · rw [h, ha0]
    · exact le_of_lt (hbeyond a ha h)
  -- strict heights at `w`
  have hH := heights_advance_T hS hP hT hxs hreach
  have hne : (F1 ++ a0 :: F2).Pairwise (fun a b => a ≠ b) := hnd
  have hstrict : (F1 ++ a0 :: F2).Pairwise (fun a b => hY R a (R.x w) < hY R b (R.x w)) := by
    have := hH.and hne
    refine List.Pairwise.imp_of_mem ?_ this
    rintro a b ha hb ⟨h1 | ⟨h1, h2⟩, h3⟩
    · exact h1
    · exfalso
      have e1 : a.rv = w := (hR.distinct _ _ hwn (hS a ha).rv_lt h1).symm
      have e2 : b.rv = w := by rw [← h2]; exact e1
      exact h3 ((honly a ha e1).trans (honly b hb e2).symm)
  have hy0 : hY R a0 (R.x w) = (R.pt w).2 := by
    have := lineY_right (R.pt a0.lv) (R.pt a0.rv) hsp0.lt
    rw [ha0] at this
    show lineY (R.pt a0.lv) (R.pt a0.rv) (R.pt w).1 = _
    rw [ha0]; exact this
  have hy1 : hY R (⟨a0.id, w, w'⟩ : AE) (R.x w) = (R.pt w).2 := lineY_left _ _
  have hstrict' : (F1 ++ (⟨a0.id, w, w'⟩ : AE) :: F2).Pairwise
      (fun a b => hY R a (R.x w) < hY R b (R.x w)) := by
    refine pairwise_replace ?_ ?_ hstrict
    · intro b hb; rw [hy1, ← hy0]; exact hb
    · intro b hb; rw [hy1, ← hy0]; exact hb
  have hnewspan : Span R (R.x w) (⟨a0.id, w, w'⟩ : AE) := ⟨hwn, hw', hadj, le_refl _, hxw'⟩
  have hspan' : ∀ a ∈ F1 ++ F2, Span R (R.x w) a := by
    intro a ha
    obtain ⟨hm, hne⟩ := hmid a ha
    have := hS a hm
    exact ⟨this.lv_lt, this.rv_lt, this.adj, le_trans this.le (le_of_lt hxs), hbeyond a hm hne⟩
  have hmemnew : ∀ a, a ∈ F1 ++ (⟨a0.id, w, w'⟩ : AE) :: F2 ↔ a = ⟨a0.id, w, w'⟩ ∨ a ∈ F1 ++ F2 := by
    intro a
    simp only [List.mem_append, List.mem_cons]
    tauto
  have hmemmid : ∀ a, a ∈ F1 ++ F2 ↔ a ∈ F1 ++ a0 :: F2 ∧ a.rv ≠ w := by
    intro a
    constructor
    · intro ha
      obtain ⟨hm, hne⟩ := hmid a ha
      exact ⟨hm, fun e => hne (honly a hm e)⟩
    · rintro ⟨hm, hnw⟩
      have hna : a ≠ a0 := fun e => hnw (by rw [e]; exact ha0)
      simp only [List.mem_append, List.mem_cons] at hm ⊢
      tauto
  refine ⟨?_, ?_, ?_, ?_⟩
  · intro a ha
    rcases (hmemnew a).mp ha with rfl | ha
    · exact hnewspan
    · exact hspan' a ha
  · exact hstrict'.imp (fun h => Or.inl h)
  · have hpop := hq.pop hmemmid
    refine hpop.add hR ⟨a0.id, w, w'⟩ hw' hxw' ?_ ?_ hmemnew
    · intro b hb
      obtain ⟨hm, hne⟩ := hmid b hb
      intro e
      exact hne (hq.idinj b hm a0 ha0mem e)
    · intro b hb
      obtain ⟨hm, hne⟩ := hmid b hb
      rintro ⟨e, -⟩
      have := (hS b hm).le
      simp only at e
      rw [e] at this
      exact absurd hxs (not_lt.mpr this)
  · refine cross_step hR hwn hxs hc (no_gap hR hq hc) (new := [⟨a0.id, w, w'⟩]) ?_ ?_
    · intro a
      rw [hmemnew a, hmemmid a]
      simp only [List.mem_singleton]
      tauto
    · intro v hv hav hxv
      exact ⟨_, List.mem_singleton.mpr rfl, rfl, (hright v hv hav hxv).symm⟩

/-- **the two edges ending in an End vertex are neighbours in the active list** -/
theorem xend_es (hR : RingOK R V) {xs : Rat} {E : List AE} {w u0 u1 : Nat}
    {es : List Nat} {rest : List (Nat × List Nat)}
    (hS : ∀ a ∈ E, Span R xs a) (hP : E.Pairwise (Below R xs)) (hT : Tested R E)
    (hq : QCore R xs E ((w, es) :: rest)) (hc : Cross R xs E)
    (hp : R.prv w = u0) (hn : R.nxt w = u1) (hx0 : R.x u0 < R.x w) (hx1 : R.x u1 < R.x w) :
    ∃ F1 bot top F2, E = F1 ++ bot :: top :: F2 ∧ bot.rv = w ∧ top.rv = w ∧
      (es = [bot.id, top.id] ∨ es = [top.id, bot.id]) ∧ ∀ a ∈ E, a.rv = w → a = bot ∨ a = top := by
  have hwq := hq.gt (w, es) List.mem_cons_self
  have hwn : w < R.n := hwq.1
  have hxs : xs < R.x w := hwq.2
  have hu0 : u0 < R.n := by rw [← hp]; exact hR.prv_lt w hwn
  have hu1 : u1 < R.n := by rw [← hn]; exact hR.nxt_lt w hwn
  have hne01 : u0 ≠ u1 := by rw [← hp, ← hn]; exact hR.ne w hwn
  have hgap := no_gap hR hq hc
  have hle : ∀ u, u < R.n → R.x u < R.x w → R.x u ≤ xs := by
    intro u hu hlt
    by_contra hcon
    exact absurd (hgap u hu (not_le.mp hcon)) (not_le.mpr hlt)
  obtain ⟨a0, ha0, l0, r0⟩ := hc u0 w hu0 hwn (adj_symm hR hwn (Or.inr hp)) (hle u0 hu0 hx0) hxs
  obtain ⟨a1, ha1, l1, r1⟩ := hc u1 w hu1 hwn (adj_symm hR hwn (Or.inl hn)) (hle u1 hu1 hx1) hxs
  have hne : a0 ≠ a1 := by
    intro e
    rw [e] at l0
    exact hne01 (l0.symm.trans l1)
  have honly : ∀ a ∈ E, a.rv = w → a = a0 ∨ a = a1 := by
    intro a ha harv
    have hsp := hS a ha
    have hadj : Adj R w a.lv := by
      have := adj_symm hR hsp.lv_lt hsp.adj
      rw [harv] at this; exact this
    rcases adj_cases hadj with h | h
    · right
      exact hq.uniq a ha a1 ha1 (by rw [h, hn, l1]) (harv.trans r1.symm)
    · left
      exact hq.uniq a ha a0 ha0 (by rw [h, hp, l0]) (harv.trans r0.symm)
  have hnd : E.Nodup := nodup_of_pairwise_below hP
  have hreach := reach_head hq
  have hH := heights_advance_T hS hP hT hxs (fun a ha => (hreach a ha).1)
  have hy : ∀ a ∈ E, a.rv = w → hY R a (R.x w) = (R.pt w).2 := by
    intro a ha harv
    have := lineY_right (R.pt a.lv) (R.pt a.rv) (hS a ha).lt
    rw [harv] at this
    show lineY (R.pt a.lv) (R.pt a.rv) (R.pt w).1 = _
    rw [harv]; exact this
  -- the two edges in list order: nothing lies between them
  have key : ∀ (x y : AE) (A B C : List AE), E = A ++ x :: B ++ y :: C → x.rv = w → y.rv = w →
      (∀ a ∈ E, a.rv = w → a = x ∨ a = y) → B = [] := by
    intro x y A B C hE hxr hyr hxy
    cases B with
    | nil => rfl
    | cons k B' =>
      exfalso
      rw [hE] at hH hnd
      have hxm : x ∈ E := by rw [hE]; simp
      have hym : y ∈ E := by rw [hE]; simp
      have hkm : k ∈ E := by rw [hE]; simp
      have hkx : k ≠ x := by
        intro e
        rw [e] at hnd
        have := hnd
        simp [List.nodup_append, List.nodup_cons] at this
      have hky : k ≠ y := by
        intro e
        rw [e] at hnd
        have := hnd
        simp [List.nodup_append, List.nodup_cons] at this
      have hkr : k.rv ≠ w := by
        intro e
        rcases hxy k hkm e with h | h
        · exact hkx h
        · exact hky h
      have h1 : hY R x (R.x w) < hY R k (R.x w) := by
        have hp1 : (x :: k :: B' ++ y :: C).Pairwise _ :=
          (List.pairwise_append.mp (by simpa [List.append_assoc] using hH)).2.1
        rcases (List.pairwise_cons.mp hp1).1 k (by simp) with h | ⟨-, h⟩
        · exact h
        · exact absurd (h.symm.trans hxr) hkr
      have h2 : hY R k (R.x w) < hY R y (R.x w) := by
        have hp1 : (x :: k :: B' ++ y :: C).Pairwise _ :=
          (List.pairwise_append.mp (by simpa [List.append_assoc] using hH)).2.1
        have hp2 : (k :: B' ++ y :: C).Pairwise _ := (List.pairwise_cons.mp hp1).2
        rcases (List.pairwise_cons.mp hp2).1 y (by simp) with h | ⟨h, -⟩
        · exact h
        · exact absurd (hR.distinct _ _ hwn (hS k hkm).rv_lt h).symm hkr
      rw [hy x hxm hxr] at h1
      rw [hy y hym hyr] at h2
      exact lt_asymm h1 h2
  have hids : a0.id ≠ a1.id := fun e => hne (hq.idinj a0 ha0 a1 ha1 e)
  obtain ⟨hnd', hmem⟩ := hq.reg (w, es) List.mem_cons_self
  have hes : es = [a0.id, a1.id] ∨ es = [a1.id, a0.id] := by
    apply eq_pair_of hids hnd'
    intro e
    rw [hmem e]
    constructor
    · rintro ⟨a, ha, rfl, harv⟩
      rcases honly a ha harv with h | h
      · exact Or.inl (by rw [h])
      · exact Or.inr (by rw [h])
    · rintro (rfl | rfl)
      · exact ⟨a0, ha0, rfl, r0⟩
      · exact ⟨a1, ha1, rfl, r1⟩
  rcases two_mem_split ha0 ha1 hne with ⟨A, B, C, hE⟩ | ⟨A, B, C, hE⟩
  · have hB := key a0 a1 A B C hE r0 r1 honly
    subst hB
    exact ⟨A, a0, a1, C, by rw [hE]; simp, r0, r1, hes, honly⟩
  · have hB := key a1 a0 A B C hE r1 r0 (fun a ha h => (honly a ha h).symm)
    subst hB
    exact ⟨A, a1, a0, C, by rw [hE]; simp, r1, r0, hes.symm, fun a ha h => (honly a ha h).symm⟩


/-- **the End event on the flat active list**: the neighbouring edges `bot`, `top` end at `w` and
    are removed -/
theorem xend_flat (hR : RingOK R V) {xs : Rat} {F1 F2 : List AE} {bot top : AE}
    {w : Nat} {es : List Nat} {rest : List (Nat × List Nat)}
    (hS : ∀ a ∈ F1 ++ bot :: top :: F2, Span R xs a)
    (hP : (F1 ++ bot :: top :: F2).Pairwise (Below R xs)) (hT : Tested R (F1 ++ bot :: top :: F2))
    (hq : QCore R xs (F1 ++ bot :: top :: F2) ((w, es) :: rest))
    (hc : Cross R xs (F1 ++ bot :: top :: F2))
    (hbr : bot.rv = w) (htr : top.rv = w)
    (honly : ∀ a ∈ F1 ++ bot :: top :: F2, a.rv = w → a = bot ∨ a = top)
    (hnoright : ∀ v, v < R.n → Adj R w v → ¬ R.x w < R.x v) :
    hY R bot xs < hY R top xs ∧
    ofGe ((Fq (R.pt bot.lv)).grad (Fq (R.pt w))) ((Fq (R.pt top.lv)).grad (Fq (R.pt w))) = true ∧
    ofGe ((Fq (R.pt top.lv)).grad (Fq (R.pt w))) ((Fq (R.pt bot.lv)).grad (Fq (R.pt w))) = false ∧
    (∀ a ∈ F1 ++ F2, Span R (R.x w) a) ∧
    (F1 ++ F2).Pairwise (Below R (R.x w)) ∧
    QCore R (R.x w) (F1 ++ F2) rest ∧
    Cross R (R.x w) (F1 ++ F2) := by
  have hwq := hq.gt (w, es) List.mem_cons_self
  have hwn : w < R.n := hwq.1
  have hxs : xs < R.x w := hwq.2
  have hnd : (F1 ++ bot :: top :: F2).Nodup := nodup_of_pairwise_below hP
  have hbm : bot ∈ F1 ++ bot :: top :: F2 := by simp
  have htm : top ∈ F1 ++ bot :: top :: F2 := by simp
  have hsb := hS bot hbm
  have hst := hS top htm
  obtain ⟨hbt, hoth⟩ := nodup_mid hnd
  have hreach := reach_head hq
  -- strict order of the two edges at `xs`
  have hstrict : hY R bot xs < hY R top xs := by
    have hp1 : (bot :: top :: F2).Pairwise (Below R xs) := (List.pairwise_append.mp hP).2.1
    rcases (List.pairwise_cons.mp hp1).1 top (by simp) with h | ⟨h1, -, -⟩
    · exact h
    · exact absurd (hq.uniq bot hbm top htm h1 (hbr.trans htr.symm)) hbt
  have hblw : (R.pt bot.lv).1 < (R.pt w).1 := by have := hsb.lt; rw [hbr] at this; exact this
  have htlw : (R.pt top.lv).1 < (R.pt w).1 := by have := hst.lt; rw [htr] at this; exact this
  have horient : orient (R.pt bot.lv) (R.pt top.lv) (R.pt w) < 0 := by
    have h := lineY_sub_sameR (R.pt bot.lv) (R.pt top.lv) (R.pt w) xs hblw htlw
    have hs : hY R bot xs < hY R top xs := hstrict
    unfold hY at hs
    rw [hbr, htr] at hs
    by_contra hcon
    have hnn : 0 ≤ orient (R.pt bot.lv) (R.pt top.lv) (R.pt w) := not_lt.mp hcon
    have : 0 ≤ ((R.pt w).1 - xs) * orient (R.pt bot.lv) (R.pt top.lv) (R.pt w) /
        (((R.pt w).1 - (R.pt bot.lv).1) * ((R.pt w).1 - (R.pt top.lv).1)) :=
      div_nonneg (mul_nonneg (le_of_lt (sub_pos.mpr hxs)) hnn)
        (le_of_lt (mul_pos (sub_pos.mpr hblw) (sub_pos.mpr htlw)))
    linarith
  have hmid : ∀ a, a ∈ F1 ++ F2 → a ∈ F1 ++ bot :: top :: F2 ∧ a ≠ bot ∧ a ≠ top := by
    intro a ha
    refine ⟨?_, hoth a ha⟩
    rcases List.mem_append.mp ha with h | h
    · exact List.mem_append_left _ h
    · exact List.mem_append_right _ (List.mem_cons_of_mem _ (List.mem_cons_of_mem _ h))
  have hmemmid : ∀ a, a ∈ F1 ++ F2 ↔ a ∈ F1 ++ bot :: top :: F2 ∧ a.rv ≠ w := by
    intro a
    constructor
    · intro ha
      obtain ⟨hm, h1, h2⟩ := hmid a ha
      refine ⟨hm, fun e => ?_⟩
      rcases honly a hm e with h | h
      · exact h1 h
      · exact h2 h
    · rintro ⟨hm, hnw⟩
      have h1 : a ≠ bot := fun e => hnw (by rw [e]; exact hbr)
      have h2 : a ≠ top := fun e => hnw (by rw [e]; exact htr)
      simp only [List.mem_append, List.mem_cons] at hm ⊢
      tauto
  have hspan' : ∀ a ∈ F1 ++ F2, Span R (R.x w) a := by
    intro a ha
    obtain ⟨hm, hnw⟩ := (hmemmid a).mp ha
    have := hS a hm
    exact ⟨this.lv_lt, this.rv_lt, this.adj, le_trans this.le (le_of_lt hxs), (hreach a hm).2 hnw⟩
  have hH := heights_advance_T hS hP hT hxs (fun a ha => (hreach a ha).1)
  have hsub : (F1 ++ F2).Sublist (F1 ++ bot :: top :: F2) :=
    List.Sublist.append (List.Sublist.refl _) (List.Sublist.cons _ (List.Sublist.cons _ (List.Sublist.refl _)))
  have hstrict' : (F1 ++ F2).Pairwise (fun a b => hY R a (R.x w) < hY R b (R.x w)) := by
    have := hH.sublist hsub
    refine List.Pairwise.imp_of_mem ?_ this
    rintro a b ha hb (h | ⟨h, -⟩)
    · exact h
    · exact absurd (hR.distinct _ _ hwn (hS a (hmid a ha).1).rv_lt h).symm ((hmemmid a).mp ha).2
  refine ⟨hstrict, ofGe_gradR_true _ _ _ hblw htlw horient, ?_, hspan', hstrict'.imp (fun h => Or.inl h),
    hq.pop hmemmid, ?_⟩
  · apply ofGe_gradR_false _ _ _ htlw hblw
    rw [orient_swap12]; linarith
  · refine cross_step hR hwn hxs hc (no_gap hR hq hc) (new := []) ?_ ?_
    · intro a
      rw [hmemmid a]
      simp
    · intro v hv hav hxv
      exact absurd hxv (hnoright v hv hav)

/-- **the Start event on the flat active list** -/
theorem xstart_flat (hR : RingOK R V) (hTouch : NoTouch R) {xs : Rat} {E : List AE} {w wB wT : Nat}
    {es : List Nat} {rest : List (Nat × List Nat)} (idB idT : Nat)
    (hS : ∀ a ∈ E, Span R xs a) (hP : E.Pairwise (Below R xs)) (hT : Tested R E)
    (hq : QCore R xs E ((w, es) :: rest)) (hc : Cross R xs E)
    (hnb : (R.prv w = wB ∧ R.nxt w = wT) ∨ (R.prv w = wT ∧ R.nxt w = wB))
    (hxB : R.x w < R.x wB) (hxT : R.x w < R.x wT)
    (ho : 0 < orient (R.pt w) (R.pt wB) (R.pt wT))
    (hidB : ∀ a ∈ E, a.id ≠ idB) (hidT : ∀ a ∈ E, a.id ≠ idT) (hid : idB ≠ idT) :
    es = [] ∧ ∃ P Q, E = P ++ Q ∧
      (∀ a ∈ P, hY R a (R.x w) < (R.pt w).2) ∧ (∀ a ∈ Q, (R.pt w).2 < hY R a (R.x w)) ∧
      (∀ a ∈ E, Span R (R.x w) a) ∧ E.Pairwise (fun a b => hY R a (R.x w) < hY R b (R.x w)) ∧
      (∀ a ∈ P ++ (⟨idB, w, wB⟩ : AE) :: (⟨idT, w, wT⟩ : AE) :: Q, Span R (R.x w) a) ∧
      (P ++ (⟨idB, w, wB⟩ : AE) :: (⟨idT, w, wT⟩ : AE) :: Q).Pairwise (Below R (R.x w)) ∧
      QCore R (R.x w) (P ++ (⟨idB, w, wB⟩ : AE) :: (⟨idT, w, wT⟩ : AE) :: Q)
        (qAdd R wT idT (qAdd R wB idB rest)) ∧
      Cross R (R.x w) (P ++ (⟨idB, w, wB⟩ : AE) :: (⟨idT, w, wT⟩ : AE) :: Q) := by
  have hwq := hq.gt (w, es) List.mem_cons_self
  have hwn : w < R.n := hwq.1
  have hxs : xs < R.x w := hwq.2
  obtain ⟨hBn, hTn, hadjB, hadjT, hBT, hnbrs⟩ := start_nbrs hR hwn hnb
  -- no active edge ends at `w`
  have hnoend : ∀ a ∈ E, a.rv ≠ w := by
    intro a ha harv
    have hsp := hS a ha
    have hadj : Adj R w a.lv := by
      have := adj_symm hR hsp.lv_lt hsp.adj
      rw [harv] at this; exact this
    have hle := hsp.le
    rcases hnbrs a.lv hadj with h | h
    · rw [h] at hle; exact absurd (lt_trans hxs hxB) (not_lt.mpr hle)
    · rw [h] at hle; exact absurd (lt_trans hxs hxT) (not_lt.mpr hle)
  have hes : es = [] := by
    obtain ⟨-, hmem⟩ := hq.reg (w, es) List.mem_cons_self
    cases es with
    | nil => rfl
    | cons e es' =>
      obtain ⟨a, ha, -, harv⟩ := (hmem e).mp List.mem_cons_self
      exact absurd harv (hnoend a ha)
  have hreach := reach_head hq
  have hbeyond : ∀ a ∈ E, R.x w < R.x a.rv := fun a ha => (hreach a ha).2 (hnoend a ha)
  have hspan : ∀ a ∈ E, Span R (R.x w) a := by
    intro a ha
    have := hS a ha
    exact ⟨this.lv_lt, this.rv_lt, this.adj, le_trans this.le (le_of_lt hxs), hbeyond a ha⟩
  have hH := heights_advance_T hS hP hT hxs (fun a ha => (hreach a ha).1)
  have hstrict : E.Pairwise (fun a b => hY R a (R.x w) < hY R b (R.x w)) := by
    refine List.Pairwise.imp_of_mem ?_ hH
    rintro a b ha hb (h | ⟨h, -⟩)
    · exact h
    · exact absurd (hR.distinct _ _ hwn (hS a ha).rv_lt h).symm (hnoend a ha)
  -- the new vertex lies on no active edge
  have hoff : ∀ a ∈ E, hY R a (R.x w) ≠ (R.pt w).2 := by
    intro a ha
    exact off_edge hR hTouch (hspan a ha) hwn (lt_of_le_of_lt (hS a ha).le hxs) (hbeyond a ha)
  obtain ⟨P, Q, hE, hPlt, hQgt⟩ := split_at_height (fun a => hY R a (R.x w)) (R.pt w).2 E hstrict hoff
  refine ⟨hes, P, Q, hE, hPlt, hQgt, hspan, hstrict, ?_, ?_, ?_, ?_⟩
  all_goals
    have hbspan : Span R (R.x w) (⟨idB, w, wB⟩ : AE) := ⟨hwn, hBn, hadjB, le_refl _, hxB⟩
    have htspan : Span R (R.x w) (⟨idT, w, wT⟩ : AE) := ⟨hwn, hTn, hadjT, le_refl _, hxT⟩
    have hyb : hY R (⟨idB, w, wB⟩ : AE) (R.x w) = (R.pt w).2 := lineY_left _ _
    have hyt : hY R (⟨idT, w, wT⟩ : AE) (R.x w) = (R.pt w).2 := lineY_left _ _
    have hmem : ∀ a, a ∈ P ++ (⟨idB, w, wB⟩ : AE) :: (⟨idT, w, wT⟩ : AE) :: Q ↔
        a = ⟨idT, w, wT⟩ ∨ (a = ⟨idB, w, wB⟩ ∨ a ∈ E) := by
      intro a
      rw [hE]
      simp only [List.mem_append, List.mem_cons]
      tauto
  · intro a ha
    rcases (hmem a).mp ha with rfl | rfl | ha
    · exact htspan
    · exact hbspan
    · exact hspan a ha
  · rw [hE] at hstrict
    rw [List.pairwise_append] at hstrict ⊢
    obtain ⟨hPP, hQQ, hPQ⟩ := hstrict
    refine ⟨hPP.imp (fun h => Or.inl h), ?_, ?_⟩
    · rw [List.pairwise_cons, List.pairwise_cons]
      refine ⟨?_, ?_, hQQ.imp (fun h => Or.inl h)⟩
      · intro b hb
        rcases List.mem_cons.mp hb with rfl | hb
        · exact Or.inr ⟨rfl, rfl, ho⟩
        · exact Or.inl (show hY R (⟨idB, w, wB⟩ : AE) (R.x w) < hY R b (R.x w) by rw [hyb]; exact hQgt b hb)
      · intro b hb
        exact Or.inl (show hY R (⟨idT, w, wT⟩ : AE) (R.x w) < hY R b (R.x w) by rw [hyt]; exact hQgt b hb)
    · intro a ha b hb
      rcases List.mem_cons.mp hb with rfl | hb
      · exact Or.inl (show hY R a (R.x w) < hY R (⟨idB, w, wB⟩ : AE) (R.x w) by rw [hyb]; exact hPlt a ha)
      · rcases List.mem_cons.mp hb with rfl | hb
        · exact Or.inl (show hY R a (R.x w) < hY R (⟨idT, w, wT⟩ : AE) (R.x w) by rw [hyt]; exact hPlt a ha)
        · exact Or.inl (hPQ a ha b hb)
  · have hpop := hq.pop (E' := E) (fun a => ⟨fun ha => ⟨ha, hnoend a ha⟩, fun h => h.1⟩)
    have hlvne : ∀ b ∈ E, b.lv ≠ w := by
      intro b hb e
      have := (hS b hb).le
      rw [e] at this
      exact absurd hxs (not_lt.mpr this)
    have hadd1 := hpop.add hR (E' := (⟨idB, w, wB⟩ : AE) :: E) ⟨idB, w, wB⟩ hBn hxB
      (fun b hb => hidB b hb) (fun b hb h => hlvne b hb h.1) (fun b => by simp)
    refine hadd1.add hR ⟨idT, w, wT⟩ hTn hxT ?_ ?_ (fun b => by rw [hmem b]; simp)
    · intro b hb
      rcases List.mem_cons.mp hb with rfl | hb
      · exact hid
      · exact hidT b hb
    · intro b hb h
      rcases List.mem_cons.mp hb with rfl | hb
      · exact hBT h.2
      · exact hlvne b hb h.1
  · refine cross_step hR hwn hxs hc (no_gap hR hq hc)
      (new := [(⟨idB, w, wB⟩ : AE), (⟨idT, w, wT⟩ : AE)]) ?_ ?_
    · intro a
      rw [hmem a]
      simp only [List.mem_cons, List.not_mem_nil, or_false]
      constructor
      · rintro (h | h | h)
        · exact Or.inr (Or.inr h)
        · exact Or.inr (Or.inl h)
        · exact Or.inl ⟨h, hnoend a h⟩
      · rintro (⟨h, -⟩ | h | h)
        · exact Or.inr (Or.inr h)
        · exact Or.inr (Or.inl h)
        · exact Or.inl h
    · intro v hv hav hxv
      rcases hnbrs v hav with h | h
      · exact ⟨(⟨idB, w, wB⟩ : AE), by simp, rfl, h.symm⟩
      · exact ⟨(⟨idT, w, wT⟩ : AE), by simp, rfl, h.symm⟩

end Cav.GenXFlat
