/-
  Tiling by the emitted triangles, part 8: THE TILING IDENTITY.  For a valid polygon set in general
  position and every point `q` whose abscissa is not a vertex abscissa, the number of emitted
  triangles containing `q` (downward ray parity, `inTriV`) is `1` if `q` lies in the even-odd
  region (`inRegionV`) and `0` otherwise.
-/
import Cav.Lemmas.GenOutInLoop
import Cav.Lemmas.GenOutInRay2
import Cav.Lemmas.GenOutInSlab2
import Cav.Lemmas.SweepCorners
import Cav.Thm.C04General

set_option linter.unusedVariables false
set_option linter.unusedSimpArgs false

namespace Cav.GenOutIn
open Cav Num Cav.Geo Cav.Sweep Cav.QuadGeom Cav.CvxEvents Cav.CvxLoop Cav.MonoGeom
open Cav.GenInv Cav.GenRing Cav.GenValid Cav.GenOutShape Cav.SweepSetup Cav.C04General

/-- the plain result of the model (without the ghost flag) -/
theorem sweep_of_mon {polys : List (Array (Pt XQ))} {T : List Tri} {m : Bool}
    (h : sweepMon polys = .ok (T, m)) : sweep polys = .ok T := by
  unfold sweepMon at h
  unfold sweep
  cases hr : (Sweep.run polys).run (Sweep.initSt : St XQ) with
  | error e => rw [hr] at h; cases h
  | ok r =>
    rw [hr] at h
    simp only [Except.ok.injEq, Prod.mk.injEq] at h
    simp only [h.1]

/-- an input point is the point of a ring vertex -/
theorem vertex_of_input {polys : List (Array (Rat × Rat))} {a : Q}
    (h : Fq a ∈ allPts (toInput polys)) : ∃ v, v < (ringOf polys).n ∧ (ringOf polys).pt v = a := by
  have hmem : a ∈ polys.flatMap Array.toList := by
    unfold allPts toInput at h
    simp only [List.mem_flatMap, List.mem_map] at h ⊢
    obtain ⟨P', ⟨P, hP, rfl⟩, hin⟩ := h
    refine ⟨P, hP, ?_⟩
    simp only [Array.toList_map, List.mem_map] at hin
    obtain ⟨b, hb, hbe⟩ := hin
    have : b = a := Fq_inj (by simpa using hbe)
    rw [← this]; exact hb
  rw [← cellsAll_pts polys 0] at hmem
  obtain ⟨c, hc, rfl⟩ := List.mem_map.mp hmem
  obtain ⟨v, hv, hget⟩ := List.getElem_of_mem hc
  refine ⟨v, hv, ?_⟩
  have hc' : (cellsAll 0 polys)[v]? = some c := by rw [List.getElem?_eq_getElem hv, hget]
  exact (ring_cell hc').1

/-- the corners of a sorted triple -/
theorem corners_sq (t : Q × Q × Q) :
    ∀ p ∈ [Fq t.1, Fq t.2.1, Fq t.2.2], p = (sq t).1 ∨ p = (sq t).2.1 ∨ p = (sq t).2.2 := by
  intro p hp
  simp only [List.mem_cons, List.not_mem_nil, or_false] at hp
  unfold sq
  rcases Geo.sort3_cases (Fq t.1) (Fq t.2.1) (Fq t.2.2) with h | h | h | h | h | h <;> rw [h] <;>
    rcases hp with rfl | rfl | rfl <;> simp

theorem sum_ite_countP {β : Type} (P : β → Prop) [DecidablePred P] : ∀ (l : List β),
    (l.map fun t => if P t then (1 : Rat) else 0).sum = (l.countP (fun t => decide (P t)) : Rat)
  | [] => by simp
  | a :: l => by
    rw [List.map_cons, List.sum_cons, sum_ite_countP P l, List.countP_cons]
    by_cases h : P a <;> simp [h]; ring

/-- the tiling identity for the ghost triples: the result of the model consists of the sorted
    versions of clockwise triples of ring vertices, and for every point `q` with a generic abscissa
    the number of triples containing `q` is the indicator of the region -/
theorem tiling_ghost (polys : List (Array (Rat × Rat))) (hv : ValidSet polys) :
    ∃ Tg : List (Q × Q × Q), sweepMon (toInput polys) = .ok ((Tg.map sq).reverse, true) ∧
      (∀ t ∈ Tg, orient t.1 t.2.1 t.2.2 < 0) ∧
      (∀ t ∈ Tg, ∀ a ∈ [t.1, t.2.1, t.2.2], ∃ v, v < (ringOf polys).n ∧ (ringOf polys).pt v = a) ∧
      ∀ q : Q, Generic (ringOf polys) q →
        Tg.countP (fun t => decide (rayCount q t.1 t.2.1 t.2.2 % 2 = 1)) =
          if inRegionV (ringOf polys) q then 1 else 0 := by
  obtain ⟨h3, hx, hA, hS⟩ := hv
  have hR := ringOK polys h3 hx
  have hN := noCross_of hR hA hS
  obtain ⟨Tg, hrun, hneg, hid⟩ := ghost_of_noCross polys h3 hx hN
  have hcorn := SweepCorners.sweep_corners (sweep_of_mon hrun)
  have hvert : ∀ t ∈ Tg, ∀ a ∈ [t.1, t.2.1, t.2.2], ∃ v, v < (ringOf polys).n ∧ (ringOf polys).pt v = a := by
    intro t ht a ha
    have hm : sq t ∈ (Tg.map sq).reverse := List.mem_reverse.mpr (List.mem_map_of_mem ht)
    obtain ⟨c1, c2, c3⟩ := hcorn _ hm
    have hin : Fq a ∈ allPts (toInput polys) := by
      have := corners_sq t (Fq a) (by
        simp only [List.mem_cons, List.not_mem_nil, or_false] at ha ⊢
        rcases ha with rfl | rfl | rfl <;> simp)
      rcases this with e | e | e <;> rw [e] <;> assumption
    exact vertex_of_input hin
  refine ⟨Tg, hrun, hneg, hvert, ?_⟩
  intro q hq
  have hne : ∀ t ∈ Tg, q.1 ≠ t.1.1 ∧ q.1 ≠ t.2.1.1 ∧ q.1 ≠ t.2.2.1 := by
    intro t ht
    have key : ∀ a : Q, a ∈ [t.1, t.2.1, t.2.2] → q.1 ≠ a.1 := by
      intro a ha
      obtain ⟨v, hv, hpt⟩ := hvert t ht a ha
      have := hq v hv
      intro e
      apply this
      show ((ringOf polys).pt v).1 = q.1
      rw [hpt, e]
    exact ⟨key _ (by simp), key _ (by simp), key _ (by simp)⟩
  have hmu : muSum (beta q) Tg =
      (Tg.map fun t => if rayCount q t.1 t.2.1 t.2.2 % 2 = 1 then (1 : Rat) else 0).sum := by
    unfold muSum
    congr 1
    apply List.map_congr_left
    intro t ht
    obtain ⟨n1, n2, n3⟩ := hne t ht
    exact mu_beta' (hneg t ht) n1 n2 n3
  have hreg := region_weight polys h3 hx hN q hq
  have hsum := hid (beta q) (beta_as q)
  rw [hmu, hreg, sum_ite_countP (fun t : Q × Q × Q => rayCount q t.1 t.2.1 t.2.2 % 2 = 1)] at hsum
  by_cases hin : inRegionV (ringOf polys) q
  · rw [if_pos hin] at hsum ⊢
    exact_mod_cast hsum
  · rw [if_neg hin] at hsum ⊢
    exact_mod_cast hsum

/-- **THE TILING IDENTITY** -/
theorem tiling_count (polys : List (Array (Rat × Rat))) (hv : ValidSet polys) :
    ∃ T, sweepMon (toInput polys) = .ok (T, true) ∧
      ∀ q : Q, Generic (ringOf polys) q →
        T.countP (fun tr => decide (inTriV q tr)) = if inRegionV (ringOf polys) q then 1 else 0 := by
  obtain ⟨Tg, hrun, -, -, hcount⟩ := tiling_ghost polys hv
  refine ⟨(Tg.map sq).reverse, hrun, ?_⟩
  intro q hq
  rw [← hcount q hq, List.countP_reverse, List.countP_map]
  apply List.countP_congr
  intro t _
  simp only [Function.comp, decide_eq_true_eq]
  exact inTriV_sq q t

end Cav.GenOutIn
