/-
  Equal abscissae, part 14 (vertical edges): the remaining facts for the event lemmas — the
  gradients at an End vertex, the comparisons of a key edge with a block of the active list, and
  `verticalIsCrossed` never firing: an active edge below the sweep vertex passes below it, an
  active edge above a vertical new edge passes above (or through) its upper end.
-/
import Cav.Lemmas.GenVBridgeW
import Cav.Lemmas.GenVInv
import Cav.Lemmas.GenVHeapStart
import Cav.Lemmas.GenStepStart3

set_option linter.unusedSimpArgs false
set_option linter.unusedVariables false

namespace Cav.GenVInv
open Cav Num Cav.Geo Cav.Sweep Cav.TriRun Cav.QuadRun Cav.QuadGeom Cav.CvxFlows Cav.SweepOut
open Cav.GenNodes Cav.GenQuery Cav.GenGeom Cav.GenBend Cav.GenInv Cav.GenQueue Cav.GenOrder
open Cav.GenLinks Cav.GenStepBend Cav.GenVShear Cav.GenVBridge Cav.QuadVGeom Cav.GenVHeap Cav.GenStepStart

variable {R : RingQ} {ε : Rat} {Vε : Array (Vtx XQ)}

theorem gradsW (h : ShOK R ε Vε) {xs : Rat} {bot top : AE} {w : Nat}
    (hb : Span (shearRing ε R) xs bot) (ht : Span (shearRing ε R) xs top)
    (hbr : bot.rv = w) (htr : top.rv = w)
    (hlt : hY (shearRing ε R) bot xs < hY (shearRing ε R) top xs) :
    ofGe ((Fq (R.pt bot.lv)).grad (Fq (R.pt w))) ((Fq (R.pt top.lv)).grad (Fq (R.pt w))) = true ∧
    ofGe ((Fq (R.pt top.lv)).grad (Fq (R.pt w))) ((Fq (R.pt bot.lv)).grad (Fq (R.pt w))) = false := by
  have lb := edge_lex h hb
  have lt' := edge_lex h ht
  rw [hbr] at lb
  rw [htr] at lt'
  have hbl : ((shearRing ε R).pt bot.lv).1 < ((shearRing ε R).pt w).1 := by have := hb.lt; rw [hbr] at this; exact this
  have htl : ((shearRing ε R).pt top.lv).1 < ((shearRing ε R).pt w).1 := by have := ht.lt; rw [htr] at this; exact this
  have hxs : xs < ((shearRing ε R).pt w).1 := by have := hb.gt; rw [hbr] at this; exact this
  have o : orient ((shearRing ε R).pt bot.lv) ((shearRing ε R).pt top.lv) ((shearRing ε R).pt w) < 0 := by
    refine fanR_orient _ _ _ hbl htl xs hxs ?_
    have : lineY ((shearRing ε R).pt bot.lv) ((shearRing ε R).pt bot.rv) xs <
        lineY ((shearRing ε R).pt top.lv) ((shearRing ε R).pt top.rv) xs := hlt
    rw [hbr, htr] at this; exact this
  rw [orient_ring] at o
  refine ⟨ofGeL_true _ _ _ lb lt' o, ofGeL_false _ _ _ lt' lb ?_⟩
  have : orient (R.pt top.lv) (R.pt bot.lv) (R.pt w) = - orient (R.pt bot.lv) (R.pt top.lv) (R.pt w) := by
    unfold orient; ring
  rw [this]; linarith

theorem cmpsW_below (h : ShOK R ε Vε) {s : St XQ} {xs X : Rat} (hc : Cpl R ε xs X)
    {l : List IV} {b a : Option Nat}
    (hl : Linked s R b l a) (hx : s.x = .fin X) {key : AE} {L : List AE}
    (hL : ∀ x ∈ L, x ∈ flatE l) (hS : ∀ x ∈ flatE l, Span (shearRing ε R) xs x)
    (hk : Span (shearRing ε R) xs key) (hB : ∀ x ∈ L, Below (shearRing ε R) xs x key) :
    ∀ k ∈ L.map (·.id), ∃ l' r, EG s k l' r ∧
      cmpEdgeP (Fq (R.pt key.lv)) (Fq (R.pt key.rv)) l' r s.x = .gt := by
  intro k hk'
  obtain ⟨x, hx', rfl⟩ := List.mem_map.mp hk'
  refine ⟨_, _, Linked.eg hl x (hL x hx'), ?_⟩
  rw [hx]
  exact (cmpW_of_below h hc (hS x (hL x hx')) hk (hB x hx')).2

theorem cmpsW_above (h : ShOK R ε Vε) {s : St XQ} {xs X : Rat} (hc : Cpl R ε xs X)
    {l : List IV} {b a : Option Nat}
    (hl : Linked s R b l a) (hx : s.x = .fin X) {key : AE} {L : List AE}
    (hL : ∀ x ∈ L, x ∈ flatE l) (hS : ∀ x ∈ flatE l, Span (shearRing ε R) xs x)
    (hk : Span (shearRing ε R) xs key) (hB : ∀ x ∈ L, Below (shearRing ε R) xs key x) :
    ∀ k ∈ L.map (·.id), ∃ l' r, EG s k l' r ∧
      cmpEdgeP (Fq (R.pt key.lv)) (Fq (R.pt key.rv)) l' r s.x = .lt := by
  intro k hk'
  obtain ⟨x, hx', rfl⟩ := List.mem_map.mp hk'
  refine ⟨_, _, Linked.eg hl x (hL x hx'), ?_⟩
  rw [hx]
  exact (cmpW_of_below h hc hk (hS x (hL x hx')) (hB x hx')).1

/-! ### `verticalIsCrossed` -/

/-- an active edge strictly below the sweep vertex `w` does not pass between `w` and anything
    above it -/
theorem vic_below (h : ShOK R ε Vε) {w : Nat} {k : AE} (hw : w < R.n)
    (hk : Span (shearRing ε R) ((shearRing ε R).x w) k)
    (hlt : hY (shearRing ε R) k ((shearRing ε R).x w) < (R.pt w).2) (rp : Pt XQ) :
    (ofLt (Fq (R.pt w)).y (yExtrap (Fq (R.pt k.lv)) (Fq (R.pt k.rv)) (Fq (R.pt w)).x true) &&
      ofLt (yExtrap (Fq (R.pt k.lv)) (Fq (R.pt k.rv)) (Fq (R.pt w)).x true) rp.y) = false := by
  obtain ⟨na, hy⟩ := belowW_pt h hw hk hlt
  obtain ⟨x1, x2⟩ := span_orig (cpl_at h hw) hk
  have e : yExtrap (Fq (R.pt k.lv)) (Fq (R.pt k.rv)) (Fq (R.pt w)).x true =
      .fin (lineY (R.pt k.lv) (R.pt k.rv) (R.x w)) := yE_in _ _ _ na x1 x2
  rw [e]
  have : ofLt (Fq (R.pt w)).y (XQ.fin (lineY (R.pt k.lv) (R.pt k.rv) (R.x w))) = false := by
    show ofLt (XQ.fin (R.pt w).2) _ = false
    rw [ofLt_fin]; simp only [decide_eq_false_iff_not, not_lt]; exact le_of_lt hy
  rw [this]; rfl

/-- an active edge strictly above the vertical new edge `w → v` does not pass below its upper end -/
theorem vic_above (h : ShOK R ε Vε) {w v i : Nat} {k : AE} (hw : w < R.n) (hv : v < R.n)
    (hadj : Adj R w v) (hwv : (shearRing ε R).x w < (shearRing ε R).x v) (hvx : R.x v = R.x w)
    (hk : Span (shearRing ε R) ((shearRing ε R).x w) k) (hkw : k.lv ≠ w)
    (hlt : hY (shearRing ε R) (⟨i, w, v⟩ : AE) ((shearRing ε R).x w) <
      hY (shearRing ε R) k ((shearRing ε R).x w)) :
    (ofLt (Fq (R.pt w)).y (yExtrap (Fq (R.pt k.lv)) (Fq (R.pt k.rv)) (Fq (R.pt w)).x true) &&
      ofLt (yExtrap (Fq (R.pt k.lv)) (Fq (R.pt k.rv)) (Fq (R.pt w)).x true) (Fq (R.pt v)).y) = false := by
  have hn : Span (shearRing ε R) ((shearRing ε R).x w) (⟨i, w, v⟩ : AE) := ⟨hw, hv, hadj, le_refl _, hwv⟩
  obtain ⟨g1, g2⟩ := look_orig h hn hk hlt (fun e => hkw e.1.symm)
  obtain ⟨x1, x2⟩ := span_orig (cpl_at h hw) hk
  have lk := edge_lex h hk
  have lwv : lexLt (R.pt w) (R.pt v) := (h.key _ _ hw hv).mp hwv
  have hvy : (R.pt w).2 < (R.pt v).2 := by
    rcases lwv with hl | ⟨-, hl⟩
    · exact absurd hvx.symm (ne_of_lt hl)
    · exact hl
  have key : (R.pt v).2 ≤ yv (R.pt k.lv) (R.pt k.rv) (R.x w) := by
    by_cases hkv : k.rv = v
    · -- the edge ends at the upper end of the vertical edge
      rcases lk with nk | ⟨vx, vy⟩
      · rw [yv_nonvert nk]
        have : R.x w = (R.pt k.rv).1 := by rw [hkv]; exact hvx.symm
        rw [this, lineY_right _ _ nk, hkv]
      · rw [yv_vert vx, hkv]
    · rcases SweepEvents.lexLt_total (R.pt k.rv) (R.pt v) with hl | he | hl
      · exfalso
        have o := g1 hl
        simp only at o
        rw [orient_vert12 _ _ _ hvx.symm] at o
        have h1 : 0 < (R.pt v).2 - (R.pt w).2 := sub_pos.mpr hvy
        have h2 : 0 ≤ (R.pt k.rv).1 - (R.pt w).1 := sub_nonneg.mpr x2
        nlinarith [mul_nonneg (le_of_lt h1) h2]
      · exfalso
        apply hkv
        have hx1 : ¬ (shearRing ε R).x k.rv < (shearRing ε R).x v := fun hh =>
          SweepEvents.lexLt_irrefl _ (he ▸ (h.key _ _ hk.rv_lt hv).mp hh)
        have hx2 : ¬ (shearRing ε R).x v < (shearRing ε R).x k.rv := fun hh =>
          SweepEvents.lexLt_irrefl _ (he ▸ (h.key _ _ hv hk.rv_lt).mp hh)
        exact h.ring.distinct _ _ hk.rv_lt hv (le_antisymm (not_lt.mp hx2) (not_lt.mp hx1))
      · have o := g2 hl
        simp only at o
        rcases lk with nk | ⟨vx, vy⟩
        · rw [yv_nonvert nk]
          have := below_of_orient_neg _ _ _ nk o
          have hvx' : (R.pt v).1 = (R.pt w).1 := hvx
          rw [hvx'] at this
          exact le_of_lt this
        · exfalso
          have hxk : (R.pt k.lv).1 = (R.pt w).1 := le_antisymm x1 (by rw [vx]; exact x2)
          have hvx' : (R.pt v).1 = (R.pt w).1 := hvx
          rw [orient_vert12 _ _ _ vx, hvx', hxk] at o
          simp at o
  have e : yExtrap (Fq (R.pt k.lv)) (Fq (R.pt k.rv)) (Fq (R.pt w)).x true =
      .fin (yv (R.pt k.lv) (R.pt k.rv) (R.x w)) := yE_V _ _ lk _ x1 x2
  rw [e]
  have : ofLt (XQ.fin (yv (R.pt k.lv) (R.pt k.rv) (R.x w))) (Fq (R.pt v)).y = false := by
    show ofLt _ (XQ.fin (R.pt v).2) = false
    rw [ofLt_fin]; simp only [decide_eq_false_iff_not, not_lt]; exact key
  rw [this, Bool.and_false]


/-- `verticalIsCrossed` at a Bend: the edge `a0` ends at `w` and is replaced by `w → w'` -/
theorem vicfree_bend (h : ShOK R ε Vε) {s : St XQ} {ivs : List IV} (hlk : Linked s R none ivs none)
    (hact : s.active = (flatE ivs).map (·.id)) {F1 F2 : List AE} {a0 : AE}
    (hE : flatE ivs = F1 ++ a0 :: F2) (hid : ∀ a ∈ flatE ivs, ∀ b ∈ flatE ivs, a.id = b.id → a = b)
    {w w' : Nat} (hw : w < R.n) (hw' : w' < R.n) (hadj : Adj R w w')
    (hxw' : (shearRing ε R).x w < (shearRing ε R).x w')
    (g1 : ∀ a ∈ F1 ++ (⟨a0.id, w, w'⟩ : AE) :: F2, Span (shearRing ε R) ((shearRing ε R).x w) a)
    (g2 : (F1 ++ (⟨a0.id, w, w'⟩ : AE) :: F2).Pairwise (Below (shearRing ε R) ((shearRing ε R).x w)))
    (hlv : ∀ x ∈ F1 ++ F2, x.lv ≠ w) :
    VicFree s (some a0.id) (Fq (R.pt w)) (Fq (R.pt w')) := by
  by_cases hvx : R.x w' = R.x w
  swap
  · exact Or.inl (GenStepBend.ofEq_x_false hvx)
  right
  intro k hk hs
  rw [hact] at hk
  obtain ⟨x, hx, rfl⟩ := List.mem_map.mp hk
  have hne : x ≠ a0 := fun e => hs (by rw [e])
  refine ⟨_, _, Linked.eg hlk x hx, ?_⟩
  have hynew : hY (shearRing ε R) (⟨a0.id, w, w'⟩ : AE) ((shearRing ε R).x w) = (R.pt w).2 := lineY_left _ _
  rw [hE] at hx
  rcases List.mem_append.mp hx with h1 | h1
  · have hb := (List.pairwise_append.mp g2).2.2 x h1 _ List.mem_cons_self
    have := strict_of_below hb (hlv x (List.mem_append_left _ h1))
    rw [hynew] at this
    exact vic_below h hw (g1 x (List.mem_append_left _ h1)) this _
  · rcases List.mem_cons.mp h1 with e | h2
    · exact absurd e hne
    · have hb := (List.pairwise_cons.mp (List.pairwise_append.mp g2).2.1).1 x h2
      have hl := hlv x (List.mem_append_right _ h2)
      have := strict_of_below hb (Ne.symm hl)
      exact vic_above h hw hw' hadj hxw' hvx
        (g1 x (List.mem_append_right _ (List.mem_cons_of_mem _ h2))) hl this

/-- the two hypotheses `VicFree` of the Start event -/
theorem vicfree_start (h : ShOK R ε Vε) {P Q : List AE} {w wB wT iB iT : Nat} (hw : w < R.n)
    (hBn : wB < R.n) (hTn : wT < R.n) (hadjT : Adj R w wT)
    (hxB : (shearRing ε R).x w < (shearRing ε R).x wB) (hxT : (shearRing ε R).x w < (shearRing ε R).x wT)
    (hid : ∀ a ∈ P ++ Q, ∀ b ∈ P ++ Q, a.id = b.id → a = b)
    (hPlow : ∀ a ∈ P, hY (shearRing ε R) a ((shearRing ε R).x w) < (R.pt w).2)
    (hQhigh : ∀ a ∈ Q, (R.pt w).2 < hY (shearRing ε R) a ((shearRing ε R).x w))
    (g3 : ∀ a ∈ P ++ Q, Span (shearRing ε R) ((shearRing ε R).x w) a)
    (g6 : (P ++ (⟨iB, w, wB⟩ : AE) :: (⟨iT, w, wT⟩ : AE) :: Q).Pairwise
      (Below (shearRing ε R) ((shearRing ε R).x w))) :
    (ofEq (Fq (R.pt wB)).x (Fq (R.pt w)).x = false ∨ ∀ k ∈ P.map (·.id) ++ Q.map (·.id),
      (ofLt (Fq (R.pt w)).y (yExtrap (Lf R (P ++ Q) k) (Rf R (P ++ Q) k) (Fq (R.pt w)).x true) &&
        ofLt (yExtrap (Lf R (P ++ Q) k) (Rf R (P ++ Q) k) (Fq (R.pt w)).x true) (Fq (R.pt wB)).y) = false) ∧
    (ofEq (Fq (R.pt wT)).x (Fq (R.pt w)).x = false ∨ ∀ k ∈ P.map (·.id) ++ Q.map (·.id),
      (ofLt (Fq (R.pt w)).y (yExtrap (Lf R (P ++ Q) k) (Rf R (P ++ Q) k) (Fq (R.pt w)).x true) &&
        ofLt (yExtrap (Lf R (P ++ Q) k) (Rf R (P ++ Q) k) (Fq (R.pt w)).x true) (Fq (R.pt wT)).y) = false) := by
  have hyB : hY (shearRing ε R) (⟨iB, w, wB⟩ : AE) ((shearRing ε R).x w) = (R.pt w).2 := lineY_left _ _
  have hyT : hY (shearRing ε R) (⟨iT, w, wT⟩ : AE) ((shearRing ε R).x w) = (R.pt w).2 := lineY_left _ _
  -- the orientation of the two new edges
  have ho : 0 < orient (R.pt w) (R.pt wB) (R.pt wT) := by
    have hb := (List.pairwise_cons.mp (List.pairwise_append.mp g6).2.1).1 (⟨iT, w, wT⟩ : AE)
      List.mem_cons_self
    rcases hb with hl | ⟨-, -, h3⟩
    · have hl' : hY (shearRing ε R) (⟨iB, w, wB⟩ : AE) ((shearRing ε R).x w) <
          hY (shearRing ε R) (⟨iT, w, wT⟩ : AE) ((shearRing ε R).x w) := hl
      rw [hyB, hyT] at hl'; exact absurd hl' (lt_irrefl _)
    · have := h3
      simp only at this
      rw [orient_ring] at this; exact this
  have lB : lexLt (R.pt w) (R.pt wB) := (h.key _ _ hw hBn).mp hxB
  have lT : lexLt (R.pt w) (R.pt wT) := (h.key _ _ hw hTn).mp hxT
  have all : ∀ (rp : Pt XQ) (hup : ∀ x ∈ Q, (ofLt (Fq (R.pt w)).y
        (yExtrap (Fq (R.pt x.lv)) (Fq (R.pt x.rv)) (Fq (R.pt w)).x true) &&
        ofLt (yExtrap (Fq (R.pt x.lv)) (Fq (R.pt x.rv)) (Fq (R.pt w)).x true) rp.y) = false),
      ∀ k ∈ P.map (·.id) ++ Q.map (·.id),
      (ofLt (Fq (R.pt w)).y (yExtrap (Lf R (P ++ Q) k) (Rf R (P ++ Q) k) (Fq (R.pt w)).x true) &&
        ofLt (yExtrap (Lf R (P ++ Q) k) (Rf R (P ++ Q) k) (Fq (R.pt w)).x true) rp.y) = false := by
    intro rp hup k hk
    rcases List.mem_append.mp hk with hk | hk
    · obtain ⟨x, hx, rfl⟩ := List.mem_map.mp hk
      rw [Lf_id hid (List.mem_append_left _ hx), Rf_id hid (List.mem_append_left _ hx)]
      exact vic_below h hw (g3 x (List.mem_append_left _ hx)) (hPlow x hx) rp
    · obtain ⟨x, hx, rfl⟩ := List.mem_map.mp hk
      rw [Lf_id hid (List.mem_append_right _ hx), Rf_id hid (List.mem_append_right _ hx)]
      exact hup x hx
  constructor
  · left
    apply GenStepBend.ofEq_x_false
    intro e
    have e' : (R.pt w).1 = (R.pt wB).1 := e.symm
    have hy : (R.pt w).2 < (R.pt wB).2 := by
      rcases lB with hl | ⟨-, hl⟩
      · exact absurd e' (ne_of_lt hl)
      · exact hl
    rw [orient_vert12 _ _ _ e'] at ho
    have h2 : 0 ≤ (R.pt wT).1 - (R.pt w).1 := sub_nonneg.mpr (GenVBridge.lexLt_le lT)
    nlinarith [mul_nonneg (le_of_lt (sub_pos.mpr hy)) h2]
  · by_cases hvx : R.x wT = R.x w
    swap
    · exact Or.inl (GenStepBend.ofEq_x_false hvx)
    right
    apply all
    intro x hx
    have hl : x.lv ≠ w := lv_ne_of_height (R := shearRing ε R) (ne_of_gt (hQhigh x hx))
    exact vic_above h hw hTn hadjT hxT hvx (g3 x (List.mem_append_right _ hx)) hl
      (by rw [hyT]; exact hQhigh x hx)

end Cav.GenVInv
