/-
  Failure side with equal abscissae, part 4: THE INVARIANT `XInvV` = the sweep invariant `InvV`
  for the two rings (heap facts for the original ring, geometric facts for the sheared ring)
  + `Tested` on the sheared ring (every pair of neighbours in the active list passed its
  look-ahead test) + `ordM`: the active list is ordered as the model reads it at the original
  sweep abscissa (`BelowM`).  No global validity of the ring is assumed.
  The outcome of `verticalIsCrossed` at a Bend vertex (`vic_bend`): it fires (`VicHit`) or no
  active edge passes strictly between the end points of the new vertical edge.
-/
import Cav.Lemmas.GenXVOrd
import Cav.Lemmas.GenXVFailStart
import Cav.Lemmas.GenXStepStart

set_option linter.unusedSimpArgs false
set_option linter.unusedVariables false

namespace Cav.GenXV
open Cav Num Cav.Geo Cav.Sweep Cav.TriRun Cav.QuadRun Cav.QuadGeom Cav.CvxFlows Cav.SweepOut
open Cav.GenNodes Cav.GenQuery Cav.GenGeom Cav.GenBend Cav.GenInv Cav.GenQueue Cav.GenOrder
open Cav.GenLinks Cav.GenStepBend Cav.GenVShear Cav.GenVBridge Cav.GenVInv Cav.GenVHeap
open Cav.GenXGeom Cav.GenXVFail

variable {R : RingQ} {ε : Rat} {Vε : Array (Vtx XQ)}

/-- **the invariant of the rejection proof, equal abscissae and vertical edges allowed** -/
structure XInvV (R : RingQ) (ε : Rat) (s : St XQ) (xs X : Rat) (ivs : List IV) : Prop where
  inv : InvV R ε s xs X ivs
  tested : Tested (shearRing ε R) (flatE ivs)
  ordM : (flatE ivs).Pairwise (BelowM R X)

/-- the comparisons of an active edge `key` with the active edges before resp. after it -/
theorem cmpsX_below (h : ShX R ε Vε) {s : St XQ} {xs X : Rat} (hc : Cpl R ε xs X)
    {l : List IV} {b a : Option Nat}
    (hl : Linked s R b l a) (hx : s.x = .fin X) {key : AE} {L : List AE}
    (hL : ∀ x ∈ L, x ∈ flatE l) (hS : ∀ x ∈ flatE l, Span (shearRing ε R) xs x)
    (hk : Span (shearRing ε R) xs key) (hB : ∀ x ∈ L, BelowM R X x key) :
    ∀ k ∈ L.map (·.id), ∃ l' r, EG s k l' r ∧
      cmpEdgeP (Fq (R.pt key.lv)) (Fq (R.pt key.rv)) l' r s.x = .gt := by
  intro k hk'
  obtain ⟨x, hx', rfl⟩ := List.mem_map.mp hk'
  refine ⟨_, _, Linked.eg hl x (hL x hx'), ?_⟩
  rw [hx]
  have sx := hS x (hL x hx')
  exact (cmp_of_belowM (edge_lexX h sx) (edge_lexX h hk) (span_orig hc sx).1 (span_orig hc sx).2
    (span_orig hc hk).1 (span_orig hc hk).2 (hB x hx')).2

theorem cmpsX_above (h : ShX R ε Vε) {s : St XQ} {xs X : Rat} (hc : Cpl R ε xs X)
    {l : List IV} {b a : Option Nat}
    (hl : Linked s R b l a) (hx : s.x = .fin X) {key : AE} {L : List AE}
    (hL : ∀ x ∈ L, x ∈ flatE l) (hS : ∀ x ∈ flatE l, Span (shearRing ε R) xs x)
    (hk : Span (shearRing ε R) xs key) (hB : ∀ x ∈ L, BelowM R X key x) :
    ∀ k ∈ L.map (·.id), ∃ l' r, EG s k l' r ∧
      cmpEdgeP (Fq (R.pt key.lv)) (Fq (R.pt key.rv)) l' r s.x = .lt := by
  intro k hk'
  obtain ⟨x, hx', rfl⟩ := List.mem_map.mp hk'
  refine ⟨_, _, Linked.eg hl x (hL x hx'), ?_⟩
  rw [hx]
  have sx := hS x (hL x hx')
  exact (cmp_of_belowM (edge_lexX h hk) (edge_lexX h sx) (span_orig hc hk).1 (span_orig hc hk).2
    (span_orig hc sx).1 (span_orig hc sx).2 (hB x hx')).1

/-- **`verticalIsCrossed` at a Bend vertex**: it fires, or no other active edge passes strictly
    between the end points of the new edge -/
theorem vic_bend (h : ShX R ε Vε) {s : St XQ} {ivs : List IV} (hlk : Linked s R none ivs none)
    (hact : s.active = (flatE ivs).map (·.id)) {F1 F2 : List AE} {a0 : AE}
    (hE : flatE ivs = F1 ++ a0 :: F2) (hid : ∀ a ∈ flatE ivs, ∀ b ∈ flatE ivs, a.id = b.id → a = b)
    (hnd : (F1 ++ a0 :: F2).Nodup) {w w' : Nat} (hw : w < R.n)
    (g1 : ∀ a ∈ F1 ++ F2, Span (shearRing ε R) ((shearRing ε R).x w) a) :
    VicHit s (some a0.id) (Fq (R.pt w)) (Fq (R.pt w')) ∨
    (VicFree s (some a0.id) (Fq (R.pt w)) (Fq (R.pt w')) ∧
      (R.x w' = R.x w → ∀ b ∈ F1 ++ F2, NotBetween R w w' b)) := by
  have hmemF : ∀ b ∈ F1 ++ F2, b ∈ flatE ivs ∧ b ≠ a0 := by
    intro b hb
    rw [hE]
    constructor
    · rcases List.mem_append.mp hb with h1 | h2
      · exact List.mem_append_left _ h1
      · exact List.mem_append_right _ (List.mem_cons_of_mem _ h2)
    · rintro rfl
      rw [List.nodup_append] at hnd
      rcases List.mem_append.mp hb with h1 | h2
      · exact hnd.2.2 _ h1 _ List.mem_cons_self rfl
      · exact (List.nodup_cons.mp hnd.2.1).1 h2
  have ha0m : a0 ∈ flatE ivs := by rw [hE]; simp
  have hother : ∀ x ∈ flatE ivs, (some a0.id : Option Nat) ≠ some x.id → x ∈ F1 ++ F2 := by
    intro x hx hs
    rw [hE] at hx
    rcases List.mem_append.mp hx with h1 | h1
    · exact List.mem_append_left _ h1
    · rcases List.mem_cons.mp h1 with e | h2
      · exact absurd (by rw [e]) hs
      · exact List.mem_append_right _ h2
  by_cases hvx : R.x w' = R.x w
  swap
  · exact Or.inr ⟨Or.inl (GenStepBend.ofEq_x_false hvx), fun e => absurd e hvx⟩
  by_cases hex : ∃ b ∈ F1 ++ F2, ¬ NotBetween R w w' b
  · left
    obtain ⟨b, hb, hnb⟩ := hex
    obtain ⟨hbm, hbne⟩ := hmemF b hb
    refine ⟨?_, ?_, b.id, ?_, ?_, _, _, Linked.eg hlk b hbm, ?_⟩
    · show ofEq (XQ.fin (R.pt w').1) (XQ.fin (R.pt w).1) = true
      rw [ofEq_fin]; exact decide_eq_true hvx
    · intro k hk _
      rw [hact] at hk
      obtain ⟨x, hx, rfl⟩ := List.mem_map.mp hk
      exact ⟨_, _, Linked.eg hlk x hx⟩
    · rw [hact]; exact List.mem_map_of_mem hbm
    · intro e
      exact hbne (hid b hbm a0 ha0m (Option.some.inj e).symm)
    · rw [vic_bool h hw (g1 b hb) w']
      unfold NotBetween at hnb
      exact decide_eq_true (not_not.mp hnb)
  · right
    have hall : ∀ b ∈ F1 ++ F2, NotBetween R w w' b := by
      intro b hb
      by_contra hc
      exact hex ⟨b, hb, hc⟩
    refine ⟨Or.inr ?_, fun _ => hall⟩
    intro k hk hs
    rw [hact] at hk
    obtain ⟨x, hx, rfl⟩ := List.mem_map.mp hk
    have hxF := hother x hx hs
    refine ⟨_, _, Linked.eg hlk x hx, ?_⟩
    rw [vic_bool h hw (g1 x hxF) w']
    exact decide_eq_false (hall x hxF)

end Cav.GenXV
