/-
  Tiling WITHOUT the hypothesis of distinct abscissae: copy of `GenOutVXSplit.xstartV_split` with the generic
  identity `GenFV` in addition (the clause is the one of `GenOutInXSplit.lean`, for the sheared ring).
-/
import Cav.Lemmas.GenOutXSplit
import Cav.Lemmas.GenOutVXStart
import Cav.Lemmas.GenOutInVDefs
import Cav.Lemmas.GenOutVXSplit

set_option linter.unusedVariables false
set_option linter.unusedSimpArgs false

namespace Cav.GenOutInV
open Cav Num Cav.Geo Cav.Sweep Cav.TriRun Cav.QuadRun Cav.QuadGeom Cav.SweepOut Cav.CvxEvents Cav.CvxLoop
open Cav.CvxHeap Cav.GenNodes Cav.GenInv Cav.GenQueue Cav.MonoGeom Cav.MonoHeap Cav.MonoFan Cav.GenOutShape
open Cav.GenOutDefs Cav.GenLinks Cav.GenOrder Cav.GenOutInv Cav.GenOutCount Cav.GenOutAux
open Cav.GenOutStepAux Cav.GenOutFan Cav.GenOutHeap Cav.GenOutStart Cav.GenOutXStart
open Cav.GenVShear Cav.GenVBridge Cav.GenVInv Cav.GenOutV
open Cav.GenOutVX Cav.GenOutIn
open Cav.GenGeom hiding Q

variable {R : RingQ} {ε : Rat} {Vε : Array (Vtx XQ)}

/-- **improper Start: a Start vertex inside an in-interval**, equal abscissae allowed -/
theorem xstartV_splitT (hSh : ShOK R ε Vε) {s : St XQ} {xs X : Rat} {pre post : List IV} {iv : IV}
    {G : Nat → CH} (hT : XInvTV R ε s xs X (pre ++ iv :: post) G)
    {w : Nat} {es : List Nat} {rest : List (Nat × List Nat)} (hev : s.events = (w, es) :: rest)
    {wB wT : Nat} (hnb : (R.prv w = wB ∧ R.nxt w = wT) ∨ (R.prv w = wT ∧ R.nxt w = wB))
    (hxB : (shearRing ε R).x w < (shearRing ε R).x wB) (hxT : (shearRing ε R).x w < (shearRing ε R).x wT)
    (ho : 0 < orient ((shearRing ε R).pt w) ((shearRing ε R).pt wB) ((shearRing ε R).pt wT))
    (hS : StartSplitV R ε s pre iv post w wB wT) :
    ∃ s' G', (handleNext : SM XQ Unit).run s = .ok ((), s') ∧
      XInvTV R ε s' ((shearRing ε R).x w) (R.x w) (pre ++ ⟨iv.lo, ⟨s.edges.size, w, wB⟩, s.chains.size + 1⟩ ::
        ⟨⟨s.edges.size + 1, w, wT⟩, iv.hi, s.chains.size + 1 + 1⟩ :: post) G' := by
  have hX := hT.base
  obtain ⟨hlow, hhigh, cB, sm0, N', N3, out3, N4, out4, s', hcB, hsm0n, hsm0o, hr1, hr2, hr3, hrun,
    hs'n, hs'o, hs'c, hI'⟩ := hS
  rw [← FqU_pt ε R w] at hsm0n hr1
  have hI := hX.inv
  have hR := hSh.ring
  have hnb' : ((shearRing ε R).prv w = wB ∧ (shearRing ε R).nxt w = wT) ∨
      ((shearRing ε R).prv w = wT ∧ (shearRing ε R).nxt w = wB) := hnb
  have hq := hI.q
  rw [hev] at hq
  have hwq := hq.gt (w, es) List.mem_cons_self
  have hwn : w < (shearRing ε R).n := hwq.1
  have hxs : xs < (shearRing ε R).x w := hwq.2
  have hgap := no_gap hR hq hI.cross
  have hmem : iv ∈ pre ++ iv :: post := by simp
  have hok := hX.ok iv hmem
  obtain ⟨ch, hch, hhd, htl, hrm⟩ := hok.cell
  rw [hcB] at hch
  cases hch
  have hsh := hok.shape
  have hflags := hX.flags iv hmem
  have hlo_mem : iv.lo ∈ flatE (pre ++ iv :: post) := by simp
  have hhi_mem : iv.hi ∈ flatE (pre ++ iv :: post) := by simp
  have hsp_lo := hI.span iv.lo hlo_mem
  have hsp_hi := hI.span iv.hi hhi_mem
  have hu : (G iv.ci).m.2.1 < ((shearRing ε R).pt w).1 := lt_of_le_of_lt hsh.mx hxs
  -- the two fans
  obtain ⟨dr1, g1, rest1, hs1, hfan1, hstop1, hxd1, hnt1⟩ := fan_view (-1) ((shearRing ε R).pt w) [] (G iv.ci).m
    (G iv.ci).X (G iv.ci).m.2 trivial hsh.xdX trivial hsh.ntX hu rfl (by intro q hq; simp at hq)
  obtain ⟨dr2, g2, rest2, hs2, hfan2, hstop2, hxd2, hnt2⟩ := fan_view 1 ((shearRing ε R).pt w) []
    (s.nodes.size + 1 + 1, (G iv.ci).m.2) (G iv.ci).Y (G iv.ci).m.2 trivial hsh.xdY trivial hsh.ntY hu rfl
    (by intro q hq; simp at hq)
  simp only [List.reverse_nil, List.nil_append] at hfan1 hfan2
  -- the heap
  have hNsz : (s.nodes.push ⟨FqU ε ((shearRing ε R).pt w), none, none⟩).size = s.nodes.size + 1 := Array.size_push _
  have hpush : ∀ k, k < s.nodes.size →
      (s.nodes.push ⟨FqU ε ((shearRing ε R).pt w), none, none⟩)[k]? = s.nodes[k]? := by
    intro k hk
    rw [Array.getElem?_push_lt hk, ← Array.getElem?_eq_getElem hk]
  have hl : hpU ε (G iv.ci).l =
      hpU ε (G iv.ci).X.reverse ++ ((G iv.ci).m.1, FqU ε (G iv.ci).m.2) :: hpU ε (G iv.ci).Y := by
    unfold CH.l; rw [hpU_append, hpU_cons]
  have hsegN : Seg (s.nodes.push ⟨FqU ε ((shearRing ε R).pt w), none, none⟩) none
      (hpU ε (G iv.ci).X.reverse ++ ((G iv.ci).m.1, FqU ε (G iv.ci).m.2) :: hpU ε (G iv.ci).Y) none := by
    rw [← hl]
    exact SegU.frame hok.seg (fun x hx => hpush x.1 (SegU.idx_lt hok.seg x hx))
  have hndl : ((hpU ε (G iv.ci).X.reverse ++ ((G iv.ci).m.1, FqU ε (G iv.ci).m.2) :: hpU ε (G iv.ci).Y).map
      Prod.fst).Nodup := by
    rw [← hl, hpU_fst]; exact nd_self hX.nd
  have hhead : some cB.head =
      ((hpU ε (G iv.ci).X.reverse ++ [((G iv.ci).m.1, FqU ε (G iv.ci).m.2)]).head?).map Prod.fst := by
    have e : hpU ε (G iv.ci).X.reverse ++ [((G iv.ci).m.1, FqU ε (G iv.ci).m.2)] =
        hpU ε ((G iv.ci).m :: (G iv.ci).X).reverse := by simp [hpU]
    rw [e, hhd]
    unfold hpU
    rw [List.head?_map, List.head?_reverse, getLast?_cons_lastD]
    rfl
  have htail : some cB.tail =
      ((((G iv.ci).m.1, FqU ε (G iv.ci).m.2) :: hpU ε (G iv.ci).Y).getLast?).map Prod.fst := by
    show some cB.tail = ((hpU ε ((G iv.ci).m :: (G iv.ci).Y)).getLast?).map Prod.fst
    rw [htl]
    unfold hpU
    rw [List.getLast?_map, getLast?_cons_lastD]
    rfl
  have hs1' : ((G iv.ci).m.1, FqU ε (G iv.ci).m.2) :: (hpU ε (G iv.ci).X.reverse).reverse =
      hpU ε dr1 ++ (g1.1, FqU ε g1.2) :: hpU ε rest1 := by
    have := congrArg (hpU ε) hs1
    rw [hpU_append] at this
    rw [hpU_reverse, List.reverse_reverse]
    exact this
  have hs2' : (s.nodes.size + 1 + 1, FqU ε (G iv.ci).m.2) :: hpU ε (G iv.ci).Y =
      hpU ε dr2 ++ (g2.1, FqU ε g2.2) :: hpU ε rest2 := by
    have := congrArg (hpU ε) hs2
    rw [hpU_append] at this
    exact this
  obtain ⟨N'', N3', N4', r1, r2, r3, segL, segU, sz4, tl4, fr4⟩ := split_fans_sz
    (s.nodes.push ⟨FqU ε ((shearRing ε R).pt w), none, none⟩) (s.nodes.size + 1) hNsz _ _ _ _ hsegN hndl cB hrm hhead htail
    (FqU ε ((shearRing ε R).pt w)) sm0 hsm0n hs1' (fanB_hpU _ _ _ hfan1) (stopB_hpU _ _ _ hxd1 hstop1)
    hs2' (fanF_hpU _ _ _ hfan2) (stopF_hpU _ _ _ hxd2 hstop2)
  obtain ⟨-, e1⟩ := ok_inj hr1 r1
  have eN' : N' = N'' := congrArg St.nodes e1
  subst eN'
  obtain ⟨-, e2⟩ := ok_inj hr2 r2
  have eN3 : N3 = N3' := congrArg St.nodes e2
  have eo3 : out3 = _ := congrArg St.out e2
  subst eN3
  subst eo3
  obtain ⟨-, e3⟩ := ok_inj hr3 r3
  have eN4 : N4 = N4' := congrArg St.nodes e3
  have eo4 : out4 = _ := congrArg St.out e3
  rw [hsm0o] at eo4
  obtain ⟨ta1, tl1⟩ := trisB_hpU _ _ _ hfan1
  obtain ⟨ta2, tl2⟩ := trisF_hpU _ _ _ hfan2
  -- the new descriptions
  have hcilt : ∀ j ∈ pre ++ iv :: post, j.ci < s.chains.size := by
    intro j hj
    obtain ⟨ch, hch, -⟩ := (hX.ok j hj).cell
    exact lt_of_get' hch
  obtain ⟨G', hG'⟩ : ∃ G' : Nat → CH, G' = Function.update (Function.update G (s.chains.size + 1)
      ⟨g1 :: rest1, (s.nodes.size + 1, (shearRing ε R).pt w), []⟩) (s.chains.size + 1 + 1)
      ⟨[], (s.nodes.size + 1 + 2, (shearRing ε R).pt w), g2 :: rest2⟩ := ⟨_, rfl⟩
  have hGo : ∀ j ∈ pre ++ iv :: post, G' j.ci = G j.ci := by
    intro j hj
    have := hcilt j hj
    rw [hG', Function.update_of_ne (by omega), Function.update_of_ne (by omega)]
  have hGb : G' (s.chains.size + 1) = ⟨g1 :: rest1, (s.nodes.size + 1, (shearRing ε R).pt w), []⟩ := by
    rw [hG', Function.update_of_ne (by omega), Function.update_self]
  have hGt : G' (s.chains.size + 1 + 1) = ⟨[], (s.nodes.size + 1 + 2, (shearRing ε R).pt w), g2 :: rest2⟩ := by
    rw [hG', Function.update_self]
  clear hG'
  refine ⟨s', G', hrun, ?_⟩
  have hjm : ∀ j ∈ pre ++ post, j ∈ pre ++ iv :: post := by
    intro j hj
    rcases List.mem_append.mp hj with h | h
    · exact List.mem_append_left _ h
    · exact List.mem_append_right _ (List.mem_cons_of_mem _ h)
  have hothers : ∀ j ∈ pre ++ post, ChainOKV R ε s' ((shearRing ε R).x w) j (G' j.ci) := by
    intro j hj
    refine other_okV hX (le_of_lt hxs) (hjm j hj) (hGo j (hjm j hj)) ?_ ?_
    · rw [hs'c]; exact push3_lt _ _ _ _ (hcilt j (hjm j hj))
    · intro x hx
      have hxlt := SegU.idx_lt (hX.ok j (hjm j hj)).seg x hx
      rw [hs'n, eN4, fr4 x.1 (by omega) ?_, hpush x.1 hxlt]
      rw [← hl]
      intro y hy
      obtain ⟨y0, hy0, rfl⟩ := List.mem_map.mp hy
      exact fun e => nd_disj hX.nd j hj x hx y0 hy0 e.symm
  have hokL : ChainOKV R ε s' ((shearRing ε R).x w) ⟨iv.lo, ⟨s.edges.size, w, wB⟩, s.chains.size + 1⟩
      ⟨g1 :: rest1, (s.nodes.size + 1, (shearRing ε R).pt w), []⟩ := by
    refine ⟨⟨⟨s.nodes.size + 1, cB.head, s.nodes.size + 1⟩, ?_, ?_, rfl, rfl⟩, ?_, ?_⟩
    · rw [hs'c]; exact push3_1 _ _ _ _
    · show cB.head = (lastD (s.nodes.size + 1, (shearRing ε R).pt w) (g1 :: rest1)).1
      rw [hhd]
      show (lastD (G iv.ci).m (G iv.ci).X).1 = (lastD g1 rest1).1
      rw [lastD_suffix hs1]
    · rw [hs'n, eN4]
      have : hpU ε (CH.l ⟨g1 :: rest1, (s.nodes.size + 1, (shearRing ε R).pt w), []⟩) =
          (hpU ε rest1).reverse ++ [(g1.1, FqU ε g1.2), (s.nodes.size + 1, FqU ε ((shearRing ε R).pt w))] := by
        simp [CH.l, hpU]
      rw [this]; exact segL
    · refine ⟨hxd1, trivial, hnt1, trivial, le_refl _, ?_, by simp [CH.up]⟩
      intro q hq
      have e : (CH.dn ⟨g1 :: rest1, (s.nodes.size + 1, (shearRing ε R).pt w), []⟩).map Prod.snd =
          (shearRing ε R).pt w :: (g1 :: rest1).map Prod.snd := rfl
      rw [e, List.map_cons, List.dropLast_cons_cons] at hq
      rcases List.mem_cons.mp hq with rfl | hq
      · exact orient_pos_of_above _ _ _ hsp_lo.lt (hlow iv.lo (by simp))
      · apply hsh.aboveLo q
        have hdn : (G iv.ci).dn.map Prod.snd = dr1.map Prod.snd ++ (g1 :: rest1).map Prod.snd := by
          show ((G iv.ci).m :: (G iv.ci).X).map Prod.snd = _
          rw [hs1, List.map_append]
        exact mem_dropLast_suffix hdn (by simp) (by simpa using hq)
  have hokU : ChainOKV R ε s' ((shearRing ε R).x w) ⟨⟨s.edges.size + 1, w, wT⟩, iv.hi, s.chains.size + 1 + 1⟩
      ⟨[], (s.nodes.size + 1 + 2, (shearRing ε R).pt w), g2 :: rest2⟩ := by
    refine ⟨⟨⟨s.nodes.size + 1 + 2, s.nodes.size + 1 + 2,
      if cB.tail == cB.rm then s.nodes.size + 1 + 1 else cB.tail⟩, ?_, rfl, ?_, rfl⟩, ?_, ?_⟩
    · rw [hs'c]; exact push3_2 _ _ _ _
    · show (if cB.tail == cB.rm then s.nodes.size + 1 + 1 else cB.tail) =
        (lastD (s.nodes.size + 1 + 2, (shearRing ε R).pt w) (g2 :: rest2)).1
      have e : ((g2.1, FqU ε g2.2) :: hpU ε rest2) = hpU ε (g2 :: rest2) := rfl
      rw [e] at tl4
      unfold hpU at tl4
      rw [List.getLast?_map, getLast?_cons_lastD] at tl4
      exact Option.some.inj tl4
    · rw [hs'n, eN4]
      have : hpU ε (CH.l ⟨[], (s.nodes.size + 1 + 2, (shearRing ε R).pt w), g2 :: rest2⟩) =
          (s.nodes.size + 1 + 2, FqU ε ((shearRing ε R).pt w)) :: (g2.1, FqU ε g2.2) :: hpU ε rest2 := by
        simp [CH.l, hpU]
      rw [this]; exact segU
    · refine ⟨trivial, hxd2, trivial, hnt2, le_refl _, by simp [CH.dn], ?_⟩
      intro q hq
      have e : (CH.up ⟨[], (s.nodes.size + 1 + 2, (shearRing ε R).pt w), g2 :: rest2⟩).map Prod.snd =
          (shearRing ε R).pt w :: (g2 :: rest2).map Prod.snd := rfl
      rw [e, List.map_cons, List.dropLast_cons_cons] at hq
      rcases List.mem_cons.mp hq with rfl | hq
      · exact orient_neg_of_below _ _ _ hsp_hi.lt (hhigh iv.hi (by simp))
      · apply hsh.belowHi q
        have hup : (G iv.ci).up.map Prod.snd = dr2.map Prod.snd ++ (g2 :: rest2).map Prod.snd := by
          show ((s.nodes.size + 1 + 1, (G iv.ci).m.2) :: (G iv.ci).Y).map Prod.snd = _
          rw [hs2, List.map_append]
        exact mem_dropLast_suffix hup (by simp) (by simpa using hq)
  have hnloB : ¬ isLo (shearRing ε R) w wB :=
    isLo_hiV hSh (pre := pre) (iv := (⟨iv.lo, ⟨s.edges.size, w, wB⟩, s.chains.size + 1⟩ : IV))
      (post := (⟨⟨s.edges.size + 1, w, wT⟩, iv.hi, s.chains.size + 1 + 1⟩ : IV) :: post) hI' rfl
  have hloT : isLo (shearRing ε R) w wT :=
    isLo_loV hSh (pre := pre ++ [(⟨iv.lo, ⟨s.edges.size, w, wB⟩, s.chains.size + 1⟩ : IV)])
      (iv := (⟨⟨s.edges.size + 1, w, wT⟩, iv.hi, s.chains.size + 1 + 1⟩ : IV)) (post := post)
      (by rw [List.append_assoc]; exact hI') rfl
  refine ⟨⟨hI', ?_, ?_, ?_, ?_, ?_, ?_, fun h => absurd h (by simp), ?_⟩, ?_⟩
  · -- chains
    intro j hj
    rcases List.mem_append.mp hj with hj | hj
    · exact hothers j (List.mem_append_left _ hj)
    · rcases List.mem_cons.mp hj with rfl | hj
      · show ChainOKV R ε s' ((shearRing ε R).x w) _ (G' (s.chains.size + 1))
        rw [hGb]; exact hokL
      · rcases List.mem_cons.mp hj with rfl | hj
        · show ChainOKV R ε s' ((shearRing ε R).x w) _ (G' (s.chains.size + 1 + 1))
          rw [hGt]; exact hokU
        · exact hothers j (List.mem_append_right _ hj)
  · -- node indices
    rw [idxs_append, idxs_cons, idxs_cons, idxs_congr (fun j hj => hGo j (List.mem_append_left _ hj)),
      idxs_congr (fun j hj => hGo j (List.mem_append_right _ (List.mem_cons_of_mem _ hj)))]
    show (idxs G pre ++ ((G' (s.chains.size + 1)).l.map Prod.fst ++
      ((G' (s.chains.size + 1 + 1)).l.map Prod.fst ++ idxs G post))).Nodup
    rw [hGb, hGt]
    have hnd := hX.nd
    rw [idxs_append, idxs_cons, ← List.append_assoc] at hnd
    have e0 : (G iv.ci).l.map Prod.fst =
        ((G iv.ci).X.reverse ++ [(G iv.ci).m]).map Prod.fst ++ (G iv.ci).Y.map Prod.fst := by
      simp [CH.l]
    have hlt := hX.idx_lt
    rw [idxs_append, idxs_cons, ← List.append_assoc] at hlt
    rw [e0] at hnd hlt
    have h1 : ((G iv.ci).X.reverse ++ [(G iv.ci).m]).map Prod.fst =
        (rest1.reverse ++ [g1]).map Prod.fst ++ dr1.reverse.map Prod.fst := by
      have := congrArg List.reverse hs1
      rw [List.reverse_cons] at this
      rw [this]; simp
    have h2 : (s.nodes.size + 1 + 1) :: (G iv.ci).Y.map Prod.fst =
        dr2.map Prod.fst ++ (g2 :: rest2).map Prod.fst := by
      have := congrArg (List.map Prod.fst) hs2
      simpa using this
    have := nodup_split (a := s.nodes.size + 1) (b := s.nodes.size + 1 + 2) (c := s.nodes.size + 1 + 1)
      hnd h1 h2 (fun k hk => by have := hlt k hk; omega) (by omega) (by omega) (by omega)
    simpa [CH.l] using this
  · -- flags
    intro j hj
    rcases List.mem_append.mp hj with hj | hj
    · exact hX.flags j (List.mem_append_left _ hj)
    · rcases List.mem_cons.mp hj with rfl | hj
      · exact ⟨hflags.1, hnloB⟩
      · rcases List.mem_cons.mp hj with rfl | hj
        · exact ⟨hloT, hflags.2⟩
        · exact hX.flags j (List.mem_append_right _ (List.mem_cons_of_mem _ hj))
  · -- count
    have hcnt := hX.count
    rw [cnt_step hR hwn hxs hgap, vWeight_start hnb' hxB hxT ho, if_neg hnloB]
    rw [hs'o, eo4, List.length_append, List.length_append, tl1, tl2]
    rw [lenSum_append, lenSum_cons, lenSum_cons, lenSum_congr (fun j hj => hGo j (List.mem_append_left _ hj)),
      lenSum_congr (fun j hj => hGo j (List.mem_append_right _ (List.mem_cons_of_mem _ hj)))]
    show _ + (lenSum G pre + ((G' (s.chains.size + 1)).l.length +
      ((G' (s.chains.size + 1 + 1)).l.length + lenSum G post))) = _
    rw [hGb, hGt]
    rw [lenSum_append, lenSum_cons] at hcnt
    have l1 := congrArg List.length hs1
    have l2 := congrArg List.length hs2
    simp only [CH.l, List.length_append, List.length_cons, List.length_reverse, List.length_nil]
      at hcnt l1 l2 ⊢
    omega
  · -- area
    have harea := hX.area
    rw [wDone_startS hR hwn hxs hgap hnb' hxB hxT]
    rw [pathTot_append, pathTot_cons, pathTot_cons,
      pathTot_congr (fun j hj => hGo j (List.mem_append_left _ hj)),
      pathTot_congr (fun j hj => hGo j (List.mem_append_right _ (List.mem_cons_of_mem _ hj)))]
    show _ = _ + (pathTot G pre + (pathSum ((G' (s.chains.size + 1)).l.map Prod.snd) +
      (pathSum ((G' (s.chains.size + 1 + 1)).l.map Prod.snd) + pathTot G post)))
    rw [hGb, hGt, hs'o, eo4, areaSum_append, areaSum_append, ta1, ta2, harea, pathTot_append, pathTot_cons]
    have v1 := view_acct ((shearRing ε R).pt w) (dr1.map Prod.snd) g1.2 (rest1.map Prod.snd)
    have v2 := view_acct ((shearRing ε R).pt w) (dr2.map Prod.snd) g2.2 (rest2.map Prod.snd)
    have e1 : dr1.map Prod.snd ++ g1.2 :: rest1.map Prod.snd =
        (G iv.ci).m.2 :: (G iv.ci).X.map Prod.snd := by
      have := congrArg (List.map Prod.snd) hs1
      simpa using this.symm
    have e2 : dr2.map Prod.snd ++ g2.2 :: rest2.map Prod.snd =
        (G iv.ci).m.2 :: (G iv.ci).Y.map Prod.snd := by
      have := congrArg (List.map Prod.snd) hs2
      simpa using this.symm
    rw [e1] at v1
    rw [e2] at v2
    have f1 : (dr1 ++ [g1]).map Prod.snd = dr1.map Prod.snd ++ [g1.2] := by simp
    have f2 : (dr2 ++ [g2]).map Prod.snd = dr2.map Prod.snd ++ [g2.2] := by simp
    have c0 : pathSum ((G iv.ci).l.map Prod.snd) =
        - pathSum ((G iv.ci).m.2 :: (G iv.ci).X.map Prod.snd) +
          pathSum ((G iv.ci).m.2 :: (G iv.ci).Y.map Prod.snd) := by
      have e : (G iv.ci).l.map Prod.snd =
          ((G iv.ci).X.map Prod.snd).reverse ++ (G iv.ci).m.2 :: (G iv.ci).Y.map Prod.snd := by
        simp [CH.l]
      have e' : ((G iv.ci).X.map Prod.snd).reverse ++ [(G iv.ci).m.2] =
          ((G iv.ci).m.2 :: (G iv.ci).X.map Prod.snd).reverse := by simp
      rw [e, pathSum_append, e', pathSum_reverse]
    have cb : pathSum ((CH.l ⟨g1 :: rest1, (s.nodes.size + 1, (shearRing ε R).pt w), []⟩).map Prod.snd) =
        - pathSum ((shearRing ε R).pt w :: g1.2 :: rest1.map Prod.snd) := by
      have e : (CH.l ⟨g1 :: rest1, (s.nodes.size + 1, (shearRing ε R).pt w), []⟩).map Prod.snd =
          ((shearRing ε R).pt w :: g1.2 :: rest1.map Prod.snd).reverse := by simp [CH.l]
      rw [e, pathSum_reverse]
    have ct : (CH.l ⟨[], (s.nodes.size + 1 + 2, (shearRing ε R).pt w), g2 :: rest2⟩).map Prod.snd =
        (shearRing ε R).pt w :: g2.2 :: rest2.map Prod.snd := by simp [CH.l]
    rw [c0, cb, ct, f1, f2]
    have p1 : pathSum ((shearRing ε R).pt w :: (G iv.ci).m.2 :: (G iv.ci).X.map Prod.snd) =
        cross ((shearRing ε R).pt w) (G iv.ci).m.2 + pathSum ((G iv.ci).m.2 :: (G iv.ci).X.map Prod.snd) := rfl
    have p2 : pathSum ((shearRing ε R).pt w :: (G iv.ci).m.2 :: (G iv.ci).Y.map Prod.snd) =
        cross ((shearRing ε R).pt w) (G iv.ci).m.2 + pathSum ((G iv.ci).m.2 :: (G iv.ci).Y.map Prod.snd) := rfl
    rw [p1] at v1
    rw [p2] at v2
    linarith
  · -- coherence
    exact coh_step hR hwn hxs hgap hX.coh
      (coh_startS hnb' hxB hxT ⟨fun h => absurd h hnloB, fun h => absurd hloT h⟩)
  · -- positive areas
    intro tr htr
    rw [hs'o, eo4] at htr
    rcases List.mem_append.mp htr with h | h
    · exact trisF_posU _ _ _ hfan2 tr h
    · rcases List.mem_append.mp h with h | h
      · exact trisB_posU _ _ _ hfan1 tr h
      · exact hX.posA tr h
  · -- the generic identity
    obtain ⟨Tg, hTg, hneg, hid⟩ := hT.gen
    refine ⟨trisFq ((shearRing ε R).pt w) ((dr2 ++ [g2]).map Prod.snd) ++
      (trisBq ((shearRing ε R).pt w) ((dr1 ++ [g1]).map Prod.snd) ++ Tg), ?_, ?_, ?_⟩
    · rw [hs'o, eo4, hTg, trisF_hpU_map, trisB_hpU_map]
      simp only [List.map_append]
    · intro t ht
      rcases List.mem_append.mp ht with h | h
      · exact trisFq_neg _ _ hfan2 t h
      · rcases List.mem_append.mp h with h | h
        · exact trisBq_neg _ _ hfan1 t h
        · exact hneg t h
    · intro ω hω
      rw [wDoneW_start hR ω hwn hxs hgap hnb' hxB hxT]
      rw [pathTotW_append, pathTotW_cons, pathTotW_cons,
        pathTotW_congr (fun j hj => hGo j (List.mem_append_left _ hj)),
        pathTotW_congr (fun j hj => hGo j (List.mem_append_right _ (List.mem_cons_of_mem _ hj)))]
      show _ = _ + (pathTotW ω G pre + (pathSumW ω ((G' (s.chains.size + 1)).l.map Prod.snd) +
        (pathSumW ω ((G' (s.chains.size + 1 + 1)).l.map Prod.snd) + pathTotW ω G post)))
      rw [hGb, hGt, muSum_append, muSum_append, muSum_trisFq hω, muSum_trisBq hω, hid ω hω,
        pathTotW_append, pathTotW_cons]
      have v1 := view_acctW hω ((shearRing ε R).pt w) (dr1.map Prod.snd) g1.2 (rest1.map Prod.snd)
      have v2 := view_acctW hω ((shearRing ε R).pt w) (dr2.map Prod.snd) g2.2 (rest2.map Prod.snd)
      have e1 : dr1.map Prod.snd ++ g1.2 :: rest1.map Prod.snd =
          (G iv.ci).m.2 :: (G iv.ci).X.map Prod.snd := by
        have := congrArg (List.map Prod.snd) hs1
        simpa using this.symm
      have e2 : dr2.map Prod.snd ++ g2.2 :: rest2.map Prod.snd =
          (G iv.ci).m.2 :: (G iv.ci).Y.map Prod.snd := by
        have := congrArg (List.map Prod.snd) hs2
        simpa using this.symm
      rw [e1] at v1
      rw [e2] at v2
      have f1 : (dr1 ++ [g1]).map Prod.snd = dr1.map Prod.snd ++ [g1.2] := by simp
      have f2 : (dr2 ++ [g2]).map Prod.snd = dr2.map Prod.snd ++ [g2.2] := by simp
      have c0 : pathSumW ω ((G iv.ci).l.map Prod.snd) =
          - pathSumW ω ((G iv.ci).m.2 :: (G iv.ci).X.map Prod.snd) +
            pathSumW ω ((G iv.ci).m.2 :: (G iv.ci).Y.map Prod.snd) := by
        have e : (G iv.ci).l.map Prod.snd =
            ((G iv.ci).X.map Prod.snd).reverse ++ (G iv.ci).m.2 :: (G iv.ci).Y.map Prod.snd := by
          simp [CH.l]
        have e' : ((G iv.ci).X.map Prod.snd).reverse ++ [(G iv.ci).m.2] =
            ((G iv.ci).m.2 :: (G iv.ci).X.map Prod.snd).reverse := by simp
        rw [e, pathSumW_append, e', pathSumW_reverse hω]
      have cb : pathSumW ω ((CH.l ⟨g1 :: rest1, (s.nodes.size + 1, (shearRing ε R).pt w), []⟩).map Prod.snd) =
          - pathSumW ω ((shearRing ε R).pt w :: g1.2 :: rest1.map Prod.snd) := by
        have e : (CH.l ⟨g1 :: rest1, (s.nodes.size + 1, (shearRing ε R).pt w), []⟩).map Prod.snd =
            ((shearRing ε R).pt w :: g1.2 :: rest1.map Prod.snd).reverse := by simp [CH.l]
        rw [e, pathSumW_reverse hω]
      have ct : (CH.l ⟨[], (s.nodes.size + 1 + 2, (shearRing ε R).pt w), g2 :: rest2⟩).map Prod.snd =
          (shearRing ε R).pt w :: g2.2 :: rest2.map Prod.snd := by simp [CH.l]
      rw [c0, cb, ct, f1, f2]
      have p1 : pathSumW ω ((shearRing ε R).pt w :: (G iv.ci).m.2 :: (G iv.ci).X.map Prod.snd) =
          ω ((shearRing ε R).pt w) (G iv.ci).m.2 + pathSumW ω ((G iv.ci).m.2 :: (G iv.ci).X.map Prod.snd) := rfl
      have p2 : pathSumW ω ((shearRing ε R).pt w :: (G iv.ci).m.2 :: (G iv.ci).Y.map Prod.snd) =
          ω ((shearRing ε R).pt w) (G iv.ci).m.2 + pathSumW ω ((G iv.ci).m.2 :: (G iv.ci).Y.map Prod.snd) := rfl
      rw [p1] at v1
      rw [p2] at v2
      linarith

end Cav.GenOutInV
