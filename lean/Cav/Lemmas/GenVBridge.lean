/-
  Equal abscissae, part 2: FROM THE SHEARED GEOMETRY TO THE COMPARISONS OF THE MODEL.  The sweep
  invariant is kept for the sheared ring `shearRing ε R` (distinct abscissae); the model compares
  the ORIGINAL points.  For a valid ring the order of two active edges is decided by orientation
  determinants, which the shear keeps; so an order fact of the sheared ring at the sheared sweep
  abscissa gives the answer of the model's comparator at the original sweep abscissa, including
  the ties at common end points on the sweep line (`cmpV_of_below`), and the look-ahead tests
  (`wobV_of_below`, `wotV_of_above`, `wotV_pair`).  No vertical edges here (`NoVert`).
-/
import Cav.Lemmas.GenVShear
import Cav.Lemmas.GenStepEnd
import Cav.Lemmas.GenXGeom

set_option linter.unusedSimpArgs false
set_option linter.unusedVariables false

namespace Cav.GenVBridge
open Cav Num Cav.Geo Cav.Sweep Cav.TriRun Cav.QuadRun Cav.TriGeom Cav.QuadGeom Cav.CvxFlows
open Cav.GenQuery Cav.GenGeom Cav.GenInv Cav.GenQueue Cav.GenOrder Cav.GenStepBend Cav.GenStepEnd
open Cav.GenValid Cav.GenVShear

/-! ### plane geometry -/

/-- both end points of `cd` strictly above the line `ab`: `cd` is above `ab` -/
theorem two_above (a b c d : Q) (hab : a.1 < b.1) (hcd : c.1 < d.1) (o1 : 0 < orient a b c)
    (o2 : 0 < orient a b d) (x : Rat) (hc : c.1 ≤ x) (hd : x ≤ d.1) : lineY a b x < lineY c d x := by
  have key := orient_on_line a b c d hcd x
  have h1 : 0 ≤ d.1 - x := sub_nonneg.mpr hd
  have h2 : 0 ≤ x - c.1 := sub_nonneg.mpr hc
  have hpos : 0 < (d.1 - x) * orient a b c + (x - c.1) * orient a b d := by
    rcases lt_or_eq_of_le h1 with h1' | h1'
    · nlinarith [mul_pos h1' o1, mul_nonneg h2 (le_of_lt o2)]
    · have h2' : 0 < x - c.1 := by linarith
      nlinarith [mul_pos h2' o2, mul_nonneg h1 (le_of_lt o1)]
  have ho : 0 < orient a b (x, lineY c d x) := by
    have hd' : 0 < d.1 - c.1 := sub_pos.mpr hcd
    by_contra hcon
    have := mul_nonpos_of_nonneg_of_nonpos (le_of_lt hd') (not_lt.mp hcon)
    linarith
  exact above_of_orient_pos a b (x, lineY c d x) hab ho

/-- both end points of `ab` strictly below the line `cd`: `ab` is below `cd` -/
theorem two_below (a b c d : Q) (hab : a.1 < b.1) (hcd : c.1 < d.1) (o1 : orient c d a < 0)
    (o2 : orient c d b < 0) (x : Rat) (ha : a.1 ≤ x) (hb : x ≤ b.1) : lineY a b x < lineY c d x := by
  have key := orient_on_line c d a b hab x
  have h1 : 0 ≤ b.1 - x := sub_nonneg.mpr hb
  have h2 : 0 ≤ x - a.1 := sub_nonneg.mpr ha
  have hneg : (b.1 - x) * orient c d a + (x - a.1) * orient c d b < 0 := by
    rcases lt_or_eq_of_le h1 with h1' | h1'
    · nlinarith [mul_pos h1' (neg_pos.mpr o1), mul_nonneg h2 (le_of_lt (neg_pos.mpr o2))]
    · have h2' : 0 < x - a.1 := by linarith
      nlinarith [mul_pos h2' (neg_pos.mpr o2), mul_nonneg h1 (le_of_lt (neg_pos.mpr o1))]
  have ho : orient c d (x, lineY a b x) < 0 := by
    have hd' : 0 < b.1 - a.1 := sub_pos.mpr hab
    by_contra hcon
    have := mul_nonneg (le_of_lt hd') (not_lt.mp hcon)
    linarith
  exact below_of_orient_neg c d (x, lineY a b x) hcd ho

/-- the end points of `cd` on one side of `ab`, and `cd` above `ab` somewhere: both above -/
theorem sides_above (a b c d : Q) (hab : a.1 < b.1) (hcd : c.1 < d.1)
    (h : 0 < orient a b c * orient a b d) (x : Rat) (hc : c.1 ≤ x) (hd : x ≤ d.1)
    (hlt : lineY a b x < lineY c d x) : 0 < orient a b c ∧ 0 < orient a b d := by
  rcases mul_pos_iff.mp h with hp | ⟨n1, n2⟩
  · exact hp
  · exfalso
    have key := orient_on_line a b c d hcd x
    have ho : 0 < orient a b (x, lineY c d x) := orient_pos_of_above a b (x, lineY c d x) hab hlt
    have h1 : 0 ≤ d.1 - x := sub_nonneg.mpr hd
    have h2 : 0 ≤ x - c.1 := sub_nonneg.mpr hc
    have hd' : 0 < d.1 - c.1 := sub_pos.mpr hcd
    nlinarith [mul_pos hd' ho, mul_nonneg h1 (le_of_lt (neg_pos.mpr n1)),
      mul_nonneg h2 (le_of_lt (neg_pos.mpr n2))]

/-- the end points of `ab` on one side of `cd`, and `ab` below `cd` somewhere: both below -/
theorem sides_below (a b c d : Q) (hab : a.1 < b.1) (hcd : c.1 < d.1)
    (h : 0 < orient c d a * orient c d b) (x : Rat) (ha : a.1 ≤ x) (hb : x ≤ b.1)
    (hlt : lineY a b x < lineY c d x) : orient c d a < 0 ∧ orient c d b < 0 := by
  rcases mul_pos_iff.mp h with ⟨p1, p2⟩ | hn
  · exfalso
    have key := orient_on_line c d a b hab x
    have ho : orient c d (x, lineY a b x) < 0 := orient_neg_of_below c d (x, lineY a b x) hcd hlt
    have h1 : 0 ≤ b.1 - x := sub_nonneg.mpr hb
    have h2 : 0 ≤ x - a.1 := sub_nonneg.mpr ha
    have hd' : 0 < b.1 - a.1 := sub_pos.mpr hab
    nlinarith [mul_pos hd' (neg_pos.mpr ho), mul_nonneg h1 (le_of_lt p1), mul_nonneg h2 (le_of_lt p2)]
  · exact hn

/-- two edges out of one point, the first below the second to the right of it -/
theorem fanL_orient (a b d : Q) (hab : a.1 < b.1) (had : a.1 < d.1) (x : Rat) (hx : a.1 < x)
    (hlt : lineY a b x < lineY a d x) : 0 < orient a b d := by
  have h := lineY_sub_sameL a b d x hab had
  by_contra hcon
  have : (x - a.1) * orient a b d / ((b.1 - a.1) * (d.1 - a.1)) ≤ 0 :=
    div_nonpos_of_nonpos_of_nonneg
      (mul_nonpos_of_nonneg_of_nonpos (le_of_lt (sub_pos.mpr hx)) (not_lt.mp hcon))
      (le_of_lt (mul_pos (sub_pos.mpr hab) (sub_pos.mpr had)))
  linarith

/-- two edges into one point, the first below the second to the left of it -/
theorem fanR_orient (a c d : Q) (had : a.1 < d.1) (hcd : c.1 < d.1) (x : Rat) (hx : x < d.1)
    (hlt : lineY a d x < lineY c d x) : orient a c d < 0 := by
  have h := lineY_sub_sameR a c d x had hcd
  by_contra hcon
  have : 0 ≤ (d.1 - x) * orient a c d / ((d.1 - a.1) * (d.1 - c.1)) :=
    div_nonneg (mul_nonneg (le_of_lt (sub_pos.mpr hx)) (not_lt.mp hcon))
      (le_of_lt (mul_pos (sub_pos.mpr had) (sub_pos.mpr hcd)))
  linarith

theorem fanR_lt_of_orient (a c d : Q) (had : a.1 < d.1) (hcd : c.1 < d.1) (x : Rat) (hx : x < d.1)
    (ho : orient a c d < 0) : lineY a d x < lineY c d x := by
  have h := lineY_sub_sameR a c d x had hcd
  have : (d.1 - x) * orient a c d / ((d.1 - a.1) * (d.1 - c.1)) < 0 :=
    div_neg_of_neg_of_pos (mul_neg_of_pos_of_neg (sub_pos.mpr hx) ho)
      (mul_pos (sub_pos.mpr had) (sub_pos.mpr hcd))
  linarith

/-- two edges into one point, compared AT that point: the rule for a common right end point -/
theorem cmpE_fanR0_lt (a c d : Q) (had : a.1 < d.1) (hcd : c.1 < d.1) (ho : orient a c d < 0) :
    cmpEdgeP (Fq a) (Fq d) (Fq c) (Fq d) (.fin d.1) = .lt := by
  have h := slope_sub_sameR a c d had hcd
  have : orient a c d / ((d.1 - a.1) * (d.1 - c.1)) < 0 :=
    neg_div ho (mul_pos (sub_pos.mpr had) (sub_pos.mpr hcd))
  have hy1 := yE_in a d d.1 had had.le le_rfl
  have hy2 := yE_in c d d.1 hcd hcd.le le_rfl
  rw [lineY_right a d had] at hy1
  rw [lineY_right c d hcd] at hy2
  rw [cmpEdgeP_y_eq_end hy1 hy2 (by simp [Geo.Pt.eq_fin]), grad_eq_slope a d had, grad_eq_slope c d hcd, totalCmp_fin,
    if_pos (by linarith)]

theorem cmpE_fanR0_gt (a c d : Q) (had : a.1 < d.1) (hcd : c.1 < d.1) (ho : 0 < orient a c d) :
    cmpEdgeP (Fq a) (Fq d) (Fq c) (Fq d) (.fin d.1) = .gt := by
  have h := slope_sub_sameR a c d had hcd
  have : 0 < orient a c d / ((d.1 - a.1) * (d.1 - c.1)) :=
    pos_div ho (mul_pos (sub_pos.mpr had) (sub_pos.mpr hcd))
  have hy1 := yE_in a d d.1 had had.le le_rfl
  have hy2 := yE_in c d d.1 hcd hcd.le le_rfl
  rw [lineY_right a d had] at hy1
  rw [lineY_right c d hcd] at hy2
  rw [cmpEdgeP_y_eq_end hy1 hy2 (by simp [Geo.Pt.eq_fin]), grad_eq_slope a d had, grad_eq_slope c d hcd, totalCmp_fin,
    if_neg (by linarith), if_pos (by linarith)]


/-! ### the look-ahead tests with equal right abscissae allowed -/

theorem orient_same_x (lb rb rp : Q) (h : rp.1 = rb.1) :
    orient lb rb rp = (rb.1 - lb.1) * (rp.2 - rb.2) := by
  unfold orient; rw [h]; ring

/-- `willOverlapBot` of the edge `p → rp` against the edge `lb → rb` below it -/
theorem wobP_false_V (p rp lb rb : Q) (hpr : p.1 < rp.1) (hlr : lb.1 < rb.1) (h3 : lb.1 ≤ rp.1)
    (h4 : p.1 ≤ rb.1) (hsame : rp.1 = rb.1 → rb.2 ≤ rp.2)
    (hlt : rp.1 < rb.1 → 0 < orient lb rb rp) (hgt : rb.1 < rp.1 → orient p rp rb < 0) :
    wobP (Fq p) (Fq rp) (Fq lb) (Fq rb) = false := by
  unfold wobP
  rcases lt_trichotomy rp.1 rb.1 with h | h | h
  · have hx : ofEq (Fq rp).x (Fq rb).x = false := by
      simp only [F_x, ofEq_fin, decide_eq_false_iff_not]; exact ne_of_lt h
    have e : minTotal (Fq rp).x (Fq rb).x = XQ.fin (min rp.1 rb.1) := minTotal_fin _ _
    rw [hx]
    simp only [Bool.false_eq_true, if_false]
    rw [e, min_eq_left (le_of_lt h), cmpAt_keyEnd_gt p rp lb rb hpr hlr h3 (le_of_lt h) (hlt h)]
    rfl
  · have hx : ofEq (Fq rp).x (Fq rb).x = true := by
      simp only [F_x, ofEq_fin, decide_eq_true_eq]; exact h
    rw [hx]
    simp only [if_true]
    have y1 := yE_in p rp rp.1 hpr hpr.le le_rfl
    have y2 := yE_in lb rb rp.1 hlr h3 (le_of_eq h)
    rw [lineY_right p rp hpr] at y1
    rw [h, lineY_right lb rb hlr] at y2
    have y1' : yExtrap (Fq p) (Fq rp) (Fq rp).x true = XQ.fin rp.2 := y1
    have y2' : yExtrap (Fq lb) (Fq rb) (Fq rp).x true = XQ.fin rb.2 := by
      show yExtrap (Fq lb) (Fq rb) (XQ.fin rp.1) true = _
      rw [h]; exact y2
    rw [y1', y2', ofLt_fin]
    simp only [decide_eq_false_iff_not, not_lt]
    exact hsame h
  · have hx : ofEq (Fq rp).x (Fq rb).x = false := by
      simp only [F_x, ofEq_fin, decide_eq_false_iff_not]; exact ne_of_gt h
    have e : minTotal (Fq rp).x (Fq rb).x = XQ.fin (min rp.1 rb.1) := minTotal_fin _ _
    rw [hx]
    simp only [Bool.false_eq_true, if_false]
    rw [e, min_eq_right (le_of_lt h), cmpAt_otherEnd_gt p rp lb rb hpr hlr h4 (le_of_lt h) (hgt h)]
    rfl

/-- `willOverlapTop` of the edge `p → rp` against the edge `lt → rt` above it -/
theorem wotP_false_V (p rp lt rt : Q) (hpr : p.1 < rp.1) (hlr : lt.1 < rt.1) (h3 : lt.1 ≤ rp.1)
    (h4 : p.1 ≤ rt.1) (hsame : rp.1 = rt.1 → rp.2 ≤ rt.2)
    (hlt : rp.1 < rt.1 → orient lt rt rp < 0) (hgt : rt.1 < rp.1 → 0 < orient p rp rt) :
    wotP (Fq p) (Fq rp) (Fq lt) (Fq rt) = false := by
  unfold wotP
  rcases lt_trichotomy rp.1 rt.1 with h | h | h
  · have hx : ofEq (Fq rp).x (Fq rt).x = false := by
      simp only [F_x, ofEq_fin, decide_eq_false_iff_not]; exact ne_of_lt h
    have e : minTotal (Fq rp).x (Fq rt).x = XQ.fin (min rp.1 rt.1) := minTotal_fin _ _
    rw [hx]
    simp only [Bool.false_eq_true, if_false]
    rw [e, min_eq_left (le_of_lt h), cmpAt_keyEnd_lt p rp lt rt hpr hlr h3 (le_of_lt h) (hlt h)]
    rfl
  · have hx : ofEq (Fq rp).x (Fq rt).x = true := by
      simp only [F_x, ofEq_fin, decide_eq_true_eq]; exact h
    rw [hx]
    simp only [if_true]
    have y1 := yE_in p rp rp.1 hpr hpr.le le_rfl
    have y2 := yE_in lt rt rt.1 hlr hlr.le le_rfl
    rw [lineY_right p rp hpr] at y1
    rw [lineY_right lt rt hlr] at y2
    have y1' : yExtrap (Fq p) (Fq rp) (Fq rp).x true = XQ.fin rp.2 := y1
    have y2' : yExtrap (Fq lt) (Fq rt) (Fq rp).x true = XQ.fin rt.2 := by
      show yExtrap (Fq lt) (Fq rt) (XQ.fin rp.1) true = _
      rw [h]; exact y2
    rw [y1', y2', ofGt_fin]
    simp only [decide_eq_false_iff_not, not_lt]
    exact hsame h
  · have hx : ofEq (Fq rp).x (Fq rt).x = false := by
      simp only [F_x, ofEq_fin, decide_eq_false_iff_not]; exact ne_of_gt h
    have e : minTotal (Fq rp).x (Fq rt).x = XQ.fin (min rp.1 rt.1) := minTotal_fin _ _
    rw [hx]
    simp only [Bool.false_eq_true, if_false]
    rw [e, min_eq_right (le_of_lt h), cmpAt_otherEnd_lt p rp lt rt hpr hlr h4 (le_of_lt h) (hgt h)]
    rfl

end Cav.GenVBridge
