/-
  Helper lemmas for `Thm/C09Accuracy`: accuracy of the nested K21 rule and of the adaptive 2-D
  routine on the exact class, for ANY number of inner and outer bisections (rational form; the
  bridge to Mathlib's interval integrals is made in the theorem file).

  * `gk1d_poly_accuracy_all`: `C01.gk1d_poly_accuracy_rat` with coincident bounds included;
  * `innerBound`: the accuracy bound of one inner integration;
  * `nested_poly_accuracy_rat`: one outer K21 panel — no hypothesis on how the inner runs stop;
  * `gk2d_poly_accuracy_rat`: the adaptive 2-D routine, through `Quad2D.gk2d_ok_tiling`.
-/
import Cav.Thm.C09

open Cav Num Cav.C01 Cav.Quad2D
namespace Cav.Acc2

theorem exactInt_same (cs : List Rat) (a : Rat) : exactInt cs a a = 0 := by
  simp [exactInt]

/-- accuracy of a successful 1-D run on a polynomial of degree ≤ 31 — coincident bounds included
    (then the routine returns `0`, which is the exact integral) -/
theorem gk1d_poly_accuracy_all (cs : List Rat) (hdeg : cs.length ≤ 32) (a b tol : Rat)
    (mi : Option Nat) (v e : Rat) (h : (gk1d (evalPoly cs) a b tol mi).res = .ok (v, e)) :
    |v - exactInt cs a b| ≤ |(b - a) / 2| * (1 / 10 ^ 16) * absPolyAt cs (max |a| |b|) := by
  by_cases hab : a = b
  · subst hab
    have hb : Num.beq a a = true := decide_eq_true rfl
    rw [(C10.gk1d_eq_bounds _ a a tol mi hb).1] at h
    injection h with h
    injection h with hv _
    rw [← hv, QuadTiling.zero_eq, exactInt_same]
    simp
  · exact gk1d_poly_accuracy_rat cs hdeg a b tol mi v e hab h

/-- the accuracy bound of the inner integration at the outer abscissa `x`:
    `|u(x) − l(x)|/2 · 1e-16 · Σ_k |cs(x)[k]|·max(|l(x)|,|u(x)|)^k` -/
def innerBound (cs : Rat → List Rat) (iAB : Rat → Rat × Rat) (x : Rat) : Rat :=
  |((iAB x).2 - (iAB x).1) / 2| * (1 / 10 ^ 16) *
    absPolyAt (cs x) (max |(iAB x).1| |(iAB x).2|)

theorem innerBound_nonneg (cs : Rat → List Rat) (iAB : Rat → Rat × Rat) (x : Rat) :
    0 ≤ innerBound cs iAB x := by
  unfold innerBound
  have : 0 ≤ absPolyAt (cs x) (max |(iAB x).1| |(iAB x).2|) :=
    absPolyAt_nonneg _ (le_trans (abs_nonneg (iAB x).1) (le_max_left _ _))
  positivity

/-- every inner value of a successful nested run is within `innerBound` of the exact inner
    integral — however the inner run got there -/
theorem innerVal_accuracy (f : Rat → Rat → Rat) (cs : Rat → List Rat) (a b : Rat)
    (iAB : Rat → Rat × Rat) (tol : Rat) (mi : Option Nat)
    (hf : ∀ x y, f x y = evalPoly (cs x) y) (hdy : ∀ x, (cs x).length ≤ 32) (node : Rat)
    (hok : IsOk (innerRes f a b iAB tol mi node)) :
    |(innerVal f a b iAB tol mi node).1 -
        exactInt (cs (denorm a b node)) (iAB (denorm a b node)).1 (iAB (denorm a b node)).2| ≤
      innerBound cs iAB (denorm a b node) := by
  obtain ⟨p, hp⟩ := hok
  have hv : innerVal f a b iAB tol mi node = p := by unfold innerVal; rw [hp]; rfl
  rw [hv]
  unfold innerRes at hp
  have hfun : (fun y => f (denorm a b node) y) = evalPoly (cs (denorm a b node)) :=
    funext (fun y => hf _ y)
  rw [hfun] at hp
  exact gk1d_poly_accuracy_all _ (hdy _) _ _ tol mi p.1 p.2 hp

/-- **one outer panel of any rule with non-negative weights, any inner runs** (rational form):
    the nested value differs from the exact iterated integral `exactInt Fs a b` by the outer
    rule's own error `D` on `Fs` plus the inner bounds weighted by the outer rule -/
theorem nested_poly_accuracy_rule (R : List (Rat × Rat)) (hw : ∀ nw ∈ R, 0 ≤ nw.2)
    (f : Rat → Rat → Rat) (cs : Rat → List Rat)
    (Fs : List Rat) (a b : Rat) (iAB : Rat → Rat × Rat) (tol : Rat) (mi : Option Nat) (ε D : Rat)
    (hf : ∀ x y, f x y = evalPoly (cs x) y) (hdy : ∀ x, (cs x).length ≤ 32)
    (hF : ∀ x, evalPoly Fs x = exactInt (cs x) (iAB x).1 (iAB x).2)
    (hD : |symRule (evalPoly Fs) a b R - exactInt Fs a b| ≤ D)
    (hε : ∀ node ∈ unitNodes R, innerBound cs iAB (denorm a b node) ≤ ε)
    (v e : Rat) (h : (nested f a b iAB tol mi R).res = .ok (v, e)) :
    |v - exactInt Fs a b| ≤ D + |(b - a) / 2| * (ε * unitRule (fun _ => 1) R) := by
  obtain ⟨hok, hv, _⟩ := (nested_res_ok_iff f a b iAB tol mi _ v e).mp h
  have hsym : symRule (evalPoly Fs) a b R =
      (b - a) / 2 * unitRule (fun node => evalPoly Fs (denorm a b node)) R := by
    simp only [symRule, QuadTiling.two_eq]
  have hsplit : v - exactInt Fs a b =
      (b - a) / 2 * unitRule (fun node =>
        (innerVal f a b iAB tol mi node).1 - evalPoly Fs (denorm a b node)) R +
      (symRule (evalPoly Fs) a b R - exactInt Fs a b) := by
    rw [unitRule_sub, hsym, hv]; ring
  rw [hsplit, add_comm]
  refine le_trans (abs_add_le _ _) (add_le_add hD ?_)
  rw [abs_mul]
  refine mul_le_mul_of_nonneg_left ?_ (abs_nonneg _)
  apply unitRule_abs_le _ ε _ hw
  intro node hnode
  rw [hF]
  exact le_trans (innerVal_accuracy f cs a b iAB tol mi hf hdy node (hok node hnode))
    (hε node hnode)

/-- **one outer K21 panel, any inner runs** (rational form): the nested K21 value differs from
    the exact iterated integral `exactInt Fs a b` by the outer table defect plus the inner bounds
    weighted by the outer rule -/
theorem nested_poly_accuracy_rat (f : Rat → Rat → Rat) (cs : Rat → List Rat)
    (Fs : List Rat) (a b : Rat) (iAB : Rat → Rat × Rat) (tol : Rat) (mi : Option Nat) (ε : Rat)
    (hf : ∀ x y, f x y = evalPoly (cs x) y) (hdy : ∀ x, (cs x).length ≤ 32)
    (hF : ∀ x, evalPoly Fs x = exactInt (cs x) (iAB x).1 (iAB x).2)
    (hdx : Fs.length ≤ 32)
    (hε : ∀ node ∈ unitNodes (Gen.k21 : List (Rat × Rat)),
      innerBound cs iAB (denorm a b node) ≤ ε)
    (v e : Rat) (h : (nested f a b iAB tol mi Gen.k21).res = .ok (v, e)) :
    |v - exactInt Fs a b| ≤
      |(b - a) / 2| * (1 / 10 ^ 16) * absPolyAt Fs (max |a| |b|) +
        |(b - a) / 2| * (ε * unitRule (fun _ => 1) Gen.k21) :=
  nested_poly_accuracy_rule Gen.k21 k21_weights_nonneg f cs Fs a b iAB tol mi ε _ hf hdy hF
    (panel_poly_error_rat Fs hdx a b) hε v e h

/-! ### the abscissae of a panel lie strictly inside it -/

theorem k21_unitNodes_in_unit :
    ∀ x ∈ unitNodes (Gen.k21 : List (Rat × Rat)), -1 < x ∧ x < 1 := by
  decide +kernel

theorem g10_unitNodes_in_unit :
    ∀ x ∈ unitNodes (Gen.g10 : List (Rat × Rat)), -1 < x ∧ x < 1 := by
  decide +kernel

theorem denorm_between (p q x : Rat) (hx : -1 < x ∧ x < 1) :
    (p < q → p < denorm p q x ∧ denorm p q x < q) ∧
    (q < p → q < denorm p q x ∧ denorm p q x < p) := by
  have h1 : denorm p q x - p = (q - p) / 2 * (1 + x) := by rw [denorm_eq]; ring
  have h2 : q - denorm p q x = (q - p) / 2 * (1 - x) := by rw [denorm_eq]; ring
  have hx1 : 0 < 1 + x := by linarith [hx.1]
  have hx2 : 0 < 1 - x := by linarith [hx.2]
  constructor
  · intro hpq
    have h : 0 < (q - p) / 2 := by linarith
    have := mul_pos h hx1
    have := mul_pos h hx2
    constructor <;> linarith
  · intro hpq
    have h : 0 < (p - q) / 2 := by linarith
    have h3 := mul_pos h hx1
    have h4 := mul_pos h hx2
    constructor <;> nlinarith

/-- the abscissae of a piece of a directed chain from `a` to `b` lie in the hull of `a, b` -/
theorem denorm_mem_hull {a b : Rat} {L : List (Rat × Rat)} (hc : C02.IsChain a b L)
    (hd : C02.Directed a b L) (hab : a ≠ b) (p : Rat × Rat) (hp : p ∈ L) (x : Rat)
    (hx : -1 < x ∧ x < 1) :
    min a b ≤ denorm p.1 p.2 x ∧ denorm p.1 p.2 x ≤ max a b := by
  rcases chain_piece_bounds hc hd hab p hp with ⟨hlt, h1, h2, h3⟩ | ⟨hlt, h1, h2, h3⟩
  · obtain ⟨h4, h5⟩ := (denorm_between p.1 p.2 x hx).1 h2
    rw [min_eq_left hlt.le, max_eq_right hlt.le]
    constructor <;> linarith
  · obtain ⟨h4, h5⟩ := (denorm_between p.1 p.2 x hx).2 h2
    rw [min_eq_right hlt.le, max_eq_left hlt.le]
    constructor <;> linarith

/-! ### the adaptive 2-D routine -/

/-- the value of a successful `gkApprox2` is the value of its nested K21 run -/
theorem approx2_is_nested_k21 (f : Rat → Rat → Rat) (iAB : Rat → Rat × Rat) (tol : Rat)
    (mi : Option Nat) (a b : Rat)
    (h : (gkApprox2 f iAB tol mi a b).1 = .ok (approx2 f iAB tol mi a b)) :
    ∃ e, (nested f a b iAB (tol / 2) mi Gen.k21).res = .ok ((approx2 f iAB tol mi a b).1, e) := by
  obtain ⟨li, ki, _, hk, hv, _⟩ := (gkApprox2_ok_iff f iAB tol mi a b _ _).mp h
  have hv' : (approx2 f iAB tol mi a b).1 = ki.1 := hv
  exact ⟨ki.2, by rw [hk, hv']⟩

/-- **the 2-D routine on its exact class, any outer and inner bisections** (rational form).
    `ε` bounds the inner accuracy bound on the hull of the outer bounds. -/
theorem gk2d_poly_accuracy_rat (f : Rat → Rat → Rat) (cs : Rat → List Rat)
    (Fs : List Rat) (a b : Rat) (iAB : Rat → Rat × Rat) (tol : Rat) (mi : Option Nat) (ε : Rat)
    (hf : ∀ x y, f x y = evalPoly (cs x) y) (hdy : ∀ x, (cs x).length ≤ 32)
    (hF : ∀ x, evalPoly Fs x = exactInt (cs x) (iAB x).1 (iAB x).2)
    (hdx : Fs.length ≤ 32) (hab : a ≠ b)
    (hε : ∀ x, min a b ≤ x → x ≤ max a b → innerBound cs iAB x ≤ ε)
    (v e : Rat) (h : (gk2d f a b iAB tol mi).res = .ok (v, e)) :
    |v - exactInt Fs a b| ≤
      |(b - a) / 2| * (1 / 10 ^ 16) * absPolyAt Fs (max |a| |b|) +
        |(b - a) / 2| * (ε * (2 + 1 / 10 ^ 16)) := by
  obtain ⟨L, hc, hd, hok, hv, _, _⟩ := gk2d_ok_tiling f a b iAB tol mi v e hab h
  have hε0 : 0 ≤ ε :=
    le_trans (innerBound_nonneg cs iAB a) (hε a (min_le_left _ _) (le_max_left _ _))
  have hR : (0 : Rat) ≤ max |a| |b| := le_trans (abs_nonneg a) (le_max_left _ _)
  have hA := absPolyAt_nonneg Fs hR
  set W : Rat := unitRule (fun _ => (1 : Rat)) Gen.k21 with hW
  have hW2 : W ≤ 2 + 1 / 10 ^ 16 := C09.k21_weight_sum_le
  have hW0 : 0 ≤ W := unitRule_nonneg _ _ k21_weights_nonneg (fun _ => zero_le_one)
  -- per-panel bound
  have hpanel : ∀ p ∈ L, |(approx2 f iAB tol mi p.1 p.2).1 - exactInt Fs p.1 p.2| ≤
      ((1 / 10 ^ 16 * absPolyAt Fs (max |a| |b|) + ε * W) / 2) * |p.2 - p.1| := by
    intro p hp
    obtain ⟨e', hn⟩ := approx2_is_nested_k21 f iAB tol mi p.1 p.2 (hok p hp)
    have h1 := nested_poly_accuracy_rat f cs Fs p.1 p.2 iAB (tol / 2) mi ε hf hdy hF hdx
      (fun node hnode => by
        obtain ⟨h1, h2⟩ := denorm_mem_hull hc hd hab p hp node (k21_unitNodes_in_unit node hnode)
        exact hε _ h1 h2) _ _ hn
    refine le_trans h1 ?_
    have hmono : absPolyAt Fs (max |p.1| |p.2|) ≤ absPolyAt Fs (max |a| |b|) :=
      absPolyAt_mono Fs (le_trans (abs_nonneg p.1) (le_max_left _ _))
        (chain_piece_abs_le hc hd hab p hp)
    have hnn : (0 : Rat) ≤ |(p.2 - p.1) / 2| * (1 / 10 ^ 16) := by positivity
    have := mul_le_mul_of_nonneg_left hmono hnn
    rw [abs_div, abs_two] at this ⊢
    linarith
  rw [hv, ← C02.chain_additive (exactInt Fs) (exactInt_adjacent Fs) a b L hc]
  refine le_trans (abs_sum_sub_sum_le L _ _ _ hpanel) ?_
  rw [List.sum_map_mul_left, chain_abs_length_sum hc hd hab, abs_div, abs_two]
  have h3 : ε * W ≤ ε * (2 + 1 / 10 ^ 16) := mul_le_mul_of_nonneg_left hW2 hε0
  have h4 := mul_le_mul_of_nonneg_left h3 (abs_nonneg (b - a))
  linarith

/-- coincident outer bounds: `(0, 0)`, and the exact integral is `0` -/
theorem gk2d_same (f : Rat → Rat → Rat) (a : Rat) (iAB : Rat → Rat × Rat) (tol : Rat)
    (mi : Option Nat) : (gk2d f a a iAB tol mi).res = .ok (0, 0) := by
  have hb : Num.beq a a = true := decide_eq_true rfl
  simp only [gk2d, hb, if_true, QuadTiling.zero_eq]

end Cav.Acc2
