/-
  Concrete runs used by the `example`s of `Thm/C11Roots` (non-vacuity of the hypotheses).
  All facts are checked by kernel evaluation of the models over `Rat` (`decide +kernel`: kernel
  reduction only, no compiler).

    g(x) = 2x³ + x²/2 − x,   g'(x) = 6x² + x − 1 = (3x − 1)(2x + 1),   zeros 1/3 and −1/2
    Cavalieri form: f(x) = x, c(y) = 2y³ + y²/2, so x − c(f(x)) + c(0) has derivative −g'.
-/
import Cav.Lemmas.AccAD
import Cav.Lemmas.DispExamples
import Cav.Thm.C13Split

namespace Cav.C11Roots
open Cav Num Gen Cav.C01 Cav.C07Accuracy Cav.SplitL Cav.C13Split Cav.DispEx

/-- `g = 2x³ + x²/2 − x` -/
def exG : List Rat := [0, -1, 1 / 2, 2]
/-- `g' = 6x² + x − 1` -/
def exG' : List Rat := [-1, 1, 6]
/-- `f = x` -/
def exId : List Rat := [0, 1]
/-- `c = 2y³ + y²/2` -/
def exC : List Rat := [0, 0, 1 / 2, 2]
/-- `f = x²/2 − 7x/20`, `f' = x − 7/20` (zero at `0.35`, close to the zero `1/3` of `g'`) -/
def exF : List Rat := [0, -7 / 20, 1 / 2]
/-- `xRes = 4` (grid `[-1, -1/2, 0, 1/2, 1]` on `[-1, 1]`), tolerance `1/10`, integration off -/
def cfgRoots : Cfg2D Rat := ⟨false, 4, 2, 1, 20, 20, 1 / 10⟩

theorem exG'_eq : derivCoeffs exG = exG' := by decide +kernel
theorem exCav'_eq : cavGDerivCoeffs exId exC = [1, -1, -6] := by decide +kernel
theorem exF'_eq : derivCoeffs exF = [-7 / 20, 1] := by decide +kernel

/-- Brent on `[0, 1]`, `tol = 1/100` -/
theorem brent_run :
    findRootBrent (0 : Rat) 1 (evalPoly exG') (1 / 100) 50 = .ok (31498240209013 / 94088637952351) := by
  decide +kernel

/-- Brent on `[0, 1]`, `tol = 1/10` -/
theorem brent_run_coarse :
    findRootBrent (0 : Rat) 1 (evalPoly exG') (1 / 10) 50 = .ok (1597 / 5005) := by
  decide +kernel

theorem grid_eq : vecFromRes (-1 : Rat) 1 4 = [-1, -1 / 2, 0, 1 / 2, 1] := by decide +kernel

theorem cellHyp_run : CellHyp (vecFromRes (-1 : Rat) 1 4) (1 / 10) := by decide +kernel

/-- the grid point `−1/2` is an exact zero of `g'` (recorded as such), `1/3` is found by Brent -/
theorem split_run :
    splitStrictlyMonotone (adPoly exG) (vecFromRes (-1) 1 4) (1 / 10) 20 = .ok [-1 / 2, 79 / 220] := by
  decide +kernel

theorem split_run_fine :
    splitStrictlyMonotone (adPoly exG) [-1, -3 / 4, -1 / 4, 0, 1 / 4, 3 / 4, 1] (1 / 100) 50 =
      .ok [-10334933164937 / 20671302440920, 93157 / 277816] := by
  decide +kernel

theorem cellHyp_run_fine : CellHyp [-1, -3 / 4, -1 / 4, 0, 1 / 4, 3 / 4, 1] (1 / 100) := by
  decide +kernel

theorem cav_split_run :
    splitStrictlyMonotone (cavG (adPoly exId) (adPoly exC) 0) (vecFromRes (-1) 1 4) (1 / 10) 20 =
      .ok [-1 / 2, 79 / 220] := by
  decide +kernel

theorem cav_roots_ends :
    ends (genDisplayCav (adPoly exId) (adPoly exC) [(-1, 1)] cfgRoots) =
      some [(-1, -1 / 2), (-1 / 2, 79 / 220), (79 / 220, 1)] := by
  decide +kernel

/-- RS display: the split points `7/20` of `f` and `79/220` of `g` are merged into their mean -/
theorem rs_roots_ends :
    ends (genDisplayRs (adPoly exF) (adPoly exG) [(-1, 1)] cfgRoots) =
      some [(-1, -1 / 2), (-1 / 2, 39 / 110), (39 / 110, 1)] := by
  decide +kernel

theorem rs_split_runs :
    splitStrictlyMonotone (adPoly exF) (vecFromRes (-1) 1 4) (1 / 10) 20 = .ok [7 / 20] ∧
    splitTranslational (adPoly exF) (adPoly exG) (vecFromRes (-1) 1 4) (1 / 10) 20 =
      .ok [-1 / 2, 39 / 110] := by
  decide +kernel

end Cav.C11Roots
