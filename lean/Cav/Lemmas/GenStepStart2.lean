/-
  General sweep invariant, part 21: from the flat active list to the heap for the Start event —
  the split of the list of in-intervals at the new vertex, the geometry functions of the stored
  edges, and the comparisons the model performs.
-/
import Cav.Lemmas.GenStepStart
import Cav.Lemmas.GenStepEnd2
import Cav.Lemmas.GenStart4

set_option linter.unusedSimpArgs false
set_option linter.unusedVariables false

namespace Cav.GenStepStart
open Cav Num Cav.Geo Cav.Sweep Cav.TriRun Cav.QuadRun Cav.QuadGeom Cav.CvxFlows Cav.SweepOut
open Cav.GenNodes Cav.GenQuery Cav.GenGeom Cav.GenBend Cav.GenInv Cav.GenQueue Cav.GenOrder
open Cav.GenLinks Cav.GenStepBend Cav.GenStepEnd Cav.GenStart

variable {R : RingQ} {V : Array (Vtx XQ)}

/-- a split of the flat active list is a split between two in-intervals or inside one -/
theorem flat_split : ∀ (ivs : List IV) (P Q : List AE), flatE ivs = P ++ Q →
    (∃ pre post, ivs = pre ++ post ∧ P = flatE pre ∧ Q = flatE post) ∨
    (∃ pre iv post, ivs = pre ++ iv :: post ∧ P = flatE pre ++ [iv.lo] ∧ Q = iv.hi :: flatE post)
  | [], P, Q, h => by
    simp only [flatE_nil] at h
    have := List.append_eq_nil_iff.mp h.symm
    exact Or.inl ⟨[], [], rfl, this.1, this.2⟩
  | iv :: r, P, Q, h => by
    rw [flatE_cons] at h
    match P, h with
    | [], h => exact Or.inl ⟨[], iv :: r, rfl, rfl, by simpa using h.symm⟩
    | [x], h =>
      simp only [List.cons_append, List.nil_append, List.cons.injEq] at h
      obtain ⟨rfl, rfl⟩ := h
      exact Or.inr ⟨[], iv, r, rfl, rfl, rfl⟩
    | x :: y :: P', h =>
      simp only [List.cons_append, List.cons.injEq] at h
      obtain ⟨rfl, rfl, h⟩ := h
      rcases flat_split r P' Q h with ⟨pre, post, e1, e2, e3⟩ | ⟨pre, iv', post, e1, e2, e3⟩
      · exact Or.inl ⟨iv :: pre, post, by rw [e1]; rfl, by rw [e2]; rfl, e3⟩
      · exact Or.inr ⟨iv :: pre, iv', post, by rw [e1]; rfl, by rw [e2]; rfl, e3⟩

/-- left point of the stored edge `k` (as listed in `E`) -/
def Lf (R : RingQ) (E : List AE) (k : Nat) : Pt XQ :=
  match E.find? (fun a => a.id == k) with
  | some a => Fq (R.pt a.lv)
  | none => Fq (0, 0)

def Rf (R : RingQ) (E : List AE) (k : Nat) : Pt XQ :=
  match E.find? (fun a => a.id == k) with
  | some a => Fq (R.pt a.rv)
  | none => Fq (0, 0)

theorem find_id {E : List AE} (hid : ∀ a ∈ E, ∀ b ∈ E, a.id = b.id → a = b) {a : AE} (ha : a ∈ E) :
    E.find? (fun b => b.id == a.id) = some a := by
  cases h : E.find? (fun b => b.id == a.id) with
  | none =>
    have := List.find?_eq_none.mp h a ha
    simp at this
  | some b =>
    have hb := List.mem_of_find?_eq_some h
    have he := List.find?_some h
    simp only [beq_iff_eq] at he
    rw [hid b hb a ha he]

theorem Lf_id {E : List AE} (hid : ∀ a ∈ E, ∀ b ∈ E, a.id = b.id → a = b) {a : AE} (ha : a ∈ E) :
    Lf R E a.id = Fq (R.pt a.lv) := by
  unfold Lf; rw [find_id hid ha]

theorem Rf_id {E : List AE} (hid : ∀ a ∈ E, ∀ b ∈ E, a.id = b.id → a = b) {a : AE} (ha : a ∈ E) :
    Rf R E a.id = Fq (R.pt a.rv) := by
  unfold Rf; rw [find_id hid ha]


theorem ids_getLast (pre : List IV) : ((flatE pre).map (·.id)).getLast? = lastHi pre none := by
  rcases lastHi_cases pre none with ⟨rfl, e⟩ | ⟨l', iv, rfl, e⟩
  · rfl
  · rw [e]; simp

theorem ids_head (post : List IV) : ((flatE post).map (·.id)).head? = nxtLo post none := by
  cases post <;> rfl

/-- the comparisons of the model during a Start event, in terms of the stored ids -/
theorem start_tests {P Q : List AE} (hid : ∀ a ∈ P ++ Q, ∀ b ∈ P ++ Q, a.id = b.id → a = b)
    {x0 : Rat} {nB nT : AE} (hSp : ∀ a ∈ P ++ nB :: nT :: Q, Span R x0 a)
    (hPw : (P ++ nB :: nT :: Q).Pairwise (Below R x0)) :
    (∀ k ∈ P.map (·.id), cmpEdgeP (Fq (R.pt nB.lv)) (Fq (R.pt nB.rv)) (Lf R (P ++ Q) k) (Rf R (P ++ Q) k)
      (.fin x0) = .gt) ∧
    (∀ k ∈ Q.map (·.id), cmpEdgeP (Fq (R.pt nB.lv)) (Fq (R.pt nB.rv)) (Lf R (P ++ Q) k) (Rf R (P ++ Q) k)
      (.fin x0) = .lt) ∧
    (∀ k ∈ P.map (·.id), cmpEdgeP (Fq (R.pt nT.lv)) (Fq (R.pt nT.rv)) (Lf R (P ++ Q) k) (Rf R (P ++ Q) k)
      (.fin x0) = .gt) ∧
    (∀ k ∈ Q.map (·.id), cmpEdgeP (Fq (R.pt nT.lv)) (Fq (R.pt nT.rv)) (Lf R (P ++ Q) k) (Rf R (P ++ Q) k)
      (.fin x0) = .lt) ∧
    ((P ++ Q).map (·.id)).Pairwise (CmpLt (Lf R (P ++ Q)) (Rf R (P ++ Q)) (.fin x0)) ∧
    cmpEdgeP (Fq (R.pt nB.lv)) (Fq (R.pt nB.rv)) (Fq (R.pt nT.lv)) (Fq (R.pt nT.rv)) (.fin x0) = .lt ∧
    cmpEdgeP (Fq (R.pt nT.lv)) (Fq (R.pt nT.rv)) (Fq (R.pt nB.lv)) (Fq (R.pt nB.rv)) (.fin x0) = .gt := by
  have hnB : Span R x0 nB := hSp nB (by simp)
  have hnT : Span R x0 nT := hSp nT (by simp)
  have hSP : ∀ a ∈ P, Span R x0 a := fun a ha => hSp a (List.mem_append_left _ ha)
  have hSQ : ∀ a ∈ Q, Span R x0 a := fun a ha =>
    hSp a (List.mem_append_right _ (List.mem_cons_of_mem _ (List.mem_cons_of_mem _ ha)))
  rw [List.pairwise_append] at hPw
  obtain ⟨hPP, hmid, hPX⟩ := hPw
  rw [List.pairwise_cons, List.pairwise_cons] at hmid
  obtain ⟨hB, hT, hQQ⟩ := hmid
  refine ⟨?_, ?_, ?_, ?_, ?_, ?_, ?_⟩
  · intro k hk
    obtain ⟨a, ha, rfl⟩ := List.mem_map.mp hk
    rw [Lf_id hid (List.mem_append_left _ ha), Rf_id hid (List.mem_append_left _ ha)]
    exact (cmp_of_below (hSP a ha) hnB (hPX a ha nB List.mem_cons_self)).2
  · intro k hk
    obtain ⟨a, ha, rfl⟩ := List.mem_map.mp hk
    rw [Lf_id hid (List.mem_append_right _ ha), Rf_id hid (List.mem_append_right _ ha)]
    exact (cmp_of_below hnB (hSQ a ha) (hB a (List.mem_cons_of_mem _ ha))).1
  · intro k hk
    obtain ⟨a, ha, rfl⟩ := List.mem_map.mp hk
    rw [Lf_id hid (List.mem_append_left _ ha), Rf_id hid (List.mem_append_left _ ha)]
    exact (cmp_of_below (hSP a ha) hnT (hPX a ha nT (List.mem_cons_of_mem _ List.mem_cons_self))).2
  · intro k hk
    obtain ⟨a, ha, rfl⟩ := List.mem_map.mp hk
    rw [Lf_id hid (List.mem_append_right _ ha), Rf_id hid (List.mem_append_right _ ha)]
    exact (cmp_of_below hnT (hSQ a ha) (hT a ha)).1
  · rw [List.pairwise_map]
    have hall : (P ++ Q).Pairwise (Below R x0) := by
      rw [List.pairwise_append]
      exact ⟨hPP, hQQ, fun a ha b hb =>
        hPX a ha b (List.mem_cons_of_mem _ (List.mem_cons_of_mem _ hb))⟩
    refine hall.imp_of_mem ?_
    intro a b ha hb hab
    have sa : Span R x0 a := by
      rcases List.mem_append.mp ha with h | h
      · exact hSP a h
      · exact hSQ a h
    have sb : Span R x0 b := by
      rcases List.mem_append.mp hb with h | h
      · exact hSP b h
      · exact hSQ b h
    show _ ∧ _
    rw [Lf_id hid ha, Rf_id hid ha, Lf_id hid hb, Rf_id hid hb]
    exact cmp_of_below sa sb hab
  · exact (cmp_of_below hnB hnT (hB nT List.mem_cons_self)).1
  · exact (cmp_of_below hnB hnT (hB nT List.mem_cons_self)).2

/-- the stored geometry of the active edges, by ids -/
theorem ids_eg {s : St XQ} {ivs : List IV} (hl : Linked s R none ivs none)
    (hid : ∀ a ∈ flatE ivs, ∀ b ∈ flatE ivs, a.id = b.id → a = b) :
    ∀ k ∈ (flatE ivs).map (·.id), EG s k (Lf R (flatE ivs) k) (Rf R (flatE ivs) k) := by
  intro k hk
  obtain ⟨a, ha, rfl⟩ := List.mem_map.mp hk
  rw [Lf_id hid ha, Rf_id hid ha]
  exact Linked.eg hl a ha

end Cav.GenStepStart
