/-
  Rejection of crossing input, part 10: from a proper crossing of two ring edges without a common
  vertex (`HasCrossing`, orientation determinants) to the meeting point used by the loop lemma,
  and the run of the whole model: set-up, initial `XInv`, event loop.
-/
import Cav.Lemmas.GenXLoop
import Cav.Lemmas.GenAccept

set_option linter.unusedSimpArgs false
set_option linter.unusedVariables false

namespace Cav.GenXMain
open Cav Num Cav.Geo Cav.Sweep Cav.SweepRun Cav.TriRun Cav.QuadRun Cav.QuadGeom Cav.TriEvents
open Cav.SweepSetup Cav.GenGeom Cav.GenInv Cav.GenQueue Cav.GenRing Cav.GenSetup Cav.GenLoop
open Cav.GenAccept Cav.GenValid Cav.GenXGeom Cav.GenXStep Cav.GenXLoop Cav.GenStepBend

variable {R : RingQ} {V : Array (Vtx XQ)}

/-- two ring edges without a common vertex cross properly -/
def HasCrossing (R : RingQ) : Prop :=
  ∃ i, i < R.n ∧ ∃ j, j < R.n ∧ (i ≠ j ∧ R.nxt i ≠ j ∧ R.nxt j ≠ i ∧
    QuadCases.Cross (R.pt i) (R.pt (R.nxt i)) (R.pt j) (R.pt (R.nxt j)))

instance (R : RingQ) : Decidable (HasCrossing R) := by unfold HasCrossing; exact inferInstance

theorem cross_swapL {a b c d : Q} (h : QuadCases.Cross a b c d) : QuadCases.Cross b a c d := by
  obtain ⟨h1, h2⟩ := h
  refine ⟨?_, ?_⟩
  · have e1 : orient b a c = - orient a b c := by unfold orient; ring
    have e2 : orient b a d = - orient a b d := by unfold orient; ring
    rw [e1, e2]; linarith
  · linarith [mul_comm (orient c d a) (orient c d b)]

theorem cross_swapR {a b c d : Q} (h : QuadCases.Cross a b c d) : QuadCases.Cross a b d c :=
  (cross_swapL h.symm).symm

/-- the ring edge `(i, nxt i)` from left to right -/
theorem orient_edge (hR : RingOK R V) {i : Nat} (hi : i < R.n) :
    ∃ u v, u < R.n ∧ v < R.n ∧ Adj R u v ∧ R.x u < R.x v ∧
      ((u = i ∧ v = R.nxt i) ∨ (u = R.nxt i ∧ v = i)) := by
  have hn := hR.nxt_lt i hi
  have hne : R.x (R.nxt i) ≠ R.x i := by
    intro e
    have e' := hR.distinct _ _ hn hi e
    have h1 := hR.prv_nxt i hi
    rw [e'] at h1
    exact hR.ne i hi (h1.trans e'.symm)
  rcases lt_or_gt_of_ne hne with h | h
  · exact ⟨R.nxt i, i, hn, hi, Or.inr (hR.prv_nxt i hi), h, Or.inr ⟨rfl, rfl⟩⟩
  · exact ⟨i, R.nxt i, hi, hn, Or.inl rfl, h, Or.inl ⟨rfl, rfl⟩⟩

/-- a proper crossing gives a meeting point strictly inside both abscissa ranges -/
theorem meetAt_of_crossing (hR : RingOK R V) (hC : HasCrossing R) :
    ∃ u v u' v' x, MeetAt R u v u' v' x := by
  obtain ⟨i, hi, j, hj, h1, h2, h3, hc⟩ := hC
  have h4 : R.nxt i ≠ R.nxt j := by
    intro e
    have := congrArg R.prv e
    rw [hR.prv_nxt i hi, hR.prv_nxt j hj] at this
    exact h1 this
  obtain ⟨u, v, hu, hv, hadj, hlt, hcase⟩ := orient_edge hR hi
  obtain ⟨u', v', hu', hv', hadj', hlt', hcase'⟩ := orient_edge hR hj
  have hcross : QuadCases.Cross (R.pt u) (R.pt v) (R.pt u') (R.pt v') := by
    rcases hcase with ⟨rfl, rfl⟩ | ⟨rfl, rfl⟩ <;> rcases hcase' with ⟨rfl, rfl⟩ | ⟨rfl, rfl⟩
    · exact hc
    · exact cross_swapR hc
    · exact cross_swapL hc
    · exact cross_swapR (cross_swapL hc)
  obtain ⟨x, a1, a2, a3, a4, heq⟩ := cross_meet _ _ _ _ hlt hlt' hcross
  refine ⟨u, v, u', v', x, hu, hv, hu', hv', hadj, hadj', ?_, ?_, ?_, ?_, a1, a2, a3, a4, heq⟩
  · rcases hcase with ⟨rfl, rfl⟩ | ⟨rfl, rfl⟩ <;> rcases hcase' with ⟨rfl, rfl⟩ | ⟨rfl, rfl⟩
    · exact h1
    · exact Ne.symm h3
    · exact h2
    · exact h4
  · rcases hcase with ⟨rfl, rfl⟩ | ⟨rfl, rfl⟩ <;> rcases hcase' with ⟨rfl, rfl⟩ | ⟨rfl, rfl⟩
    · exact Ne.symm h3
    · exact h1
    · exact h4
    · exact h2
  · rcases hcase with ⟨rfl, rfl⟩ | ⟨rfl, rfl⟩ <;> rcases hcase' with ⟨rfl, rfl⟩ | ⟨rfl, rfl⟩
    · exact h2
    · exact h4
    · exact h1
    · exact Ne.symm h3
  · rcases hcase with ⟨rfl, rfl⟩ | ⟨rfl, rfl⟩ <;> rcases hcase' with ⟨rfl, rfl⟩ | ⟨rfl, rfl⟩
    · exact h4
    · exact h2
    · exact Ne.symm h3
    · exact h1

/-- the results of `sweep` and `sweepMon` when the event loop fails after the set-up phase -/
theorem sweep_of_loop_error {polys : List (Array (Pt XQ))} {seen : List (Pt XQ)} {s1 : St XQ}
    {e : SErr XQ}
    (hset : (forIn polys ([] : List (Pt XQ)) polyBody).run (initSt : St XQ) = .ok (seen, s1))
    (hl : (loop (s1.verts.size + 1)).run s1 = .error e) :
    sweep polys = .error e ∧ sweepMon polys = .error e := by
  constructor
  · unfold sweep
    rw [run_eq, hset]
    simp only [hl]
  · unfold sweepMon
    rw [run_eq, hset]
    simp only [hl]

/-- **a polygon list in general position with two ring edges that meet strictly inside their
    abscissa ranges is rejected with `.overlap`**, at an input vertex strictly to the left of the
    meeting point -/
theorem rejected_of_meet (polys : List (Array Q)) (h3 : ∀ p ∈ polys, 3 ≤ p.size)
    (hx : ((polys.flatMap Array.toList).map (·.1)).Nodup)
    (hS : NoSpike (ringOf polys)) (hT : NoTouch (ringOf polys))
    {u v u' v' : Nat} {xm : Rat} (hM : MeetAt (ringOf polys) u v u' v' xm) :
    ∃ k z, z < (ringOf polys).n ∧ (ringOf polys).x z < xm ∧
      sweep (polys.map (fun p => p.map Fq)) = .error (.overlap k (Fq ((ringOf polys).pt z))) ∧
      sweepMon (polys.map (fun p => p.map Fq)) = .error (.overlap k (Fq ((ringOf polys).pt z))) := by
  have hR := ringOK polys h3 hx
  obtain ⟨seen, evs, hset, hE⟩ := setup_all polys h3 hx
  obtain ⟨xs, hxs⟩ := exists_lt_all ((List.range (ringOf polys).n).map (ringOf polys).x)
  have hxs' : ∀ v, v < (ringOf polys).n → xs < (ringOf polys).x v :=
    fun v hv => hxs _ (List.mem_map.mpr ⟨v, List.mem_range.mpr hv, rfl⟩)
  have hI : Inv (ringOf polys) (stQ (vertsOf (cellsAll 0 polys)) evs) xs [] := inv_init hR hE hxs'
  have hX : XInv (ringOf polys) (stQ (vertsOf (cellsAll 0 polys)) evs) xs [] := ⟨hI, trivial⟩
  obtain ⟨k, z, hz, hzx, hl⟩ := xloop hS hT hM ((ringOf polys).n + 1) _ xs [] hX
    (Nat.lt_succ_of_le (meas_le xs)) (lt_trans (hxs' u hM.hu) hM.l1)
  have hsz : (stQ (vertsOf (cellsAll 0 polys)) evs).verts.size = (ringOf polys).n := hR.size
  rw [← hsz] at hl
  obtain ⟨r1, r2⟩ := sweep_of_loop_error hset hl
  exact ⟨k, z, hz, hzx, r1, r2⟩

end Cav.GenXMain
