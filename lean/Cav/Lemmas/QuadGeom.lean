/-
  The pure geometric tests of the sweep model on finite points, expressed through orientation
  determinants: heights of edges (`lineY`), the edge comparators `cmpEdgeP`, `cmpAtP`,
  `partialCmpEdgeP` in the five configurations that occur for a quadrilateral in general
  position, gradients at a common right end point, and the clockwise test.
-/
import Cav.Lemmas.TriGeom
import Cav.Lemmas.QuadRun

set_option linter.unusedSimpArgs false
set_option linter.unusedVariables false

namespace Cav.QuadGeom
open Cav Num Cav.Geo Cav.Sweep Cav.TriRun Cav.QuadRun Cav.TriGeom

/-- a finite point from a rational pair -/
abbrev Fq (q : Rat × Rat) : Pt XQ := F q.1 q.2

/-- height of the line through `a` and `b` at abscissa `x` (the interpolation of `yExtrap`) -/
def lineY (a b : Rat × Rat) (x : Rat) : Rat :=
  (1 - (x - a.1) / (b.1 - a.1)) * a.2 + (x - a.1) / (b.1 - a.1) * b.2

/-- slope of the line through `a` and `b` -/
def slope (a b : Rat × Rat) : Rat := (b.2 - a.2) / (b.1 - a.1)

theorem lineY_left (a b : Rat × Rat) : lineY a b a.1 = a.2 := by
  unfold lineY; simp

theorem lineY_right (a b : Rat × Rat) (h : a.1 < b.1) : lineY a b b.1 = b.2 := by
  unfold lineY
  have : b.1 - a.1 ≠ 0 := ne_of_gt (sub_pos.mpr h)
  field_simp
  ring

theorem yE_in (a b : Rat × Rat) (x : Rat) (h : a.1 < b.1) (h1 : a.1 ≤ x) (h2 : x ≤ b.1) :
    yExtrap (Fq a) (Fq b) (.fin x) true = .fin (lineY a b x) := by
  rcases lt_or_eq_of_le h1 with h1 | h1
  · rcases lt_or_eq_of_le h2 with h2 | h2
    · exact yE_mid a.1 a.2 b.1 b.2 x h1 h2
    · subst h2
      rw [lineY_right a b h]
      exact yE_right a.1 a.2 b.1 b.2 (Or.inl h)
  · subst h1
    rw [lineY_left]
    exact yE_left a.1 a.2 b.1 b.2 h

theorem grad_eq_slope (a b : Rat × Rat) (h : a.1 < b.1) : (Fq a).grad (Fq b) = .fin (slope a b) :=
  grad_fin_ne a.1 a.2 b.1 b.2 (ne_of_gt h)

/-- a point against a line -/
theorem pt_sub_lineY (a b s : Rat × Rat) (h : a.1 < b.1) :
    s.2 - lineY a b s.1 = orient a b s / (b.1 - a.1) := by
  have : b.1 - a.1 ≠ 0 := ne_of_gt (sub_pos.mpr h)
  unfold lineY orient
  field_simp
  ring

/-- two lines through the same left point -/
theorem lineY_sub_sameL (a b d : Rat × Rat) (x : Rat) (h1 : a.1 < b.1) (h2 : a.1 < d.1) :
    lineY a d x - lineY a b x = (x - a.1) * orient a b d / ((b.1 - a.1) * (d.1 - a.1)) := by
  have e1 : b.1 - a.1 ≠ 0 := ne_of_gt (sub_pos.mpr h1)
  have e2 : d.1 - a.1 ≠ 0 := ne_of_gt (sub_pos.mpr h2)
  unfold lineY orient
  field_simp
  ring

/-- two lines through the same right point -/
theorem lineY_sub_sameR (a c d : Rat × Rat) (x : Rat) (h1 : a.1 < d.1) (h2 : c.1 < d.1) :
    lineY c d x - lineY a d x = - ((d.1 - x) * orient a c d / ((d.1 - a.1) * (d.1 - c.1))) := by
  have e1 : d.1 - a.1 ≠ 0 := ne_of_gt (sub_pos.mpr h1)
  have e2 : d.1 - c.1 ≠ 0 := ne_of_gt (sub_pos.mpr h2)
  unfold lineY orient
  field_simp
  ring

theorem slope_sub_sameL (a b d : Rat × Rat) (h1 : a.1 < b.1) (h2 : a.1 < d.1) :
    slope a d - slope a b = orient a b d / ((b.1 - a.1) * (d.1 - a.1)) := by
  have e1 : b.1 - a.1 ≠ 0 := ne_of_gt (sub_pos.mpr h1)
  have e2 : d.1 - a.1 ≠ 0 := ne_of_gt (sub_pos.mpr h2)
  unfold slope orient
  field_simp

theorem slope_sub_sameR (a c d : Rat × Rat) (h1 : a.1 < d.1) (h2 : c.1 < d.1) :
    slope c d - slope a d = orient a c d / ((d.1 - a.1) * (d.1 - c.1)) := by
  have e1 : d.1 - a.1 ≠ 0 := ne_of_gt (sub_pos.mpr h1)
  have e2 : d.1 - c.1 ≠ 0 := ne_of_gt (sub_pos.mpr h2)
  unfold slope orient
  field_simp
  ring


/-! ### the comparator `cmpEdgeP` in the configurations of a quadrilateral -/

theorem pos_div {n d : Rat} (hn : 0 < n) (hd : 0 < d) : 0 < n / d := div_pos hn hd
theorem neg_div {n d : Rat} (hn : n < 0) (hd : 0 < d) : n / d < 0 := div_neg_of_neg_of_pos hn hd

theorem eq_false_of_x_ne (b d : Rat × Rat) (x : Rat) (h : b.1 ≠ x) :
    ((Fq b).eq (Fq d) && Num.ofEq (Fq b).x (.fin x)) = false := by
  simp [h]

/-- two edges out of the same left point, compared at that point: by gradient -/
theorem cmpE_fanL0_lt (a b d : Rat × Rat) (hab : a.1 < b.1) (had : a.1 < d.1)
    (ho : 0 < orient a b d) : cmpEdgeP (Fq a) (Fq b) (Fq a) (Fq d) (.fin a.1) = .lt := by
  have h := slope_sub_sameL a b d hab had
  have : 0 < orient a b d / ((b.1 - a.1) * (d.1 - a.1)) :=
    pos_div ho (mul_pos (sub_pos.mpr hab) (sub_pos.mpr had))
  rw [cmpEdgeP_y_eq_tie (yE_in a b a.1 hab le_rfl hab.le) (by rw [lineY_left, ← lineY_left a d]; exact yE_in a d a.1 had le_rfl had.le)
    (eq_false_of_x_ne b d a.1 (ne_of_gt hab)), grad_eq_slope a b hab, grad_eq_slope a d had,
    tieP_fin, tieP_fin, totalCmp_fin, if_pos (by linarith)]

theorem cmpE_fanL0_gt (a b d : Rat × Rat) (hab : a.1 < b.1) (had : a.1 < d.1)
    (ho : orient a b d < 0) : cmpEdgeP (Fq a) (Fq b) (Fq a) (Fq d) (.fin a.1) = .gt := by
  have h := slope_sub_sameL a b d hab had
  have : orient a b d / ((b.1 - a.1) * (d.1 - a.1)) < 0 :=
    neg_div ho (mul_pos (sub_pos.mpr hab) (sub_pos.mpr had))
  rw [cmpEdgeP_y_eq_tie (yE_in a b a.1 hab le_rfl hab.le) (by rw [lineY_left, ← lineY_left a d]; exact yE_in a d a.1 had le_rfl had.le)
    (eq_false_of_x_ne b d a.1 (ne_of_gt hab)), grad_eq_slope a b hab, grad_eq_slope a d had,
    tieP_fin, tieP_fin, totalCmp_fin, if_neg (by linarith), if_pos (by linarith)]

/-- two edges out of the same left point, compared to the right of it -/
theorem cmpE_fanL_lt (a b d : Rat × Rat) (x : Rat) (hx : a.1 < x) (hxb : x ≤ b.1) (hxd : x ≤ d.1)
    (ho : 0 < orient a b d) : cmpEdgeP (Fq a) (Fq b) (Fq a) (Fq d) (.fin x) = .lt := by
  have hab := lt_of_lt_of_le hx hxb
  have had := lt_of_lt_of_le hx hxd
  have h := lineY_sub_sameL a b d x hab had
  have : 0 < (x - a.1) * orient a b d / ((b.1 - a.1) * (d.1 - a.1)) :=
    pos_div (mul_pos (sub_pos.mpr hx) ho) (mul_pos (sub_pos.mpr hab) (sub_pos.mpr had))
  exact cmpEdgeP_y_lt (yE_in a b x hab hx.le hxb) (yE_in a d x had hx.le hxd) (by linarith)

theorem cmpE_fanL_gt (a b d : Rat × Rat) (x : Rat) (hx : a.1 < x) (hxb : x ≤ b.1) (hxd : x ≤ d.1)
    (ho : orient a b d < 0) : cmpEdgeP (Fq a) (Fq b) (Fq a) (Fq d) (.fin x) = .gt := by
  have hab := lt_of_lt_of_le hx hxb
  have had := lt_of_lt_of_le hx hxd
  have h := lineY_sub_sameL a b d x hab had
  have : (x - a.1) * orient a b d / ((b.1 - a.1) * (d.1 - a.1)) < 0 :=
    neg_div (mul_neg_of_pos_of_neg (sub_pos.mpr hx) ho) (mul_pos (sub_pos.mpr hab) (sub_pos.mpr had))
  exact cmpEdgeP_y_gt (yE_in a b x hab hx.le hxb) (yE_in a d x had hx.le hxd) (by linarith)

/-- two edges into the same right point, compared to the left of it -/
theorem cmpE_fanR_lt (a c d : Rat × Rat) (x : Rat) (hax : a.1 ≤ x) (hcx : c.1 ≤ x) (hxd : x < d.1)
    (ho : orient a c d < 0) : cmpEdgeP (Fq a) (Fq d) (Fq c) (Fq d) (.fin x) = .lt := by
  have had := lt_of_le_of_lt hax hxd
  have hcd := lt_of_le_of_lt hcx hxd
  have h := lineY_sub_sameR a c d x had hcd
  have : (d.1 - x) * orient a c d / ((d.1 - a.1) * (d.1 - c.1)) < 0 :=
    neg_div (mul_neg_of_pos_of_neg (sub_pos.mpr hxd) ho) (mul_pos (sub_pos.mpr had) (sub_pos.mpr hcd))
  exact cmpEdgeP_y_lt (yE_in a d x had hax hxd.le) (yE_in c d x hcd hcx hxd.le) (by linarith)

theorem cmpE_fanR_gt (a c d : Rat × Rat) (x : Rat) (hax : a.1 ≤ x) (hcx : c.1 ≤ x) (hxd : x < d.1)
    (ho : 0 < orient a c d) : cmpEdgeP (Fq a) (Fq d) (Fq c) (Fq d) (.fin x) = .gt := by
  have had := lt_of_le_of_lt hax hxd
  have hcd := lt_of_le_of_lt hcx hxd
  have h := lineY_sub_sameR a c d x had hcd
  have : 0 < (d.1 - x) * orient a c d / ((d.1 - a.1) * (d.1 - c.1)) :=
    pos_div (mul_pos (sub_pos.mpr hxd) ho) (mul_pos (sub_pos.mpr had) (sub_pos.mpr hcd))
  exact cmpEdgeP_y_gt (yE_in a d x had hax hxd.le) (yE_in c d x hcd hcx hxd.le) (by linarith)

/-- the key edge starts at the point `s`, the other edge passes over or under `s` -/
theorem cmpE_ptKey_gt (s b c d : Rat × Rat) (hsb : s.1 < b.1) (hcd : c.1 < d.1) (hcs : c.1 ≤ s.1)
    (hsd : s.1 ≤ d.1) (ho : 0 < orient c d s) :
    cmpEdgeP (Fq s) (Fq b) (Fq c) (Fq d) (.fin s.1) = .gt := by
  have h := pt_sub_lineY c d s hcd
  have : 0 < orient c d s / (d.1 - c.1) := pos_div ho (sub_pos.mpr hcd)
  refine cmpEdgeP_y_gt (yE_in s b s.1 hsb le_rfl hsb.le) (yE_in c d s.1 hcd hcs hsd) ?_
  rw [lineY_left]; linarith

theorem cmpE_ptKey_lt (s b c d : Rat × Rat) (hsb : s.1 < b.1) (hcd : c.1 < d.1) (hcs : c.1 ≤ s.1)
    (hsd : s.1 ≤ d.1) (ho : orient c d s < 0) :
    cmpEdgeP (Fq s) (Fq b) (Fq c) (Fq d) (.fin s.1) = .lt := by
  have h := pt_sub_lineY c d s hcd
  have : orient c d s / (d.1 - c.1) < 0 := neg_div ho (sub_pos.mpr hcd)
  refine cmpEdgeP_y_lt (yE_in s b s.1 hsb le_rfl hsb.le) (yE_in c d s.1 hcd hcs hsd) ?_
  rw [lineY_left]; linarith

/-- the other edge starts at the point `s`, the key edge passes over or under `s` -/
theorem cmpE_ptOther_lt (a b s d : Rat × Rat) (hab : a.1 < b.1) (hsd : s.1 < d.1) (has : a.1 ≤ s.1)
    (hsb : s.1 ≤ b.1) (ho : 0 < orient a b s) :
    cmpEdgeP (Fq a) (Fq b) (Fq s) (Fq d) (.fin s.1) = .lt := by
  have h := pt_sub_lineY a b s hab
  have : 0 < orient a b s / (b.1 - a.1) := pos_div ho (sub_pos.mpr hab)
  refine cmpEdgeP_y_lt (yE_in a b s.1 hab has hsb) (yE_in s d s.1 hsd le_rfl hsd.le) ?_
  rw [lineY_left]; linarith

theorem cmpE_ptOther_gt (a b s d : Rat × Rat) (hab : a.1 < b.1) (hsd : s.1 < d.1) (has : a.1 ≤ s.1)
    (hsb : s.1 ≤ b.1) (ho : orient a b s < 0) :
    cmpEdgeP (Fq a) (Fq b) (Fq s) (Fq d) (.fin s.1) = .gt := by
  have h := pt_sub_lineY a b s hab
  have : orient a b s / (b.1 - a.1) < 0 := neg_div ho (sub_pos.mpr hab)
  refine cmpEdgeP_y_gt (yE_in a b s.1 hab has hsb) (yE_in s d s.1 hsd le_rfl hsd.le) ?_
  rw [lineY_left]; linarith


/-! ### `cmpAtP`, `partialCmpEdgeP` -/

theorem thenOrd_lt (o : Ordering) : thenOrd .lt o = .lt := rfl
theorem thenOrd_gt (o : Ordering) : thenOrd .gt o = .gt := rfl

/-- the other edge ends at the point `s`, the key edge passes over or under it -/
theorem cmpAt_otherEnd_lt (a b c s : Rat × Rat) (hab : a.1 < b.1) (hcs : c.1 < s.1) (has : a.1 ≤ s.1)
    (hsb : s.1 ≤ b.1) (ho : 0 < orient a b s) :
    cmpAtP (Fq a) (Fq b) (Fq c) (Fq s) (.fin s.1) true = .lt := by
  have h := pt_sub_lineY a b s hab
  have : 0 < orient a b s / (b.1 - a.1) := pos_div ho (sub_pos.mpr hab)
  unfold cmpAtP
  have hy : lineY a b s.1 < lineY c s s.1 := by rw [lineY_right c s hcs]; linarith
  simp only [isFinite_fin, Bool.not_true, Bool.false_eq_true, if_false, yE_in a b s.1 hab has hsb,
    yE_in c s s.1 hcs hcs.le le_rfl, totalCmp_fin, if_pos hy, thenOrd_lt]

theorem cmpAt_otherEnd_gt (a b c s : Rat × Rat) (hab : a.1 < b.1) (hcs : c.1 < s.1) (has : a.1 ≤ s.1)
    (hsb : s.1 ≤ b.1) (ho : orient a b s < 0) :
    cmpAtP (Fq a) (Fq b) (Fq c) (Fq s) (.fin s.1) true = .gt := by
  have h := pt_sub_lineY a b s hab
  have : orient a b s / (b.1 - a.1) < 0 := neg_div ho (sub_pos.mpr hab)
  unfold cmpAtP
  have hy : lineY c s s.1 < lineY a b s.1 := by rw [lineY_right c s hcs]; linarith
  simp only [isFinite_fin, Bool.not_true, Bool.false_eq_true, if_false, yE_in a b s.1 hab has hsb,
    yE_in c s s.1 hcs hcs.le le_rfl, totalCmp_fin, if_neg (lt_asymm hy), if_pos hy, thenOrd_gt]

/-- the key edge ends at the point `s`, the other edge passes over or under it -/
theorem cmpAt_keyEnd_gt (a s c d : Rat × Rat) (has : a.1 < s.1) (hcd : c.1 < d.1) (hcs : c.1 ≤ s.1)
    (hsd : s.1 ≤ d.1) (ho : 0 < orient c d s) :
    cmpAtP (Fq a) (Fq s) (Fq c) (Fq d) (.fin s.1) true = .gt := by
  have h := pt_sub_lineY c d s hcd
  have : 0 < orient c d s / (d.1 - c.1) := pos_div ho (sub_pos.mpr hcd)
  unfold cmpAtP
  have hy : lineY c d s.1 < lineY a s s.1 := by rw [lineY_right a s has]; linarith
  simp only [isFinite_fin, Bool.not_true, Bool.false_eq_true, if_false, yE_in c d s.1 hcd hcs hsd,
    yE_in a s s.1 has has.le le_rfl, totalCmp_fin, if_neg (lt_asymm hy), if_pos hy, thenOrd_gt]

theorem cmpAt_keyEnd_lt (a s c d : Rat × Rat) (has : a.1 < s.1) (hcd : c.1 < d.1) (hcs : c.1 ≤ s.1)
    (hsd : s.1 ≤ d.1) (ho : orient c d s < 0) :
    cmpAtP (Fq a) (Fq s) (Fq c) (Fq d) (.fin s.1) true = .lt := by
  have h := pt_sub_lineY c d s hcd
  have : orient c d s / (d.1 - c.1) < 0 := neg_div ho (sub_pos.mpr hcd)
  unfold cmpAtP
  have hy : lineY a s s.1 < lineY c d s.1 := by rw [lineY_right a s has]; linarith
  simp only [isFinite_fin, Bool.not_true, Bool.false_eq_true, if_false, yE_in c d s.1 hcd hcs hsd,
    yE_in a s s.1 has has.le le_rfl, totalCmp_fin, if_pos hy, thenOrd_lt]

/-- `partialCmpEdge` of two edges out of the same left point, to the right of it -/
theorem partialCmp_fanL_lt (a b d : Rat × Rat) (x : Rat) (hx : a.1 < x) (hxb : x ≤ b.1)
    (hxd : x ≤ d.1) (ho : 0 < orient a b d) :
    partialCmpEdgeP (Fq a) (Fq b) (Fq a) (Fq d) (.fin x) = some .lt := by
  have hab := lt_of_lt_of_le hx hxb
  have had := lt_of_lt_of_le hx hxd
  have h := lineY_sub_sameL a b d x hab had
  have : 0 < (x - a.1) * orient a b d / ((b.1 - a.1) * (d.1 - a.1)) :=
    pos_div (mul_pos (sub_pos.mpr hx) ho) (mul_pos (sub_pos.mpr hab) (sub_pos.mpr had))
  have hy : lineY a b x < lineY a d x := by linarith
  unfold partialCmpEdgeP
  simp only [isFinite_fin, Bool.not_true, Bool.false_eq_true, if_false, yE_in a b x hab hx.le hxb,
    yE_in a d x had hx.le hxd, ofCmp_fin, if_pos hy]

/-! ### both edges at their common right end point; gradients there; the clockwise test -/

theorem ofLt_right_false (a c d : Rat × Rat) (had : a.1 < d.1) (hcd : c.1 < d.1) :
    Num.ofLt (yExtrap (Fq a) (Fq d) (.fin d.1) true) (yExtrap (Fq c) (Fq d) (.fin d.1) true) = false := by
  rw [yE_in a d d.1 had had.le le_rfl, yE_in c d d.1 hcd hcd.le le_rfl, lineY_right a d had,
    lineY_right c d hcd]
  simp

theorem ofGt_right_false (a c d : Rat × Rat) (had : a.1 < d.1) (hcd : c.1 < d.1) :
    Num.ofGt (yExtrap (Fq a) (Fq d) (.fin d.1) true) (yExtrap (Fq c) (Fq d) (.fin d.1) true) = false := by
  rw [yE_in a d d.1 had had.le le_rfl, yE_in c d d.1 hcd hcd.le le_rfl, lineY_right a d had,
    lineY_right c d hcd]
  simp

theorem ofGe_gradR_true (a c d : Rat × Rat) (had : a.1 < d.1) (hcd : c.1 < d.1)
    (ho : orient a c d < 0) : Num.ofGe ((Fq a).grad (Fq d)) ((Fq c).grad (Fq d)) = true := by
  have h := slope_sub_sameR a c d had hcd
  have : orient a c d / ((d.1 - a.1) * (d.1 - c.1)) < 0 :=
    neg_div ho (mul_pos (sub_pos.mpr had) (sub_pos.mpr hcd))
  rw [grad_eq_slope a d had, grad_eq_slope c d hcd, ofGe_fin]
  simp only [decide_eq_true_eq]; linarith

theorem ofGe_gradR_false (a c d : Rat × Rat) (had : a.1 < d.1) (hcd : c.1 < d.1)
    (ho : 0 < orient a c d) : Num.ofGe ((Fq a).grad (Fq d)) ((Fq c).grad (Fq d)) = false := by
  have h := slope_sub_sameR a c d had hcd
  have : 0 < orient a c d / ((d.1 - a.1) * (d.1 - c.1)) :=
    pos_div ho (mul_pos (sub_pos.mpr had) (sub_pos.mpr hcd))
  rw [grad_eq_slope a d had, grad_eq_slope c d hcd, ofGe_fin]
  simp only [decide_eq_false_iff_not, not_le]; linarith

theorem cw_c (a b c : Rat × Rat) (ho : orient a b c < 0) :
    clockwiseSign (Fq a) (Fq b) (Fq c) = .c :=
  (clockwiseSign_c_iff _ _ _ _ _ _).mpr (Or.inl ho)

theorem cw_cc (a b c : Rat × Rat) (ho : 0 < orient a b c) :
    clockwiseSign (Fq a) (Fq b) (Fq c) = .cc :=
  (clockwiseSign_cc_iff _ _ _ _ _ _).mpr (Or.inl ho)

/-! ### all comparisons between four points with increasing abscissae -/

theorem ord4_fin (q1 q2 q3 q4 : Rat × Rat) (h12 : q1.1 < q2.1) (h23 : q2.1 < q3.1) (h34 : q3.1 < q4.1) :
    Ord4 (Fq q1) (Fq q2) (Fq q3) (Fq q4) := by
  have h13 := lt_trans h12 h23
  have h24 := lt_trans h23 h34
  have h14 := lt_trans h13 h34
  exact {
    f1 := rfl,
    f2 := rfl,
    f3 := rfl,
    f4 := rfl,
    c11 := (Geo.Pt.cmp_fin_eq _ _ _ _).mpr ⟨rfl, rfl⟩,
    c12 := (Geo.Pt.cmp_fin_lt _ _ _ _).mpr (Or.inl h12),
    c13 := (Geo.Pt.cmp_fin_lt _ _ _ _).mpr (Or.inl h13),
    c14 := (Geo.Pt.cmp_fin_lt _ _ _ _).mpr (Or.inl h14),
    c21 := (Geo.Pt.cmp_fin_gt _ _ _ _).mpr (Or.inl h12),
    c22 := (Geo.Pt.cmp_fin_eq _ _ _ _).mpr ⟨rfl, rfl⟩,
    c23 := (Geo.Pt.cmp_fin_lt _ _ _ _).mpr (Or.inl h23),
    c24 := (Geo.Pt.cmp_fin_lt _ _ _ _).mpr (Or.inl h24),
    c31 := (Geo.Pt.cmp_fin_gt _ _ _ _).mpr (Or.inl h13),
    c32 := (Geo.Pt.cmp_fin_gt _ _ _ _).mpr (Or.inl h23),
    c33 := (Geo.Pt.cmp_fin_eq _ _ _ _).mpr ⟨rfl, rfl⟩,
    c34 := (Geo.Pt.cmp_fin_lt _ _ _ _).mpr (Or.inl h34),
    c41 := (Geo.Pt.cmp_fin_gt _ _ _ _).mpr (Or.inl h14),
    c42 := (Geo.Pt.cmp_fin_gt _ _ _ _).mpr (Or.inl h24),
    c43 := (Geo.Pt.cmp_fin_gt _ _ _ _).mpr (Or.inl h34),
    c44 := (Geo.Pt.cmp_fin_eq _ _ _ _).mpr ⟨rfl, rfl⟩,
    e12 := by rw [Geo.Pt.eq_fin]; simp [ne_of_lt h12],
    e13 := by rw [Geo.Pt.eq_fin]; simp [ne_of_lt h13],
    e14 := by rw [Geo.Pt.eq_fin]; simp [ne_of_lt h14],
    e21 := by rw [Geo.Pt.eq_fin]; simp [ne_of_gt h12],
    e23 := by rw [Geo.Pt.eq_fin]; simp [ne_of_lt h23],
    e24 := by rw [Geo.Pt.eq_fin]; simp [ne_of_lt h24],
    e31 := by rw [Geo.Pt.eq_fin]; simp [ne_of_gt h13],
    e32 := by rw [Geo.Pt.eq_fin]; simp [ne_of_gt h23],
    e34 := by rw [Geo.Pt.eq_fin]; simp [ne_of_lt h34],
    e41 := by rw [Geo.Pt.eq_fin]; simp [ne_of_gt h14],
    e42 := by rw [Geo.Pt.eq_fin]; simp [ne_of_gt h24],
    e43 := by rw [Geo.Pt.eq_fin]; simp [ne_of_gt h34],
    x11 := by simp,
    x12 := by simp [ne_of_lt h12],
    x13 := by simp [ne_of_lt h13],
    x14 := by simp [ne_of_lt h14],
    x21 := by simp [ne_of_gt h12],
    x22 := by simp,
    x23 := by simp [ne_of_lt h23],
    x24 := by simp [ne_of_lt h24],
    x31 := by simp [ne_of_gt h13],
    x32 := by simp [ne_of_gt h23],
    x33 := by simp,
    x34 := by simp [ne_of_lt h34],
    x41 := by simp [ne_of_gt h14],
    x42 := by simp [ne_of_gt h24],
    x43 := by simp [ne_of_gt h34],
    x44 := by simp,
    m12 := by simp [minTotal, totalCmp_fin, h12, lt_asymm h12],
    m13 := by simp [minTotal, totalCmp_fin, h13, lt_asymm h13],
    m14 := by simp [minTotal, totalCmp_fin, h14, lt_asymm h14],
    m21 := by simp [minTotal, totalCmp_fin, h12, lt_asymm h12],
    m23 := by simp [minTotal, totalCmp_fin, h23, lt_asymm h23],
    m24 := by simp [minTotal, totalCmp_fin, h24, lt_asymm h24],
    m31 := by simp [minTotal, totalCmp_fin, h13, lt_asymm h13],
    m32 := by simp [minTotal, totalCmp_fin, h23, lt_asymm h23],
    m34 := by simp [minTotal, totalCmp_fin, h34, lt_asymm h34],
    m41 := by simp [minTotal, totalCmp_fin, h14, lt_asymm h14],
    m42 := by simp [minTotal, totalCmp_fin, h24, lt_asymm h24],
    m43 := by simp [minTotal, totalCmp_fin, h34, lt_asymm h34] }

end Cav.QuadGeom
