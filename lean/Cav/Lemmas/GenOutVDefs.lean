/-
  Output of the sweep WITHOUT the hypothesis of distinct abscissae, part 1: definitions.

  The bookkeeping of `GenOut*.lean` (shape of the back-chains, number and area of the triangles)
  is done in the SHEARED picture: the ghost description `G : Nat → CH` of the back-chains carries
  the SHEARED points (`shear ε`), `Shape` and the ring-level quantities `cnt`, `wDone`, `isLo`,
  `Coh`, `vWeight` are those of the sheared ring `shearRing ε R`.  The heap of the model carries
  the ORIGINAL points: a ghost point `q` (sheared) is stored as `FqU ε q = Fq (unsh ε q)`; `hpU ε`
  is the heap chain of a ghost chain.  Orientation determinants — hence the outcomes of
  `clockwiseSign` on pairwise different points, the areas of the triangles and the path sums —
  are the same in both pictures (`orient_unsh`, `fanF_hpU`, `stopF_hpU`, `trisF_hpU`, …).

  `XInvV R ε s xs X ivs G` = `InvV R ε s xs X ivs` (heap facts for `R`, order facts for the sheared
  ring) + the extras of `XInv` stated for the sheared ring.  `BendLoV`, …, `StartSplitV` are the
  explicit outcomes of the six kinds of events (as `BendLo`, … of `GenOutStep*.lean`), with `InvV`.
-/
import Cav.Lemmas.GenOutAux
import Cav.Lemmas.GenOutStepAux
import Cav.Lemmas.GenVInvW

set_option linter.unusedVariables false
set_option linter.unusedSimpArgs false

namespace Cav.GenOutV
open Cav Num Cav.Geo Cav.Sweep Cav.TriRun Cav.QuadRun Cav.QuadGeom Cav.SweepOut Cav.CvxEvents Cav.CvxLoop
open Cav.GenNodes Cav.GenInv Cav.MonoGeom Cav.MonoHeap Cav.MonoFan Cav.GenOutShape
open Cav.GenOutDefs Cav.GenLinks Cav.GenOrder Cav.GenOutInv Cav.GenOutCount Cav.GenOutAux
open Cav.GenVShear Cav.GenVBridge Cav.GenVInv
open Cav.GenGeom hiding Q

variable {R : RingQ} {ε : Rat} {Vε : Array (Vtx XQ)}

/-! ### the inverse shear -/

/-- the inverse of `shear ε` -/
def unsh (ε : Rat) (q : Q) : Q := (q.1 - ε * q.2, q.2)

theorem unsh_shear (ε : Rat) (q : Q) : unsh ε (shear ε q) = q := by
  obtain ⟨a, b⟩ := q
  unfold unsh shear
  exact Prod.ext (by simp) rfl

theorem shear_unsh (ε : Rat) (q : Q) : shear ε (unsh ε q) = q := by
  obtain ⟨a, b⟩ := q
  unfold unsh shear
  exact Prod.ext (by simp) rfl

theorem unsh_inj {ε : Rat} {a b : Q} (h : unsh ε a = unsh ε b) : a = b := by
  have := congrArg (shear ε) h
  rwa [shear_unsh, shear_unsh] at this

theorem orient_unsh (ε : Rat) (a b c : Q) :
    orient (unsh ε a) (unsh ε b) (unsh ε c) = orient a b c := by
  unfold orient unsh; ring

theorem cross_shear (ε : Rat) (a b : Q) : cross (shear ε a) (shear ε b) = cross a b := by
  unfold cross shear; ring

/-- a ghost (sheared) point as a point of the model -/
def FqU (ε : Rat) (q : Q) : Pt XQ := Fq (unsh ε q)

theorem FqU_shear (ε : Rat) (q : Q) : FqU ε (shear ε q) = Fq q := by
  unfold FqU; rw [unsh_shear]

theorem FqU_pt (ε : Rat) (R : RingQ) (w : Nat) : FqU ε ((shearRing ε R).pt w) = Fq (R.pt w) :=
  FqU_shear ε _

theorem FqU_inj {ε : Rat} {a b : Q} (h : FqU ε a = FqU ε b) : a = b := unsh_inj (Fq_inj h)

/-- heap chain of a ghost chain -/
def hpU (ε : Rat) (l : List (Nat × Q)) : List (Nat × Pt XQ) := l.map (fun x => (x.1, FqU ε x.2))

theorem hpU_fst (l : List (Nat × Q)) : (hpU ε l).map Prod.fst = l.map Prod.fst := by
  simp [hpU, Function.comp_def]

theorem hpU_snd (l : List (Nat × Q)) : (hpU ε l).map Prod.snd = (l.map Prod.snd).map (FqU ε) := by
  simp [hpU, Function.comp_def]

theorem hpU_append (l1 l2 : List (Nat × Q)) : hpU ε (l1 ++ l2) = hpU ε l1 ++ hpU ε l2 := by simp [hpU]

theorem hpU_reverse (l : List (Nat × Q)) : hpU ε l.reverse = (hpU ε l).reverse := by simp [hpU]

theorem hpU_cons (x : Nat × Q) (l : List (Nat × Q)) : hpU ε (x :: l) = (x.1, FqU ε x.2) :: hpU ε l := rfl

theorem hpU_length (l : List (Nat × Q)) : (hpU ε l).length = l.length := by simp [hpU]

theorem hpU_mem {l : List (Nat × Q)} {x : Nat × Q} (h : x ∈ l) : (x.1, FqU ε x.2) ∈ hpU ε l :=
  List.mem_map.mpr ⟨x, h, rfl⟩

/-! ### fans: from the ghost picture to the heap -/

theorem fanQ_unsh (σ : Rat) (u : Q) : ∀ (pts : List Q), FanQ σ u pts →
    FanQ σ (unsh ε u) (pts.map (unsh ε))
  | [], _ => trivial
  | [_], _ => trivial
  | q0 :: q1 :: r, h => by
    refine ⟨?_, fanQ_unsh σ u (q1 :: r) h.2⟩
    rw [orient_unsh]; exact h.1

theorem orientSum_unsh (u : Q) : ∀ (pts : List Q),
    orientSum (unsh ε u) (pts.map (unsh ε)) = orientSum u pts
  | [] => rfl
  | [_] => rfl
  | q0 :: q1 :: r => by
    have ih := orientSum_unsh u (q1 :: r)
    simp only [List.map_cons, orientSum] at ih ⊢
    rw [ih, orient_unsh]

theorem hpU_pts (mid : List (Nat × Q)) (g : Nat × Q) :
    (hpU ε mid).map Prod.snd ++ [FqU ε g.2] = (((mid ++ [g]).map Prod.snd).map (unsh ε)).map Fq := by
  rw [hpU_snd]; simp [FqU, Function.comp_def]

theorem fanF_hpU (u : Q) (mid : List (Nat × Q)) (g : Nat × Q)
    (h : FanQ 1 u ((mid ++ [g]).map Prod.snd)) :
    FanF (FqU ε u) ((hpU ε mid).map Prod.snd ++ [FqU ε g.2]) := by
  rw [hpU_pts]; exact fanF_of_Q (unsh ε u) _ (fanQ_unsh 1 u _ h)

theorem fanB_hpU (u : Q) (mid : List (Nat × Q)) (g : Nat × Q)
    (h : FanQ (-1) u ((mid ++ [g]).map Prod.snd)) :
    FanB (FqU ε u) ((hpU ε mid).map Prod.snd ++ [FqU ε g.2]) := by
  rw [hpU_pts]; exact fanB_of_Q (unsh ε u) _ (fanQ_unsh (-1) u _ h)

/-- the answer `C` of `clockwiseSign` on three points of which neighbours are different is the
    sign of the determinant (equal abscissae allowed) -/
theorem cw_c_imp_ne (a b c : Q) (h1 : a ≠ b) (h2 : b ≠ c)
    (h : clockwiseSign (Fq a) (Fq b) (Fq c) = .c) : orient a b c < 0 := by
  obtain ⟨a1, a2⟩ := a
  obtain ⟨b1, b2⟩ := b
  obtain ⟨c1, c2⟩ := c
  rcases (clockwiseSign_c_iff _ _ _ _ _ _).mp h with h | ⟨e1, e2, -⟩ | ⟨e1, e2, -⟩
  · exact h
  · exact absurd (Prod.ext e1 e2) h1
  · exact absurd (Prod.ext e1 e2) h2

theorem ne_of_x_ne {a b : Q} (h : a.1 ≠ b.1) : unsh ε a ≠ unsh ε b :=
  fun e => h (congrArg Prod.fst (unsh_inj e))

theorem stopF_hpU (u : Q) (g : Nat × Q) (rest : List (Nat × Q))
    (hxd : XDec (u :: (g :: rest).map Prod.snd))
    (hs : ∀ h r, rest = h :: r → ¬ (1 : Rat) * orient u g.2 h.2 < 0) :
    StopF (FqU ε u) (FqU ε g.2) (hpU ε rest) := by
  cases rest with
  | nil => trivial
  | cons h r =>
    intro hc
    have := cw_c_imp_ne (unsh ε u) (unsh ε g.2) (unsh ε h.2) (ne_of_x_ne (ne_of_gt hxd.1))
      (ne_of_x_ne (ne_of_gt hxd.2.1)) hc
    rw [orient_unsh] at this
    exact hs h r rfl (by linarith)

theorem stopB_hpU (u : Q) (g : Nat × Q) (rest : List (Nat × Q))
    (hxd : XDec (u :: (g :: rest).map Prod.snd))
    (hs : ∀ h r, rest = h :: r → ¬ (-1 : Rat) * orient u g.2 h.2 < 0) :
    StopB (FqU ε u) (FqU ε g.2) (hpU ε rest) := by
  cases rest with
  | nil => trivial
  | cons h r =>
    intro hc
    have := cw_c_imp_ne (unsh ε h.2) (unsh ε g.2) (unsh ε u) (ne_of_x_ne (ne_of_gt hxd.2.1)).symm
      (ne_of_x_ne (ne_of_gt hxd.1)).symm hc
    rw [orient_unsh] at this
    apply hs h r rfl
    have e : orient h.2 g.2 u = - orient u g.2 h.2 := by unfold orient; ring
    rw [e] at this; linarith

theorem trisF_hpU (u : Q) (mid : List (Nat × Q)) (g : Nat × Q)
    (h : FanQ 1 u ((mid ++ [g]).map Prod.snd)) :
    areaSum (trisF (FqU ε u) ((hpU ε mid).map Prod.snd ++ [FqU ε g.2])) =
        - orientSum u ((mid ++ [g]).map Prod.snd) ∧
      (trisF (FqU ε u) ((hpU ε mid).map Prod.snd ++ [FqU ε g.2])).length = mid.length := by
  rw [hpU_pts]
  obtain ⟨h1, h2⟩ := trisF_acct (unsh ε u) _ (fanQ_unsh 1 u _ h)
  rw [orientSum_unsh] at h1
  refine ⟨h1, ?_⟩
  unfold FqU
  simp only [List.map_append, List.length_append, List.length_map, List.length_cons,
    List.length_nil] at h2 ⊢
  omega

theorem trisB_hpU (u : Q) (mid : List (Nat × Q)) (g : Nat × Q)
    (h : FanQ (-1) u ((mid ++ [g]).map Prod.snd)) :
    areaSum (trisB (FqU ε u) ((hpU ε mid).map Prod.snd ++ [FqU ε g.2])) =
        orientSum u ((mid ++ [g]).map Prod.snd) ∧
      (trisB (FqU ε u) ((hpU ε mid).map Prod.snd ++ [FqU ε g.2])).length = mid.length := by
  rw [hpU_pts]
  obtain ⟨h1, h2⟩ := trisB_acct (unsh ε u) _ (fanQ_unsh (-1) u _ h)
  rw [orientSum_unsh] at h1
  refine ⟨h1, ?_⟩
  unfold FqU
  simp only [List.map_append, List.length_append, List.length_map, List.length_cons,
    List.length_nil] at h2 ⊢
  omega

theorem trisF_posU (u : Q) (mid : List (Nat × Q)) (g : Nat × Q)
    (h : FanQ 1 u ((mid ++ [g]).map Prod.snd)) :
    ∀ tr ∈ trisF (FqU ε u) ((hpU ε mid).map Prod.snd ++ [FqU ε g.2]), 0 < triArea tr := by
  rw [hpU_pts]; exact trisF_pos_q (unsh ε u) _ (fanQ_unsh 1 u _ h)

theorem trisB_posU (u : Q) (mid : List (Nat × Q)) (g : Nat × Q)
    (h : FanQ (-1) u ((mid ++ [g]).map Prod.snd)) :
    ∀ tr ∈ trisB (FqU ε u) ((hpU ε mid).map Prod.snd ++ [FqU ε g.2]), 0 < triArea tr := by
  rw [hpU_pts]; exact trisB_pos_q (unsh ε u) _ (fanQ_unsh (-1) u _ h)

/-! ### chains in the heap -/

theorem SegU.pt {N : Array (Node XQ)} : ∀ {l : List (Nat × Q)} {a e : Option Nat},
    Seg N a (hpU ε l) e → ∀ x ∈ l, ptAt N x.1 = some (FqU ε x.2)
  | [], _, _, _, x, hx => by cases hx
  | y :: rest, a, e, hs, x, hx => by
    obtain ⟨h1, h2⟩ := hs
    rcases List.mem_cons.mp hx with rfl | hx
    · unfold ptAt; rw [h1]; rfl
    · exact SegU.pt h2 x hx

theorem SegU.idx_lt {N : Array (Node XQ)} {l : List (Nat × Q)} {a e : Option Nat}
    (h : Seg N a (hpU ε l) e) : ∀ x ∈ l, x.1 < N.size := by
  intro x hx
  exact MonoHeap.Seg.lt h (x.1, FqU ε x.2) (hpU_mem hx)

/-- a chain whose cells are untouched stays linked -/
theorem SegU.frame {N N' : Array (Node XQ)} {l : List (Nat × Q)} {a e : Option Nat}
    (h : Seg N a (hpU ε l) e) (hfr : ∀ x ∈ l, N'[x.1]? = N[x.1]?) : Seg N' a (hpU ε l) e := by
  refine Seg.congr ?_ h
  intro i hi
  rw [hpU_fst] at hi
  obtain ⟨x, hx, rfl⟩ := List.mem_map.mp hi
  exact hfr x hx

/-- the tail view of a chain in the heap -/
theorem segR_of_okU {N : Array (Node XQ)} {l : List (Nat × Q)} (h : Seg N none (hpU ε l) none) :
    SegR N none (hpU ε l.reverse) none := by
  rw [hpU_reverse]
  exact (seg_iff_segR N (hpU ε l) none none).mp h

/-! ### the invariant -/

/-- the back-chain of the in-interval `iv`: the heap carries the original points, the ghost
    description `c` the sheared ones; the shape is the one of the sheared picture -/
structure ChainOKV (R : RingQ) (ε : Rat) (s : St XQ) (xs : Rat) (iv : IV) (c : CH) : Prop where
  cell : ∃ ch, s.chains[iv.ci]? = some ch ∧ ch.head = c.hd.1 ∧ ch.tail = c.tl.1 ∧ ch.rm = c.m.1
  seg : Seg s.nodes none (hpU ε c.l) none
  shape : Shape c xs ((shearRing ε R).pt iv.lo.lv) ((shearRing ε R).pt iv.lo.rv)
    ((shearRing ε R).pt iv.hi.lv) ((shearRing ε R).pt iv.hi.rv)

/-- **the strengthened invariant, equal abscissae allowed**: `InvV` plus the extras of `XInv` for
    the sheared ring -/
structure XInvV (R : RingQ) (ε : Rat) (s : St XQ) (xs X : Rat) (ivs : List IV) (G : Nat → CH) : Prop where
  inv : InvV R ε s xs X ivs
  ok : ∀ iv ∈ ivs, ChainOKV R ε s xs iv (G iv.ci)
  nd : (idxs G ivs).Nodup
  flags : ∀ iv ∈ ivs, isLo (shearRing ε R) iv.lo.lv iv.lo.rv ∧ ¬ isLo (shearRing ε R) iv.hi.lv iv.hi.rv
  count : s.out.length + lenSum G ivs = cnt (shearRing ε R) xs + ivs.length
  area : areaSum s.out = wDone (shearRing ε R) xs + pathTot G ivs
  coh : ∀ v, v < R.n → (shearRing ε R).x v ≤ xs → Coh (shearRing ε R) v
  fin : ivs = [] → ∀ v, v < R.n → (shearRing ε R).x v ≤ xs →
    (∀ u, u < R.n → (shearRing ε R).x u ≤ xs → (shearRing ε R).x u ≤ (shearRing ε R).x v) →
    vWeight (shearRing ε R) v = 0
  posA : ∀ tr ∈ s.out, 0 < triArea tr

/-! ### consequences -/

/-- the head and the tail of the description carry the (sheared) left ends of the two edges -/
theorem ChainOKV.ends {s : St XQ} {xs : Rat} {iv : IV} {c : CH} (h : ChainOKV R ε s xs iv c)
    (hc : CCell s R iv) :
    c.hd.2 = (shearRing ε R).pt iv.lo.lv ∧ c.tl.2 = (shearRing ε R).pt iv.hi.lv := by
  obtain ⟨ch, hch, hh, ht, -⟩ := h.cell
  obtain ⟨ch', hch', -, hph, hpt⟩ := hc
  rw [hch] at hch'
  cases hch'
  have hmem_hd : c.hd ∈ c.l := by
    have := c.head_l
    exact List.mem_of_mem_head? (by rw [this]; rfl)
  have hmem_tl : c.tl ∈ c.l := by
    have := c.last_l
    exact List.mem_of_getLast? this
  have p1 := SegU.pt h.seg c.hd hmem_hd
  have p2 := SegU.pt h.seg c.tl hmem_tl
  rw [← hh, hph, ← FqU_pt ε R] at p1
  rw [← ht, hpt, ← FqU_pt ε R] at p2
  exact ⟨(FqU_inj (Option.some.inj p1)).symm, (FqU_inj (Option.some.inj p2)).symm⟩

/-- all chain indices are valid node cells -/
theorem XInvV.idx_lt {s : St XQ} {xs X : Rat} {ivs : List IV} {G : Nat → CH}
    (h : XInvV R ε s xs X ivs G) : ∀ k ∈ idxs G ivs, k < s.nodes.size := by
  intro k hk
  obtain ⟨j, hj, x, hx, rfl⟩ := mem_idxs.mp hk
  exact SegU.idx_lt (h.ok j hj).seg x hx

/-- the chain of an untouched in-interval -/
theorem ChainOKV.transfer {s s' : St XQ} {xs xs' : Rat} {iv : IV} {c : CH}
    (h : ChainOKV R ε s xs iv c) (hch : s'.chains[iv.ci]? = s.chains[iv.ci]?)
    (hfr : ∀ x ∈ c.l, s'.nodes[x.1]? = s.nodes[x.1]?) (hx : xs ≤ xs') : ChainOKV R ε s' xs' iv c :=
  ⟨by rw [hch]; exact h.cell, SegU.frame h.seg hfr, h.shape.mono hx⟩

/-- the indices of a chain are below the size of the node heap, hence different from it -/
theorem idx_ne_sizeV {s : St XQ} {xs X : Rat} {ivs : List IV} {G : Nat → CH}
    (h : XInvV R ε s xs X ivs G) : ∀ k ∈ idxs G ivs, k ≠ s.nodes.size :=
  fun k hk => Nat.ne_of_lt (h.idx_lt k hk)

/-- an in-interval whose chain cell, description and node cells are untouched -/
theorem other_okV {s s' : St XQ} {xs xs' X : Rat} {ivs : List IV} {G G' : Nat → CH}
    (hX : XInvV R ε s xs X ivs G) (hx : xs ≤ xs') {j : IV} (hj : j ∈ ivs) (hG : G' j.ci = G j.ci)
    (hch : s'.chains[j.ci]? = s.chains[j.ci]?)
    (hfr : ∀ x ∈ (G j.ci).l, s'.nodes[x.1]? = s.nodes[x.1]?) : ChainOKV R ε s' xs' j (G' j.ci) := by
  rw [hG]
  exact (hX.ok j hj).transfer hch hfr hx

/-- the chain ids of the in-intervals are valid chain cells -/
theorem ci_ltV {s : St XQ} {xs X : Rat} {ivs : List IV} {G : Nat → CH} (hX : XInvV R ε s xs X ivs G) :
    ∀ j ∈ ivs, j.ci < s.chains.size := by
  intro j hj
  obtain ⟨ch, hch, -⟩ := (hX.ok j hj).cell
  exact lt_of_get' hch

/-- a lower edge of an in-interval that starts on the sweep line is a lower boundary edge (of the
    sheared ring) -/
theorem isLo_loV (hSh : ShOK R ε Vε) {s : St XQ} {xs X : Rat} {pre post : List IV} {iv : IV}
    (hI : InvV R ε s xs X (pre ++ iv :: post)) (hx : (shearRing ε R).x iv.lo.lv = xs) :
    isLo (shearRing ε R) iv.lo.lv iv.lo.rv := by
  have hflat : flatE (pre ++ iv :: post) = flatE pre ++ iv.lo :: (iv.hi :: flatE post) := by simp
  have := nBelow_eq hSh.ring (F1 := flatE pre) (F2 := iv.hi :: flatE post) (a := iv.lo)
    (by rw [← hflat]; exact hI.span) (by rw [← hflat]; exact hI.sorted)
    (by rw [← hflat]; exact hI.cross) (by rw [← hflat]; exact hI.q.uniq) hx
  unfold isLo
  rw [this, flatE_length]
  omega

/-- an upper edge of an in-interval that starts on the sweep line is not a lower boundary edge -/
theorem isLo_hiV (hSh : ShOK R ε Vε) {s : St XQ} {xs X : Rat} {pre post : List IV} {iv : IV}
    (hI : InvV R ε s xs X (pre ++ iv :: post)) (hx : (shearRing ε R).x iv.hi.lv = xs) :
    ¬ isLo (shearRing ε R) iv.hi.lv iv.hi.rv := by
  have hflat : flatE (pre ++ iv :: post) = (flatE pre ++ [iv.lo]) ++ iv.hi :: flatE post := by simp
  have := nBelow_eq hSh.ring (F1 := flatE pre ++ [iv.lo]) (F2 := flatE post) (a := iv.hi)
    (by rw [← hflat]; exact hI.span) (by rw [← hflat]; exact hI.sorted)
    (by rw [← hflat]; exact hI.cross) (by rw [← hflat]; exact hI.q.uniq) hx
  unfold isLo
  rw [this, List.length_append, flatE_length]
  simp only [List.length_cons, List.length_nil]
  omega

/-! ### the explicit outcomes of the events -/

/-- Bend at `w` (left neighbour `u`, right neighbour `w'`), the bending edge being the LOWER edge
    of the in-interval `iv` (cf. `Cav.GenOutBend.BendLo`) -/
def BendLoV (R : RingQ) (ε : Rat) (s : St XQ) (pre : List IV) (iv : IV) (post : List IV)
    (u w w' : Nat) : Prop :=
  iv.lo.lv = u ∧ iv.lo.rv = w ∧
  ∃ (c : Chain) (h : Node XQ) (smid : St XQ) (N2 : Array (Node XQ)) (out2 : List Cav.CvxEvents.Tri)
      (s' : St XQ),
    s.chains[iv.ci]? = some c ∧ s.nodes[c.head]? = some h ∧
    smid.nodes = Cav.CvxHeap.appH s.nodes c.head h (Fq (R.pt w)) ∧ smid.out = s.out ∧
    (backTriangulate ⟨s.nodes.size, s.nodes.size, c.tail⟩ false).run smid =
      .ok ((), { smid with nodes := N2, out := out2 }) ∧
    (handleNext : SM XQ Unit).run s = .ok ((), s') ∧ s'.nodes = N2 ∧ s'.out = out2 ∧
    s'.chains = s.chains.setIfInBounds iv.ci ⟨s.nodes.size, s.nodes.size, c.tail⟩ ∧
    InvV R ε s' ((shearRing ε R).x w) (R.x w) (pre ++ ⟨⟨iv.lo.id, w, w'⟩, iv.hi, iv.ci⟩ :: post)

/-- Bend at `w`, the bending edge being the UPPER edge of the in-interval `iv` -/
def BendHiV (R : RingQ) (ε : Rat) (s : St XQ) (pre : List IV) (iv : IV) (post : List IV)
    (u w w' : Nat) : Prop :=
  iv.hi.lv = u ∧ iv.hi.rv = w ∧
  ∃ (c : Chain) (h : Node XQ) (smid : St XQ) (N2 : Array (Node XQ)) (out2 : List Cav.CvxEvents.Tri)
      (s' : St XQ),
    s.chains[iv.ci]? = some c ∧ s.nodes[c.tail]? = some h ∧
    smid.nodes = Cav.CvxHeap.appT s.nodes c.tail h (Fq (R.pt w)) ∧ smid.out = s.out ∧
    (backTriangulate ⟨s.nodes.size, c.head, s.nodes.size⟩ true).run smid =
      .ok ((), { smid with nodes := N2, out := out2 }) ∧
    (handleNext : SM XQ Unit).run s = .ok ((), s') ∧ s'.nodes = N2 ∧ s'.out = out2 ∧
    s'.chains = s.chains.setIfInBounds iv.ci ⟨s.nodes.size, c.head, s.nodes.size⟩ ∧
    InvV R ε s' ((shearRing ε R).x w) (R.x w) (pre ++ ⟨iv.lo, ⟨iv.hi.id, w, w'⟩, iv.ci⟩ :: post)

/-- closing End at `w` (cf. `Cav.GenOutEnd.EndClose`) -/
def EndCloseV (R : RingQ) (ε : Rat) (s : St XQ) (pre : List IV) (iv : IV) (post : List IV) (w : Nat) :
    Prop :=
  iv.lo.rv = w ∧ iv.hi.rv = w ∧
  ∃ (c : Chain) (h : Node XQ) (smid : St XQ) (N2 : Array (Node XQ)) (out2 : List Cav.CvxEvents.Tri)
      (s' : St XQ),
    s.chains[iv.ci]? = some c ∧ s.nodes[c.tail]? = some h ∧
    smid.nodes = Cav.CvxHeap.appT s.nodes c.tail h (Fq (R.pt w)) ∧ smid.out = s.out ∧
    (backTriangulate ⟨s.nodes.size, c.head, s.nodes.size⟩ true).run smid =
      .ok ((), { smid with nodes := N2, out := out2 }) ∧
    (handleNext : SM XQ Unit).run s = .ok ((), s') ∧ s'.nodes = N2 ∧ s'.out = out2 ∧
    (∀ j ∈ pre ++ post, s'.chains[j.ci]? = s.chains[j.ci]?) ∧
    InvV R ε s' ((shearRing ε R).x w) (R.x w) (pre ++ post)

/-- merging End at `w` (cf. `Cav.GenOutEnd.EndMerge`) -/
def EndMergeV (R : RingQ) (ε : Rat) (s : St XQ) (pre : List IV) (iv1 iv2 : IV) (post : List IV)
    (w : Nat) : Prop :=
  iv1.hi.rv = w ∧ iv2.lo.rv = w ∧
  ∃ (cB cT : Chain) (sm0 : St XQ) (N1 N2 : Array (Node XQ)) (out2 : List Cav.CvxEvents.Tri)
      (N3 : Array (Node XQ)) (out3 : List Cav.CvxEvents.Tri) (s' : St XQ),
    s.chains[iv1.ci]? = some cB ∧ s.chains[iv2.ci]? = some cT ∧
    sm0.nodes = s.nodes ∧ sm0.out = s.out ∧
    (chainMerge cB cT (Fq (R.pt w))).run sm0 =
      .ok (⟨s.nodes.size, cB.head, cT.tail⟩, { sm0 with nodes := N1 }) ∧
    (nodeTriangulate s.nodes.size true (N1.size + 2)).run { sm0 with nodes := N1 } =
      .ok ((), { sm0 with nodes := N2, out := out2 }) ∧
    (nodeTriangulate s.nodes.size false (N1.size + 2)).run { sm0 with nodes := N2, out := out2 } =
      .ok ((), { sm0 with nodes := N3, out := out3 }) ∧
    (handleNext : SM XQ Unit).run s = .ok ((), s') ∧ s'.nodes = N3 ∧ s'.out = out3 ∧
    s'.chains = s.chains.push ⟨s.nodes.size, cB.head, cT.tail⟩ ∧
    InvV R ε s' ((shearRing ε R).x w) (R.x w) (pre ++ ⟨iv1.lo, iv2.hi, s.chains.size⟩ :: post)

/-- proper Start at `w` (cf. `Cav.GenOutStart.StartProper`; the heights are those of the sheared
    ring) -/
def StartProperV (R : RingQ) (ε : Rat) (s : St XQ) (pre post : List IV) (w wB wT : Nat) : Prop :=
  (∀ a ∈ flatE pre, hY (shearRing ε R) a ((shearRing ε R).x w) < ((shearRing ε R).pt w).2) ∧
  (∀ a ∈ flatE post, ((shearRing ε R).pt w).2 < hY (shearRing ε R) a ((shearRing ε R).x w)) ∧
  ∃ s', (handleNext : SM XQ Unit).run s = .ok ((), s') ∧
    s'.nodes = s.nodes.push ⟨Fq (R.pt w), none, none⟩ ∧ s'.out = s.out ∧
    s'.chains = s.chains.push ⟨s.nodes.size, s.nodes.size, s.nodes.size⟩ ∧
    InvV R ε s' ((shearRing ε R).x w) (R.x w)
      (pre ++ ⟨⟨s.edges.size, w, wB⟩, ⟨s.edges.size + 1, w, wT⟩, s.chains.size⟩ :: post)

/-- improper (splitting) Start at `w` (cf. `Cav.GenOutStart.StartSplit`) -/
def StartSplitV (R : RingQ) (ε : Rat) (s : St XQ) (pre : List IV) (iv : IV) (post : List IV)
    (w wB wT : Nat) : Prop :=
  (∀ a ∈ flatE pre ++ [iv.lo], hY (shearRing ε R) a ((shearRing ε R).x w) < ((shearRing ε R).pt w).2) ∧
  (∀ a ∈ iv.hi :: flatE post, ((shearRing ε R).pt w).2 < hY (shearRing ε R) a ((shearRing ε R).x w)) ∧
  ∃ (cB : Chain) (sm0 : St XQ) (N' N3 : Array (Node XQ)) (out3 : List (Pt XQ × Pt XQ × Pt XQ))
    (N4 : Array (Node XQ)) (out4 : List (Pt XQ × Pt XQ × Pt XQ)) (s' : St XQ),
    s.chains[iv.ci]? = some cB ∧
    sm0.nodes = s.nodes.push ⟨Fq (R.pt w), none, none⟩ ∧ sm0.out = s.out ∧
    (chainSplit cB (Fq (R.pt w))).run sm0 = .ok
      ((⟨s.nodes.size + 1, cB.head, s.nodes.size + 1⟩,
        ⟨s.nodes.size + 1 + 2, s.nodes.size + 1 + 2,
          if cB.tail == cB.rm then s.nodes.size + 1 + 1 else cB.tail⟩),
       { sm0 with nodes := N' }) ∧
    (backTriangulate ⟨s.nodes.size + 1, cB.head, s.nodes.size + 1⟩ true).run { sm0 with nodes := N' } =
      .ok ((), { sm0 with nodes := N3, out := out3 }) ∧
    (backTriangulate ⟨s.nodes.size + 1 + 2, s.nodes.size + 1 + 2,
        if cB.tail == cB.rm then s.nodes.size + 1 + 1 else cB.tail⟩ false).run
        { sm0 with nodes := N3, out := out3 } =
      .ok ((), { sm0 with nodes := N4, out := out4 }) ∧
    (handleNext : SM XQ Unit).run s = .ok ((), s') ∧ s'.nodes = N4 ∧ s'.out = out4 ∧
    s'.chains = ((s.chains.push ⟨s.nodes.size, s.nodes.size, s.nodes.size⟩).push
        ⟨s.nodes.size + 1, cB.head, s.nodes.size + 1⟩).push
        ⟨s.nodes.size + 1 + 2, s.nodes.size + 1 + 2,
          if cB.tail == cB.rm then s.nodes.size + 1 + 1 else cB.tail⟩ ∧
    InvV R ε s' ((shearRing ε R).x w) (R.x w)
      (pre ++ ⟨iv.lo, ⟨s.edges.size, w, wB⟩, s.chains.size + 1⟩ ::
        ⟨⟨s.edges.size + 1, w, wT⟩, iv.hi, s.chains.size + 1 + 1⟩ :: post)

end Cav.GenOutV
