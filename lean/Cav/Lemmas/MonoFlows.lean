/-
  The event lemmas of `MonoEvents.lean` at finite points: the pure tests are discharged from
  inequalities between abscissae and signs of orientation determinants, as in `CvxFlows.lean`.
-/
import Cav.Lemmas.CvxFlows
import Cav.Lemmas.MonoEvents

set_option linter.unusedSimpArgs false
set_option linter.unusedVariables false

namespace Cav.MonoFlows
open Cav Num Cav.Geo Cav.Sweep Cav.TriRun Cav.QuadRun Cav.TriEvents Cav.QuadGeom Cav.TriGeom
open Cav.CvxHeap Cav.CvxEvents Cav.CvxFlows Cav.MonoEvents

section
variable (V : Array (Vtx XQ)) (x : XQ) (N N2 : Array (Node XQ)) (rm iB iT : Nat)
  (B T p rp rO : Rat × Rat) (vi vB r vO n1 n2 a1 a2 a5 a6 a7 a8 : Nat) (out ts : List Tri)
  (hBn hTn : Node XQ) (u1 u2 u3 u4 : Option Nat)

/-- Bend on the bottom chain; `B` is the previous vertex of the bottom chain (the old head of
    the back-chain), `T` the point of the tail -/
theorem bendB_genF
    (hNB : N[iB]? = some hBn)
    (hbt : (backTriangulate ⟨N.size, N.size, iT⟩ false).run
        (stC V (.fin p.1) (appH N iB hBn (Fq p)) N.size N.size iT (Fq p) (Fq rO) [(vO, [1])] out) =
        .ok ((), stC V (.fin p.1) N2 N.size N.size iT (Fq p) (Fq rO) [(vO, [1])] (ts ++ out)))
    (l1 : N2[N.size]? = some ⟨Fq p, u1, u2⟩) (l2 : N2[iT]? = some ⟨Fq T, u3, u4⟩)
    (hv : V[vi]? = some ⟨Fq p, n1, n2⟩) (hn : Nbrs n1 n2 vB r)
    (hB : V[vB]? = some ⟨Fq B, a1, a2⟩) (hrp : V[r]? = some ⟨Fq rp, a5, a6⟩)
    (hO : V[vO]? = some ⟨Fq rO, a7, a8⟩)
    (hBp : B.1 < p.1) (hpr : p.1 < rp.1) (hTO : T.1 < rO.1) (hTp : T.1 ≤ p.1) (hpO : p.1 < rO.1)
    (hsame : rp.1 = rO.1 → rp = rO)
    (hlt : rp.1 < rO.1 → orient T rO rp < 0) (hgt : rO.1 < rp.1 → 0 < orient p rp rO) :
    Runs (stC V x N rm iB iT (Fq p) (Fq rO) [(vi, [0]), (vO, [1])] out)
      (.ok ((), stC V (.fin p.1) N2 N.size N.size iT (Fq rp) (Fq rO)
        (evMerge ((Fq rp).cmp (Fq rO)) r 0 vO [1]) (ts ++ out))) handleNext := by
  obtain ⟨o1, o2⟩ := ovB T p rp rO hpr hTO hTp hpO hsame hlt hgt
  have hx : ofEq (Fq rp).x (Fq p).x = false := by simp [ne_of_gt hpr]
  obtain ⟨f1, f2⟩ := ft_bend B p rp hBp hpr
  rcases hn with ⟨rfl, rfl⟩ | ⟨rfl, rfl⟩
  · exact bendB_gen V x N N2 rm iB iT (Fq T) (Fq p) (Fq B) (Fq rp) (Fq rp) (Fq rO) vi n1 n2 n2 vO
      a1 a2 a5 a6 a5 a6 a7 a8 out ts _ (XQ.fin (min rp.1 rO.1)) hBn u1 u2 u3 u4 hNB hbt l1 l2 hv hB hrp f1
      (by rw [ge_false B rp (lt_trans hBp hpr)]; simp) hrp hO rfl hx (minTotal_fin _ _) o1 o2 rfl
  · exact bendB_gen V x N N2 rm iB iT (Fq T) (Fq p) (Fq rp) (Fq B) (Fq rp) (Fq rO) vi n1 n2 n1 vO
      a5 a6 a1 a2 a5 a6 a7 a8 out ts _ (XQ.fin (min rp.1 rO.1)) hBn u1 u2 u3 u4 hNB hbt l1 l2 hv hrp hB f2
      (by rw [ge_true B rp (lt_trans hBp hpr)]; simp) hrp hO rfl hx (minTotal_fin _ _) o1 o2 rfl

/-- Bend on the top chain; `T` is the previous vertex of the top chain (the old tail of the
    back-chain), `B` the point of the head -/
theorem bendT_genF
    (hNT : N[iT]? = some hTn)
    (hbt : (backTriangulate ⟨N.size, iB, N.size⟩ true).run
        (stC V (.fin p.1) (appT N iT hTn (Fq p)) N.size iB N.size (Fq rO) (Fq p) [(vO, [0])] out) =
        .ok ((), stC V (.fin p.1) N2 N.size iB N.size (Fq rO) (Fq p) [(vO, [0])] (ts ++ out)))
    (l1 : N2[iB]? = some ⟨Fq B, u1, u2⟩) (l2 : N2[N.size]? = some ⟨Fq p, u3, u4⟩)
    (hv : V[vi]? = some ⟨Fq p, n1, n2⟩) (hn : Nbrs n1 n2 vB r)
    (hTv : V[vB]? = some ⟨Fq T, a1, a2⟩) (hrp : V[r]? = some ⟨Fq rp, a5, a6⟩)
    (hO : V[vO]? = some ⟨Fq rO, a7, a8⟩)
    (hTp : T.1 < p.1) (hpr : p.1 < rp.1) (hBO : B.1 < rO.1) (hBp : B.1 ≤ p.1) (hpO : p.1 < rO.1)
    (hsame : rp.1 = rO.1 → rp = rO)
    (hlt : rp.1 < rO.1 → 0 < orient B rO rp) (hgt : rO.1 < rp.1 → orient p rp rO < 0) :
    Runs (stC V x N rm iB iT (Fq rO) (Fq p) [(vi, [1]), (vO, [0])] out)
      (.ok ((), stC V (.fin p.1) N2 N.size iB N.size (Fq rO) (Fq rp)
        (evMerge ((Fq rp).cmp (Fq rO)) r 1 vO [0]) (ts ++ out))) handleNext := by
  obtain ⟨o1, o2⟩ := ovT B p rp rO hpr hBO hBp hpO hsame hlt hgt
  have hx : ofEq (Fq rp).x (Fq p).x = false := by simp [ne_of_gt hpr]
  obtain ⟨f1, f2⟩ := ft_bend T p rp hTp hpr
  rcases hn with ⟨rfl, rfl⟩ | ⟨rfl, rfl⟩
  · exact bendT_gen V x N N2 rm iB iT (Fq B) (Fq p) (Fq T) (Fq rp) (Fq rp) (Fq rO) vi n1 n2 n2 vO
      a1 a2 a5 a6 a5 a6 a7 a8 out ts _ (XQ.fin (min rp.1 rO.1)) hTn u1 u2 u3 u4 hNT hbt l1 l2 hv hTv hrp f1
      (by rw [ge_false T rp (lt_trans hTp hpr)]; simp) hrp hO rfl hx (minTotal_fin _ _) o1 o2 rfl
  · exact bendT_gen V x N N2 rm iB iT (Fq B) (Fq p) (Fq rp) (Fq T) (Fq rp) (Fq rO) vi n1 n2 n1 vO
      a5 a6 a1 a2 a5 a6 a7 a8 out ts _ (XQ.fin (min rp.1 rO.1)) hTn u1 u2 u3 u4 hNT hbt l1 l2 hv hrp hTv f2
      (by rw [ge_true T rp (lt_trans hTp hpr)]; simp) hrp hO rfl hx (minTotal_fin _ _) o1 o2 rfl

/-- the End event; `B`, `T` are the last vertices of the two chains (head and tail of the
    back-chain) -/
theorem end_genF (xs : Rat) (vT : Nat) (es : List Nat)
    (hNB : N[iB]? = some ⟨Fq B, u1, u2⟩) (hNT : N[iT]? = some ⟨Fq T, u3, u4⟩)
    (hbt : (backTriangulate ⟨N.size, iB, N.size⟩ true).run
        (stE V (.fin p.1) (appT N iT ⟨Fq T, u3, u4⟩ (Fq p)) N.size iB N.size (Fq p) (Fq p) out) =
        .ok ((), stE V (.fin p.1) N2 N.size iB N.size (Fq p) (Fq p) (ts ++ out)))
    (hv : V[vi]? = some ⟨Fq p, n1, n2⟩) (hn : Nbrs n1 n2 vB vT)
    (hB : V[vB]? = some ⟨Fq B, a1, a2⟩) (hT : V[vT]? = some ⟨Fq T, a5, a6⟩)
    (hes : es = [0, 1] ∨ es = [1, 0])
    (hBx : B.1 ≤ xs) (hTx : T.1 ≤ xs) (hxp : xs < p.1)
    (ho : orient B T p < 0) :
    Runs (stC V (.fin xs) N rm iB iT (Fq p) (Fq p) [(vi, es)] out)
      (.ok ((), stE V (.fin p.1) N2 N.size iB N.size (Fq p) (Fq p) (ts ++ out))) handleNext := by
  have hBp : B.1 < p.1 := lt_of_le_of_lt hBx hxp
  have hTp : T.1 < p.1 := lt_of_le_of_lt hTx hxp
  have hg1 := ofGe_gradR_true B T p hBp hTp ho
  have hg2 := ofGe_gradR_false T B p hTp hBp
    (by have := orient_swap B T p; have := orient_rot B p T; simp only [orient] at *; linarith)
  have hc := cmpE_fanR_lt B T p xs hBx hTx hxp ho
  rcases hn with ⟨rfl, rfl⟩ | ⟨rfl, rfl⟩
  · exact end_gen V (.fin xs) N N2 rm iB iT (Fq B) (Fq T) (Fq p) (Fq B) (Fq T) vi n1 n2
      a1 a2 a5 a6 out ts u1 u2 u3 u4 es hNB hNT hbt hv hB hT (ft_end p B T hBp hTp) hes rfl hg1 hg2 hc
  · exact end_gen V (.fin xs) N N2 rm iB iT (Fq B) (Fq T) (Fq p) (Fq T) (Fq B) vi n1 n2
      a5 a6 a1 a2 out ts u1 u2 u3 u4 es hNB hNT hbt hv hT hB (ft_end p T B hTp hBp) hes rfl hg1 hg2 hc

end

end Cav.MonoFlows
