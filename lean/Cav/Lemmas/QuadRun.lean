/-
  Additions to the symbolic executor of `TriRun.lean` needed for quadrilaterals: pure mirrors and
  run lemmas for `cmpAt` and `partialCmpEdge`, and the start state of the event loop.
-/
import Cav.Lemmas.TriEvents

set_option linter.unusedSectionVars false

namespace Cav.QuadRun
open Cav Num Cav.Sweep Cav.SweepRun Cav.TriRun

variable {α : Type} [Num α]

/-- pure mirror of `cmpAt` -/
def cmpAtP (la ra lb rb : Pt α) (x : α) (right : Bool) : Ordering :=
  if !(Num.isFinite x) then .eq
  else thenOrd (Num.totalCmp (yExtrap la ra x right) (yExtrap lb rb x right))
    (Num.totalCmp (la.grad ra) (lb.grad rb))

theorem run_cmpAt (a b : Edge α) (x : α) (right : Bool) (s : St α)
    (ha : (lpt? s a).isSome = true) (hb : (lpt? s b).isSome = true) :
    (cmpAt a b x right).run s = .ok (cmpAtP (lptD s a) a.rpt (lptD s b) b.rpt x right, s) := by
  unfold cmpAt cmpAtP
  cases hx : Num.isFinite x
  · simp only [Bool.not_false, if_true, run_pure]
  · simp only [Bool.not_true, Bool.false_eq_true, if_false, run_bind, run_yAt a _ _ s ha,
      run_yAt b _ _ s hb, run_edgeGrad a s ha, run_edgeGrad b s hb, run_pure]

/-- pure mirror of `partialCmpEdge` -/
def partialCmpEdgeP (la ra lb rb : Pt α) (x : α) : Option Ordering :=
  if !(Num.isFinite x) then some .eq
  else
    match ofCmp (yExtrap la ra x true) (yExtrap lb rb x true) with
    | .eq => some (ofCmp (la.grad ra) (lb.grad rb))
    | o => some o

theorem run_partialCmpEdge (a b : Edge α) (s : St α)
    (ha : (lpt? s a).isSome = true) (hb : (lpt? s b).isSome = true) :
    (partialCmpEdge a b).run s =
      .ok (partialCmpEdgeP (lptD s a) a.rpt (lptD s b) b.rpt s.x, s) := by
  unfold partialCmpEdge partialCmpEdgeP
  simp only [run_bind, run_get]
  cases hx : Num.isFinite s.x
  · simp only [Bool.not_false, if_true, run_pure]
  · simp only [Bool.not_true, Bool.false_eq_true, if_false, run_bind, run_yAt a _ _ s ha,
      run_yAt b _ _ s hb]
    generalize ofCmp (yExtrap (lptD s a) a.rpt s.x true) (yExtrap (lptD s b) b.rpt s.x true) = o
    cases o
    · rfl
    · simp only [run_bind, run_edgeGrad a s ha, run_edgeGrad b s hb, run_pure]
    · rfl

theorem Runs.loop_step {n : Nat} {s : St XQ} {r : Except (SErr XQ) (Unit × St XQ)}
    (hne : s.events.isEmpty = false) (h : Runs s r (handleNext >>= fun _ => loop n)) :
    Runs s r (loop (n + 1)) := by
  unfold Runs at *
  rw [TriEvents.loop_succ_run, hne]
  simp only [Bool.false_eq_true, if_false]
  rw [run_bind] at h
  rw [← h]
  cases (handleNext : SM XQ Unit).run s with
  | ok p => rfl
  | error e => rfl

theorem Runs.loop_done {n : Nat} {s : St XQ} (he : s.events.isEmpty = true) :
    Runs s (.ok ((), s)) (loop (n + 1)) := by
  unfold Runs
  rw [TriEvents.loop_succ_run, he]
  simp only [if_true]

theorem Runs.bind' {β γ : Type} {m : SM XQ β} {f : β → SM XQ γ} {s s1 : St XQ} {b : β}
    {r : Except (SErr XQ) (γ × St XQ)} (h : Runs s (.ok (b, s1)) m) (k : Runs s1 r (f b)) :
    Runs s r (m >>= f) := Runs.bind h k

/-- all `bind`/condition steps of a `do` block, stopping at its last statement -/
syntax "sm_steps" ("[" Lean.Parser.Tactic.simpLemma,* "]")? : tactic
macro_rules
  | `(tactic| sm_steps) => `(tactic| sm_steps [])
  | `(tactic| sm_steps [$args,*]) => `(tactic|
      (repeat (first | sm_bind [$args,*] | sm_cond [$args,*])))

/-- one pass of the event loop: `loop (n+1)` with a non-empty queue -/
syntax "sm_event" ("[" Lean.Parser.Tactic.simpLemma,* "]")? : tactic
macro_rules
  | `(tactic| sm_event) => `(tactic| sm_event [])
  | `(tactic| sm_event [$args,*]) => `(tactic|
      (refine Runs.loop_step rfl (Runs.bind' (b := ?_) (s1 := ?_) ?ev ?rest)
       case ev =>
         unfold handleNext
         sm_steps [$args,*]
         first | unfold handleStart | unfold handleBend | unfold handleEnd
         sm_eval [$args,*]
       sm_whnf))

theorem except_map_ok {ε β γ : Type} (f : β → γ) (a : β) :
    f <$> (Except.ok a : Except ε β) = .ok (f a) := rfl

theorem totalCmp_self (a : XQ) : Num.totalCmp a a = .eq := by
  cases a with
  | fin q => show (if q < q then Ordering.lt else if q < q then .gt else .eq) = .eq; simp
  | _ => decide +kernel

theorem cmpEdgeP_self (l r : Pt XQ) (x : XQ) : cmpEdgeP l r l r x = .eq := by
  unfold cmpEdgeP
  split
  · rfl
  · simp only [totalCmp_self]
    split <;> rfl

/-- all comparisons between four points whose abscissae are finite and strictly increasing -/
structure Ord4 (p1 p2 p3 p4 : Pt XQ) : Prop where
  f1 : Num.isFinite p1.x = true
  f2 : Num.isFinite p2.x = true
  f3 : Num.isFinite p3.x = true
  f4 : Num.isFinite p4.x = true
  c11 : p1.cmp p1 = .eq
  c12 : p1.cmp p2 = .lt
  c13 : p1.cmp p3 = .lt
  c14 : p1.cmp p4 = .lt
  c21 : p2.cmp p1 = .gt
  c22 : p2.cmp p2 = .eq
  c23 : p2.cmp p3 = .lt
  c24 : p2.cmp p4 = .lt
  c31 : p3.cmp p1 = .gt
  c32 : p3.cmp p2 = .gt
  c33 : p3.cmp p3 = .eq
  c34 : p3.cmp p4 = .lt
  c41 : p4.cmp p1 = .gt
  c42 : p4.cmp p2 = .gt
  c43 : p4.cmp p3 = .gt
  c44 : p4.cmp p4 = .eq
  e12 : p1.eq p2 = false
  e13 : p1.eq p3 = false
  e14 : p1.eq p4 = false
  e21 : p2.eq p1 = false
  e23 : p2.eq p3 = false
  e24 : p2.eq p4 = false
  e31 : p3.eq p1 = false
  e32 : p3.eq p2 = false
  e34 : p3.eq p4 = false
  e41 : p4.eq p1 = false
  e42 : p4.eq p2 = false
  e43 : p4.eq p3 = false
  x11 : Num.ofEq p1.x p1.x = true
  x12 : Num.ofEq p1.x p2.x = false
  x13 : Num.ofEq p1.x p3.x = false
  x14 : Num.ofEq p1.x p4.x = false
  x21 : Num.ofEq p2.x p1.x = false
  x22 : Num.ofEq p2.x p2.x = true
  x23 : Num.ofEq p2.x p3.x = false
  x24 : Num.ofEq p2.x p4.x = false
  x31 : Num.ofEq p3.x p1.x = false
  x32 : Num.ofEq p3.x p2.x = false
  x33 : Num.ofEq p3.x p3.x = true
  x34 : Num.ofEq p3.x p4.x = false
  x41 : Num.ofEq p4.x p1.x = false
  x42 : Num.ofEq p4.x p2.x = false
  x43 : Num.ofEq p4.x p3.x = false
  x44 : Num.ofEq p4.x p4.x = true
  m12 : minTotal p1.x p2.x = p1.x
  m13 : minTotal p1.x p3.x = p1.x
  m14 : minTotal p1.x p4.x = p1.x
  m21 : minTotal p2.x p1.x = p1.x
  m23 : minTotal p2.x p3.x = p2.x
  m24 : minTotal p2.x p4.x = p2.x
  m31 : minTotal p3.x p1.x = p1.x
  m32 : minTotal p3.x p2.x = p2.x
  m34 : minTotal p3.x p4.x = p3.x
  m41 : minTotal p4.x p1.x = p1.x
  m42 : minTotal p4.x p2.x = p2.x
  m43 : minTotal p4.x p3.x = p3.x

/-- state after the set-up loop with event queue `evs` -/
def stQ (V : Array (Vtx XQ)) (evs : List (Nat × List Nat)) : St XQ :=
  { x := -(Num.inf : XQ), verts := V, nodes := #[], chains := #[], edges := #[], active := [],
    events := evs, out := [], mono := true }

/-- ring neighbours in one of the two ring orientations -/
def nb (ori : Bool) (a b : Nat) : Nat × Nat := if ori then (a, b) else (b, a)

set_option hygiene false in
/-- one event, with the standing hypotheses of the flow lemmas of `QuadEvents*.lean`: the ring
    look-ups `h1 … h4` and the fields of `Ord4` under their own names -/
macro "qev" "[" args:Lean.Parser.Tactic.simpLemma,* "]" : tactic =>
  `(tactic| sm_event [h1, h2, h3, h4, f1, f2, f3, f4, c11, c12, c13, c14, c21, c22, c23, c24, c31, c32, c33, c34, c41, c42, c43, c44, e12, e13, e14, e21, e23, e24, e31, e32, e34, e41, e42, e43, x11, x12, x13, x14, x21, x22, x23, x24, x31, x32, x33, x34, x41, x42, x43, x44, m12, m13, m14, m21, m23, m24, m31, m32, m34, m41, m42, m43,
      fromTriplet, Pt.lt, Pt.gt, Pt.ge, run_cmpEdge, run_cmpAt, run_partialCmpEdge, run_yAt,
      run_edgeGrad, lpt?, lptD, verticalIsCrossed, verticalIsCrossed.go, eventsAdd, eventsAdd.go,
      search, searchPos, cmpAll, isMono, activeInsert, activeRemove, willOverlapBot, willOverlapTop,
      chainAppend, chainSplit, chainMerge, backTriangulate, nodeTriangulate, nodeFuel,
      except_map_ok, cmpEdgeP_self, $args,*])

end Cav.QuadRun
