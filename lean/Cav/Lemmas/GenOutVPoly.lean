/-
  Output of the sweep, equal abscissae allowed: the right-hand sides of the count/area theorem
  for the SHEARED polygon list, re-expressed by ε-free, decidable, LEXICOGRAPHIC quantities of the
  original list.

  * `shP ε polys`: the sheared polygon list; `ringOf_shP`: its vertex ring is the sheared ring;
    `valid_shP`: it is a valid set in general position (the components of `C04General.ValidSet`);
  * `leftIdxV`, `EBelowV`, `nBelowV`, `isLoV`, `holeLikeV`, `triCountV`, `evenOddSignedV`,
    `evenOddArea2V`: the definitions of `GenOutDefs` / `GenOutPolyDefs` with the comparison of
    abscissae replaced by the lexicographic comparison of points and the comparison of heights
    replaced by orientation determinants;
  * `triCount_shP`, `evenOddSigned_shP`, `evenOddArea2_shP`: for a shear with `ShOK` the quantities
    of the sheared list are the lexicographic quantities of the original list.
-/
import Cav.Lemmas.GenVShear
import Cav.Lemmas.GenVAccept
import Cav.Lemmas.GenOutPoly

set_option linter.unusedSimpArgs false
set_option linter.unusedVariables false

namespace Cav.GenOutVPoly
open Cav Cav.Geo Cav.QuadGeom Cav.GenInv Cav.GenRing Cav.GenValid Cav.GenVShear Cav.CvxLoop Cav.CvxPoly
open Cav.GenOutDefs Cav.GenOutPoly Cav.GenOutCount
open Cav.GenGeom hiding Q

/-- the sheared polygon list -/
def shP (ε : Rat) (polys : List (Array Q)) : List (Array Q) := polys.map fun p => p.map (shear ε)

/-! ### the ring of the sheared list -/

theorem shear_zero (ε : Rat) : shear ε ((0, 0) : Q) = (0, 0) := by
  unfold shear; simp

theorem getD_map_shear (ε : Rat) (P : Array Q) (i : Nat) :
    (P.map (shear ε)).getD i (0, 0) = shear ε (P.getD i (0, 0)) := by
  by_cases h : i < P.size
  · simp [Array.getD, h]
  · simp [Array.getD, h, shear_zero]

/-- the sheared cell -/
def shCell (ε : Rat) (c : Cell) : Cell := (shear ε c.1, c.2.1, c.2.2)

theorem cellsOf_shear (ε : Rat) (base : Nat) (p : Array Q) :
    cellsOf base (p.map (shear ε)) = (cellsOf base p).map (shCell ε) := by
  unfold cellsOf
  rw [List.map_map]
  simp only [Array.size_map]
  apply List.map_congr_left
  intro i _
  simp only [Function.comp, shCell, getD_map_shear]

theorem cellsAll_shear (ε : Rat) : ∀ (polys : List (Array Q)) (base : Nat),
    cellsAll base (shP ε polys) = (cellsAll base polys).map (shCell ε)
  | [], _ => rfl
  | p :: r, base => by
    show cellsOf base (p.map (shear ε)) ++ cellsAll (base + (p.map (shear ε)).size) (shP ε r) = _
    rw [cellsOf_shear, Array.size_map, cellsAll_shear ε r]
    simp only [cellsAll, List.map_append]

theorem getD_map_shCell (ε : Rat) (C : List Cell) (i : Nat) :
    (C.map (shCell ε)).getD i ((0, 0), 0, 0) = shCell ε (C.getD i ((0, 0), 0, 0)) := by
  rw [List.getD_eq_getElem?_getD, List.getD_eq_getElem?_getD, List.getElem?_map]
  cases C[i]? with
  | none =>
    show ((0, 0), 0, 0) = shCell ε ((0, 0), 0, 0)
    unfold shCell
    rw [shear_zero]
  | some c => rfl

theorem ringOfCells_shear (ε : Rat) (C : List Cell) :
    ringOfCells (C.map (shCell ε)) = shearRing ε (ringOfCells C) := by
  unfold ringOfCells shearRing
  simp only [RingQ.mk.injEq, List.length_map, true_and]
  refine ⟨?_, ?_, ?_⟩ <;> funext i <;> rw [getD_map_shCell] <;> rfl

/-- **the vertex ring of the sheared list is the sheared ring** -/
theorem ringOf_shP (ε : Rat) (polys : List (Array Q)) :
    ringOf (shP ε polys) = shearRing ε (ringOf polys) := by
  unfold ringOf
  rw [cellsAll_shear, ringOfCells_shear]

theorem mem_shP {ε : Rat} {polys : List (Array Q)} {p : Array Q} (h : p ∈ shP ε polys) :
    ∃ q ∈ polys, p = q.map (shear ε) := by
  unfold shP at h
  obtain ⟨q, hq, e⟩ := List.mem_map.mp h
  exact ⟨q, hq, e.symm⟩

/-- **the sheared list of a polygon list that is valid in the lexicographic sense is a valid set in
    general position** (the four components of `Cav.C04General.ValidSet (shP ε polys)`) -/
theorem valid_shP {polys : List (Array Q)} {ε : Rat} {Vε : Array (Vtx XQ)}
    (h3 : ∀ p ∈ polys, 3 ≤ p.size) (hnd : (polys.flatMap Array.toList).Nodup)
    (hSh : ShOK (ringOf polys) ε Vε) :
    (∀ p ∈ shP ε polys, 3 ≤ p.size) ∧ (((shP ε polys).flatMap Array.toList).map (·.1)).Nodup ∧
      EdgesApart (ringOf (shP ε polys)) ∧ NoSpike (ringOf (shP ε polys)) := by
  refine ⟨?_, ?_, ?_, ?_⟩
  · intro p hp
    obtain ⟨q, hq, rfl⟩ := mem_shP hp
    rw [Array.size_map]
    exact h3 q hq
  · rw [← cellsAll_pts (shP ε polys) 0, List.map_map]
    rw [List.nodup_iff_pairwise_ne, List.pairwise_iff_getElem]
    intro i j hi hj hij e
    rw [List.length_map] at hi hj
    have hci : (cellsAll 0 (shP ε polys))[i]? = some (cellsAll 0 (shP ε polys))[i] :=
      List.getElem?_eq_getElem hi
    have hcj : (cellsAll 0 (shP ε polys))[j]? = some (cellsAll 0 (shP ε polys))[j] :=
      List.getElem?_eq_getElem hj
    have ei : (ringOf (shP ε polys)).pt i = _ := (ring_cell hci).1
    have ej : (ringOf (shP ε polys)).pt j = _ := (ring_cell hcj).1
    simp only [List.getElem_map, Function.comp] at e
    rw [← ei, ← ej, ringOf_shP] at e
    have hn : (cellsAll 0 (shP ε polys)).length = (ringOf polys).n := by
      show (ringOf (shP ε polys)).n = _
      rw [ringOf_shP]; rfl
    have hi' : i < (ringOf polys).n := by rw [← hn]; exact hi
    have hj' : j < (ringOf polys).n := by rw [← hn]; exact hj
    have := hSh.ring.distinct i j hi' hj' e
    omega
  · rw [ringOf_shP]
    exact edgesApart_shear hSh.key hSh.ring.nxt_lt hSh.apart
  · rw [ringOf_shP]
    exact noSpike_shear hSh.key hSh.ring.nxt_lt hSh.ring.prv_lt hSh.nospike

/-! ### the ε-free lexicographic quantities -/

/-- index of the lexicographically smallest vertex of a polygon (the first one of them; in a
    valid set it is unique) -/
def leftIdxV (P : Array Q) : Nat :=
  (List.range P.size).foldl
    (fun best i => if lexLt (P.getD i (0, 0)) (P.getD best (0, 0)) then i else best) 0

/-- the ring edge `u' → v'` (walked in the lexicographic order) passes below the ring edge `u → v`
    at the point `u`: `u'` is not after `u` and `v'` is after `u` in the lexicographic order — `u`
    lies in the lexicographic span of the edge `u' → v'` — and `u` is strictly on the left of the
    directed line `u' → v'`, i.e. above the edge (a vertical edge never qualifies: a point in its
    lexicographic span lies on its line); two edges leaving the same vertex `u` are compared by
    the orientation determinant.  This is the form of the specification; under `ShOK` it is
    equivalent to `EBelow (shearRing ε R) u v u' v'` for `u, u', v' < R.n` (`eBelow_shear`). -/
def EBelowV (R : RingQ) (u v u' v' : Nat) : Prop :=
  ¬ lexLt (R.pt u) (R.pt u') ∧ lexLt (R.pt u) (R.pt v') ∧
    (0 < orient (R.pt u') (R.pt v') (R.pt u) ∨ (u' = u ∧ 0 < orient (R.pt u) (R.pt v') (R.pt v)))

instance (R : RingQ) (u v u' v' : Nat) : Decidable (EBelowV R u v u' v') := by
  unfold EBelowV; exact inferInstance

/-- number of ring edges below the ring edge `u → v` at the point `u` -/
def nBelowV (R : RingQ) (u v : Nat) : Nat :=
  ((List.range R.n).map fun u' =>
    (if EBelowV R u v u' (R.nxt u') then 1 else 0) + (if EBelowV R u v u' (R.prv u') then 1 else 0)).sum

/-- the ring edge `u → v` is a lower boundary edge of the even-odd region -/
def isLoV (R : RingQ) (u v : Nat) : Prop := nBelowV R u v % 2 = 0

instance (R : RingQ) (u v : Nat) : Decidable (isLoV R u v) := by unfold isLoV; exact inferInstance

/-- **parity of the nesting depth** of the polygon `P` whose first vertex has ring index `b` -/
def holeLikeV (R : RingQ) (b : Nat) (P : Array Q) : Prop :=
  ¬ isLoV R (b + leftIdxV P) (lowerNbr R (b + leftIdxV P))

instance (R : RingQ) (b : Nat) (P : Array Q) : Decidable (holeLikeV R b P) := by
  unfold holeLikeV; exact inferInstance

/-- **the expected number of triangles**: `n - 2` for a polygon at even nesting depth, `n + 2`
    for one at odd depth -/
def triCountV (polys : List (Array Q)) : Nat :=
  ((blocks 0 polys).map fun bp =>
    if holeLikeV (ringOf polys) bp.1 bp.2 then bp.2.size + 2 else bp.2.size - 2).sum

/-- the signed doubled area: outer polygons minus holes plus islands … -/
def evenOddSignedV (polys : List (Array Q)) : Rat :=
  ((blocks 0 polys).map fun bp =>
    (if holeLikeV (ringOf polys) bp.1 bp.2 then -1 else 1) * |shoelace bp.2|).sum

/-- **the doubled area of the even-odd region** -/
def evenOddArea2V (polys : List (Array Q)) : Rat := |evenOddSignedV polys|

/-! ### the sheared quantities are the lexicographic ones -/

section ring
variable {R : RingQ} {ε : Rat} {Vε : Array (Vtx XQ)}

/-- **`EBelow` in the sheared ring is `EBelowV` in the original ring** -/
theorem eBelow_shear (hSh : ShOK R ε Vε) {u u' v' : Nat} (v : Nat) (hu : u < R.n) (hu' : u' < R.n)
    (hv' : v' < R.n) : EBelow (shearRing ε R) u v u' v' ↔ EBelowV R u v u' v' := by
  have k1 : (shearRing ε R).x u' ≤ (shearRing ε R).x u ↔ ¬ lexLt (R.pt u) (R.pt u') := by
    rw [← hSh.key u u' hu hu', not_lt]
  have k2 := hSh.key u v' hu hv'
  have e2 : lineY ((shearRing ε R).pt u) ((shearRing ε R).pt v) ((shearRing ε R).x u) =
      ((shearRing ε R).pt u).2 := lineY_left _ _
  constructor
  · rintro ⟨h1, h2, h3⟩
    refine ⟨k1.mp h1, k2.mp h2, ?_⟩
    have hlt : ((shearRing ε R).pt u').1 < ((shearRing ε R).pt v').1 := lt_of_le_of_lt h1 h2
    rcases h3 with h | ⟨e, -, h⟩
    · left
      change lineY ((shearRing ε R).pt u') ((shearRing ε R).pt v') ((shearRing ε R).x u) <
        lineY ((shearRing ε R).pt u) ((shearRing ε R).pt v) ((shearRing ε R).x u) at h
      rw [e2] at h
      have := orient_pos_of_above _ _ ((shearRing ε R).pt u) hlt h
      rwa [orient_ring] at this
    · right
      change u' = u at e
      change 0 < orient ((shearRing ε R).pt u') ((shearRing ε R).pt v') ((shearRing ε R).pt v) at h
      rw [orient_ring, e] at h
      exact ⟨e, h⟩
  · rintro ⟨h1, h2, h3⟩
    have h1' := k1.mpr h1
    have h2' := k2.mpr h2
    refine ⟨h1', h2', ?_⟩
    have hlt : ((shearRing ε R).pt u').1 < ((shearRing ε R).pt v').1 := lt_of_le_of_lt h1' h2'
    rcases h3 with h | ⟨e, h⟩
    · left
      show lineY ((shearRing ε R).pt u') ((shearRing ε R).pt v') ((shearRing ε R).x u) <
        lineY ((shearRing ε R).pt u) ((shearRing ε R).pt v) ((shearRing ε R).x u)
      rw [e2]
      rw [← orient_ring ε] at h
      exact above_of_orient_pos _ _ ((shearRing ε R).pt u) hlt h
    · right
      refine ⟨e, by rw [e], ?_⟩
      show 0 < orient ((shearRing ε R).pt u') ((shearRing ε R).pt v') ((shearRing ε R).pt v)
      rw [orient_ring, e]
      exact h

theorem nBelow_shear (hSh : ShOK R ε Vε) {u : Nat} (v : Nat) (hu : u < R.n) :
    nBelow (shearRing ε R) u v = nBelowV R u v := by
  unfold nBelow nBelowV
  apply sum_range_congr
  intro u' hu'
  have hu'' : u' < R.n := hu'
  have hn : R.nxt u' < R.n := hSh.ring.nxt_lt u' hu''
  have hp : R.prv u' < R.n := hSh.ring.prv_lt u' hu''
  have a1 : EBelow (shearRing ε R) u v u' ((shearRing ε R).nxt u') ↔ EBelowV R u v u' (R.nxt u') :=
    eBelow_shear hSh v hu hu'' hn
  have a2 : EBelow (shearRing ε R) u v u' ((shearRing ε R).prv u') ↔ EBelowV R u v u' (R.prv u') :=
    eBelow_shear hSh v hu hu'' hp
  rw [if_congr a1 rfl rfl, if_congr a2 rfl rfl]

theorem isLo_shear (hSh : ShOK R ε Vε) {u : Nat} (v : Nat) (hu : u < R.n) :
    isLo (shearRing ε R) u v ↔ isLoV R u v := by
  unfold isLo isLoV
  rw [nBelow_shear hSh v hu]

theorem lowerNbr_shear (ε : Rat) (R : RingQ) (v : Nat) : lowerNbr (shearRing ε R) v = lowerNbr R v := by
  unfold lowerNbr
  rw [orient_ring]
  rfl

end ring

/-! ### the shoelace sum and the leftmost vertex -/

theorem cyc_shear (ε : Rat) (P : Array Q) (k : Nat) : cyc (P.map (shear ε)) k = shear ε (cyc P k) := by
  unfold cyc
  rw [getD_map_shear, Array.size_map]

/-- the shoelace sum is invariant under the shear -/
theorem shoelace_shear (ε : Rat) (P : Array Q) : shoelace (P.map (shear ε)) = shoelace P := by
  unfold shoelace
  rw [Array.size_map]
  apply Finset.sum_congr rfl
  intro i _
  rw [cyc_shear, cyc_shear]
  unfold shear
  ring

/-- the step functions of `leftIdx (P.map (shear ε))` and of `leftIdxV P` -/
def stepE (ε : Rat) (P : Array Q) (best i : Nat) : Nat :=
  if ((P.map (shear ε)).getD i (0, 0)).1 < ((P.map (shear ε)).getD best (0, 0)).1 then i else best

def stepV (P : Array Q) (best i : Nat) : Nat :=
  if lexLt (P.getD i (0, 0)) (P.getD best (0, 0)) then i else best

theorem leftIdx_stepE (ε : Rat) (P : Array Q) :
    leftIdx (P.map (shear ε)) = (List.range P.size).foldl (stepE ε P) 0 := by
  unfold leftIdx
  rw [Array.size_map]
  rfl

theorem leftIdxV_stepV (P : Array Q) : leftIdxV P = (List.range P.size).foldl (stepV P) 0 := rfl

theorem leftFold_shear {ε : Rat} {P : Array Q}
    (hcmp : ∀ i j, i < P.size → j < P.size →
      ((shear ε (P.getD i (0, 0))).1 < (shear ε (P.getD j (0, 0))).1 ↔
        lexLt (P.getD i (0, 0)) (P.getD j (0, 0)))) :
    ∀ (l : List Nat) (best : Nat), best < P.size → (∀ i ∈ l, i < P.size) →
      l.foldl (stepE ε P) best = l.foldl (stepV P) best ∧ l.foldl (stepV P) best < P.size
  | [], best, hb, _ => ⟨rfl, hb⟩
  | a :: r, best, hb, hl => by
    have ha : a < P.size := hl a List.mem_cons_self
    have e : stepE ε P best a = stepV P best a := by
      unfold stepE stepV
      rw [getD_map_shear, getD_map_shear]
      exact if_congr (hcmp a best ha hb) rfl rfl
    have hs : stepV P best a < P.size := by
      unfold stepV
      by_cases hc : lexLt (P.getD a (0, 0)) (P.getD best (0, 0))
      · rw [if_pos hc]; exact ha
      · rw [if_neg hc]; exact hb
    rw [List.foldl_cons, List.foldl_cons, e]
    exact leftFold_shear hcmp r _ hs (fun i hi => hl i (List.mem_cons_of_mem _ hi))

section block
variable {polys : List (Array Q)} {ε : Rat} {Vε : Array (Vtx XQ)}

theorem block_cmp (hSh : ShOK (ringOf polys) ε Vε) {b : Nat} {P : Array Q}
    (h : (b, P) ∈ blocks 0 polys) : ∀ i j, i < P.size → j < P.size →
      ((shear ε (P.getD i (0, 0))).1 < (shear ε (P.getD j (0, 0))).1 ↔
        lexLt (P.getD i (0, 0)) (P.getD j (0, 0))) := by
  intro i j hi hj
  rw [← block_pt h hi, ← block_pt h hj]
  exact hSh.key (b + i) (b + j) (block_lt h hi) (block_lt h hj)

/-- the leftmost vertex of the sheared polygon is the lexicographically smallest vertex -/
theorem leftIdx_shear (hSh : ShOK (ringOf polys) ε Vε) {b : Nat} {P : Array Q}
    (h : (b, P) ∈ blocks 0 polys) (h0 : 0 < P.size) :
    leftIdx (P.map (shear ε)) = leftIdxV P ∧ leftIdxV P < P.size := by
  rw [leftIdx_stepE, leftIdxV_stepV]
  exact leftFold_shear (block_cmp hSh h) _ 0 h0 (fun i hi => List.mem_range.mp hi)

/-- **the parity of the nesting depth in the sheared picture** -/
theorem holeLike_shear (hSh : ShOK (ringOf polys) ε Vε) {b : Nat} {P : Array Q}
    (h : (b, P) ∈ blocks 0 polys) (h0 : 0 < P.size) :
    holeLike (shearRing ε (ringOf polys)) b (P.map (shear ε)) ↔ holeLikeV (ringOf polys) b P := by
  obtain ⟨e, hL⟩ := leftIdx_shear hSh h h0
  unfold holeLike holeLikeV
  rw [e, lowerNbr_shear, isLo_shear hSh _ (block_lt h hL)]

end block

theorem blocks_shP (ε : Rat) : ∀ (polys : List (Array Q)) (b : Nat),
    blocks b (shP ε polys) = (blocks b polys).map fun bp => (bp.1, bp.2.map (shear ε))
  | [], _ => rfl
  | p :: r, b => by
    show (b, p.map (shear ε)) :: blocks (b + (p.map (shear ε)).size) (shP ε r) = _
    rw [Array.size_map, blocks_shP ε r]
    rfl

/-! ### the main results -/

section main
variable {polys : List (Array Q)} {ε : Rat} {Vε : Array (Vtx XQ)}

/-- **the number of triangles of the sheared list, ε-free** -/
theorem triCount_shP (h3 : ∀ p ∈ polys, 3 ≤ p.size) (hnd : (polys.flatMap Array.toList).Nodup)
    (hSh : ShOK (ringOf polys) ε Vε) : triCount (shP ε polys) = triCountV polys := by
  unfold triCount triCountV
  rw [ringOf_shP, blocks_shP, List.map_map]
  apply sum_map_congr
  intro bp hbp
  have hbp' : (bp.1, bp.2) ∈ blocks 0 polys := hbp
  have h0 : 0 < bp.2.size := by have := h3 bp.2 (block_mem hbp'); omega
  show (if holeLike (shearRing ε (ringOf polys)) bp.1 (bp.2.map (shear ε)) then
      (bp.2.map (shear ε)).size + 2 else (bp.2.map (shear ε)).size - 2) = _
  rw [Array.size_map, if_congr (holeLike_shear hSh hbp' h0) rfl rfl]

/-- **the signed doubled area of the sheared list, ε-free** -/
theorem evenOddSigned_shP (h3 : ∀ p ∈ polys, 3 ≤ p.size) (hnd : (polys.flatMap Array.toList).Nodup)
    (hSh : ShOK (ringOf polys) ε Vε) : evenOddSigned (shP ε polys) = evenOddSignedV polys := by
  unfold evenOddSigned evenOddSignedV
  rw [ringOf_shP, blocks_shP, List.map_map]
  apply sum_map_congr
  intro bp hbp
  have hbp' : (bp.1, bp.2) ∈ blocks 0 polys := hbp
  have h0 : 0 < bp.2.size := by have := h3 bp.2 (block_mem hbp'); omega
  show (if holeLike (shearRing ε (ringOf polys)) bp.1 (bp.2.map (shear ε)) then (-1 : Rat) else 1) *
      |shoelace (bp.2.map (shear ε))| = _
  rw [shoelace_shear, if_congr (holeLike_shear hSh hbp' h0) rfl rfl]

/-- **the doubled area of the even-odd region of the sheared list, ε-free** -/
theorem evenOddArea2_shP (h3 : ∀ p ∈ polys, 3 ≤ p.size) (hnd : (polys.flatMap Array.toList).Nodup)
    (hSh : ShOK (ringOf polys) ε Vε) : evenOddArea2 (shP ε polys) = evenOddArea2V polys := by
  unfold evenOddArea2 evenOddArea2V
  rw [evenOddSigned_shP h3 hnd hSh]

end main

/-! ### non-vacuity: axis-aligned shapes (the sets of `Cav/Thm/C04GeneralV.lean`), evaluated by the
    kernel -/

private def Lshape : List (Array Q) := [#[(0, 0), (2, 0), (2, 1), (1, 1), (1, 2), (0, 2)]]
private def Ushape : List (Array Q) :=
  [#[(0, 0), (3, 0), (3, 2), (2, 2), (2, 1), (1, 1), (1, 2), (0, 2)]]
private def RectHole : List (Array Q) :=
  [#[(0, 0), (4, 0), (4, 4), (0, 4)], #[(1, 1), (3, 1), (3, 3), (1, 3)]]
private def RectNest : List (Array Q) :=
  [#[(0, 0), (6, 0), (6, 6), (0, 6)], #[(1, 1), (5, 1), (5, 5), (1, 5)], #[(2, 2), (4, 2), (4, 4), (2, 4)]]
private def TwoRect : List (Array Q) :=
  [#[(0, 0), (1, 0), (1, 1), (0, 1)], #[(1, 2), (2, 2), (2, 3), (1, 3)]]

-- an L: 6 - 2 triangles, area 3
example : triCountV Lshape = 4 ∧ evenOddArea2V Lshape = 6 := by decide +kernel
-- a U: 8 - 2 triangles, area 5
example : triCountV Ushape = 6 ∧ evenOddArea2V Ushape = 10 := by decide +kernel
-- a rectangle with a rectangular hole: (4 - 2) + (4 + 2) triangles, area 16 - 4
example : triCountV RectHole = 8 ∧ evenOddArea2V RectHole = 24 := by decide +kernel
example : ¬ holeLikeV (ringOf RectHole) 0 (RectHole.getD 0 #[]) ∧
    holeLikeV (ringOf RectHole) 4 (RectHole.getD 1 #[]) := by decide +kernel
-- hole and island: (4 - 2) + (4 + 2) + (4 - 2) triangles, area 36 - 16 + 4
example : triCountV RectNest = 10 ∧ evenOddArea2V RectNest = 48 := by decide +kernel
-- two rectangles with edges on a common vertical line
example : triCountV TwoRect = 4 ∧ evenOddArea2V TwoRect = 4 := by decide +kernel

-- the theorems applied: a shear with `ShOK` exists for these sets
example : ∃ ε, triCount (shP ε RectHole) = 8 ∧ evenOddArea2 (shP ε RectHole) = 24 := by
  have h3 : ∀ p ∈ RectHole, 3 ≤ p.size := by decide +kernel
  have hnd : (RectHole.flatMap Array.toList).Nodup := by decide +kernel
  obtain ⟨ε, hSh⟩ := Cav.GenVAccept.shOK_of_valid RectHole h3 hnd (by decide +kernel) (by decide +kernel)
  refine ⟨ε, ?_, ?_⟩
  · rw [triCount_shP h3 hnd hSh]; decide +kernel
  · rw [evenOddArea2_shP h3 hnd hSh]; decide +kernel

example : ∃ ε, triCount (shP ε Lshape) = 4 ∧ evenOddArea2 (shP ε Lshape) = 6 := by
  have h3 : ∀ p ∈ Lshape, 3 ≤ p.size := by decide +kernel
  have hnd : (Lshape.flatMap Array.toList).Nodup := by decide +kernel
  obtain ⟨ε, hSh⟩ := Cav.GenVAccept.shOK_of_valid Lshape h3 hnd (by decide +kernel) (by decide +kernel)
  refine ⟨ε, ?_, ?_⟩
  · rw [triCount_shP h3 hnd hSh]; decide +kernel
  · rw [evenOddArea2_shP h3 hnd hSh]; decide +kernel

end Cav.GenOutVPoly
