/-
  Rejection of crossing input, part 4: the Bend event from an arbitrary state when one of the two
  look-ahead tests of the updated edge is positive: `.overlap .bend`.
-/
import Cav.Lemmas.GenBend

set_option linter.unusedSimpArgs false
set_option linter.unusedVariables false
set_option linter.unusedSectionVars false

namespace Cav.GenXFail
open Cav Num Cav.Sweep Cav.SweepRun Cav.TriRun Cav.QuadRun Cav.CvxHeap Cav.CvxEvents Cav.SweepOut
open Cav.GenNodes Cav.GenQuery Cav.GenBend Cav.SweepHeap

variable {α : Type} [Num α]

/-- a partner of the bending edge for which the overlap test is positive -/
def PartnerBad (s : St α) (e ci : Nat) (bof : Bool) (o : Option Nat)
    (test : Pt α → Pt α → Bool) : Prop :=
  ∃ bi bp lb, o = some bi ∧ bi ≠ e ∧ s.edges[bi]? = some bp ∧ lpt? s bp = some lb ∧
    (bp.chain ≠ ci ∨ bp.bofIn = !bof) ∧ test lb bp.rpt = true

theorem wob_true (s s' : St α) (e ci : Nat) (bof : Bool) (bP tP : Option Nat) (p rp : Pt α)
    (c c' : Chain) (sb : Bool)
    (he' : s'.edges = s.edges.setIfInBounds e ⟨rp, ci, bof, bP, tP⟩) (helt : e < s.edges.size)
    (hc : s.chains[ci]? = some c) (hch : s'.chains = s.chains.setIfInBounds ci c')
    (hend : if bof then c'.tail = c.tail else c'.head = c.head)
    (hpt : ∀ i, i < s.nodes.size → ptAt s'.nodes i = ptAt s.nodes i)
    (hnew : ptAt s'.nodes (if bof then c'.head else c'.tail) = some p)
    (hB : PartnerBad s e ci bof bP (fun lb rb => wobP p rp lb rb)) :
    (willOverlapBot e sb).run s' = .ok (true, s') := by
  have hE : s'.edges[e]? = some ⟨rp, ci, bof, bP, tP⟩ := by
    rw [he', Array.getElem?_setIfInBounds_self_of_lt helt]
  obtain ⟨bi, bp, lb, hB, hne, hbp, hlb, hcb, htest⟩ := hB
  · have hE2 : s'.edges[bi]? = some bp := by
      rw [he', Array.getElem?_setIfInBounds_ne (Ne.symm hne)]; exact hbp
    have hl1 : lpt? s' ⟨rp, ci, bof, bP, tP⟩ = some p :=
      lpt_new s' ci c' bof _ p (by rw [hch, Array.getElem?_setIfInBounds_self_of_lt (lt_of_get' hc)])
        rfl rfl hnew
    have hl2 := lpt_frame s s' ci c c' bof bp lb hc hch hend hpt hcb hlb
    rw [run_wob_some s' e bi sb _ bp p lb hE hB hne hE2 hl1 hl2]
    simp only at htest
    rw [htest]

theorem wot_true (s s' : St α) (e ci : Nat) (bof : Bool) (bP tP : Option Nat) (p rp : Pt α)
    (c c' : Chain) (sb : Bool)
    (he' : s'.edges = s.edges.setIfInBounds e ⟨rp, ci, bof, bP, tP⟩) (helt : e < s.edges.size)
    (hc : s.chains[ci]? = some c) (hch : s'.chains = s.chains.setIfInBounds ci c')
    (hend : if bof then c'.tail = c.tail else c'.head = c.head)
    (hpt : ∀ i, i < s.nodes.size → ptAt s'.nodes i = ptAt s.nodes i)
    (hnew : ptAt s'.nodes (if bof then c'.head else c'.tail) = some p)
    (hT : PartnerBad s e ci bof tP (fun lt rt => wotP p rp lt rt)) :
    (willOverlapTop e sb).run s' = .ok (true, s') := by
  have hE : s'.edges[e]? = some ⟨rp, ci, bof, bP, tP⟩ := by
    rw [he', Array.getElem?_setIfInBounds_self_of_lt helt]
  obtain ⟨ti, tp, lt, hT, hne, htp, hlt, hct, htest⟩ := hT
  · have hE2 : s'.edges[ti]? = some tp := by
      rw [he', Array.getElem?_setIfInBounds_ne (Ne.symm hne)]; exact htp
    have hl1 : lpt? s' ⟨rp, ci, bof, bP, tP⟩ = some p :=
      lpt_new s' ci c' bof _ p (by rw [hch, Array.getElem?_setIfInBounds_self_of_lt (lt_of_get' hc)])
        rfl rfl hnew
    have hl2 := lpt_frame s s' ci c c' bof tp lt hc hch hend hpt hct hlt
    rw [run_wot_some s' e ti sb _ tp p lt hE hT hne hE2 hl1 hl2]
    simp only at htest
    rw [htest]

section
variable (s : St α) (vi e r pr nx a1 a2 a3 a4 a5 a6 ci : Nat) (es' : List Nat)
  (rest : List (Nat × List Nat)) (p q1 q2 rp ro : Pt α) (bof : Bool) (bP tP : Option Nat)
  (c : Chain) (h : Node α)

theorem bend_fail
    (hev : s.events = (vi, e :: es') :: rest)
    (hv : s.verts[vi]? = some ⟨p, pr, nx⟩) (h1 : s.verts[pr]? = some ⟨q1, a1, a2⟩)
    (h2 : s.verts[nx]? = some ⟨q2, a3, a4⟩)
    (hft : fromTriplet p q1 q2 = some .bend)
    (hr : (if q1.ge q2 = true then pr else nx) = r) (hrp : s.verts[r]? = some ⟨rp, a5, a6⟩)
    (hx : ofEq rp.x p.x = false)
    (hevs : ∀ a ∈ rest, a.1 < s.verts.size)
    (he : s.edges[e]? = some ⟨ro, ci, bof, bP, tP⟩)
    (hc : s.chains[ci]? = some c)
    (hN : NodesOk s.nodes)
    (hnode : s.nodes[if bof then c.head else c.tail]? = some h)
    (hBT : PartnerBad s e ci bof bP (fun lb rb => wobP p rp lb rb) ∨
      (PartnerOk s e ci bof bP (fun lb rb => wobP p rp lb rb) ∧
        PartnerBad s e ci bof tP (fun lt rt => wotP p rp lt rt))) :
    (handleNext : SM α Unit).run s = .error (.overlap .bend p) := by
  rw [handleNext_run_cons hev]
  unfold nextBody
  cases bof
  · -- the edge is the top of its in-interval: the chain grows at the tail
    simp only [Bool.false_eq_true, if_false] at hnode
    obtain ⟨hN1, hsz1, hpt1, hnew1⟩ := appT_props hN hnode p
    obtain ⟨N2, out2, hbt, hN2, hsz2, hpt2⟩ := bt_ok ⟨s.nodes.size, c.head, s.nodes.size⟩ true
      { s with events := rest, x := p.x, nodes := appT s.nodes c.tail h p,
               chains := s.chains.setIfInBounds ci ⟨s.nodes.size, c.head, s.nodes.size⟩ }
      hN1 (by simp only [if_true]; rw [hsz1]; exact Nat.lt_succ_self _)
    have hptA : ∀ i, i < s.nodes.size → ptAt N2 i = ptAt s.nodes i := fun i hi => by
      rw [hpt2 i]; exact hpt1 i hi
    have hnewA : ptAt N2 s.nodes.size = some p := by rw [hpt2]; exact hnew1
    show Runs s _ _
    sm_steps [hv, h1, h2, hft]
    unfold handleBend
    sm_steps [hv, h1, h2, hft, hr, hrp, hx, verticalIsCrossed, he, hc]
    sm_by (run_chainAppend_tail _ _ _ _ hnode)
    sm_bind
    sm_by hbt
    sm_bind [he]
    sm_bind
    rcases hBT with hB | ⟨hB, hT⟩
    · sm_by (wob_true s _ e ci false bP tP p rp c ⟨s.nodes.size, c.head, s.nodes.size⟩ true rfl
        (lt_of_get' he) hc rfl rfl hptA hnewA hB)
      sm_cond
      exact Runs.final rfl
    · sm_by (wob_false s _ e ci false bP tP p rp c ⟨s.nodes.size, c.head, s.nodes.size⟩ true rfl
        (lt_of_get' he) hc rfl rfl hptA hnewA hB)
      sm_cond
      sm_by (wot_true s _ e ci false bP tP p rp c ⟨s.nodes.size, c.head, s.nodes.size⟩ true rfl
        (lt_of_get' he) hc rfl rfl hptA hnewA hT)
      sm_cond
      exact Runs.final rfl
  · -- the edge is the bottom of its in-interval: the chain grows at the head
    simp only [if_true] at hnode
    obtain ⟨hN1, hsz1, hpt1, hnew1⟩ := appH_props hN hnode p
    obtain ⟨N2, out2, hbt, hN2, hsz2, hpt2⟩ := bt_ok ⟨s.nodes.size, s.nodes.size, c.tail⟩ false
      { s with events := rest, x := p.x, nodes := appH s.nodes c.head h p,
               chains := s.chains.setIfInBounds ci ⟨s.nodes.size, s.nodes.size, c.tail⟩ }
      hN1 (by simp only [Bool.false_eq_true, if_false]; rw [hsz1]; exact Nat.lt_succ_self _)
    have hptA : ∀ i, i < s.nodes.size → ptAt N2 i = ptAt s.nodes i := fun i hi => by
      rw [hpt2 i]; exact hpt1 i hi
    have hnewA : ptAt N2 s.nodes.size = some p := by rw [hpt2]; exact hnew1
    show Runs s _ _
    sm_steps [hv, h1, h2, hft]
    unfold handleBend
    sm_steps [hv, h1, h2, hft, hr, hrp, hx, verticalIsCrossed, he, hc]
    sm_by (run_chainAppend_head _ _ _ _ hnode)
    sm_bind
    sm_by hbt
    sm_bind [he]
    sm_bind
    rcases hBT with hB | ⟨hB, hT⟩
    · sm_by (wob_true s _ e ci true bP tP p rp c ⟨s.nodes.size, s.nodes.size, c.tail⟩ true rfl
        (lt_of_get' he) hc rfl rfl hptA hnewA hB)
      sm_cond
      exact Runs.final rfl
    · sm_by (wob_false s _ e ci true bP tP p rp c ⟨s.nodes.size, s.nodes.size, c.tail⟩ true rfl
        (lt_of_get' he) hc rfl rfl hptA hnewA hB)
      sm_cond
      sm_by (wot_true s _ e ci true bP tP p rp c ⟨s.nodes.size, s.nodes.size, c.tail⟩ true rfl
        (lt_of_get' he) hc rfl rfl hptA hnewA hT)
      sm_cond
      exact Runs.final rfl

end

end Cav.GenXFail
