/-
  Additions to the symbolic executor (`TriRun.lean`, `QuadRun.lean`) for event chains that END IN
  AN ERROR: propagation of an error through `bind` and through the event loop, the stepping
  tactics `sm_fail` / `qev_err` (an event whose handler throws), and the step from the set-up
  state and a failing event loop to the result of `sweep` / `sweepMon`.
-/
import Cav.Lemmas.QuadSetup
import Cav.Lemmas.SweepSetup

set_option linter.unusedSectionVars false

namespace Cav.BowRun
open Cav Num Cav.Sweep Cav.SweepRun Cav.TriRun Cav.QuadRun

variable {α : Type} [Num α] {β γ : Type}

/-- an error of the first statement is the error of the block -/
theorem Runs.bind_err {m : SM α β} {f : β → SM α γ} {s : St α} {e : SErr α}
    (h : m.run s = .error e) : Runs s (.error e) (m >>= f) := by
  unfold Runs
  rw [run_bind, h]

/-- the statement at the head of the program throws: a `bind` whose first statement evaluates to
    an error, or a last statement that evaluates to an error -/
syntax "sm_fail" ("[" Lean.Parser.Tactic.simpLemma,* "]")? : tactic
macro_rules
  | `(tactic| sm_fail) => `(tactic| sm_fail [])
  | `(tactic| sm_fail [$args,*]) => `(tactic|
      (sm_whnf
       first
         | (sm_is_bind; refine Runs.bind_err ?_; sm_run [$args,*])
         | (refine Runs.final ?_; sm_run [$args,*])))

/-- one pass of the event loop whose handler throws -/
syntax "sm_event_err" ("[" Lean.Parser.Tactic.simpLemma,* "]")? : tactic
macro_rules
  | `(tactic| sm_event_err) => `(tactic| sm_event_err [])
  | `(tactic| sm_event_err [$args,*]) => `(tactic|
      (refine Runs.loop_step rfl (Runs.bind_err (Runs.run ?ev))
       case ev =>
         unfold handleNext
         sm_steps [$args,*]
         first | unfold handleStart | unfold handleBend | unfold handleEnd
         sm_eval [$args,*]
         sm_fail [$args,*]))

set_option hygiene false in
/-- a failing event, with the standing hypotheses of the flow lemmas (as `qev`) -/
macro "qev_err" "[" args:Lean.Parser.Tactic.simpLemma,* "]" : tactic =>
  `(tactic| sm_event_err [h1, h2, h3, h4, f1, f2, f3, f4, c11, c12, c13, c14, c21, c22, c23, c24, c31, c32, c33, c34, c41, c42, c43, c44, e12, e13, e14, e21, e23, e24, e31, e32, e34, e41, e42, e43, x11, x12, x13, x14, x21, x22, x23, x24, x31, x32, x33, x34, x41, x42, x43, x44, m12, m13, m14, m21, m23, m24, m31, m32, m34, m41, m42, m43,
      fromTriplet, Pt.lt, Pt.gt, Pt.ge, run_cmpEdge, run_cmpAt, run_partialCmpEdge, run_yAt,
      run_edgeGrad, lpt?, lptD, verticalIsCrossed, verticalIsCrossed.go, eventsAdd, eventsAdd.go,
      search, searchPos, cmpAll, isMono, activeInsert, activeRemove, willOverlapBot, willOverlapTop,
      chainAppend, chainSplit, chainMerge, backTriangulate, nodeTriangulate, nodeFuel,
      except_map_ok, cmpEdgeP_self, $args,*])

/-- from the set-up state and a failing run of the event loop to the result of `sweep` -/
theorem sweep_quad_err {A B C D : Pt XQ} {evs : List (Nat × List Nat)} {e : SErr XQ}
    (hsetup : (forIn [#[A, B, C, D]] ([] : List (Pt XQ)) SweepSetup.polyBody).run (initSt : St XQ) =
      .ok ([D, C, B, A], stQ (QuadSetup.ringQ A B C D) evs))
    (hr : Runs (stQ (QuadSetup.ringQ A B C D) evs) (.error e) (loop 5)) :
    sweep [#[A, B, C, D]] = .error e := by
  unfold sweep
  rw [SweepSetup.run_eq, hsetup]
  simp only []
  rw [show (stQ (QuadSetup.ringQ A B C D) evs).verts.size + 1 = 5 from rfl, hr.run]

/-- the same for `sweepMon` -/
theorem sweepMon_quad_err {A B C D : Pt XQ} {evs : List (Nat × List Nat)} {e : SErr XQ}
    (hsetup : (forIn [#[A, B, C, D]] ([] : List (Pt XQ)) SweepSetup.polyBody).run (initSt : St XQ) =
      .ok ([D, C, B, A], stQ (QuadSetup.ringQ A B C D) evs))
    (hr : Runs (stQ (QuadSetup.ringQ A B C D) evs) (.error e) (loop 5)) :
    sweepMon [#[A, B, C, D]] = .error e := by
  unfold sweepMon
  rw [SweepSetup.run_eq, hsetup]
  simp only []
  rw [show (stQ (QuadSetup.ringQ A B C D) evs).verts.size + 1 = 5 from rfl, hr.run]

end Cav.BowRun
