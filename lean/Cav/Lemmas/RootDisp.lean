/-
  Helper lemmas for `Thm/C11Roots` (display level): the two projections of `chainPairs`, the
  interior boundaries of a list of displays, and the distance from a cluster mean of
  `clusterRoots` to a member of the clustered list.
-/
import Cav.Thm.C11
import Cav.Thm.C13
import Cav.Thm.C13Split

namespace Cav.C11Roots
open Cav Num Gen Cav.SplitL

section Structural
variable {α : Type}

/-- the right ends of the consecutive pairs of `a :: mid ++ [b]` are `mid ++ [b]` -/
theorem chainPairs_map_snd (a b : α) (mid : List α) :
    (chainPairs (a :: mid ++ [b])).map Prod.snd = mid ++ [b] := by
  induction mid generalizing a with
  | nil => simp [chainPairs]
  | cons m rest ih =>
    have h := ih m
    simp only [List.cons_append, chainPairs, List.map_cons] at h ⊢
    rw [h]

/-- the left ends of the consecutive pairs of `a :: mid ++ [b]` are `a :: mid` -/
theorem chainPairs_map_fst (a b : α) (mid : List α) :
    (chainPairs (a :: mid ++ [b])).map Prod.fst = a :: mid := by
  induction mid generalizing a with
  | nil => simp [chainPairs]
  | cons m rest ih =>
    have h := ih m
    simp only [List.cons_append, chainPairs, List.map_cons] at h ⊢
    rw [h]

/-- the interior piece boundaries of a list of displays: the right ends of all pieces but the
    last (for a chain these are also the left ends of all pieces but the first, see
    `cav_interior_boundaries`, `rs_interior_boundaries`) -/
def interiorBoundaries (ds : List (Disp2D α)) : List α := (ds.map (·.b)).dropLast

/-- from the end points of the pieces to the interior boundaries -/
theorem interiorBoundaries_of_ends (ds : List (Disp2D α)) (a b : α) (splits : List α)
    (he : ds.map (fun d => (d.a, d.b)) = chainPairs (a :: splits ++ [b])) :
    interiorBoundaries ds = splits ∧ (ds.map (·.a)).tail = splits := by
  have h1 : ds.map (·.b) = (ds.map (fun d => (d.a, d.b))).map Prod.snd := by
    rw [List.map_map]; rfl
  have h2 : ds.map (·.a) = (ds.map (fun d => (d.a, d.b))).map Prod.fst := by
    rw [List.map_map]; rfl
  constructor
  · rw [interiorBoundaries, h1, he, chainPairs_map_snd, List.dropLast_concat]
  · rw [h2, he, chainPairs_map_fst, List.tail_cons]

end Structural

/-- **every cluster mean lies within `2·tol` of a member of the clustered list** (the first member
    of its cluster), for a non-negative tolerance -/
theorem clusterRoots_near_member (tol : Rat) (m : Array Rat) (h0 : 0 ≤ tol) :
    ∀ x ∈ clusterRoots tol m, ∃ y ∈ m.toList, |x - y| ≤ 2 * tol := by
  obtain ⟨e, hfl, hg⟩ := C13Split.cluster_width tol m h0
  intro x hx
  rw [e] at hx
  obtain ⟨g, hgm, rfl⟩ := List.mem_map.mp hx
  obtain ⟨hne, hw⟩ := hg g hgm
  have hhead : g.headD 0 ∈ g := by
    cases g with
    | nil => exact absurd rfl hne
    | cons y ys => simp
  refine ⟨g.headD 0, ?_, ?_⟩
  · rw [← hfl]
    exact List.mem_flatten.mpr ⟨g, hgm, hhead⟩
  · have hb := mean_bounds g (g.headD 0 - 2 * tol) (g.headD 0 + 2 * tol) hne (fun y hy => by
      have := abs_le.mp (hw y hy)
      constructor <;> linarith [this.1, this.2])
    rw [abs_le]
    constructor <;> linarith [hb.1, hb.2]

end Cav.C11Roots
